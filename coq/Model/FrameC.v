(* Executable byte-level model of the LZ4F compression API (lib/lz4frame.c:
   LZ4F_getBlockSize, LZ4F_optimalBSID, LZ4F_compressBegin_internal, LZ4F_makeBlock,
   LZ4F_selectCompression, LZ4F_compressUpdateImpl, LZ4F_flush, LZ4F_compressEnd,
   LZ4F_compressFrame_usingCDict, LZ4F_compressFrame), one Gallina function per C
   function, same decisions in the same order.

   ABSTRACTIONS (all named in the TRUSTED list of harness/py/props/c03.py):
   * the block compressor called by LZ4F_makeBlock is the Section variable [blk]:
     [blk n hist src] = bytes produced by the n-th call of the compress function
     pointer ([None] = it returned 0).  [hist] is the history the LZ4F layer OFFERS to
     that call: nothing for one-shot calls without CDict, the CDict content for one-shot
     calls with a CDict, the last 64 KB of (dictionary ++ everything the stream has
     compressed in this frame) for the *_continue calls.  Where that history physically
     lives (tmpIn moving inside tmpBuff, LZ4F_localSaveDict, stableSrc, relocation when
     tmpIn+blockSize passes maxBufferSize) is NOT modelled: the model keeps the bytes,
     not their addresses.
   * destination capacities are assumed sufficient (every dstMaxSize_tooSmall test is
     omitted); malloc succeeds; dictSize > INT_MAX is modelled but never exercised (and the
     state it leaves behind is not modelled).
   * the lz4/lz4hc context type bookkeeping (lz4CtxAlloc/lz4CtxType) is not modelled. *)
From Coq Require Import ZArith List Bool.
From LZ4V Require Import Spec.BlockSpec Spec.XXH32 Gen.Consts.
Import ListNotations.
Local Open Scope Z_scope.

Definition len (l : list byte) : Z := Z.of_nat (length l).
Definition U64 : Z := 18446744073709551616.
Definition errZ (code : Z) : Z := U64 - code.          (* (size_t)-(ptrdiff_t)code *)
Definition lastZ (n : Z) (l : list byte) : list byte := skipn (length l - Z.to_nat n) l.

(* LZ4F_writeLE32 / LZ4F_writeLE64: byte k is (BYTE)(value >> 8k) *)
Definition writeLE32 (v : Z) : list byte :=
  [v mod 256; (v / 256) mod 256; (v / 65536) mod 256; (v / 16777216) mod 256].
Definition writeLE64 (v : Z) : list byte :=
  [v mod 256; (v / 256) mod 256; (v / 65536) mod 256; (v / 16777216) mod 256;
   (v / 4294967296) mod 256; (v / 1099511627776) mod 256; (v / 281474976710656) mod 256;
   (v / 72057594037927936) mod 256].

(* LZ4F_preferences_t (frameType and reserved fields are not read by the compressor) *)
Record prefs := mkPrefs {
  p_bsid : Z; p_blockMode : Z; p_ccrc : Z; p_contentSize : Z; p_dictID : Z; p_bcrc : Z;
  p_level : Z; p_autoFlush : Z; p_favorDec : Z }.
Definition prefs_null : prefs := mkPrefs 0 0 0 0 0 0 0 0 0.       (* LZ4F_INIT_PREFERENCES / memset 0 *)
Definition set_bsid (p : prefs) (v : Z) : prefs :=
  mkPrefs v (p_blockMode p) (p_ccrc p) (p_contentSize p) (p_dictID p) (p_bcrc p) (p_level p) (p_autoFlush p) (p_favorDec p).
Definition set_blockMode (p : prefs) (v : Z) : prefs :=
  mkPrefs (p_bsid p) v (p_ccrc p) (p_contentSize p) (p_dictID p) (p_bcrc p) (p_level p) (p_autoFlush p) (p_favorDec p).
Definition set_contentSize (p : prefs) (v : Z) : prefs :=
  mkPrefs (p_bsid p) (p_blockMode p) (p_ccrc p) v (p_dictID p) (p_bcrc p) (p_level p) (p_autoFlush p) (p_favorDec p).
Definition set_autoFlush (p : prefs) (v : Z) : prefs :=
  mkPrefs (p_bsid p) (p_blockMode p) (p_ccrc p) (p_contentSize p) (p_dictID p) (p_bcrc p) (p_level p) v (p_favorDec p).

(* result of an API call: error code (LZ4F_errorCodes value), or the bytes written *)
Inductive res := Err (code : Z) | Out (bytes : list byte) | OutOfFuel.

(* LZ4F_cctx_t, bytes instead of pointers *)
Record cctx := mkCctx {
  c_prefs : prefs;
  c_stage : Z;                      (* cStage *)
  c_cdict : option (list byte);     (* content held by the attached LZ4F_CDict *)
  c_dict : list byte;               (* what LZ4_loadDict(HC) retained of dictBuffer *)
  c_maxBlock : Z;                   (* maxBlockSize *)
  c_tmp : list byte;                (* tmpIn[0 .. tmpInSize) *)
  c_totalIn : Z;                    (* totalInSize (U64) *)
  c_xxh : list byte;                (* bytes fed to the XXH32 state since XXH32_reset *)
  c_mode : Z;                       (* blockCompressMode *)
  c_hist : list byte;               (* bytes the lz4 stream has compressed since LZ4F_initStream at Begin *)
  c_nblk : nat }.                   (* number of LZ4F_makeBlock calls made on this context *)
Definition cctx_zero : cctx := mkCctx prefs_null 0 None [] 0 [] 0 [] 0 [] O.   (* calloc *)
Definition set_tmp (c : cctx) (v : list byte) : cctx :=
  mkCctx (c_prefs c) (c_stage c) (c_cdict c) (c_dict c) (c_maxBlock c) v (c_totalIn c) (c_xxh c) (c_mode c) (c_hist c) (c_nblk c).
Definition set_mode (c : cctx) (v : Z) : cctx :=
  mkCctx (c_prefs c) (c_stage c) (c_cdict c) (c_dict c) (c_maxBlock c) (c_tmp c) (c_totalIn c) (c_xxh c) v (c_hist c) (c_nblk c).
Definition set_stage (c : cctx) (v : Z) : cctx :=
  mkCctx (c_prefs c) v (c_cdict c) (c_dict c) (c_maxBlock c) (c_tmp c) (c_totalIn c) (c_xxh c) (c_mode c) (c_hist c) (c_nblk c).
Definition set_input (c : cctx) (x : list byte) (t : Z) : cctx :=
  mkCctx (c_prefs c) (c_stage c) (c_cdict c) (c_dict c) (c_maxBlock c) (c_tmp c) t x (c_mode c) (c_hist c) (c_nblk c).
Definition set_blk (c : cctx) (h : list byte) : cctx :=
  mkCctx (c_prefs c) (c_stage c) (c_cdict c) (c_dict c) (c_maxBlock c) (c_tmp c) (c_totalIn c) (c_xxh c) (c_mode c) h (S (c_nblk c)).

(* LZ4F_getBlockSize: a size, or an error code as size_t *)
Definition getBlockSize (bsid : Z) : Z :=
  let bsid := if bsid =? 0 then LZ4F_BLOCKSIZEID_DEFAULT else bsid in
  if (bsid <? LZ4F_max64KB) || (LZ4F_max4MB <? bsid) then errZ FC_ERR_maxBlockSize_invalid
  else nth (Z.to_nat (bsid - LZ4F_max64KB))
           [LZ4F_blockSize_4; LZ4F_blockSize_5; LZ4F_blockSize_6; LZ4F_blockSize_7] 0.

(* LZ4F_optimalBSID *)
Fixpoint optimalBSID_loop (fuel : nat) (requested proposed maxBlockSize srcSize : Z) : Z :=
  match fuel with
  | O => requested
  | S k => if proposed <? requested then
             if srcSize <=? maxBlockSize then proposed
             else optimalBSID_loop k requested (proposed + 1) ((maxBlockSize * 4) mod U64) srcSize
           else requested
  end.
Definition optimalBSID (requested srcSize : Z) : Z :=
  optimalBSID_loop (Z.to_nat requested) requested LZ4F_max64KB FC_64KB srcSize.

(* which function LZ4F_selectCompression returns *)
Inductive cfunc := CF_none | CF_block | CF_block_continue | CF_HC | CF_HC_continue.
Definition selectCompression (blockMode level compressMode : Z) : cfunc :=
  if compressMode =? FC_LZ4B_UNCOMPRESSED then CF_none
  else if level <? LZ4HC_CLEVEL_MIN then
    (if blockMode =? FC_blockIndependent then CF_block else CF_block_continue)
  else (if blockMode =? FC_blockIndependent then CF_HC else CF_HC_continue).

Inductive dictkind := NoDict | UsingDict (d : list byte) | UsingCDict (d : list byte).
(* LZ4F_createCDict keeps the last 64 KB *)
Definition createCDict (d : list byte) : list byte := lastZ FC_64KB d.
Definition dict_of (dk : dictkind) : list byte :=
  match dk with NoDict => [] | UsingDict d => d | UsingCDict d => d end.

(* frame header, lz4frame.c:779-809 *)
Definition flg_byte (p : prefs) : Z :=
  ((Z.land 1 FC_2BITS) * 64 + (Z.land (p_blockMode p) FC_1BIT) * 32 + (Z.land (p_bcrc p) FC_1BIT) * 16
   + (if 0 <? p_contentSize p then 1 else 0) * 8 + (Z.land (p_ccrc p) FC_1BIT) * 4
   + (if 0 <? p_dictID p then 1 else 0)) mod 256.
Definition bd_byte (p : prefs) : Z := ((Z.land (p_bsid p) FC_3BITS) * 16) mod 256.
Definition descriptor (p : prefs) : list byte :=
  [flg_byte p; bd_byte p]
  ++ (if negb (p_contentSize p =? 0) then writeLE64 (p_contentSize p) else [])
  ++ (if negb (p_dictID p =? 0) then writeLE32 (p_dictID p) else []).
Definition headerChecksum (desc : list byte) : Z := (xxh32 0 desc / 256) mod 256.   (* (BYTE)(xxh >> 8) *)
Definition frame_header (p : prefs) : list byte :=
  writeLE32 LZ4F_MAGICNUMBER ++ descriptor p ++ [headerChecksum (descriptor p)].

(* LZ4F_isError on a size_t result *)
Definition isError (v : Z) : bool := errZ FC_ERR_maxCode <? v.

(* LZ4F_compressBegin_internal (dictBuffer and cdict are never both given).
   An invalid blockSizeID is refused (FORWARD_IF_ERROR on LZ4F_getBlockSize); at that point the
   preferences have already been copied into the context. *)
Definition compressBegin_internal (c : cctx) (dictBuffer cdict : option (list byte)) (po : option prefs)
  : res * cctx :=
  let p0 := match po with Some p => p | None => prefs_null end in
  let p := if p_bsid p0 =? 0 then set_bsid p0 LZ4F_BLOCKSIZEID_DEFAULT else p0 in
  let maxBlock := getBlockSize (p_bsid p) in
  if isError maxBlock then
    (Err (U64 - maxBlock),
     mkCctx p (c_stage c) (c_cdict c) (c_dict c) maxBlock (c_tmp c) (c_totalIn c) (c_xxh c) (c_mode c) (c_hist c) (c_nblk c))
  else
  match (match dictBuffer with Some d => if FC_INT_MAX <? len d then None else Some (lastZ FC_64KB d)
                             | None => Some [] end) with
  | None => (Err FC_ERR_parameter_invalid, c)
  | Some loaded =>
    (Out (frame_header p),
     mkCctx p 1 cdict loaded maxBlock []
            (if negb (p_contentSize p =? 0) then 0 else c_totalIn c) [] (c_mode c) [] (c_nblk c))
  end.
Definition compressBegin (c : cctx) (po : option prefs) (dk : dictkind) : res * cctx :=
  match dk with
  | NoDict => compressBegin_internal c None None po
  | UsingDict d => compressBegin_internal c (Some d) None po
  | UsingCDict d => compressBegin_internal c None (Some (createCDict d)) po
  end.

(* the preferences LZ4F_compressFrame_usingCDict passes to compressBegin: content size corrected,
   block size reduced to fit, autoFlush forced, a single block made independent *)
Definition compressFrame_prefs (po : option prefs) (srcSize : Z) : prefs :=
  let p0 := match po with Some p => p | None => prefs_null end in
  let p1 := if negb (p_contentSize p0 =? 0) then set_contentSize p0 srcSize else p0 in
  let p2 := set_autoFlush (set_bsid p1 (optimalBSID (p_bsid p1) srcSize)) 1 in
  if srcSize <=? getBlockSize (p_bsid p2) then set_blockMode p2 FC_blockIndependent else p2.

Section WithBlockCompressor.
  Variable blk : nat -> list byte -> list byte -> option (list byte).

  (* history offered to the compress function (see header comment) *)
  Definition history (c : cctx) (f : cfunc) : list byte :=
    match f with
    | CF_none => []
    | CF_block | CF_HC => match c_cdict c with Some d => d | None => [] end
    | CF_block_continue | CF_HC_continue =>
        lastZ FC_64KB ((match c_cdict c with Some d => d | None => c_dict c end) ++ c_hist c)
    end.

  (* LZ4F_makeBlock *)
  Definition makeBlock (c : cctx) (src : list byte) (f : cfunc) : list byte * cctx :=
    let srcSize := len src in
    let cres := match f with CF_none => None | _ => blk (c_nblk c) (history c f) src end in
    let cSize := match cres with Some cb => len cb | None => 0 end in
    let stored := if (cSize =? 0) || (srcSize <=? cSize) then src
                  else match cres with Some cb => cb | None => [] end in
    let hdr := if (cSize =? 0) || (srcSize <=? cSize)
               then writeLE32 (Z.lor srcSize LZ4F_BLOCKUNCOMPRESSED_FLAG) else writeLE32 cSize in
    let crc := if negb (p_bcrc (c_prefs c) =? 0) then writeLE32 (xxh32 0 stored) else [] in
    (hdr ++ stored ++ crc,
     set_blk c (match f with CF_block_continue | CF_HC_continue => c_hist c ++ src | _ => c_hist c end)).

  (* LZ4F_flush *)
  Definition flush (c : cctx) : res * cctx :=
    if len (c_tmp c) =? 0 then (Out [], c)
    else if negb (c_stage c =? 1) then (Err FC_ERR_compressionState_uninitialized, c)
    else
      let f := selectCompression (p_blockMode (c_prefs c)) (p_level (c_prefs c)) (c_mode c) in
      let '(o, c1) := makeBlock c (c_tmp c) f in
      (Out o, set_tmp c1 []).

  (* the "compress full blocks" loop of LZ4F_compressUpdateImpl *)
  Fixpoint fullBlocks (fuel : nat) (c : cctx) (f : cfunc) (blockSize : Z) (src : list byte)
    : option (list byte * cctx * list byte) :=
    match fuel with
    | O => None
    | S k =>
      if blockSize <=? len src then
        let '(o, c1) := makeBlock c (firstn (Z.to_nat blockSize) src) f in
        match fullBlocks k c1 f blockSize (skipn (Z.to_nat blockSize) src) with
        | Some (o2, c2, r) => Some (o ++ o2, c2, r)
        | None => None
        end
      else Some ([], c, src)
    end.

  (* LZ4F_compressUpdateImpl *)
  Definition compressUpdateImpl (c : cctx) (src : list byte) (blockCompression : Z) : res * cctx :=
    let p := c_prefs c in
    let blockSize := c_maxBlock c in
    let f := selectCompression (p_blockMode p) (p_level p) blockCompression in
    if negb (c_stage c =? 1) then (Err FC_ERR_compressionState_uninitialized, c) else
    (* flush currently written block, to continue with new block compression *)
    match (if negb (c_mode c =? blockCompression) then
             match flush c with
             | (Out o, c1) => inl (o, set_mode c1 blockCompression)
             | (r, c1) => inr (r, c1)
             end
           else inl ([], c)) with
    | inr e => e
    | inl (o0, c0) =>
      (* complete tmp buffer *)
      let '(o1, c1, rest1) :=
        if 0 <? len (c_tmp c0) then
          let sizeToCopy := blockSize - len (c_tmp c0) in
          if len src <? sizeToCopy then ([], set_tmp c0 (c_tmp c0 ++ src), [])
          else
            let '(o, c') := makeBlock c0 (c_tmp c0 ++ firstn (Z.to_nat sizeToCopy) src) f in
            (o, set_tmp c' [], skipn (Z.to_nat sizeToCopy) src)
        else ([], c0, src) in
      (* compress full blocks *)
      match fullBlocks (S (length rest1)) c1 f blockSize rest1 with
      | None => (OutOfFuel, c1)
      | Some (o2, c2, rest2) =>
        (* autoFlush : remaining input (< blockSize) is compressed *)
        let '(o3, c3, rest3) :=
          if negb (p_autoFlush p =? 0) && (0 <? len rest2) then
            let '(o, c') := makeBlock c2 rest2 f in (o, c', [])
          else ([], c2, rest2) in
        (* some input data left, necessarily < blockSize : fill tmp buffer *)
        let c4 := if 0 <? len rest3 then set_tmp c3 rest3 else c3 in
        let c5 := set_input c4 (if p_ccrc p =? FC_contentChecksumEnabled then c_xxh c4 ++ src else c_xxh c4)
                            ((c_totalIn c4 + len src) mod U64) in
        (Out (o0 ++ o1 ++ o2 ++ o3), c5)
      end
    end.

  Definition compressUpdate (c : cctx) (src : list byte) := compressUpdateImpl c src FC_LZ4B_COMPRESSED.
  Definition uncompressedUpdate (c : cctx) (src : list byte) := compressUpdateImpl c src FC_LZ4B_UNCOMPRESSED.

  (* LZ4F_compressEnd *)
  Definition compressEnd (c : cctx) : res * cctx :=
    match flush c with
    | (Out o, c1) =>
      let endmark := writeLE32 0 in
      let crc := if p_ccrc (c_prefs c1) =? FC_contentChecksumEnabled then writeLE32 (xxh32 0 (c_xxh c1)) else [] in
      let c2 := set_stage c1 0 in
      if negb (p_contentSize (c_prefs c2) =? 0) && negb (p_contentSize (c_prefs c2) =? c_totalIn c2)
      then (Err FC_ERR_frameSize_wrong, c2)
      else (Out (o ++ endmark ++ crc), c2)
    | (r, c1) => (r, c1)
    end.

  (* LZ4F_compressFrame_usingCDict (cdict = content of the CDict, if any) *)
  Definition compressFrame_usingCDict (c : cctx) (src : list byte) (cdict : option (list byte))
             (po : option prefs) : res * cctx :=
    let p3 := compressFrame_prefs po (len src) in
    match compressBegin_internal c None cdict (Some p3) with
    | (Out hdr, c1) =>
      match compressUpdate c1 src with
      | (Out body, c2) =>
        match compressEnd c2 with
        | (Out tail, c3) => (Out (hdr ++ body ++ tail), c3)
        | (r, c3) => (r, c3)
        end
      | (r, c2) => (r, c2)
      end
    | (r, c1) => (r, c1)
    end.
  (* LZ4F_compressFrame: a fresh context *)
  Definition compressFrame (src : list byte) (po : option prefs) : res :=
    fst (compressFrame_usingCDict cctx_zero src None po).

  (* ---- sessions ---- *)
  Inductive op :=
  | OBegin (po : option prefs) (dk : dictkind)
  | OUpdate (src : list byte) | OUncompressed (src : list byte) | OFlush | OEnd
  | OFrame (po : option prefs) (cd : option (list byte)) (src : list byte).
  Definition step (c : cctx) (o : op) : res * cctx :=
    match o with
    | OBegin po dk => compressBegin c po dk
    | OUpdate s => compressUpdate c s
    | OUncompressed s => uncompressedUpdate c s
    | OFlush => flush c
    | OEnd => compressEnd c
    | OFrame po cd s => compressFrame_usingCDict c s (match cd with Some d => Some (createCDict d) | None => None end) po
    end.
  Fixpoint run (c : cctx) (ops : list op) : list res * cctx :=
    match ops with
    | [] => ([], c)
    | o :: r => let '(x, c1) := step c o in let '(xs, c2) := run c1 r in (x :: xs, c2)
    end.

  (* ---- one frame: Begin, any list of update/uncompressedUpdate/flush calls, End ---- *)
  Inductive mop := MUpdate (src : list byte) | MUncompressed (src : list byte) | MFlush.
  Definition step_mop (c : cctx) (m : mop) : res * cctx :=
    match m with
    | MUpdate s => compressUpdate c s
    | MUncompressed s => uncompressedUpdate c s
    | MFlush => flush c
    end.
  (* all calls must succeed: concatenated output and final context *)
  Fixpoint run_mops (c : cctx) (ms : list mop) : option (list byte * cctx) :=
    match ms with
    | [] => Some ([], c)
    | m :: r =>
      match step_mop c m with
      | (Out o, c1) => match run_mops c1 r with Some (o2, c2) => Some (o ++ o2, c2) | None => None end
      | _ => None
      end
    end.
  Fixpoint mop_inputs (ms : list mop) : list byte :=
    match ms with
    | [] => []
    | MUpdate s :: r => s ++ mop_inputs r
    | MUncompressed s :: r => s ++ mop_inputs r
    | MFlush :: r => mop_inputs r
    end.
  Definition is_uncompressed (m : mop) : bool := match m with MUncompressed _ => true | _ => false end.
  (* (frame bytes, input bytes) of a frame in which no call reports an error *)
  Definition session (c0 : cctx) (po : option prefs) (dk : dictkind) (ms : list mop)
    : option (list byte * list byte) :=
    match compressBegin c0 po dk with
    | (Out hdr, c1) =>
      match run_mops c1 ms with
      | Some (body, c2) =>
        match compressEnd c2 with
        | (Out tail, _) => Some (hdr ++ body ++ tail, mop_inputs ms)
        | _ => None
        end
      | None => None
      end
    | _ => None
    end.
End WithBlockCompressor.
