(* Models of the compression pipelines of programs/lz4io.c as pure functions of (options, input):
     LZ4IO_compressFilename_extRess_ST   (session over blockSize-sized reads, single-pass shortcut)
     LZ4IO_compressFilename_extRess_MT   (single-pass shortcut, else header ++ one LZ4IO_compressFrameChunk
                                          per 4 MB job ++ end mark ++ externally computed content checksum)
     LZ4IO_compressLegacy_internal       (magic ++ per 8 MB block: LE32 size ++ LZ4 block)
   The library compressors are Section variables (their contracts are properties C01/C03/C07).
   Second part: the *layout* (frame descriptor + decoded size of every block) each pipeline
   produces, executable, compared with the structure of the real outputs.
   No proofs here (Proofs/CliProofs.v). *)
From Coq Require Import ZArith List Bool.
From LZ4V Require Import Gen.Consts Spec.BlockSpec Spec.XXH32 Spec.FrameSpec Model.Sparse Model.CliOpts.
Import ListNotations.
Local Open Scope Z_scope.

(* fread(buf, 1, sz, f) until it returns 0: the successive non-empty reads of a file whose content is l.
   Fuel S (length l) always suffices when sz >= 1 (Proofs: chunks_of_concat shows nothing is lost). *)
Fixpoint chunks (fuel : nat) (sz : Z) (l : list Z) : list (list Z) :=
  match fuel with
  | O => []
  | S f => match l with
           | [] => []
           | _ :: _ => takeZ sz l :: chunks f sz (dropZ sz l)
           end
  end.
Definition chunks_of (sz : Z) (l : list Z) : list (list Z) := chunks (S (length l)) sz l.

Definition CHUNK : Z := CLI_CHUNK_SIZE.           (* 4 MB : chunkSize of the MT path *)
Definition PREFIX : Z := CLI_PREFIX_SIZE.         (* 64 KB *)
Definition linked (p : lz4f_prefs) : bool := fp_blockMode p =? CLI_LZ4F_BLOCK_LINKED.
Definition no_ccrc (p : lz4f_prefs) : lz4f_prefs :=    (* prefs.frameInfo.contentChecksumFlag = LZ4F_noContentChecksum *)
  mkFp (fp_blockMode p) (fp_blockSizeID p) (fp_blockChecksum p) 0 (fp_contentSize p) (fp_level p)
       (fp_autoFlush p) (fp_favorDecSpeed p).

Section Pipeline.
  (* bytes written by LZ4F_compressBegin / _usingCDict / _usingDict for these preferences *)
  Variable LZ4F_header : lz4f_prefs -> list Z.
  (* LZ4F_compressFrame_usingCDict(ctx, .., src, cdict, prefs) *)
  Variable LZ4F_frame : lz4f_prefs -> list Z -> list Z -> list Z.
  (* bytes returned by one LZ4F_compressUpdate(input) in a session begun with [dict] that has
     already been given the inputs [prev] (in that order) *)
  Variable LZ4F_update : lz4f_prefs -> list Z -> list (list Z) -> list Z -> list Z.
  (* LZ4F_compressEnd of a session that consumed [content] *)
  Variable LZ4F_end : lz4f_prefs -> list Z -> list Z.
  (* LZ4_compress_fast (level < 3, acceleration = -level when negative) / LZ4_compress_HC *)
  Variable LZ4_block : Z -> list Z -> list Z.

  (* ---- LZ4IO_compressFilename_extRess_ST ---- *)
  Fixpoint st_updates (p : lz4f_prefs) (dict : list Z) (prev : list (list Z)) (cs : list (list Z)) : list Z :=
    match cs with
    | [] => []
    | c :: r => LZ4F_update p dict prev c ++ st_updates p dict (prev ++ [c]) r
    end.
  Definition st_output (p : lz4f_prefs) (blockSize : Z) (dict content : list Z) : list Z :=
    if lenZ content <? blockSize then LZ4F_frame p dict content           (* readSize < blockSize *)
    else LZ4F_header p ++ st_updates p dict [] (chunks_of blockSize content) ++ LZ4F_end p content.

  (* ---- LZ4IO_compressFilename_extRess_MT ---- *)
  (* what LZ4IO_readAndProcess leaves in rjd->prefix before job [k] is created: the last 64 KB of chunk k-1 *)
  Definition prefix_of (cs : list (list Z)) (k : nat) : list Z :=
    match k with O => [] | S k' => lastn (Z.to_nat PREFIX) (nth k' cs []) end.
  (* LZ4IO_compressFrameChunk for the job of rank k: fresh context, begun with the 64 KB prefix when blocks
     are linked (k >= 1), else with the CDict; one LZ4F_compressUpdate; the header it wrote is overwritten *)
  Definition mt_chunk (p : lz4f_prefs) (dict : list Z) (cs : list (list Z)) (k : nat) : list Z :=
    let p' := no_ccrc p in
    let d := if linked p && negb (Nat.eqb k 0) then prefix_of cs k else dict in
    LZ4F_update p' d [] (nth k cs []).
  Definition mt_tail (p : lz4f_prefs) (content : list Z) : list Z :=
    le_bytes 4 0 ++ (if fp_contentChecksum p =? 0 then [] else le_bytes 4 (xxh32 0 content)).
  Definition mt_output (p : lz4f_prefs) (dict content : list Z) : list Z :=
    if lenZ content <? CHUNK then LZ4F_frame p dict content              (* readSize < chunkSize *)
    else let cs := chunks_of CHUNK content in
         LZ4F_header p ++ concat (map (mt_chunk p dict cs) (List.seq 0%nat (length cs))) ++ mt_tail p content.

  (* the same file as assembled at run time: the writer thread receives (rank, bytes) in completion
     order; [wr] = the buffers LZ4IO_checkWriteOrder (write register) hands to fwrite, in order *)
  Definition mt_assembled (wr : list (Z * list Z) -> list (list Z)) (p : lz4f_prefs) (content : list Z)
             (arrivals : list (Z * list Z)) : list Z :=
    LZ4F_header p ++ concat (wr arrivals) ++ mt_tail p content.

  (* ---- LZ4IO_compressLegacy_internal ---- *)
  Definition legacy_block (level : Z) (c : list Z) : list Z :=
    let b := LZ4_block level c in le_bytes 4 (lenZ b) ++ b.
  Definition legacy_output (level : Z) (content : list Z) : list Z :=
    le_bytes 4 LEGACY_MAGICNUMBER ++ concat (map (legacy_block level) (chunks_of LEGACY_BLOCKSIZE content)).

  (* ---- what `lz4 [options] file` writes: dispatch of lz4cli.c main() / LZ4IO_compressFilename_extRess.
     [mt] = LZ4IO_MULTITHREAD build; [s] = parsed options; [fileSize] = UTIL_getOpenFileSize of the source
     (0 when unknown: pipe); [dict] = content LZ4IO_createDict loaded for -D ([] without -D). ---- *)
  Definition cli_compress (mt : bool) (s : cli_state) (fileSize : Z) (dict content : list Z) : list Z :=
    if c_legacy s then legacy_output (c_level s) content
    else if mt then mt_output (prefs_of s fileSize) dict content
    else st_output (prefs_of s fileSize) (io_blockSize (c_prefs s)) dict content.
End Pipeline.

(* ======================= layouts (executable, no library bytes involved) ======================= *)
(* sizes of the successive reads of an n-byte file in units of sz *)
Fixpoint piece_sizes (fuel : nat) (n sz : Z) : list Z :=
  match fuel with
  | O => []
  | S f => if n <=? 0 then [] else (if n <? sz then n else sz) :: piece_sizes f (n - sz) sz
  end.
Definition pieces (n sz : Z) : list Z := piece_sizes (S (Z.to_nat (n / sz))) n sz.

(* library behaviour used by the layout only (belongs to the LZ4F model of C03/C07):
   LZ4F_getBlockSize, LZ4F_optimalBSID, descriptor written by LZ4F_compressBegin, block cutting of
   LZ4F_compressUpdate with autoFlush = 1 *)
Definition lz4f_block_size (id : Z) : Z :=
  if id =? 5 then LZ4F_blockSize_5 else if id =? 6 then LZ4F_blockSize_6
  else if id =? 7 then LZ4F_blockSize_7 else LZ4F_blockSize_4.
Fixpoint optimal_bsid_loop (fuel : nat) (req proposed maxb srcSize : Z) : Z :=
  match fuel with
  | O => req
  | S f => if req >? proposed then
             if srcSize <=? maxb then proposed
             else optimal_bsid_loop f req (proposed + 1) (maxb * 4) srcSize
           else req
  end.
Definition optimal_bsid (req srcSize : Z) : Z := optimal_bsid_loop 8 req LZ4F_max64KB LZ4F_blockSize_4 srcSize.

Record layout := mkLayout {
  l_indep : bool; l_bcrc : bool; l_csize : option Z; l_ccrc : bool; l_bsid : Z;
  l_blocks : list Z }.               (* decoded size of every data block, in order *)

Definition desc_layout (p : lz4f_prefs) (blocks : list Z) : layout :=
  mkLayout (negb (linked p)) (negb (fp_blockChecksum p =? 0))
           (if fp_contentSize p =? 0 then None else Some (fp_contentSize p))
           (negb (fp_contentChecksum p =? 0))
           (if fp_blockSizeID p =? 0 then 4 else fp_blockSizeID p) blocks.

(* LZ4F_compressFrame_usingCDict on n bytes *)
Definition frame_layout (p : lz4f_prefs) (n : Z) : layout :=
  let bsid := optimal_bsid (fp_blockSizeID p) n in
  let bmode := if n <=? lz4f_block_size bsid then CLI_LZ4F_BLOCK_INDEPENDENT else fp_blockMode p in
  let p' := mkFp bmode bsid (fp_blockChecksum p) (fp_contentChecksum p)
                 (if fp_contentSize p =? 0 then 0 else n) (fp_level p) 1 (fp_favorDecSpeed p) in
  desc_layout p' (pieces n (lz4f_block_size bsid)).

(* one LZ4F_compressUpdate of m bytes with autoFlush: full blocks then the remainder *)
Definition update_blocks (p : lz4f_prefs) (m : Z) : list Z := pieces m (lz4f_block_size (fp_blockSizeID p)).

(* [s] parsed options; [fileSize] = what UTIL_getOpenFileSize reports (0 for a pipe); [n] = bytes read *)
Definition st_layout (s : cli_state) (fileSize n : Z) : layout :=
  let p := prefs_of s fileSize in
  let blockSize := io_blockSize (c_prefs s) in
  if n <? blockSize then frame_layout p n
  else desc_layout p (concat (map (update_blocks p) (pieces n blockSize))).
Definition mt_layout (s : cli_state) (fileSize n : Z) : layout :=
  let p := prefs_of s fileSize in
  if n <? CHUNK then frame_layout p n
  else desc_layout p (concat (map (update_blocks p) (pieces n CHUNK))).
Definition legacy_layout (n : Z) : list Z := pieces n LEGACY_BLOCKSIZE.
