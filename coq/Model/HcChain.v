(* Model of the hash-chain parser of lib/lz4hc.c (HC levels 3..9):
     LZ4HC_hashPtr, LZ4HC_Insert, LZ4HC_countBack, LZ4HC_rotatePattern, LZ4HC_countPattern,
     LZ4HC_reverseCountPattern, LZ4HC_protectDictEnd, LZ4HC_InsertAndGetWiderMatch (dict == noDictCtx),
     LZ4HC_InsertAndFindBestMatch, LZ4HC_compress_hashChain (main loop, _Search2, _Search3,
     _dest_overflow, _last_literals; all three output directives).
   NOT modelled: the dictCtx search at the end of LZ4HC_InsertAndGetWiderMatch (dict == usingDictCtxHc,
   LZ4HC_searchExtDict); the API models only reach the parser with dict == noDictCtx.

   Positions are the C code's *indices* (`(U32)(p - prefixPtr) + prefixIdx`), as in Model.HcMid: the
   current prefix occupies [prefixIdx, ...) of the virtual index space [vrd], an external dictionary
   segment occupies [dictIdx, prefixIdx) (dictStart + (i - dictIdx)), the block being compressed is
   [s0, s0+srcSize).  hashTable entries are U32 indices, chainTable entries U16 deltas indexed by
   (U16)index; every U32 subtraction of the C code is written with [u32].  `int` variables (match
   lengths, back, offset) are plain integers: the casts `(int)(U32 expression)` are written [s32].

   Byte-wise loops stand for the word-wise loops of LZ4_count, LZ4HC_countBack (4 bytes at a time, then
   NbCommonBytes) and LZ4HC_countPattern (8 bytes at a time): same result, the correspondence check compares
   the outputs.  Output bytes come from Model.HcEmit.encodeSequence and the C loops of the epilogue. *)
From Coq Require Import ZArith List Lia Bool FMapPositive.
From LZ4V Require Import Gen.Consts Spec.BlockSpec Model.Mem Model.Fast Model.HcEmit Model.HcMid.
Import ListNotations.
Local Open Scope Z_scope.

(* (int)x for a U32 value x *)
Definition s32 (x : Z) : Z := let y := x mod M32 in if y >=? 2147483648 then y - M32 else y.

(* chainTable: U16 entries; [ct_def] is the value of the entries never written since the last
   MEM_INIT (0 after LZ4_initStreamHC, 0xFFFF after LZ4HC_clearTables) *)
Record ctab := mkCT { ct_m : mem; ct_def : Z }.
Definition ctget (c : ctab) (k : Z) : Z :=
  match PositiveMap.find (enc k) (ct_m c) with Some v => v | None => ct_def c end.
Definition ctset (c : ctab) (k v : Z) : ctab := mkCT (set (ct_m c) k v) (ct_def c).
(* DELTANEXTU16(table, pos) = table[(U16)(pos)] *)
Definition delta_next (c : ctab) (pos : Z) : Z := ctget c (pos mod 65536).

(* hashTable, chainTable, nextToUpdate *)
Record htabs := mkHT { t_hash : mem; t_chain : ctab; t_ntu : Z }.

Record hmatch := mkHM { hm_off : Z; hm_len : Z; hm_back : Z }.
Definition nomatch : hmatch := mkHM 0 0 0.

Inductive repst := rep_untested | rep_not | rep_confirmed.

(* HASH_FUNCTION(i) = ((i) * 2654435761U) >> ((MINMATCH*8)-LZ4HC_HASH_LOG) *)
Definition hc_hash (v : Z) : Z := ((v * 2654435761) mod M32) / 2 ^ HC_HASH_SHIFT.

(* LZ4HC_rotatePattern *)
Definition rotatePattern (rotate pattern : Z) : Z :=
  let bitsToRotate := (rotate mod 4) * 8 in
  if bitsToRotate =? 0 then pattern
  else ((pattern * 2 ^ bitsToRotate) mod M32) + pattern / 2 ^ (32 - bitsToRotate).

(* byte i (little endian) of a 32-bit pattern; the pattern is used cyclically *)
Definition pat_byte (pattern i : Z) : Z := (pattern / 2 ^ (8 * (i mod 4))) mod 256.

(* LZ4HC_protectDictEnd *)
Definition protectDictEnd (dictLimit matchIndex : Z) : bool := u32 (u32 (dictLimit - 1) - matchIndex) >=? 3.

Section Chain.
  Variable vrd : Z -> Z.
  Variable prefixIdx dictIdx : Z.      (* ctx->dictLimit, ctx->lowLimit *)

  Definition rd16 (p : Z) : Z := vrd p + 256 * vrd (p + 1).
  (* LZ4HC_hashPtr *)
  Definition hashPtr (p : Z) : Z := hc_hash (rd32 vrd p).
  (* (U32)(p - prefixPtr) + prefixIdx *)
  Definition idx_of (p : Z) : Z := u32 (u32 (p - prefixIdx) + prefixIdx).

  (* LZ4HC_Insert: `while (idx < target) {...}` *)
  Fixpoint insert_loop (fuel : nat) (idx target : Z) (ht : mem) (ct : ctab) : mem * ctab :=
    match fuel with
    | O => (ht, ct)
    | S f =>
      if idx <? target then
        let h := hashPtr idx in
        let delta := u32 (idx - get ht h) in
        let delta := if delta >? LZ4_DISTANCE_MAX then LZ4_DISTANCE_MAX else delta in
        insert_loop f (u32 (idx + 1)) target (set ht h idx) (ctset ct (idx mod 65536) (delta mod 65536))
      else (ht, ct)
    end.
  Definition insert (t : htabs) (ip : Z) : htabs :=
    let target := idx_of ip in
    let '(ht, ct) := insert_loop (Z.to_nat (target - t_ntu t)) (t_ntu t) target (t_hash t) (t_chain t) in
    mkHT ht ct target.

  (* LZ4HC_countBack: returns the (negative) number of common bytes before ip / match *)
  Fixpoint countBack_loop (fuel : nat) (ip mtch back mn : Z) : Z :=
    match fuel with
    | O => back
    | S f => if (back >? mn) && (vrd (ip + back - 1) =? vrd (mtch + back - 1))
             then countBack_loop f ip mtch (back - 1) mn else back
    end.
  Definition countBack (ip mtch iMin mMin : Z) : Z :=
    let mn := Z.max (iMin - ip) (mMin - mtch) in
    countBack_loop (Z.to_nat (- mn)) ip mtch 0 mn.

  (* LZ4HC_countPattern *)
  Fixpoint countPattern_loop (fuel : nat) (ip iEnd pattern k : Z) : Z :=
    match fuel with
    | O => k
    | S f => if (ip + k <? iEnd) && (vrd (ip + k) =? pat_byte pattern k)
             then countPattern_loop f ip iEnd pattern (k + 1) else k
    end.
  Definition countPattern (ip iEnd pattern : Z) : Z :=
    countPattern_loop (Z.to_nat (iEnd - ip)) ip iEnd pattern 0.

  (* LZ4HC_reverseCountPattern: 4 bytes at a time, then byte by byte from the pattern's last byte
     (the byte loop runs at most 3 times in the C code: [pat_byte] is cyclic only for totality) *)
  Fixpoint rcp4_loop (fuel : nat) (ip iLow pattern : Z) : Z :=
    match fuel with
    | O => ip
    | S f => if (ip >=? iLow + 4) && (rd32 vrd (ip - 4) =? pattern) then rcp4_loop f (ip - 4) iLow pattern else ip
    end.
  Fixpoint rcp1_loop (fuel : nat) (ip iLow pattern k : Z) : Z :=
    match fuel with
    | O => ip
    | S f => if (ip >? iLow) && (vrd (ip - 1) =? pat_byte pattern (3 - k))
             then rcp1_loop f (ip - 1) iLow pattern (k + 1) else ip
    end.
  Definition reverseCountPattern (ip iLow pattern : Z) : Z :=
    let ip4 := rcp4_loop (Z.to_nat (ip - iLow)) ip iLow pattern in
    let ip1 := rcp1_loop (Z.to_nat (ip4 - iLow)) ip4 iLow pattern 0 in
    ip - ip1.

  (* ------------------------------------------------------------------ LZ4HC_InsertAndGetWiderMatch *)
  Section Wider.
    Variable ct : ctab.                          (* chainTable after LZ4HC_Insert: not written by the search loop *)
    Variables ip iLowLimit iHighLimit : Z.
    Variables patternAnalysis chainSwap favorDecSpeed : bool.

    Definition w_ipIndex := idx_of ip.
    Definition w_within : bool := u32 (dictIdx + (LZ4_DISTANCE_MAX + 1)) >? w_ipIndex.
    Definition w_lowest : Z := if w_within then dictIdx else u32 (w_ipIndex - LZ4_DISTANCE_MAX).
    Definition w_lookBack : Z := ip - iLowLimit.
    Definition w_pattern : Z := rd32 vrd ip.

    Record wst := mkW { w_mi : Z; w_longest : Z; w_off : Z; w_sback : Z; w_mcp : Z; w_rep : repst; w_spl : Z }.
    Inductive wstep := WCont (s : wst) | WBreak (s : wst) | WUndef.

    (* candidate inside the current prefix: returns (matchLength, longest, offset, sBack) *)
    Definition cand_prefix (s : wst) : Z * wst :=
      let matchIndex := w_mi s in let longest := w_longest s in
      let matchPtr := matchIndex in
      if rd16 (iLowLimit + longest - 1) =? rd16 (matchPtr - w_lookBack + longest - 1) then
        if rd32 vrd matchPtr =? w_pattern then
          let back := if w_lookBack =? 0 then 0 else countBack ip matchPtr iLowLimit prefixIdx in
          let matchLength := MINMATCH + count vrd (ip + MINMATCH) (matchPtr + MINMATCH) iHighLimit in
          let matchLength := matchLength - back in
          if matchLength >? longest then
            (matchLength, mkW matchIndex matchLength (s32 (w_ipIndex - matchIndex)) back (w_mcp s) (w_rep s) (w_spl s))
          else (matchLength, s)
        else (0, s)
      else (0, s).

    (* candidate inside the external dictionary segment *)
    Definition cand_ext (s : wst) : Z * wst :=
      let matchIndex := w_mi s in let longest := w_longest s in
      let matchPtr := matchIndex in
      if (matchIndex <=? u32 (prefixIdx - 4)) && (rd32 vrd matchPtr =? w_pattern) then
        let vLimit := ip + u32 (prefixIdx - matchIndex) in
        let vLimit := if vLimit >? iHighLimit then iHighLimit else vLimit in
        let matchLength := count vrd (ip + MINMATCH) (matchPtr + MINMATCH) vLimit + MINMATCH in
        let matchLength :=
          if (ip + matchLength =? vLimit) && (vLimit <? iHighLimit)
          then matchLength + count vrd (ip + matchLength) prefixIdx iHighLimit else matchLength in
        let back := if w_lookBack =? 0 then 0 else countBack ip matchPtr iLowLimit dictIdx in
        let matchLength := matchLength - back in
        if matchLength >? longest then
          (matchLength, mkW matchIndex matchLength (s32 (w_ipIndex - matchIndex)) back (w_mcp s) (w_rep s) (w_spl s))
        else (matchLength, s)
      else (0, s).

    (* `for (pos = 0; pos < end; pos += step)` of the chainSwap block:
       returns (distanceToNextMatch, matchChainPos) *)
    Fixpoint swap_loop (fuel : nat) (matchIndex pos endp accel dist mcp : Z) : option (Z * Z) :=
      match fuel with
      | O => None
      | S f =>
        if pos <? endp then
          let candidateDist := delta_next ct (u32 (matchIndex + u32 pos)) in
          let step := accel / 2 ^ 4 in
          let accel := accel + 1 in
          if candidateDist >? dist then swap_loop f matchIndex (pos + step) endp (2 ^ 4) candidateDist pos
          else swap_loop f matchIndex (pos + step) endp accel dist mcp
        else Some (dist, mcp)
      end.

    (* pattern analysis: `if (repeat == rep_untested) {...}`; returns (repeat, srcPatternLength) *)
    Definition pa_repeat (s : wst) : repst * Z :=
      let pattern := w_pattern in
      match w_rep s with
      | rep_untested =>
        if ((pattern mod 65536) =? (pattern / 65536)) && ((pattern mod 256) =? (pattern / 16777216))
        then (rep_confirmed, countPattern (ip + 4) iHighLimit pattern + 4)
        else (rep_not, w_spl s)
      | r => (r, w_spl s)
      end.

    (* forwardPatternLength of the candidate at index mci (matchPtr = the candidate's address) *)
    Definition pa_forward (mci : Z) : Z :=
      let pattern := w_pattern in
      let extDict := mci <? prefixIdx in
      let matchPtr := mci in
      let iLimit := if extDict then prefixIdx else iHighLimit in
      let fwd := countPattern (matchPtr + 4) iLimit pattern + 4 in
      if extDict && (matchPtr + fwd =? iLimit)
      then fwd + countPattern prefixIdx iHighLimit (rotatePattern fwd pattern) else fwd.

    (* backLength of the candidate at index mci, limited so as not to go further than lowestMatchIndex *)
    Definition pa_backward (mci : Z) : Z :=
      let pattern := w_pattern in
      let extDict := mci <? prefixIdx in
      let matchPtr := mci in
      let lowestMatchPtr := if extDict then dictIdx else prefixIdx in
      let backLength := reverseCountPattern matchPtr lowestMatchPtr pattern in
      let backLength :=
        if negb extDict && (matchPtr - backLength =? prefixIdx) && (dictIdx <? prefixIdx)
        then backLength + reverseCountPattern prefixIdx dictIdx (rotatePattern (u32 (- backLength)) pattern)
        else backLength in
      u32 (mci - Z.max (u32 (mci - u32 backLength)) w_lowest).

    (* the pattern-analysis block, entered with distNextMatch == 1 and matchChainPos == 0 *)
    Definition pa_block (s : wst) : wstep + wst :=           (* inl: continue/break taken; inr: fall through *)
      let matchIndex := w_mi s in
      let matchCandidateIdx := u32 (matchIndex - 1) in
      let pattern := w_pattern in
      let '(rep, spl) := pa_repeat s in
      let s := mkW matchIndex (w_longest s) (w_off s) (w_sback s) (w_mcp s) rep spl in
      if (match rep with rep_confirmed => true | _ => false end)
         && (matchCandidateIdx >=? w_lowest) && protectDictEnd prefixIdx matchCandidateIdx then
        if rd32 vrd matchCandidateIdx =? pattern then              (* good candidate *)
          let fwd := pa_forward matchCandidateIdx in
          let backLength := pa_backward matchCandidateIdx in
          let currentSegmentLength := backLength + fwd in
          if (currentSegmentLength >=? spl) && (fwd <=? spl) then
            let newMatchIndex := u32 (u32 (matchCandidateIdx + u32 fwd) - u32 spl) in
            if protectDictEnd prefixIdx newMatchIndex
            then inl (WCont (mkW newMatchIndex (w_longest s) (w_off s) (w_sback s) (w_mcp s) rep spl))
            else inl (WCont (mkW prefixIdx (w_longest s) (w_off s) (w_sback s) (w_mcp s) rep spl))
          else
            let newMatchIndex := u32 (matchCandidateIdx - u32 backLength) in
            if negb (protectDictEnd prefixIdx newMatchIndex)
            then inl (WCont (mkW prefixIdx (w_longest s) (w_off s) (w_sback s) (w_mcp s) rep spl))
            else
              let matchIndex := newMatchIndex in
              if w_lookBack =? 0 then
                let maxML := Z.min currentSegmentLength spl in
                let s1 := mkW matchIndex (w_longest s) (w_off s) (w_sback s) (w_mcp s) rep spl in
                let upd :=
                  if w_longest s <? maxML then
                    if ((ip - prefixIdx) + prefixIdx - matchIndex) mod M64 >? LZ4_DISTANCE_MAX then None
                    else Some (mkW matchIndex maxML (s32 (w_ipIndex - matchIndex)) (w_sback s) (w_mcp s) rep spl)
                  else Some s1 in
                match upd with
                | None => inl (WBreak s1)
                | Some s2 =>
                  let distToNextPattern := delta_next ct matchIndex in
                  if distToNextPattern >? matchIndex then inl (WBreak s2)
                  else inl (WCont (mkW (u32 (matchIndex - distToNextPattern)) (w_longest s2) (w_off s2) (w_sback s2) (w_mcp s2) rep spl))
                end
              else inl (WCont (mkW matchIndex (w_longest s) (w_off s) (w_sback s) (w_mcp s) rep spl))
        else inr s
      else inr s.

    (* the chainSwap block (entered when chainSwap && matchLength==longest):
       None = out of fuel; inl = `break` / `continue` taken; inr = falls through *)
    Definition swap_block (s : wst) : option (wstep + wst) :=
      let matchIndex := w_mi s in
      if u32 (matchIndex + u32 (w_longest s)) <=? w_ipIndex then
        let endp := w_longest s - MINMATCH + 1 in
        match swap_loop (S (Z.to_nat endp)) matchIndex 0 endp (2 ^ 4) 1 (w_mcp s) with
        | None => None
        | Some (dist, mcp) =>
          let s' := mkW matchIndex (w_longest s) (w_off s) (w_sback s) mcp (w_rep s) (w_spl s) in
          if dist >? 1 then
            if dist >? matchIndex then Some (inl (WBreak s'))                  (* avoid overflow *)
            else Some (inl (WCont (mkW (u32 (matchIndex - dist)) (w_longest s) (w_off s) (w_sback s) mcp (w_rep s) (w_spl s))))
          else Some (inr s')
        end
      else Some (inr s).

    (* PA optimisation, then `matchIndex -= DELTANEXTU16(chainTable, matchIndex + matchChainPos)` *)
    Definition follow_chain (s : wst) : wstep :=
      let distNextMatch := delta_next ct (w_mi s) in
      let pa := if patternAnalysis && (distNextMatch =? 1) && (w_mcp s =? 0) then pa_block s else inr s in
      match pa with
      | inl r => r
      | inr s => WCont (mkW (u32 (w_mi s - delta_next ct (u32 (w_mi s + w_mcp s))))
                            (w_longest s) (w_off s) (w_sback s) (w_mcp s) (w_rep s) (w_spl s))
      end.

    (* one iteration of `while ((matchIndex>=lowestMatchIndex) && (nbAttempts>0))` (after nbAttempts--) *)
    Definition wider_body (s : wst) : wstep :=
      let matchIndex := w_mi s in
      let '(matchLength, s) :=
        if favorDecSpeed && (u32 (w_ipIndex - matchIndex) <? 8) then (0, s)
        else if matchIndex >=? prefixIdx then cand_prefix s
        else cand_ext s in
      match (if chainSwap && (matchLength =? w_longest s) then swap_block s else Some (inr s)) with
      | None => WUndef
      | Some (inl r) => r
      | Some (inr s') => follow_chain s'
      end.

    (* the while loop: [nb] is the C variable nbAttempts *)
    Fixpoint wider_loop (nb : nat) (s : wst) : option wst :=
      match nb with
      | O => Some s
      | S n =>
        if w_mi s >=? w_lowest then
          match wider_body s with
          | WCont s' => wider_loop n s'
          | WBreak s' => Some s'
          | WUndef => None
          end
        else Some s
      end.
  End Wider.

  (* LZ4HC_InsertAndGetWiderMatch, dict == noDictCtx *)
  Definition insertAndGetWiderMatch (t : htabs) (ip iLowLimit iHighLimit longest maxNbAttempts : Z)
             (patternAnalysis chainSwap favorDecSpeed : bool) : option (hmatch * htabs) :=
    let t1 := insert t ip in
    let matchIndex := get (t_hash t1) (hashPtr ip) in
    match wider_loop (t_chain t1) ip iLowLimit iHighLimit patternAnalysis chainSwap favorDecSpeed
                     (Z.to_nat maxNbAttempts) (mkW matchIndex longest 0 0 0 rep_untested 0) with
    | None => None
    | Some s => Some (mkHM (w_off s) (w_longest s) (w_sback s), t1)
    end.

  (* LZ4HC_InsertAndFindBestMatch *)
  Definition insertAndFindBestMatch (t : htabs) (ip iLimit maxNbAttempts : Z) (patternAnalysis : bool) :=
    insertAndGetWiderMatch t ip ip iLimit (MINMATCH - 1) maxNbAttempts patternAnalysis false false.

  (* ------------------------------------------------------------------ LZ4HC_compress_hashChain *)
  Section Parser.
    Variable lim : outdir.
    Variables s0 srcSize maxOut maxNbAttempts : Z.

    Definition hc_iend := s0 + srcSize.
    Definition hc_mflimit := hc_iend - MFLIMIT.
    Definition hc_matchlimit := hc_iend - LASTLITERALS.
    Definition hc_limited : bool := match lim with NotLimited => false | _ => true end.
    Definition hc_pa : bool := maxNbAttempts >? 128.

    Record cst := mkS { c_ip : Z; c_anchor : Z; c_op : Z; c_rout : list Z (* reversed *); c_tabs : htabs; c_hw : Z }.

    Inductive cres :=
    | CFail (t : htabs) (hw : Z)                                          (* return 0 *)
    | COk (ret consumed : Z) (out : list Z) (t : htabs) (hw : Z)
    | CUndef.                                                             (* out of fuel / size_t wrap *)

    (* control points of the function *)
    Inductive pc :=
    | PMain
    | PSearch2 (start0 : Z) (m0 m1 : hmatch)
    | PSearch3 (start0 : Z) (m0 m1 : hmatch) (start2 : Z) (m2 : hmatch).

    (* _last_literals; [oend] is the restored end of the output buffer *)
    Definition c_last_literals (s : cst) (oend : Z) : cres :=
      let lastRun := hc_iend - c_anchor s in
      let llAdd := (lastRun + 255 - RUN_MASK) / 255 in
      let total := 1 + llAdd + lastRun in
      let op := c_op s in
      let emit (lr : Z) : cres :=
        let hdr := if lr >=? RUN_MASK then (RUN_MASK * 16) :: lit_ext (Z.to_nat lr) (lr - RUN_MASK) else [lr * 16] in
        let bytes := hdr ++ src_bytes vrd (Z.to_nat lr) (c_anchor s) in
        let op' := op + Z.of_nat (length bytes) in
        COk op' (c_anchor s + lr - s0) (rev_append (c_rout s) bytes) (c_tabs s) (Z.max (c_hw s) op') in
      if hc_limited && (op + total >? oend) then
        match lim with
        | FillOutput =>
          if oend - op <? 1 then CUndef
          else let lr := oend - op - 1 in
               let llAdd' := (lr + 256 - RUN_MASK) / 256 in
               emit (lr - llAdd')
        | _ => CFail (c_tabs s) (c_hw s)
        end
      else emit lastRun.

    (* _dest_overflow with (ip, anchor, optr) = (c_ip, c_anchor, c_op) of [s] and m1 = (ml, off);
       [oend] is the lowered end (fillOutput) *)
    Definition c_dest_overflow (s : cst) (ml off oend : Z) : cres :=
      match lim with
      | FillOutput =>
        let ip := c_ip s in let anchor := c_anchor s in let op := c_op s in
        let ll := ip - anchor in
        let ll_addbytes := (ll + 240) / 255 in
        let ll_totalCost := 1 + ll_addbytes + ll in
        let maxLitPos := oend - 3 in
        let s' :=
          if op + ll_totalCost <=? maxLitPos then
            let bytesLeftForMl := maxLitPos - (op + ll_totalCost) in
            let maxMlSize := MINMATCH + (ML_MASK - 1) + bytesLeftForMl * 255 in
            let ml' := if ml >? maxMlSize then maxMlSize else ml in
            if (oend + LASTLITERALS) - (op + ll_totalCost + 2) - 1 + ml' >=? MFLIMIT then
              let e := encodeSequence vrd ip anchor op ml' off false oend in
              mkS (ip + ml') (ip + ml') (e_op e) (rev_append (e_bytes e) (c_rout s)) (c_tabs s) (Z.max (c_hw s) (e_hw e))
            else s
          else s in
        c_last_literals s' (oend + LASTLITERALS)
      | _ => CFail (c_tabs s) (c_hw s)
      end.

    (* `optr = op; if (LZ4HC_encodeSequence(UPDATABLE(ip, op, anchor), ml, off, limit, oend)) goto _dest_overflow;` *)
    Definition c_encode (s : cst) (ml off oend : Z) : cst + cres :=
      let e := encodeSequence vrd (c_ip s) (c_anchor s) (c_op s) ml off hc_limited oend in
      if e_ret e =? 0 then
        inl (mkS (c_ip s + ml) (c_ip s + ml) (e_op e) (rev_append (e_bytes e) (c_rout s)) (c_tabs s) (Z.max (c_hw s) (e_hw e)))
      else
        inr (c_dest_overflow (mkS (c_ip s) (c_anchor s) (c_op s) (c_rout s) (c_tabs s) (Z.max (c_hw s) (e_hw e))) ml off oend).

    Definition with_ip (s : cst) (ip : Z) : cst := mkS ip (c_anchor s) (c_op s) (c_rout s) (c_tabs s) (c_hw s).
    Definition with_tabs (s : cst) (t : htabs) : cst := mkS (c_ip s) (c_anchor s) (c_op s) (c_rout s) t (c_hw s).
    Definition set_len (m : hmatch) (l : Z) : hmatch := mkHM (hm_off m) l (hm_back m).

    (* `if (pos + len <= mflimit) { start = pos + len - back0; m = LZ4HC_InsertAndGetWiderMatch(ctx, start, pos, matchlimit, len, ...);
        start += m.back; } else m = nomatch;`  (back0 = 2 in _Search2, 3 in _Search3).
       None = out of fuel.  When no search is made, the start variable keeps a value that is not read again: 0 here. *)
    Definition search_next (t : htabs) (pos len back0 : Z) : option (Z * hmatch * htabs) :=
      if pos + len <=? hc_mflimit then
        let start := pos + len - back0 in
        match insertAndGetWiderMatch t start pos hc_matchlimit len maxNbAttempts hc_pa false false with
        | None => None
        | Some (m, t') => Some (start + hm_back m, m, t')
        end
      else Some (0, nomatch, t).

    (* loop head: `while (ip <= mflimit) { m1 = LZ4HC_InsertAndFindBestMatch(...); if (m1.len<MINMATCH) { ip++; continue; } start0 = ip; m0 = m1;` *)
    Definition main_step (s : cst) (oend : Z) : (pc * cst) + cres :=
      let ip := c_ip s in
      if ip <=? hc_mflimit then
        match insertAndFindBestMatch (c_tabs s) ip hc_matchlimit maxNbAttempts hc_pa with
        | None => inr CUndef
        | Some (m1, t) =>
          let s := with_tabs s t in
          if hm_len m1 <? MINMATCH then inl (PMain, with_ip s (ip + 1))
          else inl (PSearch2 ip m1 m1, s)
        end
      else inr (c_last_literals s (match lim with FillOutput => oend + LASTLITERALS | _ => oend end)).

    (* `if (start0 < ip) { if (start2 < ip + m0.len) { ip = start0; m1 = m0; } }` *)
    Definition s2_restore (start0 : Z) (m0 : hmatch) (ip : Z) (m1 : hmatch) (start2 : Z) : Z * hmatch :=
      if (start0 <? ip) && (start2 <? ip + hm_len m0) then (start0, m0) else (ip, m1).

    (* from `_Search2:` to `_Search3:` *)
    Definition search2_step (start0 : Z) (m0 m1 : hmatch) (s : cst) (oend : Z) : (pc * cst) + cres :=
      let ip := c_ip s in
      match search_next (c_tabs s) ip (hm_len m1) 2 with
      | None => inr CUndef
      | Some (start2, m2, t) =>
        let s := with_tabs s t in
        if hm_len m2 <=? hm_len m1 then              (* No better match => encode ML1 immediately *)
          match c_encode s (hm_len m1) (hm_off m1) oend with
          | inl s' => inl (PMain, s')
          | inr r => inr r
          end
        else
          let '(ip, m1) := s2_restore start0 m0 ip m1 start2 in
          if start2 - ip <? 3 then                   (* First Match too small : removed *)
            inl (PSearch2 start0 m0 m2, with_ip s start2)
          else inl (PSearch3 start0 m0 m1 start2 m2, with_ip s ip)
      end.

    (* head of `_Search3:` : `if ((start2 - ip) < OPTIMAL_ML) {...}`; returns (start2, m2) *)
    Definition s3_adjust (ip : Z) (m1 : hmatch) (start2 : Z) (m2 : hmatch) : Z * hmatch :=
      if start2 - ip <? HC_OPTIMAL_ML then
        let new_ml := hm_len m1 in
        let new_ml := if new_ml >? HC_OPTIMAL_ML then HC_OPTIMAL_ML else new_ml in
        let new_ml := if ip + new_ml >? start2 + hm_len m2 - MINMATCH then (start2 - ip) + hm_len m2 - MINMATCH else new_ml in
        let correction := new_ml - (start2 - ip) in
        if correction >? 0 then (start2 + correction, set_len m2 (hm_len m2 - correction)) else (start2, m2)
      else (start2, m2).

    (* "can write Seq1 immediately ==> Seq2 is removed": the adjustment of (start2, m2) that becomes (start0, m0) *)
    Definition s3_remove2 (ip : Z) (m1 : hmatch) (start2 : Z) (m2 : hmatch) (start3 : Z) (m3 : hmatch) : Z * hmatch :=
      if start2 <? ip + hm_len m1 then
        let correction := ip + hm_len m1 - start2 in
        let start2' := start2 + correction in
        let m2' := set_len m2 (hm_len m2 - correction) in
        if hm_len m2' <? MINMATCH then (start3, m3) else (start2', m2')
      else (start2, m2).

    (* "we have 3 ascending matches; let's write the first one ML1": returns (m1, start2, m2) *)
    Definition s3_ml1 (ip : Z) (m1 : hmatch) (start2 : Z) (m2 : hmatch) : hmatch * Z * hmatch :=
      if start2 <? ip + hm_len m1 then
        if start2 - ip <? HC_OPTIMAL_ML then
          let l1 := if hm_len m1 >? HC_OPTIMAL_ML then HC_OPTIMAL_ML else hm_len m1 in
          let l1 := if ip + l1 >? start2 + hm_len m2 - MINMATCH then (start2 - ip) + hm_len m2 - MINMATCH else l1 in
          let correction := l1 - (start2 - ip) in
          if correction >? 0 then (set_len m1 l1, start2 + correction, set_len m2 (hm_len m2 - correction))
          else (set_len m1 l1, start2, m2)
        else (set_len m1 (start2 - ip), start2, m2)
      else (m1, start2, m2).

    (* from `_Search3:` to the end of the loop body *)
    Definition search3_step (start0 : Z) (m0 m1 : hmatch) (start2 : Z) (m2 : hmatch) (s : cst) (oend : Z) : (pc * cst) + cres :=
      let ip := c_ip s in
      let '(start2, m2) := s3_adjust ip m1 start2 m2 in
      match search_next (c_tabs s) start2 (hm_len m2) 3 with
      | None => inr CUndef
      | Some (start3, m3, t) =>
        let s := with_tabs s t in
        if hm_len m3 <=? hm_len m2 then              (* No better match => encode ML1 and ML2 *)
          let m1 := if start2 <? ip + hm_len m1 then set_len m1 (start2 - ip) else m1 in
          match c_encode s (hm_len m1) (hm_off m1) oend with
          | inr r => inr r
          | inl s1 =>
            match c_encode (with_ip s1 start2) (hm_len m2) (hm_off m2) oend with
            | inr r => inr r
            | inl s2 => inl (PMain, s2)
            end
          end
        else if start3 <? ip + hm_len m1 + 3 then     (* Not enough space for match 2 : remove it *)
          if start3 >=? ip + hm_len m1 then           (* can write Seq1 immediately ==> Seq2 is removed, so Seq3 becomes Seq1 *)
            let '(start2, m2) := s3_remove2 ip m1 start2 m2 start3 m3 in
            match c_encode s (hm_len m1) (hm_off m1) oend with
            | inr r => inr r
            | inl s1 => inl (PSearch2 start2 m2 m3, with_ip s1 start3)
            end
          else inl (PSearch3 start0 m0 m1 start3 m3, s)
        else
          (* OK, now we have 3 ascending matches; let's write the first one ML1. *)
          let '(m1, start2, m2) := s3_ml1 ip m1 start2 m2 in
          match c_encode s (hm_len m1) (hm_off m1) oend with
          | inr r => inr r
          | inl s1 => inl (PSearch3 start0 m0 m2 start3 m3, with_ip s1 start2)
          end
      end.

    Definition hc_step (p : pc) (s : cst) (oend : Z) : (pc * cst) + cres :=
      match p with
      | PMain => main_step s oend
      | PSearch2 start0 m0 m1 => search2_step start0 m0 m1 s oend
      | PSearch3 start0 m0 m1 start2 m2 => search3_step start0 m0 m1 start2 m2 s oend
      end.

    Fixpoint hc_run (fuel : nat) (p : pc) (s : cst) (oend : Z) : cres :=
      match fuel with
      | O => CUndef
      | S f => match hc_step p s oend with
               | inl (p', s') => hc_run f p' s' oend
               | inr r => r
               end
      end.

    Definition hc_compress (t : htabs) : cres :=
      let oend := match lim with FillOutput => maxOut - LASTLITERALS | _ => maxOut end in
      let st := mkS s0 s0 0 [] t 0 in
      if srcSize <? LZ4_minLength then c_last_literals st maxOut
      else hc_run (Z.to_nat (2 * srcSize + 4)) PMain st oend.
  End Parser.
End Chain.
