(* One-shot HC entry points at the hash-chain levels (compression levels 3..9; lz4hc.c k_clTable, read from
   the source into Gen.Consts.HC_CL_STRAT_n, HC_CL_NB_n): LZ4_compress_HC_extStateHC_fastReset / LZ4_compress_HC_extStateHC /
   LZ4_compress_HC and LZ4_compress_HC_destSize, i.e. LZ4_resetStreamHC_fast, LZ4_initStreamHC,
   LZ4HC_init_internal, LZ4HC_clearTables, LZ4HC_getCLevelParams, LZ4HC_compress_generic_internal (noDictCtx)
   around Model.HcChain.hc_compress.

   The context is reduced to what these paths read or write: hashTable, chainTable, nextToUpdate,
   [cc_endIdx] = dictLimit + (end - prefixStart), the dirty flag and favorDecSpeed (kept, never read by
   the lz4hc strategy).  dictLimit = lowLimit = the index given to the block by LZ4HC_init_internal. *)
From Coq Require Import ZArith List Lia Bool.
From LZ4V Require Import Gen.Consts Spec.BlockSpec Model.Mem Model.Fast Model.FastApi Model.HcEmit Model.HcMid Model.HcChain.
Import ListNotations.
Local Open Scope Z_scope.

Record hcc := mkHCC { cc_hash : mem; cc_chain : ctab; cc_ntu : Z; cc_endIdx : Z; cc_dirty : bool; cc_fav : bool }.
(* LZ4_initStreamHC: MEM_INIT 0 of the whole state *)
Definition cc_init : hcc := mkHCC empty (mkCT empty 0) 0 0 false false.

(* LZ4_favorDecompressionSpeed *)
Definition cc_set_fav (c : hcc) (f : bool) : hcc := mkHCC (cc_hash c) (cc_chain c) (cc_ntu c) (cc_endIdx c) (cc_dirty c) f.

(* LZ4_resetStreamHC_fast *)
Definition cc_reset_fast (c : hcc) : hcc := if cc_dirty c then cc_init else c.

(* LZ4HC_init_internal (with LZ4HC_clearTables when the offset exceeds 1 GB): the new block starts at
   index cc_endIdx = nextToUpdate = dictLimit = lowLimit of the result *)
Definition cc_init_internal (c : hcc) : hcc :=
  if cc_endIdx c >? 1073741824
  then mkHCC empty (mkCT empty 65535) 65536 65536 (cc_dirty c) (cc_fav c)
  else mkHCC (cc_hash c) (cc_chain c) (cc_endIdx c + 65536) (cc_endIdx c + 65536) (cc_dirty c) (cc_fav c).

(* LZ4HC_getCLevelParams: (strat, nbSearches) *)
Definition cl_table : list (Z * Z) :=
  [(HC_CL_STRAT_0, HC_CL_NB_0); (HC_CL_STRAT_1, HC_CL_NB_1); (HC_CL_STRAT_2, HC_CL_NB_2); (HC_CL_STRAT_3, HC_CL_NB_3);
   (HC_CL_STRAT_4, HC_CL_NB_4); (HC_CL_STRAT_5, HC_CL_NB_5); (HC_CL_STRAT_6, HC_CL_NB_6); (HC_CL_STRAT_7, HC_CL_NB_7);
   (HC_CL_STRAT_8, HC_CL_NB_8); (HC_CL_STRAT_9, HC_CL_NB_9); (HC_CL_STRAT_10, HC_CL_NB_10); (HC_CL_STRAT_11, HC_CL_NB_11);
   (HC_CL_STRAT_12, HC_CL_NB_12)].
Definition cl_params (cLevel : Z) : Z * Z :=
  let l := if cLevel <? 1 then LZ4HC_CLEVEL_DEFAULT else cLevel in
  let l := Z.min LZ4HC_CLEVEL_MAX l in
  nth (Z.to_nat l) cl_table (0, 0).
(* the levels this model covers *)
Definition chain_level (cLevel : Z) : bool := fst (cl_params cLevel) =? HC_STRAT_HC.

Record cres_api := mkCR { cr_ret : Z; cr_consumed : Z; cr_out : list Z; cr_hw : Z; cr_ctx : hcc }.

Definition cc_with (c : hcc) (t : htabs) (endIdx : Z) (dirty : bool) : hcc :=
  mkHCC (t_hash t) (t_chain t) (t_ntu t) endIdx dirty (cc_fav c).

(* LZ4HC_compress_generic_internal, strat == lz4hc, dict == noDictCtx, on a context freshly anchored by
   LZ4HC_init_internal.  [src] holds the input at [0, srcSize).  Levels with another strategy are not
   modelled here: flagged by the return value -2 (excluded by the theorems through [chain_level]). *)
Definition cc_generic (c : hcc) (src : mem) (srcSize cap cLevel : Z) (lim : outdir) : cres_api :=
  let start := cc_endIdx c in
  if (match lim with FillOutput => cap <? 1 | _ => false end) then mkCR 0 srcSize [] 0 c
  else if u32 srcSize >? LZ4_MAX_INPUT_SIZE then mkCR 0 srcSize [] 0 c
  else if negb (chain_level cLevel) then mkCR (-2) srcSize [] 0 c
  else
    let vrd := fun p => get src (p - start) in
    let endIdx := start + srcSize in
    let nb := snd (cl_params cLevel) in
    match hc_compress vrd start start lim start srcSize cap nb (mkHT (cc_hash c) (cc_chain c) (cc_ntu c)) with
    | CFail t hw => mkCR 0 srcSize [] hw (cc_with c t endIdx true)
    | CUndef => mkCR (-1) srcSize [] 0 (cc_with c (mkHT (cc_hash c) (cc_chain c) (cc_ntu c)) start true)   (* model artefact: excluded by the theorems *)
    | COk ret consumed out t hw =>
      let c1 := cc_with c t endIdx (if ret <=? 0 then true else cc_dirty c) in
      let c2 := match lim with
                | FillOutput => if (0 <? ret) && (consumed <? srcSize) then cc_init_internal c1 else c1
                | _ => c1
                end in
      mkCR ret consumed out hw c2
    end.

(* LZ4_compress_HC_extStateHC_fastReset *)
Definition compress_HC_fastReset_chain (c : hcc) (src : mem) (srcSize cap cLevel : Z) : cres_api :=
  let c1 := cc_init_internal (cc_reset_fast c) in
  cc_generic c1 src srcSize cap cLevel (if cap <? compressBound srcSize then LimitedOutput else NotLimited).

(* LZ4_compress_HC_extStateHC / LZ4_compress_HC *)
Definition compress_HC_chain (src : mem) (srcSize cap cLevel : Z) : cres_api :=
  compress_HC_fastReset_chain cc_init src srcSize cap cLevel.

(* LZ4_compress_HC_destSize *)
Definition compress_HC_destSize_chain (src : mem) (srcSize target cLevel : Z) : cres_api :=
  cc_generic (cc_init_internal cc_init) src srcSize target cLevel FillOutput.

(* ---- a bare search session (correspondence check of LZ4HC_InsertAndGetWiderMatch with an external
   dictionary segment, chainSwap and favorDecSpeed, which the one-shot entry points cannot reach):
   fresh state, LZ4HC_init_internal(dict), end = dict + dictSize, LZ4HC_setExternalDict(prefix).
   The dictionary occupies [65536, 65536+dictSize) of the index space, the prefix starts right after. *)
Definition ss_init (vrd : Z -> Z) (dictSize : Z) : htabs :=
  let t0 := mkHT empty (mkCT empty 0) 65536 in
  let t1 := if dictSize >=? 4 then insert vrd 65536 t0 (65536 + dictSize - 3) else t0 in
  mkHT (t_hash t1) (t_chain t1) (65536 + dictSize).
Definition ss_search (vrd : Z -> Z) (dictSize : Z) (t : htabs) (ipOff lowOff highOff longest nb : Z) (pa swap fav : bool) :=
  let p := 65536 + dictSize in
  insertAndGetWiderMatch vrd p 65536 t (p + ipOff) (p + lowOff) (p + highOff) longest nb pa swap fav.
