(* Model of LZ4MID_compress (lib/lz4hc.c:519-773), the parser behind HC levels 1 and 2, in the
   noDictCtx configuration (the dictCtx search at lz4hc.c:638-651 is not modelled: the API
   models only reach this function with dict == noDictCtx).

   Positions are the C code's *indices* (`(U32)(p - prefixPtr) + prefixIdx`): the current
   prefix occupies [prefixIdx, ...) of the virtual index space [vrd], an external dictionary
   segment occupies [dictIdx, prefixIdx), and the block being compressed is [s0, s0+srcSize).
   Table entries are U32 indices; every `U32` subtraction of the C code is written with [u32].

   Output bytes are produced by the model of LZ4HC_encodeSequence (Model.HcEmit) and by the
   C loops of the last-literals epilogue; [r_hw] is the high-water mark of bytes written to
   dst (wildCopy8 slack included). *)
From Coq Require Import ZArith List Lia Bool.
From LZ4V Require Import Gen.Consts Spec.BlockSpec Model.Mem Model.Fast Model.HcEmit.
Import ListNotations.
Local Open Scope Z_scope.

Definition u32 (x : Z) : Z := x mod M32.
Record found := mkF { f_ip : Z; f_ml : Z; f_dist : Z }.

Section Mid.
  Variable vrd : Z -> Z.
  Variable lim : outdir.
  Variable prefixIdx dictIdx : Z.      (* ctx->dictLimit, ctx->lowLimit *)
  Variable s0 srcSize maxOut : Z.      (* index of src, *srcSizePtr, maxOutputSize *)
  (* dict == usingDictCtxHc: the search into the attached dictionary context at position ip, i.e. the result of
     `(ipIndex - gDictEndIndex < LZ4_DISTANCE_MAX - 8) ? searchIntoDict(...) : none`, kept when dMatch.len >= MINMATCH
     (lz4hc.c:638-651).  noDictCtx: the constant function None.  Concrete searches: Model.HcMidDict. *)
  Variable dsrch : Z -> option found.

  Definition mi_iend := s0 + srcSize.
  Definition mi_mflimit := mi_iend - MFLIMIT.
  Definition mi_matchlimit := mi_iend - LASTLITERALS.
  Definition mi_ilimit := mi_iend - LZ4MID_HASHSIZE.
  Definition mi_ilimitIdx := u32 (u32 (mi_ilimit - prefixIdx) + prefixIdx).
  Definition limited : bool := match lim with NotLimited => false | _ => true end.

  Definition rd32 (p : Z) : Z := vrd p + 256 * vrd (p + 1) + 65536 * vrd (p + 2) + 16777216 * vrd (p + 3).
  Definition rd64 (p : Z) : Z := rd32 p + M32 * rd32 (p + 4).
  (* LZ4MID_hash4 / LZ4MID_hash7 (of LZ4_readLE64) *)
  Definition mhash4 (v : Z) : Z := ((v * 2654435761) mod M32) / 2 ^ (32 - LZ4MID_HASHLOG).
  Definition mhash7 (v : Z) : Z := ((((v * 256) mod M64) * 58295818150454627) mod M64) / 2 ^ (64 - LZ4MID_HASHLOG).
  Definition hash4p (p : Z) : Z := mhash4 (rd32 p).
  Definition hash8p (p : Z) : Z := mhash7 (rd64 p).

  Definition dist_ok (ipIndex pos : Z) : bool := u32 (ipIndex - pos) <=? LZ4_DISTANCE_MAX.

  (* extDict candidate: `safeLen = MIN(prefixIdx - pos, matchlimit - ip); LZ4_count(ip, matchPtr, ip + safeLen)` *)
  Definition ext_count (ip pos : Z) : Z :=
    let safeLen := Z.min (u32 (prefixIdx - pos)) (mi_matchlimit - ip) in
    count vrd ip pos (ip + safeLen).

  (* the two searches of one main-loop iteration: returns the match (if any) and the updated tables *)
  Definition search (ip : Z) (h4 h8 : mem) : option found * mem * mem :=
    let ipIndex := u32 ip in
    let k8 := hash8p ip in
    let pos8 := get h8 k8 in
    let h8a := set h8 k8 ipIndex in
    let r8 :=
      if dist_ok ipIndex pos8 then
        if pos8 >=? prefixIdx then
          let ml := count vrd ip pos8 mi_matchlimit in
          if ml >=? MINMATCH then Some (mkF ip ml (u32 (ipIndex - pos8))) else None
        else if pos8 >=? dictIdx then
          let ml := ext_count ip pos8 in
          if ml >=? MINMATCH then Some (mkF ip ml (u32 (ipIndex - pos8))) else None
        else None
      else None in
    match r8 with
    | Some f => (Some f, h4, h8a)
    | None =>
      let k4 := hash4p ip in
      let pos4 := get h4 k4 in
      let h4a := set h4 k4 ipIndex in
      if dist_ok ipIndex pos4 then
        if pos4 >=? prefixIdx then
          let ml := count vrd ip pos4 mi_matchlimit in
          if ml >=? MINMATCH then
            (* short match found, check ip+1 for longer *)
            let k8' := hash8p (ip + 1) in
            let pos8' := get h8a k8' in
            let m2Distance := u32 (ipIndex + 1 - pos8') in
            let d4 := u32 (ipIndex - pos4) in
            if (m2Distance <=? LZ4_DISTANCE_MAX) && (pos8' >=? prefixIdx) && (ip <? mi_mflimit) then
              let ml2 := count vrd (ip + 1) pos8' mi_matchlimit in
              if ml2 >? ml then (Some (mkF (ip + 1) ml2 m2Distance), h4a, set h8a k8' (u32 (ipIndex + 1)))
              else (Some (mkF ip ml d4), h4a, h8a)
            else (Some (mkF ip ml d4), h4a, h8a)
          else (None, h4a, h8a)
        else if pos4 >=? dictIdx then
          let ml := ext_count ip pos4 in
          if ml >=? MINMATCH then (Some (mkF ip ml (u32 (ipIndex - pos4))), h4a, h8a) else (None, h4a, h8a)
        else (None, h4a, h8a)
      else (None, h4a, h8a)
    end.

  (* catch back: `while (((ip > anchor) & ((U32)(ip-prefixPtr) > matchDistance)) && (ip[-1] == ip[-(int)matchDistance-1]))` *)
  Fixpoint catchback (fuel : nat) (ip ml anchor dist : Z) : Z * Z :=
    match fuel with
    | O => (ip, ml)
    | S f => if (ip >? anchor) && (u32 (ip - prefixIdx) >? dist) && (vrd (ip - 1) =? vrd (ip - dist - 1))
             then catchback f (ip - 1) (ml + 1) anchor dist else (ip, ml)
    end.

  Record mst := mkM { m_ip : Z; m_anchor : Z; m_op : Z; m_rout : list Z (* reversed *);
                      m_h4 : mem; m_h8 : mem; m_hw : Z }.

  Inductive mres :=
  | MFail (h4 h8 : mem) (hw : Z)                                         (* return 0 *)
  | MOk (ret consumed : Z) (out : list Z) (h4 h8 : mem) (hw : Z)
  | MUndef.                                                              (* a size_t subtraction wrapped / out of fuel *)

  (* _lz4mid_last_literals; [oend] is the restored end of the output buffer *)
  Definition last_literals (s : mst) (oend : Z) : mres :=
    let lastRun := mi_iend - m_anchor s in
    let llAdd := (lastRun + 255 - RUN_MASK) / 255 in
    let total := 1 + llAdd + lastRun in
    let op := m_op s in
    let emit (lr : Z) : mres :=
      let hdr := if lr >=? RUN_MASK then (RUN_MASK * 16) :: lit_ext (Z.to_nat lr) (lr - RUN_MASK) else [lr * 16] in
      let bytes := hdr ++ src_bytes vrd (Z.to_nat lr) (m_anchor s) in
      let op' := op + Z.of_nat (length bytes) in
      MOk op' (m_anchor s + lr - s0) (rev_append (m_rout s) bytes) (m_h4 s) (m_h8 s) (Z.max (m_hw s) op') in
    if limited && (op + total >? oend) then
      match lim with
      | FillOutput =>
        if oend - op <? 1 then MUndef
        else let lr := oend - op - 1 in
             let llAdd' := (lr + 256 - RUN_MASK) / 256 in
             emit (lr - llAdd')
      | _ => MFail (m_h4 s) (m_h8 s) (m_hw s)
      end
    else emit lastRun.

  (* _lz4mid_dest_overflow; [oend] is the lowered end (fillOutput) *)
  Definition dest_overflow (s : mst) (ml dist oend : Z) : mres :=
    match lim with
    | FillOutput =>
      let ip := m_ip s in let anchor := m_anchor s in let op := m_op s in
      let ll := ip - anchor in
      let ll_addbytes := (ll + 240) / 255 in
      let ll_totalCost := 1 + ll_addbytes + ll in
      let maxLitPos := oend - 3 in
      let s' :=
        if op + ll_totalCost <=? maxLitPos then
          let bytesLeftForMl := maxLitPos - (op + ll_totalCost) in
          let maxMlSize := MINMATCH + (ML_MASK - 1) + bytesLeftForMl * 255 in
          let ml' := if ml >? maxMlSize then maxMlSize else ml in
          if (oend + LASTLITERALS) - (op + ll_totalCost + 2) - 1 + ml' >=? MFLIMIT then
            let e := encodeSequence vrd ip anchor op ml' dist false oend in
            mkM (ip + ml') (ip + ml') (e_op e) (rev_append (e_bytes e) (m_rout s)) (m_h4 s) (m_h8 s) (Z.max (m_hw s) (e_hw e))
          else s
        else s in
      last_literals s' (oend + LASTLITERALS)
    | _ => MFail (m_h4 s) (m_h8 s) (m_hw s)
    end.

  (* everything between `_lz4mid_encode_sequence:` and the end of the loop body *)
  Definition encode_step (s : mst) (ipIndex : Z) (f : found) (h4 h8 : mem) (oend : Z) : mst + mres :=
    let '(ip, ml) := catchback (Z.to_nat (f_ip f - m_anchor s)) (f_ip f) (f_ml f) (m_anchor s) (f_dist f) in
    let dist := f_dist f in
    (* fill table with beginning of match *)
    let h8 := set h8 (hash8p (ip + 1)) (u32 (ipIndex + 1)) in
    let h8 := set h8 (hash8p (ip + 2)) (u32 (ipIndex + 2)) in
    let h4 := set h4 (hash4p (ip + 1)) (u32 (ipIndex + 1)) in
    let e := encodeSequence vrd ip (m_anchor s) (m_op s) ml dist limited oend in
    if e_ret e =? 0 then
      let ip' := ip + ml in
      let endMatchIdx := u32 ip' in
      let pos_m2 := u32 (endMatchIdx - 2) in
      let '(h4, h8) :=
        if pos_m2 <? mi_ilimitIdx then
          let h8 := if ip' - prefixIdx >? 5 then set h8 (hash8p (ip' - 5)) (u32 (endMatchIdx - 5)) else h8 in
          let h8 := set h8 (hash8p (ip' - 3)) (u32 (endMatchIdx - 3)) in
          let h8 := set h8 (hash8p (ip' - 2)) (u32 (endMatchIdx - 2)) in
          let h4 := set h4 (hash4p (ip' - 2)) (u32 (endMatchIdx - 2)) in
          let h4 := set h4 (hash4p (ip' - 1)) (u32 (endMatchIdx - 1)) in
          (h4, h8)
        else (h4, h8) in
      inl (mkM ip' ip' (e_op e) (rev_append (e_bytes e) (m_rout s)) h4 h8 (Z.max (m_hw s) (e_hw e)))
    else
      (* op restored; the bytes of the failed attempt were written inside the buffer *)
      inr (dest_overflow (mkM ip (m_anchor s) (m_op s) (m_rout s) h4 h8 (Z.max (m_hw s) (e_hw e))) ml dist oend).

  Fixpoint main_loop (fuel : nat) (s : mst) (oend : Z) : mres :=
    match fuel with
    | O => MUndef
    | S f =>
      let ip := m_ip s in
      if ip <=? mi_mflimit then
        match search ip (m_h4 s) (m_h8 s) with
        | (None, h4, h8) =>
          match dsrch ip with
          | Some fd =>
            match encode_step s (u32 ip) fd h4 h8 oend with
            | inl s' => main_loop f s' oend
            | inr r => r
            end
          | None =>
            main_loop f (mkM (ip + 1 + (ip - m_anchor s) / 512) (m_anchor s) (m_op s) (m_rout s) h4 h8 (m_hw s)) oend
          end
        | (Some fd, h4, h8) =>
          match encode_step s (u32 ip) fd h4 h8 oend with
          | inl s' => main_loop f s' oend
          | inr r => r
          end
        end
      else last_literals s (match lim with FillOutput => oend + LASTLITERALS | _ => oend end)
    end.

  Definition mid_compress (h4 h8 : mem) : mres :=
    if (srcSize <? 0) || (maxOut <? 0) || (srcSize >? LZ4_MAX_INPUT_SIZE) then MFail h4 h8 0
    else
      let oend := match lim with FillOutput => maxOut - LASTLITERALS | _ => maxOut end in
      let st := mkM s0 s0 0 [] h4 h8 0 in
      if srcSize <? LZ4_minLength then last_literals st maxOut
      else main_loop (S (Z.to_nat srcSize)) st oend.
End Mid.
