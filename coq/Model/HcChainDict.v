(* dict == usingDictCtxHc in LZ4HC_InsertAndGetWiderMatch (lib/lz4hc.c, the block after the main chain walk) and the
   stand-alone LZ4HC_searchExtDict (same loop; used by LZ4MID_searchHCDict): the walk of the ATTACHED dictionary
   context's hash chain.  New file: Model.HcChain is unchanged; [wider_loop_n] is wider_loop returning also the
   number of attempts left (the C variable nbAttempts after the loop), [insertAndGetWiderMatch_dict] is the whole
   function with dict == usingDictCtxHc.

   The dictionary context is reduced to what is read: hashTable, chainTable,
   dictEndOffset = (dictCtx->end - dictCtx->prefixStart) + dictCtx->dictLimit, and dictCtx->dictLimit (the index of
   dictCtx->prefixStart, the lower bound of LZ4HC_countBack).  Its bytes are addressed through the working
   stream's virtual index space, as in Model.HcMidDict: dictionary index l is the byte at virtual index
   l + gDictEndIndex - dictEndOffset, where gDictEndIndex = the working stream's lowLimit. *)
From Coq Require Import ZArith List Lia Bool.
From LZ4V Require Import Gen.Consts Spec.BlockSpec Model.Mem Model.Fast Model.HcEmit Model.HcMid Model.HcChain.
Import ListNotations.
Local Open Scope Z_scope.

Section ChainDict.
  Variable vrd : Z -> Z.
  Variables prefixIdx dictIdx : Z.        (* working stream: dictLimit, lowLimit *)
  Variable dht : mem.                     (* dictCtx->hashTable *)
  Variable dct : ctab.                    (* dictCtx->chainTable *)
  Variables dDictLimit dictEndOffset : Z.

  Section Loop.
    Variables ip iLowLimit iHighLimit : Z.
    Variable ipIndex gDictEndIndex : Z.
    Variable withBack : bool.              (* lookBackLength != 0  /  ip > iLowLimit *)

    (* `while (ipIndex - matchIndex <= LZ4_DISTANCE_MAX && nbAttempts--) {...}`:
       returns (longest, offset, sBack) *)
    Fixpoint dict_loop (nb : nat) (dictMatchIndex matchIndex longest offset sBack : Z) : Z * Z * Z :=
      match nb with
      | O => (longest, offset, sBack)
      | S n =>
        if u32 (ipIndex - matchIndex) <=? LZ4_DISTANCE_MAX then
          let matchPtr := dictMatchIndex + gDictEndIndex - dictEndOffset in
          let '(longest, offset, sBack) :=
            if rd32 vrd matchPtr =? rd32 vrd ip then
              let vLimit := ip + ((dictEndOffset - dictMatchIndex) mod M64) in
              let vLimit := if vLimit >? iHighLimit then iHighLimit else vLimit in
              let mlt := count vrd (ip + MINMATCH) (matchPtr + MINMATCH) vLimit + MINMATCH in
              let back := if withBack then countBack vrd ip matchPtr iLowLimit (dDictLimit + gDictEndIndex - dictEndOffset) else 0 in
              let mlt := mlt - back in
              if mlt >? longest then (mlt, s32 (ipIndex - matchIndex), back) else (longest, offset, sBack)
            else (longest, offset, sBack) in
          let nextOffset := delta_next dct dictMatchIndex in
          dict_loop n (u32 (dictMatchIndex - nextOffset)) (u32 (matchIndex - nextOffset)) longest offset sBack
        else (longest, offset, sBack)
      end.
  End Loop.

  (* LZ4HC_searchExtDict(ip, ipIndex, iLowLimit, iHighLimit, dictCtx, gDictEndIndex, currentBestML, nbAttempts):
     returns (len, off, back) *)
  Definition searchExtDict (ip ipIndex iLowLimit iHighLimit gDictEndIndex currentBestML nbAttempts : Z) : Z * Z * Z :=
    let lDictMatchIndex := get dht (hashPtr vrd ip) in
    let matchIndex := u32 (u32 (lDictMatchIndex + gDictEndIndex) - u32 dictEndOffset) in
    dict_loop ip iLowLimit iHighLimit ipIndex gDictEndIndex (ip >? iLowLimit) (Z.to_nat nbAttempts)
              lDictMatchIndex matchIndex currentBestML 0 0.

  (* wider_loop, returning also the attempts left *)
  Section WiderN.
    Variable ct : ctab.
    Variables ip iLowLimit iHighLimit : Z.
    Variables patternAnalysis chainSwap favorDecSpeed : bool.
    Fixpoint wider_loop_n (nb : nat) (s : wst) : option (wst * nat) :=
      match nb with
      | O => Some (s, O)
      | S n =>
        if w_mi s >=? w_lowest prefixIdx dictIdx ip then
          match wider_body vrd prefixIdx dictIdx ct ip iLowLimit iHighLimit patternAnalysis chainSwap favorDecSpeed s with
          | WCont s' => wider_loop_n n s'
          | WBreak s' => Some (s', n)
          | WUndef => None
          end
        else Some (s, S n)
      end.
  End WiderN.

  (* LZ4HC_InsertAndGetWiderMatch, dict == usingDictCtxHc *)
  Definition insertAndGetWiderMatch_dict (t : htabs) (ip iLowLimit iHighLimit longest maxNbAttempts : Z)
             (patternAnalysis chainSwap favorDecSpeed : bool) : option (hmatch * htabs) :=
    let t1 := insert vrd prefixIdx t ip in
    let matchIndex := get (t_hash t1) (hashPtr vrd ip) in
    match wider_loop_n (t_chain t1) ip iLowLimit iHighLimit patternAnalysis chainSwap favorDecSpeed
                       (Z.to_nat maxNbAttempts) (mkW matchIndex longest 0 0 0 rep_untested 0) with
    | None => None
    | Some (s, nleft) =>
      if (0 <? Z.of_nat nleft) && w_within prefixIdx dictIdx ip then
        let ipIndex := w_ipIndex prefixIdx ip in
        let lowest := w_lowest prefixIdx dictIdx ip in
        let dictMatchIndex := get dht (hashPtr vrd ip) in
        let mi := u32 (u32 (dictMatchIndex + lowest) - u32 dictEndOffset) in
        let '(lg, off, bk) :=
          dict_loop ip iLowLimit iHighLimit ipIndex lowest (negb (w_lookBack ip iLowLimit =? 0)) nleft
                    dictMatchIndex mi (w_longest s) (w_off s) (w_sback s) in
        Some (mkHM off lg bk, t1)
      else Some (mkHM (w_off s) (w_longest s) (w_sback s), t1)
    end.
End ChainDict.
