(* Linear-time evaluation of the block specification (Spec.BlockSpec) for blocks that are
   decoded after a long history (streaming / dictionary checks: 64 KB of history per block).

   Spec.BlockSpec / Spec.BlockFast use the standard library's [rev] (quadratic: [rev l ++ [x]])
   on the history and on the window of every match, and [length] of the whole output per match.
   Here the same functions are written with [rev_append] and a carried length; Proofs/BlockLinProofs.v
   proves them EQUAL to [spec_decode] / [strict_valid], so the extracted oracle still judges by
   the specified semantics. *)
From Coq Require Import ZArith List Lia Bool.
From LZ4V Require Import Spec.BlockSpec Spec.BlockFast.
Import ListNotations.

Definition rev' {A : Type} (l : list A) : list A := rev_append l [].

Fixpoint cm_q' (front back acc : list byte) (n : nat) : list byte :=
  match n with
  | O => acc
  | S n' =>
    match front with
    | b :: f => cm_q' f (b :: back) (b :: acc) n'
    | [] => match rev' back with
            | b :: f => cm_q' f [b] (b :: acc) n'
            | [] => acc
            end
    end
  end.

(* [len] = length of [rout] *)
Definition copy_match_lin (rout : list byte) (len : nat) (off n : nat) : option (list byte) :=
  match n with
  | O => Some rout
  | _ => if (Nat.ltb len off) || (Nat.eqb off 0) then None
         else Some (cm_q' (rev' (firstn off rout)) [] rout n)
  end.

Definition apply_seq_lin (rout : list byte) (len : nat) (s : seq) : option (list byte * nat) :=
  if off_ok (s_off s) && (4 <=? s_mlen s)%Z then
    let len1 := (len + length (s_lits s))%nat in
    match copy_match_lin (rev_append (s_lits s) rout) len1 (Z.to_nat (s_off s)) (Z.to_nat (s_mlen s)) with
    | Some r => Some (r, (len1 + Z.to_nat (s_mlen s))%nat)
    | None => None
    end
  else None.

Fixpoint apply_seqs_lin (rout : list byte) (len : nat) (ss : list seq) : option (list byte) :=
  match ss with
  | [] => Some rout
  | s :: r => match apply_seq_lin rout len s with
              | Some (rout', len') => apply_seqs_lin rout' len' r
              | None => None
              end
  end.

Definition run_seqs_lin (hist : list byte) (ss : list seq) (last : list byte) : option (list byte) :=
  let hl := length hist in
  match apply_seqs_lin (rev' hist) hl ss with
  | Some rout => Some (skipn hl (rev' (rev_append last rout)))
  | None => None
  end.

Definition end_ok_lin (ss : list seq) (last : list byte) : bool :=
  match rev' ss with
  | [] => true
  | s :: _ => (5 <=? Z.of_nat (length last))%Z && (12 <=? s_mlen s + Z.of_nat (length last))%Z
  end.

Definition spec_decode_lin (hist blk : list byte) : option (list byte) :=
  match parse_block blk with
  | Some (ss, last) => run_seqs_lin hist ss last
  | None => None
  end.
Definition strict_valid_lin (hist blk : list byte) : option (list byte) :=
  match parse_block blk with
  | Some (ss, last) => if end_ok_lin ss last then run_seqs_lin hist ss last else None
  | None => None
  end.
