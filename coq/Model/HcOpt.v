(* Model of the optimal parser of lib/lz4hc.c (HC levels 10..12):
     LZ4HC_literalsPrice, LZ4HC_sequencePrice, LZ4HC_FindLongerMatch, LZ4HC_compress_optimal
     (opt[] table, initial match, price-update loops, immediate `encode`, backward traversal,
      forward emission loop, ultra mode fullUpdate, _dest_overflow, _last_literals).
   Shared with Model.HcChain: the index space [vrd] / prefixIdx / dictIdx, the tables (htabs), the match
   search insertAndGetWiderMatch (called here with patternAnalysis = 1, chainSwap = 1 and the context's
   favorDecSpeed), the output state [cst] and c_encode / c_dest_overflow / c_last_literals (the three
   epilogues of LZ4HC_compress_optimal are, statement for statement, those of LZ4HC_compress_hashChain
   with optr/m1 renamed opSaved/ovml,ovoff).
   The opt[] array (LZ4_OPT_NUM + TRAILING_LITERALS entries, malloc'ed: LZ4HC_HEAPMODE == 1, allocation
   assumed to succeed) is four maps; it is NOT cleared between the iterations of the main loop, exactly as
   in the C code; an entry never written reads as 0 here (the C code never reads such an entry). *)
From Coq Require Import ZArith List Lia Bool.
From LZ4V Require Import Gen.Consts Spec.BlockSpec Model.Mem Model.Fast Model.HcEmit Model.HcMid Model.HcChain.
Import ListNotations.
Local Open Scope Z_scope.

(* LZ4HC_literalsPrice *)
Definition literalsPrice (litlen : Z) : Z :=
  if litlen >=? RUN_MASK then litlen + (1 + (litlen - RUN_MASK) / 255) else litlen.
(* LZ4HC_sequencePrice *)
Definition sequencePrice (litlen mlen : Z) : Z :=
  let price := 1 + 2 + literalsPrice litlen in
  if mlen >=? ML_MASK + MINMATCH then price + (1 + (mlen - (ML_MASK + MINMATCH)) / 255) else price.

(* LZ4HC_optimal_t opt[] *)
Record otab := mkO { o_price : mem; o_off : mem; o_mlen : mem; o_litlen : mem }.
Definition oempty : otab := mkO empty empty empty empty.
Definition oset (o : otab) (k price off mlen litlen : Z) : otab :=
  mkO (set (o_price o) k price) (set (o_off o) k off) (set (o_mlen o) k mlen) (set (o_litlen o) k litlen).
(* only .mlen and .off (backward traversal) *)
Definition oset_mo (o : otab) (k mlen off : Z) : otab :=
  mkO (o_price o) (set (o_off o) k off) (set (o_mlen o) k mlen) (o_litlen o).
Definition price (o : otab) (k : Z) : Z := get (o_price o) k.
Definition ooff (o : otab) (k : Z) : Z := get (o_off o) k.
Definition omlen (o : otab) (k : Z) : Z := get (o_mlen o) k.
Definition olitlen (o : otab) (k : Z) : Z := get (o_litlen o) k.

Section Opt.
  Variable vrd : Z -> Z.
  Variable prefixIdx dictIdx : Z.
  Variable lim : outdir.
  Variables s0 srcSize maxOut nbSearches : Z.
  Variable sufficient_len0 : Z.          (* cParam.targetLength *)
  Variable fullUpdate : bool.            (* ultra mode *)
  Variable fav : bool.                   (* favorDecSpeed *)

  Definition sufficient_len : Z := if sufficient_len0 >=? HC_OPT_NUM then HC_OPT_NUM - 1 else sufficient_len0.
  Definition favZ : Z := if fav then 1 else 0.
  Notation mflimit := (hc_mflimit s0 srcSize).
  Notation matchlimit := (hc_matchlimit s0 srcSize).

  (* LZ4HC_FindLongerMatch (dict == noDictCtx); None = the search ran out of fuel *)
  Definition findLongerMatch (t : htabs) (ip iHighLimit minLen : Z) : option (hmatch * htabs) :=
    match insertAndGetWiderMatch vrd prefixIdx dictIdx t ip ip iHighLimit minLen nbSearches true true fav with
    | None => None
    | Some (md, t') =>
      if hm_len md <=? minLen then Some (nomatch, t')
      else if fav && (hm_len md >? 18) && (hm_len md <=? 36) then Some (set_len md 18, t')   (* favor dec.speed (shortcut) *)
      else Some (md, t')
    end.

  (* "set prices for first positions (literals)": rPos = 0 .. MINMATCH-1 *)
  Fixpoint opt_init_lits (n : nat) (o : otab) (llen rPos : Z) : otab :=
    match n with
    | O => o
    | S k => opt_init_lits k (oset o rPos (literalsPrice (llen + rPos)) 0 1 (llen + rPos)) llen (rPos + 1)
    end.

  (* "set prices using initial match": mlen = MINMATCH .. matchML *)
  Fixpoint opt_init_match (n : nat) (o : otab) (llen offset mlen : Z) : otab :=
    match n with
    | O => o
    | S k => opt_init_match k (oset o mlen (sequencePrice llen mlen) offset mlen llen) llen offset (mlen + 1)
    end.

  (* "complete following positions with literals": addLit = 1 .. TRAILING_LITERALS *)
  Fixpoint opt_trailing (n : nat) (o : otab) (lmp addLit : Z) : otab :=
    match n with
    | O => o
    | S k => opt_trailing k (oset o (lmp + addLit) (price o lmp + literalsPrice addLit) 0 1 addLit) lmp (addLit + 1)
    end.

  (* "before match : set price with literals at beginning": litlen = 1 .. MINMATCH-1 *)
  Fixpoint dp_lits (n : nat) (o : otab) (cur baseLitlen litlen : Z) : otab :=
    match n with
    | O => o
    | S k =>
      let pr := price o cur - literalsPrice baseLitlen + literalsPrice (baseLitlen + litlen) in
      let pos := cur + litlen in
      let o' := if pr <? price o pos then oset o pos pr 0 1 (baseLitlen + litlen) else o in
      dp_lits k o' cur baseLitlen (litlen + 1)
    end.

  (* "set prices using match at position = cur": ml = MINMATCH .. matchML; returns (opt, last_match_pos) *)
  Fixpoint dp_match (n : nat) (o : otab) (cur lmp matchML offset ml : Z) : otab * Z :=
    match n with
    | O => (o, lmp)
    | S k =>
      let pos := cur + ml in
      let '(ll, pr) :=
        if omlen o cur =? 1 then
          let ll := olitlen o cur in
          (ll, (if cur >? ll then price o (cur - ll) else 0) + sequencePrice ll ml)
        else (0, price o cur + sequencePrice 0 ml) in
      if (pos >? lmp + HC_TRAILING_LITERALS) || (pr <=? price o pos - favZ) then
        let lmp' := if (ml =? matchML) && (lmp <? pos) then pos else lmp in
        dp_match k (oset o pos pr offset ml ll) cur lmp' matchML offset (ml + 1)
      else dp_match k o cur lmp matchML offset (ml + 1)
    end.

  (* one iteration of `for (cur = 1; cur < last_match_pos; cur++)` *)
  Inductive dpres :=
  | DCont (o : otab) (lmp : Z) (t : htabs)
  | DBreak                                                   (* curPtr > mflimit *)
  | DEncode (t : htabs) (best_mlen best_off : Z)             (* goto encode, with last_match_pos = cur + 1 *)
  | DUndef.

  Definition dp_body (o : otab) (t : htabs) (ip cur lmp : Z) : dpres :=
    let curPtr := ip + cur in
    if curPtr >? mflimit then DBreak
    else
      let skip :=
        if fullUpdate then (price o (cur + 1) <=? price o cur) && (price o (cur + MINMATCH) <? price o cur + 3)
        else price o (cur + 1) <=? price o cur in
      if skip then DCont o lmp t
      else
        match findLongerMatch t curPtr matchlimit (if fullUpdate then MINMATCH - 1 else lmp - cur) with
        | None => DUndef
        | Some (nm, t') =>
          if hm_len nm =? 0 then DCont o lmp t'
          else if (hm_len nm >? sufficient_len) || (hm_len nm + cur >=? HC_OPT_NUM) then
            DEncode t' (hm_len nm) (hm_off nm)               (* immediate encoding *)
          else
            let o1 := dp_lits (Z.to_nat (MINMATCH - 1)) o cur (olitlen o cur) 1 in
            let '(o2, lmp2) := dp_match (Z.to_nat (hm_len nm - MINMATCH + 1)) o1 cur lmp (hm_len nm) (hm_off nm) MINMATCH in
            DCont (opt_trailing (Z.to_nat HC_TRAILING_LITERALS) o2 lmp2 1) lmp2 t'
        end.

  Inductive dpfin :=
  | FDone (o : otab) (t : htabs) (lmp : Z)                   (* loop ended: best = opt[last_match_pos] *)
  | FEncode (o : otab) (t : htabs) (cur best_mlen best_off : Z)
  | FUndef.

  Fixpoint dp_loop (fuel : nat) (o : otab) (t : htabs) (ip cur lmp : Z) : dpfin :=
    match fuel with
    | O => FUndef
    | S f =>
      if cur <? lmp then
        match dp_body o t ip cur lmp with
        | DCont o' lmp' t' => dp_loop f o' t' ip (cur + 1) lmp'
        | DBreak => FDone o t lmp
        | DEncode t' bm bo => FEncode o t' cur bm bo
        | DUndef => FUndef
        end
      else FDone o t lmp
    end.

  (* `encode:` reverse traversal: `while (1) {...}`; None = out of fuel *)
  Fixpoint traverse (fuel : nat) (o : otab) (candidate_pos selML selOff : Z) : option otab :=
    match fuel with
    | O => None
    | S f =>
      let nextML := omlen o candidate_pos in
      let nextOff := ooff o candidate_pos in
      let o' := oset_mo o candidate_pos selML selOff in
      if nextML >? candidate_pos then Some o'                 (* last match elected, first match to encode *)
      else traverse f o' (candidate_pos - nextML) nextML nextOff
    end.

  (* "encode all recorded sequences in order": `while (rPos < last_match_pos) {...}` *)
  Fixpoint emit (fuel : nat) (o : otab) (s : cst) (rPos lmp oend : Z) : option (cst + cres) :=
    match fuel with
    | O => None
    | S f =>
      if rPos <? lmp then
        let ml := omlen o rPos in
        let offset := ooff o rPos in
        if ml =? 1 then emit f o (with_ip s (c_ip s + 1)) (rPos + 1) lmp oend        (* literal *)
        else
          match c_encode vrd lim s0 srcSize s ml offset oend with
          | inl s' => emit f o s' (rPos + ml) lmp oend
          | inr r => Some (inr r)
          end
      else Some (inl s)
    end.

  (* everything from `encode:` to the end of the main loop body *)
  Definition opt_encode (o : otab) (s : cst) (cur lmp best_mlen best_off oend : Z) : option (otab * (cst + cres)) :=
    match traverse (S (Z.to_nat cur)) o cur best_mlen best_off with
    | None => None
    | Some o' =>
      match emit (S (Z.to_nat lmp)) o' s 0 lmp oend with
      | None => None
      | Some r => Some (o', r)
      end
    end.

  (* one iteration of `while (ip <= mflimit)`; the opt[] table is carried from one iteration to the next *)
  Definition opt_step (s : cst) (o : otab) (oend : Z) : (cst * otab) + cres :=
    let ip := c_ip s in
    let llen := ip - c_anchor s in
    match findLongerMatch (c_tabs s) ip matchlimit (MINMATCH - 1) with
    | None => inr CUndef
    | Some (fm, t) =>
      let s := with_tabs s t in
      if hm_len fm =? 0 then inl (with_ip s (ip + 1), o)
      else if hm_len fm >? sufficient_len then                  (* good enough solution : immediate encoding *)
        match c_encode vrd lim s0 srcSize s (hm_len fm) (hm_off fm) oend with
        | inl s' => inl (s', o)
        | inr r => inr r
        end
      else
        let o := opt_init_lits (Z.to_nat MINMATCH) o llen 0 in
        let o := opt_init_match (Z.to_nat (hm_len fm - MINMATCH + 1)) o llen (hm_off fm) MINMATCH in
        let lmp := hm_len fm in
        let o := opt_trailing (Z.to_nat HC_TRAILING_LITERALS) o lmp 1 in
        let fin :=
          match dp_loop (Z.to_nat HC_OPT_NUM) o t ip 1 lmp with
          | FUndef => None
          | FDone o t lmp => Some (o, t, lmp - omlen o lmp, lmp, omlen o lmp, ooff o lmp)
          | FEncode o t cur bm bo => Some (o, t, cur, cur + 1, bm, bo)
          end in
        match fin with
        | None => inr CUndef
        | Some (o, t, cur, lmp, bm, bo) =>
          match opt_encode o (with_tabs s t) cur lmp bm bo oend with
          | None => inr CUndef
          | Some (o', inl s') => inl (s', o')
          | Some (o', inr r) => inr r
          end
        end
    end.

  Fixpoint opt_main (fuel : nat) (s : cst) (o : otab) (oend : Z) : cres :=
    match fuel with
    | O => CUndef
    | S f =>
      if c_ip s <=? mflimit then
        match opt_step s o oend with
        | inl (s', o') => opt_main f s' o' oend
        | inr r => r
        end
      else c_last_literals vrd lim s0 srcSize s (match lim with FillOutput => oend + LASTLITERALS | _ => oend end)
    end.

  Definition opt_compress (t : htabs) : cres :=
    let oend := match lim with FillOutput => maxOut - LASTLITERALS | _ => maxOut end in
    opt_main (S (Z.to_nat srcSize)) (mkS s0 s0 0 [] t 0) oempty oend.
End Opt.
