(* The wrap call of a decoding ring buffer: LZ4_decompress_safe_continue called at the START of the
   ring while the decoder's prefix is the lap just finished, which begins at the same address:
   LZ4_decompress_safe_forceExtDict(src, dest, srcSize, cap, dictStart = dest, dictSize) - the
   external dictionary and the destination are the SAME memory.  Model.DecStream hands the decoder
   a snapshot of the dictionary taken at call time; here every dictionary load goes to the current
   contents of the one memory, in the order of the C code: the literals of a sequence are stored
   (with the over-copy of LZ4_wildCopy8 / the 16-byte copy / LZ4_wildCopy32) BEFORE the match of
   that sequence loads from the dictionary.  The regions that do not store before they load the
   dictionary (copy_match_lbl, fast_offset and below) are Model.Dec's own functions with the current
   memory as their dictionary.  Addresses: destination = dictionary start = 0; the source block is
   in a separate memory (it is not part of the ring). *)
From Coq Require Import ZArith List Lia Bool.
From LZ4V Require Import Gen.Consts Model.Mem Model.Dec.
Import ListNotations.
Local Open Scope Z_scope.

Section RingWrap.
  Variable srcm : mem.
  Variable iend oend : Z.
  Variable dictSize : Z.       (* length of the finished lap = the external dictionary [0, dictSize) *)

  Local Notation RD := (rd_src iend).
  Local Notation WR := (wr oend).

  Definition w_safe_lit (s : dstate) (token length : Z) : dout :=
    let i := ip s in let o := op s in
    let cpy := o + length in
    let after (s' : dstate) : dout :=
      let offset := readLE16 srcm (ip s') in
      copy_match_lbl false UsingExtDict srcm iend oend 0 0 (dm s') dictSize
                     (mkD (ip s' + 2) (op s') (dm s') (ok s' && RD (ip s') 2)) offset (token mod 16) in
    if (cpy >? oend - MFLIMIT) || (i + length >? iend - (2 + 1 + LASTLITERALS)) then
      if negb (i + length =? iend) || (cpy >? oend) then Err s else
      Done (mkD (i + length) (o + length) (blit srcm i (dm s) o (Z.to_nat length))
                (ok s && RD i length && WR o length))
    else
      after (mkD (i + length) cpy (wild8_in srcm i (dm s) o cpy)
                 (ok s && RD i (wild8_len o cpy) && WR o (wild8_len o cpy))).

  Definition w_safe_top (s : dstate) : dout :=
    let token := get srcm (ip s) in
    let k := ok s && RD (ip s) 1 in
    let i := ip s + 1 in
    let o := op s in
    let length := token / 16 in
    if negb (length =? RUN_MASK) && ((i <? shortiend iend) && (o <=? shortoend oend)) then
      let m := blit srcm i (dm s) o 16 in
      let k := k && RD i 16 && WR o 16 in
      let o := o + length in let i := i + length in
      let ml := token mod 16 in
      let offset := readLE16 srcm i in
      let k := k && RD i 2 in
      let i := i + 2 in
      let mat := o - offset in
      if negb (ml =? ML_MASK) && (offset >=? 8) && (is_prefix64k UsingExtDict || (mat >=? 0)) then
        Cont false (mkD i (o + ml + MINMATCH) (copy18 m o mat) (k && WR o 18 && rd_dst oend 0 mat 18))
      else copy_match_lbl false UsingExtDict srcm iend oend 0 0 m dictSize (mkD i o m k) offset ml
    else if length =? RUN_MASK then
      match rvl srcm iend i (iend - RUN_MASK) true k with
      | (None, p, k) => Err (mkD p o (dm s) k)
      | (Some addl, p, k) => w_safe_lit (mkD p o (dm s) k) token (length + addl)
      end
    else w_safe_lit (mkD i o (dm s) k) token length.

  Definition w_fast_top (s : dstate) : dout :=
    let token := get srcm (ip s) in
    let k := ok s && RD (ip s) 1 in
    let i := ip s + 1 in
    let o := op s in
    let length := token / 16 in
    if length =? RUN_MASK then
      match rvl srcm iend i (iend - RUN_MASK) true k with
      | (None, p, k) => Err (mkD p o (dm s) k)
      | (Some addl, p, k) =>
        let length := length + addl in
        if (o + length >? oend - 32) || (p + length >? iend - 32) then
          w_safe_lit (mkD p o (dm s) k) token length
        else
          let m1 := wild32_in srcm p (dm s) o (o + length) in
          fast_offset false UsingExtDict srcm iend oend 0 0 m1 dictSize
                      (mkD (p + length) (o + length) m1
                           (k && RD p (wild32_len o (o + length)) && WR o (wild32_len o (o + length)))) token
      end
    else if i <=? iend - (16 + 1) then
      let m1 := blit srcm i (dm s) o 16 in
      fast_offset false UsingExtDict srcm iend oend 0 0 m1 dictSize
                  (mkD (i + length) (o + length) m1 (k && RD i 16 && WR o 16)) token
    else w_safe_lit (mkD i o (dm s) k) token length.

  Fixpoint w_run (fuel : nat) (fast : bool) (s : dstate) : Z * dstate :=
    match fuel with
    | O => (-1, mkD (ip s) (op s) (dm s) false)
    | S f =>
      match (if fast then w_fast_top s else w_safe_top s) with
      | Cont fast' s' => w_run f fast' s'
      | Done s' => (op s', s')
      | Err s' => (- (ip s') - 1, s')
      end
    end.
End RingWrap.

(* LZ4_decompress_safe_forceExtDict(src, ring, srcSize, cap, ring, lapSize) on the ring memory m0 *)
Definition decompress_ring_wrap (fastloop : bool) (srcm : mem) (srcSize cap lapSize : Z) (m0 : mem) : Z * mem * bool :=
  if cap <? 0 then (-1, m0, true) else
  if cap =? 0 then
    if srcSize =? 1 then ((if get srcm 0 / 2 ^ ML_BITS =? 0 then 0 else -1), m0, true) else (-1, m0, true)
  else if srcSize =? 0 then (-1, m0, true) else
  let fast := fastloop && negb (cap <? FASTLOOP_SAFE_DISTANCE) in
  let '(r, s) := w_run srcm srcSize cap lapSize (Z.to_nat srcSize + 2) fast (mkD 0 0 m0 true) in
  (r, dm s, ok s).
