(* dict == usingDictCtxHc at the LZ4MID levels when the attached dictionary context is itself an LZ4MID context
   (select_searchDict_function -> LZ4MID_searchExtDict, lib/lz4hc.c:417-465), together with the caller's filter in
   LZ4MID_compress (lz4hc.c:638-651).  The result is the function [dsrch] that Model.HcMid.mid_compress takes.

   The dictionary context is reduced to what is read: its two hash tables and
   lDictEndIndex = (dictCtx->end - dictCtx->prefixStart) + dictCtx->dictLimit.  Its bytes are addressed through the
   working stream's virtual index space: dictionary index l is the byte at virtual index
   l + gDictEndIndex - lDictEndIndex (what `matchPtr = dictCtx->prefixStart - dictCtx->dictLimit + l` designates when
   l >= dictCtx->dictLimit; below that the C pointer leaves the dictionary buffer - the distance test excludes it for a
   context prepared by LZ4_loadDictHC, which is a proof obligation, not a modelling assumption). *)
From Coq Require Import ZArith List Lia Bool.
From LZ4V Require Import Gen.Consts Spec.BlockSpec Model.Mem Model.Fast Model.HcEmit Model.HcMid.
Import ListNotations.
Local Open Scope Z_scope.

Section MidDict.
  Variable vrd : Z -> Z.
  Variables s0 srcSize : Z.
  Variable gDictEndIndex : Z.              (* ctx->lowLimit of the working stream *)
  Variables dh4 dh8 : mem.                 (* dictCtx->hashTable halves *)
  Variable lDictEndIndex : Z.

  (* one probe: `lXDictMatchIndex = table[hash]; mXIndex = l + gDictEndIndex - (U32)lDictEndIndex; ...` *)
  Definition dict_cand (ip l : Z) : option found :=
    let ipIndex := u32 ip in
    let m := u32 (l + gDictEndIndex - u32 lDictEndIndex) in
    if u32 (ipIndex - m) <=? LZ4_DISTANCE_MAX then
      let safeLen := Z.min ((lDictEndIndex - l) mod M64) (mi_matchlimit s0 srcSize - ip) in
      let mlt := count vrd ip (l + gDictEndIndex - lDictEndIndex) (ip + safeLen) in
      if mlt >=? MINMATCH then Some (mkF ip mlt (u32 (ipIndex - m))) else None
    else None.

  Definition mid_searchExtDict (ip : Z) : option found :=
    match dict_cand ip (get dh8 (hash8p vrd ip)) with
    | Some f => Some f
    | None => dict_cand ip (get dh4 (hash4p vrd ip))
    end.

  (* `if ((dict == usingDictCtxHc) && (ipIndex - gDictEndIndex < LZ4_DISTANCE_MAX - 8)) { dMatch = searchIntoDict(...);
      if (dMatch.len >= MINMATCH) goto encode }` *)
  Definition dict_search (ip : Z) : option found :=
    if u32 (u32 ip - gDictEndIndex) <? LZ4_DISTANCE_MAX - 8 then
      match mid_searchExtDict ip with
      | Some f => if f_ml f >=? MINMATCH then Some f else None
      | None => None
      end
    else None.
End MidDict.
