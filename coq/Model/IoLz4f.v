(* The single-thread LZ4IO_decompressLZ4F() of programs/lz4io.c as it is written: the header call
   with the 4 magic bytes, then `for (;nextToLoad;)`: fread of min(nextToLoad, srcBufferSize) bytes,
   the inner `while (pos < readSize || decodedBytes == dstBufferSize)` around
   LZ4F_decompress_usingDict with a destination of dstBufferSize bytes, fwrite of what was decoded
   (none in test mode), and the exits 62 (header error), 66 (decompression error), 70 (write error),
   67 (read error), 68 (unfinished stream).  The decoder is Model.FrameD (LZ4F_decompress, all stages),
   the world is Model.Io's (source bytes, position-based read/write faults, event trace).

   This replaces, for the decode path, the abstraction of Model/Io.v "the ST LZ4F loop reads exactly the
   bytes of the frame; its chunking is collapsed into one ERead / one EWrite": Proofs/IoLz4fRefine.v
   relates the two.

   Not modelled: a dictionary (-D: dictBuffer is empty here), sparse writes (--no-sparse), the progress
   display.  [skipcrc] is the option set of the FIRST call only (dOpt_skipCrc when both --no-frame-crc and
   no block checksum were asked; the later calls pass NULL, the flag is sticky inside the dctx).
   Fuel: the loops are fuelled; out of fuel is [Die FUEL] (not an exit status). *)
From Coq Require Import ZArith List Bool.
From LZ4V Require Import Spec.BlockSpec Spec.FrameSpec Gen.Consts Model.FrameD Model.Io.
Import ListNotations.
Local Open Scope Z_scope.

Section Loop.
  Variable bdec : list byte -> list byte -> option (list byte).

  Definition o_null : dopts := mkO false false false.            (* dOptPtr == NULL *)
  Definition o_first (skipcrc : bool) : dopts := mkO false skipcrc false.

  (* result of the inner loop: the frame ended (nextToLoad == 0) / it wants [next] more bytes / exit *)
  Inductive inner_res :=
  | IDone (d : dstate) (s : st)
  | IMore (next : Z) (d : dstate) (s : st)
  | IDie (code : Z) (s : st).

  (* while ((pos < readSize) || (decodedBytes == dstBufferSize)): [buf] = srcBuffer[pos..readSize) *)
  Fixpoint inner (fuel : nat) (test : bool) (fl : faults) (d : dstate) (buf : list byte) (next : Z) (full : bool) (s : st)
    : inner_res :=
    match fuel with
    | O => IDie FUEL s
    | S f =>
      if negb (0 <? zlen buf) && negb full then IMore next d s
      else
        let '(d1, r) := decompress_usingDict bdec d buf IOL_dBufferSize [] o_null in
        if r_ret r <? 0 then IDie 66 s
        else
          let buf1 := zdrop (r_consumed r) buf in
          let wr := if (0 <? zlen (r_out r)) && negb test then fwrite fl (r_out r) s else (true, s) in
          if negb (fst wr) then IDie 70 (snd wr)
          else if r_ret r =? 0 then IDone d1 (snd wr)
          else inner f test fl d1 buf1 (r_ret r) (zlen (r_out r) =? IOL_dBufferSize) (snd wr)
    end.

  (* after the loop: ferror -> 67, nextToLoad != 0 -> 68 *)
  Definition finish (next : Z) (s : st) : res unit :=
    if s_rerr s then Die 67 s else if negb (next =? 0) then Die 68 s else Ret tt s.

  (* for (;nextToLoad;) *)
  Fixpoint outer (fuel ifuel : nat) (test : bool) (fl : faults) (d : dstate) (next : Z) (s : st) : res unit :=
    match fuel with
    | O => Die FUEL s
    | S f =>
      if next =? 0 then finish 0 s
      else
        let n := if IOL_dBufferSize <? next then IOL_dBufferSize else next in
        let '(got, s1) := fread fl n s in
        if zlen got =? 0 then finish next s1
        else
          match inner ifuel test fl d got next true s1 with
          | IDie c s2 => Die c s2
          | IDone _ s2 => finish 0 s2
          | IMore next' d' s2 => outer f ifuel test fl d' next' s2
          end
    end.

  (* LZ4IO_decompressLZ4F: the magic number has been consumed from the source *)
  Definition lz4f_st_c (fuel ifuel : nat) (skipcrc test : bool) (fl : faults) (d0 : dstate) (s : st) : res unit :=
    let '(d1, r) := decompress_usingDict bdec d0 (le_bytes 4 LZ4IO_MAGICNUMBER) 0 [] (o_first skipcrc) in
    if r_ret r <? 0 then Die 62 s
    else outer fuel ifuel test fl d1 (r_ret r) s.

  (* generous fuel for running the model: every outer iteration reads >= 1 byte; an inner loop over n <= 64 KB of
     input makes at most n consuming calls plus one call per 64 KB of output *)
  Definition lz4f_st_run (skipcrc test : bool) (fl : faults) (s : st) : res unit :=
    lz4f_st_c (S (length (s_in s))) (Z.to_nat (IOL_dBufferSize + 4096)) skipcrc test fl dctx_init s.
End Loop.
