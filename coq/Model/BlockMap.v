(* An O(n log n) executable version of the block sequence semantics of Spec.BlockSpec
   (random access through Model.Mem instead of lists), so that the extracted judge can
   validate blocks with many far matches.  Proofs/BlockMapProofs.v proves
   [spec_decode_map = spec_decode] and [strict_valid_map = strict_valid]. *)
From Coq Require Import ZArith List Bool.
From LZ4V Require Import Spec.BlockSpec Model.Mem.
Import ListNotations.
Local Open Scope Z_scope.

(* state: memory holding the output so far at addresses [0, n) *)
Definition apply_seq_map (st : mem * Z) (s : seq) : option (mem * Z) :=
  let '(m, n) := st in
  if off_ok (s_off s) && (4 <=? s_mlen s) then
    let m1 := store_list m n (s_lits s) in
    let n1 := n + Z.of_nat (length (s_lits s)) in
    if n1 <? s_off s then None
    else Some (copy_fwd m1 n1 (n1 - s_off s) (Z.to_nat (s_mlen s)), n1 + s_mlen s)
  else None.

Fixpoint apply_seqs_map (st : mem * Z) (ss : list seq) : option (mem * Z) :=
  match ss with
  | [] => Some st
  | s :: r => match apply_seq_map st s with
              | Some st' => apply_seqs_map st' r
              | None => None
              end
  end.

Definition run_seqs_map (hist : list byte) (ss : list seq) (last : list byte) : option (list byte) :=
  match apply_seqs_map (mem_of_list 0 hist, Z.of_nat (length hist)) ss with
  | Some (m, n) => Some (skipn (length hist) (load_list m 0 (Z.to_nat n) ++ last))
  | None => None
  end.

(* one pass gives both judgments: (end-of-block conditions hold, content) *)
Definition decode_map (hist blk : list byte) : option (bool * list byte) :=
  match parse_block blk with
  | Some (ss, last) =>
    match run_seqs_map hist ss last with
    | Some c => Some (end_ok ss last, c)
    | None => None
    end
  | None => None
  end.
Definition spec_decode_map (hist blk : list byte) : option (list byte) :=
  match decode_map hist blk with Some (_, c) => Some c | None => None end.
Definition strict_valid_map (hist blk : list byte) : option (list byte) :=
  match decode_map hist blk with Some (true, c) => Some c | _ => None end.
