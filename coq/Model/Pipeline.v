(* Transition system of the four multi-threaded pipelines of programs/lz4io.c on top of Model/TPool.v:

     CompLegacy  LZ4IO_compressLegacy_internal      (lz4io.c:840-920)   tPool(N,TQ) + wPool(1,WQ)
     CompLZ4F    LZ4IO_compressFilename_extRess_MT  (lz4io.c:1178-1368) tPool(N,TQ) + wPool(1,WQ)
     DecLegacy   LZ4IO_decodeLegacyStream           (lz4io.c:1760-1842) tPool(1,TQ) + wPool(1,WQ), inBuffs/outBuffs[NB]
     DecLZ4F     LZ4IO_decompressLZ4F               (lz4io.c:2122-2214) tPool(1,TQ) + wPool(1,WQ), inBuffs[NB], BufferPool[PB]

   Threads: tid 0 = main, 1..N = workers of tPool, N+1 = the worker of wPool (creation order).
   Jobs: the job functions LZ4IO_readAndProcess (JRead), LZ4IO_compressChunk/-AndFreeChunk (JComp),
   LZ4IO_checkWriteOrder (JWrite), LZ4IO_decompressBlockLegacy (JDec), LZ4IO_writeDecodedChunk (JWDec),
   LZ4IO_decompressLZ4FChunk (JFDec), LZ4IO_writeDecodedLZ4FChunk (JFW).  Data are abstract (block k is the
   one-element list [k]); what is modelled is who submits what to which pool in which order, the write
   register, and which ring slot each job uses.

   Step granularity (the same as harness/c/sched_shim.c enforces on the real code): a thread that is
   scheduled runs until it releases a mutex, blocks in pthread_cond_wait / pthread_join, or ends.  So one
   step = the code between two synchronisation points followed by one critical section of threadpool.c.
   A pick (t, w) schedules thread t; w names the waiter woken by the pthread_cond_signal of that step
   (ignored when nobody waits on the signalled condition).  pstep returns None when the pick is not
   enabled (thread blocked/finished, or w not among the waiters).

   No proofs in this file. *)
From Coq Require Import ZArith List Bool Arith.
From LZ4V Require Import Model.WriteReg Model.TPool.
Import ListNotations.

Inductive pid := PT | PW.

Inductive job :=
| JRead (k : nat)      (* reads chunk k, submits JComp k and JRead (k+1) *)
| JComp (k : nat)      (* compresses chunk k, submits JWrite k to wPool *)
| JWrite (k : nat)     (* LZ4IO_checkWriteOrder for block k *)
| JDec (k : nat)       (* legacy: decodes inBuffs[k mod NB] into outBuffs[k mod NB], submits JWDec k *)
| JWDec (k : nat)      (* legacy: writes outBuffs[k mod NB] *)
| JFDec (k : nat)      (* LZ4F: decodes inBuffs[k mod NB] into successive BufferPool buffers, one JFW each *)
| JFW (j : nat).       (* LZ4F: writes BufferPool buffer j mod PB and releases it *)

Inductive kind := CompLegacy | CompLZ4F | DecLegacy | DecLZ4F.

Record cfg := mkCfg {
  c_kind : kind;
  c_N : nat;            (* workers of tPool (prefs->nbWorkers for compression, 1 for decoding) *)
  c_tdepth : nat;       (* queue depth given to TPool_create for tPool *)
  c_wdepth : nat;       (* ... for wPool *)
  c_NB : nat;           (* NB_BUFFSETS *)
  c_PB : nat;           (* PBUFFERS_NB *)
  c_nfull : nat;        (* compression input: number of full chunks ... *)
  c_last : bool;        (* ... followed by a partial, non-empty chunk (true) or by end of file (false) *)
  c_nblocks : nat;      (* legacy decoding: number of blocks *)
  c_outs : list nat     (* LZ4F decoding: per input chunk, the number of output buffers it fills *)
}.

Definition sum_list (l : list nat) : nat := fold_right plus 0 l.
Definition outs_before (c : cfg) (k : nat) : nat := sum_list (firstn k (c_outs c)).

(* the TPool_submitJob calls made by a job body, in order *)
Definition job_subs (c : cfg) (j : job) : list (pid * job) :=
  match j with
  | JRead k =>
      if k <? c_nfull c then [(PT, JComp k); (PT, JRead (S k))]
      else if (k =? c_nfull c) && c_last c then [(PT, JComp k)]
      else []
  | JComp k => [(PW, JWrite k)]
  | JDec k => [(PW, JWDec k)]
  | JFDec k => map (fun i => (PW, JFW (outs_before c k + i))) (seq 0 (nth k (c_outs c) 0))
  | JWrite _ | JWDec _ | JFW _ => []
  end.

(* number of compressed blocks of a compression run *)
Definition comp_blocks (c : cfg) : nat := c_nfull c + (if c_last c then 1 else 0).

Inductive wstate :=
| WIdle                          (* top of the TPool_thread loop, or woken from queuePopCond: runnable *)
| WWaitPop                       (* blocked in pthread_cond_wait(queuePopCond) *)
| WRun (j : job) (i : nat)       (* running job j, i submits done: runnable *)
| WSubWait (j : job) (i : nat)   (* blocked inside the (i+1)-th TPool_submitJob of j on queuePushCond *)
| WSubWoken (j : job) (i : nat)  (* woken from that wait: runnable, re-tests isQueueFull *)
| WExit                          (* left the loop (shutdown): runnable, the thread function returns *)
| WDone.

Inductive mop :=
| MSubmit (p : pid) (j : job)    (* TPool_submitJob from the main thread *)
| MRefill (k : nat)              (* decoders: fread into inBuffs[k mod NB] *)
| MJobsCompleted (p : pid)       (* TPool_jobsCompleted *)
| MShutdown (p : pid)            (* TPool_shutdown: lock; shutdown = 1; unlock *)
| MBroadcast (p : pid)           (* ... broadcast queuePushCond; broadcast queuePopCond *)
| MJoin (t : tid).               (* ... pthread_join *)

Inductive mstatus :=
| MRunnable
| MWaitPush (p : pid)            (* blocked on queuePushCond of p (in TPool_submitJob or TPool_jobsCompleted) *)
| MWokenPush                     (* woken from it: runnable, re-tests the loop condition of the head operation *)
| MWaitJoin (t : tid)
| MFinished.

Inductive event :=
| EvSub (step : nat) (t : tid) (p : pid) (j : job)   (* TPool_submitJob called *)
| EvStart (step : nat) (t : tid) (j : job)           (* job function entered *)
| EvEnd (step : nat) (t : tid) (j : job)             (* job function returned *)
| EvWr (step : nat) (t : tid) (rank : Z).            (* a compressed block handed to fwrite *)

Record state := mkState {
  s_pt : pool job;
  s_pw : pool job;
  s_ws : list wstate;        (* worker with tid t is at index t-1 *)
  s_mops : list mop;         (* what the main thread still has to do *)
  s_mst : mstatus;
  s_wr : wr_state;           (* the write register (compression) *)
  s_out : list (list Z);     (* every buffer written to the compressed output so far, in order *)
  s_err : bool;              (* a branch that the C code cannot survive was taken (null job, register flag, ...) *)
  s_viol : bool;             (* a ring buffer was refilled / reused while a job using it had not finished *)
  s_step : nat;
  s_trace : list event       (* newest first *)
}.

Definition get_pool (st : state) (p : pid) : pool job := match p with PT => s_pt st | PW => s_pw st end.
Definition set_pool (st : state) (p : pid) (x : pool job) : state :=
  match p with
  | PT => mkState x (s_pw st) (s_ws st) (s_mops st) (s_mst st) (s_wr st) (s_out st) (s_err st) (s_viol st) (s_step st) (s_trace st)
  | PW => mkState (s_pt st) x (s_ws st) (s_mops st) (s_mst st) (s_wr st) (s_out st) (s_err st) (s_viol st) (s_step st) (s_trace st)
  end.
Definition set_ws (st : state) (ws : list wstate) : state :=
  mkState (s_pt st) (s_pw st) ws (s_mops st) (s_mst st) (s_wr st) (s_out st) (s_err st) (s_viol st) (s_step st) (s_trace st).
Definition set_w (st : state) (t : tid) (w : wstate) : state := set_ws st (set_nth (t - 1) w (s_ws st)).
Definition set_main (st : state) (ops : list mop) (m : mstatus) : state :=
  mkState (s_pt st) (s_pw st) (s_ws st) ops m (s_wr st) (s_out st) (s_err st) (s_viol st) (s_step st) (s_trace st).
Definition set_err (st : state) : state :=
  mkState (s_pt st) (s_pw st) (s_ws st) (s_mops st) (s_mst st) (s_wr st) (s_out st) true (s_viol st) (s_step st) (s_trace st).
Definition or_viol (st : state) (b : bool) : state :=
  mkState (s_pt st) (s_pw st) (s_ws st) (s_mops st) (s_mst st) (s_wr st) (s_out st) (s_err st) (s_viol st || b) (s_step st) (s_trace st).
Definition add_event (st : state) (e : event) : state :=
  mkState (s_pt st) (s_pw st) (s_ws st) (s_mops st) (s_mst st) (s_wr st) (s_out st) (s_err st) (s_viol st) (s_step st) (e :: s_trace st).
Definition set_wr (st : state) (w : wr_state) (o : list (list Z)) (ok : bool) : state :=
  mkState (s_pt st) (s_pw st) (s_ws st) (s_mops st) (s_mst st) w (s_out st ++ o) (s_err st || negb ok) (s_viol st) (s_step st) (s_trace st).
Definition next_step (st : state) : state :=
  mkState (s_pt st) (s_pw st) (s_ws st) (s_mops st) (s_mst st) (s_wr st) (s_out st) (s_err st) (s_viol st) (S (s_step st)) (s_trace st).

Definition own_pool (c : cfg) (t : tid) : pid := if t <=? c_N c then PT else PW.

(* ---------------------------------------------------------------- jobs that have been submitted and whose body has not returned *)
Definition job_of_wstate (w : wstate) : list job :=
  match w with
  | WRun j _ | WSubWait j _ | WSubWoken j _ => [j]
  | _ => []
  end.
Definition queued (p : pool job) : list job :=
  flat_map (fun s => match s with Some j => [j] | None => [] end) (q_list p).
Definition live_jobs (st : state) : list job :=
  queued (s_pt st) ++ queued (s_pw st) ++ flat_map job_of_wstate (s_ws st).

(* ring slot conflicts, tested at the point where the C code touches the buffer *)
Definition refill_conflict (c : cfg) (st : state) (k : nat) : bool :=
  existsb (fun j => match j with
                    | JDec k' | JFDec k' => (k' mod c_NB c) =? (k mod c_NB c)
                    | _ => false end) (live_jobs st).
Definition decode_out_conflict (c : cfg) (st : state) (k : nat) : bool :=
  existsb (fun j => match j with
                    | JWDec k' => (k' mod c_NB c) =? (k mod c_NB c)
                    | _ => false end) (live_jobs st).
Definition pool_buf_conflict (c : cfg) (st : state) (j : nat) : bool :=
  existsb (fun x => match x with
                    | JFW j' => ((j' mod c_PB c) =? (j mod c_PB c)) && negb (j' =? j)
                    | _ => false end) (live_jobs st).

(* ---------------------------------------------------------------- wake-ups *)
Definition wake_thread (st : state) (t : option tid) : state :=
  match t with
  | None => st
  | Some 0 =>
      match s_mst st with
      | MWaitPush _ => set_main st (s_mops st) MWokenPush
      | _ => set_err st
      end
  | Some t =>
      match nth_error (s_ws st) (t - 1) with
      | Some WWaitPop => set_w st t WIdle
      | Some (WSubWait j i) => set_w st t (WSubWoken j i)
      | _ => set_err st
      end
  end.

Definition wake_all (st : state) (ts : list tid) : state :=
  fold_left (fun s t => wake_thread s (Some t)) ts st.

(* pthread_cond_signal(&queuePushCond) of pool p; None = illegal wake choice *)
Definition signal_push (st : state) (p : pid) (w : tid) : option state :=
  let pl := get_pool st p in
  match wake (push_w pl) w with
  | None => None
  | Some (ws', woken) => Some (wake_thread (set_pool st p (set_push_w pl ws')) woken)
  end.
Definition signal_pop (st : state) (p : pid) (w : tid) : option state :=
  let pl := get_pool st p in
  match wake (pop_w pl) w with
  | None => None
  | Some (ws', woken) => Some (wake_thread (set_pool st p (set_pop_w pl ws')) woken)
  end.

(* ---------------------------------------------------------------- TPool_submitJob(p, j) by thread t.
   Result: (state, true) when the call returned, (state, false) when the caller now waits on queuePushCond. *)
Definition submit_cs (st : state) (t : tid) (p : pid) (j : job) (w : tid) : option (state * bool) :=
  let pl := get_pool st p in
  if isQueueFull pl && negb (shut pl) then
    Some (set_pool st p (set_push_w pl (push_w pl ++ [t])), false)
  else if shut pl then Some (st, true)                       (* TPool_submitJob_internal: if (ctx->shutdown) return *)
  else match signal_pop (set_pool st p (pool_push pl j)) p w with
       | None => None
       | Some st' => Some (st', true)
       end.

(* effects at the first TPool_submitJob attempt of a thread: event, BufferPool check for LZ4F write jobs *)
Definition sub_effects (c : cfg) (st : state) (t : tid) (p : pid) (j : job) : state :=
  let st1 := match j with
             | JFW n => or_viol st (pool_buf_conflict c st n)
             | _ => st
             end in
  add_event st1 (EvSub (s_step st) t p j).

(* effects when a job function is entered *)
Definition start_effects (c : cfg) (st : state) (t : tid) (j : job) : state :=
  let st1 := match j with
             | JDec k => or_viol st (decode_out_conflict c st k)
             | _ => st
             end in
  add_event st1 (EvStart (s_step st) t j).

(* effects of the part of the body that follows the last submit: LZ4IO_checkWriteOrder for JWrite *)
Definition wr_events (st : state) (t : tid) (o : list (list Z)) : state :=
  fold_left (fun s d => add_event s (EvWr (s_step st) t (match d with r :: _ => r | [] => (-1)%Z end))) o st.
Definition body_effects (c : cfg) (st : state) (t : tid) (j : job) : state :=
  match j with
  | JWrite k =>
      let '(w', o, ok) := arrive (s_wr st) (Z.of_nat k) [Z.of_nat k] in
      wr_events (set_wr st w' o ok) t o
  | _ => st
  end.

(* ---------------------------------------------------------------- a worker thread *)
Definition worker_step (c : cfg) (st : state) (t : tid) (w : tid) : option state :=
  let own := own_pool c t in
  match nth_error (s_ws st) (t - 1) with
  | None => None
  | Some WIdle =>
      let pl := get_pool st own in
      if worker_must_wait pl then
        if shut pl then Some (set_w st t WExit)
        else Some (set_w (set_pool st own (set_pop_w pl (pop_w pl ++ [t]))) t WWaitPop)
      else
        match pool_pop pl with
        | None => Some (set_err st)
        | Some (j, pl') =>
            match signal_push (set_pool st own pl') own w with
            | None => None
            | Some st' => Some (set_w st' t (WRun j 0))
            end
        end
  | Some (WRun j i) =>
      let st1 := if i =? 0 then start_effects c st t j else st in
      match nth_error (job_subs c j) i with
      | Some (p, j') =>
          match submit_cs (sub_effects c st1 t p j') t p j' w with
          | None => None
          | Some (st2, true) => Some (set_w st2 t (WRun j (S i)))
          | Some (st2, false) => Some (set_w st2 t (WSubWait j i))
          end
      | None =>
          (* body ends; back in TPool_thread: lock; numThreadsBusy--; signal(queuePushCond); unlock *)
          let st2 := add_event (body_effects c st1 t j) (EvEnd (s_step st) t j) in
          match signal_push (set_pool st2 own (pool_job_done (get_pool st2 own))) own w with
          | None => None
          | Some st3 => Some (set_w st3 t WIdle)
          end
      end
  | Some (WSubWoken j i) =>
      match nth_error (job_subs c j) i with
      | Some (p, j') =>
          match submit_cs st t p j' w with
          | None => None
          | Some (st2, true) => Some (set_w st2 t (WRun j (S i)))
          | Some (st2, false) => Some (set_w st2 t (WSubWait j i))
          end
      | None => Some (set_err st)
      end
  | Some WExit =>
      let st1 := set_w st t WDone in
      Some (match s_mst st1 with
            | MWaitJoin t' => if t' =? t then set_main st1 (s_mops st1) MRunnable else st1
            | _ => st1
            end)
  | Some WWaitPop | Some (WSubWait _ _) | Some WDone => None
  end.

(* ---------------------------------------------------------------- the main thread: runs its operations up to the next
   mutex release / block.  [woken] = the head operation is being resumed after a wake-up. *)
Definition thread_done (st : state) (t : tid) : bool :=
  match nth_error (s_ws st) (t - 1) with Some WDone => true | _ => false end.

Fixpoint main_run (fuel : nat) (c : cfg) (st : state) (w : tid) (woken : bool) : option state :=
  match fuel with
  | O => Some (set_err st)
  | S f =>
      match s_mops st with
      | [] => Some (set_main st [] MFinished)
      | MSubmit p j :: rest =>
          let st1 := if woken then st else sub_effects c st 0 p j in
          match submit_cs st1 0 p j w with
          | None => None
          | Some (st2, true) => Some (set_main st2 rest MRunnable)
          | Some (st2, false) => Some (set_main st2 (s_mops st) (MWaitPush p))
          end
      | MJobsCompleted p :: rest =>
          let pl := get_pool st p in
          if jobs_pending pl
          then Some (set_main (set_pool st p (set_push_w pl (push_w pl ++ [0]))) (s_mops st) (MWaitPush p))
          else Some (set_main st rest MRunnable)
      | MShutdown p :: rest =>
          Some (set_main (set_pool st p (pool_set_shutdown (get_pool st p))) rest MRunnable)
      | MBroadcast p :: rest =>
          let pl := get_pool st p in
          let st1 := set_pool st p (set_pop_w (set_push_w pl []) []) in
          main_run f c (set_main (wake_all (wake_all st1 (push_w pl)) (pop_w pl)) rest MRunnable) w false
      | MJoin t :: rest =>
          if thread_done st t then main_run f c (set_main st rest MRunnable) w false
          else Some (set_main st (s_mops st) (MWaitJoin t))
      | MRefill k :: rest =>
          main_run f c (set_main (or_viol st (refill_conflict c st k)) rest MRunnable) w false
      end
  end.

Definition main_step (c : cfg) (st : state) (w : tid) : option state :=
  match s_mst st with
  | MRunnable => main_run (S (length (s_mops st))) c st w false
  | MWokenPush => main_run (S (length (s_mops st))) c st w true
  | MWaitPush _ | MWaitJoin _ | MFinished => None
  end.

Definition pick := (tid * tid)%type.

Definition pstep (c : cfg) (st : state) (pk : pick) : option state :=
  let '(t, w) := pk in
  match (if t =? 0 then main_step c st w else worker_step c st t w) with
  | None => None
  | Some st' => Some (next_step st')
  end.

Fixpoint run (c : cfg) (st : state) (sched : list pick) : option state :=
  match sched with
  | [] => Some st
  | pk :: rest => match pstep c st pk with None => None | Some st' => run c st' rest end
  end.

(* ---------------------------------------------------------------- programs of the main thread *)
Definition free_pool (c : cfg) (p : pid) : list mop :=
  [MShutdown p; MBroadcast p] ++
  match p with
  | PT => map MJoin (seq 1 (c_N c))
  | PW => [MJoin (S (c_N c))]
  end.

Definition main_program (c : cfg) : list mop :=
  match c_kind c with
  | CompLegacy =>
      [MSubmit PT (JRead 0); MJobsCompleted PT; MJobsCompleted PW] ++ free_pool c PW ++ free_pool c PT
  | CompLZ4F =>      (* multi-block path: the first chunk (read by main) was full *)
      [MSubmit PT (JComp 0); MSubmit PT (JRead 1); MJobsCompleted PT; MJobsCompleted PW] ++ free_pool c PT ++ free_pool c PW
  | DecLegacy =>
      flat_map (fun k => [MRefill k; MSubmit PT (JDec k)]) (seq 0 (c_nblocks c)) ++
      [MJobsCompleted PT; MJobsCompleted PW] ++ free_pool c PW ++ free_pool c PT
  | DecLZ4F =>
      flat_map (fun k => [MRefill k; MSubmit PT (JFDec k)]) (seq 0 (length (c_outs c))) ++
      [MJobsCompleted PT; MJobsCompleted PW] ++ free_pool c PW ++ free_pool c PT
  end.

Definition init_state (c : cfg) : state :=
  mkState (pool_create (c_N c) (c_tdepth c)) (pool_create 1 (c_wdepth c))
          (repeat WIdle (S (c_N c))) (main_program c) MRunnable
          WR_init [] false false 0 [].

Definition final (st : state) : bool :=
  match s_mst st with MFinished => true | _ => false end
  && forallb (fun w => match w with WDone => true | _ => false end) (s_ws st).

(* every thread is blocked in pthread_cond_wait / pthread_join or has ended: no pick is enabled *)
Definition blocked_all (st : state) : bool :=
  match s_mst st with MWaitPush _ | MWaitJoin _ | MFinished => true | _ => false end
  && forallb (fun w => match w with WWaitPop | WSubWait _ _ | WDone => true | _ => false end) (s_ws st).

(* the configurations of the real code: queue depths, ring sizes from the generated layer *)
Definition real_cfg (k : kind) (N tdepth wdepth nb pb : Z) (nfull : nat) (last : bool) (nblocks : nat) (outs : list nat) : cfg :=
  mkCfg k (Z.to_nat N) (Z.to_nat tdepth) (Z.to_nat wdepth) (Z.to_nat nb) (Z.to_nat pb) nfull last nblocks outs.

(* what a sequential execution writes: the blocks in rank order *)
Definition sequential_output (c : cfg) : list (list Z) := map (fun k => [Z.of_nat k]) (seq 0 (comp_blocks c)).
