(* One-shot HC entry points at ALL the levels served by hashTable + chainTable (3..12): the hash-chain
   levels of Model.HcChainApi and the optimal-parser levels 10..12 (k_clTable rows read from the source:
   strategy, nbSearches, targetLength; ultra mode = cLevel >= LZ4HC_CLEVEL_MAX; favorDecSpeed from the
   context), on ONE context model [hcc], so that histories may mix the levels.
   LZ4HC_compress_generic_internal's opt branch around Model.HcOpt.opt_compress. *)
From Coq Require Import ZArith List Lia Bool.
From LZ4V Require Import Gen.Consts Spec.BlockSpec Model.Mem Model.Fast Model.FastApi Model.HcEmit Model.HcMid Model.HcChain Model.HcChainApi Model.HcOpt.
Import ListNotations.
Local Open Scope Z_scope.

Definition cl_tl_table : list Z :=
  [HC_CL_TL_0; HC_CL_TL_1; HC_CL_TL_2; HC_CL_TL_3; HC_CL_TL_4; HC_CL_TL_5; HC_CL_TL_6; HC_CL_TL_7; HC_CL_TL_8;
   HC_CL_TL_9; HC_CL_TL_10; HC_CL_TL_11; HC_CL_TL_12].
(* cParam.targetLength *)
Definition cl_target (cLevel : Z) : Z :=
  let l := if cLevel <? 1 then LZ4HC_CLEVEL_DEFAULT else cLevel in
  let l := Z.min LZ4HC_CLEVEL_MAX l in
  nth (Z.to_nat l) cl_tl_table 0.
Definition opt_level (cLevel : Z) : bool := fst (cl_params cLevel) =? HC_STRAT_OPT.

(* LZ4HC_compress_generic_internal, strat == lz4opt, dict == noDictCtx *)
Definition cc_generic_opt (c : hcc) (src : mem) (srcSize cap cLevel : Z) (lim : outdir) : cres_api :=
  let start := cc_endIdx c in
  if (match lim with FillOutput => cap <? 1 | _ => false end) then mkCR 0 srcSize [] 0 c
  else if u32 srcSize >? LZ4_MAX_INPUT_SIZE then mkCR 0 srcSize [] 0 c
  else if negb (opt_level cLevel) then mkCR (-2) srcSize [] 0 c
  else
    let vrd := fun p => get src (p - start) in
    let endIdx := start + srcSize in
    let nb := snd (cl_params cLevel) in
    match opt_compress vrd start start lim start srcSize cap nb (cl_target cLevel) (cLevel >=? LZ4HC_CLEVEL_MAX) (cc_fav c)
                       (mkHT (cc_hash c) (cc_chain c) (cc_ntu c)) with
    | CFail t hw => mkCR 0 srcSize [] hw (cc_with c t endIdx true)
    | CUndef => mkCR (-1) srcSize [] 0 (cc_with c (mkHT (cc_hash c) (cc_chain c) (cc_ntu c)) start true)   (* model artefact: excluded by the theorems *)
    | COk ret consumed out t hw =>
      let c1 := cc_with c t endIdx (if ret <=? 0 then true else cc_dirty c) in
      let c2 := match lim with
                | FillOutput => if (0 <? ret) && (consumed <? srcSize) then cc_init_internal c1 else c1
                | _ => c1
                end in
      mkCR ret consumed out hw c2
    end.

(* levels 3..12 *)
Definition cc_generic_all (c : hcc) (src : mem) (srcSize cap cLevel : Z) (lim : outdir) : cres_api :=
  if chain_level cLevel then cc_generic c src srcSize cap cLevel lim else cc_generic_opt c src srcSize cap cLevel lim.

(* LZ4_compress_HC_extStateHC_fastReset *)
Definition compress_HC_fastReset_all (c : hcc) (src : mem) (srcSize cap cLevel : Z) : cres_api :=
  let c1 := cc_init_internal (cc_reset_fast c) in
  cc_generic_all c1 src srcSize cap cLevel (if cap <? compressBound srcSize then LimitedOutput else NotLimited).
(* LZ4_compress_HC_extStateHC / LZ4_compress_HC *)
Definition compress_HC_all (src : mem) (srcSize cap cLevel : Z) : cres_api :=
  compress_HC_fastReset_all cc_init src srcSize cap cLevel.
(* LZ4_compress_HC_destSize *)
Definition compress_HC_destSize_all (src : mem) (srcSize target cLevel : Z) : cres_api :=
  cc_generic_all (cc_init_internal cc_init) src srcSize target cLevel FillOutput.

(* a bare search session with chainSwap and favorDecSpeed as LZ4HC_FindLongerMatch passes them: see Model.HcChainApi.ss_search *)
