(* An idealised LZ4F decompressor derived from the format specification, used to RUN the
   lz4file model (Model/File.v) against the real library: it is created for one given file
   F (exactly one frame, content C computed by Spec.FrameSpec.frame_decode) and, per call,
   delivers as much of C as the destination takes and consumes as much of the input as it
   may without finishing the frame before all of C is delivered.  The values LZ4F_read
   returns do not depend on how a conforming decompressor splits its work over calls
   (theorem C20_roundtrip), so any conforming instance predicts them.

   Approximations (never reached for a file that is exactly one frame read by the current
   lz4file.c; flagged with error code GENERIC where they would matter): after the end of
   the frame fewer than 7 further bytes are swallowed silently, and a further frame start
   is out of the model. *)
From Coq Require Import ZArith List Bool.
From LZ4V Require Import Gen.Consts Spec.BlockSpec Spec.XXH32 Spec.FrameSpec Model.FrameCSizes Model.File.
Import ListNotations.
Local Open Scope Z_scope.

(* state: the bytes of the frame not yet consumed and the content not yet delivered, with
   their numbers (so that a call costs only what it moves) *)
Record idec := mkI { i_F : list byte; i_nF : nat; i_C : list byte; i_nC : nat }.
Definition ideal0 (F C : list byte) : idec := mkI F (length F) C (length C).

Fixpoint beq_bytes (a b : list byte) : bool :=
  match a, b with
  | [], [] => true
  | x :: a', y :: b' => (x =? y) && beq_bytes a' b'
  | _, _ => false
  end.

(* LZ4F_getFrameInfo on the bytes [s]: blockSizeID and header size, by the specification's parser *)
Definition ideal_info (d : idec) (s : list byte) : fres (Z * nat) * idec :=
  if Nat.ltb (length s) (Z.to_nat LZ4F_HEADER_SIZE_MIN) then (FErr C10_ERR_frameHeader_incomplete, d)
  else
    match take 4 s with
    | None => (FErr C10_ERR_frameHeader_incomplete, d)
    | Some (mg, r) =>
      if negb (le_val mg =? MAGIC) then (FErr C10_ERR_frameType_unknown, d)
      else
        match parse_desc r with
        | None => (FErr C10_ERR_GENERIC, d)       (* incomplete or invalid descriptor: not told apart *)
        | Some (desc, r1) =>
          let h := (length s - length r1)%nat in
          (FOk (f_bsid desc, h), mkI (skipn h (i_F d)) (i_nF d - h) (i_C d) (i_nC d))
        end
    end.

Definition ideal_dec (d : idec) (s : list byte) (cap : nat) : dres * idec :=
  if Nat.eqb (i_nF d) 0 then
    (* the frame is complete: the context starts over *)
    if Nat.ltb (length s) 7 then (DOk 1 (length s) [], d)
    else
      let w := le_val (firstn 4 s) in
      if (w =? MAGIC) || ((MAGIC_SKIP_LO <=? w) && (w <=? MAGIC_SKIP_HI)) then (DErr C10_ERR_GENERIC, d)
      else (DErr C10_ERR_frameType_unknown, d)
  else
    let m := Nat.min (length s) (i_nF d) in
    if negb (beq_bytes (firstn m s) (firstn m (i_F d))) then (DErr C10_ERR_GENERIC, d)
    else
      let o := Nat.min cap (i_nC d) in
      let c := if Nat.eqb o (i_nC d) then m else Nat.min m (i_nF d - 1) in
      (DOk (if Nat.eqb c (i_nF d) then 0 else 1) c (firstn o (i_C d)),
       mkI (skipn c (i_F d)) (i_nF d - c) (skipn o (i_C d)) (i_nC d - o)).

(* LZ4F_readOpen + a sequence of LZ4F_read calls on a file, with the idealised decompressor.
   [bdec] is the block decoder handed to frame_decode (strict_valid or its fast twin). *)
Definition read_session_ideal (bdec : list byte -> list byte -> option (list byte))
           (fixed : bool) (junk file : list byte) (sizes : list nat)
  : fres (list (fres (list byte))) :=
  match frame_decode bdec false [] file with
  | Some (C, []) => read_session idec (ideal0 file C) ideal_info ideal_dec fixed junk file sizes
  | _ =>
    if Nat.ltb (length (firstn HEADER_MAX file)) OPEN_MIN
    then read_session idec (ideal0 file []) ideal_info ideal_dec fixed junk file sizes
         (* too short for LZ4F_readOpen: fails before any decompressor call *)
    else FErr C10_ERR_GENERIC                     (* not exactly one frame: outside this instance *)
  end.

(* the same with the content supplied by the caller (the harness has checked, or knows, that
   [file] is one frame of [content]; used when decoding by the specification is too slow) *)
Definition read_session_given (content : list byte) (fixed : bool) (junk file : list byte) (sizes : list nat)
  : fres (list (fres (list byte))) :=
  read_session idec (ideal0 file content) ideal_info ideal_dec fixed junk file sizes.

(* the file LZ4F_writeOpen(NULL preferences) + LZ4F_writeClose leaves for empty content:
   7 header bytes (64 KB linked blocks, no checksums) and the end mark *)
Definition empty_frame_file : list byte :=
  header_bytes (mkDesc false false None false None 4) ++ [0; 0; 0; 0].
