(* Model of the pthread variant of programs/threadpool.c (lines 212-430): the shared state of
   one TPool and the critical sections of TPool_thread, TPool_submitJob and TPool_jobsCompleted.

   Shared state = the fields of struct TPool_s that the code reads or writes under queueMutex:
   queue (circular buffer of queueSize = requested depth + 1 slots), queueHead, queueTail,
   queueSize, numThreadsBusy, queueEmpty, threadLimit, shutdown, plus the two sets of threads
   blocked in pthread_cond_wait on queuePushCond / queuePopCond.

   The functions below are the bodies of the critical sections, one per C region; the
   transition system that runs them (thread program counters, schedule, wake-up choices) is in
   Model/Pipeline.v.  A condition-variable signal wakes ONE waiter, named by the schedule
   ([wake]); a broadcast wakes all.  No proofs in this file. *)
From Coq Require Import List Bool Arith.
Import ListNotations.

Definition tid := nat.     (* 0 = main thread, then creation order *)

Section Pool.
Variable J : Type.         (* a job: function pointer + argument *)

Record pool := mkPool {
  q_arr : list (option J);   (* ctx->queue[0..queueSize-1]; calloc'ed, None = zeroed slot *)
  q_head : nat;              (* ctx->queueHead *)
  q_tail : nat;              (* ctx->queueTail *)
  q_size : nat;              (* ctx->queueSize = requested depth + 1 *)
  n_busy : nat;              (* ctx->numThreadsBusy *)
  q_empty : bool;            (* ctx->queueEmpty *)
  t_limit : nat;             (* ctx->threadLimit = nbThreads *)
  shut : bool;               (* ctx->shutdown *)
  push_w : list tid;         (* threads blocked on queuePushCond (submitters AND TPool_jobsCompleted callers) *)
  pop_w : list tid           (* threads blocked on queuePopCond (workers) *)
}.

(* TPool_create(nbThreads, queueSize) *)
Definition pool_create (nbThreads depth : nat) : pool :=
  mkPool (repeat None (depth + 1)) 0 0 (depth + 1) 0 true nbThreads false [] [].

(* isQueueFull *)
Definition isQueueFull (p : pool) : bool :=
  if 1 <? q_size p then q_head p =? (q_tail p + 1) mod q_size p
  else (n_busy p =? t_limit p) || negb (q_empty p).

Fixpoint set_nth {A : Type} (n : nat) (x : A) (l : list A) : list A :=
  match l, n with
  | [], _ => []
  | _ :: t, O => x :: t
  | a :: t, S n' => a :: set_nth n' x t
  end.

(* TPool_submitJob_internal, without its signal: queueEmpty = 0; queue[queueTail] = job; queueTail = (queueTail+1) % queueSize *)
Definition pool_push (p : pool) (j : J) : pool :=
  mkPool (set_nth (q_tail p) (Some j) (q_arr p)) (q_head p) ((q_tail p + 1) mod q_size p) (q_size p)
         (n_busy p) false (t_limit p) (shut p) (push_w p) (pop_w p).

(* "Pop a job off the queue" in TPool_thread, without its signal.
   None = the slot at queueHead was never written (C would call a null function pointer). *)
Definition pool_pop (p : pool) : option (J * pool) :=
  match nth (q_head p) (q_arr p) None with
  | None => None
  | Some j =>
      let h := (q_head p + 1) mod q_size p in
      Some (j, mkPool (q_arr p) h (q_tail p) (q_size p) (n_busy p + 1) (h =? q_tail p)
                      (t_limit p) (shut p) (push_w p) (pop_w p))
  end.

(* worker loop condition: queueEmpty || numThreadsBusy >= threadLimit *)
Definition worker_must_wait (p : pool) : bool := q_empty p || (t_limit p <=? n_busy p).

(* TPool_jobsCompleted loop condition: !queueEmpty || numThreadsBusy > 0 *)
Definition jobs_pending (p : pool) : bool := negb (q_empty p) || (0 <? n_busy p).

Definition pool_job_done (p : pool) : pool :=       (* numThreadsBusy-- *)
  mkPool (q_arr p) (q_head p) (q_tail p) (q_size p) (n_busy p - 1) (q_empty p) (t_limit p) (shut p) (push_w p) (pop_w p).

Definition pool_set_shutdown (p : pool) : pool :=
  mkPool (q_arr p) (q_head p) (q_tail p) (q_size p) (n_busy p) (q_empty p) (t_limit p) true (push_w p) (pop_w p).

Definition set_push_w (p : pool) (w : list tid) : pool :=
  mkPool (q_arr p) (q_head p) (q_tail p) (q_size p) (n_busy p) (q_empty p) (t_limit p) (shut p) w (pop_w p).
Definition set_pop_w (p : pool) (w : list tid) : pool :=
  mkPool (q_arr p) (q_head p) (q_tail p) (q_size p) (n_busy p) (q_empty p) (t_limit p) (shut p) (push_w p) w.

(* the jobs currently queued, oldest first (observation function used by the proofs and the trace) *)
Fixpoint ring_from (arr : list (option J)) (size : nat) (h : nat) (n : nat) : list (option J) :=
  match n with
  | O => []
  | S n' => nth h arr None :: ring_from arr size ((h + 1) mod size) n'
  end.
Definition q_len (p : pool) : nat :=
  if q_empty p then 0
  else if q_head p <? q_tail p then q_tail p - q_head p else q_size p - q_head p + q_tail p.
Definition q_list (p : pool) : list (option J) := ring_from (q_arr p) (q_size p) (q_head p) (q_len p).

End Pool.

Arguments mkPool {J}.
Arguments q_arr {J}. Arguments q_head {J}. Arguments q_tail {J}. Arguments q_size {J}.
Arguments n_busy {J}. Arguments q_empty {J}. Arguments t_limit {J}. Arguments shut {J}.
Arguments push_w {J}. Arguments pop_w {J}.
Arguments pool_create {J}. Arguments isQueueFull {J}. Arguments pool_push {J}. Arguments pool_pop {J}.
Arguments worker_must_wait {J}. Arguments jobs_pending {J}. Arguments pool_job_done {J}.
Arguments pool_set_shutdown {J}. Arguments set_push_w {J}. Arguments set_pop_w {J}.
Arguments q_len {J}. Arguments q_list {J}.

(* pthread_cond_signal on a condition with waiter set [ws]: no waiter = no effect (the named thread is
   ignored); otherwise the schedule names the waiter [w] that wakes up; naming a thread that is not
   waiting is not a legal choice (None). *)
Fixpoint remove_tid (w : tid) (ws : list tid) : list tid :=
  match ws with
  | [] => []
  | x :: t => if x =? w then t else x :: remove_tid w t
  end.
Definition mem_tid (w : tid) (ws : list tid) : bool := existsb (Nat.eqb w) ws.
Definition wake (ws : list tid) (w : tid) : option (list tid * option tid) :=
  match ws with
  | [] => Some ([], None)
  | _ => if mem_tid w ws then Some (remove_tid w ws, Some w) else None
  end.
