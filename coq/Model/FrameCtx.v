(* C19, compression-context half: the bookkeeping of LZ4F_compressBegin_internal
   (lib/lz4frame.c:690-813) that decides which block-compression context (fast / HC) is
   allocated and which one is in use, and the cStage flag tested by
   LZ4F_compressUpdate / LZ4F_flush / LZ4F_compressEnd (lz4frame.c:1005, 1168, 1233).
   The byte-level compressor is modelled elsewhere (agent framec); here only the fields
   lz4CtxAlloc, lz4CtxType, cStage (lz4frame.c:270-281).  malloc is assumed to succeed. *)
From Coq Require Import ZArith List Lia Bool.
From LZ4V Require Import Gen.Consts.
Local Open Scope Z_scope.

Record cctx := mkC { c_alloc : Z; c_type : Z; c_stage : Z }.
Definition cctx_init : cctx := mkC 0 0 0.      (* calloc + cStage = 0 *)

(* ctxTypeID_to_size: sizes regenerated from the source (LZ4_sizeofState / LZ4_sizeofStateHC) *)
Definition ctx_size (id : Z) : Z :=
  if id =? 1 then FD_ctxsize_1 else if id =? 2 then FD_ctxsize_2 else FD_ctxsize_0.

(* LZ4F_compressBegin_internal: (new bookkeeping, 0 | negative error) *)
Definition cbegin (c : cctx) (level cap : Z) : cctx * Z :=
  if cap <? FD_maxFHSize then (c, - FD_ERR_dstMaxSize_tooSmall) else
  let id := if level <? FD_CLEVEL_MIN then 1 else 2 in
  let c1 :=
    if ctx_size (c_alloc c) <? ctx_size id then mkC id id (c_stage c)          (* free + malloc + init *)
    else if negb (c_type c =? id) then mkC (c_alloc c) id (c_stage c)          (* re-init in place *)
    else c in
  (mkC (c_alloc c1) (c_type c1) 1, 0).

(* the block context that a session at [level] will use is of the right kind and fits *)
Definition cend_ok (c : cctx) (level : Z) : bool :=
  (c_stage c =? 1)
  && (c_type c =? (if level <? FD_CLEVEL_MIN then FD_ctxFast else FD_ctxHC))
  && (ctx_size (c_type c) <=? ctx_size (c_alloc c)).

(* compressUpdate/flush/compressEnd refuse unless cStage = 1; compressEnd sets cStage = 0 *)
Definition cstage_check (c : cctx) : Z :=
  if c_stage c =? 1 then 0 else - FD_ERR_compressionState_uninitialized.
Definition cend (c : cctx) : cctx := mkC (c_alloc c) (c_type c) 0.
