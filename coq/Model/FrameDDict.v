(* C08: the CONCRETE dictionary / tmpOut bookkeeping of the frame decoder (lib/lz4frame.c):
     LZ4F_updateDict (1531-1596, every case in the C order),
     the choice of the decode destination in dstage_getCBlock/storeCBlock (1889-1962: straight into
       dst, or into tmpOut = tmpOutBuffer + reserved dictionary space, incl. the `dictSize > 128 KB`
       trim), dstage_flushOut (1965-1978), dstage_copyDirect's history update (1783-1786),
     "preserve history within tmpOut whenever necessary" at the end of LZ4F_decompress (2085-2114,
       both branches, stableDst), dstage_init's reset of tmpOut (1698-1700),
     LZ4F_resetDecompressionContext (dict = NULL) and LZ4F_decompress_usingDict (2133-2136).
   Model.FrameD abstracts all of this to "d_hist = last 64 KB of dictionary ++ output"; here the
   fields dctx->dict, dictSize, tmpOut, tmpOutSize, tmpOutStart are kept as the C code keeps them.

   Pointers: [PNull], [PTmp o] = tmpOutBuffer + o, [PAbs a] = address a of the caller's memory
   (dst buffers, user dictionary).  A [PTmp] pointer is never equal to a [PAbs] pointer (the
   tmpOutBuffer allocation is not adjacent to caller memory: an assumption, see TRUSTED of c08.py).
   dctx->tmpOut always points into tmpOutBuffer: it is kept as an offset.

   Every memcpy / decoder call is recorded as a memory operation ([mop]); the control state does not
   depend on the bytes.  Proofs.FrameDDictProofs gives the operations their meaning on a memory
   (tmpOutBuffer array + caller memory) and proves bounds and the history property.

   The stage machine itself is Model.FrameD's: [dd_step] runs beside one [FrameD.iter] and takes the
   sizes the C code has at that point (sizeToCopy, decodedSize, dstPtr-dstStart, dstEnd-dstPtr) from
   the locals of that iteration.  No proofs in this file. *)
From Coq Require Import ZArith List Lia Bool.
From LZ4V Require Import Spec.BlockSpec Spec.XXH32 Spec.FrameSpec Gen.Consts Model.FrameD.
Import ListNotations.
Local Open Scope Z_scope.

Inductive ptr := PNull | PTmp (off : Z) | PAbs (addr : Z).
Definition padd (p : ptr) (n : Z) : ptr :=
  match p with PNull => PNull | PTmp o => PTmp (o + n) | PAbs a => PAbs (a + n) end.
Definition peq (p q : ptr) : bool :=
  match p, q with
  | PNull, PNull => true
  | PTmp a, PTmp b => a =? b
  | PAbs a, PAbs b => a =? b
  | _, _ => false
  end.

(* memory operations, in program order *)
Inductive mop :=
  | MCopy (dst src : ptr) (n : Z)                                   (* memcpy(dst, src, n) *)
  | MWrite (dst : ptr) (bytes : list byte)                          (* memcpy(dstPtr, srcPtr, n) of input bytes *)
  | MDecode (dst : ptr) (cap : Z) (dict : ptr) (dictSize : Z) (bytes : list byte).
      (* LZ4_decompress_safe_usingDict(.., dst, .., cap, dict, dictSize) that produced [bytes] *)

Record ddict := mkDD {
  dd_dict : ptr;          (* dctx->dict *)
  dd_dictSize : Z;        (* dctx->dictSize *)
  dd_tmpOut : Z;          (* dctx->tmpOut - dctx->tmpOutBuffer *)
  dd_tmpOutSize : Z;      (* dctx->tmpOutSize *)
  dd_tmpOutStart : Z }.   (* dctx->tmpOutStart *)
Definition dd_set_dict (d : ddict) (p : ptr) (n : Z) : ddict :=
  mkDD p n (dd_tmpOut d) (dd_tmpOutSize d) (dd_tmpOutStart d).
Definition dd_set_tmpOut (d : ddict) (o : Z) : ddict :=
  mkDD (dd_dict d) (dd_dictSize d) o (dd_tmpOutSize d) (dd_tmpOutStart d).
Definition dd_set_tmpOutSS (d : ddict) (sz st : Z) : ddict :=
  mkDD (dd_dict d) (dd_dictSize d) (dd_tmpOut d) sz st.

(* calloc'ed context *)
Definition dd_init : ddict := mkDD PNull 0 0 0 0.
(* LZ4F_resetDecompressionContext *)
Definition dd_reset (d : ddict) : ddict := dd_set_dict d PNull 0.
(* dstage_init (1698-1700) *)
Definition dd_stage_init (d : ddict) : ddict := dd_set_tmpOutSS (dd_set_tmpOut d 0) 0 0.

(* LZ4F_updateDict(dctx, dstPtr, dstSize, dstBufferStart, withinTmp); [maxBuf] = dctx->maxBufferSize *)
Definition updateDict (maxBuf : Z) (d : ddict) (dstPtr dstSize dstStart : Z) (withinTmp : bool)
  : ddict * list mop :=
  let d := if dd_dictSize d =? 0 then dd_set_dict d (PAbs dstPtr) (dd_dictSize d) else d in
  if peq (padd (dd_dict d) (dd_dictSize d)) (PAbs dstPtr) then
    (* prefix mode, everything within dstBuffer *)
    (dd_set_dict d (dd_dict d) (dd_dictSize d + dstSize), [])
  else if FD_64KB <=? (dstPtr - dstStart) + dstSize then
    (* history in dstBuffer becomes large enough to become dictionary *)
    (dd_set_dict d (PAbs dstStart) ((dstPtr - dstStart) + dstSize), [])
  else if withinTmp && peq (dd_dict d) (PTmp 0) then
    (* continue history within tmpOutBuffer *)
    (dd_set_dict d (dd_dict d) (dd_dictSize d + dstSize), [])
  else if withinTmp then
    (* copy relevant dict portion in front of tmpOut within tmpOutBuffer *)
    let preserveSize := dd_tmpOut d in
    let copySize := FD_64KB - dd_tmpOutSize d in
    let oldDictEnd := padd (dd_dict d) (dd_dictSize d - dd_tmpOutStart d) in
    let copySize := if FD_64KB <? dd_tmpOutSize d then 0 else copySize in
    let copySize := if preserveSize <? copySize then preserveSize else copySize in
    (dd_set_dict d (PTmp 0) (preserveSize + dd_tmpOutStart d + dstSize),
     [MCopy (PTmp (preserveSize - copySize)) (padd oldDictEnd (- copySize)) copySize])
  else if peq (dd_dict d) (PTmp 0) then
    (* copy dst into tmp to complete dict *)
    let '(d, ops) :=
      if maxBuf <? dd_dictSize d + dstSize then
        (* tmp buffer not large enough *)
        let preserveSize := FD_64KB - dstSize in
        (dd_set_dict d (dd_dict d) preserveSize,
         [MCopy (PTmp 0) (padd (dd_dict d) (dd_dictSize d - preserveSize)) preserveSize])
      else (d, []) in
    (dd_set_dict d (dd_dict d) (dd_dictSize d + dstSize),
     ops ++ [MCopy (PTmp (dd_dictSize d)) (PAbs dstPtr) dstSize])
  else
    (* join dict & dest into tmp *)
    let preserveSize := FD_64KB - dstSize in
    let preserveSize := if dd_dictSize d <? preserveSize then dd_dictSize d else preserveSize in
    (dd_set_dict d (PTmp 0) (preserveSize + dstSize),
     [MCopy (PTmp 0) (padd (dd_dict d) (dd_dictSize d - preserveSize)) preserveSize;
      MCopy (PTmp preserveSize) (PAbs dstPtr) dstSize]).

(* the (dict, dictSize) pair handed to LZ4_decompress_safe_usingDict (1900-1906, 1941-1947) *)
Definition dec_dict (d : ddict) : ptr * Z :=
  if negb (peq (dd_dict d) PNull) && (FD_1GB <? dd_dictSize d)
  then (padd (dd_dict d) (dd_dictSize d - FD_64KB), FD_64KB)
  else (dd_dict d, dd_dictSize d).

(* dstage_flushOut (1965-1978): [cap] = dstEnd - dstPtr, [dstPtr] absolute, [dstnull] = (dstPtr == NULL) *)
Definition dd_flushOut (maxBuf : Z) (lnk dstnull : bool) (d : ddict) (dstPtr dstStart cap : Z)
  : ddict * list mop :=
  if dstnull then (d, []) else
  let n := Z.min (dd_tmpOutSize d - dd_tmpOutStart d) cap in
  let op := MCopy (PAbs dstPtr) (PTmp (dd_tmpOut d + dd_tmpOutStart d)) n in
  let '(d, ops) := if lnk then updateDict maxBuf d dstPtr n dstStart true else (d, []) in
  (dd_set_tmpOutSS d (dd_tmpOutSize d) (dd_tmpOutStart d + n), op :: ops).

(* "decode directly into destination buffer if there is enough room ... unless the dictionary is
   stored in tmpOut" (1889-1893) *)
Definition decode_direct (maxBlock : Z) (d : ddict) (cap : Z) : bool :=
  (maxBlock <=? cap)
  && negb (negb (peq (dd_dict d) PNull) && peq (padd (dd_dict d) (dd_dictSize d)) (PTmp (dd_tmpOut d))).

(* "manage dictionary" before decoding into tmpOut (1927-1938) *)
Definition dd_place_tmpOut (lnk : bool) (d : ddict) : ddict * list mop :=
  if lnk then
    if peq (dd_dict d) (PTmp 0) then
      let '(d, ops) :=
        if FD_128KB <? dd_dictSize d
        then (dd_set_dict d (dd_dict d) FD_64KB,
              [MCopy (PTmp 0) (padd (dd_dict d) (dd_dictSize d - FD_64KB)) FD_64KB])
        else (d, []) in
      (dd_set_tmpOut d (dd_dictSize d), ops)
    else (dd_set_tmpOut d (Z.min (dd_dictSize d) FD_64KB), [])
  else (d, []).

(* a block whose decoding gives [c] (1889-1978): returns also whether it went straight into dst *)
Definition dd_cblock (maxBlock maxBuf : Z) (lnk dstnull : bool) (d : ddict) (dstPtr dstStart cap : Z)
  (c : list byte) : ddict * list mop :=
  if decode_direct maxBlock d cap then
    let '(dp, ds) := dec_dict d in
    let op := MDecode (PAbs dstPtr) maxBlock dp ds c in
    let '(d, ops) := if lnk then updateDict maxBuf d dstPtr (zlen c) dstStart false else (d, []) in
    (d, op :: ops)
  else
    let '(d, ops0) := dd_place_tmpOut lnk d in
    let '(dp, ds) := dec_dict d in
    let op := MDecode (PTmp (dd_tmpOut d)) maxBlock dp ds c in
    let d := dd_set_tmpOutSS d (zlen c) 0 in
    let '(d, ops1) := dd_flushOut maxBuf lnk dstnull d dstPtr dstStart cap in
    (d, ops0 ++ op :: ops1).

(* dstage_copyDirect (1767-1789): [piece] = the sizeToCopy bytes copied from src to dstPtr *)
Definition dd_copyDirect (maxBuf : Z) (lnk dstnull : bool) (d : ddict) (dstPtr dstStart : Z)
  (piece : list byte) : ddict * list mop :=
  if dstnull then (d, []) else
  let op := MWrite (PAbs dstPtr) piece in
  let '(d, ops) := if lnk then updateDict maxBuf d dstPtr (zlen piece) dstStart false else (d, []) in
  (d, op :: ops).

(* "preserve history within tmpOut whenever necessary" (2085-2114); [stage] = dctx->dStage on exit *)
Definition dd_endcall (lnk stable : bool) (stage : dstage) (d : ddict) : ddict * list mop :=
  if lnk && negb (peq (dd_dict d) (PTmp 0)) && negb (peq (dd_dict d) PNull) && negb stable
     && (FD_dstage_init <=? stage_num stage) && (stage_num stage <? FD_dstage_getSuffix)
  then
    match stage with
    | FlushOut =>
      let preserveSize := dd_tmpOut d in
      let copySize := FD_64KB - dd_tmpOutSize d in
      let oldDictEnd := padd (dd_dict d) (dd_dictSize d - dd_tmpOutStart d) in
      let copySize := if FD_64KB <? dd_tmpOutSize d then 0 else copySize in
      let copySize := if preserveSize <? copySize then preserveSize else copySize in
      (dd_set_dict d (PTmp 0) (preserveSize + dd_tmpOutStart d),
       [MCopy (PTmp (preserveSize - copySize)) (padd oldDictEnd (- copySize)) copySize])
    | _ =>
      let oldDictEnd := padd (dd_dict d) (dd_dictSize d) in
      let newDictSize := Z.min (dd_dictSize d) FD_64KB in
      (dd_set_tmpOut (dd_set_dict d (PTmp 0) newDictSize) newDictSize,
       [MCopy (PTmp 0) (padd oldDictEnd (- newDictSize)) newDictSize])
    end
  else (d, []).

(* ---- beside the stage machine of Model.FrameD ------------------------------------------- *)
Section WithBlockDecoder.
  Variable bdec : list byte -> list byte -> option (list byte).

  (* the bytes appended to dst by the iteration l -> l' *)
  Definition out_delta (l l' : lst) : list byte := zdrop (zlen (l_out l)) (l_out l').

  (* what one iteration [iter bdec o l = (l', oc)] does to the concrete bookkeeping.
     [dstStart] = address of the call's dst buffer. *)
  Definition dd_step (o : dopts) (dstStart : Z) (l l' : lst) (oc : outcome) (d : ddict)
    : ddict * list mop :=
    let s := l_s l in
    let lnk := linked s in
    let dstPtr := dstStart + zlen (l_out l) in
    let r :=
      match d_stage s with
      | Init => (dd_stage_init d, [])
      | CopyDirect => dd_copyDirect (d_maxBuf s) lnk (o_dstnull o) d dstPtr dstStart (out_delta l l')
      | GetCBlock | StoreCBlock =>
        match oc, d_stage (l_s l') with
        | Ret _, _ => (d, [])
        | _, GetBlockHeader | _, FlushOut =>
          (* a block was decoded: decodedSize bytes [c] *)
          let c := if d_maxBlock s <=? l_cap l then out_delta l l' else d_tmpOut (l_s l') in
          dd_cblock (d_maxBlock s) (d_maxBuf s) lnk (o_dstnull o) d dstPtr dstStart (l_cap l) c
        | _, _ => (d, [])
        end
      | FlushOut => dd_flushOut (d_maxBuf s) lnk (o_dstnull o) d dstPtr dstStart (l_cap l)
      | _ => (d, [])
      end in
    (* LZ4F_resetDecompressionContext at the end of a frame (1999, 2010, 2081) *)
    match d_stage s, d_stage (l_s l') with
    | GetFrameHeader, _ => r
    | _, GetFrameHeader => (dd_reset (fst r), snd r)
    | _, _ => r
    end.

  Fixpoint dd_run (fuel : nat) (o : dopts) (dstStart : Z) (l : lst) (d : ddict) (ops : list mop)
    : lst * fin * ddict * list mop :=
    match fuel with
    | O => (l, FFuel, d, ops)
    | S f => let '(l', oc) := iter bdec o l in
             let '(d', ops') := dd_step o dstStart l l' oc d in
             match oc with
             | Continue => dd_run f o dstStart l' d' (ops ++ ops')
             | Stop h => (l', FStop h, d', ops ++ ops')
             | Ret v => (l', FRet v, d', ops ++ ops')
             end
    end.

  (* LZ4F_decompress(dctx, dst = dstStart, &cap, src, &|src|, opts) *)
  Definition dd_decompress (s : dstate) (d : ddict) (src : list byte) (cap : Z) (o : dopts) (dstStart : Z)
    : dstate * dres * ddict * list mop :=
    let s := set_skip s (d_skip s || o_skip o) in
    let '(l, f, d, ops) := dd_run (call_fuel src) o dstStart (mkL s src 0 [] cap) d [] in
    match f with
    | FStop h =>
      let '(d, ops') := dd_endcall (linked (l_s l)) (o_stableDst o) (d_stage (l_s l)) d in
      (l_s l, mkR (l_used l) (zlen (l_out l)) (l_out l) h false, d, ops ++ ops')
    | FRet v => (l_s l, mkR 0 0 (l_out l) v false, d, ops)
    | FFuel => (l_s l, mkR 0 0 (l_out l) 0 true, d, ops)
    end.

  (* LZ4F_decompress_usingDict(.., dict = dictAddr, dictSize = |dict|, ..) *)
  Definition dd_decompress_usingDict (s : dstate) (d : ddict) (src : list byte) (cap : Z)
    (dict : list byte) (dictAddr : Z) (o : dopts) (dstStart : Z) : dstate * dres * ddict * list mop :=
    let first := stage_num (d_stage s) <=? FD_dstage_init in
    let s := if first then set_hist s dict else s in
    let d := if first then dd_set_dict d (if dictAddr =? 0 then PNull else PAbs dictAddr) (zlen dict) else d in
    dd_decompress s d src cap o dstStart.

  (* LZ4F_getFrameInfo: only its LZ4F_decompress(dctx, NULL, &0, NULL, &0, NULL) call touches the bookkeeping *)
  Definition dd_getFrameInfo (s : dstate) (d : ddict) (src : list byte) : dstate * infores * ddict :=
    let '(s', r) := getFrameInfo bdec s src in
    if FD_dstage_storeFrameHeader <? stage_num (d_stage s) then
      let '(_, _, d', _) := dd_decompress s d [] 0 (mkO false false true) 0 in (s', r, d')
    else (s', r, d).
End WithBlockDecoder.

(* ---- executable check of the bounds of one memory operation (Proofs.FrameDDictProofs.op_ok) -------
   [maxBuf] = size of tmpOutBuffer, [lo, hi) = the dst window of the call.  The oracle evaluates it on
   the operations of every call of the correspondence runs. *)
Definition in_tmpb (maxBuf : Z) (p : ptr) (n : Z) : bool :=
  match p with PTmp o => (0 <=? o) && (o + n <=? maxBuf) | _ => true end.
Definition in_winb (lo hi : Z) (p : ptr) (n : Z) : bool :=
  match p with PAbs a => (lo <=? a) && (a + n <=? hi) | _ => true end.
Definition no_overlapb (p q : ptr) (n : Z) : bool :=
  match p, q with PTmp a, PTmp b => (n =? 0) || (a + n <=? b) || (b + n <=? a) | _, _ => true end.
Definition op_okb (maxBuf lo hi : Z) (op : mop) : bool :=
  match op with
  | MCopy dst src n => (0 <=? n) && negb (peq dst PNull) && negb (peq src PNull) && in_tmpb maxBuf dst n
                       && in_winb lo hi dst n && in_tmpb maxBuf src n && no_overlapb dst src n
  | MWrite dst bytes => negb (peq dst PNull) && in_tmpb maxBuf dst (zlen bytes) && in_winb lo hi dst (zlen bytes)
  | MDecode dst cap dict ds bytes =>
      (zlen bytes <=? cap) && negb (peq dst PNull) && in_tmpb maxBuf dst cap && in_winb lo hi dst cap
      && (0 <=? ds) && in_tmpb maxBuf dict ds && (negb (peq dict PNull) || (ds =? 0))
  end.
Definition ops_okb (maxBuf lo hi : Z) (ops : list mop) : bool := forallb (op_okb maxBuf lo hi) ops.
