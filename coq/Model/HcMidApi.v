(* One-shot HC entry points at the LZ4MID levels (compression levels 1 and 2; lz4hc.c k_clTable):
   LZ4_compress_HC_extStateHC_fastReset / LZ4_compress_HC_extStateHC / LZ4_compress_HC and
   LZ4_compress_HC_destSize, i.e. LZ4_resetStreamHC_fast, LZ4_initStreamHC, LZ4HC_init_internal,
   LZ4HC_compress_generic_internal (noDictCtx) around Model.HcMid.mid_compress.

   The context is reduced to what these paths read: the two LZ4MID hash tables (the two halves
   of hashTable[]), the index reached by the previous call
   [hc_endIdx] = dictLimit + (end - prefixStart), and the dirty flag. *)
From Coq Require Import ZArith List Lia Bool.
From LZ4V Require Import Gen.Consts Spec.BlockSpec Model.Mem Model.Fast Model.FastApi Model.HcEmit Model.HcMid.
Import ListNotations.
Local Open Scope Z_scope.

Record hcctx := mkHC { hc_h4 : mem; hc_h8 : mem; hc_endIdx : Z; hc_dirty : bool }.
Definition hc_init : hcctx := mkHC empty empty 0 false.        (* LZ4_initStreamHC: MEM_INIT 0 *)

(* LZ4_resetStreamHC_fast *)
Definition hc_reset_fast (c : hcctx) : hcctx := if hc_dirty c then hc_init else c.

(* LZ4HC_init_internal: returns the context with cleared tables when the offset exceeds 1 GB, and the
   starting index given to the new block (dictLimit = lowLimit = nextToUpdate) *)
Definition hc_init_internal (c : hcctx) : hcctx * Z :=
  if hc_endIdx c >? 1073741824 then (mkHC empty empty 0 (hc_dirty c), 65536)
  else (c, hc_endIdx c + 65536).

Record hres := mkHR { hr_ret : Z; hr_consumed : Z; hr_out : list Z; hr_hw : Z; hr_ctx : hcctx }.

(* LZ4HC_compress_generic_internal, strat == lz4mid, dict == noDictCtx, on a context freshly
   anchored at [start] by LZ4HC_init_internal.  [src] holds the input at [0, srcSize). *)
Definition hc_generic_mid (c : hcctx) (start : Z) (src : mem) (srcSize cap : Z) (lim : outdir) : hres :=
  if (match lim with FillOutput => cap <? 1 | _ => false end) then mkHR 0 srcSize [] 0 (mkHC (hc_h4 c) (hc_h8 c) start (hc_dirty c))
  else if u32 srcSize >? LZ4_MAX_INPUT_SIZE then mkHR 0 srcSize [] 0 (mkHC (hc_h4 c) (hc_h8 c) start (hc_dirty c))
  else
    let vrd := fun p => get src (p - start) in
    let endIdx := start + srcSize in
    match mid_compress vrd lim start start start srcSize cap (fun _ => None) (hc_h4 c) (hc_h8 c) with
    | MFail h4 h8 hw => mkHR 0 srcSize [] hw (mkHC h4 h8 endIdx true)
    | MUndef => mkHR (-1) srcSize [] 0 (mkHC (hc_h4 c) (hc_h8 c) start true)   (* model artefact: excluded by the theorems *)
    | MOk ret consumed out h4 h8 hw =>
      let c1 := mkHC h4 h8 endIdx (if ret <=? 0 then true else hc_dirty c) in
      let c2 := match lim with
                | FillOutput => if (0 <? ret) && (consumed <? srcSize) then (let (c3, off) := hc_init_internal c1 in mkHC (hc_h4 c3) (hc_h8 c3) off (hc_dirty c3)) else c1
                | _ => c1
                end in
      mkHR ret consumed out hw c2
    end.

(* LZ4_compress_HC_extStateHC_fastReset (levels 1-2) *)
Definition compress_HC_fastReset_mid (c : hcctx) (src : mem) (srcSize cap : Z) : hres :=
  let (c1, start) := hc_init_internal (hc_reset_fast c) in
  hc_generic_mid c1 start src srcSize cap (if cap <? compressBound srcSize then LimitedOutput else NotLimited).

(* LZ4_compress_HC_extStateHC / LZ4_compress_HC (levels 1-2) *)
Definition compress_HC_mid (src : mem) (srcSize cap : Z) : hres :=
  compress_HC_fastReset_mid hc_init src srcSize cap.

(* LZ4_compress_HC_destSize (levels 1-2) *)
Definition compress_HC_destSize_mid (src : mem) (srcSize target : Z) : hres :=
  let (c1, start) := hc_init_internal hc_init in
  hc_generic_mid c1 start src srcSize target FillOutput.
