(* Executable model of the LZ4 frame DECODER of lib/lz4frame.c (v1.10.0):
     LZ4F_decodeHeader (1349-1440), LZ4F_headerSize (1447-1471), LZ4F_getFrameInfo (1488-1523),
     LZ4F_resetDecompressionContext (1330-1338), LZ4F_decompress (1616-2119, every dStage),
     LZ4F_decompress_usingDict (2126-2139).
   One Gallina function per C function / per `case` label of the stage machine, same
   decisions in the same order.  No proofs in this file.

   State = the fields of struct LZ4F_dctx_s that the code reads back, as a FLAT record
   (stale values survive exactly where the C code leaves them; nothing is cleared that
   the C code does not clear).  Abstractions (all listed in TRUSTED of c08.py):
   * block decoding is the Section variable [bdec : history -> block -> option content]
     (the C code calls LZ4_decompress_safe_usingDict with capacity maxBlockSize);
   * the dictionary relocation (LZ4F_updateDict 1530-1595, "preserve history" 2084-2114,
     tmpOut placement 1927-1938) is abstracted to  [d_hist] = last <=64 KB of
     (dictionary ++ output so far)  for linked blocks, = the caller's dictionary for
     independent blocks; therefore the choice "decode straight into dst / into tmpOut"
     keeps only its observable condition (capacity >= maxBlockSize);
   * staging arrays (header[19], tmpIn[maxBlockSize+4]) are lists holding the written
     prefix [0,tmpInSize); a write beyond the array's capacity sets the sticky flag [d_oob]
     (theorem: never set); bytes of a staging array that were never written read as 0;
   * the two XXH32 streaming states are the lists of bytes fed so far, digest = xxh32 0;
   * malloc succeeds.
   Numbers: Z.  size_t subtraction is plain Z subtraction: the theorems are stated for
   well-formed states ([Proofs.FrameDProofs.wf], an invariant) where no subtraction wraps. *)
From Coq Require Import ZArith List Lia Bool.
From LZ4V Require Import Spec.BlockSpec Spec.XXH32 Spec.FrameSpec Gen.Consts.
Import ListNotations.
Local Open Scope Z_scope.

Inductive dstage :=
  | GetFrameHeader | StoreFrameHeader | Init | GetBlockHeader | StoreBlockHeader
  | CopyDirect | GetBlockChecksum | GetCBlock | StoreCBlock | FlushOut
  | GetSuffix | StoreSuffix | GetSFrameSize | StoreSFrameSize | SkipSkippable.

(* numeric value of the enum, regenerated from the source *)
Definition stage_num (st : dstage) : Z :=
  match st with
  | GetFrameHeader => FD_dstage_getFrameHeader | StoreFrameHeader => FD_dstage_storeFrameHeader
  | Init => FD_dstage_init | GetBlockHeader => FD_dstage_getBlockHeader
  | StoreBlockHeader => FD_dstage_storeBlockHeader | CopyDirect => FD_dstage_copyDirect
  | GetBlockChecksum => FD_dstage_getBlockChecksum | GetCBlock => FD_dstage_getCBlock
  | StoreCBlock => FD_dstage_storeCBlock | FlushOut => FD_dstage_flushOut
  | GetSuffix => FD_dstage_getSuffix | StoreSuffix => FD_dstage_storeSuffix
  | GetSFrameSize => FD_dstage_getSFrameSize | StoreSFrameSize => FD_dstage_storeSFrameSize
  | SkipSkippable => FD_dstage_skipSkippable
  end.

(* LZ4F_frameInfo_t *)
Record finfo := mkFI {
  fi_blockSizeID : Z; fi_blockMode : Z; fi_ccFlag : Z; fi_frameType : Z;
  fi_contentSize : Z; fi_dictID : Z; fi_bcFlag : Z }.
Definition fi_zero : finfo := mkFI 0 0 0 0 0 0 0.

Record dstate := mkD {
  d_fi : finfo;
  d_stage : dstage;
  d_remaining : Z;
  d_maxBlock : Z;
  d_maxBuf : Z;
  d_tmpInCap : Z;
  d_tmpIn : list byte;
  d_tmpInSize : Z;
  d_tmpInTarget : Z;
  d_hist : list byte;
  d_tmpOut : list byte;
  d_tmpOutStart : Z;
  d_xxh : list byte;
  d_bxxh : list byte;
  d_skip : bool;
  d_header : list byte;
  d_oob : bool }.
Definition set_fi (s : dstate) (v : finfo) : dstate :=
  mkD v (d_stage s) (d_remaining s) (d_maxBlock s) (d_maxBuf s) (d_tmpInCap s) (d_tmpIn s) (d_tmpInSize s) (d_tmpInTarget s) (d_hist s) (d_tmpOut s) (d_tmpOutStart s) (d_xxh s) (d_bxxh s) (d_skip s) (d_header s) (d_oob s).
Definition set_stage (s : dstate) (v : dstage) : dstate :=
  mkD (d_fi s) v (d_remaining s) (d_maxBlock s) (d_maxBuf s) (d_tmpInCap s) (d_tmpIn s) (d_tmpInSize s) (d_tmpInTarget s) (d_hist s) (d_tmpOut s) (d_tmpOutStart s) (d_xxh s) (d_bxxh s) (d_skip s) (d_header s) (d_oob s).
Definition set_remaining (s : dstate) (v : Z) : dstate :=
  mkD (d_fi s) (d_stage s) v (d_maxBlock s) (d_maxBuf s) (d_tmpInCap s) (d_tmpIn s) (d_tmpInSize s) (d_tmpInTarget s) (d_hist s) (d_tmpOut s) (d_tmpOutStart s) (d_xxh s) (d_bxxh s) (d_skip s) (d_header s) (d_oob s).
Definition set_maxBlock (s : dstate) (v : Z) : dstate :=
  mkD (d_fi s) (d_stage s) (d_remaining s) v (d_maxBuf s) (d_tmpInCap s) (d_tmpIn s) (d_tmpInSize s) (d_tmpInTarget s) (d_hist s) (d_tmpOut s) (d_tmpOutStart s) (d_xxh s) (d_bxxh s) (d_skip s) (d_header s) (d_oob s).
Definition set_maxBuf (s : dstate) (v : Z) : dstate :=
  mkD (d_fi s) (d_stage s) (d_remaining s) (d_maxBlock s) v (d_tmpInCap s) (d_tmpIn s) (d_tmpInSize s) (d_tmpInTarget s) (d_hist s) (d_tmpOut s) (d_tmpOutStart s) (d_xxh s) (d_bxxh s) (d_skip s) (d_header s) (d_oob s).
Definition set_tmpInCap (s : dstate) (v : Z) : dstate :=
  mkD (d_fi s) (d_stage s) (d_remaining s) (d_maxBlock s) (d_maxBuf s) v (d_tmpIn s) (d_tmpInSize s) (d_tmpInTarget s) (d_hist s) (d_tmpOut s) (d_tmpOutStart s) (d_xxh s) (d_bxxh s) (d_skip s) (d_header s) (d_oob s).
Definition set_tmpIn (s : dstate) (v : list byte) : dstate :=
  mkD (d_fi s) (d_stage s) (d_remaining s) (d_maxBlock s) (d_maxBuf s) (d_tmpInCap s) v (d_tmpInSize s) (d_tmpInTarget s) (d_hist s) (d_tmpOut s) (d_tmpOutStart s) (d_xxh s) (d_bxxh s) (d_skip s) (d_header s) (d_oob s).
Definition set_tmpInSize (s : dstate) (v : Z) : dstate :=
  mkD (d_fi s) (d_stage s) (d_remaining s) (d_maxBlock s) (d_maxBuf s) (d_tmpInCap s) (d_tmpIn s) v (d_tmpInTarget s) (d_hist s) (d_tmpOut s) (d_tmpOutStart s) (d_xxh s) (d_bxxh s) (d_skip s) (d_header s) (d_oob s).
Definition set_tmpInTarget (s : dstate) (v : Z) : dstate :=
  mkD (d_fi s) (d_stage s) (d_remaining s) (d_maxBlock s) (d_maxBuf s) (d_tmpInCap s) (d_tmpIn s) (d_tmpInSize s) v (d_hist s) (d_tmpOut s) (d_tmpOutStart s) (d_xxh s) (d_bxxh s) (d_skip s) (d_header s) (d_oob s).
Definition set_hist (s : dstate) (v : list byte) : dstate :=
  mkD (d_fi s) (d_stage s) (d_remaining s) (d_maxBlock s) (d_maxBuf s) (d_tmpInCap s) (d_tmpIn s) (d_tmpInSize s) (d_tmpInTarget s) v (d_tmpOut s) (d_tmpOutStart s) (d_xxh s) (d_bxxh s) (d_skip s) (d_header s) (d_oob s).
Definition set_tmpOut (s : dstate) (v : list byte) : dstate :=
  mkD (d_fi s) (d_stage s) (d_remaining s) (d_maxBlock s) (d_maxBuf s) (d_tmpInCap s) (d_tmpIn s) (d_tmpInSize s) (d_tmpInTarget s) (d_hist s) v (d_tmpOutStart s) (d_xxh s) (d_bxxh s) (d_skip s) (d_header s) (d_oob s).
Definition set_tmpOutStart (s : dstate) (v : Z) : dstate :=
  mkD (d_fi s) (d_stage s) (d_remaining s) (d_maxBlock s) (d_maxBuf s) (d_tmpInCap s) (d_tmpIn s) (d_tmpInSize s) (d_tmpInTarget s) (d_hist s) (d_tmpOut s) v (d_xxh s) (d_bxxh s) (d_skip s) (d_header s) (d_oob s).
Definition set_xxh (s : dstate) (v : list byte) : dstate :=
  mkD (d_fi s) (d_stage s) (d_remaining s) (d_maxBlock s) (d_maxBuf s) (d_tmpInCap s) (d_tmpIn s) (d_tmpInSize s) (d_tmpInTarget s) (d_hist s) (d_tmpOut s) (d_tmpOutStart s) v (d_bxxh s) (d_skip s) (d_header s) (d_oob s).
Definition set_bxxh (s : dstate) (v : list byte) : dstate :=
  mkD (d_fi s) (d_stage s) (d_remaining s) (d_maxBlock s) (d_maxBuf s) (d_tmpInCap s) (d_tmpIn s) (d_tmpInSize s) (d_tmpInTarget s) (d_hist s) (d_tmpOut s) (d_tmpOutStart s) (d_xxh s) v (d_skip s) (d_header s) (d_oob s).
Definition set_skip (s : dstate) (v : bool) : dstate :=
  mkD (d_fi s) (d_stage s) (d_remaining s) (d_maxBlock s) (d_maxBuf s) (d_tmpInCap s) (d_tmpIn s) (d_tmpInSize s) (d_tmpInTarget s) (d_hist s) (d_tmpOut s) (d_tmpOutStart s) (d_xxh s) (d_bxxh s) v (d_header s) (d_oob s).
Definition set_header (s : dstate) (v : list byte) : dstate :=
  mkD (d_fi s) (d_stage s) (d_remaining s) (d_maxBlock s) (d_maxBuf s) (d_tmpInCap s) (d_tmpIn s) (d_tmpInSize s) (d_tmpInTarget s) (d_hist s) (d_tmpOut s) (d_tmpOutStart s) (d_xxh s) (d_bxxh s) (d_skip s) v (d_oob s).
Definition set_oob (s : dstate) (v : bool) : dstate :=
  mkD (d_fi s) (d_stage s) (d_remaining s) (d_maxBlock s) (d_maxBuf s) (d_tmpInCap s) (d_tmpIn s) (d_tmpInSize s) (d_tmpInTarget s) (d_hist s) (d_tmpOut s) (d_tmpOutStart s) (d_xxh s) (d_bxxh s) (d_skip s) (d_header s) v.


(* calloc'ed context *)
Definition dctx_init : dstate :=
  mkD fi_zero GetFrameHeader 0 0 0 0 [] 0 0 [] [] 0 [] [] false [] false.

(* LZ4F_resetDecompressionContext: dStage, dict, dictSize, skipChecksum, frameRemainingSize *)
Definition reset (s : dstate) : dstate :=
  set_remaining (set_skip (set_hist (set_stage s GetFrameHeader) []) false) 0.

(* ---- helpers ---------------------------------------------------------- *)
Definition zlen (l : list byte) : Z := Z.of_nat (length l).
Definition ztake (n : Z) (l : list byte) : list byte := firstn (Z.to_nat n) l.
Definition zdrop (n : Z) (l : list byte) : list byte := skipn (Z.to_nat n) l.
Definition err (e : Z) : Z := - e.
Definition u64 (x : Z) : Z := x mod 18446744073709551616.
(* LZ4F_readLE32 / LZ4F_readLE64 return U32 / U64 *)
Definition rd32 (l : list byte) : Z := u32 (le_val (ztake 4 l)).
Definition rd64 (l : list byte) : Z := u64 (le_val (ztake 8 l)).
(* memcpy(buf + off, data, |data|) on a buffer of which [0,off) is meaningful *)
Definition wr (buf : list byte) (off : Z) (data : list byte) : list byte :=
  firstn (Z.to_nat off) (buf ++ repeat 0 (Z.to_nat off)) ++ data.
Definition upd_hist (h piece : list byte) : list byte := lastn (Z.to_nat FD_64KB) (h ++ piece).

Definition hdr_write (s : dstate) (piece : list byte) (n : Z) : dstate :=
  let s1 := set_header s (wr (d_header s) (d_tmpInSize s) piece) in
  let s2 := set_oob s1 (d_oob s || (FD_header_array_size <? d_tmpInSize s + n)) in
  set_tmpInSize s2 (d_tmpInSize s + n).
Definition tmpin_write (s : dstate) (piece : list byte) (n : Z) : dstate :=
  let s1 := set_tmpIn s (wr (d_tmpIn s) (d_tmpInSize s) piece) in
  let s2 := set_oob s1 (d_oob s || (d_tmpInCap s <? d_tmpInSize s + n)) in
  set_tmpInSize s2 (d_tmpInSize s + n).

Definition blockSize_of_id (id : Z) : Z :=
  if id =? 4 then FD_blockSize_4 else if id =? 5 then FD_blockSize_5
  else if id =? 6 then FD_blockSize_6 else if id =? 7 then FD_blockSize_7
  else err FD_ERR_maxBlockSize_invalid.

Definition SKIP_MASK : Z := 4294967280.   (* 0xFFFFFFF0U *)

(* FLG byte: error code, or (blockMode, blockChecksumFlag, contentSizeFlag, contentChecksumFlag, dictIDFlag) *)
Definition flg_decode (FLG : Z) : Z + (Z * Z * Z * Z * Z) :=
  let version := Z.land (Z.shiftr FLG 6) 3 in
  let bcFlag := Z.land (Z.shiftr FLG 4) 1 in
  let blockMode := Z.land (Z.shiftr FLG 5) 1 in
  let csFlag := Z.land (Z.shiftr FLG 3) 1 in
  let ccFlag := Z.land (Z.shiftr FLG 2) 1 in
  let dictIDFlag := Z.land FLG 1 in
  if negb (Z.land (Z.shiftr FLG 1) 1 =? 0) then inl (err FD_ERR_reservedFlag_set)
  else if negb (version =? 1) then inl (err FD_ERR_headerVersion_wrong)
  else inr (blockMode, bcFlag, csFlag, ccFlag, dictIDFlag).
(* BD byte: error code or blockSizeID *)
Definition bd_decode (BD : Z) : Z + Z :=
  let blockSizeID := Z.land (Z.shiftr BD 4) 7 in
  if negb (Z.land (Z.shiftr BD 7) 1 =? 0) then inl (err FD_ERR_reservedFlag_set)
  else if blockSizeID <? 4 then inl (err FD_ERR_maxBlockSize_invalid)
  else if negb (Z.land BD 15 =? 0) then inl (err FD_ERR_reservedFlag_set)
  else inr blockSizeID.
Definition headerChecksum (bs : list byte) : Z := Z.land (Z.shiftr (xxh32 0 bs) 8) 255.
Definition fh_size (csFlag dictIDFlag : Z) : Z :=
  FD_minFHSize + (if csFlag =? 0 then 0 else 8) + (if dictIDFlag =? 0 then 0 else 4).

(* LZ4F_decodeHeader(dctx, src, srcSize): [fromHeader] <=> src == dctx->header.
   Returns the new state and the C return value (bytes read, or negative = error). *)
Definition decodeHeader (s : dstate) (fromHeader : bool) (src : list byte) : dstate * Z :=
  let srcSize := zlen src in
  if srcSize <? FD_minFHSize then (s, err FD_ERR_frameHeader_incomplete) else
  let s := set_fi s fi_zero in
  let magic := rd32 src in
  if Z.land magic SKIP_MASK =? FD_MAGIC_SKIPPABLE_START then
    let s := set_fi s (mkFI 0 0 0 FD_skippableFrame 0 0 0) in
    if fromHeader
    then (set_stage (set_tmpInTarget (set_tmpInSize s srcSize) 8) StoreSFrameSize, srcSize)
    else (set_stage s GetSFrameSize, 4)
  else if negb (magic =? FD_MAGICNUMBER) then (s, err FD_ERR_frameType_unknown)
  else
  match nth_error src 4, nth_error src 5 with
  | Some FLG, Some BD =>
    match flg_decode FLG with
    | inl e => (s, e)
    | inr (blockMode, bcFlag, csFlag, ccFlag, dictIDFlag) =>
      let fhs := fh_size csFlag dictIDFlag in
      if srcSize <? fhs then
        let s := if fromHeader then s
                 else set_oob (set_header s (wr (d_header s) 0 src))
                              (d_oob s || (FD_header_array_size <? srcSize)) in
        (set_stage (set_tmpInTarget (set_tmpInSize s srcSize) fhs) StoreFrameHeader, srcSize)
      else
      match bd_decode BD with
      | inl e => (s, e)
      | inr blockSizeID =>
        match nth_error src (Z.to_nat (fhs - 1)) with
        | None => (set_oob s true, err FD_ERR_GENERIC)     (* read outside src: excluded by srcSize >= fhs *)
        | Some hcByte =>
          if negb (headerChecksum (ztake (fhs - 5) (zdrop 4 src)) =? hcByte)
          then (s, err FD_ERR_headerChecksum_invalid)
          else
            let cs := if csFlag =? 0 then 0 else rd64 (zdrop 6 src) in
            let did := if dictIDFlag =? 0 then 0 else rd32 (zdrop (fhs - 5) src) in
            let s := set_fi s (mkFI blockSizeID blockMode ccFlag FD_frame cs did bcFlag) in
            let s := set_maxBlock s (blockSize_of_id blockSizeID) in
            let s := if csFlag =? 0 then s else set_remaining s cs in
            (set_stage s Init, fhs)
        end
      end
    end
  | _, _ => (set_oob s true, err FD_ERR_GENERIC)           (* excluded by srcSize >= minFHSize *)
  end.

(* LZ4F_headerSize *)
Definition headerSize (srcnull : bool) (src : list byte) : Z :=
  if srcnull then err FD_ERR_srcPtr_wrong
  else if zlen src <? FD_MIN_SIZE_TO_KNOW_HEADER_LENGTH then err FD_ERR_frameHeader_incomplete
  else if Z.land (rd32 src) SKIP_MASK =? FD_MAGIC_SKIPPABLE_START then 8
  else if negb (rd32 src =? FD_MAGICNUMBER) then err FD_ERR_frameType_unknown
  else match nth_error src 4 with
       | Some FLG => fh_size (Z.land (Z.shiftr FLG 3) 1) (Z.land FLG 1)
       | None => err FD_ERR_GENERIC
       end.

(* ---- LZ4F_decompress ---------------------------------------------------- *)
Record dopts := mkO { o_stableDst : bool; o_skip : bool; o_dstnull : bool }.

(* locals of one call: state, srcPtr..srcEnd, srcPtr-srcStart, bytes written at dstStart, dstEnd-dstPtr *)
Record lst := mkL { l_s : dstate; l_src : list byte; l_used : Z; l_out : list byte; l_cap : Z }.
Inductive outcome :=
  | Continue                 (* break with doAnotherStage = 1 *)
  | Stop (hint : Z)          (* doAnotherStage = 0 : leave the loop normally *)
  | Ret (v : Z).             (* `return v` from inside the loop: *srcSizePtr and *dstSizePtr stay 0 *)

Definition with_s (l : lst) (s : dstate) : lst := mkL s (l_src l) (l_used l) (l_out l) (l_cap l).
Definition adv (l : lst) (n : Z) : lst := mkL (l_s l) (zdrop n (l_src l)) (l_used l + n) (l_out l) (l_cap l).
Definition emit (l : lst) (piece : list byte) (n : Z) : lst :=
  mkL (l_s l) (l_src l) (l_used l) (l_out l ++ piece) (l_cap l - n).

Definition linked (s : dstate) : bool := fi_blockMode (d_fi s) =? FD_blockLinked.
Definition bcsize (s : dstate) : Z := if fi_bcFlag (d_fi s) =? 0 then 0 else FD_BFSize.

Inductive fin := FStop (hint : Z) | FRet (v : Z) | FFuel.
Record dres := mkR { r_consumed : Z; r_produced : Z; r_out : list byte; r_ret : Z; r_fuel : bool }.
Record infores := mkI { i_consumed : Z; i_info : option finfo; i_ret : Z; i_fuel : bool }.

(* history management for linked blocks (LZ4F_updateDict, abstracted) *)
Definition upd_link (s : dstate) (piece : list byte) : dstate :=
  if linked s then set_hist s (upd_hist (d_hist s) piece) else s.
(* content checksum and remaining size after a block was decoded (1909-1912, 1954-1957) *)
Definition upd_decoded (s : dstate) (c : list byte) : dstate :=
  let fi := d_fi s in
  let s := if negb (fi_ccFlag fi =? 0) && negb (d_skip s) then set_xxh s (d_xxh s ++ c) else s in
  if fi_contentSize fi =? 0 then s else set_remaining s (u64 (d_remaining s - zlen c)).

(* bookkeeping after [piece] (n bytes) of an uncompressed block went to dst (1772-1785) *)
Definition upd_copy (s : dstate) (piece : list byte) (n : Z) : dstate :=
  let fi := d_fi s in
  let s := if d_skip s then s else
           let s := if fi_bcFlag fi =? 0 then s else set_bxxh s (d_bxxh s ++ piece) in
           if fi_ccFlag fi =? 0 then s else set_xxh s (d_xxh s ++ piece) in
  let s := if fi_contentSize fi =? 0 then s else set_remaining s (u64 (d_remaining s - n)) in
  upd_link s piece.

Section WithBlockDecoder.
  Variable bdec : list byte -> list byte -> option (list byte).

  (* case dstage_storeFrameHeader *)
  Definition do_storeFrameHeader (l : lst) : lst * outcome :=
    let s := l_s l in
    let n := Z.min (d_tmpInTarget s - d_tmpInSize s) (zlen (l_src l)) in
    let s := hdr_write s (ztake n (l_src l)) n in
    let l := adv (with_s l s) n in
    if d_tmpInSize s <? d_tmpInTarget s
    then (l, Stop ((d_tmpInTarget s - d_tmpInSize s) + FD_BHSize))
    else let '(s', r) := decodeHeader s true (ztake (d_tmpInTarget s) (d_header s)) in
         if r <? 0 then (with_s l s', Ret r) else (with_s l s', Continue).

  (* case dstage_getFrameHeader *)
  Definition do_getFrameHeader (l : lst) : lst * outcome :=
    let s := l_s l in
    if FD_maxFHSize <=? zlen (l_src l) then
      let '(s', r) := decodeHeader s false (l_src l) in
      if r <? 0 then (with_s l s', Ret r) else (adv (with_s l s') r, Continue)
    else
      let s := set_tmpInSize s 0 in
      if zlen (l_src l) =? 0 then (with_s l s, Ret FD_minFHSize)
      else do_storeFrameHeader (with_s l (set_stage (set_tmpInTarget s FD_minFHSize) StoreFrameHeader)).

  (* case dstage_init, up to the fall-through *)
  Definition do_init (s : dstate) : dstate :=
    let s := if fi_ccFlag (d_fi s) =? 0 then s else set_xxh s [] in
    let needed := d_maxBlock s + (if linked s then FD_128KB else 0) in
    let s := if d_maxBuf s <? needed
             then set_maxBuf (set_tmpIn (set_tmpInCap s (d_maxBlock s + FD_BFSize)) []) needed
             else s in
    set_stage (set_tmpOutStart (set_tmpOut (set_tmpInTarget (set_tmpInSize s 0) 0) []) 0) GetBlockHeader.

  (* "decode block header" *)
  Definition do_blockHeader (l : lst) (sel : list byte) : lst * outcome :=
    let s := l_s l in
    let bh := rd32 sel in
    let n := Z.land bh 2147483647 in
    let crcSize := fi_bcFlag (d_fi s) * FD_BFSize in
    if bh =? 0 then (with_s l (set_stage s GetSuffix), Continue)
    else if d_maxBlock s <? n then (l, Ret (err FD_ERR_maxBlockSize_invalid))
    else if negb (Z.land bh FD_BLOCKUNCOMPRESSED_FLAG =? 0) then
      let s := set_tmpInTarget s n in
      let s := if fi_bcFlag (d_fi s) =? 0 then s else set_bxxh s [] in
      (with_s l (set_stage s CopyDirect), Continue)
    else
      let s := set_stage (set_tmpInTarget s (n + crcSize)) GetCBlock in
      if (l_cap l =? 0) || (zlen (l_src l) =? 0)
      then (with_s l s, Stop (FD_BHSize + n + crcSize))
      else (with_s l s, Continue).

  (* case dstage_storeBlockHeader *)
  Definition do_storeBlockHeader (l : lst) : lst * outcome :=
    let s := l_s l in
    let n := Z.min (FD_BHSize - d_tmpInSize s) (zlen (l_src l)) in
    let s := tmpin_write s (ztake n (l_src l)) n in
    let l := adv (with_s l s) n in
    if d_tmpInSize s <? FD_BHSize then (l, Stop (FD_BHSize - d_tmpInSize s))
    else do_blockHeader l (ztake FD_BHSize (d_tmpIn s)).

  (* case dstage_getBlockHeader *)
  Definition do_getBlockHeader (l : lst) : lst * outcome :=
    if FD_BHSize <=? zlen (l_src l)
    then do_blockHeader (adv l FD_BHSize) (ztake FD_BHSize (l_src l))
    else do_storeBlockHeader (with_s l (set_stage (set_tmpInSize (l_s l) 0) StoreBlockHeader)).

  (* case dstage_copyDirect *)
  Definition do_copyDirect (o : dopts) (l : lst) : lst * outcome :=
    let '(l, n) :=
      if o_dstnull o then (l, 0) else
      let s := l_s l in
      let n := Z.min (d_tmpInTarget s) (Z.min (zlen (l_src l)) (l_cap l)) in
      let piece := ztake n (l_src l) in
      (adv (emit (with_s l (upd_copy s piece n)) piece n) n, n) in
    let s := l_s l in
    if n =? d_tmpInTarget s then
      if fi_bcFlag (d_fi s) =? 0 then (with_s l (set_stage s GetBlockHeader), Continue)
      else (with_s l (set_stage (set_tmpInSize s 0) GetBlockChecksum), Continue)
    else
      let s := set_tmpInTarget s (d_tmpInTarget s - n) in
      (with_s l s, Stop (d_tmpInTarget s + bcsize s + FD_BHSize)).

  (* case dstage_getBlockChecksum; nextSrcSizeHint still has its initial value 1 when the
     stage stops for lack of input (no assignment on that path) *)
  Definition do_blockChecksum_check (l : lst) (crc : list byte) : lst * outcome :=
    let s := l_s l in
    if negb (d_skip s) && negb (rd32 crc =? xxh32 0 (d_bxxh s))
    then (l, Ret (err FD_ERR_blockChecksum_invalid))
    else (with_s l (set_stage s GetBlockHeader), Continue).
  Definition do_getBlockChecksum (l : lst) : lst * outcome :=
    let s := l_s l in
    if (4 <=? zlen (l_src l)) && (d_tmpInSize s =? 0)
    then do_blockChecksum_check (adv l 4) (ztake 4 (l_src l))
    else
      let n := Z.min (4 - d_tmpInSize s) (zlen (l_src l)) in
      let s := hdr_write s (ztake n (l_src l)) n in
      let l := adv (with_s l s) n in
      if d_tmpInSize s <? 4 then (l, Stop 1)
      else do_blockChecksum_check l (ztake 4 (d_header s)).

  (* case dstage_flushOut *)
  Definition do_flushOut (o : dopts) (l : lst) : lst * outcome :=
    let l :=
      if o_dstnull o then l else
      let s := l_s l in
      let n := Z.min (zlen (d_tmpOut s) - d_tmpOutStart s) (l_cap l) in
      let piece := ztake n (zdrop (d_tmpOutStart s) (d_tmpOut s)) in
      let s := upd_link s piece in
      let s := set_tmpOutStart s (d_tmpOutStart s + n) in
      emit (with_s l s) piece n in
    let s := l_s l in
    if d_tmpOutStart s =? zlen (d_tmpOut s)
    then (with_s l (set_stage s GetBlockHeader), Continue)
    else (l, Stop FD_BHSize).

  (* "At this stage, input is large enough to decode a block" (1871-1962); [sel] = selectedIn *)
  Definition do_cblock (o : dopts) (l : lst) (sel : list byte) : lst * outcome :=
    let s := l_s l in
    let fi := d_fi s in
    let '(s, crcok) :=
      if fi_bcFlag fi =? 0 then (s, true) else
      let s := set_tmpInTarget s (d_tmpInTarget s - 4) in
      (s, rd32 (zdrop (d_tmpInTarget s) sel) =? xxh32 0 (ztake (d_tmpInTarget s) sel)) in
    if negb crcok then (with_s l s, Ret (err FD_ERR_blockChecksum_invalid)) else
    let blk := ztake (d_tmpInTarget s) sel in
    let hist := if linked s then lastn (Z.to_nat FD_64KB) (d_hist s) else d_hist s in
    let dec := match bdec hist blk with
               | Some c => if zlen c <=? d_maxBlock s then Some c else None
               | None => None
               end in
    match dec with
    | None => (with_s l s, Ret (err FD_ERR_decompressionFailed))
    | Some c =>
      let s := upd_decoded s c in
      if d_maxBlock s <=? l_cap l then
        (* decode directly into dst *)
        let s := upd_link s c in
        (emit (with_s l (set_stage s GetBlockHeader)) c (zlen c), Continue)
      else
        (* decode into tmpOut, then flush *)
        do_flushOut o (with_s l (set_stage (set_tmpOutStart (set_tmpOut s c) 0) FlushOut))
    end.

  (* case dstage_getCBlock / dstage_storeCBlock *)
  Definition do_getCBlock (o : dopts) (l : lst) : lst * outcome :=
    let s := l_s l in
    if zlen (l_src l) <? d_tmpInTarget s
    then (with_s l (set_stage (set_tmpInSize s 0) StoreCBlock), Continue)
    else do_cblock o (adv l (d_tmpInTarget s)) (ztake (d_tmpInTarget s) (l_src l)).
  Definition do_storeCBlock (o : dopts) (l : lst) : lst * outcome :=
    let s := l_s l in
    let n := Z.min (d_tmpInTarget s - d_tmpInSize s) (zlen (l_src l)) in
    let s := tmpin_write s (ztake n (l_src l)) n in
    let l := adv (with_s l s) n in
    if d_tmpInSize s <? d_tmpInTarget s
    then (l, Stop ((d_tmpInTarget s - d_tmpInSize s) + FD_BHSize))
    else do_cblock o l (ztake (d_tmpInTarget s) (d_tmpIn s)).

  (* suffix (content checksum) *)
  Definition do_checkSuffix (l : lst) (sel : list byte) : lst * outcome :=
    let s := l_s l in
    if negb (d_skip s) && negb (rd32 sel =? xxh32 0 (d_xxh s))
    then (l, Ret (err FD_ERR_contentChecksum_invalid))
    else (with_s l (reset s), Stop 0).
  Definition do_storeSuffix (l : lst) : lst * outcome :=
    let s := l_s l in
    let n := Z.min (4 - d_tmpInSize s) (zlen (l_src l)) in
    let s := tmpin_write s (ztake n (l_src l)) n in
    let l := adv (with_s l s) n in
    if d_tmpInSize s <? 4 then (l, Stop (4 - d_tmpInSize s))
    else do_checkSuffix l (ztake 4 (d_tmpIn s)).
  Definition do_getSuffix (l : lst) : lst * outcome :=
    let s := l_s l in
    if negb (d_remaining s =? 0) then (l, Ret (err FD_ERR_frameSize_wrong))
    else if fi_ccFlag (d_fi s) =? 0 then (with_s l (reset s), Stop 0)
    else if zlen (l_src l) <? 4
    then do_storeSuffix (with_s l (set_stage (set_tmpInSize s 0) StoreSuffix))
    else do_checkSuffix (adv l 4) (ztake 4 (l_src l)).

  (* skippable frames *)
  Definition do_sframeSize (l : lst) (sel : list byte) : lst * outcome :=
    let s := l_s l in
    let sz := rd32 sel in
    let fi := d_fi s in
    let fi' := mkFI (fi_blockSizeID fi) (fi_blockMode fi) (fi_ccFlag fi) (fi_frameType fi) sz (fi_dictID fi) (fi_bcFlag fi) in
    (with_s l (set_stage (set_tmpInTarget (set_fi s fi') sz) SkipSkippable), Continue).
  Definition do_storeSFrameSize (l : lst) : lst * outcome :=
    let s := l_s l in
    let n := Z.min (d_tmpInTarget s - d_tmpInSize s) (zlen (l_src l)) in
    let s := hdr_write s (ztake n (l_src l)) n in
    let l := adv (with_s l s) n in
    if d_tmpInSize s <? d_tmpInTarget s then (l, Stop (d_tmpInTarget s - d_tmpInSize s))
    else do_sframeSize l (ztake 4 (zdrop 4 (d_header s))).
  Definition do_getSFrameSize (l : lst) : lst * outcome :=
    if 4 <=? zlen (l_src l) then do_sframeSize (adv l 4) (ztake 4 (l_src l))
    else do_storeSFrameSize
           (with_s l (set_stage (set_tmpInTarget (set_tmpInSize (l_s l) 4) 8) StoreSFrameSize)).
  Definition do_skipSkippable (l : lst) : lst * outcome :=
    let s := l_s l in
    let n := Z.min (d_tmpInTarget s) (zlen (l_src l)) in
    let s := set_tmpInTarget s (d_tmpInTarget s - n) in
    let l := adv (with_s l s) n in
    if negb (d_tmpInTarget s =? 0) then (l, Stop (d_tmpInTarget s))
    else (with_s l (reset s), Stop 0).

  (* one iteration of `while (doAnotherStage) switch (dctx->dStage)` *)
  Definition iter (o : dopts) (l : lst) : lst * outcome :=
    match d_stage (l_s l) with
    | GetFrameHeader => do_getFrameHeader l
    | StoreFrameHeader => do_storeFrameHeader l
    | Init => do_getBlockHeader (with_s l (do_init (l_s l)))
    | GetBlockHeader => do_getBlockHeader l
    | StoreBlockHeader => do_storeBlockHeader l
    | CopyDirect => do_copyDirect o l
    | GetBlockChecksum => do_getBlockChecksum l
    | GetCBlock => do_getCBlock o l
    | StoreCBlock => do_storeCBlock o l
    | FlushOut => do_flushOut o l
    | GetSuffix => do_getSuffix l
    | StoreSuffix => do_storeSuffix l
    | GetSFrameSize => do_getSFrameSize l
    | StoreSFrameSize => do_storeSFrameSize l
    | SkipSkippable => do_skipSkippable l
    end.

  Fixpoint run (fuel : nat) (o : dopts) (l : lst) : lst * fin :=
    match fuel with
    | O => (l, FFuel)
    | S f => let '(l', oc) := iter o l in
             match oc with
             | Continue => run f o l'
             | Stop h => (l', FStop h)
             | Ret v => (l', FRet v)
             end
    end.

  (* what one call reports: *srcSizePtr, *dstSizePtr, the bytes stored at dstStart (on an
     early `return` they were stored although *dstSizePtr says 0), the return value
     (negative = -LZ4F_ERROR_x), and the out-of-fuel flag (never set: theorem) *)

  Definition call_fuel (src : list byte) : nat := Z.to_nat (4 * zlen src + 16).

  (* LZ4F_decompress(dctx, dst, &cap, src, &|src|, opts) *)
  Definition decompress (s : dstate) (src : list byte) (cap : Z) (o : dopts) : dstate * dres :=
    let s := set_skip s (d_skip s || o_skip o) in
    let '(l, f) := run (call_fuel src) o (mkL s src 0 [] cap) in
    match f with
    | FStop h => (l_s l, mkR (l_used l) (zlen (l_out l)) (l_out l) h false)
    | FRet v => (l_s l, mkR 0 0 (l_out l) v false)
    | FFuel => (l_s l, mkR 0 0 (l_out l) 0 true)
    end.

  (* LZ4F_decompress_usingDict *)
  Definition decompress_usingDict (s : dstate) (src : list byte) (cap : Z) (dict : list byte) (o : dopts)
    : dstate * dres :=
    let s := if stage_num (d_stage s) <=? FD_dstage_init then set_hist s dict else s in
    decompress s src cap o.

  (* LZ4F_getFrameInfo: (consumed, frameInfo written to *frameInfoPtr if any, return value, fuel flag) *)
  Definition getFrameInfo (s : dstate) (src : list byte) : dstate * infores :=
    if FD_dstage_storeFrameHeader <? stage_num (d_stage s) then
      let '(s', r) := decompress s [] 0 (mkO false false true) in
      (s', mkI 0 (Some (d_fi s)) (r_ret r) (r_fuel r))
    else if stage_num (d_stage s) =? FD_dstage_storeFrameHeader then
      (s, mkI 0 None (err FD_ERR_frameDecoding_alreadyStarted) false)
    else
      let h := headerSize false src in
      if h <? 0 then (s, mkI 0 None h false)
      else if zlen src <? h then (s, mkI 0 None (err FD_ERR_frameHeader_incomplete) false)
      else let '(s', r) := decodeHeader s false (ztake h src) in
           if r <? 0 then (s', mkI 0 (Some (d_fi s')) r false)
           else (s', mkI r (Some (d_fi s')) FD_BHSize false).

  (* ---- sequences of API calls on one context ---- *)
  Inductive dcall :=
    | CDec (src : list byte) (cap : Z) (dict : option (list byte)) (o : dopts)   (* LZ4F_decompress / _usingDict *)
    | CInfo (src : list byte)                                                    (* LZ4F_getFrameInfo *)
    | CReset.                                                                    (* LZ4F_resetDecompressionContext *)
  (* what the caller observes of one call *)
  Record obs := mkObs { ob_consumed : Z; ob_produced : Z; ob_out : list byte; ob_ret : Z; ob_info : option finfo }.
  Definition do_call (s : dstate) (c : dcall) : dstate * obs :=
    match c with
    | CDec src cap None o =>
        let '(s', r) := decompress s src cap o in (s', mkObs (r_consumed r) (r_produced r) (r_out r) (r_ret r) None)
    | CDec src cap (Some d) o =>
        let '(s', r) := decompress_usingDict s src cap d o in (s', mkObs (r_consumed r) (r_produced r) (r_out r) (r_ret r) None)
    | CInfo src =>
        let '(s', r) := getFrameInfo s src in (s', mkObs (i_consumed r) 0 [] (i_ret r) (i_info r))
    | CReset => (reset s, mkObs 0 0 [] 0 None)
    end.
  Fixpoint do_calls (s : dstate) (cs : list dcall) : dstate * list obs :=
    match cs with
    | [] => (s, [])
    | c :: r => let '(s1, ob) := do_call s c in
                let '(s2, obs') := do_calls s1 r in (s2, ob :: obs')
    end.
End WithBlockDecoder.
