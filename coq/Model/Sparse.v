(* Model of LZ4IO_fwriteSparse / LZ4IO_fwriteSparseEnd (programs/lz4io.c) as functions from
   (buffer, sparseFileSupport, storedSkips) to the sequence of fseek/fwrite calls they issue
   and the returned storedSkips, plus the modelled OS behaviour of those calls on a file
   (POSIX: a write after seeking beyond end-of-file fills the gap with zero bytes).
   No proofs here (Proofs/SparseProofs.v). *)
From Coq Require Import ZArith List Bool.
From LZ4V Require Import Gen.Consts.
Import ListNotations.
Local Open Scope Z_scope.

(* ---------- the calls the C code issues on the destination FILE* ---------- *)
Inductive fop :=
| Seek (n : Z)              (* UTIL_fseek(file, n, SEEK_CUR) *)
| Write (bs : list Z).      (* fwrite(ptr, size, nmemb, file) with size*nmemb = length bs *)

Definition lenZ (l : list Z) : Z := Z.of_nat (length l).
Definition takeZ (n : Z) (l : list Z) : list Z := firstn (Z.to_nat n) l.
Definition dropZ (n : Z) (l : list Z) : list Z := skipn (Z.to_nat n) l.

Definition sizeT : Z := CLI_SIZEOF_SIZE_T.                    (* sizeof(size_t) *)
Definition maskT : Z := sizeT - 1.
Definition segmentSizeT : Z := CLI_SPARSE_SEGMENT / sizeT.    (* (32 KB) / sizeT *)
Definition ONE_GB : Z := CLI_ONE_GB.                          (* 1 GB == 1U<<30 *)
Definition uint32 (x : Z) : Z := x mod 4294967296.            (* `unsigned` arithmetic *)

(* ptrT[i] == 0 : a size_t word is zero iff all of its bytes are *)
Fixpoint all_zero (bs : list Z) : bool :=
  match bs with [] => true | b :: r => (b =? 0) && all_zero r end.

(* for (nb0T=0; (nb0T < seg0SizeT) && (ptrT[nb0T] == 0); nb0T++) ;   [k] = seg0SizeT *)
Fixpoint count0_words (k : nat) (bs : list Z) : Z :=
  match k with
  | O => 0
  | S k' => if all_zero (takeZ sizeT bs) then 1 + count0_words k' (dropZ sizeT bs) else 0
  end.

(* for (; restPtr < restEnd and restPtr[0] == 0; restPtr++) ; *)
Fixpoint count0_bytes (bs : list Z) : Z :=
  match bs with
  | b :: r => if b =? 0 then 1 + count0_bytes r else 0
  | [] => 0
  end.

(* while (ptrT < bufferTEnd) { ... }
   [bs] = bytes from ptrT to bufferTEnd, [bsT] = bufferSizeT (words not yet assigned to a segment),
   [acc] = calls issued so far, most recent first.  None = out of fuel (excluded by the theorems). *)
Fixpoint seg_loop (fuel : nat) (bs : list Z) (bsT : Z) (skips : Z) (acc : list fop)
  : option (Z * list fop) :=
  match bs with
  | [] => Some (skips, acc)
  | _ :: _ =>
    match fuel with
    | O => None
    | S f =>
      let seg0 := if segmentSizeT >? bsT then bsT else segmentSizeT in
      let bsT' := bsT - seg0 in
      let seg := takeZ (seg0 * sizeT) bs in
      let rest := dropZ (seg0 * sizeT) bs in
      let nb0 := count0_words (Z.to_nat seg0) seg in
      let skips1 := uint32 (skips + uint32 (nb0 * sizeT)) in
      if negb (nb0 =? seg0) then      (* not all 0s *)
        seg_loop f rest bsT' 0 (Write (dropZ (nb0 * sizeT) seg) :: Seek skips1 :: acc)
      else
        seg_loop f rest bsT' skips1 acc
    end
  end.

Definition b2z (b : bool) : Z := if b then 1 else 0.

(* LZ4IO_fwriteSparse(file, buffer, bufferSize, sparseFileSupport, storedSkips):
   returns (new storedSkips, calls in order of issue) *)
Definition fwrite_sparse (is_stdout : bool) (sparseFileSupport : Z) (buf : list Z) (storedSkips : Z)
  : option (Z * list fop) :=
  let bufferSize := lenZ buf in
  let bufferSizeT := bufferSize / sizeT in
  let sparseMode := (sparseFileSupport - b2z is_stdout) >? 0 in
  if negb sparseMode then Some (0, [Write buf])
  else
    let '(skips0, acc0) :=
      if storedSkips >? ONE_GB then (uint32 (storedSkips - ONE_GB), [Seek ONE_GB])
      else (storedSkips, []) in
    let wordBytes := bufferSizeT * sizeT in
    match seg_loop (S (Z.to_nat bufferSizeT)) (takeZ wordBytes buf) bufferSizeT skips0 acc0 with
    | None => None
    | Some (skips1, acc1) =>
      if negb (Z.land bufferSize maskT =? 0) then
        (* size not multiple of sizeT : implies end of block *)
        let restSize := Z.land bufferSize maskT in
        let rest := takeZ restSize (dropZ wordBytes buf) in
        let nz := count0_bytes rest in
        let skips2 := uint32 (skips1 + uint32 nz) in
        if negb (nz =? lenZ rest) then
          Some (0, rev (Write (dropZ nz rest) :: Seek skips2 :: acc1))
        else Some (skips2, rev acc1)
      else Some (skips1, rev acc1)
    end.

(* LZ4IO_fwriteSparseEnd(file, storedSkips) *)
Definition fwrite_sparse_end (storedSkips : Z) : list fop :=
  if storedSkips >? 0 then [Seek (storedSkips - 1); Write [0]] else [].

(* one decoded frame: fwriteSparse on each buffer, then fwriteSparseEnd *)
Fixpoint sparse_run (is_stdout : bool) (support : Z) (bufs : list (list Z)) (skips : Z)
  : option (list fop) :=
  match bufs with
  | [] => Some (fwrite_sparse_end skips)
  | b :: r =>
    match fwrite_sparse is_stdout support b skips with
    | None => None
    | Some (skips', ops) =>
      match sparse_run is_stdout support r skips' with
      | None => None
      | Some ops' => Some (ops ++ ops')
      end
    end
  end.

(* the same content written without sparse support *)
Definition plain_run (bufs : list (list Z)) : list fop := map Write bufs.

(* ---------- modelled OS behaviour: a file is its bytes and the current position ---------- *)
Record file := mkFile { f_data : list Z; f_pos : Z }.
Definition zeros (n : Z) : list Z := repeat 0 (Z.to_nat n).

Definition write_at (d : list Z) (p : Z) (bs : list Z) : list Z :=
  if lenZ d <=? p then d ++ zeros (p - lenZ d) ++ bs
  else takeZ p d ++ bs ++ dropZ (p + lenZ bs) d.

Definition do_op (f : file) (o : fop) : file :=
  match o with
  | Seek n => mkFile (f_data f) (f_pos f + n)
  | Write [] => f                                   (* a zero-length write changes nothing *)
  | Write bs => mkFile (write_at (f_data f) (f_pos f) bs) (f_pos f + lenZ bs)
  end.
Definition run_ops (f : file) (ops : list fop) : file := fold_left do_op ops f.
Definition fresh_file : file := mkFile [] 0.         (* fopen(name, "wb") *)
