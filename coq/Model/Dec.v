(* Model of LZ4_decompress_generic (lib/lz4.c), one Gallina function per labelled
   region of the C function, same decisions in the same order, copy primitives as
   the literal chunk loops (so the bytes a wild copy leaves beyond the logical end
   are part of the result).  Addresses: source bytes at [0,iend) of [srcm];
   destination at [0,oend) of the working memory, the prefix (if any) just below
   at [lowPrefix,0); external dictionary at [0,dictSize) of [dictm].
   Every memory access is accompanied by a bound test folded into the sticky flag
   [ok]; C02 is the theorem [ok = true]. Constants come from Gen.Consts. *)
From Coq Require Import ZArith List Lia Bool.
From LZ4V Require Import Gen.Consts Model.Mem.
Import ListNotations.
Local Open Scope Z_scope.

Inductive ddict := NoDict | WithPrefix64k | UsingExtDict.
Definition is_prefix64k (d : ddict) : bool := match d with WithPrefix64k => true | _ => false end.
Definition is_extdict (d : ddict) : bool := match d with UsingExtDict => true | _ => false end.

Record dstate := mkD { ip : Z; op : Z; dm : mem; ok : bool }.
Inductive dout :=
| Cont (fast : bool) (s : dstate)    (* `continue` in the fast (true) or safe loop *)
| Done (s : dstate)                  (* `break`: return op - dst *)
| Err (s : dstate).                  (* `goto _output_error`: return -(ip-src)-1 *)

Definition tbl (l : list Z) (i : Z) : Z := nth (Z.to_nat i) l 0.

Section Dec.
  Variable fastloop : bool.
  Variable partial : bool.
  Variable dict : ddict.
  Variable srcm : mem.
  Variable iend : Z.          (* srcSize *)
  Variable oend : Z.          (* outputSize *)
  Variable lowPrefix : Z.     (* <= 0 *)
  Variable rlow : Z.          (* lowest address below dst the caller made readable (start of the prefix):
                                 equals lowPrefix except for withPrefix64k, where lowPrefix is dst-64KB
                                 although the prefix may be one byte shorter *)
  Variable dictm : mem.
  Variable dictSize : Z.

  Definition rd_src (a n : Z) : bool := (n <=? 0) || ((0 <=? a) && (a + n <=? iend)).
  Definition wr (a n : Z) : bool := (n <=? 0) || ((0 <=? a) && (a + n <=? oend)).
  Definition rd_dst (a n : Z) : bool := (n <=? 0) || ((rlow <=? a) && (a + n <=? oend)).
  Definition rd_dict (a n : Z) : bool := (n <=? 0) || ((0 <=? a) && (a + n <=? dictSize)).

  Definition checkOffset : bool := dictSize <? 65536.
  Definition shortiend : Z := iend - 14 - 2.
  Definition shortoend : Z := oend - 14 - 18.

  (* read_variable_length: (None = rvl_error | Some length, new ip, ok) *)
  Fixpoint rvl_loop (fuel : nat) (p len : Z) (k : bool) (ilimit : Z) : option Z * Z * bool :=
    match fuel with
    | O => (None, p, false)
    | S f =>
      let s := get srcm p in
      let k := k && rd_src p 1 in
      let p := p + 1 in
      let len := len + s in
      if p >? ilimit then (None, p, k)
      else if s =? 255 then rvl_loop f p len k ilimit
      else (Some len, p, k)
    end.
  Definition rvl (p ilimit : Z) (initial_check : bool) (k : bool) : option Z * Z * bool :=
    if initial_check && (p >=? ilimit) then (None, p, k)
    else rvl_loop (Z.to_nat iend + 1) p 0 k ilimit.

  Definition readLE16 (p : Z) : Z := get srcm p + 256 * get srcm (p + 1).

  (* the 18-byte copy of the two shortcuts *)
  Definition copy18 (m : mem) (d s : Z) : mem :=
    memcpy_k (memcpy_k (memcpy_k m d s 8) (d + 8) (s + 8) 8) (d + 16) (s + 16) 2.

  (* first 8 bytes of an overlapping match: returns (memory, adjusted match pointer) *)
  Definition first8 (m : mem) (d s offset : Z) : mem * Z :=
    if offset <? 8 then
      let m := store_list m d [0; 0; 0; 0] in
      let m := copy_fwd m d s 4 in
      let s1 := s + tbl inc32table offset in
      let m := memcpy_k m (d + 4) s1 4 in
      (m, s1 - tbl dec64table offset)
    else (memcpy_k m d s 8, s + 8).

  (* LZ4_memcpy_using_offset_base *)
  Definition using_offset_base (m : mem) (d s e offset : Z) : mem :=
    let '(m, s2) := first8 m d s offset in
    wild8 m (d + 8) s2 e.
  Fixpoint store_rep (k : nat) (m : mem) (d : Z) (v : list Z) : mem :=
    match k with O => m | S k' => store_rep k' (store_list m d v) (d + 8) v end.
  (* LZ4_memcpy_using_offset *)
  Definition using_offset (m : mem) (d s e offset : Z) : mem :=
    if offset =? 1 then
      let a := get m s in store_rep (wild_iters 8 d e) m d [a; a; a; a; a; a; a; a]
    else if offset =? 2 then
      let a := get m s in let b := get m (s + 1) in
      store_rep (wild_iters 8 d e) m d [a; b; a; b; a; b; a; b]
    else if offset =? 4 then
      let a := get m s in let b := get m (s + 1) in let c := get m (s + 2) in let d4 := get m (s + 3) in
      store_rep (wild_iters 8 d e) m d [a; b; c; d4; a; b; c; d4]
    else using_offset_base m d s e offset.
  (* bytes written by the two routines above, starting at d *)
  Definition using_offset_len (d e offset : Z) : Z :=
    if (offset =? 1) || (offset =? 2) || (offset =? 4) then wild8_len d e
    else 8 + wild8_len (d + 8) e.

  (* match starting inside the external dictionary (identical code in both loops) *)
  Definition ext_match (infast : bool) (s : dstate) (mat len0 : Z) : dout :=
    let o := op s in
    let over := o + len0 >? oend - LASTLITERALS in
    if over && negb partial then Err s else
    let length := if over then Z.min len0 (oend - o) else len0 in
    if length <=? lowPrefix - mat then
      let a := dictSize - (lowPrefix - mat) in
      Cont infast (mkD (ip s) (o + length) (blit dictm a (dm s) o (Z.to_nat length))
                       (ok s && rd_dict a length && wr o length))
    else
      let copySize := lowPrefix - mat in
      let restSize := length - copySize in
      let m1 := blit dictm (dictSize - copySize) (dm s) o (Z.to_nat copySize) in
      let k1 := ok s && rd_dict (dictSize - copySize) copySize && wr o copySize in
      let o1 := o + copySize in
      let m2 := if restSize >? o1 - lowPrefix then copy_fwd m1 o1 lowPrefix (Z.to_nat restSize)
                else blit m1 lowPrefix m1 o1 (Z.to_nat restSize) in
      Cont infast (mkD (ip s) (o1 + restSize) m2 (k1 && wr o1 restSize && rd_dst lowPrefix restSize)).

  (* safe_match_copy: ... *)
  Definition safe_match (s : dstate) (offset length : Z) : dout :=
    let o := op s in
    let mat := o - offset in
    if checkOffset && (mat + dictSize <? lowPrefix) then Err s else
    if is_extdict dict && (mat <? lowPrefix) then ext_match false s mat length else
    let cpy := o + length in
    if partial && (cpy >? oend - MATCH_SAFEGUARD_DISTANCE) then
      let mlen := Z.min length (oend - o) in
      let m := if mat + mlen >? o then copy_fwd (dm s) o mat (Z.to_nat mlen)
               else blit (dm s) mat (dm s) o (Z.to_nat mlen) in
      let s' := mkD (ip s) (o + mlen) m (ok s && wr o mlen && rd_dst mat mlen) in
      if o + mlen =? oend then Done s' else Cont false s'
    else
      let '(m, mat2) := first8 (dm s) o mat offset in
      let k := ok s && wr o 8 && rd_dst mat 4 && rd_dst (if offset <? 8 then mat + tbl inc32table offset else mat) (if offset <? 8 then 4 else 8) in
      let o1 := o + 8 in
      if cpy >? oend - MATCH_SAFEGUARD_DISTANCE then
        let oCopyLimit := oend - (WILDCOPYLENGTH - 1) in
        if cpy >? oend - LASTLITERALS then Err (mkD (ip s) o1 m k) else
        let '(m, o2, mat3, k) :=
          if o1 <? oCopyLimit then
            (wild8 m o1 mat2 oCopyLimit, oCopyLimit, mat2 + (oCopyLimit - o1),
             k && wr o1 (wild8_len o1 oCopyLimit) && rd_dst mat2 (wild8_len o1 oCopyLimit))
          else (m, o1, mat2, k) in
        let n := cpy - o2 in
        Cont false (mkD (ip s) cpy (copy_fwd m o2 mat3 (Z.to_nat n)) (k && wr o2 n && rd_dst mat3 n))
      else
        let m := memcpy_k m o1 mat2 8 in
        let k := k && wr o1 8 && rd_dst mat2 8 in
        if length >? 16 then
          Cont false (mkD (ip s) cpy (wild8 m (o1 + 8) (mat2 + 8) cpy)
                          (k && wr (o1 + 8) (wild8_len (o1 + 8) cpy) && rd_dst (mat2 + 8) (wild8_len (o1 + 8) cpy)))
        else Cont false (mkD (ip s) cpy m k).

  (* _copy_match: [ml] is the token's match-length nibble *)
  Definition copy_match_lbl (s : dstate) (offset ml : Z) : dout :=
    if ml =? ML_MASK then
      match rvl (ip s) (iend - LASTLITERALS + 1) false (ok s) with
      | (None, p, k) => Err (mkD p (op s) (dm s) k)
      | (Some addl, p, k) => safe_match (mkD p (op s) (dm s) k) offset (ml + addl + MINMATCH)
      end
    else safe_match s offset (ml + MINMATCH).

  (* safe_literal_copy: [length] literals at ip, then the rest of the sequence *)
  Definition safe_lit (s : dstate) (token length : Z) : dout :=
    let i := ip s in let o := op s in
    let cpy := o + length in
    let after (s' : dstate) : dout :=
      let offset := readLE16 (ip s') in
      copy_match_lbl (mkD (ip s' + 2) (op s') (dm s') (ok s' && rd_src (ip s') 2)) offset (token mod 16) in
    if (cpy >? oend - MFLIMIT) || (i + length >? iend - (2 + 1 + LASTLITERALS)) then
      if negb partial && (negb (i + length =? iend) || (cpy >? oend)) then Err s else
      let '(length, cpy) := if partial && (i + length >? iend) then (iend - i, o + (iend - i)) else (length, cpy) in
      let '(length, cpy) := if partial && (cpy >? oend) then (oend - o, oend) else (length, cpy) in
      let s' := mkD (i + length) (o + length) (blit srcm i (dm s) o (Z.to_nat length))
                    (ok s && rd_src i length && wr o length) in
      if negb partial || (cpy =? oend) || (i + length >=? iend - 2) then Done s'
      else after s'
    else
      after (mkD (i + length) cpy (wild8_in srcm i (dm s) o cpy)
                 (ok s && rd_src i (wild8_len o cpy) && wr o (wild8_len o cpy))).

  (* one iteration of the safe loop *)
  Definition safe_top (s : dstate) : dout :=
    let token := get srcm (ip s) in
    let k := ok s && rd_src (ip s) 1 in
    let i := ip s + 1 in
    let o := op s in
    let length := token / 16 in
    if negb (length =? RUN_MASK) && ((i <? shortiend) && (o <=? shortoend)) then
      let m := blit srcm i (dm s) o 16 in
      let k := k && rd_src i 16 && wr o 16 in
      let o := o + length in let i := i + length in
      let ml := token mod 16 in
      let offset := readLE16 i in
      let k := k && rd_src i 2 in
      let i := i + 2 in
      let mat := o - offset in
      if negb (ml =? ML_MASK) && (offset >=? 8) && (is_prefix64k dict || (mat >=? lowPrefix)) then
        Cont false (mkD i (o + ml + MINMATCH) (copy18 m o mat) (k && wr o 18 && rd_dst mat 18))
      else copy_match_lbl (mkD i o m k) offset ml
    else if length =? RUN_MASK then
      match rvl i (iend - RUN_MASK) true k with
      | (None, p, k) => Err (mkD p o (dm s) k)
      | (Some addl, p, k) => safe_lit (mkD p o (dm s) k) token (length + addl)
      end
    else safe_lit (mkD i o (dm s) k) token length.

  (* one iteration of the fast loop *)
  Definition fast_match (s : dstate) (offset length : Z) : dout :=
    (* from `if (checkOffset && ...)` at lz4.c:2161 to the end of the fast loop body *)
    let o := op s in
    let mat := o - offset in
    if checkOffset && (mat + dictSize <? lowPrefix) then Err s else
    if is_extdict dict && (mat <? lowPrefix) then ext_match true s mat length else
    let cpy := o + length in
    if offset <? 16 then
      Cont true (mkD (ip s) cpy (using_offset (dm s) o mat cpy offset)
                     (ok s && wr o (using_offset_len o cpy offset) && rd_dst mat (if offset <? 8 then 4 else 8)))
    else
      Cont true (mkD (ip s) cpy (wild32 (dm s) o mat cpy)
                     (ok s && wr o (wild32_len o cpy) && rd_dst mat (wild32_len o cpy))).

  Definition fast_offset (s : dstate) (token : Z) : dout :=
    let offset := readLE16 (ip s) in
    let k := ok s && rd_src (ip s) 2 in
    let i := ip s + 2 in
    let o := op s in
    let mat := o - offset in
    let ml := token mod 16 in
    if ml =? ML_MASK then
      match rvl i (iend - LASTLITERALS + 1) false k with
      | (None, p, k) => Err (mkD p o (dm s) k)
      | (Some addl, p, k) =>
        let length := ml + addl + MINMATCH in
        if o + length >=? oend - FASTLOOP_SAFE_DISTANCE then safe_match (mkD p o (dm s) k) offset length
        else fast_match (mkD p o (dm s) k) offset length
      end
    else
      let length := ml + MINMATCH in
      if o + length >=? oend - FASTLOOP_SAFE_DISTANCE then safe_match (mkD i o (dm s) k) offset length
      else if (is_prefix64k dict || (mat >=? lowPrefix)) && (offset >=? 8) then
        Cont true (mkD i (o + length) (copy18 (dm s) o mat) (k && wr o 18 && rd_dst mat 18))
      else fast_match (mkD i o (dm s) k) offset length.

  Definition fast_top (s : dstate) : dout :=
    let token := get srcm (ip s) in
    let k := ok s && rd_src (ip s) 1 in
    let i := ip s + 1 in
    let o := op s in
    let length := token / 16 in
    if length =? RUN_MASK then
      match rvl i (iend - RUN_MASK) true k with
      | (None, p, k) => Err (mkD p o (dm s) k)
      | (Some addl, p, k) =>
        let length := length + addl in
        if (o + length >? oend - 32) || (p + length >? iend - 32) then
          safe_lit (mkD p o (dm s) k) token length
        else
          fast_offset (mkD (p + length) (o + length) (wild32_in srcm p (dm s) o (o + length))
                           (k && rd_src p (wild32_len o (o + length)) && wr o (wild32_len o (o + length)))) token
      end
    else if i <=? iend - (16 + 1) then
      fast_offset (mkD (i + length) (o + length) (blit srcm i (dm s) o 16) (k && rd_src i 16 && wr o 16)) token
    else safe_lit (mkD i o (dm s) k) token length.

  Fixpoint run (fuel : nat) (fast : bool) (s : dstate) : Z * dstate :=
    match fuel with
    | O => (-1, mkD (ip s) (op s) (dm s) false)       (* out of fuel: flagged, excluded by theorem *)
    | S f =>
      match (if fast then fast_top s else safe_top s) with
      | Cont fast' s' => run f fast' s'
      | Done s' => (op s', s')
      | Err s' => (- (ip s') - 1, s')
      end
    end.

  (* LZ4_decompress_generic: (return value, final memory, all accesses in bounds) *)
  Definition dec_generic (m0 : mem) : Z * mem * bool :=
    if oend <? 0 then (-1, m0, true) else
    if oend =? 0 then
      if partial then (0, m0, true)
      else if iend =? 1 then ((if get srcm 0 / 2 ^ ML_BITS =? 0 then 0 else -1), m0, true)
      else (-1, m0, true)
    else if iend =? 0 then (-1, m0, true) else
    let fast := fastloop && negb (oend <? FASTLOOP_SAFE_DISTANCE) in
    let '(r, s) := run (Z.to_nat iend + 2) fast (mkD 0 0 m0 true) in
    (r, dm s, ok s).
End Dec.
