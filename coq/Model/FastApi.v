(* The one-shot fast compression entry points of lib/lz4.c on top of Model.Fast:
   LZ4_initStream, LZ4_prepareTable, LZ4_compress_generic, LZ4_compress_fast_extState,
   LZ4_compress_fast_extState_fastReset, LZ4_compress_fast, LZ4_compress_default,
   LZ4_compress_destSize(_extState) (lz4.c:884-922, 1344-1522). *)
From Coq Require Import ZArith List Lia Bool.
From LZ4V Require Import Gen.Consts Spec.BlockSpec Model.Mem Model.Fast.
Import ListNotations.
Local Open Scope Z_scope.

(* tableType_t: clearedTable = 0, byPtr = 1, byU32 = 2, byU16 = 3 *)
Definition tt_code (t : ttype) : Z := match t with ByU32 => 2 | ByU16 => 3 end.

Record fctx := mkF { f_tab : mem; f_cur : Z; f_tt : Z; f_dictSize : Z }.
Definition ctx_init : fctx := mkF empty 0 0 0.        (* LZ4_initStream: MEM_INIT(0) *)

(* LZ4_COMPRESSBOUND (lz4.h) *)
Definition compressBound (isize : Z) : Z :=
  if (isize <? 0) || (isize >? LZ4_MAX_INPUT_SIZE) then 0 else isize + isize / 255 + 16.

(* result of an API call: return value, bytes written to dst[0..ret), *srcSizePtr, context, high-water *)
Record ares := mkA { a_ret : Z; a_out : list byte; a_consumed : Z; a_ctx : fctx; a_hw : Z }.

(* LZ4_prepareTable *)
Definition prepareTable (c : fctx) (inputSize : Z) (t : ttype) : fctx :=
  let c1 :=
    if negb (f_tt c =? 0) then
      if negb (f_tt c =? tt_code t)
         || (match t with ByU16 => f_cur c + inputSize >=? 65535 | ByU32 => false end)
         || (match t with ByU32 => f_cur c >? 1073741824 | ByU16 => false end)
         || (inputSize >=? 4096)
      then mkF empty 0 0 (f_dictSize c)
      else c
    else c in
  let cur := if negb (f_cur c1 =? 0) && (match t with ByU32 => true | ByU16 => false end)
             then f_cur c1 + 65536 else f_cur c1 in
  mkF (f_tab c1) cur (f_tt c1) 0.

(* LZ4_compress_generic with noDict: [src] are the bytes of the input *)
Definition compress_generic_nodict (c : fctx) (src : mem) (srcSize cap : Z) (od : outdir) (t : ttype)
           (small : bool) (accel : Z) : ares :=
  if (srcSize <? 0) || (srcSize >? LZ4_MAX_INPUT_SIZE) then mkA 0 [] srcSize c 0 else
  if srcSize =? 0 then
    if (match od with NotLimited => false | _ => true end) && (cap <=? 0) then mkA 0 [] srcSize c 0
    else mkA 1 [0] 0 c 1
  else
    let start := f_cur c in
    let vrd := fun i => get src (i - start) in
    let c' := fun tab => mkF tab (f_cur c + srcSize) (tt_code t) (f_dictSize c + srcSize) in
    if (match od with FillOutput => true | _ => false end) && (cap <? 1) then mkA 0 [] srcSize c 0 else
    match compress_validated vrd t od CNoDict small start (f_dictSize c) empty 0 srcSize cap accel (f_tab c) with
    | RFail tab => mkA 0 [] srcSize (c' tab) 0
    | ROk ss last consumed tab hw =>
      let out := encode_block ss last in
      mkA (Z.of_nat (length out)) out consumed (c' tab) hw
    end.

Definition clamp_accel (a : Z) : Z :=
  if a <? 1 then LZ4_ACCELERATION_DEFAULT else if a >? LZ4_ACCELERATION_MAX then LZ4_ACCELERATION_MAX else a.
Definition ttype_for (n : Z) : ttype := if n <? LZ4_64Klimit then ByU16 else ByU32.

(* LZ4_compress_fast_extState (any prior content of the state is overwritten by initStream) *)
Definition compress_fast_extState (src : mem) (srcSize cap accel : Z) : ares :=
  let accel := clamp_accel accel in
  if cap >=? compressBound srcSize then
    compress_generic_nodict ctx_init src srcSize 0 NotLimited (ttype_for srcSize) false accel
  else compress_generic_nodict ctx_init src srcSize cap LimitedOutput (ttype_for srcSize) false accel.
Definition compress_fast := compress_fast_extState.
Definition compress_default (src : mem) (srcSize cap : Z) : ares := compress_fast src srcSize cap 1.

(* LZ4_compress_fast_extState_fastReset *)
Definition compress_fast_extState_fastReset (c : fctx) (src : mem) (srcSize cap accel : Z) : ares :=
  let accel := clamp_accel accel in
  let t := ttype_for srcSize in
  let c1 := prepareTable c srcSize t in
  let small := match t with ByU16 => negb (f_cur c1 =? 0) | ByU32 => false end in
  if cap >=? compressBound srcSize then compress_generic_nodict c1 src srcSize 0 NotLimited t small accel
  else compress_generic_nodict c1 src srcSize cap LimitedOutput t small accel.

(* LZ4_compress_destSize_extState_internal *)
Definition compress_destSize_internal (src : mem) (srcSize target accel : Z) : ares :=
  let accel := clamp_accel accel in
  if target >=? compressBound srcSize then compress_fast_extState src srcSize target accel
  else compress_generic_nodict ctx_init src srcSize target FillOutput (ttype_for srcSize) false accel.
Definition compress_destSize (src : mem) (srcSize target : Z) : ares :=
  compress_destSize_internal src srcSize target 1.
