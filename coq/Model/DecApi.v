(* The public block-decoding entry points of lib/lz4.c as instances of
   [dec_generic] (lz4.c:2451-2564, 2719-2747). *)
From Coq Require Import ZArith List Lia Bool.
From LZ4V Require Import Gen.Consts Model.Mem Model.Dec.
Import ListNotations.
Local Open Scope Z_scope.

Inductive placement := PPrefix | PExt.   (* dictionary contiguous below dst, or elsewhere *)

Section Api.
  Variable fastloop : bool.

  Definition decompress_safe (srcm : mem) (srcSize cap : Z) (m0 : mem) :=
    dec_generic fastloop false NoDict srcm srcSize cap 0 0 empty 0 m0.
  Definition decompress_safe_partial (srcm : mem) (srcSize target cap : Z) (m0 : mem) :=
    dec_generic fastloop true NoDict srcm srcSize (Z.min target cap) 0 0 empty 0 m0.

  (* LZ4_decompress_safe_usingDict / _partial_usingDict.  For PPrefix the dictionary
     bytes are in m0 at [-dictSize,0); for PExt they are in dictm at [0,dictSize). *)
  Definition decompress_usingDict (part : bool) (srcm : mem) (srcSize target cap : Z)
             (pl : placement) (dictm : mem) (dictSize : Z) (m0 : mem) :=
    let cap' := if part then Z.min target cap else cap in
    if dictSize =? 0 then dec_generic fastloop part NoDict srcm srcSize cap' 0 0 empty 0 m0
    else match pl with
         | PPrefix =>
           if dictSize >=? 65536 - 1 then
             dec_generic fastloop part WithPrefix64k srcm srcSize cap' (-65536) (- dictSize) empty 0 m0
           else dec_generic fastloop part NoDict srcm srcSize cap' (- dictSize) (- dictSize) empty 0 m0
         | PExt => dec_generic fastloop part UsingExtDict srcm srcSize cap' 0 0 dictm dictSize m0
         end.
End Api.
