(* Model of LZ4HC_encodeSequence (lib/lz4hc.c:268-354), the only place where the three HC
   parsers (LZ4MID_compress, LZ4HC_compress_hashChain, LZ4HC_compress_optimal) write a sequence.
   Positions are offsets: [anchor, ip) are the literals in the source, [op, ...) the output,
   [oend] the end of the output buffer (already lowered by LASTLITERALS by the fillOutput callers).
   Result: (return code, new op, bytes written from the old op, write high-water mark).
   The bytes are produced with the C code's own loops (255-chains written two by two for match
   lengths), not with the specification's encoder: that they coincide is a theorem. *)
From Coq Require Import ZArith List Lia Bool.
From LZ4V Require Import Gen.Consts Spec.BlockSpec Model.Mem.
Import ListNotations.
Local Open Scope Z_scope.

Section HcEmit.
  Variable src : Z -> Z.               (* source bytes *)

  Fixpoint src_bytes (n : nat) (a : Z) : list Z :=
    match n with O => [] | S k => src a :: src_bytes k (a + 1) end.

  (* `for(; len >= 255 ; len -= 255) *op++ = 255; *op++ = (BYTE)len;` *)
  Fixpoint lit_ext (fuel : nat) (len : Z) : list Z :=
    match fuel with
    | O => [len]
    | S f => if len >=? 255 then 255 :: lit_ext f (len - 255) else [len]
    end.
  (* `for(; length >= 510 ; length -= 510) { *op++ = 255; *op++ = 255; }
      if (length >= 255) { length -= 255; *op++ = 255; }  *op++ = (BYTE)length;` *)
  Fixpoint ml_ext (fuel : nat) (len : Z) : list Z :=
    match fuel with
    | O => [len]
    | S f => if len >=? 510 then 255 :: 255 :: ml_ext f (len - 510)
             else if len >=? 255 then [255; len - 255] else [len]
    end.

  Record emit := mkEmit { e_ret : Z; e_op : Z; e_bytes : list Z; e_hw : Z }.

  (* limit = true for limitedOutput and fillOutput *)
  Definition encodeSequence (ip anchor op matchLength offset : Z) (limit : bool) (oend : Z) : emit :=
    let op1 := op + 1 in                                   (* token = op++ *)
    let length := ip - anchor in
    if limit && (op1 + length / 255 + length + (2 + 1 + LASTLITERALS) >? oend) then mkEmit 1 op [] op
    else
      let '(tokhi, ext) :=
        if length >=? RUN_MASK then (RUN_MASK, lit_ext (Z.to_nat length) (length - RUN_MASK))
        else (length, []) in
      let op2 := op1 + Z.of_nat (List.length ext) in
      (* LZ4_wildCopy8(op, anchor, op + length) *)
      let hw := op2 + wild8_len op2 (op2 + length) in
      let lits := src_bytes (Z.to_nat length) anchor in
      let op3 := op2 + length in
      let op4 := op3 + 2 in                                 (* LZ4_writeLE16 *)
      let ml := matchLength - MINMATCH in
      if limit && (op4 + ml / 255 + (1 + LASTLITERALS) >? oend) then
        mkEmit 1 op4 ((tokhi * 16) :: ext ++ lits ++ [offset mod 256; (offset / 256) mod 256]) (Z.max hw op4)
      else
        let '(toklo, mext) :=
          if ml >=? ML_MASK then (ML_MASK, ml_ext (Z.to_nat ml) (ml - ML_MASK)) else (ml, []) in
        let bytes := (tokhi * 16 + toklo) :: ext ++ lits ++ [offset mod 256; (offset / 256) mod 256] ++ mext in
        mkEmit 0 (op4 + Z.of_nat (List.length mext)) bytes (Z.max hw (op4 + Z.of_nat (List.length mext))).
End HcEmit.
