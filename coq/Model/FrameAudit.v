(* Conformance audit of one LZ4 frame, written from doc/lz4_Frame_format.md (not from
   lz4frame.c).  It is Spec.FrameSpec.frame_decode with checksums always verified, plus the
   conditions C07 names that a mere decoder does not look at:
   * a block stored with the "uncompressed" bit clear must be strictly smaller than the
     content it decodes to (otherwise the producer had to store it uncompressed);
   * the content-size field, when present, equals the real size (FrameSpec tolerates 0);
   * no block is empty (a zero size field is the EndMark).
   The result also counts the blocks.  [audit_sound] (Proofs/FrameCProofs.v) shows that an
   accepted frame is decoded by FrameSpec.frame_decode to the same content. *)
From Coq Require Import ZArith List Bool.
From LZ4V Require Import Spec.BlockSpec Spec.XXH32 Spec.FrameSpec.
Import ListNotations.
Local Open Scope Z_scope.

Section Audit.
  Variable bdec : list byte -> list byte -> option (list byte).

  Fixpoint audit_blocks (fuel : nat) (d : fdesc) (maxb : Z) (dict acc bs : list byte) (nb : Z)
    : option (list byte * list byte * Z) :=
    match fuel with
    | O => None
    | S f =>
      match take 4 bs with
      | None => None
      | Some (szb, r) =>
        let w := le_val szb in
        if w =? 0 then
          let fin (rest : list byte) :=
            match f_csize d with
            | Some n => if n =? Z.of_nat (length acc) then Some (acc, rest, nb) else None
            | None => Some (acc, rest, nb)
            end in
          if f_ccrc d then
            match take 4 r with
            | None => None
            | Some (cb, r1) => if le_val cb =? xxh32 0 acc then fin r1 else None
            end
          else fin r
        else
          let raw := 2147483648 <=? w in
          let n := w mod 2147483648 in
          if maxb <? n then None else
          match take (Z.to_nat n) r with
          | None => None
          | Some (data, r1) =>
            let after (rest : list byte) :=
              let hist := if f_indep d then dict else lastn 65536 (dict ++ acc) in
              let content := if raw then Some data else bdec hist data in
              match content with
              | None => None
              | Some c =>
                if maxb <? Z.of_nat (length c) then None
                else if negb raw && (Z.of_nat (length c) <=? Z.of_nat (length data)) then None
                else audit_blocks f d maxb dict (acc ++ c) rest (nb + 1)
              end in
            if f_bcrc d then
              match take 4 r1 with
              | None => None
              | Some (cb, r2) => if le_val cb =? xxh32 0 data then after r2 else None
              end
            else after r1
          end
      end
    end.

  (* (descriptor, content, remaining bytes, number of blocks) *)
  Definition frame_audit (dict bs : list byte) : option (fdesc * list byte * list byte * Z) :=
    match take 4 bs with
    | None => None
    | Some (mg, r) =>
      if le_val mg =? MAGIC then
        match parse_desc r with
        | None => None
        | Some (d, r1) =>
          match bsid_size (f_bsid d) with
          | None => None
          | Some maxb =>
            match audit_blocks (S (length r1)) d maxb dict [] r1 0 with
            | Some (c, rest, nb) => Some (d, c, rest, nb)
            | None => None
            end
          end
        end
      else None
    end.
End Audit.
