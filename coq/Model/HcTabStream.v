(* The streaming / dictionary layer of lib/lz4hc.c for the strategies served by hashTable + chainTable (lz4hc: levels 3..9,
   lz4opt: levels 10..12), PARAMETRIC in the block compressor: the text of Model.HcChainStream (LZ4_loadDictHC with its
   LZ4HC_Insert, LZ4HC_setExternalDict with its LZ4HC_Insert, LZ4HC_init_internal + LZ4HC_clearTables, the prelude of
   LZ4_compressHC_continue_generic, the bookkeeping of LZ4HC_compress_generic_dictCtx, dirty on failure, re-anchoring after a
   partial fillOutput call, LZ4_saveDictHC, the one-shot entry points on a stream object) with
     [blk vrd prefixIdx dictIdx lim s0 srcSize maxOut cLevel favorDecSpeed tables]
   standing for `LZ4HC_compress_hashChain / LZ4HC_compress_optimal` as selected by LZ4HC_getCLevelParams(cLevel), and
   [lvl_ok] for the levels the instance covers.  The helpers that do not depend on the parser (kc_insert, kc_init_internal,
   kc_setExternalDict, cs_trim, ct0, ctFF) are those of Model.HcChainStream.
   New with respect to it: ctx->favorDecSpeed (LZ4_favorDecompressionSpeed; cleared by LZ4_initStreamHC, hence by
   LZ4_loadDictHC and by a reset of a dirty context; copied with the dictionary context by the memcpy of the copy path),
   read by the optimal parser only.  Instance: Model/HcOptStream.v. *)
From Coq Require Import ZArith List Lia Bool FMapPositive.
From LZ4V Require Import Gen.Consts Spec.BlockSpec Model.Mem Model.Fast Model.FastApi Model.HcEmit Model.HcMid Model.HcMidStream.
From LZ4V Require Import Model.HcChain Model.HcChainApi Model.HcChainStream.
Import ListNotations.
Local Open Scope Z_scope.

(* working context, its chainTable, the chainTable of the attached dictionary context, favorDecSpeed of both *)
Record tctx := mkTS { ts_hs : hsctx; ts_chain : ctab; ts_dchain : ctab; ts_fav : bool; ts_dfav : bool }.
Definition ts_core (c : tctx) : hcore := hs_core (ts_hs c).

Definition ts_init : tctx := mkTS hs_init ct0 ct0 false false.
Definition ts_setLevel (c : tctx) (l : Z) : tctx := mkTS (hs_setLevel (ts_hs c) l) (ts_chain c) (ts_dchain c) (ts_fav c) (ts_dfav c).
Definition ts_resetStream (l : Z) : tctx := ts_setLevel ts_init l.
Definition ts_resetFast (c : tctx) (l : Z) : tctx :=
  mkTS (hs_resetFast (ts_hs c) l) (if k_dirty (ts_core c) then ct0 else ts_chain c) ct0 (if k_dirty (ts_core c) then false else ts_fav c) false.
(* LZ4_favorDecompressionSpeed *)
Definition ts_setFav (c : tctx) (f : bool) : tctx := mkTS (ts_hs c) (ts_chain c) (ts_dchain c) f (ts_dfav c).

Section Tab.
  Variable blk : (Z -> Z) -> Z -> Z -> outdir -> Z -> Z -> Z -> Z -> bool -> htabs -> cres.
  Variable lvl_ok : Z -> bool.

(* LZ4_loadDictHC (LZ4_initStreamHC inside: favorDecSpeed = 0); None: the level is not one of the instance *)
Definition ts_loadDict (m : mem) (c : tctx) (dictionary dictSize : Z) : option (tctx * Z) :=
  let '(dictionary, dictSize) :=
    if dictSize >? K64 then (dictionary + (dictSize - K64), K64) else (dictionary, dictSize) in
  let lvl := k_level (ts_core c) in
  if lvl_ok lvl then
    let k0 := k_init_internal (with_level k_init lvl) dictionary in
    let k1 := mkK (k_h4 k0) (k_h8 k0) (dictionary + dictSize) (k_prefixStart k0) (k_dictStart k0)
                  (k_dictLimit k0) (k_lowLimit k0) (k_ntu k0) (k_level k0) (k_dirty k0) in
    let '(k2, ct) := if dictSize >=? LZ4HC_HASHSIZE then kc_insert m k1 ct0 (k_end k1 - 3) else (k1, ct0) in
    Some (mkTS (mkHS k2 None) ct ct0 false false, dictSize)
  else None.

(* LZ4_attach_HC_dictionary *)
Definition ts_attach (c : tctx) (d : option tctx) : tctx :=
  match d with
  | Some ds => mkTS (mkHS (ts_core c) (Some (ts_core ds))) (ts_chain c) (ts_chain ds) (ts_fav c) (ts_fav ds)
  | None => mkTS (mkHS (ts_core c) None) (ts_chain c) ct0 (ts_fav c) false
  end.

(* ---------------------------------------------------------------- LZ4HC_compress_generic *)
Inductive tsres := TRes (ret consumed : Z) (out : list Z) (hw : Z) (c : tctx).

(* LZ4HC_compress_generic_internal, dict = noDictCtx (ctx->dictCtx == NULL in every modelled call); [fav] = ctx->favorDecSpeed *)
Definition kt_generic (m : mem) (k : hcore) (ct : ctab) (fav : bool) (src n cap : Z) (lim : outdir) : option tsres :=
  if (match lim with FillOutput => cap <? 1 | _ => false end) then Some (TRes 0 n [] 0 (mkTS (mkHS k None) ct ct0 fav false))
  else if u32 n >? LZ4_MAX_INPUT_SIZE then Some (TRes 0 n [] 0 (mkTS (mkHS k None) ct ct0 fav false))
  else
    let s0 := k_dictLimit k + (k_end k - k_prefixStart k) in
    let e' := k_end k + n in
    let fin (t : htabs) (dirty : bool) : hcore :=
      mkK (t_hash t) (k_h8 k) e' (k_prefixStart k) (k_dictStart k) (k_dictLimit k) (k_lowLimit k) (t_ntu t) (k_level k) dirty in
    match blk (k_vrd m k) (k_dictLimit k) (k_lowLimit k) lim s0 n cap (k_level k) fav (kc_tabs k ct) with
    | CFail t hw => Some (TRes 0 n [] hw (mkTS (mkHS (fin t true) None) (t_chain t) ct0 fav false))
    | CUndef => None
    | COk ret consumed out t hw =>
      let k1 := fin t (if ret <=? 0 then true else k_dirty k) in
      match lim with
      | FillOutput =>
        if (0 <? ret) && (consumed <? n)
        then let '(k2, ct2) := kc_init_internal k1 (t_chain t) (src + consumed) in
             Some (TRes ret consumed out hw (mkTS (mkHS k2 None) ct2 ct0 fav false))
        else Some (TRes ret consumed out hw (mkTS (mkHS k1 None) (t_chain t) ct0 fav false))
      | _ => Some (TRes ret consumed out hw (mkTS (mkHS k1 None) (t_chain t) ct0 fav false))
      end
    end.

(* LZ4HC_compress_generic: dictCtx bookkeeping *)
Definition ts_generic (m : mem) (c : tctx) (src n cap : Z) (lim : outdir) : option tsres :=
  let k := ts_core c in
  match hs_dctx (ts_hs c) with
  | None => kt_generic m k (ts_chain c) (ts_fav c) src n cap lim
  | Some d =>
    let position := (k_end k - k_prefixStart k) + u32 (k_dictLimit k - k_lowLimit k) in
    if position >=? K64 then kt_generic m k (ts_chain c) (ts_fav c) src n cap lim
    else if (position =? 0) && (n >? 4096) && (Bool.eqb (is_mid (k_level k)) (is_mid (k_level d))) then
      (* memcpy of the dictionary context, LZ4HC_setExternalDict(src) (strategy of the DICTIONARY's level: not lz4mid),
         compressionLevel = cLevel; favorDecSpeed is now the dictionary context's *)
      let '(k', ct') := kc_setExternalDict m d (ts_dchain c) src in
      let k' := mkK (k_h4 k') (k_h8 k') (k_end k') (k_prefixStart k') (k_dictStart k') (k_dictLimit k') (k_lowLimit k') (k_ntu k')
                    (k_level k) (k_dirty k') in
      kt_generic m k' ct' (ts_dfav c) src n cap lim
    else None       (* usingDictCtxHc: LZ4HC_searchExtDict is not modelled *)
  end.

(* ---------------------------------------------------------------- LZ4_compressHC_continue_generic *)
(* auto-init *)
Definition ts_pre1 (c : tctx) (src : Z) : tctx :=
  if k_prefixStart (ts_core c) =? 0 then
    let '(k, ct) := kc_init_internal (ts_core c) (ts_chain c) src in mkTS (mkHS k (hs_dctx (ts_hs c))) ct (ts_dchain c) (ts_fav c) (ts_dfav c)
  else c.
(* 2 GB reload *)
Definition ts_pre2 (m : mem) (c : tctx) : option tctx :=
  let k := ts_core c in
  if (k_end k - k_prefixStart k) + k_dictLimit k >? GB2 then
    let ds := k_end k - k_prefixStart k in
    let ds := if ds >? K64 then K64 else ds in
    match ts_loadDict m c (k_end k - ds) ds with Some (c', _) => Some c' | None => None end
  else Some c.
(* external-dictionary switch *)
Definition ts_pre3 (m : mem) (c : tctx) (src : Z) : tctx :=
  if negb (src =? k_end (ts_core c)) then
    let '(k, ct) := kc_setExternalDict m (ts_core c) (ts_chain c) src in mkTS (mkHS k None) ct ct0 (ts_fav c) false
  else c.
Definition ts_prelude (m : mem) (c : tctx) (src n : Z) : option tctx :=
  match ts_pre2 m (ts_pre1 c src) with
  | Some c2 => let c3 := ts_pre3 m c2 src in Some (mkTS (cs_trim (ts_hs c3) src n) (ts_chain c3) (ts_dchain c3) (ts_fav c3) (ts_dfav c3))
  | None => None
  end.

Definition ts_continue_generic (m : mem) (c : tctx) (src n cap : Z) (lim : outdir) : option tsres :=
  if lvl_ok (k_level (ts_core c)) then
    match ts_prelude m c src n with
    | Some c1 => ts_generic m c1 src n cap lim
    | None => None
    end
  else None.

Definition ts_continue (m : mem) (c : tctx) (src n cap : Z) : option tsres :=
  ts_continue_generic m c src n cap (if cap <? compressBound n then LimitedOutput else NotLimited).
Definition ts_continue_destSize (m : mem) (c : tctx) (src n target : Z) : option tsres :=
  ts_continue_generic m c src n target FillOutput.

(* LZ4_compress_HC_extStateHC_fastReset on a stream object *)
Definition ts_fastReset (m : mem) (c : tctx) (src n cap level : Z) : option tsres :=
  let c1 := ts_resetFast c level in
  if lvl_ok (k_level (ts_core c1)) then
    let '(k, ct) := kc_init_internal (ts_core c1) (ts_chain c1) src in
    ts_generic m (mkTS (mkHS k (hs_dctx (ts_hs c1))) ct (ts_dchain c1) (ts_fav c1) (ts_dfav c1)) src n cap (if cap <? compressBound n then LimitedOutput else NotLimited)
  else None.
Definition ts_extState (m : mem) (src n cap level : Z) : option tsres := ts_fastReset m ts_init src n cap level.

(* LZ4_saveDictHC: nothing table-specific *)
Definition ts_saveDict (m : mem) (c : tctx) (safeBuffer dictSize : Z) : mem * tctx * Z :=
  let '(m', h', r) := hs_saveDict m (ts_hs c) safeBuffer dictSize in
  (m', mkTS h' (ts_chain c) (match hs_dctx h' with Some _ => ts_dchain c | None => ct0 end) (ts_fav c) (match hs_dctx h' with Some _ => ts_dfav c | None => false end), r).

(* ---------------------------------------------------------------- operation lists *)
Inductive top :=
| TWrite (a : Z) (bs : list Z)
| TInit
| TResetStream (level : Z)
| TResetFast (level : Z)
| TSetLevel (level : Z)
| TSetFav (f : bool)                             (* LZ4_favorDecompressionSpeed *)
| TLoadDict (a n : Z)
| TAttach (d : option tctx)
| TContinue (src n cap : Z)
| TContinueDestSize (src n target : Z)
| TSaveDict (a n : Z)
| TFastReset (src n cap level : Z)
| TExtState (src n cap level : Z).

Definition of_tres (m : mem) (r : option tsres) : option ((mem * tctx) * (Z * list Z * Z)) :=
  match r with
  | Some (TRes ret consumed out hw c) => Some ((m, c), (ret, out, consumed))
  | None => None
  end.
(* one step; None = the call leaves the model (see the header) *)
Definition tstep (st : mem * tctx) (o : top) : option ((mem * tctx) * (Z * list Z * Z)) :=
  let '(m, c) := st in
  match o with
  | TWrite a bs => Some ((store_list m a bs, c), (0, [], 0))
  | TInit => Some ((m, ts_init), (0, [], 0))
  | TResetStream l => Some ((m, ts_resetStream l), (0, [], 0))
  | TResetFast l => Some ((m, ts_resetFast c l), (0, [], 0))
  | TSetLevel l => Some ((m, ts_setLevel c l), (0, [], 0))
  | TSetFav f => Some ((m, ts_setFav c f), (0, [], 0))
  | TLoadDict a n => match ts_loadDict m c a n with Some (c', r) => Some ((m, c'), (r, [], 0)) | None => None end
  | TAttach d => Some ((m, ts_attach c d), (0, [], 0))
  | TContinue src n cap => of_tres m (ts_continue m c src n cap)
  | TContinueDestSize src n target => of_tres m (ts_continue_destSize m c src n target)
  | TSaveDict a n => let '(m', c', r) := ts_saveDict m c a n in Some ((m', c'), (r, [], 0))
  | TFastReset src n cap l => of_tres m (ts_fastReset m c src n cap l)
  | TExtState src n cap l => of_tres m (ts_extState m src n cap l)
  end.
End Tab.
