(* Model of the streaming block decoder's bookkeeping (lib/lz4.c:2590-2668):
   LZ4_setStreamDecode and the mode selection of LZ4_decompress_safe_continue.
   All buffers live in one flat arena memory [am]; pointers are arena addresses
   (NULL = 0 is only ever stored, never dereferenced).  Each call builds the
   destination-relative working memory that [Model.Dec.dec_generic] expects
   (destination at [0,cap), prefix just below at negative addresses, external
   dictionary at [0,dictSize) of a separate memory), runs the instance that the C
   code selects, copies the destination image [0,cap) back into the arena and
   updates the four fields of LZ4_streamDecode_t_internal exactly as the C code
   does (including the fields written before a failing call).

   Only the last 65536 bytes of a prefix / dictionary are transferred into the
   working memories: a 16-bit offset cannot reach further, and the C02 theorem
   bounds every read of the model by [rlow] resp. the dictionary size.  The
   dictionary is a snapshot taken at call time: the model is therefore only
   meaningful for the documented geometries, where the decoder does not overwrite
   the history it may still read (the harness compares whole images, so a
   geometry in which this matters shows up as a correspondence failure). *)
From Coq Require Import ZArith List Lia Bool.
From LZ4V Require Import Gen.Consts Model.Mem Model.Dec Model.DecApi.
Import ListNotations.
Local Open Scope Z_scope.

Record sdstate := mkSD { sd_externalDict : Z; sd_prefixEnd : Z; sd_extDictSize : Z; sd_prefixSize : Z }.

(* LZ4_setStreamDecode (always returns 1) *)
Definition setStreamDecode (dictionary dictSize : Z) : sdstate :=
  mkSD 0 (if dictSize =? 0 then dictionary else dictionary + dictSize) 0 dictSize.

(* [n] arena bytes starting at address [a], placed at address [at_] of a fresh memory *)
Definition view (am : mem) (a at_ n : Z) : mem := blit am a empty at_ (Z.to_nat n).

Definition hist_window (n : Z) : Z := Z.min n 65536.

Section Stream.
  Variable fastloop : bool.

  (* working memory for a destination at arena address [dest] with [pre] bytes of prefix *)
  Definition work (am : mem) (dest cap pre : Z) : mem :=
    let k := hist_window pre in view am (dest - k) (- k) (k + Z.max cap 0).
  Definition dictview (am : mem) (dict dictSize : Z) : mem :=
    let k := hist_window dictSize in view am (dict + dictSize - k) (dictSize - k) k.
  Definition writeback (am : mem) (dest cap : Z) (m : mem) : mem := blit m 0 am dest (Z.to_nat cap).

  (* LZ4_decompress_safe_continue: (result, arena, state, ok flag) *)
  Definition decompress_safe_continue (am : mem) (st : sdstate) (srcm : mem) (srcSize dest cap : Z)
    : Z * mem * sdstate * bool :=
    if sd_prefixSize st =? 0 then
      let '(r, m, k) := decompress_safe fastloop srcm srcSize cap (work am dest cap 0) in
      let am' := writeback am dest cap m in
      if r <=? 0 then (r, am', st, k)
      else (r, am', mkSD (sd_externalDict st) (dest + r) (sd_extDictSize st) r, k)
    else if sd_prefixEnd st =? dest then
      let ps := sd_prefixSize st in
      let '(r, m, k) :=
        if ps >=? 65536 - 1 then
          dec_generic fastloop false WithPrefix64k srcm srcSize cap (-65536) (- ps) empty 0 (work am dest cap ps)
        else if sd_extDictSize st =? 0 then
          dec_generic fastloop false NoDict srcm srcSize cap (- ps) (- ps) empty 0 (work am dest cap ps)
        else
          dec_generic fastloop false UsingExtDict srcm srcSize cap (- ps) (- ps)
                      (dictview am (sd_externalDict st) (sd_extDictSize st)) (sd_extDictSize st) (work am dest cap ps) in
      let am' := writeback am dest cap m in
      if r <=? 0 then (r, am', st, k)
      else (r, am', mkSD (sd_externalDict st) (sd_prefixEnd st + r) (sd_extDictSize st) (ps + r), k)
    else
      let eds := sd_prefixSize st in
      let ed := sd_prefixEnd st - eds in
      let st1 := mkSD ed (sd_prefixEnd st) eds (sd_prefixSize st) in
      let '(r, m, k) :=
        dec_generic fastloop false UsingExtDict srcm srcSize cap 0 0 (dictview am ed eds) eds (work am dest cap 0) in
      let am' := writeback am dest cap m in
      if r <=? 0 then (r, am', st1, k)
      else (r, am', mkSD ed (dest + r) eds r, k).
End Stream.
