(* In-place decompression (lz4.h, "In-place decompression"): LZ4_decompress_safe run with the
   compressed block and the destination inside ONE buffer.  This is Model.Dec's decoder with
   every load from the source going to the CURRENT contents of the single working memory, in the
   order the C code performs its loads and stores:
     - the token and the literal-length bytes are loaded before anything is stored;
     - the literals are copied by the real chunk loops inside one memory (LZ4_wildCopy8 /
       LZ4_wildCopy32: [wild8] / [wild32]; the fixed 16-byte copy and the final LZ4_memmove are
       load-then-store: [blit] within one memory), each chunk loaded after the stores of the
       previous chunks;
     - the offset and the match-length bytes are loaded from the memory as the literal copy
       left it;
     - the match copy loads no input; the next iteration starts from the memory it left.
   Addresses: the single memory holds the destination at [0, oend) and the source block at
   [pos, iend), iend = pos + srcSize.  The regions that load no input between stores
   (copy_match_lbl, fast_offset and below) are Model.Dec's own functions applied to the current
   memory as their source. *)
From Coq Require Import ZArith List Lia Bool.
From LZ4V Require Import Gen.Consts Model.Mem Model.Dec.
Import ListNotations.
Local Open Scope Z_scope.

Section Inplace.
  Variable fastloop : bool.
  Variable iend : Z.          (* end of the source block inside the single memory *)
  Variable oend : Z.          (* dstCapacity *)

  Local Notation RD := (rd_src iend).
  Local Notation WR := (wr oend).

  (* safe_literal_copy (non-partial), source = current memory *)
  Definition a_safe_lit (s : dstate) (token length : Z) : dout :=
    let i := ip s in let o := op s in
    let cpy := o + length in
    let after (s' : dstate) : dout :=
      let offset := readLE16 (dm s') (ip s') in
      copy_match_lbl false NoDict (dm s') iend oend 0 0 empty 0
                     (mkD (ip s' + 2) (op s') (dm s') (ok s' && RD (ip s') 2)) offset (token mod 16) in
    if (cpy >? oend - MFLIMIT) || (i + length >? iend - (2 + 1 + LASTLITERALS)) then
      if negb (i + length =? iend) || (cpy >? oend) then Err s else
      (* LZ4_memmove(op, ip, length) *)
      Done (mkD (i + length) (o + length) (blit (dm s) i (dm s) o (Z.to_nat length))
                (ok s && RD i length && WR o length))
    else
      (* LZ4_wildCopy8(op, ip, cpy) inside the one memory *)
      after (mkD (i + length) cpy (wild8 (dm s) o i cpy)
                 (ok s && RD i (wild8_len o cpy) && WR o (wild8_len o cpy))).

  (* one iteration of the safe loop *)
  Definition a_safe_top (s : dstate) : dout :=
    let token := get (dm s) (ip s) in
    let k := ok s && RD (ip s) 1 in
    let i := ip s + 1 in
    let o := op s in
    let length := token / 16 in
    if negb (length =? RUN_MASK) && ((i <? shortiend iend) && (o <=? shortoend oend)) then
      let m := blit (dm s) i (dm s) o 16 in
      let k := k && RD i 16 && WR o 16 in
      let o := o + length in let i := i + length in
      let ml := token mod 16 in
      let offset := readLE16 m i in               (* loaded after the 16-byte store *)
      let k := k && RD i 2 in
      let i := i + 2 in
      let mat := o - offset in
      if negb (ml =? ML_MASK) && (offset >=? 8) && (is_prefix64k NoDict || (mat >=? 0)) then
        Cont false (mkD i (o + ml + MINMATCH) (copy18 m o mat) (k && WR o 18 && rd_dst oend 0 mat 18))
      else copy_match_lbl false NoDict m iend oend 0 0 empty 0 (mkD i o m k) offset ml
    else if length =? RUN_MASK then
      match rvl (dm s) iend i (iend - RUN_MASK) true k with
      | (None, p, k) => Err (mkD p o (dm s) k)
      | (Some addl, p, k) => a_safe_lit (mkD p o (dm s) k) token (length + addl)
      end
    else a_safe_lit (mkD i o (dm s) k) token length.

  (* one iteration of the fast loop *)
  Definition a_fast_top (s : dstate) : dout :=
    let token := get (dm s) (ip s) in
    let k := ok s && RD (ip s) 1 in
    let i := ip s + 1 in
    let o := op s in
    let length := token / 16 in
    if length =? RUN_MASK then
      match rvl (dm s) iend i (iend - RUN_MASK) true k with
      | (None, p, k) => Err (mkD p o (dm s) k)
      | (Some addl, p, k) =>
        let length := length + addl in
        if (o + length >? oend - 32) || (p + length >? iend - 32) then
          a_safe_lit (mkD p o (dm s) k) token length
        else
          (* LZ4_wildCopy32(op, ip, op+length) inside the one memory *)
          let m1 := wild32 (dm s) o p (o + length) in
          fast_offset false NoDict m1 iend oend 0 0 empty 0
                      (mkD (p + length) (o + length) m1
                           (k && RD p (wild32_len o (o + length)) && WR o (wild32_len o (o + length)))) token
      end
    else if i <=? iend - (16 + 1) then
      let m1 := blit (dm s) i (dm s) o 16 in
      fast_offset false NoDict m1 iend oend 0 0 empty 0
                  (mkD (i + length) (o + length) m1 (k && RD i 16 && WR o 16)) token
    else a_safe_lit (mkD i o (dm s) k) token length.

  Variable pos : Z.           (* start of the source block inside the single memory *)

  Fixpoint a_run (fuel : nat) (fast : bool) (s : dstate) : Z * dstate :=
    match fuel with
    | O => (-1, mkD (ip s) (op s) (dm s) false)       (* out of fuel: flagged, excluded by theorem *)
    | S f =>
      match (if fast then a_fast_top s else a_safe_top s) with
      | Cont fast' s' => a_run f fast' s'
      | Done s' => (op s', s')
      | Err s' => (- (ip s' - pos) - 1, s')
      end
    end.
End Inplace.

(* LZ4_decompress_safe(buf + pos, buf, srcSize, cap) on the single memory m0:
   (return value, final memory, all accesses inside [0, pos + srcSize) resp. [0, cap)) *)
Definition decompress_safe_inplace (fastloop : bool) (pos srcSize cap : Z) (m0 : mem) : Z * mem * bool :=
  let iend := pos + srcSize in
  if cap <? 0 then (-1, m0, true) else
  if cap =? 0 then
    if srcSize =? 1 then ((if get m0 pos / 2 ^ ML_BITS =? 0 then 0 else -1), m0, true)
    else (-1, m0, true)
  else if srcSize =? 0 then (-1, m0, true) else
  let fast := fastloop && negb (cap <? FASTLOOP_SAFE_DISTANCE) in
  let '(r, s) := a_run iend cap pos (Z.to_nat srcSize + 2) fast (mkD pos 0 m0 true) in
  (r, dm s, ok s).
