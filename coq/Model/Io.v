(* Executable model of the decode-side control flow of programs/lz4io.c (and of the
   tail of the compression functions) over an abstract world:

     input   = the bytes of the source + whether fseek works on it (file vs pipe)
     faults  = an oracle deciding the outcome of fopen/fread/fwrite/fseek/fclose/remove
     result  = exit status, bytes accepted by the destination, trace of system calls.

   One Gallina function per C function:
     fread/fwrite            stdio on the source / destination under the fault oracle
     skip_stream             skipStream()
     fseek_u32               fseek_u32()
     legacy_loop/legacy      LZ4IO_decodeLegacyStream()   (ST and MT differ in one exit code)
     lz4f_st                 LZ4IO_decompressLZ4F(), single-thread variant
     lz4f_mt, mt_frames      LZ4IO_decompressLZ4F(), multi-thread variant (reads the input to EOF)
     pass_through            LZ4IO_passThrough()
     select_decoder          selectDecoder()               (g_magicRead, nbFrames are state)
     frames_loop, decompress_src   LZ4IO_decompressSrcFile()
     decompress_dst          LZ4IO_decompressDstFile()     (close check -> 36, then --rm)
     decompress_multi        LZ4IO_decompressMultipleFilenames() + the exit status of main()
     compress_file           tail of LZ4IO_compressFilename_extRess_ST/_MT and of
                             LZ4IO_compressLegacy_internal (read all, write, close, --rm)
   END_PROCESS(code) = [Die code]: the process exits at once, no further event.

   The library decoders are section variables:
     fdec  : LZ4F_decompress run over a byte string that starts with the LZ4 magic number
             -> Some (content, bytes after the frame) | None   (Spec.FrameSpec.frame_decode)
     bdec  : LZ4_decompress_safe of one legacy block            (Spec.BlockSpec.spec_decode [])
     comp  : the compressor (any function)
   Abstractions (each is an observable-preserving simplification, see DESIGN notes in the report):
     - the ST LZ4F loop reads exactly the bytes of the frame (LZ4F's hints never exceed the frame);
       its chunking into several fread/fwrite calls is collapsed into one ERead / one EWrite;
     - skipStream's 16 KB chunks and the MT reader's 4 MB chunks are collapsed into one read;
     - read/write faults are position based (the stream delivers/accepts at most N bytes, then
       fails for good), which is chunking independent; open/close/remove/seek faults are per call;
     - sparse writing is not modelled (--no-sparse); worker threads are modelled in program order.
   Fuel: out-of-fuel is [Die FUEL] with FUEL = -1, which is not an exit status; theorems about
   exit 0 prove it unreachable. *)
From Coq Require Import ZArith List Bool.
From LZ4V Require Import Spec.BlockSpec Spec.FrameSpec Gen.Consts.
Import ListNotations.
Local Open Scope Z_scope.

Definition len {A} (l : list A) : Z := Z.of_nat (length l).
Definition FUEL : Z := -1.

Inductive event :=
| EOpenSrc (ok : bool)
| EOpenDst (ok : bool)
| ERead (want got : Z) (err : bool)
| ESeek (n : Z) (ok : bool)
| EWrite (n : Z) (ok : bool)
| ECloseSrc
| ECloseDst (ok : bool)          (* fclose(dst), or fflush(stdout) *)
| ERemoveSrc (ok : bool).

Record faults := mkFaults {
  f_open_src : bool;             (* fopen(src) fails *)
  f_open_dst : bool;             (* fopen(dst) fails *)
  f_rlimit : option Z;           (* the source delivers at most that many bytes, then read error *)
  f_wlimit : option Z;           (* the destination accepts at most that many bytes, then write error *)
  f_seek : nat -> bool;          (* the k-th fseek fails although the input is seekable *)
  f_close_dst : bool;            (* fclose/fflush of the destination fails *)
  f_remove : bool }.             (* remove(src) fails *)

Definition no_faults : faults := mkFaults false false None None (fun _ => false) false false.

Record st := mkSt {
  s_in : list byte;              (* unread rest of the source *)
  s_rpos : Z;                    (* position of the source stream *)
  s_rerr : bool;                 (* ferror(src) *)
  s_nseek : nat;                 (* fseek calls so far *)
  s_out : list byte;             (* bytes accepted by the destination *)
  s_wpos : Z;
  s_tr : list event;             (* most recent first *)
  s_magic : Z;                   (* g_magicRead (0 = none) *)
  s_nbFrames : Z;                (* static nbFrames of selectDecoder *)
  s_pasteof : bool }.            (* a successful fseek went beyond the end of the input *)

Definition st_init (input : list byte) (nbFrames : Z) : st :=
  mkSt input 0 false 0 [] 0 [] 0 nbFrames false.

Definition ev (e : event) (s : st) : st :=
  mkSt (s_in s) (s_rpos s) (s_rerr s) (s_nseek s) (s_out s) (s_wpos s) (e :: s_tr s) (s_magic s) (s_nbFrames s) (s_pasteof s).
Definition set_magic (m : Z) (s : st) : st :=
  mkSt (s_in s) (s_rpos s) (s_rerr s) (s_nseek s) (s_out s) (s_wpos s) (s_tr s) m (s_nbFrames s) (s_pasteof s).
Definition set_nb (n : Z) (s : st) : st :=
  mkSt (s_in s) (s_rpos s) (s_rerr s) (s_nseek s) (s_out s) (s_wpos s) (s_tr s) (s_magic s) n (s_pasteof s).

Inductive res (A : Type) :=
| Ret (a : A) (s : st)
| Die (code : Z) (s : st).
Arguments Ret {A} a s.
Arguments Die {A} code s.

(* ------------------------------------------------------------------ stdio under the fault oracle *)
(* deliver [n] bytes (all there is when fewer remain), no fault *)
Definition read_plain (n : Z) (s : st) : list byte * st :=
  let got := firstn (Z.to_nat n) (s_in s) in
  (got, mkSt (skipn (Z.to_nat n) (s_in s)) (s_rpos s + len got) (s_rerr s) (s_nseek s) (s_out s) (s_wpos s)
             (ERead n (len got) false :: s_tr s) (s_magic s) (s_nbFrames s) (s_pasteof s)).

Definition fread (fl : faults) (n : Z) (s : st) : list byte * st :=
  match f_rlimit fl with
  | None => read_plain n s
  | Some lim =>
    let room := lim - s_rpos s in
    if room <=? 0 then
      ([], mkSt (s_in s) (s_rpos s) true (s_nseek s) (s_out s) (s_wpos s)
                (ERead n 0 true :: s_tr s) (s_magic s) (s_nbFrames s) (s_pasteof s))
    else if room <? n then
      let got := firstn (Z.to_nat room) (s_in s) in
      let err := len got =? room in
      (got, mkSt (skipn (Z.to_nat room) (s_in s)) (s_rpos s + len got) (s_rerr s || err) (s_nseek s) (s_out s) (s_wpos s)
                 (ERead n (len got) err :: s_tr s) (s_magic s) (s_nbFrames s) (s_pasteof s))
    else read_plain n s
  end.

Definition fwrite (fl : faults) (data : list byte) (s : st) : bool * st :=
  let n := len data in
  let full := (true, mkSt (s_in s) (s_rpos s) (s_rerr s) (s_nseek s) (s_out s ++ data) (s_wpos s + n)
                          (EWrite n true :: s_tr s) (s_magic s) (s_nbFrames s) (s_pasteof s)) in
  match f_wlimit fl with
  | None => full
  | Some lim =>
    let room := lim - s_wpos s in
    if room <? n then
      let part := firstn (Z.to_nat room) data in
      (false, mkSt (s_in s) (s_rpos s) (s_rerr s) (s_nseek s) (s_out s ++ part) (s_wpos s + len part)
                   (EWrite n false :: s_tr s) (s_magic s) (s_nbFrames s) (s_pasteof s))
    else full
  end.

(* skipStream(): read and forget [offset] bytes; 0 = ok, 1 = error *)
Definition skip_stream (fl : faults) (offset : Z) (s : st) : Z * st :=
  if offset <=? 0 then (0, s) else
  let (got, s1) := fread fl offset s in
  if len got =? offset then (0, s1) else (1, s1).

(* one fseek(SEEK_CUR, step) on a stream that supports it *)
Definition seek_fwd (step : Z) (s : st) : st :=
  mkSt (skipn (Z.to_nat step) (s_in s)) (s_rpos s + step) (s_rerr s) (S (s_nseek s)) (s_out s) (s_wpos s)
       (ESeek step true :: s_tr s) (s_magic s) (s_nbFrames s) (s_pasteof s || (len (s_in s) <? step)).
Definition seek_fail (step : Z) (s : st) : st :=
  mkSt (s_in s) (s_rpos s) (s_rerr s) (S (s_nseek s)) (s_out s) (s_wpos s)
       (ESeek step false :: s_tr s) (s_magic s) (s_nbFrames s) (s_pasteof s).

(* fseek_u32(fp, offset, SEEK_CUR): steps of at most 2^30; falls back to skipStream when fseek fails *)
Fixpoint fseek_u32 (fuel : nat) (seekable : bool) (fl : faults) (offset : Z) (s : st) : Z * st :=
  match fuel with
  | O => (FUEL, s)
  | S f =>
    if offset <=? 0 then (0, s) else
    let step := if IO_FSEEK_STEPMAX <? offset then IO_FSEEK_STEPMAX else offset in
    if seekable && negb (f_seek fl (s_nseek s))
    then fseek_u32 f seekable fl (offset - step) (seek_fwd step s)
    else skip_stream fl offset (seek_fail step s)
  end.

Section Decoders.
  Variable fdec : list byte -> option (list byte * list byte).
  Variable bdec : list byte -> option (list byte).

  (* ---------------------------------------------------------------- LZ4IO_decodeLegacyStream *)
  Fixpoint legacy_loop (fuel : nat) (mt : bool) (fl : faults) (s : st) : res unit :=
    match fuel with
    | O => Die FUEL s
    | S f =>
      let (hdr, s1) := fread fl IO_LEGACY_BLOCK_HEADER_SIZE s in
      if len hdr =? 0 then Ret tt s1                                   (* nothing to read: completed *)
      else if negb (len hdr =? IO_LEGACY_BLOCK_HEADER_SIZE) then Die (if mt then 61 else 62) s1
      else
        let blockSize := le_val hdr in
        if LZ4IO_LEGACY_BOUND <? blockSize then Ret tt (set_magic blockSize s1)   (* maybe a new stream *)
        else
          let (blk, s2) := fread fl blockSize s1 in
          if negb (len blk =? blockSize) then Die 63 s2
          else match bdec blk with
               | None => Die 64 s2
               | Some c =>
                 if LEGACY_BLOCKSIZE <? len c then Die 64 s2
                 else let (ok, s3) := fwrite fl c s2 in
                      if ok then legacy_loop f mt fl s3 else Die 70 s3
               end
    end.

  Definition legacy (mt : bool) (fl : faults) (s : st) : res unit :=
    match legacy_loop (S (length (s_in s))) mt fl s with
    | Ret _ s1 => if s_rerr s1 then Die 65 s1 else Ret tt s1
    | Die c s1 => Die c s1
    end.

  (* ---------------------------------------------------------------- LZ4IO_decompressLZ4F, ST *)
  (* the magic number has been consumed; the loop reads exactly the rest of the frame *)
  Definition lz4f_st (test : bool) (fl : faults) (s : st) : res unit :=
    match fdec (le_bytes 4 LZ4IO_MAGICNUMBER ++ s_in s) with
    | None =>        (* header error 62 / decompression error 66 / unfinished stream 68 / read error 67 *)
      Die 66 (mkSt [] (s_rpos s + len (s_in s)) (s_rerr s) (s_nseek s) (s_out s) (s_wpos s)
                   (ERead (len (s_in s)) (len (s_in s)) false :: s_tr s) (s_magic s) (s_nbFrames s) (s_pasteof s))
    | Some (c, rest) =>
      let L := len (s_in s) - len rest in
      let crossing := match f_rlimit fl with Some lim => lim - s_rpos s <? L | None => false end in
      if crossing then
        let (_, s1) := fread fl L s in Die 67 s1                      (* read error inside the frame *)
      else
        let s1 := mkSt rest (s_rpos s + L) (s_rerr s) (s_nseek s) (s_out s) (s_wpos s)
                       (ERead L L false :: s_tr s) (s_magic s) (s_nbFrames s) (s_pasteof s) in
        if test then Ret tt s1
        else let (ok, s2) := fwrite fl c s1 in
             if ok then Ret tt s2 else Die 70 s2
    end.

  (* ---------------------------------------------------------------- LZ4IO_decompressLZ4F, MT *)
  (* LZ4F_decompress is fed everything up to EOF: after the first frame it goes on with whatever
     follows - LZ4 frames and skippable frames are handled by the library, anything else is an error *)
  Fixpoint mt_frames (fuel : nat) (fl : faults) (data : list byte) (s : st) : res unit :=
    match fuel with
    | O => Die FUEL s
    | S f =>
      match data with
      | [] => Ret tt s                                                (* lastStatus == 0 *)
      | _ =>
        if len data <? minFHSize then Die 26 s                        (* header incomplete at EOF *)
        else
          let m := le_val (firstn 4 data) in
          if Z.land m LZ4IO_SKIPPABLEMASK =? LZ4IO_SKIPPABLE0 then
            if len data <? 8 then Die 26 s
            else let size := le_val (firstn 4 (skipn 4 data)) in
                 if len data - 8 <? size then Die 26 s                (* still skipping at EOF *)
                 else mt_frames f fl (skipn (Z.to_nat (8 + size)) data) s
          else if m =? LZ4IO_MAGICNUMBER then
            match fdec data with
            | None => Die 34 s                                        (* 34 decompression error / 26 incomplete *)
            | Some (c, rest) =>
              let (ok, s1) := fwrite fl c s in
              if ok then mt_frames f fl rest s1 else Die 70 s1
            end
          else Die 34 s                                               (* frameType_unknown *)
      end
    end.

  Definition lz4f_mt (fl : faults) (s : st) : res unit :=
    let all := s_in s in
    let (got, s1) := fread fl (len all + 1) s in                      (* 4 MB reads until a short one *)
    if s_rerr s1 then Die 26 s1
    else mt_frames (S (length got + 4)) fl (le_bytes 4 LZ4IO_MAGICNUMBER ++ got) s1.

  (* ---------------------------------------------------------------- LZ4IO_passThrough *)
  Definition pass_through (fl : faults) (mn : list byte) (s : st) : res unit :=
    let (ok, s1) := fwrite fl mn s in
    if negb ok then Die 50 s1 else
    let (got, s2) := fread fl (len (s_in s1) + 1) s1 in
    let (ok2, s3) := fwrite fl got s2 in
    if negb ok2 then Die 70 s3
    else if s_rerr s3 then Die 51 s3 else Ret tt s3.

  (* ---------------------------------------------------------------- selectDecoder *)
  Inductive dres := DFrame | DEnd | DErr.     (* decoded size / ENDOFSTREAM / DECODING_ERROR *)

  Definition is_skippable (m : Z) : bool := Z.land m LZ4IO_SKIPPABLEMASK =? LZ4IO_SKIPPABLE0.

  Definition lift (r : res unit) : res dres :=
    match r with Ret _ s => Ret DFrame s | Die c s => Die c s end.

  Definition dispatch (mt test passthru seekable : bool) (fl : faults) (magic : Z) (mn : list byte) (s : st) : res dres :=
    let magic' := if is_skippable magic then LZ4IO_SKIPPABLE0 else magic in
    if magic' =? LZ4IO_MAGICNUMBER then lift (if mt then lz4f_mt fl s else lz4f_st test fl s)
    else if magic' =? LEGACY_MAGICNUMBER then lift (legacy mt fl s)
    else if magic' =? LZ4IO_SKIPPABLE0 then
      let (szb, s1) := fread fl 4 s in
      if negb (len szb =? 4) then Die 42 s1
      else let (e, s2) := fseek_u32 6 seekable fl (le_val szb) s1 in
           if e =? 0 then Ret DFrame s2 else Die (if e =? FUEL then FUEL else 43) s2
    else
      if s_nbFrames s =? 1 then
        if passthru && negb test then lift (pass_through fl mn (set_nb 0 s))
        else Die 44 s
      else Ret DErr s.                                                (* stream followed by undecodable data *)

  Definition select_decoder (mt test passthru seekable : bool) (fl : faults) (s0 : st) : res dres :=
    let s := set_nb (s_nbFrames s0 + 1) s0 in
    if negb (s_magic s =? 0) then
      dispatch mt test passthru seekable fl (s_magic s) [] (set_magic 0 s)
    else
      let (mn, s1) := fread fl MAGICNUMBER_SIZE s in
      if len mn =? 0 then
        if s_rerr s1 then Die 54 s1 else Ret DEnd (set_nb 0 s1)
      else if negb (len mn =? MAGICNUMBER_SIZE) then Die 40 s1
      else dispatch mt test passthru seekable fl (le_val mn) mn s1.

  (* ---------------------------------------------------------------- LZ4IO_decompressSrcFile *)
  Fixpoint frames_loop (fuel : nat) (mt test passthru seekable : bool) (fl : faults) (s : st) : res Z :=
    match fuel with
    | O => Die FUEL s
    | S f =>
      match select_decoder mt test passthru seekable fl s with
      | Die c s1 => Die c s1
      | Ret DEnd s1 => Ret 0 s1
      | Ret DErr s1 => Ret 1 s1
      | Ret DFrame s1 => frames_loop f mt test passthru seekable fl s1
      end
    end.

  Definition decompress_src (mt test passthru seekable : bool) (fl : faults) (s : st) : res Z :=
    if f_open_src fl then Ret 1 (ev (EOpenSrc false) s)
    else
      let s1 := ev (EOpenSrc true) s in
      match frames_loop (2 * length (s_in s) + 3) mt test passthru seekable fl s1 with
      | Die c s2 => Die c s2
      | Ret r s2 => Ret r (ev ECloseSrc s2)
      end.

  (* ---------------------------------------------------------------- LZ4IO_decompressDstFile *)
  Definition close_and_remove (rm : bool) (fl : faults) (r : Z) (s : st) : res Z :=
    if f_close_dst fl then Die 36 (ev (ECloseDst false) s)
    else
      let s1 := ev (ECloseDst true) s in
      if (r =? 0) && rm then
        if f_remove fl then Die 45 (ev (ERemoveSrc false) s1)
        else Ret r (ev (ERemoveSrc true) s1)
      else Ret r s1.

  Definition decompress_dst (mt test passthru seekable rm : bool) (fl : faults) (s : st) : res Z :=
    if f_open_dst fl then Ret 1 (ev (EOpenDst false) s)
    else
      match decompress_src mt test passthru seekable fl (ev (EOpenDst true) s) with
      | Die c s1 => Die c s1
      | Ret r s1 => close_and_remove rm fl r s1
      end.

  (* what the process leaves behind *)
  Record outcome := mkOutcome {
    o_exit : Z;
    o_out : list byte;
    o_trace : list event;        (* in program order *)
    o_removed : bool;
    o_pasteof : bool }.

  Definition removed (tr : list event) : bool :=
    existsb (fun e => match e with ERemoveSrc true => true | _ => false end) tr.

  Definition outcome_of (r : res Z) : outcome :=
    match r with
    | Ret c s => mkOutcome c (s_out s) (rev (s_tr s)) (removed (s_tr s)) (s_pasteof s)
    | Die c s => mkOutcome c (s_out s) (rev (s_tr s)) (removed (s_tr s)) (s_pasteof s)
    end.

  (* `lz4 -d [--rm] src dst`, `lz4 -t src`, `lz4 -dc src` : one source, one destination *)
  Definition decompress_file (mt test passthru seekable rm : bool) (fl : faults) (input : list byte) : outcome :=
    outcome_of (decompress_dst mt test passthru seekable rm fl (st_init input 0)).

  (* ---------------------------------------------------------------- LZ4IO_decompressMultipleFilenames (to files) *)
  (* every file has its own destination; the static nbFrames survives from file to file;
     result = number of failed files; the exit status of main() saturates at 255 *)
  Fixpoint multi_loop (mt test seekable rm : bool) (files : list (faults * list byte)) (nb : Z) (missing : Z)
           (done : list outcome) : Z * list outcome :=
    match files with
    | [] => ((if 255 <? missing then 255 else missing), rev done)
    | (fl, input) :: rest =>
      match decompress_dst mt test false seekable rm fl (st_init input nb) with
      | Die c s => (c, rev (outcome_of (Die c s) :: done))            (* END_PROCESS: the other files are not touched *)
      | Ret r s => multi_loop mt test seekable rm rest (s_nbFrames s) (missing + r) (outcome_of (Ret r s) :: done)
      end
    end.
  Definition decompress_multi (mt test seekable rm : bool) (files : list (faults * list byte)) : Z * list outcome :=
    multi_loop mt test seekable rm files 0 0 [].

  (* ---------------------------------------------------------------- compression tail *)
  (* LZ4IO_compressFilename_extRess_ST / _MT and LZ4IO_compressLegacy_internal: read everything,
     write the compressed form, close both files, then --rm.  [legacy] has no --rm. *)
  Variable comp : list byte -> list byte.
  Definition compress_file (legacy rm : bool) (fl : faults) (input : list byte) : outcome :=
    let s0 := st_init input 0 in
    outcome_of (
      if f_open_src fl then Ret 1 (ev (EOpenSrc false) s0) else
      let s1 := ev (EOpenSrc true) s0 in
      if f_open_dst fl then Ret 1 (ev ECloseSrc (ev (EOpenDst false) s1)) else
      let s2 := ev (EOpenDst true) s1 in
      let (got, s3) := fread fl (len input + 1) s2 in
      if s_rerr s3 then Die (if legacy then 56 else 40) s3 else
      let (ok, s4) := fwrite fl (comp got) s3 in
      if negb ok then Die (if legacy then 38 else 42) s4 else
      let s5 := ev ECloseSrc s4 in
      if f_close_dst fl then Die 36 (ev (ECloseDst false) s5) else
      let s6 := ev (ECloseDst true) s5 in
      if rm && negb legacy then
        if f_remove fl then Die 50 (ev (ERemoveSrc false) s6) else Ret 0 (ev (ERemoveSrc true) s6)
      else Ret 0 s6).
End Decoders.

(* The instances used by the extracted oracle and by the top-level theorems. *)
Definition spec_fdec (bs : list byte) : option (list byte * list byte) := frame_decode spec_decode false [] bs.
Definition spec_bdec (blk : list byte) : option (list byte) := spec_decode [] blk.
