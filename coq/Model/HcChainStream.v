(* Model of the streaming / dictionary layer of lib/lz4hc.c for the lz4hc (hash-chain) strategy, HC compression
   levels 3..9: the same functions as Model.HcMidStream with their `strat != lz4mid` branches:
   LZ4_initStreamHC, LZ4_resetStreamHC(_fast), LZ4_setCompressionLevel (the tables are not touched),
   LZ4_loadDictHC (`if (dictSize >= LZ4HC_HASHSIZE) LZ4HC_Insert(ctx, end-3)`), LZ4_attach_HC_dictionary,
   LZ4HC_setExternalDict (`if (end >= prefixStart + 4) LZ4HC_Insert(ctx, end-3)`), LZ4HC_init_internal with
   LZ4HC_clearTables (hashTable 0, chainTable 0xFFFF), LZ4_compressHC_continue_generic (auto-init, 2 GB reload,
   external-dictionary switch, overlap trimming), LZ4HC_compress_generic with the bookkeeping of
   LZ4HC_compress_generic_dictCtx, LZ4HC_compress_generic_internal around Model.HcChain.hc_compress with
   nbSearches = k_clTable[level] (Model.HcChainApi.cl_params), dirty on failure, re-anchoring after a partial
   fillOutput call, LZ4_compress_HC_continue(_destSize), LZ4_saveDictHC (fixes F17, F18),
   LZ4_compress_HC_extStateHC(_fastReset) on a stream object.

   A context is Model.HcMidStream.hcore with [k_h4] standing for the WHOLE hashTable (LZ4HC_HASHTABLESIZE entries;
   [k_h8] is not used), plus the chainTable.  Everything that does not look at the tables (reset, level, trimming,
   saveDictHC, attach) is literally the lz4mid model's function on that record.

   Level changes: LZ4_setCompressionLevel only stores the level.  Inside levels 3..9 only nbSearches changes and the
   model follows.  A change to another strategy (lz4mid 1-2, lz4opt 10-12) leaves the same tables to a parser with
   another layout: in the C code nothing breaks (every hashTable entry stays an index below the index reached so far
   whoever wrote it, chainTable entries are U16) but the two Coq models keep the tables in different shapes, so such
   histories are OUT OF THIS MODEL (the functions return None; the harness re-imports the C state).
   Also out: the dictionary-context SEARCH at these levels (LZ4HC_searchExtDict, usingDictCtxHc): dictCtx with
   position < 64 KB that is not copied; the model artefact CUndef of Model.HcChain.
   In: no dictCtx; dictCtx detached at position >= 64 KB; dictCtx copied (position == 0, n > 4 KB, both streams
   at non-lz4mid levels) followed by LZ4HC_setExternalDict with its LZ4HC_Insert. *)
From Coq Require Import ZArith List Lia Bool FMapPositive.
From LZ4V Require Import Gen.Consts Spec.BlockSpec Model.Mem Model.Fast Model.FastApi Model.HcEmit Model.HcMid Model.HcMidStream.
From LZ4V Require Import Model.HcChain Model.HcChainApi.
Import ListNotations.
Local Open Scope Z_scope.

(* working context, its chainTable, and the chainTable of the attached dictionary context (read by the copy path) *)
Record cctx := mkCS { cs_hs : hsctx; cs_chain : ctab; cs_dchain : ctab }.
Definition cs_core (c : cctx) : hcore := hs_core (cs_hs c).
Definition ct0 : ctab := mkCT empty 0.            (* MEM_INIT 0 *)
Definition ctFF : ctab := mkCT empty 65535.       (* LZ4HC_clearTables: MEM_INIT(chainTable, 0xFF) *)

Definition cs_init : cctx := mkCS hs_init ct0 ct0.
Definition cs_setLevel (c : cctx) (l : Z) : cctx := mkCS (hs_setLevel (cs_hs c) l) (cs_chain c) (cs_dchain c).
Definition cs_resetStream (l : Z) : cctx := cs_setLevel cs_init l.
Definition cs_resetFast (c : cctx) (l : Z) : cctx :=
  mkCS (hs_resetFast (cs_hs c) l) (if k_dirty (cs_core c) then ct0 else cs_chain c) ct0.

(* hashTable / chainTable / nextToUpdate of a context *)
Definition kc_tabs (k : hcore) (ct : ctab) : htabs := mkHT (k_h4 k) ct (k_ntu k).
Definition kc_with (k : hcore) (t : htabs) : hcore :=
  mkK (t_hash t) (k_h8 k) (k_end k) (k_prefixStart k) (k_dictStart k) (k_dictLimit k) (k_lowLimit k) (t_ntu t) (k_level k) (k_dirty k).

(* LZ4HC_init_internal with LZ4HC_clearTables *)
Definition kc_init_internal (k : hcore) (ct : ctab) (start : Z) : hcore * ctab :=
  (k_init_internal k start, if (k_end k - k_prefixStart k) + k_dictLimit k >? GB1 then ctFF else ct).

(* LZ4HC_Insert(ctx, p), p an address of the current prefix *)
Definition kc_insert (m : mem) (k : hcore) (ct : ctab) (p : Z) : hcore * ctab :=
  let t := insert (k_vrd m k) (k_dictLimit k) (kc_tabs k ct) (k_dictLimit k + (p - k_prefixStart k)) in
  (kc_with k t, t_chain t).

(* LZ4_loadDictHC; None: the level is not a hash-chain level *)
Definition cs_loadDict (m : mem) (c : cctx) (dictionary dictSize : Z) : option (cctx * Z) :=
  let '(dictionary, dictSize) :=
    if dictSize >? K64 then (dictionary + (dictSize - K64), K64) else (dictionary, dictSize) in
  let lvl := k_level (cs_core c) in
  if chain_level lvl then
    let k0 := k_init_internal (with_level k_init lvl) dictionary in
    let k1 := mkK (k_h4 k0) (k_h8 k0) (dictionary + dictSize) (k_prefixStart k0) (k_dictStart k0)
                  (k_dictLimit k0) (k_lowLimit k0) (k_ntu k0) (k_level k0) (k_dirty k0) in
    let '(k2, ct) := if dictSize >=? LZ4HC_HASHSIZE then kc_insert m k1 ct0 (k_end k1 - 3) else (k1, ct0) in
    Some (mkCS (mkHS k2 None) ct ct0, dictSize)
  else None.

(* LZ4_attach_HC_dictionary *)
Definition cs_attach (c : cctx) (d : option cctx) : cctx :=
  match d with
  | Some ds => mkCS (mkHS (cs_core c) (Some (cs_core ds))) (cs_chain c) (cs_chain ds)
  | None => mkCS (mkHS (cs_core c) None) (cs_chain c) ct0
  end.

(* LZ4HC_setExternalDict at a level whose strategy is not lz4mid *)
Definition kc_setExternalDict (m : mem) (k : hcore) (ct : ctab) (newBlock : Z) : hcore * ctab :=
  let '(k1, ct1) := if k_end k >=? k_prefixStart k + 4 then kc_insert m k ct (k_end k - 3) else (k, ct) in
  (k_setExternalDict k1 newBlock, ct1).

(* ---------------------------------------------------------------- LZ4HC_compress_generic *)
Inductive csres := CRes (ret consumed : Z) (out : list Z) (hw : Z) (c : cctx).

(* LZ4HC_compress_generic_internal, strat = lz4hc, dict = noDictCtx (ctx->dictCtx == NULL in every modelled call) *)
Definition kc_generic (m : mem) (k : hcore) (ct : ctab) (src n cap : Z) (lim : outdir) : option csres :=
  if (match lim with FillOutput => cap <? 1 | _ => false end) then Some (CRes 0 n [] 0 (mkCS (mkHS k None) ct ct0))
  else if u32 n >? LZ4_MAX_INPUT_SIZE then Some (CRes 0 n [] 0 (mkCS (mkHS k None) ct ct0))
  else
    let s0 := k_dictLimit k + (k_end k - k_prefixStart k) in
    let e' := k_end k + n in
    let nb := snd (cl_params (k_level k)) in
    let fin (t : htabs) (dirty : bool) : hcore :=
      mkK (t_hash t) (k_h8 k) e' (k_prefixStart k) (k_dictStart k) (k_dictLimit k) (k_lowLimit k) (t_ntu t) (k_level k) dirty in
    match hc_compress (k_vrd m k) (k_dictLimit k) (k_lowLimit k) lim s0 n cap nb (kc_tabs k ct) with
    | CFail t hw => Some (CRes 0 n [] hw (mkCS (mkHS (fin t true) None) (t_chain t) ct0))
    | CUndef => None
    | COk ret consumed out t hw =>
      let k1 := fin t (if ret <=? 0 then true else k_dirty k) in
      match lim with
      | FillOutput =>
        if (0 <? ret) && (consumed <? n)
        then let '(k2, ct2) := kc_init_internal k1 (t_chain t) (src + consumed) in
             Some (CRes ret consumed out hw (mkCS (mkHS k2 None) ct2 ct0))
        else Some (CRes ret consumed out hw (mkCS (mkHS k1 None) (t_chain t) ct0))
      | _ => Some (CRes ret consumed out hw (mkCS (mkHS k1 None) (t_chain t) ct0))
      end
    end.

(* LZ4HC_compress_generic: dictCtx bookkeeping *)
Definition cs_generic (m : mem) (c : cctx) (src n cap : Z) (lim : outdir) : option csres :=
  let k := cs_core c in
  match hs_dctx (cs_hs c) with
  | None => kc_generic m k (cs_chain c) src n cap lim
  | Some d =>
    let position := (k_end k - k_prefixStart k) + u32 (k_dictLimit k - k_lowLimit k) in
    if position >=? K64 then kc_generic m k (cs_chain c) src n cap lim
    else if (position =? 0) && (n >? 4096) && (Bool.eqb (is_mid (k_level k)) (is_mid (k_level d))) then
      (* memcpy of the dictionary context, LZ4HC_setExternalDict(src) (strategy of the DICTIONARY's level: not lz4mid),
         compressionLevel = cLevel *)
      let '(k', ct') := kc_setExternalDict m d (cs_dchain c) src in
      let k' := mkK (k_h4 k') (k_h8 k') (k_end k') (k_prefixStart k') (k_dictStart k') (k_dictLimit k') (k_lowLimit k') (k_ntu k')
                    (k_level k) (k_dirty k') in
      kc_generic m k' ct' src n cap lim
    else None       (* usingDictCtxHc: LZ4HC_searchExtDict is not modelled *)
  end.

(* ---------------------------------------------------------------- LZ4_compressHC_continue_generic *)
(* the overlap trimming (same text as in Model.HcMidStream.hs_prelude) *)
Definition cs_trim (c : hsctx) (src n : Z) : hsctx :=
  let k := hs_core c in
  let sourceEnd := src + n in
  let dictBegin := k_dictStart k in
  let dictEnd := k_dictStart k + u32 (k_dictLimit k - k_lowLimit k) in
  if (sourceEnd >? dictBegin) && (src <? dictEnd) then
    let sourceEnd := if sourceEnd >? dictEnd then dictEnd else sourceEnd in
    let low := u32 (k_lowLimit k + u32 (sourceEnd - k_dictStart k)) in
    let ds := k_dictStart k + u32 (sourceEnd - k_dictStart k) in
    let '(low, ds) := if u32 (k_dictLimit k - low) <? LZ4HC_HASHSIZE then (k_dictLimit k, k_prefixStart k) else (low, ds) in
    mkHS (mkK (k_h4 k) (k_h8 k) (k_end k) (k_prefixStart k) ds (k_dictLimit k) low (k_ntu k) (k_level k) (k_dirty k)) (hs_dctx c)
  else c.

(* auto-init *)
Definition cs_pre1 (c : cctx) (src : Z) : cctx :=
  if k_prefixStart (cs_core c) =? 0 then
    let '(k, ct) := kc_init_internal (cs_core c) (cs_chain c) src in mkCS (mkHS k (hs_dctx (cs_hs c))) ct (cs_dchain c)
  else c.
(* 2 GB reload *)
Definition cs_pre2 (m : mem) (c : cctx) : option cctx :=
  let k := cs_core c in
  if (k_end k - k_prefixStart k) + k_dictLimit k >? GB2 then
    let ds := k_end k - k_prefixStart k in
    let ds := if ds >? K64 then K64 else ds in
    match cs_loadDict m c (k_end k - ds) ds with Some (c', _) => Some c' | None => None end
  else Some c.
(* external-dictionary switch *)
Definition cs_pre3 (m : mem) (c : cctx) (src : Z) : cctx :=
  if negb (src =? k_end (cs_core c)) then
    let '(k, ct) := kc_setExternalDict m (cs_core c) (cs_chain c) src in mkCS (mkHS k None) ct ct0
  else c.
Definition cs_prelude (m : mem) (c : cctx) (src n : Z) : option cctx :=
  match cs_pre2 m (cs_pre1 c src) with
  | Some c2 => let c3 := cs_pre3 m c2 src in Some (mkCS (cs_trim (cs_hs c3) src n) (cs_chain c3) (cs_dchain c3))
  | None => None
  end.

Definition cs_continue_generic (m : mem) (c : cctx) (src n cap : Z) (lim : outdir) : option csres :=
  if chain_level (k_level (cs_core c)) then
    match cs_prelude m c src n with
    | Some c1 => cs_generic m c1 src n cap lim
    | None => None
    end
  else None.

Definition cs_continue (m : mem) (c : cctx) (src n cap : Z) : option csres :=
  cs_continue_generic m c src n cap (if cap <? compressBound n then LimitedOutput else NotLimited).
Definition cs_continue_destSize (m : mem) (c : cctx) (src n target : Z) : option csres :=
  cs_continue_generic m c src n target FillOutput.

(* LZ4_compress_HC_extStateHC_fastReset on a stream object *)
Definition cs_fastReset (m : mem) (c : cctx) (src n cap level : Z) : option csres :=
  let c1 := cs_resetFast c level in
  if chain_level (k_level (cs_core c1)) then
    let '(k, ct) := kc_init_internal (cs_core c1) (cs_chain c1) src in
    cs_generic m (mkCS (mkHS k (hs_dctx (cs_hs c1))) ct (cs_dchain c1)) src n cap (if cap <? compressBound n then LimitedOutput else NotLimited)
  else None.
Definition cs_extState (m : mem) (src n cap level : Z) : option csres := cs_fastReset m cs_init src n cap level.

(* LZ4_saveDictHC: nothing table-specific *)
Definition cs_saveDict (m : mem) (c : cctx) (safeBuffer dictSize : Z) : mem * cctx * Z :=
  let '(m', h', r) := hs_saveDict m (cs_hs c) safeBuffer dictSize in
  (m', mkCS h' (cs_chain c) (match hs_dctx h' with Some _ => cs_dchain c | None => ct0 end), r).

(* ---------------------------------------------------------------- operation lists *)
Inductive cop :=
| CWrite (a : Z) (bs : list Z)
| CInit
| CResetStream (level : Z)
| CResetFast (level : Z)
| CSetLevel (level : Z)
| CLoadDict (a n : Z)
| CAttach (d : option cctx)
| CContinue (src n cap : Z)
| CContinueDestSize (src n target : Z)
| CSaveDict (a n : Z)
| CFastReset (src n cap level : Z)
| CExtState (src n cap level : Z).

Definition of_cres (m : mem) (r : option csres) : option ((mem * cctx) * (Z * list Z * Z)) :=
  match r with
  | Some (CRes ret consumed out hw c) => Some ((m, c), (ret, out, consumed))
  | None => None
  end.
(* one step; None = the call leaves the model (see the header) *)
Definition cstep (st : mem * cctx) (o : cop) : option ((mem * cctx) * (Z * list Z * Z)) :=
  let '(m, c) := st in
  match o with
  | CWrite a bs => Some ((store_list m a bs, c), (0, [], 0))
  | CInit => Some ((m, cs_init), (0, [], 0))
  | CResetStream l => Some ((m, cs_resetStream l), (0, [], 0))
  | CResetFast l => Some ((m, cs_resetFast c l), (0, [], 0))
  | CSetLevel l => Some ((m, cs_setLevel c l), (0, [], 0))
  | CLoadDict a n => match cs_loadDict m c a n with Some (c', r) => Some ((m, c'), (r, [], 0)) | None => None end
  | CAttach d => Some ((m, cs_attach c d), (0, [], 0))
  | CContinue src n cap => of_cres m (cs_continue m c src n cap)
  | CContinueDestSize src n target => of_cres m (cs_continue_destSize m c src n target)
  | CSaveDict a n => let '(m', c', r) := cs_saveDict m c a n in Some ((m', c'), (r, [], 0))
  | CFastReset src n cap l => of_cres m (cs_fastReset m c src n cap l)
  | CExtState src n cap l => of_cres m (cs_extState m src n cap l)
  end.
