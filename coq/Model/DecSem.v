(* The output that the block specification's sequence semantics define for an ARBITRARY byte
   string (used to state what a partial decode of arbitrary input must be a prefix of): the
   parsed sequences are executed in order with Spec.read_len / Spec.apply_seq for as long as
   the input provides them; a literal run cut short by the end of the input contributes the
   literals that are present.  No implementation detail of lib/lz4.c enters here. *)
From Coq Require Import ZArith List Lia Bool.
From LZ4V Require Import Spec.BlockSpec.
Import ListNotations.
Local Open Scope Z_scope.

(* output (most recent byte first, history included) of the sequences the input provides *)
Fixpoint sem (fuel : nat) (rout bs : list Z) : list Z :=
  match fuel with
  | O => rout
  | S f =>
    match bs with
    | [] => rout
    | tok :: r =>
      match read_len (tok / 16) r with
      | None => rout
      | Some (ll, r1) =>
        let rout1 := rev (firstn (Z.to_nat ll) r1) ++ rout in
        match skipn (Z.to_nat ll) r1 with
        | o1 :: o2 :: r3 =>
          match read_len (tok mod 16) r3 with
          | None => rout1
          | Some (ml, r4) =>
            match apply_seq rout (mkSeq (firstn (Z.to_nat ll) r1) (o1 + 256 * o2) (ml + 4)) with
            | Some rout2 => sem f rout2 r4
            | None => rout1
            end
          end
        | _ => rout1
        end
      end
    end
  end.


(* what the sequence semantics define for an arbitrary input after the history [hist] *)
Definition specified_output (hist B : list Z) : list Z :=
  skipn (length hist) (rev (sem (S (length B)) (rev hist) B)).

