(* Model of LZ4_decompress_unsafe_generic (lib/lz4.c:1870-1966), the core of the
   deprecated LZ4_decompress_fast* entry points, and of those entry points
   (lz4.c:2476-2483, 2554-2561, 2680-2720, 2758-2766).

   The C function does not know the size of the input and trusts it: it has NO defence
   against malformed blocks.  Every memory access of the model is nevertheless
   accompanied by a range test against the buffers the caller really owns (source
   [0,srcSize), destination [0,oend) for writes, prefix+destination [-prefixSize,oend)
   for reads, dictionary [0,dictSize)) folded into the sticky flag [ok]; the theorems
   about this model are for specification-VALID blocks only and include [ok = true].

   Addresses as in Model.Dec: source bytes at [0,..) of [srcm]; destination at [0,oend)
   of the working memory, the prefix just below at [-prefixSize,0); external dictionary
   at [0,dictSize) of [dictm].  Source and destination are separate memories, so
   LZ4_memmove(op, ip, ll) is a plain copy. *)
From Coq Require Import ZArith List Lia Bool.
From LZ4V Require Import Gen.Consts Model.Mem Model.Dec Model.DecApi Model.DecStream.
Import ListNotations.
Local Open Scope Z_scope.

Inductive uout :=
| UCont (s : dstate)      (* next sequence *)
| UDone (s : dstate)      (* end of block: return ip - istart *)
| UFail (s : dstate).     (* return -1 *)

Section Unsafe.
  Variable srcm : mem.
  Variable srcSize : Z.       (* real extent of the source buffer: used by the flag only *)
  Variable oend : Z.          (* decompressedSize *)
  Variable prefixSize : Z.    (* prefixStart = ostart - prefixSize *)
  Variable dictm : mem.
  Variable dictSize : Z.

  Definition urd_src (a n : Z) : bool := (n <=? 0) || ((0 <=? a) && (a + n <=? srcSize)).
  Definition uwr (a n : Z) : bool := (n <=? 0) || ((0 <=? a) && (a + n <=? oend)).
  Definition urd_dst (a n : Z) : bool := (n <=? 0) || ((- prefixSize <=? a) && (a + n <=? oend)).
  Definition urd_dict (a n : Z) : bool := (n <=? 0) || ((0 <=? a) && (a + n <=? dictSize)).

  (* read_long_length_no_check: (length, new ip, flag) *)
  Fixpoint rll_loop (fuel : nat) (p l : Z) (k : bool) : Z * Z * bool :=
    match fuel with
    | O => (l, p, false)
    | S f =>
      let b := get srcm p in
      let k := k && urd_src p 1 in
      if b =? 255 then rll_loop f (p + 1) (l + b) k else (l + b, p + 1, k)
    end.
  Definition rll (p : Z) (k : bool) : Z * Z * bool := rll_loop (Z.to_nat srcSize + 1) p 0 k.

  (* one iteration of `while (1)` *)
  Definition unsafe_top (s : dstate) : uout :=
    let token := get srcm (ip s) in
    let k := ok s && urd_src (ip s) 1 in
    let i := ip s + 1 in
    let o := op s in
    let '(ll, i, k) := if token / 16 =? 15 then (let '(l, p, k') := rll i k in (15 + l, p, k'))
                       else (token / 16, i, k) in
    if oend - o <? ll then UFail (mkD i o (dm s) k) else
    let m := blit srcm i (dm s) o (Z.to_nat ll) in
    let k := k && urd_src i ll && uwr o ll in
    let o := o + ll in
    let i := i + ll in
    if oend - o <? MFLIMIT then
      (if o =? oend then UDone (mkD i o m k) else UFail (mkD i o m k))
    else
    let offset := readLE16 srcm i in
    let k := k && urd_src i 2 in
    let i := i + 2 in
    let '(ml, i, k) := if token mod 16 =? 15 then (let '(l, p, k') := rll i k in (15 + l, p, k'))
                       else (token mod 16, i, k) in
    let ml := ml + MINMATCH in
    if oend - o <? ml then UFail (mkD i o m k) else
    if offset >? o + prefixSize + dictSize then UFail (mkD i o m k) else
    let '(m, o, mat, ml, k) :=
      if offset >? o + prefixSize then
        (* the match starts in the external dictionary *)
        let extml := offset - (o + prefixSize) in
        let ea := dictSize - extml in
        if extml >? ml then
          (blit dictm ea m o (Z.to_nat ml), o + ml, - prefixSize, 0, k && urd_dict ea ml && uwr o ml)
        else
          (blit dictm ea m o (Z.to_nat extml), o + extml, - prefixSize, ml - extml, k && urd_dict ea extml && uwr o extml)
      else (m, o, o - offset, ml, k) in
    (* `for (u=0; u<ml; u++) op[u] = match[u];` *)
    let m := copy_fwd m o mat (Z.to_nat ml) in
    let k := k && uwr o ml && urd_dst mat ml in
    let o := o + ml in
    if oend - o <? LASTLITERALS then UFail (mkD i o m k) else UCont (mkD i o m k).

  Fixpoint urun (fuel : nat) (s : dstate) : Z * dstate :=
    match fuel with
    | O => (-1, mkD (ip s) (op s) (dm s) false)        (* out of fuel: flagged, excluded by theorem *)
    | S f =>
      match unsafe_top s with
      | UCont s' => urun f s'
      | UDone s' => (ip s', s')
      | UFail s' => (-1, s')
      end
    end.

  (* LZ4_decompress_unsafe_generic: (return value, final memory, all accesses in bounds) *)
  Definition unsafe_generic (m0 : mem) : Z * mem * bool :=
    let '(r, s) := urun (Z.to_nat srcSize + 2) (mkD 0 0 m0 true) in (r, dm s, ok s).
End Unsafe.

(* ---- the deprecated entry points ---- *)
Definition decompress_fast (srcm : mem) (srcSize originalSize : Z) (m0 : mem) :=
  unsafe_generic srcm srcSize originalSize 0 empty 0 m0.

(* LZ4_decompress_fast_usingDict.  PPrefix: the dictionary bytes are in m0 at [-dictSize,0);
   PExt: in dictm at [0,dictSize). *)
Definition decompress_fast_usingDict (srcm : mem) (srcSize originalSize : Z)
           (pl : placement) (dictm : mem) (dictSize : Z) (m0 : mem) :=
  if dictSize =? 0 then unsafe_generic srcm srcSize originalSize dictSize empty 0 m0
  else match pl with
       | PPrefix => unsafe_generic srcm srcSize originalSize dictSize empty 0 m0
       | PExt => unsafe_generic srcm srcSize originalSize 0 dictm dictSize m0
       end.

(* LZ4_decompress_fast_continue over the arena of Model.DecStream: (result, arena, state, flag).
   Nothing bounds the part of the prefix / dictionary a valid block may reference except the
   16-bit offset, so the last 65536 bytes are transferred into the working memories (as in
   Model.DecStream). *)
Definition decompress_fast_continue (am : mem) (st : sdstate) (srcm : mem) (srcSize dest originalSize : Z)
  : Z * mem * sdstate * bool :=
  if sd_prefixSize st =? 0 then
    let '(r, m, k) := decompress_fast srcm srcSize originalSize (work am dest originalSize 0) in
    let am' := writeback am dest originalSize m in
    if r <=? 0 then (r, am', st, k)
    else (r, am', mkSD (sd_externalDict st) (dest + originalSize) (sd_extDictSize st) originalSize, k)
  else if sd_prefixEnd st =? dest then
    let ps := sd_prefixSize st in
    let '(r, m, k) :=
      unsafe_generic srcm srcSize originalSize ps (dictview am (sd_externalDict st) (sd_extDictSize st))
                     (sd_extDictSize st) (work am dest originalSize ps) in
    let am' := writeback am dest originalSize m in
    if r <=? 0 then (r, am', st, k)
    else (r, am', mkSD (sd_externalDict st) (sd_prefixEnd st + originalSize) (sd_extDictSize st) (ps + originalSize), k)
  else
    let eds := sd_prefixSize st in
    let ed := sd_prefixEnd st - eds in
    let st1 := mkSD ed (sd_prefixEnd st) eds (sd_prefixSize st) in
    let '(r, m, k) :=
      unsafe_generic srcm srcSize originalSize 0 (dictview am ed eds) eds (work am dest originalSize 0) in
    let am' := writeback am dest originalSize m in
    if (r <=? 0) || (originalSize =? 0) then (r, am', st1, k)         (* empty block: history stays where it is (fix F19) *)
    else (r, am', mkSD ed (dest + originalSize) eds originalSize, k).
