(* Model of the option handling of the lz4 CLI that matters for compression:
   LZ4IO_setBlockSizeID, LZ4IO_setBlockSize (programs/lz4io.c), the command switches of
   main() (programs/lz4cli.c) for the modelled options, and the LZ4F_preferences_t that
   LZ4IO_createCResources / LZ4IO_compressFilename_extRess_{ST,MT} derive from them.
   No proofs here (Proofs/CliProofs.v). *)
From Coq Require Import ZArith List Bool.
From LZ4V Require Import Gen.Consts.
Import ListNotations.
Local Open Scope Z_scope.

(* LZ4IO_prefs_t, fields used on the compression side *)
Record io_prefs := mkIo {
  io_blockSizeId : Z; io_blockSize : Z; io_blockChecksum : Z; io_streamChecksum : Z;
  io_blockIndependence : Z; io_contentSizeFlag : Z; io_favorDecSpeed : Z; io_useDictionary : Z }.

(* LZ4IO_defaultPreferences() *)
Definition default_io_prefs : io_prefs :=
  mkIo CLI_IO_BLOCKSIZEID_DEFAULT 0 CLI_DEFAULT_BLOCK_CHECKSUM CLI_DEFAULT_STREAM_CHECKSUM
       CLI_DEFAULT_BLOCK_INDEPENDENCE CLI_DEFAULT_CONTENT_SIZE CLI_DEFAULT_FAVOR_DECSPEED 0.

Definition with_block (p : io_prefs) (id sz : Z) : io_prefs :=
  mkIo id sz (io_blockChecksum p) (io_streamChecksum p) (io_blockIndependence p)
       (io_contentSizeFlag p) (io_favorDecSpeed p) (io_useDictionary p).

(* static const size_t blockSizeTable[] = { 64 KB, 256 KB, 1 MB, 4 MB }; *)
Definition block_size_table (id : Z) : Z :=
  if id =? 4 then CLI_BSID4_SIZE else if id =? 5 then CLI_BSID5_SIZE
  else if id =? 6 then CLI_BSID6_SIZE else CLI_BSID7_SIZE.

(* size_t LZ4IO_setBlockSizeID(prefs, bsid) : (return value, prefs) *)
Definition set_block_size_id (p : io_prefs) (bsid : Z) : Z * io_prefs :=
  if (bsid <? CLI_BSID_MIN) || (bsid >? CLI_BSID_MAX) then (0, p)
  else let sz := block_size_table bsid in (sz, with_block p bsid sz).

(* while (blockSize >>= 2) bsid++;      None = out of fuel (excluded by the theorems) *)
Fixpoint shift_loop (fuel : nat) (x bsid : Z) : option Z :=
  match fuel with
  | O => None
  | S f => let x' := Z.shiftr x 2 in
           if x' =? 0 then Some bsid else shift_loop f x' (bsid + 1)
  end.

(* size_t LZ4IO_setBlockSize(prefs, blockSize) : (return value, prefs) *)
Definition set_block_size (p : io_prefs) (blockSize : Z) : option (Z * io_prefs) :=
  let bs1 := if blockSize <? CLI_MIN_BLOCKSIZE then CLI_MIN_BLOCKSIZE else blockSize in
  let bs2 := if bs1 >? CLI_MAX_BLOCKSIZE then CLI_MAX_BLOCKSIZE else bs1 in
  match shift_loop 64 (bs2 - 1) 0 with
  | None => None
  | Some bsid =>
    let bsid' := if bsid <? 7 then 7 else bsid in
    Some (bs2, with_block p (bsid' - 3) bs2)
  end.

(* ---------------- command switches (lz4cli.c main), modelled subset ---------------- *)
Inductive arg :=
| A_level (n : Z)              (* -#  : cLevel = # *)
| A_fast (n : option Z)        (* --fast[=#] *)
| A_best                       (* --best *)
| A_B (n : Z)                  (* -B# : 4..7 block size ID, >= 32 custom block size *)
| A_BD | A_BI | A_BX
| A_content_size | A_no_content_size
| A_frame_crc | A_no_frame_crc | A_no_crc
| A_favor_decSpeed
| A_legacy                     (* -l *)
| A_dict.                      (* -D file *)

Record cli_state := mkCli { c_level : Z; c_legacy : bool; c_prefs : io_prefs }.

Definition set_prefs (s : cli_state) (p : io_prefs) : cli_state := mkCli (c_level s) (c_legacy s) p.
Definition upd (p : io_prefs) (bc sc bi cs fd ud : Z) : io_prefs :=
  mkIo (io_blockSizeId p) (io_blockSize p) bc sc bi cs fd ud.

(* state of main() before the first argument: cLevel = LZ4_CLEVEL_DEFAULT (no LZ4_CLEVEL in the
   environment), prefs = defaults, then LZ4IO_setBlockSizeID(prefs, LZ4_BLOCKSIZEID_DEFAULT) *)
Definition cli_init : cli_state :=
  mkCli CLI_CLEVEL_DEFAULT false (snd (set_block_size_id default_io_prefs CLI_BLOCKSIZEID_DEFAULT)).

Definition sint32 (x : Z) : Z := let y := x mod 4294967296 in if y <? 2147483648 then y else y - 4294967296.

(* one switch; None = badusage() (exit 1) *)
Definition parse_arg (s : cli_state) (a : arg) : option cli_state :=
  let p := c_prefs s in
  match a with
  | A_level n => Some (mkCli (sint32 n) (c_legacy s) p)
  | A_fast None => Some (mkCli (-1) (c_legacy s) p)
  | A_fast (Some n) => if n =? 0 then None else Some (mkCli (- sint32 n) (c_legacy s) p)
  | A_best => Some (mkCli CLI_CLEVEL_BEST (c_legacy s) p)
  | A_B b =>
    if b <? 4 then None
    else if b <=? 7 then Some (set_prefs s (snd (set_block_size_id p b)))
    else if b <? 32 then None
    else match set_block_size p b with
         | Some (_, p') => Some (set_prefs s p')
         | None => None
         end
  | A_BD => Some (set_prefs s (upd p (io_blockChecksum p) (io_streamChecksum p) 0 (io_contentSizeFlag p) (io_favorDecSpeed p) (io_useDictionary p)))
  | A_BI => Some (set_prefs s (upd p (io_blockChecksum p) (io_streamChecksum p) 1 (io_contentSizeFlag p) (io_favorDecSpeed p) (io_useDictionary p)))
  | A_BX => Some (set_prefs s (upd p 1 (io_streamChecksum p) (io_blockIndependence p) (io_contentSizeFlag p) (io_favorDecSpeed p) (io_useDictionary p)))
  | A_content_size => Some (set_prefs s (upd p (io_blockChecksum p) (io_streamChecksum p) (io_blockIndependence p) 1 (io_favorDecSpeed p) (io_useDictionary p)))
  | A_no_content_size => Some (set_prefs s (upd p (io_blockChecksum p) (io_streamChecksum p) (io_blockIndependence p) 0 (io_favorDecSpeed p) (io_useDictionary p)))
  | A_frame_crc => Some (set_prefs s (upd p (io_blockChecksum p) 1 (io_blockIndependence p) (io_contentSizeFlag p) (io_favorDecSpeed p) (io_useDictionary p)))
  | A_no_frame_crc => Some (set_prefs s (upd p (io_blockChecksum p) 0 (io_blockIndependence p) (io_contentSizeFlag p) (io_favorDecSpeed p) (io_useDictionary p)))
  | A_no_crc => Some (set_prefs s (upd p 0 0 (io_blockIndependence p) (io_contentSizeFlag p) (io_favorDecSpeed p) (io_useDictionary p)))
  | A_favor_decSpeed => Some (set_prefs s (upd p (io_blockChecksum p) (io_streamChecksum p) (io_blockIndependence p) (io_contentSizeFlag p) 1 (io_useDictionary p)))
  | A_legacy => Some (mkCli (c_level s) true p)
  | A_dict => Some (set_prefs s (upd p (io_blockChecksum p) (io_streamChecksum p) (io_blockIndependence p) (io_contentSizeFlag p) (io_favorDecSpeed p) 1))
  end.

Fixpoint parse_args (s : cli_state) (args : list arg) : option cli_state :=
  match args with
  | [] => Some s
  | a :: r => match parse_arg s a with Some s' => parse_args s' r | None => None end
  end.

(* ---------------- LZ4F_preferences_t handed to the library ---------------- *)
Record lz4f_prefs := mkFp {
  fp_blockMode : Z;            (* LZ4F_blockLinked = 0, LZ4F_blockIndependent = 1 *)
  fp_blockSizeID : Z; fp_blockChecksum : Z; fp_contentChecksum : Z;
  fp_contentSize : Z; fp_level : Z; fp_autoFlush : Z; fp_favorDecSpeed : Z }.

(* LZ4IO_createCResources (preparedPrefs) + the per-file adjustments of
   LZ4IO_compressFilename_extRess_{ST,MT}: compressionLevel, and contentSize = size of the source
   file when --content-size is set (0 when it cannot be determined: stdin on a pipe) *)
Definition prefs_of (s : cli_state) (fileSize : Z) : lz4f_prefs :=
  let p := c_prefs s in
  mkFp (io_blockIndependence p) (io_blockSizeId p) (io_blockChecksum p) (io_streamChecksum p)
       (if io_contentSizeFlag p =? 0 then 0 else fileSize) (c_level s) 1 (io_favorDecSpeed p).
