(* Model of the streaming / dictionary layer of lib/lz4hc.c for the lz4mid strategy (HC compression
   levels 1 and 2), over the same flat caller memory as Model.FastStream (integer addresses, NULL = 0):
   LZ4_initStreamHC, LZ4_resetStreamHC, LZ4_resetStreamHC_fast, LZ4_setCompressionLevel,
   LZ4_loadDictHC (64 KB clamp, full initialisation, LZ4HC_init_internal, LZ4MID_fillHTable),
   LZ4_attach_HC_dictionary, LZ4HC_setExternalDict (lz4mid branch: no LZ4HC_Insert),
   LZ4_compressHC_continue_generic (auto-init, 2 GB reload, external-dictionary switch, overlap
   trimming with the "< LZ4HC_HASHSIZE => invalidate" rule), LZ4HC_compress_generic with the
   bookkeeping of LZ4HC_compress_generic_dictCtx, LZ4HC_compress_generic_internal (noDictCtx) around
   Model.HcMid.mid_compress incl. the re-anchoring after a partial fillOutput call,
   LZ4_compress_HC_continue, LZ4_compress_HC_continue_destSize, LZ4_saveDictHC,
   LZ4_compress_HC_extStateHC_fastReset / LZ4_compress_HC_extStateHC on a stream object.

   A context is the public LZ4HC_CCtx_internal restricted to what the lz4mid paths read and write:
   the two hash tables (halves of hashTable[]), end / prefixStart / dictStart (addresses),
   dictLimit / lowLimit / nextToUpdate (U32, written out with [u32]), compressionLevel, dirty and
   dictCtx (a read-only view of another context; the driver refreshes it before every use).
   chainTable and favorDecSpeed are not read by lz4mid and are not modelled.

   OUT OF THE MODEL (the functions return [None]):
   - any compression or LZ4_loadDictHC while compressionLevel >= 3 (hash-chain / optimal parsers);
   - a compression that reaches the dictionary-context search while the DICTIONARY stream is at a level >= 3
     (LZ4HC_compress_generic_dictCtx third branch with select_searchDict_function = LZ4MID_searchHCDict,
     the cross-strategy search through the dictionary's chain table);
   - the size_t wrap of the fillOutput epilogue flagged by Model.HcMid (MUndef).
   In the model are: no dictCtx; dictCtx with position >= 64 KB (detached); dictCtx copied into the
   working context (first block > 4 KB, both streams at lz4mid levels); the usingDictCtxHc search when the
   dictionary stream is at an lz4mid level (LZ4MID_searchExtDict = Model.HcMidDict.dict_search, with
   gDictEndIndex = lowLimit: the dictionary's prefix sits just below lowLimit in the virtual index space). *)
From Coq Require Import ZArith List Lia Bool FMapPositive.
From LZ4V Require Import Gen.Consts Spec.BlockSpec Model.Mem Model.Fast Model.FastApi Model.HcEmit Model.HcMid Model.HcMidDict.
Import ListNotations.
Local Open Scope Z_scope.

Definition K64 : Z := 65536.
Definition GB1 : Z := 1073741824.
Definition GB2 : Z := 2147483648.

(* LZ4HC_CCtx_internal, lz4mid view *)
Record hcore := mkK {
  k_h4 : mem; k_h8 : mem;
  k_end : Z; k_prefixStart : Z; k_dictStart : Z;        (* addresses, 0 = NULL *)
  k_dictLimit : Z; k_lowLimit : Z; k_ntu : Z;            (* U32 *)
  k_level : Z; k_dirty : bool }.
Record hsctx := mkHS { hs_core : hcore; hs_dctx : option hcore }.

Definition k_zero : hcore := mkK empty empty 0 0 0 0 0 0 0 false.      (* MEM_INIT 0 *)

(* LZ4_setCompressionLevel *)
Definition clamp_level (l : Z) : Z :=
  if l <? 1 then LZ4HC_CLEVEL_DEFAULT else if l >? LZ4HC_CLEVEL_MAX then LZ4HC_CLEVEL_MAX else l.
Definition with_level (k : hcore) (l : Z) : hcore :=
  mkK (k_h4 k) (k_h8 k) (k_end k) (k_prefixStart k) (k_dictStart k) (k_dictLimit k) (k_lowLimit k) (k_ntu k) (clamp_level l) (k_dirty k).
Definition hs_setLevel (c : hsctx) (l : Z) : hsctx := mkHS (with_level (hs_core c) l) (hs_dctx c).
(* k_clTable: levels 0..2 use the lz4mid strategy; a stored level is >= 1 *)
Definition is_mid (l : Z) : bool := l <=? 2.

(* LZ4_initStreamHC: zero, then level = LZ4HC_CLEVEL_DEFAULT *)
Definition k_init : hcore := with_level k_zero LZ4HC_CLEVEL_DEFAULT.
Definition hs_init : hsctx := mkHS k_init None.
(* LZ4_resetStreamHC *)
Definition hs_resetStream (l : Z) : hsctx := hs_setLevel hs_init l.

(* index reached so far: dictLimit + (end - prefixStart) *)
Definition k_endIdx (k : hcore) : Z := k_dictLimit k + (k_end k - k_prefixStart k).

(* LZ4_resetStreamHC_fast *)
Definition hs_resetFast (c : hsctx) (l : Z) : hsctx :=
  let k := hs_core c in
  if k_dirty k then hs_setLevel hs_init l
  else
    hs_setLevel (mkHS (mkK (k_h4 k) (k_h8 k) 0 0 (k_dictStart k)
                           (u32 (k_dictLimit k + u32 (k_end k - k_prefixStart k))) (k_lowLimit k) (k_ntu k) (k_level k) false) None) l.

(* LZ4HC_init_internal *)
Definition k_init_internal (k : hcore) (start : Z) : hcore :=
  let newStartingOffset := (k_end k - k_prefixStart k) + k_dictLimit k in
  let '(h4, h8, off) := if newStartingOffset >? GB1 then (empty, empty, 0) else (k_h4 k, k_h8 k, newStartingOffset) in
  let off := off + K64 in
  mkK h4 h8 start start start (u32 off) (u32 off) (u32 off) (k_level k) (k_dirty k).

(* ---------------------------------------------------------------- LZ4MID_fillHTable *)
Definition loop_count (p e step : Z) : nat := if p <? e then Z.to_nat ((e - p + step - 1) / step) else O.
Section Fill.
  Variable rdi : Z -> Z.          (* byte at INDEX i of the prefix *)
  (* `for (; idx < target; idx += 3) { ADDPOS4(p(idx), idx); ADDPOS8(p(idx+1), idx+1); }`, k iterations *)
  Fixpoint fill_loop1 (k : nat) (h4 h8 : mem) (idx : Z) : mem * mem :=
    match k with
    | O => (h4, h8)
    | S k' => fill_loop1 k' (set h4 (hash4p rdi idx) idx) (set h8 (hash8p rdi (idx + 1)) (idx + 1)) (idx + 3)
    end.
  (* `for (; idx < target; idx += 1) ADDPOS8(p(idx), idx);` *)
  Fixpoint fill_loop2 (k : nat) (h8 : mem) (idx : Z) : mem :=
    match k with
    | O => h8
    | S k' => fill_loop2 k' (set h8 (hash8p rdi idx) idx) (idx + 1)
    end.
End Fill.

Definition k_fillHTable (m : mem) (k : hcore) (dict size : Z) : hcore :=
  let prefixIdx := k_dictLimit k in
  let target := u32 (prefixIdx + u32 size - LZ4MID_HASHSIZE) in
  let idx := k_ntu k in
  if size <=? LZ4MID_HASHSIZE then k else
  let rdi := fun i => get m (dict + (i - prefixIdx)) in
  let '(h4, h8) := fill_loop1 rdi (loop_count idx target 3) (k_h4 k) (k_h8 k) idx in
  let idx2 := if size >? 32768 + LZ4MID_HASHSIZE then u32 (target - 32768) else k_ntu k in
  let h8 := fill_loop2 rdi (loop_count idx2 target 1) h8 idx2 in
  mkK h4 h8 (k_end k) (k_prefixStart k) (k_dictStart k) (k_dictLimit k) (k_lowLimit k) target (k_level k) (k_dirty k).

(* LZ4_loadDictHC; None: level >= 3 (LZ4HC_Insert, not modelled) *)
Definition hs_loadDict (m : mem) (c : hsctx) (dictionary dictSize : Z) : option (hsctx * Z) :=
  let '(dictionary, dictSize) :=
    if dictSize >? K64 then (dictionary + (dictSize - K64), K64) else (dictionary, dictSize) in
  let lvl := k_level (hs_core c) in
  if is_mid (clamp_level lvl) then
    let k0 := k_init_internal (with_level k_init lvl) dictionary in
    let k1 := mkK (k_h4 k0) (k_h8 k0) (dictionary + dictSize) (k_prefixStart k0) (k_dictStart k0)
                  (k_dictLimit k0) (k_lowLimit k0) (k_ntu k0) (k_level k0) (k_dirty k0) in
    Some (mkHS (k_fillHTable m k1 dictionary dictSize) None, dictSize)
  else None.

(* LZ4_attach_HC_dictionary *)
Definition hs_attach (c : hsctx) (d : option hsctx) : hsctx :=
  mkHS (hs_core c) (match d with Some ds => Some (hs_core ds) | None => None end).

(* LZ4HC_setExternalDict, lz4mid: no LZ4HC_Insert *)
Definition k_setExternalDict (k : hcore) (newBlock : Z) : hcore :=
  let dl := u32 (k_dictLimit k + u32 (k_end k - k_prefixStart k)) in
  mkK (k_h4 k) (k_h8 k) newBlock newBlock (k_prefixStart k) dl (k_dictLimit k) dl (k_level k) (k_dirty k).

(* ---------------------------------------------------------------- LZ4HC_compress_generic *)
Inductive hsres := HRes (ret consumed : Z) (out : list Z) (hw : Z) (c : hsctx).

(* virtual index space of a context: the prefix from dictLimit on, the external segment below *)
Definition k_vrd (m : mem) (k : hcore) : Z -> Z :=
  fun i => if i >=? k_dictLimit k then get m (k_prefixStart k + (i - k_dictLimit k))
           else get m (k_dictStart k + (i - k_lowLimit k)).

(* with an attached dictionary context [d] searched in place: dictionary index l is the byte
   `d->prefixStart - d->dictLimit + l` = d->end - (lDictEndIndex - l), i.e. virtual index
   l + lowLimit - lDictEndIndex, which is below lowLimit *)
Definition kd_vrd (m : mem) (k : hcore) (dc : option hcore) : Z -> Z :=
  match dc with
  | None => k_vrd m k
  | Some d => fun i => if i >=? k_lowLimit k then k_vrd m k i else get m (k_end d + (i - k_lowLimit k))
  end.

Definition with_tabs (k : hcore) (h4 h8 : mem) (e : Z) (dirty : bool) : hcore :=
  mkK h4 h8 e (k_prefixStart k) (k_dictStart k) (k_dictLimit k) (k_lowLimit k) (k_ntu k) (k_level k) dirty.

(* LZ4HC_compress_generic_internal, strat = lz4mid; [dc] is what ctx->dictCtx holds: None = noDictCtx,
   Some d = usingDictCtxHc with a dictionary context at an lz4mid level (LZ4MID_searchExtDict) *)
Definition k_generic_mid (m : mem) (k : hcore) (dc : option hcore) (src n cap : Z) (lim : outdir) : option hsres :=
  if (match lim with FillOutput => cap <? 1 | _ => false end) then Some (HRes 0 n [] 0 (mkHS k dc))
  else if u32 n >? LZ4_MAX_INPUT_SIZE then Some (HRes 0 n [] 0 (mkHS k dc))
  else
    let s0 := k_dictLimit k + (k_end k - k_prefixStart k) in
    let e' := k_end k + n in
    let vrd := kd_vrd m k dc in
    let dsrch := match dc with
                 | None => fun _ => None
                 | Some d => dict_search vrd s0 n (k_lowLimit k) (k_h4 d) (k_h8 d) (k_endIdx d)
                 end in
    match mid_compress vrd lim (k_dictLimit k) (k_lowLimit k) s0 n cap dsrch (k_h4 k) (k_h8 k) with
    | MFail h4 h8 hw => Some (HRes 0 n [] hw (mkHS (with_tabs k h4 h8 e' true) dc))
    | MUndef => None
    | MOk ret consumed out h4 h8 hw =>
      let k1 := with_tabs k h4 h8 e' (if ret <=? 0 then true else k_dirty k) in
      match lim with
      | FillOutput =>
        if (0 <? ret) && (consumed <? n)
        then Some (HRes ret consumed out hw (mkHS (k_init_internal k1 (src + consumed)) None))
        else Some (HRes ret consumed out hw (mkHS k1 dc))
      | _ => Some (HRes ret consumed out hw (mkHS k1 dc))
      end
    end.

(* LZ4HC_compress_generic: dictCtx bookkeeping *)
Definition hs_generic (m : mem) (c : hsctx) (src n cap : Z) (lim : outdir) : option hsres :=
  let k := hs_core c in
  match hs_dctx c with
  | None => k_generic_mid m k None src n cap lim
  | Some d =>
    let position := (k_end k - k_prefixStart k) + u32 (k_dictLimit k - k_lowLimit k) in
    if position >=? K64 then k_generic_mid m k None src n cap lim
    else if (position =? 0) && (n >? 4096) && (Bool.eqb (is_mid (k_level k)) (is_mid (k_level d))) then
      (* memcpy of the dictionary context, LZ4HC_setExternalDict(src), compressionLevel = cLevel *)
      let k' := k_setExternalDict d src in
      let k' := mkK (k_h4 k') (k_h8 k') (k_end k') (k_prefixStart k') (k_dictStart k') (k_dictLimit k') (k_lowLimit k') (k_ntu k')
                    (k_level k) (k_dirty k') in
      k_generic_mid m k' None src n cap lim
    else if is_mid (k_level d) then k_generic_mid m k (Some d) src n cap lim    (* usingDictCtxHc, LZ4MID_searchExtDict *)
    else None       (* usingDictCtxHc with LZ4MID_searchHCDict (dictionary at a level >= 3): not modelled *)
  end.

(* ---------------------------------------------------------------- LZ4_compressHC_continue_generic *)
(* everything before LZ4HC_compress_generic: auto-init, 2 GB reload, external-dictionary switch, overlap trimming *)
Definition hs_prelude (m : mem) (c : hsctx) (src n : Z) : option hsctx :=
  let c := if k_prefixStart (hs_core c) =? 0 then mkHS (k_init_internal (hs_core c) src) (hs_dctx c) else c in
  let oc :=
    let k := hs_core c in
    if (k_end k - k_prefixStart k) + k_dictLimit k >? GB2 then
      let ds := k_end k - k_prefixStart k in
      let ds := if ds >? K64 then K64 else ds in
      match hs_loadDict m c (k_end k - ds) ds with Some (c', _) => Some c' | None => None end
    else Some c in
  match oc with
  | None => None
  | Some c =>
    let c := if negb (src =? k_end (hs_core c)) then mkHS (k_setExternalDict (hs_core c) src) None else c in
    let k := hs_core c in
    let sourceEnd := src + n in
    let dictBegin := k_dictStart k in
    let dictEnd := k_dictStart k + u32 (k_dictLimit k - k_lowLimit k) in
    if (sourceEnd >? dictBegin) && (src <? dictEnd) then
      let sourceEnd := if sourceEnd >? dictEnd then dictEnd else sourceEnd in
      let low := u32 (k_lowLimit k + u32 (sourceEnd - k_dictStart k)) in
      let ds := k_dictStart k + u32 (sourceEnd - k_dictStart k) in
      let '(low, ds) := if u32 (k_dictLimit k - low) <? LZ4HC_HASHSIZE then (k_dictLimit k, k_prefixStart k) else (low, ds) in
      Some (mkHS (mkK (k_h4 k) (k_h8 k) (k_end k) (k_prefixStart k) ds (k_dictLimit k) low (k_ntu k) (k_level k) (k_dirty k)) (hs_dctx c))
    else Some c
  end.

Definition hs_continue_generic (m : mem) (c : hsctx) (src n cap : Z) (lim : outdir) : option hsres :=
  if is_mid (k_level (hs_core c)) then
    match hs_prelude m c src n with
    | Some c1 => hs_generic m c1 src n cap lim
    | None => None
    end
  else None.

(* LZ4_compress_HC_continue *)
Definition hs_continue (m : mem) (c : hsctx) (src n cap : Z) : option hsres :=
  hs_continue_generic m c src n cap (if cap <? compressBound n then LimitedOutput else NotLimited).
(* LZ4_compress_HC_continue_destSize *)
Definition hs_continue_destSize (m : mem) (c : hsctx) (src n target : Z) : option hsres :=
  hs_continue_generic m c src n target FillOutput.

(* LZ4_compress_HC_extStateHC_fastReset on a stream object *)
Definition hs_fastReset (m : mem) (c : hsctx) (src n cap level : Z) : option hsres :=
  let c1 := hs_resetFast c level in
  if is_mid (k_level (hs_core c1)) then
    let c2 := mkHS (k_init_internal (hs_core c1) src) (hs_dctx c1) in
    hs_generic m c2 src n cap (if cap <? compressBound n then LimitedOutput else NotLimited)
  else None.
(* LZ4_compress_HC_extStateHC: LZ4_initStreamHC first *)
Definition hs_extState (m : mem) (src n cap level : Z) : option hsres := hs_fastReset m hs_init src n cap level.

(* ---------------------------------------------------------------- LZ4_saveDictHC *)
Definition hs_saveDict (m : mem) (c : hsctx) (safeBuffer dictSize : Z) : mem * hsctx * Z :=
  let k := hs_core c in
  if k_prefixStart k =? 0 then (m, c, 0) else        (* stream not started yet: nothing to save, context left un-anchored (fix F17) *)
  let prefixSize := k_end k - k_prefixStart k in
  let ds := if dictSize >? K64 then K64 else dictSize in
  let ds := if ds <? 4 then 0 else ds in
  let ds := if ds >? prefixSize then prefixSize else ds in
  let m' := if ds >? 0 then blit m (k_end k - ds) m safeBuffer (Z.to_nat ds) else m in
  let endIndex := u32 (u32 (k_end k - k_prefixStart k) + k_dictLimit k) in
  let dl := u32 (endIndex - ds) in
  let k' := mkK (k_h4 k) (k_h8 k) (if safeBuffer =? 0 then 0 else safeBuffer + ds) safeBuffer safeBuffer dl dl
                (if k_ntu k <? dl then dl else k_ntu k) (k_level k) (k_dirty k) in
  (* fix F18: part of the history is dropped => an attached dictionary context is detached *)
  (m', mkHS k' (if ds <? prefixSize then None else hs_dctx c), ds).

(* ---------------------------------------------------------------- operation lists *)
Inductive hop :=
| HWrite (a : Z) (bs : list Z)
| HInit                                           (* LZ4_initStreamHC *)
| HResetStream (level : Z)                        (* LZ4_resetStreamHC *)
| HResetFast (level : Z)                          (* LZ4_resetStreamHC_fast *)
| HSetLevel (level : Z)                           (* LZ4_setCompressionLevel *)
| HLoadDict (a n : Z)                             (* LZ4_loadDictHC *)
| HAttach (d : option hsctx)                      (* LZ4_attach_HC_dictionary *)
| HContinue (src n cap : Z)                       (* LZ4_compress_HC_continue *)
| HContinueDestSize (src n target : Z)            (* LZ4_compress_HC_continue_destSize *)
| HSaveDict (a n : Z)                             (* LZ4_saveDictHC *)
| HFastReset (src n cap level : Z)                (* LZ4_compress_HC_extStateHC_fastReset *)
| HExtState (src n cap level : Z).                (* LZ4_compress_HC_extStateHC *)

(* one step; None = the call leaves the model (see the header) *)
Definition of_res (m : mem) (r : option hsres) : option ((mem * hsctx) * (Z * list Z * Z)) :=
  match r with
  | Some (HRes ret consumed out hw c) => Some ((m, c), (ret, out, consumed))
  | None => None
  end.
Definition hstep (st : mem * hsctx) (o : hop) : option ((mem * hsctx) * (Z * list Z * Z)) :=
  let '(m, c) := st in
  match o with
  | HWrite a bs => Some ((store_list m a bs, c), (0, [], 0))
  | HInit => Some ((m, hs_init), (0, [], 0))
  | HResetStream l => Some ((m, hs_resetStream l), (0, [], 0))
  | HResetFast l => Some ((m, hs_resetFast c l), (0, [], 0))
  | HSetLevel l => Some ((m, hs_setLevel c l), (0, [], 0))
  | HLoadDict a n => match hs_loadDict m c a n with Some (c', r) => Some ((m, c'), (r, [], 0)) | None => None end
  | HAttach d => Some ((m, hs_attach c d), (0, [], 0))
  | HContinue src n cap => of_res m (hs_continue m c src n cap)
  | HContinueDestSize src n target => of_res m (hs_continue_destSize m c src n target)
  | HSaveDict a n => let '(m', c', r) := hs_saveDict m c a n in Some ((m', c'), (r, [], 0))
  | HFastReset src n cap l => of_res m (hs_fastReset m c src n cap l)
  | HExtState src n cap l => of_res m (hs_extState m src n cap l)
  end.
