(* Model of lib/lz4file.c: LZ4F_writeOpen / LZ4F_write / LZ4F_writeClose and
   LZ4F_readOpen / LZ4F_read / LZ4F_readClose over an abstract FILE (the bytes
   written so far; the bytes not yet read).  The LZ4F streaming compressor and
   decompressor that lz4file.c calls are parameters of the model (Section
   variables): what is modelled here is the logic of lz4file.c itself - the
   splitting of every LZ4F_write into chunks of maxWriteSize, the sizing of the
   destination buffer with LZ4F_compressBound, the initial read of
   LZ4F_HEADER_SIZE_MAX bytes in LZ4F_readOpen, the carry-over of the bytes that
   follow the frame header, and the refill/decode loop of LZ4F_read.

   FILE: fwrite appends and never fails, fread(n) returns min(n, remaining)
   bytes (no I/O errors, no NULL arguments, malloc succeeds). *)
From Coq Require Import ZArith List Bool.
From LZ4V Require Import Gen.Consts Spec.BlockSpec Model.FrameCSizes.
Import ListNotations.
Local Open Scope Z_scope.

Inductive fres (A : Type) := FOk (a : A) | FErr (code : Z) | FOutOfFuel.
Arguments FOk {A} a.
Arguments FErr {A} code.
Arguments FOutOfFuel {A}.

(* result of one LZ4F_decompress call: hint, bytes consumed, bytes produced *)
Inductive dres := DOk (hint : Z) (consumed : nat) (out : list byte) | DErr (code : Z).

(* the switch on blockSizeID of LZ4F_writeOpen / LZ4F_readOpen *)
Definition bufsize_of_bsid (id : Z) : option nat :=
  if (id =? C10_bsid_default) || (id =? C10_bsid_64KB) then Some (Z.to_nat (64 * 1024))
  else if id =? C10_bsid_256KB then Some (Z.to_nat (256 * 1024))
  else if id =? C10_bsid_1MB then Some (Z.to_nat (1 * 1024 * 1024))
  else if id =? C10_bsid_4MB then Some (Z.to_nat (4 * 1024 * 1024))
  else None.

Definition HEADER_MAX : nat := Z.to_nat LZ4F_HEADER_SIZE_MAX.
Definition OPEN_MIN : nat := Z.to_nat (LZ4F_HEADER_SIZE_MIN + C10_ENDMARK_SIZE).

Section FileModel.
  (* ---- the LZ4F compressor (lz4frame.c), abstract ---- *)
  Variable cst : Type.
  Variable cst0 : cst.                                             (* LZ4F_createCompressionContext *)
  Variable cBegin : cst -> option prefs -> Z -> fres (list byte) * cst.    (* ctx, prefs, dstCapacity *)
  Variable cUpdate : cst -> list byte -> Z -> fres (list byte) * cst.      (* ctx, src, dstCapacity *)
  Variable cEnd : cst -> Z -> fres (list byte) * cst.

  (* ---- the LZ4F decompressor, abstract ---- *)
  Variable dst : Type.
  Variable dst0 : dst.                                             (* LZ4F_createDecompressionContext *)
  (* LZ4F_getFrameInfo(dctx, &info, src, &srcSize): blockSizeID and bytes consumed *)
  Variable dGetFrameInfo : dst -> list byte -> fres (Z * nat) * dst.
  (* LZ4F_decompress(dctx, dst, &dstSize, src, &srcSize, NULL) *)
  Variable dDecompress : dst -> list byte -> nat -> dres * dst.

  (* ============================ write API ============================ *)
  Record wfile := mkW {
    w_c : cst; w_maxWrite : nat; w_dstMax : Z;
    w_err : option Z              (* errCode: None = LZ4F_OK_NoError *)
  }.

  (* LZ4F_writeOpen: (result, file contents) *)
  Definition writeOpen (file : list byte) (po : option prefs) : fres wfile * list byte :=
    match (match po with
           | Some p => bufsize_of_bsid (p_bsid p)
           | None => Some (Z.to_nat (64 * 1024))
           end) with
    | None => (FErr C10_ERR_maxBlockSize_invalid, file)
    | Some maxWrite =>
      let dstMax := compressBound (Z.of_nat maxWrite) po in
      match cBegin cst0 po LZ4F_HEADER_SIZE_MAX with
      | (FOk hdr, c) => (FOk (mkW c maxWrite dstMax None), file ++ hdr)
      | (FErr e, _) => (FErr e, file)
      | (FOutOfFuel, _) => (FOutOfFuel, file)
      end
    end.

  (* while (remain) { chunk = min(remain, maxWriteSize); compressUpdate; fwrite } *)
  Fixpoint write_loop (fuel : nat) (w : wfile) (file : list byte) (p : list byte)
    : fres unit * wfile * list byte :=
    match p with
    | [] => (FOk tt, w, file)
    | _ =>
      match fuel with
      | O => (FOutOfFuel, w, file)
      | S f =>
        let chunk := if Nat.ltb (w_maxWrite w) (length p) then w_maxWrite w else length p in
        match cUpdate (w_c w) (firstn chunk p) (w_dstMax w) with
        | (FOk o, c) => write_loop f (mkW c (w_maxWrite w) (w_dstMax w) (w_err w)) (file ++ o) (skipn chunk p)
        | (FErr e, c) => (FErr e, mkW c (w_maxWrite w) (w_dstMax w) (Some e), file)
        | (FOutOfFuel, c) => (FOutOfFuel, w, file)
        end
      end
    end.

  (* LZ4F_write: returns size *)
  Definition fwrite_lz4 (w : wfile) (file : list byte) (buf : list byte) : fres nat * wfile * list byte :=
    let '(r, w', file') := write_loop (length buf) w file buf in
    match r with
    | FOk _ => (FOk (length buf), w', file')
    | FErr e => (FErr e, w', file')
    | FOutOfFuel => (FOutOfFuel, w', file')
    end.

  (* LZ4F_writeClose: returns what LZ4F_compressEnd returned (LZ4F_OK_NoError = 0 if an
     earlier LZ4F_write had failed) *)
  Definition writeClose (w : wfile) (file : list byte) : fres nat * list byte :=
    match w_err w with
    | None =>
      match cEnd (w_c w) (w_dstMax w) with
      | (FOk tail, _) => (FOk (length tail), file ++ tail)
      | (FErr e, _) => (FErr e, file)
      | (FOutOfFuel, _) => (FOutOfFuel, file)
      end
    | Some _ => (FOk O, file)
    end.

  (* a whole write session on an empty file: results of the LZ4F_write calls, the file *)
  Fixpoint write_all (w : wfile) (file : list byte) (bufs : list (list byte))
    : list (fres nat) * wfile * list byte :=
    match bufs with
    | [] => ([], w, file)
    | b :: r =>
      let '(x, w1, f1) := fwrite_lz4 w file b in
      let '(xs, w2, f2) := write_all w1 f1 r in
      (x :: xs, w2, f2)
    end.

  Definition write_session (po : option prefs) (bufs : list (list byte))
    : fres (list (fres nat)) * list byte :=
    match writeOpen [] po with
    | (FOk w, f0) =>
      let '(xs, w1, f1) := write_all w f0 bufs in
      match writeClose w1 f1 with
      | (FOk _, f2) => (FOk xs, f2)
      | (FErr e, f2) => (FErr e, f2)
      | (FOutOfFuel, f2) => (FOutOfFuel, f2)
      end
    | (FErr e, f0) => (FErr e, f0)
    | (FOutOfFuel, f0) => (FOutOfFuel, f0)
    end.

  (* ============================ read API ============================ *)
  Record rfile := mkR {
    r_d : dst;
    r_rest : list byte;     (* bytes of the FILE not yet fread *)
    r_buf : list byte;      (* srcBuf[srcBufNext .. srcBufSize) : read ahead, not yet consumed *)
    r_max : nat             (* srcBufMaxSize *)
  }.

  (* LZ4F_readOpen.  [fixed = true]: srcBufSize = loadedSize - consumedSize (current code).
     [fixed = false]: srcBufSize = sizeof(buf) - consumedSize (the code before the repair of
     defect F7): the bytes of buf beyond what fread returned are uninitialised stack
     memory, represented by the adversarial argument [junk]. *)
  Definition readOpen (fixed : bool) (junk : list byte) (file : list byte) : fres rfile :=
    let buf := firstn HEADER_MAX file in
    let loaded := length buf in
    if Nat.ltb loaded OPEN_MIN then FErr C10_ERR_io_read
    else
      match dGetFrameInfo dst0 buf with
      | (FOk (bsid, consumed), d) =>
        match bufsize_of_bsid bsid with
        | None => FErr C10_ERR_maxBlockSize_invalid
        | Some maxSize =>
          let carried :=
            if fixed then skipn consumed buf
            else skipn consumed (firstn HEADER_MAX (buf ++ junk)) in
          FOk (mkR d (skipn HEADER_MAX file) carried maxSize)
        end
      | (FErr e, _) => FErr e
      | (FOutOfFuel, _) => FOutOfFuel
      end.

  (* if (srcsize == 0) { fread(srcBuf, 1, srcBufMaxSize, fp) } : None = fread returned 0 *)
  Definition refill (r : rfile) : option rfile :=
    match r_buf r with
    | [] =>
      match firstn (r_max r) (r_rest r) with
      | [] => None
      | got => Some (mkR (r_d r) (skipn (r_max r) (r_rest r)) got (r_max r))
      end
    | _ => Some r
    end.

  (* while (next < size) { refill if the read-ahead is empty; LZ4F_decompress } *)
  Fixpoint read_loop (fuel : nat) (r : rfile) (size : nat) (acc : list byte)
    : fres (list byte) * rfile :=
    if Nat.ltb (length acc) size then
      match fuel with
      | O => (FOutOfFuel, r)
      | S f =>
        match refill r with
        | None => (FOk acc, r)                                     (* break *)
        | Some r1 =>
          match dDecompress (r_d r1) (r_buf r1) (size - length acc) with
          | (DOk _ consumed out, d) =>
            read_loop f (mkR d (r_rest r1) (skipn consumed (r_buf r1)) (r_max r1)) size (acc ++ out)
          | (DErr e, d) => (FErr e, mkR d (r_rest r1) (r_buf r1) (r_max r1))
          end
        end
      end
    else (FOk acc, r).

  (* LZ4F_read(lz4fRead, buf, size): the bytes delivered (their number is the return value) *)
  Definition fread_lz4 (r : rfile) (size : nat) : fres (list byte) * rfile :=
    read_loop (length (r_rest r) + length (r_buf r) + size + 1) r size [].

  Fixpoint read_all (r : rfile) (sizes : list nat) : list (fres (list byte)) :=
    match sizes with
    | [] => []
    | s :: rest => let '(x, r1) := fread_lz4 r s in x :: read_all r1 rest
    end.

  Definition read_session (fixed : bool) (junk : list byte) (file : list byte) (sizes : list nat)
    : fres (list (fres (list byte))) :=
    match readOpen fixed junk file with
    | FOk r => FOk (read_all r sizes)
    | FErr e => FErr e
    | FOutOfFuel => FOutOfFuel
    end.
End FileModel.
