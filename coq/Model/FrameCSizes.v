(* Size-only executable model of the LZ4F streaming compressor (lib/lz4frame.c):
   which capacity checks are made, how much is buffered, which blocks are
   emitted and how many bytes each call writes.  One Gallina function per C
   function, same decisions in the same order.

   Not modelled: the bytes themselves.  The stored size of a block produced by
   LZ4F_makeBlock from [len] content bytes is  BHSize + s + BFSize*blockChecksum
   where, in compressed mode, [s] may be ANY value in [1, len] (the block is
   stored raw, s = len, whenever the block compressor does not shrink it); [s]
   is read from a tape (one entry per compressed block, clamped into [1, len];
   an exhausted tape means "incompressible").  In uncompressed mode s = len.
   Besides the number of bytes written ([o_ret]) every call reports [o_ext],
   the highest destination offset it may touch: LZ4F_makeBlock needs
   BHSize + len + BFSize*crc bytes of room at its output position whatever the
   final stored size (lz4frame.c, "assumption : dst buffer capacity is >=
   BHSize + srcSize + crcSize": the block compressor is given len-1 bytes and the
   raw fallback copies len bytes).

   Numbers are unbounded Z: size_t wrap-around and the (unsigned) cast of
   nbFullBlocks in LZ4F_compressBound_internal are not modelled (they are the
   identity for srcSize < 2^32 * 64 KB).  malloc is assumed to succeed.
   A blockSizeID outside {0,4,5,6,7} makes LZ4F_getBlockSize return an error code
   that LZ4F_compressBegin stores as the block size: such preferences are
   flagged [OutOfModel] and excluded by the theorems. *)
From Coq Require Import ZArith List Bool.
From LZ4V Require Import Gen.Consts.
Import ListNotations.
Local Open Scope Z_scope.

Definition bz (b : bool) : Z := if b then 1 else 0.

(* ---------------------------------------------------------------- preferences *)
(* the fields of LZ4F_preferences_t that influence sizes *)
Record prefs := mkPrefs {
  p_bsid : Z;        (* frameInfo.blockSizeID *)
  p_linked : bool;   (* frameInfo.blockMode == LZ4F_blockLinked *)
  p_cchk : bool;     (* frameInfo.contentChecksumFlag (0/1) *)
  p_csize : Z;       (* frameInfo.contentSize, 0 = not present *)
  p_dictid : Z;      (* frameInfo.dictID, 0 = not present *)
  p_bchk : bool;     (* frameInfo.blockChecksumFlag (0/1) *)
  p_af : bool        (* autoFlush != 0 *)
}.
Definition set_bsid (p : prefs) (id : Z) : prefs :=
  mkPrefs id (p_linked p) (p_cchk p) (p_csize p) (p_dictid p) (p_bchk p) (p_af p).
Definition set_af (p : prefs) (af : bool) : prefs :=
  mkPrefs (p_bsid p) (p_linked p) (p_cchk p) (p_csize p) (p_dictid p) (p_bchk p) af.
Definition set_csize (p : prefs) (n : Z) : prefs :=
  mkPrefs (p_bsid p) (p_linked p) (p_cchk p) n (p_dictid p) (p_bchk p) (p_af p).
Definition set_linked (p : prefs) (l : bool) : prefs :=
  mkPrefs (p_bsid p) l (p_cchk p) (p_csize p) (p_dictid p) (p_bchk p) (p_af p).

(* MEM_INIT(&prefs, 0, sizeof(prefs)) : blockSizeID 0, blockMode 0 = LZ4F_blockLinked *)
Definition prefs_zero : prefs := mkPrefs 0 (C10_blockLinked =? 0) false 0 0 false false.
(* LZ4F_INIT_PREFERENCES *)
Definition prefs_init : prefs := mkPrefs LZ4F_max64KB true false 0 0 false false.
(* prefsNull of LZ4F_compressBound_internal: worst case checksums *)
Definition prefs_null_bound : prefs := mkPrefs LZ4F_max64KB true true 0 0 true false.

Definition SIZE_MAX : Z := 2 ^ (8 * C10_SIZEOF_SIZE_T) - 1.

(* LZ4F_getBlockSize; for an invalid ID the C function returns the error code
   -(LZ4F_ERROR_maxBlockSize_invalid) as a size_t *)
Definition blockSizes : list Z := [LZ4F_blockSize_4; LZ4F_blockSize_5; LZ4F_blockSize_6; LZ4F_blockSize_7].
Definition bsid_in_range (id : Z) : bool := (LZ4F_max64KB <=? id) && (id <=? LZ4F_max4MB).
Definition getBlockSize (id : Z) : Z :=
  let id := if id =? 0 then LZ4F_BLOCKSIZEID_DEFAULT else id in
  if negb (bsid_in_range id) then SIZE_MAX + 1 - C10_ERR_maxBlockSize_invalid
  else nth (Z.to_nat (id - LZ4F_max64KB)) blockSizes 0.
(* IDs for which LZ4F_getBlockSize succeeds *)
Definition valid_bsid0 (id : Z) : bool := (id =? 0) || bsid_in_range id.

(* LZ4F_compressBound_internal (lz4frame.c:379) *)
Definition compressBound_internal (srcSize : Z) (po : option prefs) (alreadyBuffered : Z) : Z :=
  let p := match po with None => prefs_null_bound | Some p => p end in
  let flush := p_af p || (srcSize =? 0) in
  let blockSize := getBlockSize (p_bsid p) in
  let maxBuffered := blockSize - 1 in
  let bufferedSize := Z.min alreadyBuffered maxBuffered in
  let maxSrcSize := srcSize + bufferedSize in
  let nbFullBlocks := maxSrcSize / blockSize in
  let partialBlockSize := Z.land maxSrcSize (blockSize - 1) in
  let lastBlockSize := if flush then partialBlockSize else 0 in
  let nbBlocks := nbFullBlocks + (if 0 <? lastBlockSize then 1 else 0) in
  let blockCRCSize := BFSize * bz (p_bchk p) in
  let frameEnd := BHSize + bz (p_cchk p) * BFSize in
  (BHSize + blockCRCSize) * nbBlocks + blockSize * nbFullBlocks + lastBlockSize + frameEnd.

(* LZ4F_compressBound (lz4frame.c:867) *)
Definition compressBound (srcSize : Z) (po : option prefs) : Z :=
  match po with
  | Some p => if p_af p then compressBound_internal srcSize po 0
              else compressBound_internal srcSize po SIZE_MAX
  | None => compressBound_internal srcSize po SIZE_MAX
  end.

(* LZ4F_compressFrameBound (lz4frame.c:406) *)
Definition compressFrameBound (srcSize : Z) (po : option prefs) : Z :=
  let p := match po with None => prefs_zero | Some p => p end in
  let p := set_af p true in
  maxFHSize + compressBound_internal srcSize (Some p) 0.

(* ---------------------------------------------------------------- context *)
Record cctx := mkCctx {
  c_prefs : prefs;
  c_stage : Z;          (* cStage: 0 uninitialised, 1 header written *)
  c_maxBlockSize : Z;
  c_tmpInSize : Z;
  c_totalIn : Z;        (* totalInSize *)
  c_unc : bool          (* blockCompressMode == LZ4B_UNCOMPRESSED *)
}.
(* LZ4F_createCompressionContext: calloc'ed *)
Definition cctx0 : cctx := mkCctx prefs_zero C10_initial_cStage 0 0 0 (C10_LZ4B_UNCOMPRESSED =? 0).

Definition set_tmpIn (c : cctx) (t : Z) : cctx :=
  mkCctx (c_prefs c) (c_stage c) (c_maxBlockSize c) t (c_totalIn c) (c_unc c).
Definition set_unc (c : cctx) (u : bool) : cctx :=
  mkCctx (c_prefs c) (c_stage c) (c_maxBlockSize c) (c_tmpInSize c) (c_totalIn c) u.
Definition set_stage (c : cctx) (s : Z) : cctx :=
  mkCctx (c_prefs c) s (c_maxBlockSize c) (c_tmpInSize c) (c_totalIn c) (c_unc c).

(* ---------------------------------------------------------------- results *)
Inductive ret := Ok (n : Z) | Err (code : Z) | OutOfModel.
Record out := mkOut {
  o_ret : ret;
  o_ext : Z;                 (* highest destination offset the call may have touched *)
  o_blocks : list (Z * Z)    (* blocks emitted, in order: (content length, stored size) *)
}.

(* write cursor inside dstBuffer *)
Record wr := mkWr { w_pos : Z; w_ext : Z; w_log : list (Z * Z); w_tape : list Z }.
Definition wr0 (tape : list Z) : wr := mkWr 0 0 [] tape.
Definition out_of (r : ret) (w : wr) : out := mkOut r (w_ext w) (rev (w_log w)).

(* stored size of a block of [len] content bytes *)
Definition stored_size (unc : bool) (len : Z) (tape : list Z) : Z * list Z :=
  if unc then (len, tape)                         (* LZ4F_doNotCompressBlock returns 0 *)
  else match tape with
       | [] => (len, [])
       | s :: t => (Z.max 1 (Z.min len s), t)      (* cSize == 0 || cSize >= srcSize : raw *)
       end.

(* LZ4F_makeBlock (lz4frame.c:884) *)
Definition makeBlock (unc crc : bool) (len : Z) (w : wr) : wr :=
  let '(s, t) := stored_size unc len (w_tape w) in
  mkWr (w_pos w + (BHSize + s + bz crc * BFSize))
       (Z.max (w_ext w) (w_pos w + (BHSize + len + bz crc * BFSize)))
       ((len, s) :: w_log w) t.

Definition write_raw (k : Z) (w : wr) : wr :=
  mkWr (w_pos w + k) (Z.max (w_ext w) (w_pos w + k)) (w_log w) (w_tape w).

Definition E_tooSmall := C10_ERR_dstMaxSize_tooSmall.
Definition E_uninit := C10_ERR_compressionState_uninitialized.

(* LZ4F_flush (lz4frame.c:1155); writes at the start of dstBuffer *)
Definition flush (c : cctx) (cap : Z) (w : wr) : ret * cctx * wr :=
  if c_tmpInSize c =? 0 then (Ok 0, c, w)
  else if negb (c_stage c =? 1) then (Err E_uninit, c, w)
  else if cap <? c_tmpInSize c + BHSize + BFSize then (Err E_tooSmall, c, w)
  else
    let w' := makeBlock (c_unc c) (p_bchk (c_prefs c)) (c_tmpInSize c) w in
    (Ok (w_pos w' - w_pos w), set_tmpIn c 0, w').

(* while ((size_t)(srcEnd - srcPtr) >= blockSize) : compress full blocks *)
Fixpoint full_blocks (fuel : nat) (unc crc : bool) (bs rem : Z) (w : wr) : option (Z * wr) :=
  if bs <=? rem then
    match fuel with
    | O => None
    | S f => full_blocks f unc crc bs (rem - bs) (makeBlock unc crc bs w)
    end
  else Some (rem, w).

(* LZ4F_compressUpdateImpl after the capacity checks and the mode switch *)
Definition update_body (c : cctx) (unc : bool) (n : Z) (w : wr) : option (cctx * wr) :=
  let bs := c_maxBlockSize c in
  let crc := p_bchk (c_prefs c) in
  (* complete tmp buffer *)
  let '(rem, t1, w1) :=
    if 0 <? c_tmpInSize c then
      let sizeToCopy := bs - c_tmpInSize c in
      if n <? sizeToCopy then (0, c_tmpInSize c + n, w)
      else (n - sizeToCopy, 0, makeBlock unc crc bs w)
    else (n, c_tmpInSize c, w) in
  match full_blocks (Z.to_nat (rem / bs)) unc crc bs rem w1 with
  | None => None
  | Some (rem2, w2) =>
    (* autoFlush : remaining input (< blockSize) is compressed *)
    let '(rem3, w3) :=
      if p_af (c_prefs c) && (0 <? rem2) then (0, makeBlock unc crc rem2 w2) else (rem2, w2) in
    (* some input data left, necessarily < blockSize : fill tmp buffer *)
    let t3 := if 0 <? rem3 then rem3 else t1 in
    Some (mkCctx (c_prefs c) (c_stage c) bs t3 (c_totalIn c + n) (c_unc c), w3)
  end.

(* LZ4F_compressUpdateImpl (lz4frame.c:988).  [fixed = true] is the current code;
   [fixed = false] is the code before the repair of defect F1 (result of the flush
   on a mode switch neither forwarded nor deducted from the capacity). *)
Definition updateImpl (fixed : bool) (c : cctx) (unc : bool) (n cap : Z) (tape : list Z)
  : out * cctx * list Z :=
  let w0 := wr0 tape in
  if negb (c_stage c =? 1) then (out_of (Err E_uninit) w0, c, tape)
  else if cap <? compressBound_internal n (Some (c_prefs c)) (c_tmpInSize c)
    then (out_of (Err E_tooSmall) w0, c, tape)
  else if unc && (cap <? n) then (out_of (Err E_tooSmall) w0, c, tape)
  else
    (* flush currently written block, to continue with new block compression *)
    let '(r1, c1, w1) :=
      if Bool.eqb (c_unc c) unc then (Ok 0, c, w0)
      else
        let '(rf, cf, wf) := flush c cap w0 in
        match rf with
        | Ok bytesWritten =>
          let cf' := set_unc cf unc in
          if fixed && (cap - bytesWritten <? compressBound_internal n (Some (c_prefs c)) 0)
          then (Err E_tooSmall, cf', wf) else (Ok bytesWritten, cf', wf)
        | Err e => if fixed then (Err e, cf, wf)
                   else (OutOfModel, cf, wf)   (* old code: dstPtr += error code *)
        | OutOfModel => (OutOfModel, cf, wf)
        end in
    match r1 with
    | Ok _ =>
      match update_body c1 unc n w1 with
      | None => (out_of OutOfModel w1, c1, w_tape w1)     (* out of fuel: flagged *)
      | Some (c2, w2) => (out_of (Ok (w_pos w2)) w2, c2, w_tape w2)
      end
    | r => (out_of r w1, c1, w_tape w1)
    end.

(* size of the frame header written by LZ4F_compressBegin_internal:
   magic, FLG, BD, optional content size, optional dictID, header checksum *)
Definition header_size (p : prefs) : Z :=
  4 + 1 + 1 + (if p_csize p =? 0 then 0 else 8) + (if p_dictid p =? 0 then 0 else 4) + 1.

(* LZ4F_compressBegin_internal (lz4frame.c:689), no dictionary *)
Definition compressBegin (c : cctx) (po : option prefs) (cap : Z) : out * cctx :=
  if cap <? maxFHSize then (mkOut (Err E_tooSmall) 0 [], c)
  else
    let p := match po with None => prefs_init | Some p => p end in
    let p := if p_bsid p =? 0 then set_bsid p LZ4F_BLOCKSIZEID_DEFAULT else p in
    if negb (bsid_in_range (p_bsid p)) then (mkOut OutOfModel 0 [], c)
    else
      let c' := mkCctx p 1 (getBlockSize (p_bsid p)) 0
                       (if p_csize p =? 0 then c_totalIn c else 0) (c_unc c) in
      (mkOut (Ok (header_size p)) (header_size p) [], c').

(* LZ4F_compressEnd (lz4frame.c:1207) *)
Definition compressEnd (c : cctx) (cap : Z) (tape : list Z) : out * cctx * list Z :=
  let '(rf, c1, w1) := flush c cap (wr0 tape) in
  match rf with
  | Ok flushSize =>
    let cap' := cap - flushSize in
    if cap' <? 4 then (out_of (Err E_tooSmall) w1, c1, w_tape w1)
    else
      let w2 := write_raw 4 w1 in   (* endMark *)
      let finish (w : wr) :=
        let c2 := set_stage c1 0 in
        if negb (p_csize (c_prefs c1) =? 0) && negb (p_csize (c_prefs c1) =? c_totalIn c1)
        then (out_of (Err C10_ERR_frameSize_wrong) w, c2, w_tape w)
        else (out_of (Ok (w_pos w)) w, c2, w_tape w) in
      if p_cchk (c_prefs c1) then
        if cap' <? 8 then (out_of (Err E_tooSmall) w2, c1, w_tape w2)
        else finish (write_raw 4 w2)   (* content checksum *)
      else finish w2
  | r => (out_of r w1, c1, w_tape w1)
  end.

(* ---------------------------------------------------------------- sessions *)
Inductive op :=
| OpBegin (po : option prefs) (cap : Z)
| OpUpdate (n cap : Z)
| OpUncompressed (n cap : Z)
| OpFlush (cap : Z)
| OpEnd (cap : Z).

Definition step (fixed : bool) (c : cctx) (tape : list Z) (o : op) : out * cctx * list Z :=
  match o with
  | OpBegin po cap => let '(r, c') := compressBegin c po cap in (r, c', tape)
  | OpUpdate n cap => updateImpl fixed c false n cap tape
  | OpUncompressed n cap => updateImpl fixed c true n cap tape
  | OpFlush cap => let '(r, c', w) := flush c cap (wr0 tape) in (out_of r w, c', w_tape w)
  | OpEnd cap => compressEnd c cap tape
  end.

Fixpoint run (fixed : bool) (c : cctx) (tape : list Z) (ops : list op) : list out * cctx * list Z :=
  match ops with
  | [] => ([], c, tape)
  | o :: r =>
    let '(x, c1, t1) := step fixed c tape o in
    let '(xs, c2, t2) := run fixed c1 t1 r in
    (x :: xs, c2, t2)
  end.

Definition cap_of (o : op) : Z :=
  match o with OpBegin _ cap | OpUpdate _ cap | OpUncompressed _ cap | OpFlush cap | OpEnd cap => cap end.

(* ---------------------------------------------------------------- one-shot *)
(* LZ4F_optimalBSID (lz4frame.c:355) *)
Fixpoint optimalBSID_loop (fuel : nat) (requested proposed maxBlockSize srcSize : Z) : option Z :=
  if proposed <? requested then
    match fuel with
    | O => None
    | S f => if srcSize <=? maxBlockSize then Some proposed
             else optimalBSID_loop f requested (proposed + 1) (maxBlockSize * 4) srcSize
    end
  else Some requested.
Definition optimalBSID (requested srcSize : Z) : option Z :=
  optimalBSID_loop (Z.to_nat requested) requested LZ4F_max64KB C10_64KB srcSize.

(* LZ4F_compressFrame / LZ4F_compressFrame_usingCDict (lz4frame.c:428), cdict = NULL,
   on a zeroed context.  First part: the preferences actually used. *)
Definition frame_prefs (po : option prefs) (n : Z) : option prefs :=
  let p := match po with None => prefs_zero | Some p => p end in
  let p := if p_csize p =? 0 then p else set_csize p n in   (* auto-correct content size if selected *)
  match optimalBSID (p_bsid p) n with
  | None => None
  | Some id =>
    if negb (valid_bsid0 id) then None else
    let p := set_af (set_bsid p id) true in
    (* only one block => no need for inter-block link *)
    Some (if n <=? getBlockSize (p_bsid p) then set_linked p false else p)
  end.

(* second part: capacity check, header, one update, end *)
Definition compressFrame_with (p : prefs) (n cap : Z) (tape : list Z) : out :=
  if cap <? compressFrameBound n (Some p) then mkOut (Err E_tooSmall) 0 []
  else
    let '(o1, c1) := compressBegin cctx0 (Some p) cap in
    match o_ret o1 with
    | Ok headerSize =>
      let '(o2, c2, t2) := updateImpl true c1 false n (cap - headerSize) tape in
      match o_ret o2 with
      | Ok cSize =>
        let '(o3, c3, t3) := compressEnd c2 (cap - headerSize - cSize) t2 in
        let ext := Z.max (o_ext o1) (Z.max (headerSize + o_ext o2) (headerSize + cSize + o_ext o3)) in
        match o_ret o3 with
        | Ok tailSize => mkOut (Ok (headerSize + cSize + tailSize)) ext (o_blocks o2 ++ o_blocks o3)
        | r => mkOut r ext (o_blocks o2 ++ o_blocks o3)
        end
      | r => mkOut r (Z.max (o_ext o1) (headerSize + o_ext o2)) (o_blocks o2)
      end
    | r => mkOut r (o_ext o1) []
    end.

Definition compressFrame (po : option prefs) (n cap : Z) (tape : list Z) : out :=
  match frame_prefs po n with
  | None => mkOut OutOfModel 0 []     (* blockSizeID for which LZ4F_getBlockSize fails *)
  | Some p => compressFrame_with p n cap tape
  end.
