(* Flat byte memories used by the implementation models: a finite map from Z
   addresses to byte values (unwritten cells read as 0), and the copy
   primitives of lz4.c written as the literal chunk loops. *)
From Coq Require Import ZArith List Lia Bool FMapPositive.
Import ListNotations.
Local Open Scope Z_scope.

Definition mem := PositiveMap.t Z.
Definition enc (a : Z) : positive :=
  match a with Z0 => 1%positive | Zpos p => (p~0)%positive | Zneg p => (p~1)%positive end.
Definition get (m : mem) (a : Z) : Z :=
  match PositiveMap.find (enc a) m with Some v => v | None => 0 end.
Definition set (m : mem) (a v : Z) : mem := PositiveMap.add (enc a) v m.
Definition empty : mem := PositiveMap.empty Z.

Lemma enc_inj a b : enc a = enc b -> a = b.
Proof. destruct a, b; simpl; intros H; try discriminate; try reflexivity; inversion H; reflexivity. Qed.
Lemma get_set_same m a v : get (set m a v) a = v.
Proof. unfold get, set. rewrite PositiveMap.gss. reflexivity. Qed.
Lemma get_set_other m a b v : a <> b -> get (set m a v) b = get m b.
Proof.
  intros H. unfold get, set. rewrite PositiveMap.gso; [reflexivity|].
  intros E. apply H. symmetry. apply enc_inj. exact E.
Qed.
Lemma get_set m a b v : get (set m a v) b = if a =? b then v else get m b.
Proof.
  destruct (Z.eqb_spec a b) as [->|H]; [apply get_set_same | apply get_set_other; exact H].
Qed.

Fixpoint store_list (m : mem) (a : Z) (l : list Z) : mem :=
  match l with [] => m | b :: r => store_list (set m a b) (a + 1) r end.
Fixpoint load_list (m : mem) (a : Z) (n : nat) : list Z :=
  match n with O => [] | S n' => get m a :: load_list m (a + 1) n' end.
Definition mem_of_list (a : Z) (l : list Z) : mem := store_list empty a l.

(* ---- copy primitives ---- *)
(* memcpy/memmove between two memories (or of a fixed small size inside one):
   load everything, then store. *)
Definition blit (sm : mem) (s : Z) (m : mem) (d : Z) (n : nat) : mem :=
  store_list m d (load_list sm s n).
Definition memcpy_k (m : mem) (d s : Z) (k : nat) : mem := blit m s m d k.

(* `while (n--) *d++ = *s++;` *)
Fixpoint copy_fwd (m : mem) (d s : Z) (n : nat) : mem :=
  match n with O => m | S n' => copy_fwd (set m d (get m s)) (d + 1) (s + 1) n' end.

(* number of iterations of `do { ... d += chunk; } while (d < e)` *)
Definition wild_iters (chunk d e : Z) : nat := Z.to_nat (Z.max 1 ((e - d + chunk - 1) / chunk)).

(* LZ4_wildCopy8 inside one memory *)
Fixpoint wild8_it (k : nat) (m : mem) (d s : Z) : mem :=
  match k with O => m | S k' => wild8_it k' (memcpy_k m d s 8) (d + 8) (s + 8) end.
Definition wild8 (m : mem) (d s e : Z) : mem := wild8_it (wild_iters 8 d e) m d s.
(* LZ4_wildCopy32 inside one memory: two 16-byte copies per iteration *)
Fixpoint wild32_it (k : nat) (m : mem) (d s : Z) : mem :=
  match k with
  | O => m
  | S k' => wild32_it k' (memcpy_k (memcpy_k m d s 16) (d + 16) (s + 16) 16) (d + 32) (s + 32)
  end.
Definition wild32 (m : mem) (d s e : Z) : mem := wild32_it (wild_iters 32 d e) m d s.
(* the same copies when the source is another memory (no overlap possible) *)
Definition wild8_in (sm : mem) (s : Z) (m : mem) (d e : Z) : mem :=
  blit sm s m d (8 * wild_iters 8 d e).
Definition wild32_in (sm : mem) (s : Z) (m : mem) (d e : Z) : mem :=
  blit sm s m d (32 * wild_iters 32 d e).
(* bytes written by the wild copies *)
Definition wild8_len (d e : Z) : Z := 8 * Z.of_nat (wild_iters 8 d e).
Definition wild32_len (d e : Z) : Z := 32 * Z.of_nat (wild_iters 32 d e).
