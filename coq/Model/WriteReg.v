(* Model of the write register of programs/lz4io.c (MT compression):
   WriteRegister / BufferDesc, WR_init, WR_addBufDesc, WR_isPresent, WR_getBufID,
   WR_removeBuffID and LZ4IO_checkWriteOrder (lz4io.c:471-635), one Gallina
   function per C function, same scans in the same order.

   Representation.  [wr_buffers] is the C array [wr->buffers]; its length is the C
   field [wr->capacity] (the two are (re)allocated together, the model keeps only
   the list).  A slot is [None] when [buffers[n].buf == NULL] and [Some d] when it
   holds a descriptor ([d_rank] = BufferDesc.rank, [d_data] = the [size] bytes
   that [buf] points to; compressed buffers come from malloc and are never NULL).
   Ranks are C [unsigned long long]; the model uses unbounded Z (no 2^64 wrap: that
   would need 2^64 blocks).

   No proofs in this file (HARNESS.md): see Proofs/WriteRegProofs.v.

   Flags instead of totalising defaults: every function that could leave the
   array (an [assert] or an END_PROCESS in C) returns an [ok] flag; the theorems
   show that the flag stays true. *)
From Coq Require Import ZArith List Bool.
From LZ4V Require Import Gen.Consts.
Import ListNotations.
Local Open Scope Z_scope.

Record desc := mkDesc { d_rank : Z; d_data : list Z }.
Definition slot := option desc.

Record wr_state := mkWR {
  wr_expected : Z;          (* wr->expectedRank *)
  wr_buffers : list slot;   (* wr->buffers[0 .. capacity-1] *)
  wr_total : Z              (* wr->totalCSize *)
}.

Definition wr_capacity (w : wr_state) : Z := Z.of_nat (length (wr_buffers w)).

(* WR_init: calloc'ed array of WR_INITIAL_BUFFER_POOL_SIZE null descriptors *)
Definition WR_init : wr_state :=
  mkWR 0 (repeat None (Z.to_nat WR_INITIAL_BUFFER_POOL_SIZE)) 0.

(* buffers[capacity-1]; [None] = the array is empty (C would read buffers[-1]) *)
Fixpoint last_slot (bs : list slot) : option slot :=
  match bs with
  | [] => None
  | [x] => Some x
  | _ :: t => last_slot t
  end.

(* else-branch of WR_addBufDesc: first slot with buf == NULL receives bd;
   the bool is the C assert(n != wr->capacity) *)
Fixpoint WR_put_first_null (bs : list slot) (bd : desc) : list slot * bool :=
  match bs with
  | [] => ([], false)
  | None :: t => (Some bd :: t, true)
  | Some x :: t => let '(t', ok) := WR_put_first_null t bd in (Some x :: t', ok)
  end.

(* WR_addBufDesc.  When the last slot is occupied the array grows by
   MIN(oldCapacity, 256) null descriptors and bd goes to index oldCapacity. *)
Definition WR_growth_cap : Z := 256.   (* literal in WR_addBufDesc *)
Definition WR_addBufDesc (bs : list slot) (bd : desc) : list slot * bool :=
  match last_slot bs with
  | None => (bs, false)
  | Some (Some _) =>
      let oldCapacity := Z.of_nat (length bs) in
      let addedCapacity := Z.min oldCapacity WR_growth_cap in
      (bs ++ Some bd :: repeat None (Z.to_nat (addedCapacity - 1)), true)
  | Some None => WR_put_first_null bs bd
  end.

(* WR_isPresent: scan until a null descriptor or the rank *)
Fixpoint WR_isPresent (bs : list slot) (id : Z) : bool :=
  match bs with
  | [] => false
  | None :: _ => false
  | Some d :: t => if d_rank d =? id then true else WR_isPresent t id
  end.

(* WR_getBufID: [None] = END_PROCESS(41, "buffer ID not found") *)
Fixpoint WR_getBufID (bs : list slot) (id : Z) : option desc :=
  match bs with
  | [] => None
  | None :: _ => None
  | Some d :: t => if d_rank d =? id then Some d else WR_getBufID t id
  end.

(* second loop of WR_removeBuffID, started at index n+1 where n is the removed
   slot: buffers[n-1] = buffers[n] until a null descriptor has been copied;
   if the loop runs off the end, buffers[capacity-1] = null.
   Argument = slots n+1.. ; result = slots n.. (one longer). *)
Fixpoint WR_shift_down (t : list slot) : list slot :=
  match t with
  | [] => [None]
  | None :: t' => None :: None :: t'
  | Some d :: t' => Some d :: WR_shift_down t'
  end.

(* first loop of WR_removeBuffID; [None] = ran off the end without a match *)
Fixpoint WR_remove_scan (bs : list slot) (id : Z) : option (list slot) :=
  match bs with
  | [] => None
  | None :: _ => Some bs                      (* "no more buffers stored": return *)
  | Some d :: t =>
      if d_rank d =? id then Some (WR_shift_down t)
      else match WR_remove_scan t id with
           | Some t' => Some (Some d :: t')
           | None => None
           end
  end.

Fixpoint set_last_null (bs : list slot) : list slot :=
  match bs with
  | [] => []
  | [_] => [None]
  | x :: t => x :: set_last_null t
  end.

(* WR_removeBuffID.  "Note: requires @id to exist": when it does not and no null
   descriptor stops the scan, the C code leaves the first loop with n = capacity,
   skips the second loop and nulls the last descriptor; the model does the same. *)
Definition WR_removeBuffID (bs : list slot) (id : Z) : list slot :=
  match WR_remove_scan bs id with
  | Some r => r
  | None => set_last_null bs
  end.

(* the while loop of LZ4IO_checkWriteOrder; each turn removes one descriptor, so
   [length buffers + 1] turns always suffice; running out of fuel or a failing
   WR_getBufID clears the flag.  Output = the data handed to LZ4IO_writeBuffer,
   in call order (accumulated in reverse). *)
Fixpoint WR_drain (fuel : nat) (w : wr_state) (acc : list (list Z)) : wr_state * list (list Z) * bool :=
  if WR_isPresent (wr_buffers w) (wr_expected w) then
    match fuel with
    | O => (w, acc, false)
    | S f =>
        match WR_getBufID (wr_buffers w) (wr_expected w) with
        | None => (w, acc, false)
        | Some bd =>
            WR_drain f (mkWR (wr_expected w + 1)
                             (WR_removeBuffID (wr_buffers w) (wr_expected w))
                             (wr_total w + Z.of_nat (length (d_data bd))))
                     (d_data bd :: acc)
        end
    end
  else (w, acc, true).

(* LZ4IO_checkWriteOrder(wjd) with wjd->blockNb = rank, wjd->cBuf/cSize = data.
   Result: new register, data written by this call (in order), ok flag. *)
Definition arrive (w : wr_state) (rank : Z) (data : list Z) : wr_state * list (list Z) * bool :=
  if negb (rank =? wr_expected w) then
    (* incorrect order: store this buffer for a later write *)
    let '(bs, ok) := WR_addBufDesc (wr_buffers w) (mkDesc rank data) in
    (mkWR (wr_expected w) bs (wr_total w), [], ok)
  else
    let w1 := mkWR (wr_expected w + 1) (wr_buffers w) (wr_total w + Z.of_nat (length data)) in
    let '(w2, acc, ok) := WR_drain (S (length (wr_buffers w))) w1 [data] in
    (w2, rev acc, ok).

(* a whole arrival sequence: (state, everything written so far, sticky ok) *)
Fixpoint arrive_all (w : wr_state) (arr : list (Z * list Z)) (out : list (list Z)) (ok : bool)
  : wr_state * list (list Z) * bool :=
  match arr with
  | [] => (w, out, ok)
  | (r, d) :: t =>
      let '(w', o, ok') := arrive w r d in
      arrive_all w' t (out ++ o) (ok && ok')
  end.

(* ranks currently stored, in array order (observable: used by the correspondence check) *)
Fixpoint stored_ranks (bs : list slot) : list Z :=
  match bs with
  | [] => []
  | None :: t => stored_ranks t
  | Some d :: t => d_rank d :: stored_ranks t
  end.
Definition slot_ranks (bs : list slot) : list Z :=
  map (fun s => match s with None => -1 | Some d => d_rank d end) bs.
