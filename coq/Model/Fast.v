(* Model of LZ4_compress_generic_validated (lib/lz4.c:930-1338) for the index-based
   table types (byU32, byU16; byPtr only exists on 32-bit targets).

   Positions are *indices* (the C code's `p - base`): the block being compressed
   occupies [startIndex, startIndex+inputSize), and whatever history the directive
   makes visible (prefix, external dictionary, dictionary context) occupies
   [startIndex-dictSize, startIndex) of the same virtual index space [vrd].  The C
   code's pointer pairs (base/dictBase, lowLimit) are exactly this mapping.

   Output: the sequences are emitted with the *specification's* encoder
   (Spec.BlockSpec.encode_seq / encode_last): the C code's byte layout for a
   sequence is that layout, and the correspondence check compares the bytes.
   [op] is tracked numerically so that every capacity test is the C test. *)
From Coq Require Import ZArith List Lia Bool.
From LZ4V Require Import Gen.Consts Spec.BlockSpec Model.Mem.
Import ListNotations.
Local Open Scope Z_scope.

Inductive outdir := NotLimited | LimitedOutput | FillOutput.
Inductive ttype := ByU32 | ByU16.
Inductive cdict := CNoDict | CWithPrefix64k | CUsingExtDict | CUsingDictCtx.

Definition M32 : Z := 4294967296.
Definition M64 : Z := 18446744073709551616.

Section Fast.
  Variable vrd : Z -> Z.            (* byte at virtual index *)
  Variable tt : ttype.
  Variable od : outdir.
  Variable dd : cdict.
  Variable dictSmall : bool.
  Variable startIndex : Z.
  Variable dictSize : Z.            (* size of the visible history *)
  Variable dtable : mem.            (* usingDictCtx: the dictionary context's table *)
  Variable dictDelta : Z.           (* usingDictCtx: startIndex - dictCtx.currentOffset *)
  Variable inputSize : Z.
  Variable maxOutputSize : Z.       (* olimit (op starts at 0) *)
  Variable acceleration : Z.

  Definition iend := startIndex + inputSize.
  Definition mflimitPlusOne := iend - MFLIMIT + 1.
  Definition matchlimit := iend - LASTLITERALS.
  Definition olimit := maxOutputSize.
  Definition prefixIdxLimit := startIndex - dictSize.
  Definition maybe_extMem : bool := match dd with CUsingExtDict | CUsingDictCtx => true | _ => false end.
  Definition lowLimit0 : Z := startIndex - (match dd with CWithPrefix64k => dictSize | _ => 0 end).

  Definition read32 (p : Z) : Z := vrd p + 256 * vrd (p + 1) + 65536 * vrd (p + 2) + 16777216 * vrd (p + 3).
  Definition read64 (p : Z) : Z := read32 p + M32 * read32 (p + 4).
  Definition hashLog : Z := match tt with ByU16 => LZ4_HASHLOG + 1 | ByU32 => LZ4_HASHLOG end.
  (* LZ4_hash4 / LZ4_hash5 (little endian, 64-bit) *)
  Definition hash4 (s : Z) : Z := ((s * 2654435761) mod M32) / 2 ^ (MINMATCH * 8 - hashLog).
  Definition hash5 (s : Z) : Z := ((((s * 16777216) mod M64) * 889523592379) mod M64) / 2 ^ (64 - hashLog).
  Definition hashPosition (p : Z) : Z :=
    match tt with ByU16 => hash4 (read32 p) | ByU32 => hash5 (read64 p) end.

  (* LZ4_putIndexOnHash: a byU16 table stores the index truncated to 16 bits *)
  Definition idx (p : Z) : Z := match tt with ByU16 => p mod 65536 | ByU32 => p end.

  (* LZ4_count: length of the common prefix of [p..) and [m..), capped at limit *)
  Fixpoint count_eq (fuel : nat) (p m limit acc : Z) : Z :=
    match fuel with
    | O => acc
    | S f => if (p <? limit) && (vrd p =? vrd m) then count_eq f (p + 1) (m + 1) limit (acc + 1) else acc
    end.
  Definition count (p m limit : Z) : Z := count_eq (Z.to_nat (limit - p)) p m limit 0.

  (* catch-up: returns how far ip and match move back *)
  Fixpoint catchup (fuel : nat) (i m anchor low : Z) (back : Z) : Z :=
    match fuel with
    | O => back
    | S f => if (i >? anchor) && (m >? low) && (vrd (i - 1) =? vrd (m - 1))
             then catchup f (i - 1) (m - 1) anchor low (back + 1) else back
    end.

  Fixpoint lits (fuel : nat) (a : Z) : list byte :=
    match fuel with O => [] | S f => vrd a :: lits f (a + 1) end.

  Record cstate := mkC {
    c_ip : Z; c_anchor : Z; c_op : Z; c_seqs : list seq (* reversed *); c_tab : mem;
    c_hw : Z  (* high-water mark of bytes written to dst, wild-copy slack included *) }.

  Inductive cres :=
  | RFail (tab : mem)                                   (* return 0 *)
  | ROk (seqs : list seq) (last : list byte) (consumed : Z) (tab : mem) (hw : Z).

  (* candidate lookup shared by the search loop and the "test next position" step:
     returns (virtual match index, lowLimit for that candidate) *)
  Definition candidate (tab : mem) (h : Z) : Z * Z :=
    let matchIndex := get tab h in
    match dd with
    | CUsingDictCtx =>
      if matchIndex <? startIndex then (get dtable h + dictDelta, startIndex - dictSize)
      else (matchIndex, startIndex)
    | CUsingExtDict =>
      if matchIndex <? startIndex then (matchIndex, startIndex - dictSize) else (matchIndex, startIndex)
    | _ => (matchIndex, lowLimit0)
    end.

  (* _last_literals *)
  Definition last_literals (s : cstate) : cres :=
    let lastRun := iend - c_anchor s in
    let o := c_op s in
    let over := o + lastRun + 1 + ((lastRun + 255 - RUN_MASK) / 255) >? olimit in
    match od with
    | NotLimited =>
      ROk (rev (c_seqs s)) (lits (Z.to_nat lastRun) (c_anchor s)) (c_anchor s + lastRun - startIndex) (c_tab s)
          (Z.max (c_hw s) (o + 1 + (if lastRun >=? RUN_MASK then (lastRun - RUN_MASK) / 255 + 1 else 0) + lastRun))
    | LimitedOutput =>
      if over then RFail (c_tab s) else
      ROk (rev (c_seqs s)) (lits (Z.to_nat lastRun) (c_anchor s)) (c_anchor s + lastRun - startIndex) (c_tab s)
          (Z.max (c_hw s) (o + 1 + (if lastRun >=? RUN_MASK then (lastRun - RUN_MASK) / 255 + 1 else 0) + lastRun))
    | FillOutput =>
      let lastRun := if over then
                       let l := (olimit - o) - 1 in l - (l + 256 - RUN_MASK) / 256
                     else lastRun in
      ROk (rev (c_seqs s)) (lits (Z.to_nat lastRun) (c_anchor s)) (c_anchor s + lastRun - startIndex) (c_tab s)
          (Z.max (c_hw s) (o + 1 + (if lastRun >=? RUN_MASK then (lastRun - RUN_MASK) / 255 + 1 else 0) + lastRun))
    end.

  Inductive next :=
  | NLast (s : cstate)                       (* goto _last_literals *)
  | NFail (tab : mem)                        (* return 0 *)
  | NLoop (s : cstate) (forwardH : Z)        (* next iteration of the main loop *)
  | NMatch (s : cstate) (token_op : Z) (litLength : Z) (mi low filledIp : Z).   (* goto _next_match *)

  (* table clean-up of lz4.c:1203-1206 *)
  Fixpoint clear_range (fuel : nat) (tab : mem) (p : Z) : mem :=
    match fuel with O => tab | S f => clear_range f (set tab (hashPosition p) 0) (p + 1) end.

  (* _next_match: ip at the start of the match, [mi] = virtual index of the match,
     [token_op] = position of the token, [litLength] literals since anchor already
     accounted for in op *)
  Definition next_match (s : cstate) (token_op litLength mi low filledIp : Z) : next :=
    let o := c_op s in
    let i := c_ip s in
    if (match od with FillOutput => true | _ => false end)
       && (o + 2 + 1 + MFLIMIT - MINMATCH >? olimit) then
      NLast (mkC i (c_anchor s) token_op (c_seqs s) (c_tab s) (c_hw s))
    else
    let offset := i - mi in
    let o := o + 2 in
    let matchCode := count (i + MINMATCH) (mi + MINMATCH) matchlimit in
    let i1 := i + matchCode + MINMATCH in
    let over := (match od with NotLimited => false | _ => true end)
                && (o + (1 + LASTLITERALS) + (matchCode + 240) / 255 >? olimit) in
    if over && (match od with LimitedOutput => true | _ => false end) then NFail (c_tab s) else
    let '(matchCode, i1, tab) :=
      if over then
        let newMatchCode := 15 - 1 + ((olimit - o) - 1 - LASTLITERALS) * 255 in
        let i2 := i1 - (matchCode - newMatchCode) in
        (newMatchCode, i2,
         if i2 <=? filledIp then clear_range (Z.to_nat (filledIp - i2 + 1)) (c_tab s) i2 else c_tab s)
      else (matchCode, i1, c_tab s) in
    let hw := Z.max (c_hw s) (if matchCode >=? ML_MASK then o + 4 * ((matchCode - ML_MASK) / (4 * 255)) + 4 else o) in
    let o := if matchCode >=? ML_MASK then o + (matchCode - ML_MASK) / 255 + 1 else o in
    let sq := mkSeq (lits (Z.to_nat litLength) (c_anchor s)) offset (matchCode + MINMATCH) in
    let s1 := mkC i1 i1 o (sq :: c_seqs s) tab (Z.max hw o) in
    if i1 >=? mflimitPlusOne then NLast s1 else
    (* fill table *)
    let tab := set tab (hashPosition (i1 - 2)) (idx (i1 - 2)) in
    (* test next position *)
    let h := hashPosition i1 in
    let '(mi2, low2) := candidate tab h in
    let tab := set tab h (idx i1) in
    if (if dictSmall then mi2 >=? prefixIdxLimit else true)
       && (match tt with
           | ByU16 => if LZ4_DISTANCE_MAX =? LZ4_DISTANCE_ABSOLUTE_MAX then true else mi2 + LZ4_DISTANCE_MAX >=? i1
           | ByU32 => mi2 + LZ4_DISTANCE_MAX >=? i1
           end)
       && (read32 mi2 =? read32 i1) then
      NMatch (mkC i1 i1 (o + 1) (sq :: c_seqs s) tab (Z.max hw (o + 1))) o 0 mi2 low2 filledIp
    else
      NLoop (mkC (i1 + 1) i1 o (sq :: c_seqs s) tab (Z.max hw o)) (hashPosition (i1 + 1)).

  (* the inner search loop: returns the found match or a jump *)
  Fixpoint search (fuel : nat) (s : cstate) (forwardIp step searchMatchNb forwardH : Z) (tab : mem) : next :=
    match fuel with
    | O => NFail tab   (* out of fuel: unreachable, the search advances by >= 1 each time *)
    | S f =>
      let h := forwardH in
      let current := forwardIp in
      let '(mi, low) := candidate tab h in
      let i := forwardIp in
      let forwardIp' := forwardIp + step in
      let step' := searchMatchNb / 2 ^ LZ4_skipTrigger in
      let searchMatchNb' := searchMatchNb + 1 in
      if forwardIp' >? mflimitPlusOne then NLast (mkC i (c_anchor s) (c_op s) (c_seqs s) tab (c_hw s)) else
      let forwardH' := hashPosition forwardIp' in
      let tab' := set tab h (idx current) in
      if dictSmall && (mi <? prefixIdxLimit) then search f s forwardIp' step' searchMatchNb' forwardH' tab'
      else if (match tt with ByU16 => LZ4_DISTANCE_MAX <? LZ4_DISTANCE_ABSOLUTE_MAX | ByU32 => true end)
              && (mi + LZ4_DISTANCE_MAX <? current) then search f s forwardIp' step' searchMatchNb' forwardH' tab'
      else if read32 mi =? read32 i then
        (* catch up *)
        let back := catchup (Z.to_nat (i - c_anchor s)) i mi (c_anchor s) low 0 in
        let i := i - back in let mi := mi - back in
        (* encode literals *)
        let litLength := i - c_anchor s in
        let token_op := c_op s in
        let o := c_op s + 1 in
        if (match od with LimitedOutput => true | _ => false end)
           && (o + litLength + (2 + 1 + LASTLITERALS) + litLength / 255 >? olimit) then NFail tab'
        else if (match od with FillOutput => true | _ => false end)
           && (o + (litLength + 240) / 255 + litLength + 2 + 1 + MFLIMIT - MINMATCH >? olimit) then
          NLast (mkC i (c_anchor s) (o - 1) (c_seqs s) tab' (c_hw s))
        else
          let o := if litLength >=? RUN_MASK then o + (litLength - RUN_MASK) / 255 + 1 else o in
          let hw := Z.max (c_hw s) (o + wild8_len o (o + litLength)) in
          NMatch (mkC i (c_anchor s) (o + litLength) (c_seqs s) tab' hw) token_op litLength mi low forwardIp
      else search f s forwardIp' step' searchMatchNb' forwardH' tab'
    end.

  (* main loop: one [search] then a chain of [_next_match]s *)
  Fixpoint chain (fuel : nat) (n : next) : next :=
    match fuel with
    | O => n
    | S f => match n with
             | NMatch s t l mi low fi => chain f (next_match s t l mi low fi)
             | _ => n
             end
    end.

  Fixpoint main_loop (fuel : nat) (s : cstate) (forwardH : Z) : cres :=
    match fuel with
    | O => RFail (c_tab s)
    | S f =>
      let n := search (Z.to_nat inputSize + 1) s (c_ip s) 1 (acceleration * 2 ^ LZ4_skipTrigger) forwardH (c_tab s) in
      match chain (Z.to_nat inputSize + 1) n with
      | NLast s' => last_literals s'
      | NFail t => RFail t
      | NLoop s' fh => main_loop f s' fh
      | NMatch s' _ _ _ _ _ => RFail (c_tab s')      (* chain fuel exhausted: unreachable *)
      end
    end.

  (* LZ4_compress_generic_validated, from `if (outputDirective == fillOutput && ...)` on;
     [tab] is cctx->hashTable on entry. *)
  Definition compress_validated (tab : mem) : cres :=
    if (match od with FillOutput => true | _ => false end) && (maxOutputSize <? 1) then RFail tab else
    let s0 := mkC startIndex startIndex 0 [] tab 0 in
    if inputSize <? LZ4_minLength then last_literals s0 else
    let tab := set tab (hashPosition startIndex) (idx startIndex) in
    main_loop (Z.to_nat inputSize + 1) (mkC (startIndex + 1) startIndex 0 [] tab 0) (hashPosition (startIndex + 1)).
End Fast.
