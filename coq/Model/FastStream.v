(* Model of the streaming / dictionary API of lib/lz4.c on top of Model.Fast and Model.FastApi:
   LZ4_initStream, LZ4_resetStream_fast, LZ4_loadDict / LZ4_loadDictSlow (LZ4_loadDict_internal,
   lz4.c:1587-1646), LZ4_attach_dictionary (1658-1690, after fix F12), LZ4_renormDictT (1693-1710),
   LZ4_compress_fast_continue (1713-1789), LZ4_compress_forceExtDict, LZ4_saveDict (1820-1840),
   and the one-shot entry points applied to a live stream object.

   Memory is ONE flat byte memory [mem] indexed by integer addresses (chosen by the harness, mirrored
   on the C side); NULL is address 0.  A stream is the public struct LZ4_stream_t_internal:
   hash table, currentOffset, tableType, dictSize, dictionary (address) and dictCtx, the latter a
   read-only VIEW of another stream (the C pointer is dereferenced when the working stream is used;
   the driver refreshes the view from the pointed stream before every operation).  The dictionary
   stream's own dictCtx is required to be NULL (it was prepared by LZ4_loadDict).

   C's U32 arithmetic on currentOffset / dictSize is written out with [u32].  Every compression calls
   Model.Fast.compress_validated with the virtual index space [vrd] that the C pointer arithmetic
   (base = source - startIndex, dictBase = dictionary + dictSize - startIndex, resp. the dictCtx
   variant) designates. *)
From Coq Require Import ZArith List Lia Bool FMapPositive.
From LZ4V Require Import Gen.Consts Spec.BlockSpec Model.Mem Model.Fast Model.FastApi.
Import ListNotations.
Local Open Scope Z_scope.

Definition KB64 : Z := 65536.
Definition u32 (x : Z) : Z := x mod M32.

(* view of the stream a dictCtx pointer designates *)
Record dctx := mkD { d_tab : mem; d_cur : Z; d_tt : Z; d_dictSize : Z; d_dict : Z }.

Record sctx := mkS {
  s_tab : mem; s_cur : Z; s_tt : Z; s_dictSize : Z;
  s_dict : Z;                 (* dictionary pointer, 0 = NULL *)
  s_dctx : option dctx }.

Definition view (c : sctx) : dctx := mkD (s_tab c) (s_cur c) (s_tt c) (s_dictSize c) (s_dict c).
Definition to_f (c : sctx) : fctx := mkF (s_tab c) (s_cur c) (s_tt c) (s_dictSize c).
(* a context as the one-shot layer leaves it: dictionary = NULL, dictCtx = NULL *)
Definition of_f (f : fctx) : sctx := mkS (f_tab f) (f_cur f) (f_tt f) (f_dictSize f) 0 None.

(* LZ4_initStream: MEM_INIT(0) *)
Definition s_init : sctx := mkS empty 0 0 0 0 None.

(* LZ4_prepareTable on a stream (also clears dictCtx and dictionary) *)
Definition s_prepareTable (c : sctx) (inputSize : Z) (t : ttype) : sctx := of_f (prepareTable (to_f c) inputSize t).

(* LZ4_resetStream_fast *)
Definition resetStream_fast (c : sctx) : sctx := s_prepareTable c 0 ByU32.

(* result of a compression call *)
Record sres := mkR { r_ret : Z; r_out : list byte; r_consumed : Z; r_ctx : sctx }.

(* ---------------------------------------------------------------- LZ4_loadDict_internal *)
Section LoadDict.
  Variable rd : Z -> Z.          (* the memory *)
  (* first pass: `while (p <= dictEnd-HASH_UNIT) { put(idx32, hash(p)); p+=3; idx32+=3; }`, k iterations *)
  Fixpoint ld_pass1 (k : nat) (tab : mem) (p idx : Z) : mem :=
    match k with
    | O => tab
    | S k' => ld_pass1 k' (set tab (hashPosition rd ByU32 p) idx) (p + 3) (idx + 3)
    end.
  (* second pass (loadDictSlow): every position, only into slots still at or below `limit` *)
  Fixpoint ld_pass2 (k : nat) (tab : mem) (p idx limit : Z) : mem :=
    match k with
    | O => tab
    | S k' =>
      let h := hashPosition rd ByU32 p in
      ld_pass2 k' (if get tab h <=? limit then set tab h idx else tab) (p + 1) (idx + 1) limit
    end.
End LoadDict.

(* number of iterations of `for (; p <= e; p += step)` *)
Definition loop_count (p e step : Z) : nat := if p <=? e then Z.to_nat ((e - p) / step + 1) else O.

Definition loadDict (m : mem) (dictionary dictSize : Z) (slow : bool) : sctx * Z :=
  (* LZ4_resetStream; currentOffset += 64 KB *)
  let cur := KB64 in
  if dictSize <? HASH_UNIT then (mkS empty cur 0 0 0 None, 0) else
  let dictEnd := dictionary + dictSize in
  let p := if dictEnd - dictionary >? KB64 then dictEnd - KB64 else dictionary in
  let ds := dictEnd - p in
  let idx := cur - ds in
  let rd := get m in
  let tab := ld_pass1 rd (loop_count p (dictEnd - HASH_UNIT) 3) empty p idx in
  let tab := if slow then ld_pass2 rd (loop_count p (dictEnd - HASH_UNIT) 1) tab p idx (cur - KB64) else tab in
  (mkS tab cur 2 ds p None, ds).

(* ---------------------------------------------------------------- LZ4_attach_dictionary *)
Definition attach_dictionary (c : sctx) (dict : option sctx) : sctx :=
  match dict with
  | None => mkS (s_tab c) (s_cur c) (s_tt c) (s_dictSize c) (s_dict c) None
  | Some d =>
    (* the dictionary replaces any pre-existing history: dictionary = NULL, dictSize = 0 (fix F12) *)
    let cur := if s_cur c =? 0 then KB64 else s_cur c in
    mkS (s_tab c) cur (s_tt c) 0 0 (if s_dictSize d =? 0 then None else Some (view d))
  end.

(* ---------------------------------------------------------------- LZ4_renormDictT *)
Definition renorm_entry (delta v : Z) : Z := if v <? delta then 0 else v - delta.
Definition renormDictT (c : sctx) (nextSize : Z) : sctx :=
  if u32 (s_cur c + nextSize) >? 2147483648 then
    let delta := u32 (s_cur c - KB64) in
    let dictEnd := s_dict c + s_dictSize c in
    let ds := if s_dictSize c >? KB64 then KB64 else s_dictSize c in
    mkS (PositiveMap.map (renorm_entry delta) (s_tab c)) KB64 (s_tt c) ds (dictEnd - ds) (s_dctx c)
  else c.

(* ---------------------------------------------------------------- LZ4_compress_generic on a stream *)
(* virtual index space of one call *)
Definition vrd_of (m : mem) (dd : cdict) (source startIndex dictionary dictSize : Z) : Z -> Z :=
  fun i =>
    if i <? startIndex then
      match dd with
      | CUsingExtDict | CUsingDictCtx => get m (dictionary + dictSize - startIndex + i)    (* dictBase + index *)
      | _ => get m (source + (i - startIndex))                                             (* base + index *)
      end
    else get m (source + (i - startIndex)).

Definition s_generic (m : mem) (c : sctx) (source n cap : Z) (od : outdir) (dd : cdict) (small : bool) (accel : Z) : sres :=
  if (n <? 0) || (n >? LZ4_MAX_INPUT_SIZE) then mkR 0 [] n c else
  if n =? 0 then
    if (match od with NotLimited => false | _ => true end) && (cap <=? 0) then mkR 0 [] n c
    else mkR 1 [0] 0 c
  else
    let startIndex := s_cur c in
    let '(dictionary, dictSize, dtab, dcur) :=
      match dd, s_dctx c with
      | CUsingDictCtx, Some d => (d_dict d, d_dictSize d, d_tab d, d_cur d)
      | _, _ => (s_dict c, s_dictSize c, empty, startIndex)
      end in
    let dictDelta := startIndex - dcur in
    let vrd := vrd_of m dd source startIndex dictionary dictSize in
    let upd := fun tab =>
      match dd with
      | CUsingDictCtx => mkS tab (u32 (s_cur c + n)) 2 n (s_dict c) None
      | _ => mkS tab (u32 (s_cur c + n)) 2 (u32 (s_dictSize c + n)) (s_dict c) (s_dctx c)
      end in
    match compress_validated vrd ByU32 od dd small startIndex dictSize dtab dictDelta n cap accel (s_tab c) with
    | RFail tab => mkR 0 [] n (upd tab)
    | ROk ss last consumed tab hw =>
      let out := encode_block ss last in
      mkR (Z.of_nat (length out)) out consumed (upd tab)
    end.

Definition with_dict (c : sctx) (dictionary dictSize : Z) : sctx :=
  mkS (s_tab c) (s_cur c) (s_tt c) dictSize dictionary (s_dctx c).

(* `(streamPtr->dictSize < 64 KB) && (streamPtr->dictSize < streamPtr->currentOffset)` *)
Definition small_dict (c : sctx) : bool := (s_dictSize c <? KB64) && (s_dictSize c <? s_cur c).

(* ---------------------------------------------------------------- LZ4_compress_fast_continue *)
Definition fast_continue (m : mem) (c : sctx) (source inputSize maxOutputSize acceleration : Z) : sres :=
  let dictEnd0 := if s_dictSize c =? 0 then 0 else s_dict c + s_dictSize c in
  let c := renormDictT c inputSize in
  let acceleration := clamp_accel acceleration in
  (* invalidate tiny dictionaries *)
  let '(c, dictEnd) :=
    if (s_dictSize c <? 4) && negb (dictEnd0 =? source) && (inputSize >? 0)
       && (match s_dctx c with None => true | Some _ => false end)
    then (with_dict c source 0, source) else (c, dictEnd0) in
  (* check overlapping input/dictionary space *)
  let sourceEnd := source + inputSize in
  let c :=
    if (sourceEnd >? s_dict c) && (sourceEnd <? dictEnd) then
      let ds := dictEnd - sourceEnd in
      let ds := if ds >? KB64 then KB64 else ds in
      let ds := if ds <? 4 then 0 else ds in
      with_dict c (dictEnd - ds) ds
    else c in
  (* prefix mode: source data follows dictionary *)
  if dictEnd =? source then
    s_generic m c source inputSize maxOutputSize LimitedOutput CWithPrefix64k (small_dict c) acceleration
  else
    (* external dictionary mode *)
    let r :=
      match s_dctx c with
      | Some d =>
        if inputSize >? 4096 then
          (* memcpy of the whole dictionary stream into the working stream *)
          let c' := mkS (d_tab d) (d_cur d) (d_tt d) (d_dictSize d) (d_dict d) None in
          s_generic m c' source inputSize maxOutputSize LimitedOutput CUsingExtDict false acceleration
        else s_generic m c source inputSize maxOutputSize LimitedOutput CUsingDictCtx false acceleration
      | None => s_generic m c source inputSize maxOutputSize LimitedOutput CUsingExtDict (small_dict c) acceleration
      end in
    mkR (r_ret r) (r_out r) (r_consumed r) (with_dict (r_ctx r) source (u32 inputSize)).

(* LZ4_compress_forceExtDict (hidden test entry point) *)
Definition forceExtDict (m : mem) (c : sctx) (source srcSize : Z) : sres :=
  let c := renormDictT c srcSize in
  let r := s_generic m c source srcSize 0 NotLimited CUsingExtDict (small_dict c) 1 in
  mkR (r_ret r) (r_out r) (r_consumed r) (with_dict (r_ctx r) source (u32 srcSize)).

(* ---------------------------------------------------------------- LZ4_saveDict *)
Definition saveDict (m : mem) (c : sctx) (safeBuffer dictSize : Z) : mem * sctx * Z :=
  let ds := if u32 dictSize >? KB64 then KB64 else dictSize in
  let ds := if u32 ds >? s_dictSize c then s_dictSize c else ds in
  let m' := if ds >? 0 then blit m (s_dict c + s_dictSize c - ds) m safeBuffer (Z.to_nat ds) else m in
  (m', with_dict c safeBuffer ds, ds).

(* ---------------------------------------------------------------- one-shot entry points on a stream object *)
Definition src_view (m : mem) (source n : Z) : mem := mem_of_list 0 (load_list m source (Z.to_nat n)).
Definition of_ares (a : ares) : sres := mkR (a_ret a) (a_out a) (a_consumed a) (of_f (a_ctx a)).

(* LZ4_compress_fast_extState_fastReset(state = this stream) *)
Definition s_fastReset (m : mem) (c : sctx) (source n cap accel : Z) : sres :=
  of_ares (compress_fast_extState_fastReset (to_f c) (src_view m source n) n cap accel).
(* LZ4_compress_fast_extState(state = this stream): LZ4_initStream first *)
Definition s_extState (m : mem) (source n cap accel : Z) : sres :=
  of_ares (compress_fast_extState (src_view m source n) n cap accel).
(* LZ4_compress_destSize_extState(state = this stream): the state is re-initialised on exit *)
Definition s_destSize (m : mem) (source n target accel : Z) : sres :=
  let a := compress_destSize_internal (src_view m source n) n target accel in
  mkR (a_ret a) (a_out a) (a_consumed a) s_init.

(* state injection used by the correspondence check to reach the > 1 GB / > 2 GB index regions:
   add [delta] to currentOffset and to every non-zero table entry *)
Definition shift_entry (delta v : Z) : Z := if v =? 0 then 0 else v + delta.
Definition shift_ctx (c : sctx) (delta : Z) : sctx :=
  mkS (PositiveMap.map (shift_entry delta) (s_tab c)) (s_cur c + delta) (s_tt c) (s_dictSize c) (s_dict c) (s_dctx c).

(* ---------------------------------------------------------------- operation lists *)
Inductive op :=
| OWrite (a : Z) (bs : list byte)                 (* the caller writes bytes into its buffers *)
| OInit                                           (* LZ4_initStream *)
| OResetFast                                      (* LZ4_resetStream_fast *)
| OLoadDict (a n : Z) (slow : bool)               (* LZ4_loadDict / LZ4_loadDictSlow *)
| OAttach (d : option sctx)                       (* LZ4_attach_dictionary (prepared dictionary stream or NULL) *)
| OContinue (src n cap acc : Z)                   (* LZ4_compress_fast_continue *)
| OForceExt (src n : Z)                           (* LZ4_compress_forceExtDict *)
| OSaveDict (a n : Z)                             (* LZ4_saveDict *)
| OFastReset (src n cap acc : Z)                  (* LZ4_compress_fast_extState_fastReset *)
| OExtState (src n cap acc : Z)                   (* LZ4_compress_fast_extState *)
| ODestSize (src n target acc : Z).               (* LZ4_compress_destSize_extState *)

(* one step: new memory, new stream, and what the call returned (return value, output bytes, consumed) *)
Definition step (st : mem * sctx) (o : op) : (mem * sctx) * (Z * list byte * Z) :=
  let '(m, c) := st in
  match o with
  | OWrite a bs => ((store_list m a bs, c), (0, [], 0))
  | OInit => ((m, s_init), (0, [], 0))
  | OResetFast => ((m, resetStream_fast c), (0, [], 0))
  | OLoadDict a n slow => let '(c', r) := loadDict m a n slow in ((m, c'), (r, [], 0))
  | OAttach d => ((m, attach_dictionary c d), (0, [], 0))
  | OContinue src n cap acc => let r := fast_continue m c src n cap acc in ((m, r_ctx r), (r_ret r, r_out r, r_consumed r))
  | OForceExt src n => let r := forceExtDict m c src n in ((m, r_ctx r), (r_ret r, r_out r, r_consumed r))
  | OSaveDict a n => let '(m', c', r) := saveDict m c a n in ((m', c'), (r, [], 0))
  | OFastReset src n cap acc => let r := s_fastReset m c src n cap acc in ((m, r_ctx r), (r_ret r, r_out r, r_consumed r))
  | OExtState src n cap acc => let r := s_extState m src n cap acc in ((m, r_ctx r), (r_ret r, r_out r, r_consumed r))
  | ODestSize src n target acc => let r := s_destSize m src n target acc in ((m, r_ctx r), (r_ret r, r_out r, r_consumed r))
  end.

Definition run (st : mem * sctx) (ops : list op) : mem * sctx := fold_left (fun s o => fst (step s o)) ops st.
