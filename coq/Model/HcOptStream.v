(* HC streaming at ALL the levels served by hashTable + chainTable (3..12): the instance of the parametric streaming layer
   Model.HcTabStream with the block compressor selected by LZ4HC_getCLevelParams(ctx->compressionLevel) as in
   LZ4HC_compress_generic_internal: LZ4HC_compress_hashChain (Model.HcChain.hc_compress, levels 3..9) or
   LZ4HC_compress_optimal (Model.HcOpt.opt_compress, levels 10..12: nbSearches, targetLength, ultra mode = level >= LZ4HC_CLEVEL_MAX,
   favorDecSpeed from the context).  Both strategies use the same tables, so a history may change the level freely inside
   3..12 (chain <-> opt) and stays in the model; only lz4mid levels, the dictionary-context search and the artefact CUndef leave it. *)
From Coq Require Import ZArith List Lia Bool.
From LZ4V Require Import Gen.Consts Spec.BlockSpec Model.Mem Model.Fast Model.FastApi Model.HcEmit Model.HcMid Model.HcMidStream.
From LZ4V Require Import Model.HcChain Model.HcChainApi Model.HcOpt Model.HcOptApi Model.HcChainStream Model.HcTabStream.
Import ListNotations.
Local Open Scope Z_scope.

Definition blk_all (vrd : Z -> Z) (prefixIdx dictIdx : Z) (lim : outdir) (s0 srcSize maxOut cLevel : Z) (fav : bool) (t : htabs) : cres :=
  if chain_level cLevel then hc_compress vrd prefixIdx dictIdx lim s0 srcSize maxOut (snd (cl_params cLevel)) t
  else opt_compress vrd prefixIdx dictIdx lim s0 srcSize maxOut (snd (cl_params cLevel)) (cl_target cLevel) (cLevel >=? LZ4HC_CLEVEL_MAX) fav t.
Definition lvl_all (l : Z) : bool := chain_level l || opt_level l.

Definition os_loadDict := ts_loadDict lvl_all.
Definition os_continue := ts_continue blk_all lvl_all.
Definition os_continue_destSize := ts_continue_destSize blk_all lvl_all.
Definition os_fastReset := ts_fastReset blk_all lvl_all.
Definition os_extState := ts_extState blk_all lvl_all.
Definition ostep := tstep blk_all lvl_all.
