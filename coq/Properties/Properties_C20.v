(* C20 - The lz4file API round-trips content of every length.

   Model: [Model.File] follows lib/lz4file.c function by function over an abstract FILE
   (bytes written so far / bytes not yet read): LZ4F_writeOpen (block-size switch, destination
   of LZ4F_compressBound(maxWriteSize) bytes, header), LZ4F_write (one LZ4F_compressUpdate per
   chunk of at most maxWriteSize bytes), LZ4F_writeClose; LZ4F_readOpen (fread of
   LZ4F_HEADER_SIZE_MAX bytes, at least LZ4F_HEADER_SIZE_MIN + LZ4F_ENDMARK_SIZE required,
   LZ4F_getFrameInfo, carry-over of loadedSize - consumedSize bytes), LZ4F_read (refill when
   the read-ahead is empty, LZ4F_decompress, stop at size or at end of file).

   TRUSTED BASE of the theorem (premises, not proved here): the LZ4F streaming compressor
   and decompressor that lz4file.c calls are parameters; what is assumed of them is stated
   in terms of Spec.FrameSpec.frame_decode (the frame format document):
   - [comp_contract]: compressBegin / any sequence of compressUpdate calls of at most
     maxWriteSize bytes into LZ4F_compressBound(maxWriteSize, prefs) bytes / compressEnd
     succeed and their outputs concatenate to ONE frame decoding to the concatenated input
     (properties C03, C07, C10);
   - [dec_contract]: on a file that is exactly one frame, LZ4F_getFrameInfo consumes exactly
     the header, and LZ4F_decompress, fed the following bytes in any chunking with room for
     at least one byte, never fails, never reads past the frame, delivers the content in
     order, makes progress, and does not consume the last byte of the frame before all
     content is delivered (properties C03, C08).
   The FILE is ideal (no I/O error); a declared content size must be the real one.

   DECODER SIDE DISCHARGED (Proofs/FileDecInst.v).  dGetFrameInfo / dDecompress are instantiated
   with the model of lz4frame.c's decoder (Model/FrameD.v: LZ4F_getFrameInfo, then LZ4F_decompress
   with NULL options, capacity = the size requested, input = the bytes buffered; block decoder
   Spec.spec_decode), and the contract is PROVED for it from the chunking simulation of
   Proofs/FrameDChunk.v (C08):
   - C20_dec_contract_refuted: [dec_contract] AS STATED is false of this instance - and of the
     library: it asks LZ4F_getFrameInfo to succeed on the first k bytes for EVERY k >= 11, but
     with a 15- or 19-byte header and fewer bytes it must return frameHeader_incomplete.
     lz4file.c only ever passes min(19, file size) bytes, which is all the proof needs;
   - [dec_contract_open] = the contract for that one size, on byte strings; it follows from
     dec_contract (C20_dec_contract_open_weaker) and C20_dec_contract_open_holds proves it for
     the FrameD instance: getFrameInfo consumes exactly the header and leaves the context where
     LZ4F_decompress expects it; every LZ4F_decompress call with >= 1 byte of input that agrees
     with the rest of the frame (it may extend beyond it) and room for >= 1 byte succeeds,
     consumes nothing beyond the frame, delivers the next bytes of the content, makes progress,
     and all content is delivered when the last byte of the frame is consumed;
   - C20_roundtrip_open: the round trip for any decoder meeting dec_contract_open;
   - C20_roundtrip_dec_discharged: the round trip with NO assumption on the decoder - only
     [comp_contract] (and the typing fact [comp_writes_bytes]: byte strings in, byte strings
     written) is left;
   - C20_read_session_framed: the read side alone, for any file that is one frame.

   COMPRESSOR SIDE DISCHARGED (Proofs/FileCompInst.v).  cBegin / cUpdate / cEnd are instantiated with
   the byte model of lz4frame.c's compressor (Model/FrameC.v, C03/C07) plus the
   dstMaxSize_tooSmall tests that FrameC.v leaves out, written with LZ4F_compressBound_internal of
   the size model (Model/FrameCSizes.v, C10):
   - [comp_contract_open] = [comp_contract] for contents below 2^64 bytes and a dictID below 2^32
     (the byte model's theorems need both; the C types enforce them);
   - C20_comp_contract_open_holds: for every block compressor meeting blk_contract (what it writes
     decodes, by the strict block judgment, to its input with the history offered), every call
     of an lz4file session succeeds within LZ4F_compressBound(maxWriteSize, prefs) bytes (19 for
     the header) and the file is ONE frame that Spec.frame_decode decodes to the content;
   - C20_comp_writes_bytes_holds: byte strings in, byte strings written (given that the block
     compressor writes bytes);
   - C20_roundtrip_discharged: the round trip through BOTH models, with no contract of the LZ4F
     layer left: what remains assumed is the contract of the BLOCK compressors (C01/C06/C11/C12)
     and the ties of the models to the code (C03/C08/C10/C20 correspondence runs). *)
From Coq Require Import ZArith List Bool.
From LZ4V Require Import Model.FrameD Proofs.FrameDProofs.   (* before Model.File: both define [dres] *)
From LZ4V Require Import Gen.Consts Spec.BlockSpec Spec.FrameSpec Model.FrameCSizes Model.File Model.FileInst.
From LZ4V Require Import Proofs.FileProofs Proofs.FileInstProofs.
From LZ4V Require Import Proofs.FileDecInst Proofs.FileCompInst.
From LZ4V Require Model.FrameC Proofs.FrameCTheorems.
Import ListNotations.

(* For ALL contents and write-size sequences (bufs : the buffers handed to successive
   LZ4F_write calls, possibly none, possibly empty ones), ALL preferences with a valid block
   size, ALL read-size sequences (0 included) and whatever the stack of LZ4F_readOpen holds:
   every LZ4F_write returns its size, the file is exactly one frame of the content, and the
   k-th LZ4F_read returns the next min(size_k, remaining) bytes - so exactly the content,
   then 0 ([chop]; see the C20_reads theorems below). *)
Theorem C20_roundtrip :
  forall (cst : Type) (cst0 : cst)
         (cBegin : cst -> option prefs -> Z -> fres (list byte) * cst)
         (cUpdate : cst -> list byte -> Z -> fres (list byte) * cst)
         (cEnd : cst -> Z -> fres (list byte) * cst)
         (dst : Type) (dst0 : dst)
         (dGetFrameInfo : dst -> list byte -> fres (Z * nat) * dst)
         (dDecompress : dst -> list byte -> nat -> dres * dst)
         (dpos : list byte -> dst -> nat -> nat -> Prop),
    comp_contract cst cst0 cBegin cUpdate cEnd ->
    dec_contract dst dst0 dGetFrameInfo dDecompress dpos ->
    forall (po : option prefs) (mw : nat) (bufs : list (list byte)) (sizes : list nat) (junk : list byte),
      maxWrite_of po = Some mw ->
      csize_ok po (concat bufs) ->
      exists file : list byte,
        write_session cst cst0 cBegin cUpdate cEnd po bufs = (FOk (map (fun b => FOk (length b)) bufs), file) /\
        frame_ok file (concat bufs) /\
        read_session dst dst0 dGetFrameInfo dDecompress true junk file sizes = FOk (chop (concat bufs) sizes).
Proof. exact roundtrip. Qed.
Print Assumptions C20_roundtrip.

(* ---- the decoder side, discharged with the model of lz4frame.c's decoder ---- *)
Theorem C20_dec_contract_refuted : forall dpos, ~ dec_contract dstate dctx_init fd_info fd_dec dpos.
Proof. exact fd_dec_contract_refuted. Qed.
Print Assumptions C20_dec_contract_refuted.

Theorem C20_dec_contract_open_weaker : forall dst dst0 dGetFrameInfo dDecompress dpos,
  dec_contract dst dst0 dGetFrameInfo dDecompress dpos -> dec_contract_open dst dst0 dGetFrameInfo dDecompress dpos.
Proof. exact dec_contract_open_of_dec_contract. Qed.
Print Assumptions C20_dec_contract_open_weaker.

Theorem C20_dec_contract_open_holds : dec_contract_open dstate dctx_init fd_info fd_dec fd_pos.
Proof. exact fd_dec_contract_open. Qed.
Print Assumptions C20_dec_contract_open_holds.

Theorem C20_roundtrip_open :
  forall (cst : Type) (cst0 : cst)
         (cBegin : cst -> option prefs -> Z -> fres (list byte) * cst)
         (cUpdate : cst -> list byte -> Z -> fres (list byte) * cst)
         (cEnd : cst -> Z -> fres (list byte) * cst)
         (dst : Type) (dst0 : dst)
         (dGetFrameInfo : dst -> list byte -> fres (Z * nat) * dst)
         (dDecompress : dst -> list byte -> nat -> File.dres * dst)
         (dpos : list byte -> dst -> nat -> nat -> Prop),
    comp_contract cst cst0 cBegin cUpdate cEnd -> comp_writes_bytes cst cst0 cBegin cUpdate cEnd ->
    dec_contract_open dst dst0 dGetFrameInfo dDecompress dpos ->
    forall (po : option prefs) (mw : nat) (bufs : list (list byte)) (sizes : list nat) (junk : list byte),
      maxWrite_of po = Some mw ->
      FileProofs.csize_ok po (concat bufs) -> bytes_ok (concat bufs) = true ->
      exists file : list byte,
        write_session cst cst0 cBegin cUpdate cEnd po bufs = (FOk (map (fun b => FOk (length b)) bufs), file) /\
        frame_ok file (concat bufs) /\
        read_session dst dst0 dGetFrameInfo dDecompress true junk file sizes = FOk (chop (concat bufs) sizes).
Proof. exact roundtrip_open. Qed.
Print Assumptions C20_roundtrip_open.

(* C20_roundtrip with the decoder of lz4frame.c: only the compressor's contract is assumed *)
Theorem C20_roundtrip_dec_discharged :
  forall (cst : Type) (cst0 : cst)
         (cBegin : cst -> option prefs -> Z -> fres (list byte) * cst)
         (cUpdate : cst -> list byte -> Z -> fres (list byte) * cst)
         (cEnd : cst -> Z -> fres (list byte) * cst),
    comp_contract cst cst0 cBegin cUpdate cEnd -> comp_writes_bytes cst cst0 cBegin cUpdate cEnd ->
    forall (po : option prefs) (mw : nat) (bufs : list (list byte)) (sizes : list nat) (junk : list byte),
      maxWrite_of po = Some mw ->
      FileProofs.csize_ok po (concat bufs) -> bytes_ok (concat bufs) = true ->
      exists file : list byte,
        write_session cst cst0 cBegin cUpdate cEnd po bufs = (FOk (map (fun b => FOk (length b)) bufs), file) /\
        frame_ok file (concat bufs) /\
        read_session dstate dctx_init fd_info fd_dec true junk file sizes = FOk (chop (concat bufs) sizes).
Proof. exact roundtrip_dec_discharged. Qed.
Print Assumptions C20_roundtrip_dec_discharged.

(* the read side alone *)
Theorem C20_read_session_framed : forall F C junk sizes,
  frame_ok F C -> bytes_ok F = true ->
  read_session dstate dctx_init fd_info fd_dec true junk F sizes = FOk (chop C sizes).
Proof. exact read_session_framed. Qed.
Print Assumptions C20_read_session_framed.

(* the instance runs: LZ4F_readOpen + LZ4F_read through the model of lz4frame.c's decoder, on the
   files of the F7 discussion and on the 19-byte frame of the refutation; and the clause that
   fails: 11 bytes of a 15-byte header *)
Example C20_example_framed_reads :
  read_session dstate dctx_init fd_info fd_dec true [1; 2; 3; 4; 5; 6; 7; 8]%Z empty_frame_file [1%nat; 0%nat; 5%nat]
    = FOk (chop [] [1%nat; 0%nat; 5%nat]) /\
  read_session dstate dctx_init fd_info fd_dec true [9; 9]%Z (tiny_frame_file [65; 66; 67]%Z) [2%nat; 0%nat; 5%nat; 1%nat]
    = FOk (chop [65; 66; 67]%Z [2%nat; 0%nat; 5%nat; 1%nat]) /\
  frame_ok csize_frame [] /\ bytes_ok csize_frame = true /\
  read_session dstate dctx_init fd_info fd_dec true [] csize_frame [3%nat] = FOk (chop [] [3%nat]) /\
  fst (fd_info dctx_init (firstn 11 csize_frame)) = FErr FD_ERR_frameHeader_incomplete.
Proof. vm_compute. repeat split; reflexivity. Qed.

(* ---- the compressor side, discharged with the model of lz4frame.c's compressor ---- *)
Theorem C20_comp_contract_open_holds : forall blk,
  FrameCTheorems.blk_contract strict_valid blk ->
  comp_contract_open FrameC.cctx FrameC.cctx_zero fc_begin (fc_update blk) (fc_end blk).
Proof. exact fc_comp_contract_open. Qed.
Print Assumptions C20_comp_contract_open_holds.

Theorem C20_comp_writes_bytes_holds : forall blk, blk_bytes blk ->
  comp_writes_bytes FrameC.cctx FrameC.cctx_zero fc_begin (fc_update blk) (fc_end blk).
Proof. exact fc_writes_bytes. Qed.
Print Assumptions C20_comp_writes_bytes_holds.

(* C20_roundtrip with BOTH sides discharged: the only hypotheses left are about the block compressor *)
Theorem C20_roundtrip_discharged : forall blk,
  FrameCTheorems.blk_contract strict_valid blk -> blk_bytes blk ->
  forall (po : option prefs) (mw : nat) (bufs : list (list byte)) (sizes : list nat) (junk : list byte),
    maxWrite_of po = Some mw -> FileProofs.csize_ok po (concat bufs) -> prefs_wf po ->
    (Z.of_nat (length (concat bufs)) < FrameC.U64)%Z -> bytes_ok (concat bufs) = true ->
    exists file : list byte,
      write_session FrameC.cctx FrameC.cctx_zero fc_begin (fc_update blk) (fc_end blk) po bufs
        = (FOk (map (fun b => FOk (length b)) bufs), file) /\
      frame_ok file (concat bufs) /\
      read_session dstate dctx_init fd_info fd_dec true junk file sizes = FOk (chop (concat bufs) sizes).
Proof. exact roundtrip_discharged. Qed.
Print Assumptions C20_roundtrip_discharged.

(* the hypotheses are satisfiable and the instances run: a block compressor that never compresses
   (every block stored raw) meets both; "hello" written in two pieces with NULL preferences, read
   back in reads of 2, 0, 9 and 1 bytes *)
Definition blk_raw : nat -> list byte -> list byte -> option (list byte) := fun _ _ _ => None.
Example C20_example_discharged :
  FrameCTheorems.blk_contract strict_valid blk_raw /\ blk_bytes blk_raw /\
  (let '(w, file) := write_session FrameC.cctx FrameC.cctx_zero fc_begin (fc_update blk_raw) (fc_end blk_raw) None
                                   [[104; 101]%Z; [108; 108; 111]%Z] in
   w = FOk [FOk 2%nat; FOk 3%nat] /\ frame_ok file [104; 101; 108; 108; 111]%Z /\
   read_session dstate dctx_init fd_info fd_dec true [7; 7; 7]%Z file [2%nat; 0%nat; 9%nat; 1%nat]
     = FOk (chop [104; 101; 108; 108; 111]%Z [2%nat; 0%nat; 9%nat; 1%nat])).
Proof.
  split; [intros n h x c H; discriminate H|]. split; [intros n h x c H; discriminate H|].
  vm_compute. repeat split; reflexivity.
Qed.

(* what the read results [chop content sizes] are: the content in order ... *)
Theorem C20_reads_deliver_content : forall sizes content,
  concat (map payload (chop content sizes)) = firstn (fold_right plus 0 sizes) content.
Proof. exact chop_concat. Qed.
Print Assumptions C20_reads_deliver_content.

(* ... every read succeeds and returns at most its size ... *)
Theorem C20_reads_succeed : forall sizes content,
  Forall2 (fun x s => exists l, x = FOk l /\ length l <= s) (chop content sizes) sizes.
Proof. exact chop_lengths. Qed.
Print Assumptions C20_reads_succeed.

(* ... and after the content every read returns 0 *)
Theorem C20_reads_then_zero : forall a b content,
  length content <= fold_right plus 0 a ->
  chop content (a ++ b) = chop content a ++ chop [] b /\ Forall (fun x => x = FOk []) (chop [] b).
Proof. exact chop_then_zero. Qed.
Print Assumptions C20_reads_then_zero.

(* Defect F7 (repaired in /repo by "fix: LZ4F_readOpen: only carry over the bytes that were
   actually read"): with the old carry-over of sizeof(buf) - consumed bytes the statement
   is false.  Witness, run with the specification-derived decompressor of Model/FileInst.v:
   empty content (11-byte file), 8 stack bytes that do not start a frame: the first
   LZ4F_read returns ERROR_frameType_unknown instead of 0. *)
Theorem C20_old_readOpen_refuted :
  exists junk,
    read_session_ideal strict_valid false junk empty_frame_file [1%nat] = FOk [FErr C10_ERR_frameType_unknown] /\
    FOk [FErr C10_ERR_frameType_unknown] <> FOk (chop [] [1%nat]).
Proof. exact old_readOpen_refuted. Qed.
Print Assumptions C20_old_readOpen_refuted.

(* the same files with the current LZ4F_readOpen *)
Theorem C20_fixed_readOpen_examples :
  read_session_ideal strict_valid true [1; 2; 3; 4; 5; 6; 7; 8]%Z empty_frame_file [1%nat; 0%nat; 5%nat]
    = FOk (chop [] [1%nat; 0%nat; 5%nat]) /\
  read_session_ideal strict_valid true [1; 2; 3; 4; 5; 6; 7; 8]%Z (tiny_frame_file [65; 66; 67]%Z) [2%nat; 0%nat; 5%nat; 1%nat]
    = FOk (chop [65; 66; 67]%Z [2%nat; 0%nat; 5%nat; 1%nat]).
Proof. exact fixed_readOpen_examples. Qed.
Print Assumptions C20_fixed_readOpen_examples.

(* The premises on sizes are met by every preference set the API accepts; the file of an
   empty content is the 11-byte frame the F7 witness uses. *)
Example C20_premises :
  maxWrite_of None = Some (Z.to_nat (64 * 1024)) /\
  maxWrite_of (Some (mkPrefs 7 false true 0 0 true false)) = Some (Z.to_nat (4 * 1024 * 1024)) /\
  csize_ok (Some (mkPrefs 7 false true 3 0 true false)) [1; 2; 3]%Z /\
  frame_ok empty_frame_file [] /\ length empty_frame_file = 11%nat.
Proof. repeat split; try reflexivity; try (right; reflexivity); apply empty_frame_file_ok. Qed.

(* ================================================================ [stream/lnk6] LINKED blocks: the block-compressor hypotheses DISCHARGED
   (delimited trailing section; construction and remaining premise: see the same section of Properties_C03.v) *)
From LZ4V Require Proofs.BlkInstLinked Proofs.BlkInstLinkedFile.

Theorem C20_roundtrip_linked_discharged :
  forall orc, (forall n, BlkInstLinked.lcall_ok (orc n)) -> BlkInstLinkedFile.C20_body (BlkInstLinked.blk_of orc).
Proof. exact BlkInstLinkedFile.c20_linked. Qed.
Print Assumptions C20_roundtrip_linked_discharged.
(* ================================================================ end of [stream/lnk6] *)
