(* C05 - Every spec-valid block decodes to the specified content in every decoder;
   conversely success implies the output is what the specification's sequence
   semantics define.

   Judge: Spec.BlockSpec (written from doc/lz4_Block_format.md): [strict_valid hist B = Some D]
   says that B parses into sequences, satisfies the end-of-block conditions and that its
   sequences executed on top of the history [hist] produce D.
   Decoder: Model.Dec.dec_generic through the entry points of Model.DecApi.  Memory is
   compared pointwise: [decodes_to res D] = the return value is |D| and the destination
   image holds D at [0,|D|).  [hist_placed] says where the history lives (contiguous
   prefix below the destination, or external dictionary).  The block is ANY byte list
   accepted by the specification, the source memory ANY memory holding it at [0,|B|), the
   initial destination content and the capacity (>= |D|) are arbitrary. *)
From Coq Require Import ZArith List Lia Bool.
From LZ4V Require Import Gen.Consts Spec.BlockSpec Model.Mem Model.Dec Model.DecApi.
From LZ4V Require Import Model.DecStream.
From LZ4V Require Import Proofs.DecRefineBase Proofs.DecRefineSafe Proofs.DecRefineTop Proofs.DecRefineApi Proofs.DecStreamRefine.
From LZ4V Require Import Proofs.DecConverse Proofs.DecConverseTop.
From LZ4V Require Import Proofs.FastCap Proofs.InplaceMargin.
From LZ4V Require Import Model.DecFast Proofs.DecFastRefine Proofs.DecFastTop.
From LZ4V Require Import Proofs.DecFootprint.
From LZ4V Require Import Model.DecInplace Proofs.DecInplaceStep Proofs.DecInplaceRun Proofs.DecInplaceTop.
From LZ4V Require Import Proofs.DecSession.
From LZ4V Require Import Model.DecRingWrap Proofs.DecRingMin.
From LZ4V Require Import Proofs.DecSessionFast.
From LZ4V Require Import Proofs.DecRingWrapStep.
Import ListNotations.
Local Open Scope Z_scope.

(* Every specification-valid block decodes to the specified content: LZ4_FAST_DEC_LOOP on or
   off, every history placement of LZ4_decompress_safe_usingDict - none, contiguous prefix of any
   size (the 64 KB-1 dispatch to withPrefix64k included), external dictionary of any size (matches
   inside the dictionary and matches straddling dictionary and output included) - every capacity
   >= |D|, every initial destination content. *)
Theorem C05_valid_decodes :
  forall (fastloop : bool) (pl : placement) (B hist D : list Z) (srcm dictm : mem) (cap : Z) (m0 : mem),
    strict_valid (lastn (Z.to_nat 65536) hist) B = Some D -> bytes B -> src_at srcm 0 B ->
    hist_placed pl hist dictm m0 -> Z.of_nat (length D) <= cap ->
    decodes_to (decompress_usingDict fastloop false srcm (Z.of_nat (length B)) 0 cap pl dictm (Z.of_nat (length hist)) m0) D.
Proof. exact valid_decodes. Qed.
Print Assumptions C05_valid_decodes.

Theorem C05_valid_decodes_safe :
  forall (fastloop : bool) (B D : list Z) (srcm : mem) (cap : Z) (m0 : mem),
    strict_valid [] B = Some D -> bytes B -> src_at srcm 0 B -> Z.of_nat (length D) <= cap ->
    decodes_to (decompress_safe fastloop srcm (Z.of_nat (length B)) cap m0) D.
Proof. exact valid_decodes_nodict. Qed.
Print Assumptions C05_valid_decodes_safe.

(* LZ4_decompress_safe_continue (Model.DecStream: LZ4_streamDecode_t bookkeeping over one arena
   memory, mode selection of lz4.c:2631-2668): one call on a valid block, in whichever of the
   modes the bookkeeping selects - first call, rolling prefix (small prefix / 64 KB prefix /
   prefix + external dictionary = "double dictionary"), or prefix turned into external
   dictionary after a jump (ring-buffer wrap, double buffer, LZ4_setStreamDecode) - returns |D|,
   leaves D at the destination in the arena and moves the bookkeeping to [next_state].
   [stream_view am st dest] is the history the selected mode can reach ([stream_avail] bytes of
   it), read from the arena at the time of the call. *)
Theorem C05_continue_step :
  forall (fastloop : bool) (am : mem) (st : sdstate) (srcm : mem) (B hist D : list Z) (dest cap : Z),
    0 <= sd_prefixSize st -> 0 <= sd_extDictSize st ->
    out_at (stream_view am st dest) 0 (rev hist) -> Z.of_nat (length hist) <= stream_avail st dest ->
    strict_valid (lastn (Z.to_nat 65536) hist) B = Some D -> bytes B -> src_at srcm 0 B ->
    Z.of_nat (length D) <= cap ->
    let '(r, am', st', k) := decompress_safe_continue fastloop am st srcm (Z.of_nat (length B)) dest cap in
    r = Z.of_nat (length D) /\ src_at am' dest D /\
    (0 < Z.of_nat (length D) -> st' = next_state st dest r).
Proof. exact continue_step. Qed.
Print Assumptions C05_continue_step.

(* Converse: ANY bytes, LZ4_FAST_DEC_LOOP on or off, every history placement.  Whenever the
   (full-block) decoder reports success, either some parsed sequence of the input has match
   offset 0 ([zero_off]: exactly the class of finding F5), or the input parses as a block, its
   sequences execute on the history ([spec_decode]: the specification's sequence semantics
   WITHOUT the end-of-block restrictions) and the destination holds exactly that content. *)
Theorem C05_success_sound :
  forall (fastloop : bool) (pl : placement) (B hist : list Z) (srcm dictm : mem) (cap : Z) (m0 : mem),
    (forall a, 0 <= get srcm a < 256) -> bytes B -> src_at srcm 0 B -> hist_placed pl hist dictm m0 ->
    sound_result (decompress_usingDict fastloop false srcm (Z.of_nat (length B)) 0 cap pl dictm (Z.of_nat (length hist)) m0)
                 (lastn (Z.to_nat 65536) hist) B.
Proof. exact success_sound. Qed.
Print Assumptions C05_success_sound.

(* finding F5: the block 10 41 00 00 50 62 63 64 65 66 (one literal, then a match with
   offset 0) is rejected by the specification but decoded "successfully" (return 10) by the
   model of LZ4_decompress_safe, with the fast loop on and off - exactly as the real code does. *)
Theorem C05_success_sound_strict_refuted :
  exists (blk : list Z) (cap : Z),
    bytes blk /\
    (forall fastloop, let '(r, m, k) := decompress_safe fastloop (mem_of_list 0 blk) (Z.of_nat (length blk)) cap empty in r = 10) /\
    spec_decode [] blk = None.
Proof. exact success_sound_strict_refuted. Qed.
Print Assumptions C05_success_sound_strict_refuted.

(* The hypotheses are satisfiable by a non-trivial state: a block with an overlapping match
   (offset 2) reaching into a 3-byte prefix, decoded into a pre-filled buffer. *)
Example C05_nonvacuous :
  let hist := [120; 121; 122] in
  let B := [35; 97; 98; 5; 0; 80; 99; 100; 101; 102; 103] in
  strict_valid hist B = Some [97; 98; 120; 121; 122; 97; 98; 120; 121; 99; 100; 101; 102; 103]
  /\ (let '(r, m, k) := decompress_usingDict false false (mem_of_list 0 B) 11 0 14 PPrefix empty 3
                          (store_list (mem_of_list 0 [7; 7; 7; 7; 7; 7; 7; 7; 7; 7; 7; 7; 7; 7]) (-3) hist) in
      (r, load_list m 0 14)) = (14, [97; 98; 120; 121; 122; 97; 98; 120; 121; 99; 100; 101; 102; 103]).
Proof. vm_compute. split; reflexivity. Qed.

(* Streaming: two blocks decoded back to back at arena address 1000; the second one (a match
   of offset 14 reaching the whole first block) is decoded in rolling-prefix mode. *)
Example C05_continue_nonvacuous :
  let B1 := [35; 97; 98; 2; 0; 80; 99; 100; 101; 102; 103] in
  let B2 := [10; 14; 0; 80; 49; 50; 51; 52; 53] in
  let st0 := setStreamDecode 0 0 in
  let '(r1, am1, st1, k1) := decompress_safe_continue true empty st0 (mem_of_list 0 B1) 11 1000 14 in
  let '(r2, am2, st2, k2) := decompress_safe_continue true am1 st1 (mem_of_list 0 B2) 9 1014 19 in
  (r1, r2, sd_prefixEnd st2, sd_prefixSize st2, load_list am2 1000 33)
  = (14, 19, 1033, 33, [97; 98; 97; 98; 97; 98; 97; 98; 97; 99; 100; 101; 102; 103;
                        97; 98; 97; 98; 97; 98; 97; 98; 97; 99; 100; 101; 102; 103; 49; 50; 51; 52; 53]).
Proof. vm_compute. reflexivity. Qed.

(* the F5 witness lies in the class the converse excludes; a block with an end-condition
   violation (last match 4 bytes + 5 literals: 9 < 12) is accepted and covered by the converse *)
Example C05_converse_nonvacuous :
  zero_off (S (length f5_block)) f5_block = true
  /\ (let B := [17; 97; 1; 0; 80; 98; 99; 100; 101; 102] in
      strict_valid [] B = None /\ spec_decode [] B = Some [97; 97; 97; 97; 97; 97; 98; 99; 100; 101; 102]
      /\ zero_off (S (length B)) B = false
      /\ (let '(r, m, k) := decompress_safe true (mem_of_list 0 B) 10 30 empty in (r, load_list m 0 11))
         = (11, [97; 97; 97; 97; 97; 97; 98; 99; 100; 101; 102])).
Proof. vm_compute. repeat split; reflexivity. Qed.

(* In-place decoding with the documented margin (lz4.h: the block lies at the end of a buffer of
   LZ4_DECOMPRESS_INPLACE_BUFFER_SIZE(d) = d + LZ4_DECOMPRESS_INPLACE_MARGIN(d) bytes and is decoded
   to its start).  For EVERY block of the specification that does not expand (the presumption
   stated in lz4.h) and every point between two sequences, the distance from the output cursor to
   the unread input ([cursor_gap], computed from the encoder's lengths and the margin macro read from
   lz4.h by the translator) is at least what LZ4_wildCopy32 writes past the end of a match of any
   length [len] (Model.Mem.wild32_len, the write extent the decoder model uses), so the speculative
   writes of the decoder never reach input it has not read yet.  The decoder model keeps source and
   destination in separate memories; that aliasing them at this distance is harmless is what this
   theorem contributes, the run of the real decoder inside one buffer is the harness's `inplace`
   family. *)
Theorem C05_inplace_margin :
  forall (done rest : list seq) (last : list Z) (o len : Z),
    mlens_ok rest -> enc_len (done ++ rest) last <= total_len (done ++ rest) last -> 0 < len ->
    wild32_len o (o + len) - len <= cursor_gap done rest last.
Proof. exact inplace_margin_sufficient. Qed.
Print Assumptions C05_inplace_margin.

(* the bound is attained: 16 literals | offset 16, length 33 | 65 literals (finding F16) leaves a gap
   of exactly 31 after the match, which is what the copy of 33 bytes overshoots by *)
Example C05_inplace_tight :
  let q := mkSeq (repeat 7 16) 16 33 in let last := repeat 9 65 in
  mlens_ok [] /\ enc_len [q] last <= total_len [q] last
  /\ cursor_gap [q] [] last = 31 /\ wild32_len 16 (16 + 33) - 33 = 31
  /\ Z.of_nat (length (encode_block [q] last)) = enc_len [q] last.
Proof. split; [constructor|]. vm_compute. repeat split; try reflexivity; discriminate. Qed.

(* The deprecated LZ4_decompress_fast family (Model.DecFast: LZ4_decompress_unsafe_generic,
   lz4.c:1870-1966, and its three callers).  The C function does not know the input size and has
   no defence against malformed input, so the statement is for specification-VALID blocks only:
   given originalSize = |D| the call returns the number of source bytes |B|, produces exactly D,
   and ([fast_decodes_to] includes the flag) performs no access outside the source [0,srcSize),
   the destination [0,|D|), the prefix and the dictionary - for no dictionary, a contiguous
   prefix of any size and an external dictionary of any size. *)
Theorem C05_fast_valid :
  forall (B D : list Z) (srcm : mem) (srcSize : Z) (m0 : mem),
    strict_valid [] B = Some D -> bytes B -> src_at srcm 0 B -> Z.of_nat (length B) <= srcSize ->
    fast_decodes_to (decompress_fast srcm srcSize (Z.of_nat (length D)) m0) B D.
Proof. exact fast_valid. Qed.
Print Assumptions C05_fast_valid.

Theorem C05_fast_usingDict_valid :
  forall (pl : placement) (B hist D : list Z) (srcm dictm : mem) (srcSize : Z) (m0 : mem),
    strict_valid (lastn (Z.to_nat 65536) hist) B = Some D -> bytes B -> src_at srcm 0 B ->
    Z.of_nat (length B) <= srcSize -> hist_placed pl hist dictm m0 ->
    fast_decodes_to (decompress_fast_usingDict srcm srcSize (Z.of_nat (length D)) pl dictm (Z.of_nat (length hist)) m0) B D.
Proof. exact fast_usingDict_valid. Qed.
Print Assumptions C05_fast_usingDict_valid.

(* LZ4_decompress_fast_continue: one call in whichever mode the LZ4_streamDecode_t bookkeeping
   selects (first call / rolling prefix with the external dictionary still attached / prefix
   turned into external dictionary); the bookkeeping advances by originalSize. *)
Theorem C05_fast_continue_step :
  forall (am : mem) (st : sdstate) (srcm : mem) (srcSize : Z) (B hist D : list Z) (dest : Z),
    0 <= sd_prefixSize st -> 0 <= sd_extDictSize st ->
    out_at (stream_view am st dest) 0 (rev hist) -> Z.of_nat (length hist) <= fstream_avail st dest ->
    strict_valid (lastn (Z.to_nat 65536) hist) B = Some D -> bytes B -> src_at srcm 0 B ->
    Z.of_nat (length B) <= srcSize ->
    let '(r, am', st', k) := decompress_fast_continue am st srcm srcSize dest (Z.of_nat (length D)) in
    r = Z.of_nat (length B) /\ k = true /\ src_at am' dest D /\
    (0 < Z.of_nat (length B) -> 0 < Z.of_nat (length D) -> st' = next_state st dest (Z.of_nat (length D))).
Proof. exact fast_continue_step. Qed.
Print Assumptions C05_fast_continue_step.

Example C05_fast_nonvacuous :
  let hist := [120; 121; 122] in
  let B := [35; 97; 98; 5; 0; 80; 99; 100; 101; 102; 103] in
  strict_valid hist B = Some [97; 98; 120; 121; 122; 97; 98; 120; 121; 99; 100; 101; 102; 103]
  /\ (let '(r, m, k) := decompress_fast_usingDict (mem_of_list 0 B) 11 14 PExt (mem_of_list 0 hist) 3
                          (mem_of_list 0 [7; 7; 7; 7; 7; 7; 7; 7; 7; 7; 7; 7; 7; 7]) in
      (r, k, load_list m 0 14)) = (11, true, [97; 98; 120; 121; 122; 97; 98; 120; 121; 99; 100; 101; 102; 103])
  /\ (let '(r, m, k) := decompress_fast_usingDict (mem_of_list 0 B) 11 14 PPrefix empty 3
                          (store_list (mem_of_list 0 [7; 7; 7; 7; 7; 7; 7; 7; 7; 7; 7; 7; 7; 7]) (-3) hist) in
      (r, k, load_list m 0 14)) = (11, true, [97; 98; 120; 121; 122; 97; 98; 120; 121; 99; 100; 101; 102; 103]).
Proof. vm_compute. repeat split; reflexivity. Qed.

(* In-place decoding, aliasing-aware part (PARTIAL result, see the header of Proofs/DecFootprint.v).
   FULL statement (not proved): with the block of done ++ rest, last at the end of one buffer of
   d + LZ4_DECOMPRESS_INPLACE_MARGIN(d) bytes and the destination at its start, no store of
   LZ4_decompress_safe reaches an address at or above the current input cursor before that input
   byte is consumed, so the aliased run equals the run with separate buffers.
   Proved: (a) for EVERY input and history placement, one whole iteration of the decoder that
   continues with output cursor op' stores only below op' + 14 (safe loop) / op' + 31 (fast loop) and
   advances op by at least 4; the iteration that ends the block stores only below the final op';
   (b) combined with C05_inplace_margin's cursor_gap (>= 31 at every sequence boundary): nothing at
   or above the input cursor of the boundary that follows the iteration is modified.
   Missing: the load/store order inside one iteration (literal over-copy vs the offset and
   match-length bytes of the same sequence, which are >= 32 bytes ahead), and the restatement of
   the forward simulation with the two cursors in one address space. *)
Theorem C05_inplace_step_footprint : step_footprint_stmt false 14 /\ step_footprint_stmt true 31.
Proof. exact step_footprint. Qed.
Print Assumptions C05_inplace_step_footprint.

Theorem C05_inplace_footprint_partial :
  forall (fast : bool) dict srcm iend oend lowPrefix rlow dictm dictSize s
         (done rest : list seq) (last : list Z),
    (forall a, 0 <= get srcm a < 256) ->
    mlens_ok rest -> enc_len (done ++ rest) last <= total_len (done ++ rest) last ->
    match (if fast then fast_top false dict srcm iend oend lowPrefix rlow dictm dictSize s
           else safe_top false dict srcm iend oend lowPrefix rlow dictm dictSize s) with
    | Cont _ s' => forall a, op s' + cursor_gap done rest last <= a -> get (dm s') a = get (dm s) a
    | Done s' => forall a, op s' <= a -> get (dm s') a = get (dm s) a
    | Err _ => True
    end.
Proof. exact inplace_footprint_partial. Qed.
Print Assumptions C05_inplace_footprint_partial.

(* In-place decoding, FULL aliased statement (supersedes the partial result above).
   Model.DecInplace.decompress_safe_inplace is LZ4_decompress_safe(buf + pos, buf, srcSize, cap)
   with source and destination in ONE memory: every input load goes to the current contents of
   that memory, in the order of the C code (token and literal-length bytes before any store; the
   literal copy chunk by chunk inside the memory; offset and match-length bytes after the literal
   stores; the next iteration from the memory the match copy left).  For every strictly valid
   block B that does not expand (|B| <= n = |D|, what lz4.h presumes) stored at the END of a
   buffer of n + LZ4_DECOMPRESS_INPLACE_MARGIN(n) bytes of byte values, any capacity >= n, fast
   loop on or off: the call returns n, every access stays inside the buffer resp. below the
   capacity (flag), and [0, n) holds exactly D.
   Proof: (a) one iteration started with the input at and above ip intact and ip >= op + 31 is
   EQUAL to the iteration of Model.Dec reading a separate copy of the input, for every input
   (DecInplaceStep.a_step_eq); (b) induction over the sequences with the distance invariant
   ip - op = margin + total_len rest - |remaining input| >= 31 (InplaceMargin.suffix_potential)
   and the write footprint op' + 31 of DecFootprint. *)
Theorem C05_inplace_decodes :
  forall (fastloop : bool) (B D : list Z) (m0 : mem) (cap : Z),
    let n := Z.of_nat (length D) in
    let pos := n + inplace_margin n - Z.of_nat (length B) in
    strict_valid [] B = Some D -> bytes B -> Z.of_nat (length B) <= n ->
    (forall a, 0 <= get m0 a < 256) -> src_at m0 pos B -> n <= cap ->
    inplace_decodes_to (decompress_safe_inplace fastloop pos (Z.of_nat (length B)) cap m0) D.
Proof. exact inplace_decodes. Qed.
Print Assumptions C05_inplace_decodes.

(* the same for every margin (n >> 8) + base with base >= 33 *)
Theorem C05_inplace_decodes_any_margin :
  forall (fastloop : bool) (base : Z) (B D : list Z) (m0 : mem) (cap : Z),
    33 <= base ->
    strict_valid [] B = Some D -> bytes B -> Z.of_nat (length B) <= Z.of_nat (length D) ->
    (forall a, 0 <= get m0 a < 256) ->
    src_at m0 (inplace_pos base (Z.of_nat (length D)) (Z.of_nat (length B))) B ->
    Z.of_nat (length D) <= cap ->
    inplace_decodes_to
      (decompress_safe_inplace fastloop (inplace_pos base (Z.of_nat (length D)) (Z.of_nat (length B)))
                               (Z.of_nat (length B)) cap m0) D.
Proof. exact inplace_decodes_base. Qed.
Print Assumptions C05_inplace_decodes_any_margin.

(* non-vacuity on the F16 witness (16 literals | offset 16, length 33 | 65 literals, 88 bytes,
   114 decoded) inside its buffer of 114 + 33 bytes, evaluated: both loops, capacity 114 and 147 *)
Example C05_inplace_nonvacuous :
  forall fastloop cap, cap = 114 \/ cap = 147 ->
    f16_run fastloop INPLACE_MARGIN_BASE cap = (114, true, repeat 7 16 ++ repeat 7 33 ++ repeat 9 65).
Proof. exact f16_inplace_ok. Qed.

(* finding F16 in the model: with the former margin base 32 the same valid, shrinking block does
   NOT decode in place (the 32-byte stripe of the match copy overwrites the token of the last
   sequence); all accesses are still inside the buffer *)
Theorem C05_inplace_margin32_refuted :
  strict_valid [] f16_block = Some (repeat 7 16 ++ repeat 7 33 ++ repeat 9 65)
  /\ Z.of_nat (length f16_block) = 88
  /\ (let '(r, k, img) := f16_run true 32 114 in r <> 114 /\ k = true)
  /\ (let '(r, k, img) := f16_run true 32 146 in r <> 114 /\ k = true).
Proof. exact f16_margin32_refuted. Qed.
Print Assumptions C05_inplace_margin32_refuted.

(* Across calls: a SESSION of LZ4_decompress_safe_continue calls over one arena (Proofs/DecSession.v).
   The decoder remembers two segments (prefix, external dictionary = the prefix at the last jump).
   [session_geom] is the caller's geometry contract, a predicate on the list of (destination,
   capacity, decoded size) alone (the bookkeeping evolves as a function of these: [sess_next]):
   at every call (G1) the segment(s) the selected mode designates are long enough to hold the last
   min(64 KB, total) decoded bytes - prefix alone, or prefix >= 65535 bytes, or prefix + genuine
   external dictionary at a contiguous continuation; prefix alone at a jump - and (G2) the capacity
   handed to the decoder does not overlap the still-needed part of those segments.  [sess_inv]
   (what the bookkeeping designates holds the end of the history) is the invariant.  If block k is
   strictly valid w.r.t. the last 64 KB of the concatenated earlier contents, every call returns
   |D_k| and leaves D_k at its destination, empty blocks included ([expected]); in-bounds accesses
   for any session are C02_continue_safe.  (G2) is also the condition under which the model
   (dictionary = snapshot at call time) is faithful to the C code (live memory); the documented
   minimal ring buffer LZ4_DECODER_RING_BUFFER_SIZE violates it - see Proofs/DecSession.v. *)
Theorem C05_continue_session :
  forall (calls : list scall) (fastloop : bool) (am : mem) (st : sdstate) (H : list Z) (pok : bool),
    sess_inv am st H pok -> session_geom st pok (Z.of_nat (length H)) calls -> session_valid H calls ->
    session_run fastloop am st calls = expected calls.
Proof. exact continue_session. Qed.
Print Assumptions C05_continue_session.

(* the states LZ4_setStreamDecode produces satisfy the invariant: no dictionary / saved dictionary *)
Theorem C05_session_init :
  (forall am dictionary, sess_inv am (setStreamDecode dictionary 0) [] true) /\
  (forall am dictionary (Hd : list Z), src_at am dictionary Hd -> 0 < Z.of_nat (length Hd) ->
     sess_inv am (setStreamDecode dictionary (Z.of_nat (length Hd))) Hd true).
Proof. exact (conj init_inv init_inv_dict). Qed.
Print Assumptions C05_session_init.

(* scheme (a): every block decoded right after the previous one *)
Theorem C05_continue_session_contiguous :
  forall (calls : list scall) (fastloop : bool) (am : mem) (dest : Z),
    contig_calls dest calls -> session_valid [] calls ->
    session_run fastloop am (setStreamDecode 0 0) calls = expected calls.
Proof. exact continue_session_contiguous. Qed.
Print Assumptions C05_continue_session_contiguous.

(* scheme (b): ring buffer [rb, rb+R) with R >= 65536 + 2*maxBlock, capacity maxBlock per call, restart at rb
   when fewer than maxBlock bytes remain *)
Theorem C05_continue_session_ring :
  forall (rb R M : Z), 0 <= M -> 65536 + 2 * M <= R ->
  forall (calls : list scall) (fastloop : bool) (am : mem),
    ring_calls rb R M 0 calls -> session_valid [] calls ->
    session_run fastloop am (setStreamDecode 0 0) calls = expected calls.
Proof. exact continue_session_ring. Qed.
Print Assumptions C05_continue_session_ring.

(* What the session contract excludes, 1: more than two live segments.  lz4.h's "the last 64KB of
   previously decoded data must remain available and unmodified at the memory position where they were
   decoded" is necessary, not sufficient: three blocks decoded into three separate buffers, nothing
   overwritten, the third (strictly valid w.r.t. the 40 bytes before it) references the first - the
   call fails with -5 (the real decoder too); decoded contiguously the same blocks succeed. *)
Theorem C05_continue_three_segments_refuted :
  session_valid [] (seg3_calls 1000 10000 20000)
  /\ (forall fastloop, map fst (session_run fastloop empty (setStreamDecode 0 0) (seg3_calls 1000 10000 20000)) = [20; 20; -5])
  /\ (forall fastloop, session_run fastloop empty (setStreamDecode 0 0) (seg3_calls 1000 1020 1040) = expected (seg3_calls 1000 1020 1040)).
Proof. exact three_segments_refuted. Qed.
Print Assumptions C05_continue_three_segments_refuted.

(* What the session contract excludes, 2 (FINDING): the documented minimal ring buffer.  Ring of
   LZ4_DECODER_RING_BUFFER_SIZE(1024) = 65536 + 14 + 1024 bytes, first lap 65551 bytes (1023 remain, the
   caller wraps); the wrap block (33 literals, match of 8 at offset 65535, 40 literals) is strictly
   valid; in Model.DecRingWrap (wrap call with dictionary and destination in one memory, dictionary
   loads from the current contents) the call returns 81 with all accesses in bounds, the matched bytes
   are right with the safe loop and WRONG with LZ4_FAST_DEC_LOOP (LZ4_wildCopy32 stored [33,64) before the
   match loaded lap bytes [49,57)).  Same result on the real decoder (c05.py family `ringmin`). *)
Theorem C05_ring_min_refuted :
  65536 + 14 + 1024 - 65551 < 1024
  /\ strict_valid (lastn (Z.to_nat 65536) rm_lap) rm_block = Some rm_expected
  /\ rm_run false = (81, true, [49; 50; 51; 52; 53; 54; 55; 56])
  /\ rm_run true = (81, true, [173; 174; 175; 160; 161; 162; 163; 164]).
Proof. exact ring_min_refuted. Qed.
Print Assumptions C05_ring_min_refuted.

(* The same for the deprecated LZ4_decompress_fast_continue (Model.DecFast; valid blocks only - the C code is
   undefended): same invariant and per-call contract (capacity = originalSize = |D_k|), bookkeeping
   [fast_next]; every call returns the number of source bytes |B_k| with all accesses in bounds and leaves
   D_k at its destination, empty blocks included (fix F19). *)
Theorem C05_fast_continue_session :
  forall (calls : list scall) (am : mem) (st : sdstate) (H : list Z) (pok : bool),
    sess_inv am st H pok -> fsession_geom st pok (Z.of_nat (length H)) calls -> session_valid H calls ->
    fsession_run am st calls = fexpected calls.
Proof. exact fast_continue_session. Qed.
Print Assumptions C05_fast_continue_session.

Theorem C05_fast_continue_session_contiguous :
  forall (calls : list scall) (am : mem) (dest : Z),
    contig_calls dest calls -> session_valid [] calls ->
    fsession_run am (setStreamDecode 0 0) calls = fexpected calls.
Proof. exact fast_continue_session_contiguous. Qed.
Print Assumptions C05_fast_continue_session_contiguous.

Theorem C05_fast_continue_session_ring :
  forall (rb R M : Z), 0 <= M -> 65536 + 2 * M <= R ->
  forall (calls : list scall) (am : mem),
    ring_calls rb R M 0 calls -> session_valid [] calls ->
    fsession_run am (setStreamDecode 0 0) calls = fexpected calls.
Proof. exact fast_continue_session_ring. Qed.
Print Assumptions C05_fast_continue_session_ring.

(* the repaired header: LZ4_DECODER_RING_BUFFER_SIZE(n) - 65536 - n read from lz4.h by the translator *)
Theorem C05_ring_margin_const : 29 <= DECODER_RING_MARGIN.
Proof. exact ring_margin_const. Qed.
Print Assumptions C05_ring_margin_const.

(* The repaired ring buffer, live memory (Model.DecRingWrap: dictionary loads from the current contents of the
   ring).  (1) For EVERY input: once the finished lap has at least 65535 + 31 bytes the wrap call equals
   Model.Dec's decoder reading a snapshot of the dictionary taken before the call - a dictionary load of a
   match at output position o reads ring positions >= o + (lap - 65535) >= o + 31, and nothing at or above
   op + 31 has been stored at a loop boundary / above (end of literals) + 31 after the literal phase
   (DecFootprint).  (2) Hence for every margin c >= 29 (C05_ring_margin_const: the header's is), every maxBlock
   and every lap that makes the caller wrap (65536 + c + maxBlock - lap < maxBlock), every strictly valid block
   decodes at the ring start to its specified content, fast loop on or off.  NOT covered (remains): the blocks
   after the first one of a lap (prefix + external dictionary both inside the ring, live) - for those the
   session theorem C05_continue_session_ring needs a ring of 65536 + 2*maxBlock bytes. *)
Theorem C05_ring_wrap_eq :
  forall (fastloop : bool) (srcm : mem) (srcSize cap E : Z) (m0 : mem),
    (forall a, 0 <= get srcm a < 256) -> 65535 + 31 <= E ->
    decompress_ring_wrap fastloop srcm srcSize cap E m0
    = dec_generic fastloop false UsingExtDict srcm srcSize cap 0 0 m0 E m0.
Proof. exact ring_wrap_eq. Qed.
Print Assumptions C05_ring_wrap_eq.

Theorem C05_ring_wrap_block :
  forall (fastloop : bool) (c M : Z) (lap B D : list Z) (srcm m0 : mem) (cap : Z),
    29 <= c -> 65536 + c + M - Z.of_nat (length lap) < M ->
    strict_valid (lastn (Z.to_nat 65536) lap) B = Some D -> bytes B -> src_at srcm 0 B ->
    (forall a, 0 <= get srcm a < 256) -> src_at m0 0 lap -> Z.of_nat (length D) <= cap ->
    let '(r, m, k) := decompress_ring_wrap fastloop srcm (Z.of_nat (length B)) cap (Z.of_nat (length lap)) m0 in
    r = Z.of_nat (length D) /\ forall i, 0 <= i < Z.of_nat (length D) -> get m i = nth (Z.to_nat i) D 0.
Proof. exact ring_wrap_block. Qed.
Print Assumptions C05_ring_wrap_block.
