(* C05 - Every spec-valid block decodes to the specified content in every decoder;
   conversely success implies the output is what the specification's sequence
   semantics define.

   Judge: Spec.BlockSpec (written from doc/lz4_Block_format.md): [strict_valid hist B = Some D]
   says that B parses into sequences, satisfies the end-of-block conditions and that its
   sequences executed on top of the history [hist] produce D.
   Decoder: Model.Dec.dec_generic through the entry points of Model.DecApi.  Memory is
   compared pointwise: [decodes_to res D] = the return value is |D| and the destination
   image holds D at [0,|D|).  [hist_placed] says where the history lives (contiguous
   prefix below the destination, or external dictionary).  The block is ANY byte list
   accepted by the specification, the source memory ANY memory holding it at [0,|B|), the
   initial destination content and the capacity (>= |D|) are arbitrary. *)
From Coq Require Import ZArith List Lia Bool.
From LZ4V Require Import Gen.Consts Spec.BlockSpec Model.Mem Model.Dec Model.DecApi.
From LZ4V Require Import Proofs.DecRefineBase Proofs.DecRefineSafe Proofs.DecRefineTop Proofs.DecRefineApi.
Import ListNotations.
Local Open Scope Z_scope.

(* Every specification-valid block decodes to the specified content: LZ4_FAST_DEC_LOOP on or
   off, every history placement of LZ4_decompress_safe_usingDict - none, contiguous prefix of any
   size (the 64 KB-1 dispatch to withPrefix64k included), external dictionary of any size (matches
   inside the dictionary and matches straddling dictionary and output included) - every capacity
   >= |D|, every initial destination content. *)
Theorem C05_valid_decodes :
  forall (fastloop : bool) (pl : placement) (B hist D : list Z) (srcm dictm : mem) (cap : Z) (m0 : mem),
    strict_valid (lastn (Z.to_nat 65536) hist) B = Some D -> bytes B -> src_at srcm 0 B ->
    hist_placed pl hist dictm m0 -> Z.of_nat (length D) <= cap ->
    decodes_to (decompress_usingDict fastloop false srcm (Z.of_nat (length B)) 0 cap pl dictm (Z.of_nat (length hist)) m0) D.
Proof. exact valid_decodes. Qed.
Print Assumptions C05_valid_decodes.

Theorem C05_valid_decodes_safe :
  forall (fastloop : bool) (B D : list Z) (srcm : mem) (cap : Z) (m0 : mem),
    strict_valid [] B = Some D -> bytes B -> src_at srcm 0 B -> Z.of_nat (length D) <= cap ->
    decodes_to (decompress_safe fastloop srcm (Z.of_nat (length B)) cap m0) D.
Proof. exact valid_decodes_nodict. Qed.
Print Assumptions C05_valid_decodes_safe.

(* finding F5: the block 10 41 00 00 50 62 63 64 65 66 (one literal, then a match with
   offset 0) is rejected by the specification but decoded "successfully" (return 10) by the
   model of LZ4_decompress_safe, with the fast loop on and off - exactly as the real code does. *)
Theorem C05_success_sound_strict_refuted :
  exists (blk : list Z) (cap : Z),
    bytes blk /\
    (forall fastloop, let '(r, m, k) := decompress_safe fastloop (mem_of_list 0 blk) (Z.of_nat (length blk)) cap empty in r = 10) /\
    spec_decode [] blk = None.
Proof. exact success_sound_strict_refuted. Qed.
Print Assumptions C05_success_sound_strict_refuted.

(* The hypotheses are satisfiable by a non-trivial state: a block with an overlapping match
   (offset 2) reaching into a 3-byte prefix, decoded into a pre-filled buffer. *)
Example C05_nonvacuous :
  let hist := [120; 121; 122] in
  let B := [35; 97; 98; 5; 0; 80; 99; 100; 101; 102; 103] in
  strict_valid hist B = Some [97; 98; 120; 121; 122; 97; 98; 120; 121; 99; 100; 101; 102; 103]
  /\ (let '(r, m, k) := decompress_usingDict false false (mem_of_list 0 B) 11 0 14 PPrefix empty 3
                          (store_list (mem_of_list 0 [7; 7; 7; 7; 7; 7; 7; 7; 7; 7; 7; 7; 7; 7]) (-3) hist) in
      (r, load_list m 0 14)) = (14, [97; 98; 120; 121; 122; 97; 98; 120; 121; 99; 100; 101; 102; 103]).
Proof. vm_compute. split; reflexivity. Qed.
