(* C12 - Dictionary compression round-trips and never modifies a shared dictionary (fast family).

   - C12_loadDict_inv: after LZ4_loadDict / LZ4_loadDictSlow of ANY size: currentOffset = 64 KB, only the last
     min(size, 64 KB) bytes are designated (size < 8: none), every table entry is 0 or in [64 KB - dictSize, 64 KB),
     the stream satisfies [table_inv] and, as a dictionary context, [dict_inv].
   - C12_loadDict_roundtrip: loadDict + a block ANYWHERE in memory (contiguous to the dictionary: prefix mode, or not:
     external-dictionary mode) decodes with the dictionary bytes the decoder is given.
   - C12_attach_roundtrip: a stream prepared by loadDict(Slow), attached to a working stream in ANY reachable state
     (fix F12: the dictionary replaces its history), then a block of any size (<= 4 KB: dictCtx search; > 4 KB: the
     dictionary stream is copied) decodes with the dictionary bytes.
   - C12_dictctx_unchanged: the model's compression step takes the dictionary stream as an input and returns the
     working stream only; the memory is returned unchanged.  This is typing; its real content is the correspondence
     check, which memcmp's the C dictionary stream and the dictionary buffer before/after every use.
   HC (LZ4_loadDictHC, LZ4_attach_HC_dictionary) is not modelled in Coq: direct oracle only.  LZ4F CDict frames: C03. *)
From Coq Require Import ZArith List Lia Bool.
From LZ4V Require Import Gen.Consts Spec.BlockSpec Model.Mem Model.Fast Model.FastApi Model.FastStream
     Proofs.FastSound Proofs.FastStreamMem Proofs.FastStreamProofs Proofs.FastStreamHist Proofs.FastStreamExamples.
Import ListNotations.
Local Open Scope Z_scope.

Theorem C12_loadDict_inv :
  forall m a n slow,
  let c := fst (loadDict m a n slow) in let r := snd (loadDict m a n slow) in
  table_inv c /\ stream_ready c /\ s_cur c = KB64 /\ s_dctx c = None /\ r = s_dictSize c /\
  0 <= s_dictSize c <= KB64 /\
  (n < HASH_UNIT -> s_dictSize c = 0) /\
  (HASH_UNIT <= n -> s_dictSize c = Z.min n KB64 /\ s_dict c + s_dictSize c = a + n) /\
  (forall h, get (s_tab c) h = 0 \/ KB64 - s_dictSize c <= get (s_tab c) h < KB64) /\
  dict_inv (view c) /\ tt_inv c.
Proof. exact loadDict_inv. Qed.
Print Assumptions C12_loadDict_inv.

Theorem C12_loadDict_hist :
  forall m a n slow, 0 <= n -> hist_inv m (fst (loadDict m a n slow)) (load_list m a (Z.to_nat n)).
Proof. exact loadDict_hist. Qed.
Print Assumptions C12_loadDict_hist.

Theorem C12_loadDict_roundtrip :
  forall m a n slow src k cap acc,
  mem_ok m -> 0 <= n -> 0 <= k <= LZ4_MAX_INPUT_SIZE -> 0 < src ->
  let c := fst (loadDict m a n slow) in
  let r := fast_continue m c src k cap acc in
  0 < r_ret r ->
  r_ret r = Z.of_nat (length (r_out r)) /\
  forall K, 65535 <= K ->
    strict_valid (lastn (Z.to_nat K) (load_list m a (Z.to_nat n))) (r_out r) = Some (load_list m src (Z.to_nat k)).
Proof. exact loadDict_roundtrip. Qed.
Print Assumptions C12_loadDict_roundtrip.

Theorem C12_attach_inv :
  forall c d, table_inv c -> attach_pre d ->
  let c' := attach_dictionary c d in
  table_inv c' /\ (tt_inv c -> tt_inv c') /\ (stream_ready c -> stream_ready c').
Proof. exact attach_inv. Qed.
Print Assumptions C12_attach_inv.

Theorem C12_attach_roundtrip :
  forall m c0 a n slow src k cap acc,
  mem_ok m -> table_inv c0 -> tt_inv c0 -> stream_ready c0 -> 0 <= n -> 0 <= k <= LZ4_MAX_INPUT_SIZE -> 0 < src ->
  let d := fst (loadDict m a n slow) in
  let c := attach_dictionary c0 (Some d) in
  let r := fast_continue m c src k cap acc in
  0 < r_ret r ->
  r_ret r = Z.of_nat (length (r_out r)) /\
  forall K, 65535 <= K ->
    strict_valid (lastn (Z.to_nat K) (load_list m a (Z.to_nat n))) (r_out r) = Some (load_list m src (Z.to_nat k)).
Proof. exact attach_roundtrip. Qed.
Print Assumptions C12_attach_roundtrip.

Theorem C12_dictctx_unchanged :
  forall m c src n cap acc, fst (fst (step (m, c) (OContinue src n cap acc))) = m.
Proof. exact continue_mem_unchanged. Qed.
Print Assumptions C12_dictctx_unchanged.

(* an 81-byte dictionary, a 78-byte block sharing 60 bytes with it: 20 compressed bytes through loadDict and through
   attach alike, decodable with the dictionary and NOT without it *)
Example C12_hyp_satisfiable : mem_ok ex_m /\ table_inv s_init /\ tt_inv s_init /\ stream_ready s_init.
Proof. exact (conj ex_m_ok (conj table_inv_init (conj tt_inv_init stream_ready_init))). Qed.
Example C12_loadDict_nonvacuous :
  r_ret ex_r1 = 20 /\ r_ret ex_r2 = 47 /\
  strict_valid ex_dict (r_out ex_r1) = Some ex_b1 /\
  strict_valid (ex_dict ++ ex_b1) (r_out ex_r2) = Some ex_b2 /\
  strict_valid [] (r_out ex_r1) = None.
Proof. exact ex_results. Qed.
Example C12_attach_nonvacuous :
  r_ret ex_ra = 20 /\ strict_valid ex_dict (r_out ex_ra) = Some ex_b1 /\ strict_valid [] (r_out ex_ra) = None.
Proof. exact ex_attach. Qed.

(* ================================================================ HC, lz4mid levels (compression levels 1 and 2)
   - C12_hc_mid_loadDict: LZ4_loadDictHC of ANY size at an lz4mid level: only the last min(size, 64 KB) bytes are designated,
     dictLimit = lowLimit = 64 KB, every entry of both hash tables (LZ4MID_fillHTable, both loops) is an index below
     64 KB + dictSize, the context is clean and can serve as a dictionary context ([d_ok]: this includes [dsearch_ok] -
     every table entry is 0 or an index of the dictionary's own prefix, which is at most 64 KB long - what the in-place
     search LZ4MID_searchExtDict needs to stay inside the dictionary buffer).
   - C12_hc_mid_loadDict_roundtrip: loadDictHC + a block ANYWHERE in memory decodes with the dictionary bytes.
   - C12_hc_mid_attach_roundtrip: LZ4_attach_HC_dictionary onto a working stream that has not started, both streams at
     lz4mid levels: whether the dictionary context is copied (first block > 4 KB) or searched in place (usingDictCtxHc,
     LZ4MID_searchExtDict = Model.HcMidDict.dict_search with gDictEndIndex = lowLimit), the block decodes with the
     dictionary bytes.  Only the cross-strategy search (dictionary stream at a level >= 3, LZ4MID_searchHCDict) is NOT
     modelled: direct oracle only. *)
From LZ4V Require Import Model.HcEmit Model.HcMid Model.HcMidStream Proofs.HcMidStreamProofs Proofs.HcMidStreamHist Proofs.HcMidStreamExamples.

Theorem C12_hc_mid_loadDict :
  forall m c a n c' r,
  0 <= n -> 0 <= a -> hs_loadDict m c a n = Some (c', r) ->
  hs_ok c' /\ d_ok (hs_core c') /\ hs_dctx c' = None /\ r = Z.min n K64 /\
  k_prefixStart (hs_core c') = a + n - r /\ k_end (hs_core c') = a + n /\
  k_dictLimit (hs_core c') = K64 /\ k_lowLimit (hs_core c') = K64 /\ k_dirty (hs_core c') = false /\
  is_mid (k_level (hs_core c')) = true.
Proof. exact hs_loadDict_ok. Qed.
Print Assumptions C12_hc_mid_loadDict.

Theorem C12_hc_mid_loadDict_roundtrip :
  forall m c a n c' r src k cap ret consumed out hw c'',
  hmem_ok m -> 0 <= n -> 0 <= a -> 0 < src -> 0 <= k < 2147483648 -> 0 <= cap ->
  hs_loadDict m c a n = Some (c', r) ->
  hs_continue m c' src k cap = Some (HRes ret consumed out hw c'') ->
  (compressBound k <= cap -> k <= LZ4_MAX_INPUT_SIZE -> 0 < ret) /\
  (0 < ret -> ret = Z.of_nat (length out) /\ ret <= Z.max cap (compressBound k) /\ consumed = k /\
              win_strict (load_list m a (Z.to_nat n)) out (load_list m src (Z.to_nat k))).
Proof. exact hc_loadDict_roundtrip. Qed.
Print Assumptions C12_hc_mid_loadDict_roundtrip.

Theorem C12_hc_mid_attach_roundtrip :
  forall m c0 d a n dc r src k cap ret consumed out hw c'',
  hmem_ok m -> hs_ok c0 -> k_dirty (hs_core c0) = false -> k_prefixStart (hs_core c0) = 0 ->
  0 <= n -> 0 <= a -> 0 < src -> 0 <= k < 2147483648 -> 0 <= cap ->
  hs_loadDict m d a n = Some (dc, r) ->
  hs_continue m (hs_attach c0 (Some dc)) src k cap = Some (HRes ret consumed out hw c'') ->
  (compressBound k <= cap -> k <= LZ4_MAX_INPUT_SIZE -> 0 < ret) /\
  (0 < ret -> ret = Z.of_nat (length out) /\ ret <= Z.max cap (compressBound k) /\ consumed = k /\
              win_strict (load_list m a (Z.to_nat n)) out (load_list m src (Z.to_nat k))).
Proof. exact hc_attach_roundtrip. Qed.
Print Assumptions C12_hc_mid_attach_roundtrip.

(* LZ4_saveDictHC while a dictionary context is attached (fix F18): fewer bytes saved than the prefix holds => the
   dictionary is detached; the whole prefix saved => it stays; either way what the next call designates is a tail of H *)
Theorem C12_hc_mid_saveDict_attached :
  forall m c a n H,
  hmem_ok m -> hs_ok c -> 0 < a -> (hs_dctx c = None \/ k_xlen (hs_core c) = 0) ->
  (forall d, hs_dctx c = Some d -> a + K64 <= k_prefixStart d \/ k_end d <= a) ->
  hhist_invd m (hs_core c) (hs_dctx c) H ->
  hhist_invd (fst (fst (hs_saveDict m c a n))) (hs_core (snd (fst (hs_saveDict m c a n)))) (hs_dctx (snd (fst (hs_saveDict m c a n)))) H.
Proof. exact hs_saveDict_histd. Qed.
Print Assumptions C12_hc_mid_saveDict_attached.

Example C12_hc_mid_nonvacuous :
  hmem_ok ex_m /\
  strict_valid ex_dict (ex_hout ex_hst1 (HContinue 3000 78 200)) = Some ex_b1 /\
  strict_valid [] (ex_hout ex_hst1 (HContinue 3000 78 200)) = None.
Proof. exact (conj ex_hmem ex_hresults). Qed.
(* attach + a small first block: the dictionary context is searched in place (effective pair = fresh context, Some dictionary) *)
Example C12_hc_mid_attach_nonvacuous :
  d_ok (hs_core ex_hd) /\ hstream_pre (ex_m, ex_hc0) [] ex_hops_attach /\
  htrace (ex_m, ex_hc0) ex_hops_attach = [Some (0, 0); Some (20, 78); Some (18, 63)] /\
  hs_effective ex_m (snd ex_hst1a) 3000 78 = Some (k_init_internal (hs_core ex_hc0) 3000, Some (hs_core ex_hd)) /\
  strict_valid ex_dict (ex_hout ex_hst1a (HContinue 3000 78 200)) = Some ex_b1 /\
  strict_valid [] (ex_hout ex_hst1a (HContinue 3000 78 200)) = None.
Proof. exact (conj ex_hd_ok (conj ex_hstream_pre_attach (conj ex_htrace_attach ex_hresults_attach))). Qed.
(* the F18 history inside the theorems: attach, block, saveDictHC of 40 of 78 bytes, next block right after the saved bytes *)
Example C12_hc_mid_f18_nonvacuous :
  hstream_pre (ex_m, ex_hc0) [] ex_hops_f18 /\
  htrace (ex_m, ex_hc0) ex_hops_f18 = [Some (0, 0); Some (20, 78); Some (40, 0); Some (0, 0); Some (49, 63)] /\
  hs_dctx (snd ex_hst4_f18) = None /\
  strict_valid (ex_dict ++ ex_b1) (ex_hout ex_hst4_f18 (HContinue 5040 63 200)) = Some ex_b2.
Proof. exact (conj ex_hstream_pre_f18 (conj ex_htrace_f18 ex_hresults_f18)). Qed.

(* ================================================================ HC, hash-chain levels (compression levels 3..9)
   - C12_hc_chain_loadDict: LZ4_loadDictHC of ANY size: only the last min(size, 64 KB) bytes are designated, dictLimit = lowLimit
     = 64 KB, the dictionary is indexed by LZ4HC_Insert (when >= 4 bytes) and the tables keep the chain invariant, the context
     is clean and can serve as a dictionary context.
   - C12_hc_chain_loadDict_roundtrip: loadDictHC + a block ANYWHERE in memory decodes with the dictionary bytes.
   - C12_hc_chain_attach_roundtrip: LZ4_attach_HC_dictionary onto a working stream that has not started; whenever the call stays
     in the model (first block > 4 KB: the dictionary context is copied and LZ4HC_setExternalDict indexes its last bytes)
     the block decodes with the dictionary bytes.  The in-place search LZ4HC_searchExtDict (<= 4 KB) is NOT modelled. *)
From LZ4V Require Import Model.HcChain Model.HcChainApi Model.HcChainStream Proofs.HcChainStreamProofs Proofs.HcChainStreamHist Proofs.HcChainStreamExamples.

Theorem C12_hc_chain_loadDict :
  forall m c a n c' r,
  0 <= n -> 0 <= a -> cs_loadDict m c a n = Some (c', r) ->
  cs_ok c' /\ d_ok (cs_core c') /\ kc_ok (cs_core c') (cs_chain c') /\ hs_dctx (cs_hs c') = None /\ r = Z.min n K64 /\
  k_prefixStart (cs_core c') = a + n - r /\ k_end (cs_core c') = a + n /\
  k_dictLimit (cs_core c') = K64 /\ k_lowLimit (cs_core c') = K64 /\ k_dirty (cs_core c') = false /\
  chain_level (k_level (cs_core c')) = true.
Proof. exact cs_loadDict_ok. Qed.
Print Assumptions C12_hc_chain_loadDict.

Theorem C12_hc_chain_loadDict_roundtrip :
  forall m c a n c' r src k cap ret consumed out hw c'',
  hmem_ok m -> 0 <= n -> 0 <= a -> 0 < src -> 0 <= k < 2147483648 -> 0 <= cap ->
  cs_loadDict m c a n = Some (c', r) ->
  cs_continue m c' src k cap = Some (CRes ret consumed out hw c'') ->
  (compressBound k <= cap -> k <= LZ4_MAX_INPUT_SIZE -> 0 < ret) /\
  (0 < ret -> ret = Z.of_nat (length out) /\ ret <= Z.max cap (compressBound k) /\ consumed = k /\
              win_strict (load_list m a (Z.to_nat n)) out (load_list m src (Z.to_nat k))).
Proof. exact chain_loadDict_roundtrip. Qed.
Print Assumptions C12_hc_chain_loadDict_roundtrip.

Theorem C12_hc_chain_attach_roundtrip :
  forall m c0 d a n dc r src k cap ret consumed out hw c'',
  hmem_ok m -> cs_ok c0 -> k_dirty (cs_core c0) = false -> k_prefixStart (cs_core c0) = 0 ->
  0 <= n -> 0 <= a -> 0 < src -> 0 <= k < 2147483648 -> 0 <= cap ->
  cs_loadDict m d a n = Some (dc, r) ->
  cs_continue m (cs_attach c0 (Some dc)) src k cap = Some (CRes ret consumed out hw c'') ->
  (compressBound k <= cap -> k <= LZ4_MAX_INPUT_SIZE -> 0 < ret) /\
  (0 < ret -> ret = Z.of_nat (length out) /\ ret <= Z.max cap (compressBound k) /\ consumed = k /\
              win_strict (load_list m a (Z.to_nat n)) out (load_list m src (Z.to_nat k))).
Proof. exact chain_attach_roundtrip. Qed.
Print Assumptions C12_hc_chain_attach_roundtrip.

Example C12_hc_chain_nonvacuous :
  hmem_ok ex_m /\
  strict_valid ex_dict (ex_cout ex_cst1 (CContinue 3000 78 200)) = Some ex_b1 /\
  strict_valid [] (ex_cout ex_cst1 (CContinue 3000 78 200)) = None.
Proof. exact (conj ex_m_ok ex_cresults). Qed.

(* ================================================================ HC, levels 10..12 (optimal parser; instance for levels 3..12)
   - C12_hc_opt_loadDict / _loadDict_roundtrip / _attach_roundtrip: the statements of the C12_hc_chain_* theorems for
     Model/HcOptStream.v (LZ4_loadDictHC is the same code for lz4hc and lz4opt: LZ4HC_Insert; it also clears favorDecSpeed). *)
From LZ4V Require Import Model.HcOpt Model.HcOptApi Model.HcTabStream Model.HcOptStream Proofs.HcTabStreamProofs Proofs.HcOptStreamProofs Proofs.HcOptStreamExamples.

Theorem C12_hc_opt_loadDict :
  forall m c a n c' r,
  0 <= n -> 0 <= a -> os_loadDict m c a n = Some (c', r) ->
  ts_ok c' /\ d_ok (ts_core c') /\ kc_ok (ts_core c') (ts_chain c') /\ hs_dctx (ts_hs c') = None /\ r = Z.min n K64 /\
  k_prefixStart (ts_core c') = a + n - r /\ k_end (ts_core c') = a + n /\
  k_dictLimit (ts_core c') = K64 /\ k_lowLimit (ts_core c') = K64 /\ k_dirty (ts_core c') = false /\
  lvl_all (k_level (ts_core c')) = true.
Proof. exact os_loadDict_ok. Qed.
Print Assumptions C12_hc_opt_loadDict.

Theorem C12_hc_opt_loadDict_roundtrip :
  forall m c a n c' r src k cap ret consumed out hw c'',
  hmem_ok m -> 0 <= n -> 0 <= a -> 0 < src -> 0 <= k < 2147483648 -> 0 <= cap ->
  os_loadDict m c a n = Some (c', r) ->
  os_continue m c' src k cap = Some (TRes ret consumed out hw c'') ->
  (compressBound k <= cap -> k <= LZ4_MAX_INPUT_SIZE -> 0 < ret) /\
  (0 < ret -> ret = Z.of_nat (length out) /\ ret <= Z.max cap (compressBound k) /\ consumed = k /\
              win_strict (load_list m a (Z.to_nat n)) out (load_list m src (Z.to_nat k))).
Proof. exact os_loadDict_roundtrip. Qed.
Print Assumptions C12_hc_opt_loadDict_roundtrip.

Theorem C12_hc_opt_attach_roundtrip :
  forall m c0 d a n dc r src k cap ret consumed out hw c'',
  hmem_ok m -> ts_ok c0 -> k_dirty (ts_core c0) = false -> k_prefixStart (ts_core c0) = 0 ->
  0 <= n -> 0 <= a -> 0 < src -> 0 <= k < 2147483648 -> 0 <= cap ->
  os_loadDict m d a n = Some (dc, r) ->
  os_continue m (ts_attach c0 (Some dc)) src k cap = Some (TRes ret consumed out hw c'') ->
  (compressBound k <= cap -> k <= LZ4_MAX_INPUT_SIZE -> 0 < ret) /\
  (0 < ret -> ret = Z.of_nat (length out) /\ ret <= Z.max cap (compressBound k) /\ consumed = k /\
              win_strict (load_list m a (Z.to_nat n)) out (load_list m src (Z.to_nat k))).
Proof. exact os_attach_roundtrip. Qed.
Print Assumptions C12_hc_opt_attach_roundtrip.

Example C12_hc_opt_nonvacuous :
  hmem_ok ex_m /\
  strict_valid ex_dict (ex_oout ex_ost1 (TContinue 3000 78 200)) = Some ex_b1 /\
  strict_valid [] (ex_oout ex_ost1 (TContinue 3000 78 200)) = None.
Proof. exact (conj ex_m_ok ex_oresults). Qed.
