(* C16 - Partial decoding returns exactly the requested prefix.

   Judge: Spec.BlockSpec.strict_valid (content D of a valid block under history hist).
   Decoder: the partial entry points of Model.DecApi (LZ4_decompress_safe_partial,
   _partial_usingDict), i.e. Model.Dec.dec_generic with partial = true and output end
   min(target, capacity).  [decodes_prefix res D t]: the return value is min(t,|D|) and the
   destination starts with that prefix of D.  The block is ANY byte list the specification
   accepts, the source memory ANY memory holding it at [0,|B|) (so the k bytes that may follow
   it are arbitrary), target t >= 0, capacity >= min(t,|D|), initial destination content
   arbitrary. *)
From Coq Require Import ZArith List Lia Bool.
From LZ4V Require Import Gen.Consts Spec.BlockSpec Model.Mem Model.Dec Model.DecApi.
From LZ4V Require Import Proofs.DecSafe Proofs.DecApiSafe.
From LZ4V Require Import Proofs.DecRefineBase Proofs.DecRefineSafe Proofs.DecRefineTop Proofs.DecRefineApi.
From LZ4V Require Import Model.DecSem.
From LZ4V Require Import Proofs.DecConverse Proofs.DecConversePartial Proofs.DecConversePartialTop.
Import ListNotations.
Local Open Scope Z_scope.

(* LZ4_FAST_DEC_LOOP on or off; every history placement of LZ4_decompress_safe_partial_usingDict
   (none, contiguous prefix of any size with the 64 KB-1 dispatch, external dictionary); k >= 0
   arbitrary bytes may be declared after the block when t <= |D|. *)
Theorem C16_partial_exact :
  forall (fastloop : bool) (pl : placement) (B hist D : list Z) (srcm dictm : mem) (t cap k : Z) (m0 : mem),
    strict_valid (lastn (Z.to_nat 65536) hist) B = Some D -> bytes B -> src_at srcm 0 B ->
    hist_placed pl hist dictm m0 -> 0 <= t -> Z.min t (Z.of_nat (length D)) <= cap ->
    0 <= k -> (k = 0 \/ t <= Z.of_nat (length D)) ->
    decodes_prefix (decompress_usingDict fastloop true srcm (Z.of_nat (length B) + k) t cap pl dictm (Z.of_nat (length hist)) m0) D t.
Proof. exact partial_exact. Qed.
Print Assumptions C16_partial_exact.

Theorem C16_partial_exact_safe :
  forall (fastloop : bool) (B D : list Z) (srcm : mem) (t cap k : Z) (m0 : mem),
    strict_valid [] B = Some D -> bytes B -> src_at srcm 0 B ->
    0 <= t -> Z.min t (Z.of_nat (length D)) <= cap -> 0 <= k -> (k = 0 \/ t <= Z.of_nat (length D)) ->
    decodes_prefix (decompress_safe_partial fastloop srcm (Z.of_nat (length B) + k) t cap m0) D t.
Proof. exact partial_exact_nodict. Qed.
Print Assumptions C16_partial_exact_safe.

(* declared srcSize = |B| + k with arbitrary following bytes and t <= |D|: returns t with the right prefix *)
Theorem C16_trailing_bytes :
  forall (fastloop : bool) (pl : placement) (B hist D : list Z) (srcm dictm : mem) (t cap k : Z) (m0 : mem),
    strict_valid (lastn (Z.to_nat 65536) hist) B = Some D -> bytes B -> src_at srcm 0 B ->
    hist_placed pl hist dictm m0 -> 0 <= t <= Z.of_nat (length D) -> t <= cap -> 0 <= k ->
    let '(r, m, _) := decompress_usingDict fastloop true srcm (Z.of_nat (length B) + k) t cap pl dictm (Z.of_nat (length hist)) m0 in
    r = t /\ forall i, 0 <= i < t -> get m i = nth (Z.to_nat i) D 0.
Proof. exact partial_trailing_bytes. Qed.
Print Assumptions C16_trailing_bytes.

(* Writes never go beyond min(target, capacity): every store of the model is accompanied by
   the range test [wr a n] against [0, min(target,cap)) folded into the sticky flag; the flag
   stays true for ALL inputs, fast loop on or off, every placement (this is the C02 theorem
   at the partial entry points), and the result is at most min(target, cap). *)
Theorem C16_no_write_beyond :
  forall fastloop srcm srcSize target cap m0,
    src_bytes srcm -> 0 <= srcSize ->
    let '(r, m, ok) := decompress_safe_partial fastloop srcm srcSize target cap m0 in
    ok = true /\ (r < 0 \/ (0 <= r <= cap /\ r <= target)).
Proof. exact decompress_safe_partial_ok. Qed.
Print Assumptions C16_no_write_beyond.

Theorem C16_no_write_beyond_usingDict :
  forall fastloop srcm srcSize target cap pl dictm dictSize m0,
    src_bytes srcm -> 0 <= srcSize -> 0 <= dictSize ->
    let '(r, m, ok) := decompress_usingDict fastloop true srcm srcSize target cap pl dictm dictSize m0 in
    ok = true /\ (r < 0 \/ (0 <= r <= cap /\ r <= target)).
Proof. exact partial_usingDict_no_write_beyond. Qed.
Print Assumptions C16_no_write_beyond_usingDict.

(* The hypotheses are satisfiable: a block with an overlapping match reaching into a 3-byte
   prefix, two trailing bytes declared in srcSize, stopped in the middle of the match (t = 6)
   with capacity exactly 6; bytes beyond the capacity keep their initial value 7. *)
Example C16_nonvacuous :
  let hist := [120; 121; 122] in
  let B := [35; 97; 98; 5; 0; 80; 99; 100; 101; 102; 103] in
  strict_valid hist B = Some [97; 98; 120; 121; 122; 97; 98; 120; 121; 99; 100; 101; 102; 103]
  /\ (let '(r, m, k) := decompress_usingDict false true (mem_of_list 0 (B ++ [255; 255])) 13 6 6 PPrefix empty 3
                          (store_list (mem_of_list 0 [7; 7; 7; 7; 7; 7; 7; 7; 7; 7]) (-3) hist) in
      (r, k, load_list m 0 10)) = (6, true, [97; 98; 120; 121; 122; 97; 7; 7; 7; 7]).
Proof. vm_compute. split; reflexivity. Qed.

(* Converse for the partial entry points: ANY bytes, any target and capacity, LZ4_FAST_DEC_LOOP
   on or off, every history placement.  Whenever LZ4_decompress_safe_partial(_usingDict) reports
   success with result r, either some parsed sequence of the input has match offset 0 (finding
   F5), or the first r bytes of the destination are the first r bytes of [specified_output]: the
   parsed sequences of the input executed in order with the specification's own read_len /
   copy_match for as long as the input provides them (a literal run cut short by the end of the
   input contributes the literals that are present).  For an input that is a complete block the
   specified output is exactly the decoded content ([C16_specified_output_valid]). *)
Theorem C16_partial_sound :
  forall (fastloop : bool) (pl : placement) (B hist : list Z) (srcm dictm : mem) (t cap : Z) (m0 : mem),
    (forall a, 0 <= get srcm a < 256) -> bytes B -> src_at srcm 0 B -> hist_placed pl hist dictm m0 ->
    prefix_sound (decompress_usingDict fastloop true srcm (Z.of_nat (length B)) t cap pl dictm (Z.of_nat (length hist)) m0)
                 (lastn (Z.to_nat 65536) hist) B.
Proof. exact partial_sound. Qed.
Print Assumptions C16_partial_sound.

Theorem C16_partial_sound_safe :
  forall (fastloop : bool) (B : list Z) (srcm : mem) (t cap : Z) (m0 : mem),
    (forall a, 0 <= get srcm a < 256) -> bytes B -> src_at srcm 0 B ->
    prefix_sound (decompress_safe_partial fastloop srcm (Z.of_nat (length B)) t cap m0) [] B.
Proof. exact partial_sound_nodict. Qed.
Print Assumptions C16_partial_sound_safe.

Theorem C16_specified_output_valid :
  forall (hist B D : list Z), spec_decode hist B = Some D -> specified_output hist B = D.
Proof. exact specified_output_valid. Qed.
Print Assumptions C16_specified_output_valid.

(* a truncated input (the block of C16_nonvacuous cut inside its final literal run): the partial
   decoder succeeds with the 11 bytes the input defines; the specification's parser rejects the
   truncated block, the specified output is those 11 bytes *)
Example C16_converse_nonvacuous :
  let hist := [120; 121; 122] in
  let B := [35; 97; 98; 5; 0; 80; 99; 100] in
  spec_decode hist B = None
  /\ specified_output hist B = [97; 98; 120; 121; 122; 97; 98; 120; 121; 99; 100]
  /\ zero_off (S (length B)) B = false
  /\ (let '(r, m, k) := decompress_usingDict true true (mem_of_list 0 B) 8 20 20 PPrefix empty 3
                          (store_list (mem_of_list 0 [7; 7; 7; 7; 7; 7; 7; 7; 7; 7; 7; 7; 7; 7; 7; 7; 7; 7; 7; 7]) (-3) hist) in
      (r, load_list m 0 12)) = (11, [97; 98; 120; 121; 122; 97; 98; 120; 121; 99; 100; 7]).
Proof. vm_compute. repeat split; reflexivity. Qed.
