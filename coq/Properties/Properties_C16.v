(* C16 - Partial decoding returns exactly the requested prefix.

   Judge: Spec.BlockSpec.strict_valid (content D of a valid block).  Decoder: the partial
   entry points of Model.DecApi (LZ4_decompress_safe_partial, _partial_usingDict), i.e.
   Model.Dec.dec_generic with partial = true and output end min(target, capacity). *)
From Coq Require Import ZArith List Lia Bool.
From LZ4V Require Import Gen.Consts Spec.BlockSpec Model.Mem Model.Dec Model.DecApi.
From LZ4V Require Import Proofs.DecSafe Proofs.DecApiSafe.
Import ListNotations.
Local Open Scope Z_scope.

(* Writes never go beyond min(target, capacity): every store of the model is accompanied by
   the range test [wr a n] against [0, min(target,cap)) folded into the sticky flag; the flag
   stays true for ALL inputs (this is the C02 theorem instantiated at the partial entry
   points), and the result is at most min(target, cap). *)
Theorem C16_no_write_beyond :
  forall fastloop srcm srcSize target cap m0,
    src_bytes srcm -> 0 <= srcSize ->
    let '(r, m, ok) := decompress_safe_partial fastloop srcm srcSize target cap m0 in
    ok = true /\ (r < 0 \/ (0 <= r <= cap /\ r <= target)).
Proof. exact decompress_safe_partial_ok. Qed.
Print Assumptions C16_no_write_beyond.

Theorem C16_no_write_beyond_usingDict :
  forall fastloop srcm srcSize target cap pl dictm dictSize m0,
    src_bytes srcm -> 0 <= srcSize -> 0 <= dictSize ->
    let '(r, m, ok) := decompress_usingDict fastloop true srcm srcSize target cap pl dictm dictSize m0 in
    ok = true /\ (r < 0 \/ (0 <= r <= cap /\ (true = true -> r <= target))).
Proof. intros. apply decompress_usingDict_ok; assumption. Qed.
Print Assumptions C16_no_write_beyond_usingDict.
