(* C10 - LZ4F bound functions guarantee success and are never exceeded.

   Model: [Model.FrameCSizes] follows the capacity checks and the buffering logic of
   lib/lz4frame.c (LZ4F_compressBound_internal / LZ4F_compressBound / LZ4F_compressFrameBound,
   LZ4F_compressBegin_internal, LZ4F_compressUpdateImpl with the flush and re-check on a
   switch between compressed and uncompressed updates, LZ4F_flush, LZ4F_compressEnd,
   LZ4F_compressFrame with LZ4F_optimalBSID) decision by decision, sizes only.  The stored
   size of each block is an arbitrary value in [1, content length] read from a tape
   ([tape : list Z], quantified universally), exactly the content length in uncompressed
   mode.  Every call reports the number of bytes written ([o_ret = Ok w]) or the LZ4F error
   code, and [o_ext], the highest destination offset it may touch (LZ4F_makeBlock is
   charged BHSize + content length + checksum at its output position, whatever the block
   finally compresses to).

   [reachable c] : c is the context after ANY list of operations (Begin with any valid
   preferences / compressUpdate / uncompressedUpdate / flush / compressEnd, any sizes, any
   capacities, any tape) applied to a fresh context.  [op_wf] only demands sizes >= 0 and
   a blockSizeID for which LZ4F_getBlockSize succeeds (0,4,5,6,7).

   Numbers are unbounded integers (no size_t wrap-around, no (unsigned) cast of
   nbFullBlocks): identical to the C arithmetic for srcSize < 2^32 * 64 KB. *)
From Coq Require Import ZArith List Lia Bool.
From LZ4V Require Import Gen.Consts Model.FrameCSizes.
From LZ4V Require Import Proofs.FrameCSizesProofs Proofs.FrameCSizesOps Proofs.FrameCSizesHist.
Import ListNotations.
Local Open Scope Z_scope.

(* (a) LZ4F_compressBound(srcSize, prefs) suffices for one LZ4F_compressUpdate, whatever is
   buffered (any reachable context whose buffered data, if any, was put there by
   compressUpdate calls): the call succeeds, and
   written <= touched <= compressBound_internal(srcSize, prefs, tmpInSize) - frameEnd
           <= LZ4F_compressBound(srcSize, prefs) <= capacity. *)
Theorem C10_update_fits : forall c n cap tape,
  reachable c -> c_stage c = 1 -> 0 <= n ->
  (c_unc c = false \/ c_tmpInSize c = 0) ->
  compressBound n (Some (c_prefs c)) <= cap ->
  let '(x, c', t') := updateImpl true c false n cap tape in
  exists w, o_ret x = Ok w /\ 0 <= w <= o_ext x /\
    o_ext x <= compressBound_internal n (Some (c_prefs c)) (c_tmpInSize c) - frameEnd (c_prefs c) /\
    compressBound_internal n (Some (c_prefs c)) (c_tmpInSize c) <= compressBound n (Some (c_prefs c)) /\
    compressBound n (Some (c_prefs c)) <= cap.
Proof. exact compress_update_fits. Qed.
Print Assumptions C10_update_fits.

(* the same for LZ4F_uncompressedUpdate after uncompressed updates *)
Theorem C10_uncompressed_update_fits : forall c n cap tape,
  reachable c -> c_stage c = 1 -> 0 <= n ->
  (c_unc c = true \/ c_tmpInSize c = 0) ->
  compressBound n (Some (c_prefs c)) <= cap ->
  let '(x, c', t') := updateImpl true c true n cap tape in
  exists w, o_ret x = Ok w /\ 0 <= w <= o_ext x /\
    o_ext x <= compressBound_internal n (Some (c_prefs c)) (c_tmpInSize c) - frameEnd (c_prefs c) /\
    compressBound_internal n (Some (c_prefs c)) (c_tmpInSize c) <= compressBound n (Some (c_prefs c)) /\
    compressBound n (Some (c_prefs c)) <= cap.
Proof. exact uncompressed_update_fits. Qed.
Print Assumptions C10_uncompressed_update_fits.

(* every buffered amount 0..blockSize-1 is actually reached by compressUpdate calls, so
   (a) is about all of them *)
Theorem C10_buffered_amounts_reachable : forall p t,
  valid_bsid0 (p_bsid p) = true -> p_af p = false -> 0 <= t < getBlockSize (p_bsid p) ->
  exists c, reachable c /\ c_stage c = 1 /\ c_tmpInSize c = t /\ c_unc c = false /\
            c_prefs c = begin_prefs (Some p).
Proof. exact buffered_amounts_reachable. Qed.
Print Assumptions C10_buffered_amounts_reachable.

(* the bound the caller computes from its own preferences is the bound for the preferences
   the context keeps (blockSizeID 0 is replaced by the default in LZ4F_compressBegin) *)
Theorem C10_bound_user_prefs : forall p n, valid_bsid0 (p_bsid p) = true -> 0 <= n ->
  compressBound n (Some (begin_prefs (Some p))) = compressBound n (Some p) /\
  compressBound_internal n (Some (begin_prefs (Some p))) 0 = compressBound_internal n (Some p) 0.
Proof. exact cb_begin_prefs. Qed.
Print Assumptions C10_bound_user_prefs.

(* LZ4F_compressBound(srcSize, NULL) covers a frame begun with NULL preferences *)
Theorem C10_bound_null_prefs : forall n, 0 <= n ->
  compressBound n (Some (begin_prefs None)) <= compressBound n None.
Proof. exact cb_null_ge. Qed.
Print Assumptions C10_bound_null_prefs.

(* (b) LZ4F_compressBound(0, prefs) suffices for LZ4F_flush and LZ4F_compressEnd in every
   reachable context (compressEnd can still report frameSize_wrong when a declared
   content size does not match, which is not a matter of capacity) *)
Theorem C10_flush_end_fit : forall c cap tape,
  reachable c -> compressBound 0 (Some (c_prefs c)) <= cap ->
  (let '(r, c', w) := flush c cap (wr0 tape) in
   exists n, r = Ok n /\ 0 <= n <= w_ext w /\ w_ext w <= cap /\ c_tmpInSize c' = 0) /\
  (let '(x, c', t') := compressEnd c cap tape in
   o_ret x <> Err E_tooSmall /\ o_ret x <> Err E_uninit /\ o_ext x <= cap /\
   (p_csize (c_prefs c) = 0 \/ p_csize (c_prefs c) = c_totalIn c ->
    exists w, o_ret x = Ok w /\ 0 <= w <= o_ext x)).
Proof. exact flush_end_fit. Qed.
Print Assumptions C10_flush_end_fit.

(* (c) LZ4F_compressFrameBound(srcSize, prefs) suffices for LZ4F_compressFrame (prefs may be
   NULL; the smaller block size picked by LZ4F_optimalBSID is covered) *)
Theorem C10_frame_fits : forall po n cap tape,
  prefs_ok po -> 0 <= n -> compressFrameBound n po <= cap ->
  exists w, o_ret (compressFrame po n cap tape) = Ok w /\
    0 <= w <= o_ext (compressFrame po n cap tape) /\
    o_ext (compressFrame po n cap tape) <= compressFrameBound n po.
Proof. exact frame_fits. Qed.
Print Assumptions C10_frame_fits.

(* (d) no call ever touches the destination beyond its capacity: for EVERY history of
   operations (uncompressedUpdate and mode switches with data buffered included), every
   capacity and every tape, each call stays inside the model's domain, touches at most
   [cap] bytes - also when it returns an error - and a success reports at most what was
   touched *)
Theorem C10_never_overflows : forall ops tape, Forall op_wf ops ->
  let '(xs, c, t) := run true cctx0 tape ops in
  Forall2 (fun x o =>
             o_ret x <> OutOfModel /\ 0 <= o_ext x <= cap_of o /\
             (forall w, o_ret x = Ok w -> 0 <= w <= o_ext x)) xs ops.
Proof. exact never_overflows. Qed.
Print Assumptions C10_never_overflows.

(* invariant over all histories: 0 <= tmpInSize < blockSize while a frame is open, nothing
   buffered otherwise or under autoFlush *)
Theorem C10_tmpIn_invariant : forall ops tape, Forall op_wf ops ->
  let '(xs, c, t) := run true cctx0 tape ops in
  0 <= c_tmpInSize c /\
  (0 < c_tmpInSize c -> c_stage c = 1) /\
  (c_stage c = 1 ->
   c_tmpInSize c < c_maxBlockSize c /\
   c_maxBlockSize c = getBlockSize (p_bsid (c_prefs c)) /\
   In (c_maxBlockSize c) blockSizes /\
   (p_af (c_prefs c) = true -> c_tmpInSize c = 0)).
Proof. exact tmpIn_invariant. Qed.
Print Assumptions C10_tmpIn_invariant.

(* (e) defect F1 (repaired in /repo by commit "fix: LZ4F_compressUpdate/uncompressedUpdate:
   account for the block flushed on a mode switch"): without forwarding the flush result
   and re-checking the remaining capacity ([updateImpl false]) statement (d) is false:
   64 KB blocks, block checksums, 1000 bytes buffered by LZ4F_uncompressedUpdate, then
   LZ4F_compressUpdate of 65536 bytes with cap = LZ4F_compressBound(65536) reports success
   with more bytes written than the capacity *)
Theorem C10_never_overflows_nofix_refuted :
  exists ops tape c x c' t' w,
    Forall op_wf ops /\ snd (fst (run false cctx0 tape ops)) = c /\
    step false c tape (OpUpdate 65536 (compressBound 65536 (Some (c_prefs c)))) = (x, c', t') /\
    o_ret x = Ok w /\ compressBound 65536 (Some (c_prefs c)) < w.
Proof. exact never_overflows_nofix_refuted. Qed.
Print Assumptions C10_never_overflows_nofix_refuted.

(* the same history on the current code: LZ4F_ERROR_dstMaxSize_tooSmall *)
Theorem C10_F1_history_now_rejected :
  let '(xs, c, t) := run true cctx0 [] ops_F1 in
  map o_ret xs = [Ok minFHSize; Ok 0; Err E_tooSmall] /\
  Forall2 (fun x o => o_ext x <= cap_of o) xs ops_F1.
Proof. exact F1_history_now_rejected. Qed.
Print Assumptions C10_F1_history_now_rejected.

(* ------------------------------------------------------------------ the premises are satisfiable *)
(* a reachable context with 65535 bytes buffered (64 KB blocks, both checksums); a
   compressUpdate of 3 blocks + 1 byte with exactly LZ4F_compressBound bytes succeeds and
   writes, for incompressible data (empty tape), exactly compressBound - frameEnd bytes *)
Example C10_update_fits_tight :
  let p := mkPrefs 4 true true 0 0 true false in
  let ops := [OpBegin (Some p) 19; OpUpdate 65535 (compressBound 65535 (Some p))] in
  let '(xs, c, t) := run true cctx0 [] ops in
  let n := 3 * 65536 + 1 in
  let '(x, c', t') := updateImpl true c false n (compressBound n (Some p)) [] in
  (c_tmpInSize c, compressBound n (Some p), o_ret x, o_ext x, c_tmpInSize c') =
  (65535, 262184, Ok 262176, 262176, 0).
Proof. vm_compute. reflexivity. Qed.

(* one byte less and the call is refused *)
Example C10_update_one_below :
  let p := mkPrefs 4 true true 0 0 true false in
  let ops := [OpBegin (Some p) 19; OpUpdate 65535 (compressBound 65535 (Some p));
              OpUpdate (3 * 65536 + 1) (compressBound (3 * 65536 + 1) (Some p) - 1)] in
  let '(xs, c, t) := run true cctx0 [] ops in
  map o_ret xs = [Ok 7; Ok 0; Err C10_ERR_dstMaxSize_tooSmall].
Proof. vm_compute. reflexivity. Qed.

(* compressEnd with exactly LZ4F_compressBound(0) bytes, 65535 bytes buffered *)
Example C10_end_tight :
  let p := mkPrefs 4 true true 0 0 true false in
  let ops := [OpBegin (Some p) 19; OpUpdate 65535 (compressBound 65535 (Some p));
              OpEnd (compressBound 0 (Some p))] in
  let '(xs, c, t) := run true cctx0 [] ops in
  (compressBound 0 (Some p), map o_ret xs) = (65551, [Ok 7; Ok 0; Ok 65551]).
Proof. vm_compute. reflexivity. Qed.

(* compressFrame: 4 MB blocks requested, 70000 incompressible bytes, exact bound *)
Example C10_frame_tight :
  let p := mkPrefs 7 true true 5 0 true false in
  (compressFrameBound 70000 (Some p),
   compressFrame (Some p) 70000 (compressFrameBound 70000 (Some p)) [],
   o_ret (compressFrame (Some p) 70000 (compressFrameBound 70000 (Some p) - 1) [])) =
  (70035, mkOut (Ok 70031) 70031 [(70000, 70000)], Err C10_ERR_dstMaxSize_tooSmall).
Proof. vm_compute. reflexivity. Qed.
