(* C02 - Safe block decoding never reads or writes outside the caller's buffers.

   The model [Model.Dec.dec_generic] follows LZ4_decompress_generic decision by
   decision; every load and store it performs is accompanied by a range test
   against the region the API contract grants (source [0,srcSize), destination
   [0,cap) for writes, prefix+destination [rlow,cap) for reads, external
   dictionary [0,dictSize)), accumulated in the sticky flag [ok]; running out
   of fuel also clears [ok].  The theorems say: for ALL source bytes, declared
   sizes, capacities (0 and negative included), targets, initial destination
   contents, dictionary sizes and placements, with the fast loop on or off, the
   flag stays true (no access outside the buffers, termination within the fuel
   srcSize+2) and the result is negative or a size within the capacity
   (within min(target,capacity) for partial decoding). *)
From Coq Require Import ZArith List Lia Bool.
From LZ4V Require Import Gen.Consts Model.Mem Model.Dec Model.DecApi Proofs.DecSafe Proofs.DecApiSafe.
From LZ4V Require Import Model.DecStream Proofs.DecStreamSafe.
Import ListNotations.
Local Open Scope Z_scope.

Theorem C02_no_oob :
  forall fastloop partial dict srcm iend oend lowPrefix rlow dictm dictSize m0,
    src_bytes srcm -> 0 <= iend -> lowPrefix <= 0 ->
    (rlow <= lowPrefix \/ (dict = WithPrefix64k /\ rlow <= -65535)) -> 0 <= dictSize ->
    (dict = WithPrefix64k -> lowPrefix = -65536) ->
    (dict <> UsingExtDict -> dictSize = 0) ->
    let '(r, m, ok) := dec_generic fastloop partial dict srcm iend oend lowPrefix rlow dictm dictSize m0 in
    ok = true /\ (r < 0 \/ 0 <= r <= oend).
Proof. exact dec_generic_safe. Qed.
Print Assumptions C02_no_oob.

Theorem C02_decompress_safe :
  forall fastloop srcm srcSize cap m0,
    src_bytes srcm -> 0 <= srcSize ->
    let '(r, m, ok) := decompress_safe fastloop srcm srcSize cap m0 in
    ok = true /\ (r < 0 \/ 0 <= r <= cap).
Proof. exact decompress_safe_ok. Qed.
Print Assumptions C02_decompress_safe.

Theorem C02_decompress_safe_partial :
  forall fastloop srcm srcSize target cap m0,
    src_bytes srcm -> 0 <= srcSize ->
    let '(r, m, ok) := decompress_safe_partial fastloop srcm srcSize target cap m0 in
    ok = true /\ (r < 0 \/ (0 <= r <= cap /\ r <= target)).
Proof. exact decompress_safe_partial_ok. Qed.
Print Assumptions C02_decompress_safe_partial.

Theorem C02_decompress_usingDict :
  forall fastloop part srcm srcSize target cap pl dictm dictSize m0,
    src_bytes srcm -> 0 <= srcSize -> 0 <= dictSize ->
    let '(r, m, ok) := decompress_usingDict fastloop part srcm srcSize target cap pl dictm dictSize m0 in
    ok = true /\ (r < 0 \/ (0 <= r <= cap /\ (part = true -> r <= target))).
Proof. exact decompress_usingDict_ok. Qed.
Print Assumptions C02_decompress_usingDict.

(* The premises are satisfiable and the flag is not trivially true: a valid block
   decodes with ok = true, and the same model run with a destination that is too
   small for its wild copies is caught by the flag only through the bound tests
   (here: ret < 0, still ok = true). *)
Example C02_nonvacuous :
  let src := [35; 97; 98; 2; 0; 80; 99; 100; 101; 102; 103] in
  (let '(r, m, ok) := decompress_safe true (mem_of_list 0 src) 11 14 empty in (r, ok, load_list m 0 14))
    = (14, true, [97; 98; 97; 98; 97; 98; 97; 98; 97; 99; 100; 101; 102; 103])
  /\ (let '(r, m, ok) := decompress_safe true (mem_of_list 0 src) 11 13 empty in (r <? 0, ok)) = (true, true).
Proof. vm_compute. split; reflexivity. Qed.

(* The streaming decoder: one LZ4_decompress_safe_continue call in whichever mode the LZ4_streamDecode_t
   bookkeeping selects (first call / rolling prefix with the 64 KB-1 threshold / prefix + external dictionary /
   prefix turned into external dictionary after a jump), for ANY input bytes, destination address and capacity:
   the access flag stays true (every load and store inside the source block, [dest, dest+cap), the prefix bytes the
   bookkeeping accounts for - at least 65535 of them when withPrefix64k is selected - and the external dictionary),
   the result is negative or <= cap, and the bookkeeping keeps non-negative sizes. *)
Theorem C02_continue_safe :
  forall fastloop am st srcm srcSize dest cap,
    src_bytes srcm -> 0 <= srcSize -> sd_ok st ->
    let '(r, am', st', ok) := decompress_safe_continue fastloop am st srcm srcSize dest cap in
    ok = true /\ (r < 0 \/ 0 <= r <= cap) /\ sd_ok st'.
Proof. exact decompress_safe_continue_safe. Qed.
Print Assumptions C02_continue_safe.

(* ... and therefore any session of LZ4_setStreamDecode / LZ4_decompress_safe_continue calls, whatever the
   blocks, addresses and capacities (the conjunction of all access flags is true). *)
Theorem C02_stream_session_safe :
  forall fastloop calls am st,
    sd_ok st -> Forall sdcall_ok calls ->
    let '(_, st', ok) := run_sd fastloop am st calls in ok = true /\ sd_ok st'.
Proof. exact stream_session_safe. Qed.
Print Assumptions C02_stream_session_safe.

Example C02_stream_nonvacuous :
  let B1 := [35; 97; 98; 2; 0; 80; 99; 100; 101; 102; 103] in
  let B2 := [10; 14; 0; 80; 49; 50; 51; 52; 53] in
  let calls := [SetSD 0 0; Cont (mem_of_list 0 B1) 11 1000 14; Cont (mem_of_list 0 B2) 9 1014 19;
                Cont (mem_of_list 0 [255; 255; 255]) 3 5000 7] in
  let '(am, st, ok) := run_sd true empty (setStreamDecode 0 0) calls in
  (ok, sd_prefixEnd st, sd_prefixSize st) = (true, 1033, 33).
Proof. vm_compute. reflexivity. Qed.
