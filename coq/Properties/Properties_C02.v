(* C02 - Safe block decoding never reads or writes outside the caller's buffers.

   The model [Model.Dec.dec_generic] follows LZ4_decompress_generic decision by
   decision; every load and store it performs is accompanied by a range test
   against the region the API contract grants (source [0,srcSize), destination
   [0,cap) for writes, prefix+destination [rlow,cap) for reads, external
   dictionary [0,dictSize)), accumulated in the sticky flag [ok]; running out
   of fuel also clears [ok].  The theorems say: for ALL source bytes, declared
   sizes, capacities (0 and negative included), targets, initial destination
   contents, dictionary sizes and placements, with the fast loop on or off, the
   flag stays true (no access outside the buffers, termination within the fuel
   srcSize+2) and the result is negative or a size within the capacity
   (within min(target,capacity) for partial decoding). *)
From Coq Require Import ZArith List Lia Bool.
From LZ4V Require Import Gen.Consts Model.Mem Model.Dec Model.DecApi Proofs.DecSafe Proofs.DecApiSafe.
Import ListNotations.
Local Open Scope Z_scope.

Theorem C02_no_oob :
  forall fastloop partial dict srcm iend oend lowPrefix rlow dictm dictSize m0,
    src_bytes srcm -> 0 <= iend -> lowPrefix <= 0 ->
    (rlow <= lowPrefix \/ (dict = WithPrefix64k /\ rlow <= -65535)) -> 0 <= dictSize ->
    (dict = WithPrefix64k -> lowPrefix = -65536) ->
    (dict <> UsingExtDict -> dictSize = 0) ->
    let '(r, m, ok) := dec_generic fastloop partial dict srcm iend oend lowPrefix rlow dictm dictSize m0 in
    ok = true /\ (r < 0 \/ 0 <= r <= oend).
Proof. exact dec_generic_safe. Qed.
Print Assumptions C02_no_oob.

Theorem C02_decompress_safe :
  forall fastloop srcm srcSize cap m0,
    src_bytes srcm -> 0 <= srcSize ->
    let '(r, m, ok) := decompress_safe fastloop srcm srcSize cap m0 in
    ok = true /\ (r < 0 \/ 0 <= r <= cap).
Proof. exact decompress_safe_ok. Qed.
Print Assumptions C02_decompress_safe.

Theorem C02_decompress_safe_partial :
  forall fastloop srcm srcSize target cap m0,
    src_bytes srcm -> 0 <= srcSize ->
    let '(r, m, ok) := decompress_safe_partial fastloop srcm srcSize target cap m0 in
    ok = true /\ (r < 0 \/ (0 <= r <= cap /\ r <= target)).
Proof. exact decompress_safe_partial_ok. Qed.
Print Assumptions C02_decompress_safe_partial.

Theorem C02_decompress_usingDict :
  forall fastloop part srcm srcSize target cap pl dictm dictSize m0,
    src_bytes srcm -> 0 <= srcSize -> 0 <= dictSize ->
    let '(r, m, ok) := decompress_usingDict fastloop part srcm srcSize target cap pl dictm dictSize m0 in
    ok = true /\ (r < 0 \/ (0 <= r <= cap /\ (part = true -> r <= target))).
Proof. exact decompress_usingDict_ok. Qed.
Print Assumptions C02_decompress_usingDict.

(* The premises are satisfiable and the flag is not trivially true: a valid block
   decodes with ok = true, and the same model run with a destination that is too
   small for its wild copies is caught by the flag only through the bound tests
   (here: ret < 0, still ok = true). *)
Example C02_nonvacuous :
  let src := [35; 97; 98; 2; 0; 80; 99; 100; 101; 102; 103] in
  (let '(r, m, ok) := decompress_safe true (mem_of_list 0 src) 11 14 empty in (r, ok, load_list m 0 14))
    = (14, true, [97; 98; 97; 98; 97; 98; 97; 98; 97; 99; 100; 101; 102; 103])
  /\ (let '(r, m, ok) := decompress_safe true (mem_of_list 0 src) 11 13 empty in (r <? 0, ok)) = (true, true).
Proof. vm_compute. split; reflexivity. Qed.
