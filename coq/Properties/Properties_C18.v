(* C18 - Compression contexts stay correct after any history of reuse (fast family).

   Model: Model.FastStream (streaming / dictionary API of lib/lz4.c) on top of Model.Fast / Model.FastApi;
   a context is the public LZ4_stream_t_internal (hash table, currentOffset, tableType, dictSize,
   dictionary, dictCtx), operations are the API calls ([FastStream.op]), a history is a list of them.

   [state_inv] = memory holds bytes /\ [table_inv] (every table entry is 0 or below currentOffset, never at or
   above it; an attached dictionary context satisfies what LZ4_loadDict guarantees) /\ [tt_inv] (tableType tag
   is clearedTable/byU32/byU16, and a never-used table sits at offset 0 or >= 64 KB).
   - C18_table_inv: established by LZ4_initStream and preserved by EVERY operation of ANY finite history:
     failed compressions, LZ4_resetStream_fast, loadDict, attach, saveDict, renormalisation, one-shot
     fast-reset / extState / destSize calls of any size class.
   - C18_stale_skipped_*: under the invariant, after the documented reset every candidate the match search can
     obtain from the table and that passes the dictSmall / distance tests lies inside the history the call
     designates; for a one-shot call that history is empty: no match can refer to an earlier, unrelated input.
   - C18_history_roundtrip: in any history every successful one-shot block decodes WITHOUT history and every
     successful streaming block decodes with the decoder-side history (block specification, end conditions
     included).
   HC contexts (lz4hc.c: dirty flag, LZ4_resetStreamHC_fast, LZ4HC_init_internal) are not modelled in Coq; for
   them the check is the direct oracle on the real code only. *)
From Coq Require Import ZArith List Lia Bool.
From LZ4V Require Import Gen.Consts Spec.BlockSpec Model.Mem Model.Fast Model.FastApi Model.FastStream
     Proofs.FastSound Proofs.FastStreamMem Proofs.FastStreamProofs Proofs.FastStreamHist Proofs.FastStreamExamples.
Import ListNotations.
Local Open Scope Z_scope.

Theorem C18_table_inv :
  forall ops st, state_inv st -> ops_pre st ops -> state_inv (run st ops).
Proof. exact table_inv_run. Qed.
Print Assumptions C18_table_inv.

Theorem C18_table_inv_step :
  forall st o, state_inv st -> op_pre st o -> state_inv (fst (step st o)).
Proof. exact step_inv. Qed.
Print Assumptions C18_table_inv_step.

Theorem C18_stale_skipped_oneshot :
  forall c n,
  table_inv c -> tt_inv c -> 0 <= n < LZ4_64Klimit \/ ttype_for n = ByU32 ->
  let t := ttype_for n in
  let c1 := s_prepareTable c n t in
  let small := match t with ByU16 => negb (s_cur c1 =? 0) | ByU32 => false end in
  let st := s_cur c1 in
  tab_ok t CNoDict small st 0 0 (st + 1) (s_tab c1) /\
  forall cb tab h, tab_ok t CNoDict small st 0 0 cb tab -> st + 1 <= cb ->
    let '(mi, low) := candidate CNoDict st 0 empty 0 tab h in
    mi < cb /\
    (~ (small = true /\ mi < st - 0) -> ~ (dist_active t = true /\ mi + LZ4_DISTANCE_MAX < cb) -> st <= low <= mi).
Proof. exact fastReset_stale_skipped. Qed.
Print Assumptions C18_stale_skipped_oneshot.

Theorem C18_stale_skipped_stream :
  forall c source n,
  table_inv c -> stream_ready c -> 0 <= n <= LZ4_MAX_INPUT_SIZE -> 0 < source ->
  let c1 := fst (prelude c source n) in let dictEnd := snd (prelude c source n) in
  let '(cc, dd, small) := continue_call c1 dictEnd source n in
  let st := s_cur cc in let ds := cd_dictSize cc dd in
  tab_ok ByU32 dd small st ds 0 (st + 1) (s_tab cc) /\
  forall cb tab h, tab_ok ByU32 dd small st ds 0 cb tab -> st + 1 <= cb ->
    let '(mi, low) := candidate dd st ds (cd_dtab cc dd) (st - cd_dcur cc dd) tab h in
    mi < cb /\
    (~ (small = true /\ mi < st - ds) -> ~ (mi + LZ4_DISTANCE_MAX < cb) -> st - ds <= low <= mi).
Proof. exact continue_stale_skipped. Qed.
Print Assumptions C18_stale_skipped_stream.

Theorem C18_fastReset_any_state :
  forall m c src n cap acc,
  mem_ok m -> table_inv c -> tt_inv c ->
  let r := s_fastReset m c src n cap acc in
  table_inv (r_ctx r) /\ tt_inv (r_ctx r) /\
  (0 < r_ret r ->
   r_ret r = Z.of_nat (length (r_out r)) /\ strict_valid [] (r_out r) = Some (load_list m src (Z.to_nat n))).
Proof. exact s_fastReset_sound. Qed.
Print Assumptions C18_fastReset_any_state.

Theorem C18_history_roundtrip :
  forall ops st H, state_inv st -> list_ok H -> stream_pre st H ops -> stream_claim st H ops.
Proof. exact stream_roundtrip. Qed.
Print Assumptions C18_history_roundtrip.

(* the invariant is established by LZ4_initStream on any byte memory; a concrete history meets every precondition;
   two one-shot compressions on one context whose inputs lie back to back and share 27 bytes: the second block
   (49 bytes, two matches) decodes without history *)
Example C18_init : state_inv (ex_m, s_init).
Proof. exact ex_state. Qed.
Example C18_history_pre : ops_pre (ex_m, s_init) ex_ops.
Proof. exact ex_ops_pre. Qed.
Example C18_reuse_nonvacuous :
  r_ret ex_o1 = 73 /\ r_ret ex_o2 = 49 /\ s_cur (r_ctx ex_o2) = 141 /\ s_tt (r_ctx ex_o2) = 3 /\
  strict_valid [] (r_out ex_o2) = Some ex_b2.
Proof. exact ex_reuse. Qed.

(* ================================================================ HC, lz4mid levels (compression levels 1 and 2)
   [hstate_inv] = memory holds bytes /\ [hs_ok]: lowLimit <= dictLimit, prefixStart <= end, the index reached so far stays below
   2^31 + LZ4_MAX_INPUT_SIZE, an anchored context has lowLimit >= 64 KB, and - unless dirty - every entry of both hash
   tables is an index below the index reached so far; an attached dictionary context is clean and anchored, and one at an
   lz4mid level has the shape LZ4_loadDictHC produces ([dsearch_ok]).
   - C18_hc_mid_reuse / _step: established by LZ4_initStreamHC and preserved by EVERY modelled operation of ANY history that
     stays in the model: failed calls (dirty), LZ4_resetStreamHC(_fast), level changes within 1-2, loadDictHC, attach,
     saveDictHC (also on a stream that has not started: fix F17), destSize calls with partial consumption, one-shot
     LZ4_compress_HC_extStateHC(_fastReset) on the stream object.
   - C18_hc_mid_fastReset: the one-shot fast-reset call on a context in ANY such state runs the parser on a freshly anchored
     index space (64 KB above every table entry): its block decodes WITHOUT history (claim in C18_hc_mid_history). *)
From LZ4V Require Import Model.HcEmit Model.HcMid Model.HcMidStream Proofs.HcMidStreamProofs Proofs.HcMidStreamHist Proofs.HcMidStreamExamples.

Theorem C18_hc_mid_reuse :
  forall ops st st', hstate_inv st -> hops_pre st ops -> hrun st ops = Some st' -> hstate_inv st'.
Proof. exact hs_inv_run. Qed.
Print Assumptions C18_hc_mid_reuse.

Theorem C18_hc_mid_step :
  forall st o st' x, hstate_inv st -> hop_pre st o -> hstep st o = Some (st', x) -> hstate_inv st'.
Proof. exact hstep_inv. Qed.
Print Assumptions C18_hc_mid_step.

Theorem C18_hc_mid_fastReset :
  forall m c src n cap level ret consumed out hw c',
  hmem_ok m -> hs_ok c -> 0 < src -> 0 <= n < 2147483648 -> 0 <= cap ->
  hs_fastReset m c src n cap level = Some (HRes ret consumed out hw c') ->
  let lim := if cap <? compressBound n then LimitedOutput else NotLimited in
  let ke := k_init_internal (hs_core (hs_resetFast c level)) src in
  k_ready ke src /\ k_lowLimit ke = k_dictLimit ke /\ k_endIdx ke = k_dictLimit ke /\
  call_post m ke None src n cap lim ret consumed out hw c'.
Proof. exact hs_fastReset_sound. Qed.
Print Assumptions C18_hc_mid_fastReset.

Theorem C18_hc_mid_history :
  forall ops st H, hstate_inv st -> hstream_pre st H ops -> hstream_claim st H ops.
Proof. exact hstream_roundtrip. Qed.
Print Assumptions C18_hc_mid_history.

Example C18_hc_mid_nonvacuous :
  hstate_inv (ex_m, ex_hc0) /\ hstream_pre (ex_m, ex_hc0) [] ex_hops /\
  htrace (ex_m, ex_hc0) ex_hops =
  [Some (81, 0); Some (20, 78); Some (18, 63); Some (100, 0); Some (28, 78); Some (12, 34); Some (0, 78); Some (0, 0); Some (73, 78)].
Proof. exact (conj ex_hstate (conj ex_hstream_pre ex_htrace)). Qed.

(* ================================================================ HC, hash-chain levels (compression levels 3..9)
   [cstate_inv] = memory holds bytes /\ [cs_ok]: the lz4mid stream invariant on the same record (hashTable entries are indices
   below the index reached so far, lowLimit <= dictLimit, an anchored context has lowLimit >= 64 KB, ...) and - unless dirty -
   chainTable entries are 16-bit and 0 <= nextToUpdate (together: HcChainSearch.TB at the index reached); the same for an
   attached dictionary context.
   - C18_hc_chain_reuse / _step: established by LZ4_initStreamHC and preserved by EVERY modelled operation of ANY history that
     stays in the model: failed calls (dirty), LZ4_resetStreamHC(_fast), level changes within 3..9, loadDictHC, attach,
     saveDictHC (F17, F18), destSize calls with partial consumption (re-anchoring, LZ4HC_clearTables beyond 1 GB), one-shot
     LZ4_compress_HC_extStateHC(_fastReset) on the stream object.  LZ4_setCompressionLevel never touches the tables; a change
     to another STRATEGY keeps the C invariant too (every hashTable entry stays an index below the index reached, whoever
     wrote it) but leaves this model, whose tables have the hash-chain shape.
   - C18_hc_chain_fastReset: the one-shot fast-reset call on a context in ANY such state runs the parser on a freshly anchored
     index space: its block decodes WITHOUT history (claim in C18_hc_chain_history). *)
From LZ4V Require Import Model.HcChain Model.HcChainApi Model.HcChainStream Proofs.HcChainStreamProofs Proofs.HcChainStreamHist Proofs.HcChainStreamExamples.

Theorem C18_hc_chain_reuse :
  forall ops st st', cstate_inv st -> cops_pre st ops -> crun st ops = Some st' -> cstate_inv st'.
Proof. exact cs_inv_run. Qed.
Print Assumptions C18_hc_chain_reuse.

Theorem C18_hc_chain_step :
  forall st o st' x, cstate_inv st -> cop_pre st o -> cstep st o = Some (st', x) -> cstate_inv st'.
Proof. exact cstep_inv. Qed.
Print Assumptions C18_hc_chain_step.

Theorem C18_hc_chain_fastReset :
  forall m c src n cap level ret consumed out hw c',
  hmem_ok m -> cs_ok c -> 0 < src -> 0 <= n < 2147483648 -> 0 <= cap ->
  cs_fastReset m c src n cap level = Some (CRes ret consumed out hw c') ->
  let lim := if cap <? compressBound n then LimitedOutput else NotLimited in
  let ke := k_init_internal (cs_core (cs_resetFast c level)) src in
  k_ready ke src /\ k_lowLimit ke = k_dictLimit ke /\ k_endIdx ke = k_dictLimit ke /\
  ccall_post m ke src n cap lim ret consumed out hw c'.
Proof. exact cs_fastReset_sound. Qed.
Print Assumptions C18_hc_chain_fastReset.

Theorem C18_hc_chain_history :
  forall ops st H, cstate_inv st -> cstream_pre st H ops -> cstream_claim st H ops.
Proof. exact cstream_roundtrip. Qed.
Print Assumptions C18_hc_chain_history.

Example C18_hc_chain_nonvacuous :
  cstate_inv (ex_m, ex_cc0) /\ cstream_pre (ex_m, ex_cc0) [] ex_cops /\
  ctrace (ex_m, ex_cc0) ex_cops =
  [Some (81, 0); Some (20, 78); Some (18, 63); Some (0, 0); Some (100, 0); Some (27, 78); Some (8, 7); Some (0, 78); Some (0, 0); Some (73, 78)].
Proof. exact (conj ex_cstate (conj ex_cstream_pre ex_ctrace)). Qed.

(* ================================================================ HC, levels 10..12 (optimal parser; instance for levels 3..12)
   - C18_hc_opt_reuse / _step: [tstate_inv] (= the invariant of the hash-chain levels on the context with favorDecSpeed) is
     established by LZ4_initStreamHC and preserved by EVERY modelled operation of ANY history that stays in the model, now
     including level changes across the strategies hash chain <-> optimal parser and LZ4_favorDecompressionSpeed.
   - C18_hc_opt_fastReset, C18_hc_opt_history: as for the hash-chain levels. *)
From LZ4V Require Import Model.HcOpt Model.HcOptApi Model.HcTabStream Model.HcOptStream Proofs.HcTabStreamProofs Proofs.HcOptStreamProofs Proofs.HcOptStreamExamples.

Theorem C18_hc_opt_reuse :
  forall ops st st', tstate_inv st -> tops_pre blk_all lvl_all st ops -> trun blk_all lvl_all st ops = Some st' -> tstate_inv st'.
Proof. exact os_inv_run. Qed.
Print Assumptions C18_hc_opt_reuse.

Theorem C18_hc_opt_step :
  forall st o st' x, tstate_inv st -> top_pre st o -> ostep st o = Some (st', x) -> tstate_inv st'.
Proof. exact ostep_inv. Qed.
Print Assumptions C18_hc_opt_step.

Theorem C18_hc_opt_fastReset :
  forall m c src n cap level ret consumed out hw c',
  hmem_ok m -> ts_ok c -> 0 < src -> 0 <= n < 2147483648 -> 0 <= cap ->
  os_fastReset m c src n cap level = Some (TRes ret consumed out hw c') ->
  let lim := if cap <? compressBound n then LimitedOutput else NotLimited in
  let ke := k_init_internal (ts_core (ts_resetFast c level)) src in
  k_ready ke src /\ k_lowLimit ke = k_dictLimit ke /\ k_endIdx ke = k_dictLimit ke /\
  tcall_post m ke src n cap lim ret consumed out hw c'.
Proof. exact os_fastReset_sound. Qed.
Print Assumptions C18_hc_opt_fastReset.

Theorem C18_hc_opt_history :
  forall ops st H, tstate_inv st -> tstream_pre blk_all lvl_all st H ops -> tstream_claim blk_all lvl_all st H ops.
Proof. exact os_stream_roundtrip. Qed.
Print Assumptions C18_hc_opt_history.

Example C18_hc_opt_nonvacuous :
  tstate_inv (ex_m, ex_oc0) /\ tstream_pre blk_all lvl_all (ex_m, ex_oc0) [] ex_oops /\
  otrace (ex_m, ex_oc0) ex_oops =
  [Some (81, 0); Some (20, 78); Some (18, 63); Some (0, 0); Some (100, 0); Some (27, 78); Some (0, 0); Some (0, 0); Some (8, 7); Some (0, 78);
   Some (0, 0); Some (73, 78)].
Proof. exact (conj ex_ostate (conj ex_ostream_pre ex_otrace)). Qed.
