(* C01 - Block compression is lossless.

   Proved here, for ALL inputs (any length, any bytes), ALL capacities, ALL
   accelerations (the clamp to [1, LZ4_ACCELERATION_MAX] is in the model), both
   table types (16-bit below LZ4_64Klimit, 32-bit above), limited and unlimited
   output, over the model of the fast compressor (Model.Fast = LZ4_compress_generic_validated,
   Model.FastApi = LZ4_compress_default/_fast/_fast_extState/_fast_extState_fastReset):
   a positive return value c means the c produced bytes are decoded by the
   SPECIFICATION's decoder (Spec.BlockSpec.spec_decode, written from
   doc/lz4_Block_format.md) to exactly the input.  For the fast-reset entry point the
   statement covers every context reachable by any history of such calls.
   The composition with the model of LZ4_decompress_safe (C05's refinement theorem) gives the
   property as stated (C01_compress_then_decompress_safe); the HC compressors are not modelled in Coq: for them
   C01 is decided by the direct oracle of the check only (see C01_hc_full_statement). *)
From Coq Require Import ZArith List Lia Bool.
From LZ4V Require Import Gen.Consts Spec.BlockSpec Model.Mem Model.Fast Model.FastApi
     Model.Dec Model.DecApi Proofs.FactorSpec Proofs.FastSound Proofs.FastApiSound Proofs.DecRefineApi Proofs.C01Compose.
From LZ4V Require Model.HcMid Proofs.HcMidSound.
From LZ4V Require Import Model.HcMidApi Proofs.HcMidApiSound.
Import ListNotations.
Local Open Scope Z_scope.

(* 1. Specification level: any factorisation of the input decodes to the input. *)
Theorem C01_factorisation_decodes :
  forall (vrd : Z -> Z) lo s fin ss last,
    (forall a, 0 <= vrd a < 256) ->
    lo <= s -> seqs_valid vrd lo s ss -> seqs_end s ss <= fin -> last = seg vrd (seqs_end s ss) fin ->
    spec_decode (seg vrd lo s) (encode_block ss last) = Some (seg vrd s fin).
Proof. exact factor_block_decodes. Qed.
Print Assumptions C01_factorisation_decodes.

(* 2. LZ4_compress_generic_validated, every directive combination except fillOutput (C17). *)
Theorem C01_fast_generic_roundtrip :
  forall (vrd : Z -> Z) tt od dd dictSmall startIndex dictSize dtable dictDelta inputSize maxOutputSize acceleration,
    (forall a, 0 <= vrd a < 256) -> 0 <= dictSize -> od <> FillOutput ->
    forall L, L <= startIndex ->
    (dd = CUsingDictCtx -> forall h, get dtable h + dictDelta < startIndex /\
                                     good3 tt dd dictSmall startIndex dictSize (get dtable h + dictDelta)) ->
    (dist_active tt = false -> startIndex + inputSize - MFLIMIT - hist_lo dd startIndex dictSize <= 65535) ->
    0 <= startIndex ->
    (tt = ByU16 -> mflimitPlusOne startIndex inputSize <= 65536
                   \/ (dictSmall = true /\ 65536 <= startIndex - dictSize /\ L <= 0)) ->
    1 <= acceleration ->
    forall tab ss last consumed tab' hw,
    0 <= inputSize -> tab_ok tt dd dictSmall startIndex dictSize L (startIndex + 1) tab ->
    compress_validated vrd tt od dd dictSmall startIndex dictSize dtable dictDelta inputSize maxOutputSize
                       acceleration tab = ROk ss last consumed tab' hw ->
    consumed = inputSize /\
    spec_decode (seg vrd (hist_lo dd startIndex dictSize) startIndex) (encode_block ss last)
      = Some (seg vrd startIndex (startIndex + inputSize)).
Proof. exact compress_validated_roundtrip. Qed.
Print Assumptions C01_fast_generic_roundtrip.

(* [strict_valid] = decodes AND satisfies the end-of-block restrictions; it implies plain decoding. *)
Theorem C01_strict_implies_decode :
  forall hist blk d, strict_valid hist blk = Some d -> spec_decode hist blk = Some d.
Proof. exact strict_valid_spec. Qed.
Print Assumptions C01_strict_implies_decode.

(* 3. LZ4_compress_default / LZ4_compress_fast / LZ4_compress_fast_extState (full reset:
      the model takes no prior state at all, LZ4_initStream overwrites it). *)
Theorem C01_fast_extState_roundtrip :
  forall src srcSize cap accel,
    src_ok src ->
    let a := compress_fast_extState src srcSize cap accel in
    0 < a_ret a ->
    a_ret a = Z.of_nat (length (a_out a)) /\
    strict_valid [] (a_out a) = Some (load_list src 0 (Z.to_nat srcSize)).
Proof. exact compress_fast_extState_roundtrip. Qed.
Print Assumptions C01_fast_extState_roundtrip.

(* 4. LZ4_compress_fast_extState_fastReset after ANY history of such calls on one context. *)
Theorem C01_fastReset_history :
  forall calls c,
    ctx_ok c -> Forall (fun k => src_ok (k_src k)) calls ->
    Forall (fun ka => let '(k, a) := ka in
              0 < a_ret a ->
              a_ret a = Z.of_nat (length (a_out a)) /\
              strict_valid [] (a_out a) = Some (load_list (k_src k) 0 (Z.to_nat (k_size k))))
           (run_history c calls).
Proof. exact fastReset_history_sound. Qed.
Print Assumptions C01_fastReset_history.

Theorem C01_initStream_ctx_ok : ctx_ok ctx_init.
Proof. exact ctx_init_ok. Qed.
Print Assumptions C01_initStream_ctx_ok.

(* 5. The property as stated: LZ4_decompress_safe (decoder MODEL, fast loop on or off) on the c bytes
      the compressor MODEL produced, with ANY capacity >= n, returns exactly n and reproduces the input.
      [decodes_to (r, m, ok) D] := r = |D| /\ the destination holds D at [0,|D|). *)
Theorem C01_compress_then_decompress_safe :
  forall fastloop src n cap accel dcap m0,
    src_ok src ->
    let a := compress_fast_extState src n cap accel in
    0 < a_ret a -> Z.of_nat (Z.to_nat n) <= dcap ->
    decodes_to (decompress_safe fastloop (mem_of_list 0 (a_out a)) (a_ret a) dcap m0)
               (load_list src 0 (Z.to_nat n)).
Proof. exact compress_then_decompress_safe. Qed.
Print Assumptions C01_compress_then_decompress_safe.

(* Kept visible: the same statement for LZ4_compress_HC and friends at EVERY level.  Proved below for levels 1-2
   (LZ4MID, C01_hc_mid_... theorems) 3-9 (hash chain, C01_hc_chain_... theorems) and 10-12 (optimal parser, C01_hc_opt_... theorems), each over its own model of
   the entry points; this abstract form (an arbitrary function compress_HC) is kept only as the shape of the claim. *)
Definition C01_hc_full_statement : Prop :=
  forall (compress_HC : mem -> Z -> Z -> Z -> Z * list byte) (src : mem) srcSize cap level,
    src_ok src -> let '(r, out) := compress_HC src srcSize cap level in
    0 < r -> spec_decode [] out = Some (load_list src 0 (Z.to_nat srcSize)).

(* Non-vacuity: the model compresses a concrete input with matches and the result decodes. *)
Example C01_nonvacuous :
  let src := mem_of_list 0 (repeat 97 20 ++ [1; 2; 3; 4; 5; 6; 7; 8; 9; 10; 11; 12; 13]) in
  let a := compress_fast_extState src 33 100 1 in
  (a_ret a, a_out a) = (19, [31; 97; 1; 0; 0; 208; 1; 2; 3; 4; 5; 6; 7; 8; 9; 10; 11; 12; 13]).
Proof. vm_compute. reflexivity. Qed.

(* 6. HC levels 1 and 2 (LZ4MID_compress): LZ4_compress_HC / _extStateHC / _extStateHC_fastReset on ONE
      LZ4_streamHC_t through ANY history of calls (any inputs, sizes, capacities): every positive result is
      the size of a block that the specification decodes, strictly, to exactly the input; in limitedOutput
      mode nothing was written beyond the capacity.  Model: Model.HcMid / Model.HcMidApi (tied to lz4hc.c
      by the `mid` correspondence: bytes, both hash tables, end index, dirty flag after every call). *)
Theorem C01_hc_mid_history :
  forall calls c,
    hc_ok c ->
    Forall (fun k => src_ok (mk_src k) /\ 0 <= mk_size k < 2147483648 /\ 0 <= mk_cap k) calls ->
    Forall (fun ka => let '(k, a) := ka in
              (mk_cap k < compressBound (mk_size k) -> hr_hw a <= mk_cap k) /\
              (0 < hr_ret a ->
                 hr_ret a = Z.of_nat (length (hr_out a)) /\
                 strict_valid [] (hr_out a) = Some (load_list (mk_src k) 0 (Z.to_nat (mk_size k)))))
           (run_mid_history c calls).
Proof. exact mid_history_sound. Qed.
Print Assumptions C01_hc_mid_history.

Theorem C01_hc_mid_fresh_state : hc_ok hc_init.
Proof. exact hc_ok_init. Qed.
Print Assumptions C01_hc_mid_fresh_state.

(* the parser itself, for any tables whose entries are indices below the block (prefix and external
   dictionary segment in the index space included): a factorisation, whatever the tables contain *)
Theorem C01_hc_mid_parser :
  forall vrd lim prefixIdx dictIdx s0 srcSize maxOut lo dsrch h4 h8,
    (forall a, 0 <= vrd a < 256) ->
    0 <= dictIdx /\ dictIdx <= prefixIdx /\ prefixIdx <= s0 /\ s0 + srcSize < M32 -> 0 <= srcSize ->
    0 <= lo <= dictIdx ->
    (* the search into an attached dictionary context, if any, only returns verified matches (None without one) *)
    (forall ip f, s0 <= ip <= HcMid.mi_mflimit s0 srcSize -> dsrch ip = Some f -> HcMidSound.found_ok vrd s0 srcSize lo ip f) ->
    HcMidSound.tab_lt h4 s0 -> HcMidSound.tab_lt h8 s0 ->
    HcMidSound.RSpec vrd lim s0 srcSize lo (HcMid.mid_compress vrd lim prefixIdx dictIdx s0 srcSize maxOut dsrch h4 h8).
Proof. intros; apply HcMidSound.mid_compress_sound; assumption. Qed.
Print Assumptions C01_hc_mid_parser.

(* Non-vacuity: LZ4_compress_HC(level 2) of 13 x "abcd" + 8 literals, evaluated in the model *)
Example C01_hc_mid_nonvacuous :
  let l := concat (repeat [97; 98; 99; 100] 13) ++ [1; 2; 3; 4; 5; 6; 7; 8] in
  let r := compress_HC_mid (mem_of_list 0 l) 60 100 in
  0 < hr_ret r < 30 /\ strict_valid [] (hr_out r) = Some l.
Proof. vm_compute. repeat split; reflexivity. Qed.

(* 7. HC levels 3 to 9 (LZ4HC_compress_hashChain: hash chains, LZ4HC_InsertAndGetWiderMatch with pattern analysis,
      the _Search2/_Search3 overlap resolution).  Model: Model.HcChain / Model.HcChainApi, tied to lz4hc.c by the
      `chain` correspondence (bytes, hashTable, chainTable, nextToUpdate, end index, dirty flag, favorDecSpeed
      after every call, and the search function called directly).
      Any history of LZ4_compress_HC_extStateHC_fastReset / LZ4_compress_HC_destSize / LZ4_favorDecompressionSpeed
      calls on ONE LZ4_streamHC_t (any inputs, sizes, capacities, levels 3..9 mixed): every positive result of a
      one-shot call is the size of a block that the specification decodes, strictly, to exactly the input, and in
      limitedOutput mode nothing was written beyond the capacity; every positive destSize result decodes to
      exactly the consumed prefix and nothing was written beyond the target size. *)
From LZ4V Require Model.HcChain Proofs.HcChainSearch Proofs.HcChainSound Proofs.HcChainCap Proofs.HcChainParser.
From LZ4V Require Import Model.HcChainApi Proofs.HcChainApiSound.

Theorem C01_hc_chain_history :
  forall calls c,
    cc_ok c -> Forall hcall_valid calls ->
    Forall (fun ka => hcall_post (fst ka) (snd ka)) (run_chain_history c calls).
Proof. exact chain_history_sound. Qed.
Print Assumptions C01_hc_chain_history.

Theorem C01_hc_chain_fresh_state : cc_ok cc_init.
Proof. exact cc_ok_init. Qed.
Print Assumptions C01_hc_chain_fresh_state.

(* the parser itself, for ANY hashTable / chainTable contents such that hash entries are indices below the
   block, chain entries are 16-bit values and lowLimit >= 64 KB (prefix and external dictionary segment in the
   index space included): the result is the encoding of a factorisation of the consumed input (RSpec), within
   the capacity contract and never out of fuel (RCap) *)
Theorem C01_hc_chain_parser :
  forall vrd lim prefixIdx dictIdx s0 srcSize maxOut nb,
    (forall a, 0 <= vrd a < 256) ->
    65536 <= dictIdx /\ dictIdx <= prefixIdx /\ prefixIdx <= s0 /\ s0 + srcSize < M32 - 65536 ->
    0 <= srcSize -> 0 <= maxOut -> (lim = FillOutput -> 1 <= maxOut) ->
    forall t, HcChainSearch.TB t s0 ->
    HcChainSound.RSpec vrd lim dictIdx s0 srcSize (HcChain.hc_compress vrd prefixIdx dictIdx lim s0 srcSize maxOut nb t) /\
    HcChainCap.RCap lim srcSize maxOut (HcChain.hc_compress vrd prefixIdx dictIdx lim s0 srcSize maxOut nb t).
Proof. exact HcChainParser.hc_compress_ok. Qed.
Print Assumptions C01_hc_chain_parser.

(* the match search (LZ4HC_InsertAndGetWiderMatch, noDictCtx, chainSwap = 0, favorCompressionRatio), pattern
   analysis on or off: never out of fuel, and a result longer than `longest` is a match whose bytes are equal *)
Theorem C01_hc_chain_search :
  forall vrd, (forall a, 0 <= vrd a < 256) ->
  forall prefixIdx dictIdx, 65536 <= dictIdx /\ dictIdx <= prefixIdx ->
  forall t B q iLow iHigh longest0 nb pa,
    HcChainSearch.TB t B -> B <= q -> prefixIdx <= iLow -> iLow <= q -> q + 4 <= iHigh -> iHigh < M32 - 65536 -> 3 <= longest0 ->
    exists m t', HcChain.insertAndGetWiderMatch vrd prefixIdx dictIdx t q iLow iHigh longest0 nb pa false false = Some (m, t') /\
      HcChainSearch.TB t' q /\ HcChain.t_ntu t' = q /\ longest0 <= HcChain.hm_len m /\
      (longest0 < HcChain.hm_len m -> HcChainSearch.mvalid vrd dictIdx iLow iHigh q m).
Proof. exact HcChainSearch.wider_sound. Qed.
Print Assumptions C01_hc_chain_search.

(* Non-vacuity: LZ4_compress_HC(level 9, pattern analysis on) of 13 x "abcd" + 8 literals, evaluated in the model;
   level 3 of 44 equal bytes + 16 literals *)
Example C01_hc_chain_nonvacuous :
  let l := concat (repeat [97; 98; 99; 100] 13) ++ [1; 2; 3; 4; 5; 6; 7; 8] in
  let r := compress_HC_chain (mem_of_list 0 l) 60 100 9 in
  let l2 := repeat 7 44 ++ [1; 2; 3; 4; 5; 6; 7; 8; 9; 10; 11; 12; 13; 14; 15; 16] in
  let r2 := compress_HC_chain (mem_of_list 0 l2) 60 100 3 in
  (0 < cr_ret r < 30 /\ strict_valid [] (cr_out r) = Some l) /\
  (0 < cr_ret r2 < 30 /\ strict_valid [] (cr_out r2) = Some l2) /\ chain_level 9 = true /\ chain_level 3 = true.
Proof. vm_compute. repeat split; reflexivity. Qed.

(* 8. HC levels 10 to 12 (LZ4HC_compress_optimal: price table opt[], LZ4HC_FindLongerMatch with pattern analysis,
      chainSwap and favorDecSpeed, backward traversal, forward emission, ultra mode).  Model: Model.HcOpt /
      Model.HcOptApi, one context model for levels 3..12, tied to lz4hc.c by the `chain` correspondence.
      Any history of LZ4_compress_HC_extStateHC_fastReset / LZ4_compress_HC_destSize / LZ4_favorDecompressionSpeed
      calls on ONE LZ4_streamHC_t, levels 3..12 mixed: same conclusions as C01_hc_chain_history. *)
From LZ4V Require Model.HcOpt Proofs.HcOptParser.
From LZ4V Require Import Model.HcOptApi Proofs.HcOptApiSound.

Theorem C01_hc_opt_history :
  forall calls c,
    cc_ok c -> Forall acall_valid calls ->
    Forall (fun ka => hcall_post (fst ka) (snd ka)) (run_all_history c calls).
Proof. exact all_history_sound. Qed.
Print Assumptions C01_hc_opt_history.

(* the optimal parser itself, for ANY tables (hash entries = indices below the block, chain entries 16-bit,
   lowLimit >= 64 KB), any nbSearches / targetLength / ultra / favorDecSpeed: factorisation of the consumed input
   (RSpec), capacity contract and no fuel exhaustion (RCap) *)
Theorem C01_hc_opt_parser :
  forall vrd lim prefixIdx dictIdx s0 srcSize maxOut nb targetLength ultra fav,
    (forall a, 0 <= vrd a < 256) ->
    65536 <= dictIdx /\ dictIdx <= prefixIdx /\ prefixIdx <= s0 /\ s0 + srcSize < M32 - 65536 ->
    0 <= srcSize -> 0 <= maxOut -> (lim = FillOutput -> 1 <= maxOut) ->
    forall t, HcChainSearch.TB t s0 ->
    HcChainSound.RSpec vrd lim dictIdx s0 srcSize (HcOpt.opt_compress vrd prefixIdx dictIdx lim s0 srcSize maxOut nb targetLength ultra fav t) /\
    HcChainCap.RCap lim srcSize maxOut (HcOpt.opt_compress vrd prefixIdx dictIdx lim s0 srcSize maxOut nb targetLength ultra fav t).
Proof. exact HcOptParser.opt_compress_ok. Qed.
Print Assumptions C01_hc_opt_parser.

(* the match search in EVERY configuration (patternAnalysis, chainSwap, favorDecSpeed on or off; any `longest`) *)
Theorem C01_hc_opt_search :
  forall vrd, (forall a, 0 <= vrd a < 256) ->
  forall prefixIdx dictIdx, 65536 <= dictIdx /\ dictIdx <= prefixIdx ->
  forall t B q iLow iHigh longest0 nb pa swap fav,
    HcChainSearch.TB t B -> B <= q -> prefixIdx <= iLow -> iLow <= q -> q + 4 <= iHigh -> iHigh < M32 - 65536 ->
    exists m t', HcChain.insertAndGetWiderMatch vrd prefixIdx dictIdx t q iLow iHigh longest0 nb pa swap fav = Some (m, t') /\
      HcChainSearch.TB t' q /\ HcChain.t_ntu t' = q /\ longest0 <= HcChain.hm_len m /\
      (longest0 < HcChain.hm_len m -> HcChainSearch.mvalid vrd dictIdx iLow iHigh q m).
Proof. exact HcChainSearch.wider_sound_gen. Qed.
Print Assumptions C01_hc_opt_search.

(* Non-vacuity: LZ4_compress_HC at level 12 (ultra) and level 10, evaluated in the model *)
Example C01_hc_opt_nonvacuous :
  let l := concat (repeat [97; 98; 99; 100] 13) ++ [1; 2; 3; 4; 5; 6; 7; 8] in
  let r := compress_HC_all (mem_of_list 0 l) 60 100 12 in
  let l2 := [1;2;3;4;5;6;7;8;9;1;2;3;4;5;6;7;2;3;4;5;6;7;8;9;9;9;9;9;1;2;3;4;5;6;7;8;9] ++ repeat 7 20 ++ [1;2;3;4;5;6;7;8;9;10;11;12;13] in
  let r2 := compress_HC_all (mem_of_list 0 l2) 70 100 10 in
  (0 < cr_ret r < 30 /\ strict_valid [] (cr_out r) = Some l) /\
  (cr_ret r2 = 35 /\ strict_valid [] (cr_out r2) = Some l2) /\ opt_level 12 = true /\ opt_level 10 = true /\ all_level 5 = true.
Proof. vm_compute. repeat split; reflexivity. Qed.

(* 9. dict == usingDictCtxHc in LZ4HC_InsertAndGetWiderMatch / LZ4HC_searchExtDict (Model.HcChainDict, tied by direct calls
      with a dictionary context prepared by LZ4_loadDictHC, hash-chain and LZ4MID dictionaries).  PARTIAL: one probe of the
      dictionary chain at a genuine dictionary position installs only real matches; the whole walk (which needs a
      consistency invariant of the dictionary context's tables) is stated as HcChainDictSound.dict_search_full_statement. *)
From LZ4V Require Model.HcChainDict Proofs.HcChainDictSound.

Theorem C01_hc_chain_dictctx_probe_partial :
  forall vrd, (forall a, 0 <= vrd a < 256) ->
  forall dct dDictLimit dictEndOffset g ip iLow iHigh,
    0 <= dDictLimit /\ dDictLimit <= dictEndOffset /\ dictEndOffset < M32 /\ 0 <= HcChainDictSound.dlo dDictLimit dictEndOffset g /\
    g <= iLow /\ iLow <= ip /\ ip + 4 <= iHigh /\ iHigh < M32 - 65536 ->
  forall withBack l longest offset sBack,
    dDictLimit <= l <= dictEndOffset - 4 -> (withBack = false -> iLow = ip) ->
    let r := HcChainDict.dict_loop vrd dct dDictLimit dictEndOffset ip iLow iHigh ip g withBack 1 l (l + g - dictEndOffset) longest offset sBack in
    r = (longest, offset, sBack) \/
    (let '(lg, off, bk) := r in
     longest < lg /\ match_ok vrd (HcChainDictSound.dlo dDictLimit dictEndOffset g) (ip + bk) off lg /\ iLow <= ip + bk /\ bk <= 0 /\
     ip + bk + lg <= iHigh /\ ip + 4 <= ip + bk + lg).
Proof. exact HcChainDictSound.dict_probe_sound. Qed.
Print Assumptions C01_hc_chain_dictctx_probe_partial.

(* the search loop with the attempts left is the search loop *)
Theorem C01_hc_chain_dictctx_loop_n :
  forall vrd prefixIdx dictIdx ct ip iLow iHigh pa swap fav nb s,
    option_map fst (HcChainDict.wider_loop_n vrd prefixIdx dictIdx ct ip iLow iHigh pa swap fav nb s)
    = HcChain.wider_loop vrd prefixIdx dictIdx ct ip iLow iHigh pa swap fav nb s.
Proof. exact HcChainDictSound.wider_loop_n_fst. Qed.
Print Assumptions C01_hc_chain_dictctx_loop_n.

(* Non-vacuity: a 12-byte dictionary "abcdefghijkl" right below the prefix "abcdefgh....": the probe at dictionary
   index 65536 finds the 8-byte match at offset 12 *)
Example C01_hc_chain_dictctx_nonvacuous :
  let l := [97;98;99;100;101;102;103;104;105;106;107;108] ++ [97;98;99;100;101;102;103;104;1;2;3;4;5;6;7;8;9;10;11;12] in
  let vrd := fun p => get (mem_of_list (65536 - 12) l) p in
  HcChainDict.dict_loop vrd (HcChain.mkCT empty 0) 65536 (65536 + 12) 65536 65536 (65536 + 15) 65536 65536 false 1 65536 (65536 - 12) 3 0 0
  = (8, 12, 0).
Proof. vm_compute. reflexivity. Qed.

(* the whole dictCtx search: LZ4HC_InsertAndGetWiderMatch with dict == usingDictCtxHc, for ANY dictionary-context tables
   that satisfy the consistency invariant dgood (every hash entry / chain successor is out of reach or a genuine position
   in [dictLimit, end - 4]), in every configuration: never out of fuel, the working tables keep their invariant, a result
   longer than `longest` is a real match, the history starting at the dictionary's first byte *)
From LZ4V Require Proofs.HcChainDictLoad.
Theorem C01_hc_chain_dictctx_search :
  forall vrd prefixIdx dictIdx dht dct dDictLimit dictEndOffset t B q iLow iHigh longest0 nb pa swap fav,
    (forall a, 0 <= vrd a < 256) -> 65536 <= dictIdx /\ dictIdx <= prefixIdx ->
    65536 <= dDictLimit /\ dDictLimit <= dictEndOffset /\ dictEndOffset <= 1073741824 + 131072 /\ dictEndOffset - dDictLimit <= dictIdx ->
    (forall k, HcChainDictSound.dgood dDictLimit dictEndOffset (get dht k)) ->
    (forall x, dDictLimit <= x <= dictEndOffset - 4 ->
       0 <= HcChain.delta_next dct x <= x /\ HcChainDictSound.dgood dDictLimit dictEndOffset (x - HcChain.delta_next dct x)) ->
    HcChainSearch.TB t B -> B <= q -> prefixIdx <= iLow -> iLow <= q -> q + 4 <= iHigh -> iHigh < M32 - 65536 ->
    exists m t', HcChainDict.insertAndGetWiderMatch_dict vrd prefixIdx dictIdx dht dct dDictLimit dictEndOffset t q iLow iHigh longest0 nb pa swap fav = Some (m, t') /\
      HcChainSearch.TB t' q /\ HcChain.t_ntu t' = q /\ longest0 <= HcChain.hm_len m /\
      (longest0 < HcChain.hm_len m ->
        match_ok vrd (dictIdx - (dictEndOffset - dDictLimit)) (q + HcChain.hm_back m) (HcChain.hm_off m) (HcChain.hm_len m) /\
        iLow <= q + HcChain.hm_back m /\ HcChain.hm_back m <= 0 /\ q + HcChain.hm_back m + HcChain.hm_len m <= iHigh /\
        q + 4 <= q + HcChain.hm_back m + HcChain.hm_len m).
Proof. exact HcChainDictSound.wider_dict_sound. Qed.
Print Assumptions C01_hc_chain_dictctx_search.

(* LZ4_loadDictHC at a hash-chain / optimal level (fresh state, LZ4HC_Insert of the dictionary, n <= 64 KB) leaves tables
   that satisfy that invariant *)
Theorem C01_hc_chain_dictctx_loadDict :
  forall vrd P n, 65536 <= P /\ P + n < M32 -> 0 <= n <= 65536 ->
    let t := HcChain.insert vrd P (HcChain.mkHT empty (HcChain.mkCT empty 0) P) (P + n - 3) in
    4 <= n ->
    (forall k, HcChainDictSound.dgood P (P + n) (get (HcChain.t_hash t) k)) /\
    (forall x, P <= x <= P + n - 4 ->
       0 <= HcChain.delta_next (HcChain.t_chain t) x <= x /\ HcChainDictSound.dgood P (P + n) (x - HcChain.delta_next (HcChain.t_chain t) x)).
Proof. exact HcChainDictLoad.loadDict_tables_good. Qed.
Print Assumptions C01_hc_chain_dictctx_loadDict.
