(* C11 - Streaming (linked-block) compression round-trips over every history (fast family).

   Model: Model.FastStream.fast_continue = LZ4_compress_fast_continue line by line (renormDictT, tiny-dictionary
   invalidation, overlap trimming, prefix / external-dictionary / dictCtx mode selection, dictionary update),
   saveDict, loadDict, attach, resets, over ONE flat caller memory with integer addresses.
   H = what the DEcoder has: dictionary ++ every block emitted so far.  [hist_inv m c H]: the bytes the stream
   designates as history are the tail of H.
   - C11_fast_stream: for ALL op lists that respect the documented preconditions ([stream_pre]: per-operation
     ranges, and before each streaming call the designated bytes - AFTER the call's own trimming - are unmodified),
     every successful block is accepted by the block specification (end conditions included) with any decoder
     window of >= 65535 bytes of history ("the last 64 KB") and decodes to its source.
   - C11_continue_decodes: one call, plus [hist_inv] for H ++ block afterwards.
   - C11_hist_*: the preconditions follow from the documented geometries: the prelude only shrinks the region to a
     suffix; writing the next block without touching the region, or (ring buffers) so that it ends strictly inside
     it; LZ4_saveDict.
   - C11_renorm: the invariants survive LZ4_renormDictT (rescale beyond 0x80000000), so histories of any cumulative
     length are covered; C11_shift: the index-shifted states the correspondence check injects are inside the domain.
   The real decoders' geometries (LZ4_decompress_safe_continue, ring buffers, LZ4_setStreamDecode) are C05's
   subject; here the decoder is the specification's.  HC streaming (lz4hc.c) is not modelled in Coq: direct oracle only. *)
From Coq Require Import ZArith List Lia Bool.
From LZ4V Require Import Gen.Consts Spec.BlockSpec Model.Mem Model.Fast Model.FastApi Model.FastStream
     Proofs.FastSound Proofs.FastStreamMem Proofs.FastStreamProofs Proofs.FastStreamHist Proofs.FastStreamExamples.
Import ListNotations.
Local Open Scope Z_scope.

Theorem C11_fast_stream :
  forall ops st H, state_inv st -> list_ok H -> stream_pre st H ops -> stream_claim st H ops.
Proof. exact stream_roundtrip. Qed.
Print Assumptions C11_fast_stream.

Theorem C11_continue_decodes :
  forall m c source n cap acc H,
  mem_ok m -> table_inv c -> tt_inv c -> stream_ready c -> 0 <= n <= LZ4_MAX_INPUT_SIZE -> 0 < source ->
  list_ok H -> hist_inv m (fst (prelude c source n)) H ->
  let r := fast_continue m c source n cap acc in
  0 < r_ret r ->
  r_ret r = Z.of_nat (length (r_out r)) /\
  (forall K, 65535 <= K ->
     strict_valid (lastn (Z.to_nat K) H) (r_out r) = Some (load_list m source (Z.to_nat n))) /\
  hist_inv m (r_ctx r) (H ++ load_list m source (Z.to_nat n)).
Proof. exact continue_decodes. Qed.
Print Assumptions C11_continue_decodes.

Theorem C11_hist_prelude :
  forall m c source n H,
  table_inv c -> stream_ready c -> 0 <= n <= LZ4_MAX_INPUT_SIZE -> 0 <= source ->
  hist_inv m c H -> hist_inv m (fst (prelude c source n)) H.
Proof. exact prelude_hist. Qed.
Print Assumptions C11_hist_prelude.

Theorem C11_hist_write_block :
  forall m c H source bs,
  table_inv c -> stream_ready c -> 0 <= Z.of_nat (length bs) <= LZ4_MAX_INPUT_SIZE -> 0 <= source ->
  hist_inv m c H ->
  let n := Z.of_nat (length bs) in
  let da := fst (hist_dict c) in let ds := snd (hist_dict c) in
  (source + n <= da \/ da + ds <= source \/ (s_dctx c = None /\ da < source + n < da + ds)) ->
  hist_inv (store_list m source bs) (fst (prelude c source n)) H.
Proof. exact write_block_hist. Qed.
Print Assumptions C11_hist_write_block.

Theorem C11_hist_saveDict :
  forall m c a n H,
  mem_ok m -> table_inv c -> - 2147483648 <= n < 2147483648 -> hist_inv m c H ->
  hist_inv (fst (fst (saveDict m c a n))) (snd (fst (saveDict m c a n))) H.
Proof. exact saveDict_hist. Qed.
Print Assumptions C11_hist_saveDict.

Theorem C11_renorm :
  forall c n,
  table_inv c -> stream_ready c -> 0 <= n <= LZ4_MAX_INPUT_SIZE ->
  let c' := renormDictT c n in
  table_inv c' /\ s_cur c' + n <= 2147483648 /\ s_dictSize c' <= s_cur c' /\ s_dctx c' = s_dctx c /\
  s_dict c' + s_dictSize c' = s_dict c + s_dictSize c /\ s_dictSize c' <= s_dictSize c /\
  (s_dictSize c <= KB64 -> s_dictSize c' = s_dictSize c).
Proof. exact renorm_inv. Qed.
Print Assumptions C11_renorm.

Theorem C11_shift :
  forall c delta,
  table_inv c -> tt_inv c -> s_tt c = 2 -> 0 <= delta ->
  let c' := shift_ctx c delta in
  table_inv c' /\ tt_inv c' /\ s_dict c' = s_dict c /\ s_dictSize c' = s_dictSize c /\ s_dctx c' = s_dctx c /\
  (stream_ready c -> s_cur c + delta <= 2147483648 -> stream_ready c').
Proof. exact shift_inv. Qed.
Print Assumptions C11_shift.

(* a concrete run (loadDict, block in external-dictionary mode, contiguous block in prefix mode, saveDict, block
   against the saved bytes) meets [stream_pre]; its blocks have matches into the dictionary / previous block; a
   stream moved next to 2^31 renormalises and still round-trips *)
Example C11_pre_satisfiable : state_inv (ex_m, s_init) /\ stream_pre (ex_m, s_init) [] ex_ops.
Proof. exact (conj ex_state ex_stream_pre). Qed.
Example C11_nonvacuous :
  r_ret ex_r1 = 20 /\ r_ret ex_r2 = 47 /\
  strict_valid ex_dict (r_out ex_r1) = Some ex_b1 /\
  strict_valid (ex_dict ++ ex_b1) (r_out ex_r2) = Some ex_b2 /\
  strict_valid [] (r_out ex_r1) = None.
Proof. exact ex_results. Qed.
Example C11_renorm_nonvacuous :
  s_cur ex_big = 2147483638 /\ r_ret ex_r3 = 47 /\ s_cur (r_ctx ex_r3) = 65599 /\
  strict_valid (ex_dict ++ ex_b1) (r_out ex_r3) = Some ex_b2.
Proof. exact ex_renorm. Qed.

(* ================================================================ HC, lz4mid levels (compression levels 1 and 2)
   Model.HcMidStream = the streaming layer of lib/lz4hc.c for the lz4mid strategy (LZ4_compress_HC_continue(_destSize),
   LZ4_saveDictHC, LZ4_loadDictHC, resets, LZ4HC_setExternalDict, overlap trimming, 2 GB reload, dictCtx bookkeeping) around
   the parser model Model.HcMid.  Out of the model (the run is then not covered from that call on): levels >= 3 and calls that
   reach the dictionary-context SEARCH (usingDictCtxHc).
   - C11_hc_mid_stream: for ALL operation lists that stay in the model and respect [hstream_pre] (per-call ranges, context not
     dirty, and before each streaming call the bytes the call will use as history - after its own prelude - are the tail of
     the decoder-side history H), every successful block decodes with any decoder window of >= 65535 bytes: strictly
     (end conditions) for LZ4_compress_HC_continue and the one-shot entry points, to the consumed prefix for
     LZ4_compress_HC_continue_destSize; ret <= capacity; capacity >= LZ4_compressBound => success.
   - C11_hc_mid_continue: one call: invariants kept, write high-water mark <= capacity (limited modes), factorisation.
   - C11_hc_mid_decodes: one successful call, decoder side, and [hhist_invd] for H ++ consumed bytes afterwards
     ([dc]: the attached lz4mid-level dictionary context searched in place, LZ4MID_searchExtDict; its prefix comes first).
   - C11_hc_mid_write_block: ANY placement of the next block keeps the precondition (the HC overlap trimming covers every
     overlap - this is the statement the seeded change C11_3 breaks); C11_hc_mid_saveDict: LZ4_saveDictHC keeps it for the
     stream's OWN bytes; with a dictionary context attached: C12_hc_mid_saveDict_attached (fix F18). *)
From LZ4V Require Import Model.HcEmit Model.HcMid Model.HcMidStream Proofs.HcMidStreamProofs Proofs.HcMidStreamHist Proofs.HcMidStreamExamples.

Theorem C11_hc_mid_stream :
  forall ops st H, hstate_inv st -> hstream_pre st H ops -> hstream_claim st H ops.
Proof. exact hstream_roundtrip. Qed.
Print Assumptions C11_hc_mid_stream.

Theorem C11_hc_mid_continue :
  forall m c src n cap lim ret consumed out hw c',
  hmem_ok m -> hs_ok c -> k_dirty (hs_core c) = false -> 0 < src -> 0 <= n < 2147483648 -> 0 <= cap ->
  hs_continue_generic m c src n cap lim = Some (HRes ret consumed out hw c') ->
  exists ke dc, hs_effective m c src n = Some (ke, dc) /\ k_ready ke src /\ dc_ready dc /\ is_mid (k_level (hs_core c)) = true /\
                call_post m ke dc src n cap lim ret consumed out hw c'.
Proof. exact hs_continue_generic_sound. Qed.
Print Assumptions C11_hc_mid_continue.

Theorem C11_hc_mid_decodes :
  forall m ke dc src n cap lim ret consumed out hw c' H,
  k_ready ke src -> dc_ready dc -> call_post m ke dc src n cap lim ret consumed out hw c' -> hhist_invd m ke dc H -> 0 < ret ->
  (forall K, 65535 <= Z.of_nat K -> spec_decode (lastn K H) out = Some (load_list m src (Z.to_nat consumed))) /\
  (lim <> FillOutput ->
   forall K, 65535 <= Z.of_nat K -> strict_valid (lastn K H) out = Some (load_list m src (Z.to_nat consumed))) /\
  hhist_invd m (hs_core c') (hs_dctx c') (H ++ load_list m src (Z.to_nat consumed)).
Proof. exact hs_call_decodes. Qed.
Print Assumptions C11_hc_mid_decodes.

Theorem C11_hc_mid_write_block :
  forall m c src bs ke dc H,
  pre_inv c -> hs_dctx c = None -> 0 < src ->
  hs_effective (store_list m src bs) c src (Z.of_nat (length bs)) = Some (ke, dc) ->
  hhist_inv m (hs_core c) H ->
  dc = None /\ hhist_invd (store_list m src bs) ke dc H.
Proof. exact hs_write_block_hist. Qed.
Print Assumptions C11_hc_mid_write_block.

Theorem C11_hc_mid_saveDict :
  forall m c a n H,
  hmem_ok m -> hs_ok c -> 0 < a -> hhist_inv m (hs_core c) H ->
  hhist_inv (fst (fst (hs_saveDict m c a n))) (hs_core (snd (fst (hs_saveDict m c a n)))) H.
Proof. exact hs_saveDict_hist. Qed.
Print Assumptions C11_hc_mid_saveDict.

(* a concrete lz4mid run meets every precondition: loadDictHC, block against the dictionary (external segment), contiguous
   block, saveDictHC, block against the saved bytes, destSize with a 12-byte budget (34 of 63 bytes consumed, stream re-anchored),
   a failing call (capacity 10: dirty), LZ4_resetStreamHC_fast, a block *)
Example C11_hc_mid_pre_satisfiable : hstate_inv (ex_m, ex_hc0) /\ hstream_pre (ex_m, ex_hc0) [] ex_hops.
Proof. exact (conj ex_hstate ex_hstream_pre). Qed.
Example C11_hc_mid_nonvacuous :
  htrace (ex_m, ex_hc0) ex_hops =
  [Some (81, 0); Some (20, 78); Some (18, 63); Some (100, 0); Some (28, 78); Some (12, 34); Some (0, 78); Some (0, 0); Some (73, 78)] /\
  strict_valid ex_dict (ex_hout ex_hst1 (HContinue 3000 78 200)) = Some ex_b1 /\
  strict_valid [] (ex_hout ex_hst1 (HContinue 3000 78 200)) = None.
Proof. exact (conj ex_htrace ex_hresults). Qed.

(* ================================================================ HC, hash-chain levels (compression levels 3..9)
   Model/HcChainStream.v: the streaming layer of lz4hc.c with its `strat != lz4mid` branches (LZ4HC_Insert in LZ4_loadDictHC and
   LZ4HC_setExternalDict, LZ4HC_clearTables) around Model.HcChain.hc_compress, nbSearches from the level; level changes inside
   3..9 are followed, a change of STRATEGY inside a history and the dictionary-context search (LZ4HC_searchExtDict) leave the
   model (the functions return None: excluded by `... = Some ...`).
   - C11_hc_chain_stream: for ALL operation lists that stay in the model and respect [cstream_pre], every successful block
     decodes with any decoder window of >= 65535 bytes (strictly for LZ4_compress_HC_continue and the one-shots, to the
     consumed prefix for _destSize); ret <= capacity; capacity >= LZ4_compressBound => success.
   - C11_hc_chain_continue: one call: invariants kept (incl. TB: hashTable entries below the index reached, chainTable entries
     16-bit), write high-water mark <= capacity, factorisation (instance of HcChainParser.hc_compress_ok; its hypothesis
     64 KB <= dictIdx is [k_ready]: LZ4HC_init_internal starts every stream at >= 64 KB).
   - C11_hc_chain_decodes / _write_block / _saveDict: as for the lz4mid levels. *)
From LZ4V Require Import Model.HcChain Model.HcChainApi Model.HcChainStream Proofs.HcChainStreamProofs Proofs.HcChainStreamHist Proofs.HcChainStreamExamples.

Theorem C11_hc_chain_stream :
  forall ops st H, cstate_inv st -> cstream_pre st H ops -> cstream_claim st H ops.
Proof. exact cstream_roundtrip. Qed.
Print Assumptions C11_hc_chain_stream.

Theorem C11_hc_chain_continue :
  forall m c src n cap lim ret consumed out hw c',
  hmem_ok m -> cs_ok c -> k_dirty (cs_core c) = false -> 0 < src -> 0 <= n < 2147483648 -> 0 <= cap ->
  cs_continue_generic m c src n cap lim = Some (CRes ret consumed out hw c') ->
  exists ke cte, cs_effective m c src n = Some (ke, cte) /\ k_ready ke src /\ kc_ok ke cte /\ chain_level (k_level (cs_core c)) = true /\
                 ccall_post m ke src n cap lim ret consumed out hw c'.
Proof. exact cs_continue_generic_sound. Qed.
Print Assumptions C11_hc_chain_continue.

Theorem C11_hc_chain_decodes :
  forall m ke src n cap lim ret consumed out hw c' H,
  k_ready ke src -> ccall_post m ke src n cap lim ret consumed out hw c' -> hhist_inv m ke H -> 0 < ret ->
  (forall K, 65535 <= Z.of_nat K -> spec_decode (lastn K H) out = Some (load_list m src (Z.to_nat consumed))) /\
  (lim <> FillOutput ->
   forall K, 65535 <= Z.of_nat K -> strict_valid (lastn K H) out = Some (load_list m src (Z.to_nat consumed))) /\
  hhist_inv m (cs_core c') (H ++ load_list m src (Z.to_nat consumed)).
Proof. exact cs_call_decodes. Qed.
Print Assumptions C11_hc_chain_decodes.

Theorem C11_hc_chain_write_block :
  forall m c src bs ke cte H,
  cpre_inv c -> hs_dctx (cs_hs c) = None -> 0 < src ->
  cs_effective (store_list m src bs) c src (Z.of_nat (length bs)) = Some (ke, cte) ->
  hhist_inv m (cs_core c) H ->
  hhist_inv (store_list m src bs) ke H.
Proof. exact cs_write_block_hist. Qed.
Print Assumptions C11_hc_chain_write_block.

Theorem C11_hc_chain_saveDict :
  forall m c a n H,
  hmem_ok m -> cs_ok c -> 0 < a -> hhist_inv m (cs_core c) H ->
  hhist_inv (fst (fst (cs_saveDict m c a n))) (cs_core (snd (fst (cs_saveDict m c a n)))) H.
Proof. exact cs_saveDict_hist. Qed.
Print Assumptions C11_hc_chain_saveDict.

Example C11_hc_chain_pre_satisfiable : cstate_inv (ex_m, ex_cc0) /\ cstream_pre (ex_m, ex_cc0) [] ex_cops.
Proof. exact (conj ex_cstate ex_cstream_pre). Qed.
Example C11_hc_chain_nonvacuous :
  ctrace (ex_m, ex_cc0) ex_cops =
  [Some (81, 0); Some (20, 78); Some (18, 63); Some (0, 0); Some (100, 0); Some (27, 78); Some (8, 7); Some (0, 78); Some (0, 0); Some (73, 78)] /\
  strict_valid ex_dict (ex_cout ex_cst1 (CContinue 3000 78 200)) = Some ex_b1 /\
  strict_valid [] (ex_cout ex_cst1 (CContinue 3000 78 200)) = None.
Proof. exact (conj ex_ctrace ex_cresults). Qed.

(* ================================================================ HC, levels 10..12 (optimal parser) - and 3..12 on one model
   Model/HcTabStream.v is the streaming layer of Model/HcChainStream.v made PARAMETRIC in the block compressor (Section variable
   [blk] with the contract HcChainParser.ROK = RSpec /\ RCap under TB at s0); Proofs/HcTabStreamProofs.v proves the whole
   development of HcChainStreamProofs/Hist once for any such compressor.  Model/HcOptStream.v instantiates it with the
   compressor LZ4HC_compress_generic_internal selects from the level: LZ4HC_compress_hashChain (3..9) or LZ4HC_compress_optimal
   (10..12: nbSearches, targetLength, ultra = level 12, favorDecSpeed kept in the context), contract from hc_compress_ok /
   opt_compress_ok.  Both strategies use the same tables: histories may change the level freely inside 3..12.
   Outside (None): lz4mid levels, the dictionary-context search, CUndef.
   - C11_hc_opt_stream / _continue / _decodes / _write_block / _saveDict: the statements of the C11_hc_chain_* theorems for
     this instance (lvl_all = levels 3..12). *)
From LZ4V Require Import Model.HcOpt Model.HcOptApi Model.HcTabStream Model.HcOptStream Proofs.HcTabStreamProofs Proofs.HcOptStreamProofs Proofs.HcOptStreamExamples.

Theorem C11_hc_opt_stream :
  forall ops st H, tstate_inv st -> tstream_pre blk_all lvl_all st H ops -> tstream_claim blk_all lvl_all st H ops.
Proof. exact os_stream_roundtrip. Qed.
Print Assumptions C11_hc_opt_stream.

Theorem C11_hc_opt_continue :
  forall m c src n cap lim ret consumed out hw c',
  hmem_ok m -> ts_ok c -> k_dirty (ts_core c) = false -> 0 < src -> 0 <= n < 2147483648 -> 0 <= cap ->
  ts_continue_generic blk_all lvl_all m c src n cap lim = Some (TRes ret consumed out hw c') ->
  exists ke cte, ts_effective lvl_all m c src n = Some (ke, cte) /\ k_ready ke src /\ kc_ok ke cte /\ lvl_all (k_level (ts_core c)) = true /\
                 tcall_post m ke src n cap lim ret consumed out hw c'.
Proof. exact os_continue_generic_sound. Qed.
Print Assumptions C11_hc_opt_continue.

Theorem C11_hc_opt_decodes :
  forall m ke src n cap lim ret consumed out hw c' H,
  k_ready ke src -> tcall_post m ke src n cap lim ret consumed out hw c' -> hhist_inv m ke H -> 0 < ret ->
  (forall K, 65535 <= Z.of_nat K -> spec_decode (lastn K H) out = Some (load_list m src (Z.to_nat consumed))) /\
  (lim <> FillOutput ->
   forall K, 65535 <= Z.of_nat K -> strict_valid (lastn K H) out = Some (load_list m src (Z.to_nat consumed))) /\
  hhist_inv m (ts_core c') (H ++ load_list m src (Z.to_nat consumed)).
Proof. exact ts_call_decodes. Qed.
Print Assumptions C11_hc_opt_decodes.

Theorem C11_hc_opt_write_block :
  forall m c src bs ke cte H,
  tpre_inv lvl_all c -> hs_dctx (ts_hs c) = None -> 0 < src ->
  ts_effective lvl_all (store_list m src bs) c src (Z.of_nat (length bs)) = Some (ke, cte) ->
  hhist_inv m (ts_core c) H ->
  hhist_inv (store_list m src bs) ke H.
Proof. exact os_write_block_hist. Qed.
Print Assumptions C11_hc_opt_write_block.

Theorem C11_hc_opt_saveDict :
  forall m c a n H,
  hmem_ok m -> ts_ok c -> 0 < a -> hhist_inv m (ts_core c) H ->
  hhist_inv (fst (fst (ts_saveDict m c a n))) (ts_core (snd (fst (ts_saveDict m c a n)))) H.
Proof. exact ts_saveDict_hist. Qed.
Print Assumptions C11_hc_opt_saveDict.

(* level 11, then 5 (hash chain), then 12 with favorDecSpeed, then 10: one history, every precondition met *)
Example C11_hc_opt_pre_satisfiable : tstate_inv (ex_m, ex_oc0) /\ tstream_pre blk_all lvl_all (ex_m, ex_oc0) [] ex_oops.
Proof. exact (conj ex_ostate ex_ostream_pre). Qed.
Example C11_hc_opt_nonvacuous :
  otrace (ex_m, ex_oc0) ex_oops =
  [Some (81, 0); Some (20, 78); Some (18, 63); Some (0, 0); Some (100, 0); Some (27, 78); Some (0, 0); Some (0, 0); Some (8, 7); Some (0, 78);
   Some (0, 0); Some (73, 78)] /\
  strict_valid ex_dict (ex_oout ex_ost1 (TContinue 3000 78 200)) = Some ex_b1 /\
  strict_valid [] (ex_oout ex_ost1 (TContinue 3000 78 200)) = None.
Proof. exact (conj ex_otrace ex_oresults). Qed.
