(* C06 - Compressed blocks conform to the LZ4 block format specification.

   [Spec.BlockSpec.strict_valid hist blk = Some d] says, by definition (written from
   doc/lz4_Block_format.md): blk parses as sequences ending with a literal-only sequence
   that exactly exhausts the block; every offset is in 1..65535 and never reaches before
   the available history (hist ++ output so far); the last 5 bytes are literals and the
   last match starts at least 12 bytes before the end; and the decoded content is d.

   Proved for the fast compressor model, ALL inputs / capacities / accelerations / table
   types / dictionary directives, notLimited and limitedOutput (one-shot, and - through
   the generic theorem - every streaming/dictionary call that instantiates it), and for the
   fillOutput directive (LZ4_compress_destSize, C06_destSize_strict).  HC compressors are not modelled:
   direct oracle only (C06_hc_full_statement). *)
From Coq Require Import ZArith List Lia Bool.
From LZ4V Require Import Gen.Consts Spec.BlockSpec Model.Mem Model.Fast Model.FastApi
     Proofs.FactorSpec Proofs.FastSound Proofs.FastApiSound Proofs.FastDestSize.
From LZ4V Require Model.HcMid Proofs.HcMidSound.
From LZ4V Require Import Model.HcMidApi Proofs.HcMidApiSound.
Import ListNotations.
Local Open Scope Z_scope.

Theorem C06_fast_generic_strict :
  forall (vrd : Z -> Z) tt od dd dictSmall startIndex dictSize dtable dictDelta inputSize maxOutputSize acceleration,
    (forall a, 0 <= vrd a < 256) -> 0 <= dictSize -> od <> FillOutput ->
    forall L, L <= startIndex ->
    (dd = CUsingDictCtx -> forall h, get dtable h + dictDelta < startIndex /\
                                     good3 tt dd dictSmall startIndex dictSize (get dtable h + dictDelta)) ->
    (dist_active tt = false -> startIndex + inputSize - MFLIMIT - hist_lo dd startIndex dictSize <= 65535) ->
    0 <= startIndex ->
    (tt = ByU16 -> mflimitPlusOne startIndex inputSize <= 65536
                   \/ (dictSmall = true /\ 65536 <= startIndex - dictSize /\ L <= 0)) ->
    1 <= acceleration ->
    forall tab ss last consumed tab' hw,
    0 <= inputSize -> tab_ok tt dd dictSmall startIndex dictSize L (startIndex + 1) tab ->
    compress_validated vrd tt od dd dictSmall startIndex dictSize dtable dictDelta inputSize maxOutputSize
                       acceleration tab = ROk ss last consumed tab' hw ->
    strict_valid (seg vrd (hist_lo dd startIndex dictSize) startIndex) (encode_block ss last)
      = Some (seg vrd startIndex (startIndex + inputSize)).
Proof. exact compress_validated_strict. Qed.
Print Assumptions C06_fast_generic_strict.

Theorem C06_fast_extState_strict :
  forall src srcSize cap accel,
    src_ok src ->
    let a := compress_fast_extState src srcSize cap accel in
    0 < a_ret a ->
    a_ret a = Z.of_nat (length (a_out a)) /\
    strict_valid [] (a_out a) = Some (load_list src 0 (Z.to_nat srcSize)).
Proof. exact compress_fast_extState_roundtrip. Qed.
Print Assumptions C06_fast_extState_strict.

Theorem C06_fastReset_history_strict :
  forall calls c,
    ctx_ok c -> Forall (fun k => src_ok (k_src k)) calls ->
    Forall (fun ka => let '(k, a) := ka in
              0 < a_ret a ->
              a_ret a = Z.of_nat (length (a_out a)) /\
              strict_valid [] (a_out a) = Some (load_list (k_src k) 0 (Z.to_nat (k_size k))))
           (run_history c calls).
Proof. exact fastReset_history_sound. Qed.
Print Assumptions C06_fastReset_history_strict.

(* LZ4_compress_destSize(_extState): the emitted block is strictly valid for the consumed prefix *)
Theorem C06_destSize_strict :
  forall src n target accel,
    src_ok src -> 0 <= n <= LZ4_MAX_INPUT_SIZE -> 1 <= target ->
    let a := compress_destSize_internal src n target accel in
    1 <= a_ret a <= target /\ a_ret a <= a_hw a <= target /\
    0 <= a_consumed a <= n /\
    a_ret a = Z.of_nat (length (a_out a)) /\
    strict_valid [] (a_out a) = Some (load_list src 0 (Z.to_nat (a_consumed a))) /\
    (compressBound n <= target -> a_consumed a = n).
Proof. exact destSize_contract. Qed.
Print Assumptions C06_destSize_strict.

(* Not proved (no Coq model of lz4hc.c). *)
Definition C06_hc_full_statement : Prop :=
  forall (compress_HC : mem -> Z -> Z -> Z -> Z * list byte) (src : mem) srcSize cap level,
    src_ok src -> let '(r, out) := compress_HC src srcSize cap level in
    0 < r -> strict_valid [] out = Some (load_list src 0 (Z.to_nat srcSize)).

(* Non-vacuity: a concrete output of the model is strictly valid; and strictness is not
   trivial: the same content with a final match too close to the end is rejected. *)
Example C06_nonvacuous :
  strict_valid [] [31; 97; 1; 0; 0; 208; 1; 2; 3; 4; 5; 6; 7; 8; 9; 10; 11; 12; 13]
    = Some (repeat 97 20 ++ [1; 2; 3; 4; 5; 6; 7; 8; 9; 10; 11; 12; 13])
  /\ strict_valid [] [31; 97; 1; 0; 0; 64; 1; 2; 3; 4] = None
  /\ spec_decode [] [31; 97; 1; 0; 0; 64; 1; 2; 3; 4] = Some (repeat 97 20 ++ [1; 2; 3; 4]).
Proof. vm_compute. repeat split; reflexivity. Qed.

(* HC levels 1-2 (LZ4MID): every block returned by the one-shot entry points, on a context with any history,
   is STRICTLY valid (end-of-block conditions included) and decodes to the input. *)
Theorem C06_hc_mid_strict :
  forall c src srcSize cap,
    hc_ok c -> src_ok src -> 0 <= srcSize < 2147483648 -> 0 <= cap ->
    let r := compress_HC_fastReset_mid c src srcSize cap in
    0 < hr_ret r ->
    hr_ret r = Z.of_nat (length (hr_out r)) /\
    strict_valid [] (hr_out r) = Some (load_list src 0 (Z.to_nat srcSize)).
Proof.
  intros c src srcSize cap Hc Hs Hz Hcap r Hpos.
  destruct (compress_HC_fastReset_mid_sound c src srcSize cap Hc Hs Hz Hcap) as ((_ & _ & H) & _).
  destruct (H Hpos) as (A & _ & _ & _ & B). split; [exact A|]. apply B.
  destruct (cap <? compressBound srcSize); discriminate.
Qed.
Print Assumptions C06_hc_mid_strict.

(* ... and in fillOutput mode (LZ4_compress_HC_destSize at levels 1-2): although the last match may have been
   shortened and the last run adapted to the room left, the block is strictly valid and decodes to the consumed
   prefix. *)
Theorem C06_hc_mid_destSize_strict :
  forall src srcSize target,
    src_ok src -> 0 <= srcSize < 2147483648 -> 0 <= target ->
    let r := compress_HC_destSize_mid src srcSize target in
    0 < hr_ret r -> strict_valid [] (hr_out r) = Some (load_list src 0 (Z.to_nat (hr_consumed r))).
Proof. exact compress_HC_destSize_mid_strict. Qed.
Print Assumptions C06_hc_mid_destSize_strict.

(* HC levels 3-9 (hash chain): every block returned by the one-shot entry points, on a context with any history,
   is STRICTLY valid (end-of-block conditions included) and decodes to the input. *)
From LZ4V Require Model.HcChain Proofs.HcChainSearch Proofs.HcChainSound Proofs.HcChainCap Proofs.HcChainParser.
From LZ4V Require Import Model.HcChainApi Proofs.HcChainApiSound.

Theorem C06_hc_chain_strict :
  forall c src srcSize cap cLevel,
    cc_ok c -> src_ok src -> 0 <= srcSize < 2147483648 -> 0 <= cap -> chain_level cLevel = true ->
    let r := compress_HC_fastReset_chain c src srcSize cap cLevel in
    0 < cr_ret r ->
    cr_ret r = Z.of_nat (length (cr_out r)) /\
    strict_valid [] (cr_out r) = Some (load_list src 0 (Z.to_nat srcSize)).
Proof. exact chain_strict. Qed.
Print Assumptions C06_hc_chain_strict.

(* Non-vacuity: a run that ends exactly LASTLITERALS bytes before the end, levels 3 and 9 *)
Example C06_hc_chain_nonvacuous :
  let l := repeat 7 55 ++ [1; 2; 3; 4; 5] in
  let r := compress_HC_chain (mem_of_list 0 l) 60 100 9 in
  let r3 := compress_HC_chain (mem_of_list 0 l) 60 100 3 in
  (0 < cr_ret r /\ strict_valid [] (cr_out r) = Some l) /\ (0 < cr_ret r3 /\ strict_valid [] (cr_out r3) = Some l) /\
  chain_level 9 = true /\ chain_level 3 = true.
Proof. vm_compute. repeat split; reflexivity. Qed.

(* HC levels 3-12 (hash chain and optimal parser): every block returned by the one-shot entry points, on a context
   with any history (levels mixed), is STRICTLY valid and decodes to the input. *)
From LZ4V Require Model.HcOpt Proofs.HcOptParser.
From LZ4V Require Import Model.HcOptApi Proofs.HcOptApiSound.

Theorem C06_hc_opt_strict :
  forall c src srcSize cap cLevel,
    cc_ok c -> src_ok src -> 0 <= srcSize < 2147483648 -> 0 <= cap -> all_level cLevel = true ->
    let r := compress_HC_fastReset_all c src srcSize cap cLevel in
    0 < cr_ret r ->
    cr_ret r = Z.of_nat (length (cr_out r)) /\
    strict_valid [] (cr_out r) = Some (load_list src 0 (Z.to_nat srcSize)).
Proof. exact opt_strict. Qed.
Print Assumptions C06_hc_opt_strict.

Example C06_hc_opt_nonvacuous :
  let l := repeat 7 55 ++ [1; 2; 3; 4; 5] in
  let r := compress_HC_all (mem_of_list 0 l) 60 100 12 in
  let r3 := compress_HC_all (mem_of_list 0 l) 60 100 10 in
  (0 < cr_ret r /\ strict_valid [] (cr_out r) = Some l) /\ (0 < cr_ret r3 /\ strict_valid [] (cr_out r3) = Some l) /\
  all_level 12 = true /\ all_level 10 = true.
Proof. vm_compute. repeat split; reflexivity. Qed.

(* LZ4_compress_HC_destSize at levels 3-9 (hash chain) and 3-12 (hash chain + optimal parser), fillOutput mode: although
   the last match may have been shortened by the overflow epilogue (re-encoded from optr / opSaved) and the last literal
   run adapted to the remaining room, the block is STRICTLY valid (>= 5 last literals, last match starting >= 12 bytes
   before the end) and decodes to the consumed prefix. *)
From LZ4V Require Proofs.HcChainFill.
From LZ4V Require Import Proofs.HcFillApi.

Theorem C06_hc_chain_destSize_strict :
  forall src srcSize target cLevel,
    src_ok src -> 0 <= srcSize < 2147483648 -> 0 <= target -> chain_level cLevel = true ->
    let r := compress_HC_destSize_chain src srcSize target cLevel in
    0 < cr_ret r -> strict_valid [] (cr_out r) = Some (load_list src 0 (Z.to_nat (cr_consumed r))).
Proof. exact chain_destSize_strict. Qed.
Print Assumptions C06_hc_chain_destSize_strict.

Theorem C06_hc_opt_destSize_strict :
  forall src srcSize target cLevel,
    src_ok src -> 0 <= srcSize < 2147483648 -> 0 <= target -> all_level cLevel = true ->
    let r := compress_HC_destSize_all src srcSize target cLevel in
    0 < cr_ret r -> strict_valid [] (cr_out r) = Some (load_list src 0 (Z.to_nat (cr_consumed r))).
Proof. exact all_destSize_strict. Qed.
Print Assumptions C06_hc_opt_destSize_strict.

(* Non-vacuity: a target that cuts the input, levels 4 and 11: the truncated blocks are strictly valid *)
Example C06_hc_destSize_strict_nonvacuous :
  let l := repeat 7 40 ++ [1; 2; 3; 4; 5; 6; 7; 8; 9; 10; 11; 12; 13; 14; 15; 16; 17; 18; 19; 20] in
  let r := compress_HC_destSize_chain (mem_of_list 0 l) 60 12 4 in
  let r2 := compress_HC_destSize_all (mem_of_list 0 l) 60 12 11 in
  (cr_consumed r = 46 /\ strict_valid [] (cr_out r) = Some (firstn 46 l)) /\
  (cr_consumed r2 = 46 /\ strict_valid [] (cr_out r2) = Some (firstn 46 l)) /\ chain_level 4 = true /\ all_level 11 = true.
Proof. vm_compute. repeat split; reflexivity. Qed.
