(* C08 - Frame decoding is memory-safe, chunking-independent and never falsely succeeds.

   Model: Model.FrameD follows LZ4F_decompress (all 15 dStage values), LZ4F_decodeHeader,
   LZ4F_headerSize, LZ4F_getFrameInfo, LZ4F_resetDecompressionContext decision by decision
   on a flat record of the dctx fields; block decoding is a parameter [bdec] (every theorem
   holds for ALL block decoders, in particular for the specification's and for liblz4's);
   the history relocation inside tmpOutBuffer is abstracted (see Model/FrameD.v).
   The model is tied to the C code on every run by the per-call comparison of harness c08.py.

   Proved here, for every block decoder, every state an API-conforming caller can reach
   (any sequence of LZ4F_decompress / _usingDict / getFrameInfo / reset calls, any bytes,
   any chunking, any capacities, skipChecksums/NULL destination included):
   - C08_header_iff: decodeHeader accepts a header  <=>  Spec.parse_desc accepts the
     descriptor, with the same fields, block size and consumed size; otherwise it returns an
     error or asks for more bytes.  FLG/BD logic: exhaustive 65536-pair comparison lifted
     by lemma; content size, dictID, checksum byte generic.
   - C08_headerSize_spec: LZ4F_headerSize = the size parse_desc consumes.
   - C08_wf_invariant / C08_staging_in_bounds: the stage invariant [wf] holds in every
     reachable state; header[19] and tmpIn[maxBlockSize+4] are never written out of bounds
     (flag d_oob), also on failing calls; tmpIn is large enough for every later frame
     (buffer-sizing arithmetic of dstage_init from the regenerated constants).
   - C08_no_fuel_out: the loop ends within 4*|src|+16 iterations (no livelock inside a call).
   - C08_progress: a call given >= 1 input byte and >= 1 byte of capacity consumes or
     produces at least one byte, or ends the frame (0), or returns an error.
   - C08_reports_within_given: consumed <= |src|, produced <= capacity, and the bytes stored
     at dst (also on failing calls) are <= capacity.
   - C08_complete_sound_oneshot(_usingDict): "never falsely succeeds", for ONE call on a context
     at the start of a frame (fresh, reset, or after a completed frame) given bytes that begin
     with the LZ4 frame magic: if the call returns 0 then Spec.frame_decode accepts these bytes
     (header valid; every block decodable by the same block decoder against the specified
     history - dictionary, or last 64 KB of dictionary ++ content for linked blocks -; block
     checksums, content checksum and a non-zero declared content size verified, checksums
     modulo skipChecksums exactly as Spec's skip flag; the model is even stricter: it verifies
     the checksum of COMPRESSED blocks also under skipChecksums, as the C code does), the
     bytes produced are the specified content, and the bytes consumed are exactly that frame.
     Any capacity, NULL destination, stableDst; both the direct path and the staged-header
     path (inputs shorter than maxFHSize); direct decoding and decoding through tmpOut.
   - C08_chunking_sound: "never falsely succeeds" for RESUMED calls.  From a context at the
     start of a frame, for ANY split of the input into pieces and ANY capacities (>= 0), with the
     documented protocol (what a call does not consume is offered again): if the sequence of
     calls reports completion, then Spec.frame_decode accepts the input (checksums modulo
     skipChecksums as Spec's skip flag), the concatenation of the outputs of all calls is the
     specified content and the total consumed is the length of the frame (or the input begins
     with a skippable frame - magic 0x184D2A5x, 4-byte size n - nothing was produced and exactly
     its 8 + n bytes were consumed).
   - C08_chunking_complete / C08_chunking_reaches / C08_chunking_independent: the converse.  On an
     input that Spec.frame_decode accepts with every checksum verified, from a context at the
     start of a frame, whatever the pieces, the capacities and skipChecksums: NO call fails; when
     the calls end the verdict is the specification's (content, frame length); and they do end -
     with pieces of >= 1 byte and capacities >= 1, |input| + |content| + 1 calls always suffice
     (each call that does not end the frame consumes or produces a byte; when the input is
     exhausted only the end of the frame can be left).  Hence verdict and content are
     independent of the chunking: C08_chunking_independent proves the statement
     C08_chunking_independent_full_statement that earlier rounds left open.
     C08_chunking_*_usingDict: the same for LZ4F_decompress_usingDict (the dictionary is
     re-installed at every call made before the frame's blocks start, as the C code does).
     Proof (Proofs/FrameDChunk.v): a two-way simulation between the staged state (dStage, the
     prefixes held in header[] / tmpIn[], the not yet flushed part of tmpOut, running hashes,
     history, remaining size) and a position in frame_decode's parse of the whole frame.
     Invariant CInv p O s, p = bytes consumed, O = bytes produced since the start of the frame,
     with a continuation clause Kc p E: "p followed by any g with E skip g res is accepted by the
     specification with result res" and "if p ++ g is accepted with all checksums verified then
     E false g res"; proved stage by stage; every error return of the stage machine is
     justified by "the specification rejects every continuation"; hints are shown >= 0.
     The block decoder stays a parameter (the same function in model and specification). *)
From Coq Require Import ZArith List Lia Bool.
From LZ4V Require Import Spec.BlockSpec Spec.XXH32 Spec.FrameSpec Gen.Consts Model.FrameD.
From LZ4V Require Import Proofs.FrameDHeader Proofs.FrameDProofs Proofs.FrameDSound Proofs.FrameDChunk.
From LZ4V Require Import Spec.BlockFast Model.FrameDDict Proofs.FrameDDictProofs.
From LZ4V Require Import Proofs.FrameDDictSession.
Import ListNotations.
Local Open Scope Z_scope.

Theorem C08_header_iff : forall s fromH m0 m1 m2 m3 rest,
  bytes_ok rest = true ->
  le_val [m0; m1; m2; m3] = FD_MAGICNUMBER ->
  FD_minFHSize <= zlen (m0 :: m1 :: m2 :: m3 :: rest) ->
  match parse_desc rest with
  | Some (d, tl) =>
      decodeHeader s fromH (m0 :: m1 :: m2 :: m3 :: rest)
      = (accept_state s d, zlen (m0 :: m1 :: m2 :: m3 :: rest) - zlen tl)
      /\ bsid_size (f_bsid d) = Some (blockSize_of_id (f_bsid d))
  | None =>
      let '(s', r) := decodeHeader s fromH (m0 :: m1 :: m2 :: m3 :: rest) in
      r < 0 \/ (d_stage s' = StoreFrameHeader /\ zlen (m0 :: m1 :: m2 :: m3 :: rest) < d_tmpInTarget s')
  end.
Proof. exact decodeHeader_iff. Qed.
Print Assumptions C08_header_iff.

Theorem C08_headerSize_spec : forall m0 m1 m2 m3 rest d tl,
  bytes_ok rest = true ->
  le_val [m0; m1; m2; m3] = FD_MAGICNUMBER ->
  parse_desc rest = Some (d, tl) ->
  headerSize false (m0 :: m1 :: m2 :: m3 :: rest) = zlen (m0 :: m1 :: m2 :: m3 :: rest) - zlen tl.
Proof. exact headerSize_spec. Qed.
Print Assumptions C08_headerSize_spec.

Theorem C08_wf_invariant : forall bdec s, Reach bdec s false -> wf s.
Proof. exact wf_invariant_thm. Qed.
Print Assumptions C08_wf_invariant.

Theorem C08_staging_in_bounds : forall bdec s failed, Reach bdec s failed -> d_oob s = false.
Proof. exact staging_in_bounds_thm. Qed.
Print Assumptions C08_staging_in_bounds.

Theorem C08_no_fuel_out : forall bdec s src cap o,
  wf s -> 0 <= cap -> r_fuel (snd (decompress bdec s src cap o)) = false.
Proof. exact no_fuel_out_thm. Qed.
Print Assumptions C08_no_fuel_out.

Theorem C08_progress : forall bdec s src cap dict o,
  wf s -> 1 <= zlen src -> 1 <= cap -> o_dstnull o = false ->
  let ob := snd (do_call bdec s (CDec src cap dict o)) in
  ob_ret ob < 0 \/ ob_ret ob = 0 \/ 0 < ob_consumed ob \/ 0 < ob_produced ob.
Proof. exact progress_thm. Qed.
Print Assumptions C08_progress.

Theorem C08_reports_within_given : forall bdec s src cap dict o,
  wf s -> 0 <= cap ->
  let ob := snd (do_call bdec s (CDec src cap dict o)) in
  0 <= ob_consumed ob <= zlen src /\ 0 <= ob_produced ob <= cap /\ zlen (ob_out ob) <= cap.
Proof. exact reports_within_given_thm. Qed.
Print Assumptions C08_reports_within_given.

Theorem C08_complete_sound_oneshot : forall bdec s0 data cap o,
  wf s0 -> d_stage s0 = GetFrameHeader -> d_remaining s0 = 0 -> d_skip s0 = false ->
  bytes_ok data = true -> 0 <= cap -> le_val (ztake 4 data) = FD_MAGICNUMBER ->
  let r := snd (decompress bdec s0 data cap o) in
  r_ret r = 0 -> zlen (r_out r) < 18446744073709551616 ->
  exists rest, frame_decode bdec (o_skip o) (d_hist s0) data = Some (r_out r, rest) /\
               r_consumed r = zlen data - zlen rest.
Proof. exact oneshot_sound. Qed.
Print Assumptions C08_complete_sound_oneshot.

Theorem C08_complete_sound_oneshot_usingDict : forall bdec s0 data cap dict o,
  wf s0 -> d_stage s0 = GetFrameHeader -> d_remaining s0 = 0 -> d_skip s0 = false ->
  bytes_ok data = true -> 0 <= cap -> le_val (ztake 4 data) = FD_MAGICNUMBER ->
  let r := snd (decompress_usingDict bdec s0 data cap dict o) in
  r_ret r = 0 -> zlen (r_out r) < 18446744073709551616 ->
  exists rest, frame_decode bdec (o_skip o) dict data = Some (r_out r, rest) /\
               r_consumed r = zlen data - zlen rest.
Proof. exact oneshot_sound_usingDict. Qed.
Print Assumptions C08_complete_sound_oneshot_usingDict.

(* soundness under chunking ([drive] : Proofs/FrameDChunk.v - the input offered in pieces of sizes
   [ns] with capacities [caps], what a call does not consume is offered again) *)
Theorem C08_chunking_sound : forall bdec o dict k s data ns caps content consumed,
  wf s -> d_stage s = GetFrameHeader -> d_remaining s = 0 -> d_hist s = dict -> d_skip s = false ->
  bytes_ok data = true -> Forall (fun c => 0 <= c) caps ->
  drive bdec o k s data ns caps [] 0 = VComplete content consumed ->
  zlen content < 18446744073709551616 ->
  (exists rest, frame_decode bdec (o_skip o) dict data = Some (content, rest) /\ consumed = zlen data - zlen rest)
  \/ (content = [] /\ Z.land (rd32 data) SKIP_MASK = FD_MAGIC_SKIPPABLE_START /\
      consumed = 8 + rd32 (zdrop 4 data) /\ consumed <= zlen data).
Proof. exact chunked_sound. Qed.
Print Assumptions C08_chunking_sound.

(* completeness under chunking: no call fails on a valid frame (all checksums right), whatever
   skipChecksums, and when the calls end the verdict is the specification's *)
Theorem C08_chunking_complete : forall bdec o dict k s data ns caps content rest,
  wf s -> d_stage s = GetFrameHeader -> d_remaining s = 0 -> d_hist s = dict -> d_skip s = false ->
  bytes_ok data = true -> Forall (fun c => 0 <= c) caps ->
  frame_decode bdec false dict data = Some (content, rest) ->
  drive bdec o k s data ns caps [] 0 <> VError /\
  (drive bdec o k s data ns caps [] 0 <> VMore ->
   drive bdec o k s data ns caps [] 0 = VComplete content (zlen data - zlen rest)).
Proof. exact chunked_complete. Qed.
Print Assumptions C08_chunking_complete.

(* ... and they do end: any pieces >= 1 byte, any capacities >= 1, |input| + |content| + 1 calls *)
Theorem C08_chunking_reaches : forall bdec o dict s data ns caps content rest,
  o_dstnull o = false ->
  wf s -> d_stage s = GetFrameHeader -> d_remaining s = 0 -> d_hist s = dict -> d_skip s = false ->
  bytes_ok data = true -> Forall (fun n => 1 <= n) ns -> Forall (fun c => 1 <= c) caps ->
  frame_decode bdec false dict data = Some (content, rest) ->
  let K := Z.to_nat (zlen data + zlen content + 1) in
  (K <= length ns)%nat -> (K <= length caps)%nat ->
  drive bdec o K s data ns caps [] 0 = VComplete content (zlen data - zlen rest).
Proof. exact chunked_reaches. Qed.
Print Assumptions C08_chunking_reaches.

(* the same three statements for LZ4F_decompress_usingDict (the same dictionary at every call;
   [drive_usingDict] : Proofs/FrameDChunk.v) *)
Theorem C08_chunking_sound_usingDict : forall bdec o dict k s data ns caps content consumed,
  wf s -> d_stage s = GetFrameHeader -> d_remaining s = 0 -> d_skip s = false ->
  bytes_ok data = true -> Forall (fun c => 0 <= c) caps ->
  drive_usingDict bdec dict o k s data ns caps [] 0 = VComplete content consumed ->
  zlen content < 18446744073709551616 ->
  (exists rest, frame_decode bdec (o_skip o) dict data = Some (content, rest) /\ consumed = zlen data - zlen rest)
  \/ (content = [] /\ Z.land (rd32 data) SKIP_MASK = FD_MAGIC_SKIPPABLE_START /\
      consumed = 8 + rd32 (zdrop 4 data) /\ consumed <= zlen data).
Proof. exact chunked_sound_usingDict. Qed.
Print Assumptions C08_chunking_sound_usingDict.

Theorem C08_chunking_complete_usingDict : forall bdec o dict k s data ns caps content rest,
  wf s -> d_stage s = GetFrameHeader -> d_remaining s = 0 -> d_skip s = false ->
  bytes_ok data = true -> Forall (fun c => 0 <= c) caps ->
  frame_decode bdec false dict data = Some (content, rest) ->
  drive_usingDict bdec dict o k s data ns caps [] 0 <> VError /\
  (drive_usingDict bdec dict o k s data ns caps [] 0 <> VMore ->
   drive_usingDict bdec dict o k s data ns caps [] 0 = VComplete content (zlen data - zlen rest)).
Proof. exact chunked_complete_usingDict. Qed.
Print Assumptions C08_chunking_complete_usingDict.

Theorem C08_chunking_reaches_usingDict : forall bdec o dict s data ns caps content rest,
  o_dstnull o = false ->
  wf s -> d_stage s = GetFrameHeader -> d_remaining s = 0 -> d_skip s = false ->
  bytes_ok data = true -> Forall (fun n => 1 <= n) ns -> Forall (fun c => 1 <= c) caps ->
  frame_decode bdec false dict data = Some (content, rest) ->
  let K := Z.to_nat (zlen data + zlen content + 1) in
  (K <= length ns)%nat -> (K <= length caps)%nat ->
  drive_usingDict bdec dict o K s data ns caps [] 0 = VComplete content (zlen data - zlen rest).
Proof. exact chunked_reaches_usingDict. Qed.
Print Assumptions C08_chunking_reaches_usingDict.

(* ---- the statement that earlier rounds left open ---- *)
(* (the frame is valid with ALL checksums verified: under skipChecksums the code - and the model -
   still verifies the checksum of compressed blocks, see C08_example_skip_asymmetry) *)
Definition C08_chunking_independent_full_statement : Prop :=
  forall bdec skip data ns caps content rest,
    bytes_ok data = true ->
    Forall (fun n => 1 <= n) ns -> Forall (fun c => 1 <= c) caps ->
    frame_decode bdec false [] data = Some (content, rest) ->
    (* enough pieces to get through: the verdict is the specification's *)
    (exists k, drive bdec (mkO false skip false) k dctx_init data ns caps [] 0 <> VMore) ->
    exists k, drive bdec (mkO false skip false) k dctx_init data ns caps [] 0
              = VComplete content (zlen data - zlen rest).
Theorem C08_chunking_independent : C08_chunking_independent_full_statement.
Proof. exact chunked_independent. Qed.
Print Assumptions C08_chunking_independent.

(* ---- the hypotheses are satisfiable, on non-trivial states ---- *)
(* a frame with content size and content checksum, one uncompressed block "abc", fed in two
   pieces with capacity 2: needs-more, then partial output, exact hints *)
Example C08_example_run :
  let hdr := [4; 34; 77; 24; 108; 64; 3; 0; 0; 0; 0; 0; 0; 0; 41] in
  let body := [3; 0; 0; 128; 97; 98; 99; 0; 0; 0; 0] in
  let crc := le_bytes 4 (xxh32 0 [97; 98; 99]) in
  let o := mkO false false false in
  let '(s1, r1) := decompress spec_decode dctx_init (hdr ++ [3; 0]) 2 o in
  let '(s2, r2) := decompress spec_decode s1 ([0; 128] ++ [97; 98; 99] ++ [0; 0; 0; 0] ++ crc) 2 o in
  let '(s3, r3) := decompress spec_decode s2 ([99; 0; 0; 0; 0] ++ crc) 2 o in
  (r_consumed r1, r_ret r1, d_stage s1) = (17, 2, StoreBlockHeader) /\
  (r_consumed r2, r_out r2, r_ret r2, d_stage s2) = (4, [97; 98], 5, CopyDirect) /\
  (r_consumed r3, r_out r3, r_ret r3, d_stage s3) = (9, [99], 0, GetFrameHeader) /\
  wf s1 /\ wf s2 /\ wf s3.
Proof.
  vm_compute. repeat split; try reflexivity; auto;
    try (right; exists 65536; repeat split; auto; try (left; reflexivity)); try lia; try discriminate.
Qed.

(* the chunked theorem applies: the same frame in three pieces, capacity 2 *)
Example C08_example_chunked :
  let hdr := [4; 34; 77; 24; 108; 64; 3; 0; 0; 0; 0; 0; 0; 0; 41] in
  let body := [3; 0; 0; 128; 97; 98; 99; 0; 0; 0; 0] in
  let crc := le_bytes 4 (xxh32 0 [97; 98; 99]) in
  let data := hdr ++ body ++ crc ++ [9; 9] in
  drive spec_decode (mkO false false false) 3 dctx_init data [17; 13; 11] [2; 2; 2] [] 0 = VComplete [97; 98; 99] 30
  /\ frame_decode spec_decode false [] data = Some ([97; 98; 99], [9; 9]).
Proof. vm_compute. split; reflexivity. Qed.

(* the completeness theorems apply: a valid frame, 1-byte pieces, capacity 1: 36 calls suffice
   (also with skipChecksums on) *)
Example C08_example_reaches :
  let hdr := [4; 34; 77; 24; 108; 64; 3; 0; 0; 0; 0; 0; 0; 0; 41] in
  let body := [3; 0; 0; 128; 97; 98; 99; 0; 0; 0; 0] in
  let crc := le_bytes 4 (xxh32 0 [97; 98; 99]) in
  let data := hdr ++ body ++ crc ++ [9; 9] in
  frame_decode spec_decode false [] data = Some ([97; 98; 99], [9; 9]) /\
  Z.to_nat (zlen data + zlen [97; 98; 99] + 1) = 36%nat /\
  drive spec_decode (mkO false false false) 36 dctx_init data (repeat 1 36) (repeat 1 36) [] 0 = VComplete [97; 98; 99] 30 /\
  drive spec_decode (mkO false true false) 36 dctx_init data (repeat 1 36) (repeat 1 36) [] 0 = VComplete [97; 98; 99] 30.
Proof. vm_compute. repeat split; reflexivity. Qed.

(* with a dictionary: a compressed block whose match reaches into the dictionary, 1-byte pieces *)
Example C08_example_chunked_usingDict :
  let dict := [1; 2; 3; 4; 5; 6; 7; 8] in
  let blk := [0x10; 122; 5; 0; 0x10; 33] in
  let data := [4; 34; 77; 24; 96; 64; header_checksum [96; 64]] ++ le_bytes 4 6 ++ blk ++ [0; 0; 0; 0] in
  frame_decode spec_decode false dict data = Some ([122; 5; 6; 7; 8; 33], []) /\
  drive_usingDict spec_decode dict (mkO false false false) 40 dctx_init data (repeat 1 40) (repeat 1 40) [] 0
  = VComplete [122; 5; 6; 7; 8; 33] (zlen data).
Proof. vm_compute. split; reflexivity. Qed.

(* a skippable frame (5 bytes of payload) in pieces of 3 bytes: nothing produced, 13 bytes consumed *)
Example C08_example_chunked_skippable :
  let data := [0x53; 0x2A; 0x4D; 0x18; 5; 0; 0; 0; 1; 2; 3; 4; 5; 4; 34; 77; 24] in
  drive spec_decode (mkO false false false) 9 dctx_init data (repeat 3 9) (repeat 1 9) [] 0 = VComplete [] 13 /\
  Z.land (rd32 data) SKIP_MASK = FD_MAGIC_SKIPPABLE_START /\ 8 + rd32 (zdrop 4 data) = 13.
Proof. vm_compute. repeat split; reflexivity. Qed.

Example C08_example_header :
  parse_desc [108; 64; 3; 0; 0; 0; 0; 0; 0; 0; 41]
  = Some (mkDesc true false (Some 3) true None 4, []).
Proof. vm_compute. reflexivity. Qed.

(* the one-shot theorem applies (and is not vacuous): a frame with a linked compressed block
   "abcabcabc..." + raw block, block and content checksums, trailing garbage *)
Example C08_example_oneshot :
  let blk := [0x32; 97; 98; 99; 3; 0; 0x50; 100; 101; 102; 103; 104] in
  let frame := [4; 34; 77; 24; 0x54; 64; 174]
               ++ le_bytes 4 12 ++ blk ++ le_bytes 4 (xxh32 0 blk)
               ++ [2; 0; 0; 128; 120; 121] ++ le_bytes 4 (xxh32 0 [120; 121])
               ++ [0; 0; 0; 0] ++ le_bytes 4 (xxh32 0 ([97; 98; 99; 97; 98; 99; 97; 98; 99; 100; 101; 102; 103; 104] ++ [120; 121])) in
  let '(s1, r1) := decompress spec_decode dctx_init (frame ++ [1; 2; 3]) 100 (mkO false false false) in
  (r_ret r1, r_consumed r1, r_out r1) = (0, zlen frame, [97; 98; 99; 97; 98; 99; 97; 98; 99; 100; 101; 102; 103; 104; 120; 121])
  /\ frame_decode spec_decode false [] (frame ++ [1; 2; 3]) = Some (r_out r1, [1; 2; 3]).
Proof. vm_compute. split; reflexivity. Qed.

(* skipChecksums does not skip the block checksum of COMPRESSED blocks (lz4frame.c:1874-1886 has no
   skipChecksum test), while it does for uncompressed blocks: same frame shape, block checksum
   damaged; the real library behaves the same way (reproduced in the harness corpus) *)
Example C08_example_skip_asymmetry :
  let o := mkO false true false in
  let comp := [4; 34; 77; 24; 112; 64; 173; 6; 0; 0; 0; 80; 97; 98; 99; 100; 101; 91; 7; 108; 118; 0; 0; 0; 0] in
  let raw := [4; 34; 77; 24; 112; 64; 173; 5; 0; 0; 128; 97; 98; 99; 100; 101; 139; 241; 56; 151; 0; 0; 0; 0] in
  r_ret (snd (decompress spec_decode dctx_init comp 100 o)) = - FD_ERR_blockChecksum_invalid /\
  (r_ret (snd (decompress spec_decode dctx_init raw 100 o)), r_out (snd (decompress spec_decode dctx_init raw 100 o)))
    = (0, [97; 98; 99; 100; 101]).
Proof. vm_compute. split; reflexivity. Qed.

(* ==== round 6: the concrete dictionary / tmpOut bookkeeping (Model.FrameDDict: LZ4F_updateDict, choice of
   the decode destination, flushOut, "preserve history" at the end of a call) ============================ *)

(* the concrete call IS Model.FrameD's call as far as the abstract state and the reported result go *)
Theorem C08_ddict_rides_along : forall bdec s d src cap o dst,
  fst (fst (dd_decompress bdec s d src cap o dst)) = decompress bdec s src cap o.
Proof. exact dd_decompress_abstract. Qed.
Print Assumptions C08_ddict_rides_along.

(* (a), function level: every bookkeeping function keeps the invariant [ddI] and each memcpy / decoder call
   it performs stays inside tmpOutBuffer[0, maxBufferSize) resp. the dst window [dstStart, dstPtr + capacity),
   memcpy source/destination inside tmpOutBuffer do not overlap.  Side conditions on the arguments
   (dstStart <= dstPtr, 0 <= capacity, decodedSize <= maxBlockSize, maxBufferSize >= maxBlockSize + 128 KB when
   linked) are hypotheses here; that the stage machine meets them on every session is
   [C08_tmpOut_in_bounds_full_statement] (not proved; evaluated by the oracle on every call of the runs). *)
Theorem C08_tmpOut_in_bounds_partial : forall mb maxBuf lnk,
  sizes mb maxBuf lnk ->
  (forall dstnull d dstPtr dstStart piece hi,
     ddI mb maxBuf lnk false d -> dstStart <= dstPtr -> dstPtr + zlen piece <= hi ->
     Forall (op_ok maxBuf dstStart hi) (snd (dd_copyDirect maxBuf lnk dstnull d dstPtr dstStart piece)) /\
     ddI mb maxBuf lnk false (fst (dd_copyDirect maxBuf lnk dstnull d dstPtr dstStart piece))) /\
  (forall dstnull d dstPtr dstStart cap c,
     ddI mb maxBuf lnk false d -> dstStart <= dstPtr -> 0 <= cap -> zlen c <= mb ->
     Forall (op_ok maxBuf dstStart (dstPtr + cap)) (snd (dd_cblock mb maxBuf lnk dstnull d dstPtr dstStart cap c)) /\
     ddI mb maxBuf lnk (negb (decode_direct mb d cap)) (fst (dd_cblock mb maxBuf lnk dstnull d dstPtr dstStart cap c))) /\
  (forall dstnull d dstPtr dstStart cap,
     ddI mb maxBuf lnk true d -> dstStart <= dstPtr -> 0 <= cap ->
     Forall (op_ok maxBuf dstStart (dstPtr + cap)) (snd (dd_flushOut maxBuf lnk dstnull d dstPtr dstStart cap)) /\
     ddI mb maxBuf lnk true (fst (dd_flushOut maxBuf lnk dstnull d dstPtr dstStart cap))) /\
  (forall stable stage fl d lo hi,
     ddI mb maxBuf lnk fl d -> (fl = true <-> stage = FlushOut) ->
     Forall (op_ok maxBuf lo hi) (snd (dd_endcall lnk stable stage d)) /\
     ddI mb maxBuf lnk fl (fst (dd_endcall lnk stable stage d))).
Proof. exact tmpOut_in_bounds_partial. Qed.
Print Assumptions C08_tmpOut_in_bounds_partial.
Definition C08_tmpOut_in_bounds_full_statement : Prop := tmpOut_in_bounds_full_statement.
(* hypotheses satisfiable: block size 64 KB, linked, the state right after dstage_init *)
Example C08_tmpOut_in_bounds_example :
  sizes 65536 (65536 + 131072) true /\ ddI 65536 (65536 + 131072) true false (dd_stage_init dd_init).
Proof. exact ddI_example. Qed.
(* the executable check the oracle runs on the operations of every call implies [op_ok] *)
Theorem C08_op_okb_sound : forall maxBuf lo hi op, op_okb maxBuf lo hi op = true -> op_ok maxBuf lo hi op.
Proof. exact op_okb_ok. Qed.
Print Assumptions C08_op_okb_sound.

(* (b) read literally -- "the dictSize bytes at dctx->dict are the last dictSize bytes of the output so far" -- is
   FALSE of the faithful model (and of the real context: replayed, see c08.py): after the one legal call
   [wit_run] (linked frame, a stored 61440-byte block then a block decoding to 10241 bytes, capacity 61441,
   stableDst = 0) dict = tmpOutBuffer, dictSize = 61441, but tmpOutBuffer[0, 6145) was never written:
   "preserve history" copies only copySize = 64 KB - tmpOutSize bytes in front of tmpOut while dictSize
   counts preserveSize.  Harmless for decoding (match offsets are < 64 KB and, once the block is flushed, the last
   64 KB at dict+dictSize are valid): the true statement is about the last min(dictSize, 64 KB) bytes at the
   moment a block is decoded ([dict_tail_is_history]); it is not proved. *)
Theorem C08_dict_is_history_refuted :
  linked wit_s = true /\ 0 <= r_ret wit_r /\
  forall m0, m_tmp m0 0 <> 7 ->
    ~ dict_is_history (exec_ops m0 wit_ops) wit_d (r_out wit_r).
Proof. exact dict_is_history_refuted. Qed.
Print Assumptions C08_dict_is_history_refuted.
(* the true form of (b): at every decoder call of a session decoding one linked frame (no stableDst, the caller may
   overwrite its memory between calls) the last min(dictSize, 64 KB) bytes at dict+dictSize are the end of the
   history and dictSize >= min(64 KB, |history|).  Stated, not proved. *)
Definition C08_dict_is_history_full_statement : Prop := dict_is_history_full_statement.

(* ==== round 7: the whole-session lift of (a) ============================================================
   Every memcpy / decoder call of the dictionary bookkeeping, in every LZ4F_decompress / _usingDict call of any
   API-conforming session on a fresh context (capacities >= 0; a dictionary pointer is NULL only for an empty
   dictionary; the session ends at the first error), stays inside tmpOutBuffer[0, maxBufferSize) resp. the call's
   dst window [dst, dst+capacity), memcpy source/destination inside tmpOutBuffer do not overlap, decoded sizes fit.
   This is C08_tmpOut_in_bounds_full_statement with the dictionary-pointer condition added (without it the literal
   full statement fails: dict = NULL with dictSize > 0 reaches the decoder). *)
Theorem C08_tmpOut_in_bounds : forall bdec cs,
  Forall call_conform cs ->
  Forall (fun x => let '(s', c, ops) := x in
                   Forall (op_ok (d_maxBuf s') (dc_dst c) (dc_dst c + dc_cap c)) ops)
         (dd_session bdec dctx_init dd_init cs).
Proof. exact tmpOut_in_bounds. Qed.
Print Assumptions C08_tmpOut_in_bounds.
(* hypothesis satisfiable: the witness call of C08_dict_is_history_refuted is a conforming session *)
Example C08_tmpOut_in_bounds_session_example :
  Forall call_conform [mkDC wit_frame 61441 (mkO false false false) 1000000 None].
Proof. constructor; [|constructor]. split; [cbn [dc_cap]; lia|cbn [dc_dict]; exact Logic.I]. Qed.
