(* C19 - LZ4F contexts are reusable after any history; frames are consumed one by one.

   Decoder half, over Model.FrameD (see Properties_C08.v for the model and its tie):
   - C19_reset_restores_invariant: LZ4F_resetDecompressionContext applied to ANY state that an
     API-conforming caller can be in - in the middle of a frame, after a completed frame,
     after a call that FAILED - yields a state satisfying the decoder invariant, from which
     all theorems of C08 apply again (no staging overflow, progress, ...).
   - C19_frame_end_is_reset: a call that returns 0 (frame complete, LZ4 or skippable) leaves
     the context exactly in a state produced by LZ4F_resetDecompressionContext.
   - C19_reset_is_fresh: a context in ANY state an API-conforming caller can have reached
     (middle of a frame, after completed or skipped frames, after a call that failed) behaves
     after LZ4F_resetDecompressionContext exactly like a freshly created context on EVERY
     further API-conforming sequence of calls (LZ4F_decompress, _usingDict, getFrameInfo, reset;
     any bytes, chunkings, capacities, options): identical consumed counts, output bytes,
     return values (hints and error codes) and reported frame information.  Proved by a
     bisimulation on the live fields of each stage; the buffer capacities a reused context
     keeps are shown not to influence any output.
   - C19_frame_end_is_fresh: the same after a call that returned 0 (end of an LZ4 or skippable
     frame), without any explicit reset.
   - C19_stops_at_frame_end: a call on a context at the start of a frame that returns 0 has
     consumed exactly the bytes of the frame that Spec.frame_decode recognises at the start
     of the input (nothing of what follows), whatever follows and whatever the capacity.
   - C19_getFrameInfo: on a valid header, consumes exactly LZ4F_headerSize = the size
     Spec.parse_desc consumes, reports parse_desc's fields, returns BHSize.
   - C19_getFrameInfo_error_unchanged: if it fails before/while a header is read, nothing is
     consumed and only the frameInfo scratch area may have been zeroed.
   Compression half, over Model.FrameCtx (bookkeeping of LZ4F_compressBegin_internal):
   - C19_cctx_begin_after_any_history: after any sequence of begin/end with any levels and
     capacities (sessions finished, unfinished or refused), LZ4F_compressBegin with capacity
     >= maxFHSize succeeds, cStage = 1, and the block context in use is of the kind the level
     needs and fits the allocation (a HC context is never run inside a fast-sized allocation).
   Not covered at model level: that the frame produced after a reuse is valid (byte-level
   compressor model: C03/C07); the harness c19.py checks it on the real code. *)
From Coq Require Import ZArith List Lia Bool.
From LZ4V Require Import Spec.BlockSpec Spec.XXH32 Spec.FrameSpec Gen.Consts Model.FrameD Model.FrameCtx.
From LZ4V Require Import Proofs.FrameDHeader Proofs.FrameDProofs Proofs.FrameDReuse Proofs.FrameDSound Proofs.FrameDBisim Proofs.FrameCtxProofs.
Import ListNotations.
Local Open Scope Z_scope.

Theorem C19_reset_restores_invariant : forall bdec s failed,
  Reach bdec s failed -> wf (reset s) /\ Reach bdec (reset s) false.
Proof. exact reset_restores_invariant. Qed.
Print Assumptions C19_reset_restores_invariant.

Theorem C19_frame_end_is_reset : forall bdec s src cap o,
  wf s -> 0 <= cap -> r_ret (snd (decompress bdec s src cap o)) = 0 ->
  exists s0, fst (decompress bdec s src cap o) = reset s0.
Proof. exact frame_end_is_reset. Qed.
Print Assumptions C19_frame_end_is_reset.

Theorem C19_reset_is_fresh : forall bdec s failed cs,
  Reach bdec s failed -> run_api bdec (reset s) false cs = run_api bdec dctx_init false cs.
Proof. exact reset_is_fresh. Qed.
Print Assumptions C19_reset_is_fresh.

Theorem C19_frame_end_is_fresh : forall bdec s src cap o cs,
  wf s -> 0 <= cap -> r_ret (snd (decompress bdec s src cap o)) = 0 ->
  run_api bdec (fst (decompress bdec s src cap o)) false cs = run_api bdec dctx_init false cs.
Proof. exact frame_end_is_fresh. Qed.
Print Assumptions C19_frame_end_is_fresh.

Theorem C19_stops_at_frame_end : forall bdec s0 data cap o,
  wf s0 -> d_stage s0 = GetFrameHeader -> d_remaining s0 = 0 -> d_skip s0 = false ->
  bytes_ok data = true -> 0 <= cap -> le_val (ztake 4 data) = FD_MAGICNUMBER ->
  let r := snd (decompress bdec s0 data cap o) in
  r_ret r = 0 -> zlen (r_out r) < 18446744073709551616 ->
  exists content rest, frame_decode bdec (o_skip o) (d_hist s0) data = Some (content, rest) /\
                       r_consumed r = zlen data - zlen rest.
Proof. exact stops_at_frame_end. Qed.
Print Assumptions C19_stops_at_frame_end.

Theorem C19_getFrameInfo : forall bdec s m0 m1 m2 m3 rest d tl,
  d_stage s = GetFrameHeader ->
  bytes_ok rest = true -> le_val [m0; m1; m2; m3] = FD_MAGICNUMBER ->
  parse_desc rest = Some (d, tl) ->
  let src := m0 :: m1 :: m2 :: m3 :: rest in
  getFrameInfo bdec s src
  = (accept_state s d, mkI (headerSize false src) (Some (fi_of_desc d)) FD_BHSize false)
  /\ headerSize false src = zlen src - zlen tl.
Proof. exact getFrameInfo_header. Qed.
Print Assumptions C19_getFrameInfo.

Theorem C19_getFrameInfo_error_unchanged : forall bdec s src,
  d_stage s = GetFrameHeader \/ d_stage s = StoreFrameHeader ->
  let '(s', r) := getFrameInfo bdec s src in
  i_ret r < 0 -> i_consumed r = 0 /\ (s' = s \/ s' = set_fi s fi_zero).
Proof. exact getFrameInfo_error_unchanged. Qed.
Print Assumptions C19_getFrameInfo_error_unchanged.

Theorem C19_cctx_begin_after_any_history : forall ops level cap,
  FD_maxFHSize <= cap ->
  let c := fold_left cstep ops cctx_init in
  let '(c', r) := cbegin c level cap in
  r = 0 /\ cend_ok c' level = true /\ cctx_wf c' /\ cstage_check c' = 0.
Proof. exact cbegin_after_any_history. Qed.
Print Assumptions C19_cctx_begin_after_any_history.

(* ---- the hypotheses are met by concrete, non-trivial states ---- *)
(* a context stopped in the middle of a block (stage storeCBlock) is reset and then decodes an
   empty frame like a fresh one *)
Example C19_example_reset_midframe :
  let hdr := [4; 34; 77; 24; 96; 64; 130] in
  let o := mkO false false false in
  let '(s1, r1) := decompress spec_decode dctx_init (hdr ++ [5; 0; 0; 0; 16; 97]) 100 o in
  let '(s2, r2) := decompress spec_decode (reset s1) (hdr ++ [0; 0; 0; 0]) 100 o in
  let '(s3, r3) := decompress spec_decode dctx_init (hdr ++ [0; 0; 0; 0]) 100 o in
  d_stage s1 = StoreCBlock /\ (r_consumed r2, r_out r2, r_ret r2) = (r_consumed r3, r_out r3, r_ret r3)
  /\ r_ret r2 = 0 /\ r_consumed r2 = 11.
Proof. vm_compute. repeat split; reflexivity. Qed.

(* fast -> HC -> refused (capacity too small) -> fast: the bookkeeping after the last begin *)
Example C19_example_cctx :
  cbegin (fold_left cstep [CBegin 0 100; CEnd; CBegin 9 100; CBegin 3 5; CBegin 1 100] cctx_init) 12 19
  = (mkC 2 2 1, 0).
Proof. vm_compute. reflexivity. Qed.

(* run_api is not trivially None: a conforming sequence on a context that was reset in the middle
   of a block - header in pieces, a failing call (block too large), reset, getFrameInfo, the rest *)
Example C19_example_run_api :
  let hdr := [4; 34; 77; 24; 96; 64; 130] in
  let o := mkO false false false in
  let s1 := fst (decompress spec_decode dctx_init (hdr ++ [5; 0; 0; 0; 16; 97]) 100 o) in
  let cs := [CDec [4; 34; 77] 10 None o; CDec [24; 96; 64; 130; 1; 0; 0; 1] 10 None o; CReset; CInfo hdr;
             CDec [1; 0; 0; 128; 65; 0; 0; 0; 0] 10 None o] in
  run_api spec_decode (reset s1) false cs = run_api spec_decode dctx_init false cs
  /\ match run_api spec_decode dctx_init false cs with
     | Some obs => (map ob_ret obs, map ob_out obs, map ob_consumed obs)
                   = ([8; -2; 0; 4; 0], [[]; []; []; []; [65]], [3; 0; 0; 7; 9])
     | None => False
     end.
Proof. vm_compute. split; reflexivity. Qed.
