(* C15 - `lz4 -d` decodes any concatenation of LZ4, legacy and skippable frames.
   Theorems about Model/Io.v (decode control flow of programs/lz4io.c), the library decoders being
   the specification's (Spec.FrameSpec.frame_decode / Spec.BlockSpec.spec_decode over any block
   decoder [bd]).  Proof scripts: Proofs/IoConcat.v, Proofs/IoSpecFacts.v. *)
From Coq Require Import ZArith List Bool.
From LZ4V Require Import Spec.BlockSpec Spec.FrameSpec Gen.Consts Model.Io.
From LZ4V Require Import Proofs.IoSpecFacts Proofs.IoProofs Proofs.IoConcat.
Import ListNotations.
Local Open Scope Z_scope.

(* every frame magic number exceeds LZ4_COMPRESSBOUND(LEGACY_BLOCKSIZE) (both regenerated from lz4io.c):
   the legacy decoder's "next frame" test cannot misfire on a valid block size, and never misses a frame *)
Theorem C15_legacy_magic_gap : forall w, is_magic w = true -> LZ4IO_LEGACY_BOUND < w.
Proof. exact magic_gap. Qed.
Print Assumptions C15_legacy_magic_gap.

(* ST build: every finite sequence of valid frames, file or pipe (sk), any fseek outcome, with or without --rm *)
Theorem C15_st_concat : forall bd fs sk rm fl,
  benign fl -> Forall (valid_frame bd) fs ->
  let o := decompress_file (frame_decode bd false []) (bd []) false false false sk rm fl (enc_all fs) in
  o_exit o = 0 /\ o_out o = contents fs /\ o_pasteof o = false /\ (rm = true -> o_removed o = true).
Proof. exact st_concat. Qed.
Print Assumptions C15_st_concat.

(* MT build: every sequence in which no legacy frame follows an LZ4 frame *)
Theorem C15_mt_concat_partial : forall bd fs sk rm fl,
  benign fl -> Forall (valid_frame bd) fs -> mt_ok fs ->
  let o := decompress_file (frame_decode bd false []) (bd []) true false false sk rm fl (enc_all fs) in
  o_exit o = 0 /\ o_out o = contents fs /\ o_pasteof o = false /\ (rm = true -> o_removed o = true).
Proof. exact mt_concat_partial. Qed.
Print Assumptions C15_mt_concat_partial.

(* the unrestricted MT statement is false: LZ4 frame ++ legacy frame exits 34 (finding F4), file and pipe *)
Definition C15_mt_concat_full_statement : Prop := mt_concat_full_statement.
Theorem C15_mt_refuted :
  ~ C15_mt_concat_full_statement /\
  Forall (valid_frame spec_decode) f4_witness /\
  o_exit (decompress_file spec_fdec spec_bdec true false false true false no_faults (enc_all f4_witness)) = 34 /\
  o_exit (decompress_file spec_fdec spec_bdec true false false false false no_faults (enc_all f4_witness)) = 34 /\
  (let o := decompress_file spec_fdec spec_bdec false false false true false no_faults (enc_all f4_witness) in
   o_exit o = 0 /\ o_out o = contents f4_witness).
Proof. exact (conj mt_full_refuted mt_refuted). Qed.
Print Assumptions C15_mt_refuted.

(* the hypotheses are met by concrete, non-trivial data *)
Example C15_ex_frames :
  let fs := [FSkip 3 [1; 2; 3]; FLegacy [(f4_block, [97; 98; 99; 100; 101]); (f4_block, [97; 98; 99; 100; 101])];
             FLz4 f4_lz4 []; FSkip 15 []; FLz4 f4_lz4 []] in
  Forall (valid_frame spec_decode) fs /\ mt_ok fs /\ benign no_faults /\
  o_out (decompress_file spec_fdec spec_bdec true false false false true no_faults (enc_all fs)) = [97; 98; 99; 100; 101; 97; 98; 99; 100; 101].
Proof.
  cbv zeta. split; [repeat constructor; vm_compute; try reflexivity; intros D; discriminate|].
  split; [vm_compute; repeat constructor|]. split; [repeat split|]. vm_compute. reflexivity.
Qed.
Example C15_ex_magic : is_magic LEGACY_MAGICNUMBER = true /\ is_magic (LZ4IO_SKIPPABLE0 + 15) = true /\ is_magic LZ4IO_LEGACY_BOUND = false.
Proof. repeat split. Qed.
