(* C07 - Produced frames conform to the LZ4 frame format specification.

   Proved here over Model.FrameC, under the hypotheses of C03 with the STRICT block contract
   (a positive result of the block compressor is a block that satisfies doc/lz4_Block_format.md
   including the end-of-block conditions, Spec.BlockSpec.strict_valid, and decodes to the input):
   every frame produced by a successful Begin .. End session or by LZ4F_compressFrame(_usingCDict) is
     header_bytes d ++ encoded blocks ++ EndMark ++ [content checksum]
   where d is the descriptor the document associates with the preferences (magic number, version 01,
   reserved bits 0, block size id 4..7, content size / dictID fields present iff non-zero, header
   checksum = second byte of XXH32 of the descriptor: all of this is [header_bytes]/[parse_desc] of
   Spec.FrameSpec), and the blocks form a [chain]: each stored size is in 1..maxBlock, each content size
   <= maxBlock, a block is stored with the uncompressed flag exactly when its stored bytes are its
   content, a compressed block is STRICTLY smaller than its content and is strictly valid with the
   history of the format (dictionary only for independent blocks, the last 64 KB of dictionary ++
   preceding content for linked blocks), block checksum = XXH32 of the stored bytes, content checksum =
   XXH32 of the input, the content-size field equals the real size (compressEnd fails with
   frameSize_wrong otherwise).  Consequently the audit Model.FrameAudit.frame_audit (written from the
   document) accepts the frame with content = input and nothing left over. *)
From Coq Require Import ZArith List Lia Bool.
From LZ4V Require Import Gen.Consts Spec.BlockSpec Spec.XXH32 Spec.FrameSpec Model.FrameC Model.FrameAudit
     Proofs.FrameCBytes Proofs.FrameCBlocks Proofs.FrameCProofs Proofs.FrameCTheorems Proofs.FrameCExamples.
Import ListNotations.
Local Open Scope Z_scope.

(* 1. structure of every produced frame, and its acceptance by the audit and by the strict decoder *)
Theorem C07_frame_conformant :
  forall blk, blk_contract strict_valid blk ->
  forall c0 po dk ms F X,
  prefs_opt_ok po -> uncompressed_only_if_independent po ms -> len X < U64 ->
  session blk c0 po dk ms = Some (F, X) ->
  exists maxb bl,
    let p := eff_prefs po in
    4 <= p_bsid p <= 7 /\ bsid_size (p_bsid p) = Some maxb /\
    F = header_bytes (desc_of p) ++ enc_blocks (p_bcrc p =? 1) bl ++ le_bytes 4 0
        ++ (if p_ccrc p =? 1 then le_bytes 4 (xxh32 0 X) else []) /\
    X = contents bl /\
    chain strict_valid (p_blockMode p =? 1) (dict_of dk) maxb [] bl /\
    (p_contentSize p <> 0 -> p_contentSize p = len X) /\
    frame_audit strict_valid (dict_of dk) F = Some (desc_of p, X, [], Z.of_nat (length bl)) /\
    frame_decode strict_valid false (dict_of dk) F = Some (X, []).
Proof. exact c07_conformant. Qed.
Print Assumptions C07_frame_conformant.

(* 2. the header of the document is accepted by the document's parser (header round trip) *)
Theorem C07_header_roundtrip :
  forall d rest, desc_wf d ->
  parse_desc (descriptor_bytes d ++ [header_checksum (descriptor_bytes d)] ++ rest) = Some (d, rest).
Proof. exact parse_desc_header. Qed.
Print Assumptions C07_header_roundtrip.

(* 3. the header written by the model IS the header of the document *)
Theorem C07_header_bytes :
  forall p, prefs_norm p -> frame_header p = header_bytes (desc_of p).
Proof. exact frame_header_spec. Qed.
Print Assumptions C07_header_bytes.

(* 4. independent blocks: every block is valid with the dictionary alone as history *)
Theorem C07_independent_blocks :
  forall blk, blk_contract strict_valid blk ->
  forall c0 po dk ms F X,
  prefs_opt_ok po -> uncompressed_only_if_independent po ms -> len X < U64 ->
  session blk c0 po dk ms = Some (F, X) ->
  p_blockMode (eff_prefs po) = 1 ->
  exists maxb bl,
    let p := eff_prefs po in
    F = header_bytes (desc_of p) ++ enc_blocks (p_bcrc p =? 1) bl ++ le_bytes 4 0
        ++ (if p_ccrc p =? 1 then le_bytes 4 (xxh32 0 X) else []) /\
    X = contents bl /\
    Forall (block_ok strict_valid (dict_of dk) maxb) bl.
Proof. exact c07_independent_blocks. Qed.
Print Assumptions C07_independent_blocks.

(* 5. linked blocks: every block is valid with at most the 64 KB that precede it *)
Theorem C07_linked_window :
  forall blk, blk_contract strict_valid blk ->
  forall c0 po dk ms F X,
  prefs_opt_ok po -> uncompressed_only_if_independent po ms -> len X < U64 ->
  session blk c0 po dk ms = Some (F, X) ->
  p_blockMode (eff_prefs po) = 0 ->
  exists maxb bl,
    let p := eff_prefs po in
    F = header_bytes (desc_of p) ++ enc_blocks (p_bcrc p =? 1) bl ++ le_bytes 4 0
        ++ (if p_ccrc p =? 1 then le_bytes 4 (xxh32 0 X) else []) /\
    X = contents bl /\
    forall bl1 b bl2, bl = bl1 ++ b :: bl2 ->
      exists h, is_suffix h (dict_of dk ++ contents bl1) /\ (length h <= 65536)%nat /\
                block_ok strict_valid h maxb b.
Proof. exact c07_linked_window. Qed.
Print Assumptions C07_linked_window.

(* 6. a declared content size that differs from the real one: compressEnd reports frameSize_wrong *)
Theorem C07_frameSize_wrong :
  forall blk, blk_contract strict_valid blk ->
  forall c0 po dk ms hdr c1 body c2,
  prefs_opt_ok po -> uncompressed_only_if_independent po ms ->
  compressBegin c0 po dk = (Out hdr, c1) ->
  run_mops blk c1 ms = Some (body, c2) ->
  len (mop_inputs ms) < U64 ->
  p_contentSize (eff_prefs po) <> 0 -> p_contentSize (eff_prefs po) <> len (mop_inputs ms) ->
  exists c3, compressEnd blk c2 = (Err FC_ERR_frameSize_wrong, c3).
Proof. exact c07_frameSize_wrong. Qed.
Print Assumptions C07_frameSize_wrong.

(* 7. one-shot entry points *)
Theorem C07_compressFrame_conformant :
  forall blk, blk_contract strict_valid blk ->
  forall c src cd po F c',
  prefs_opt_ok po -> len src < U64 ->
  compressFrame_usingCDict blk c src (match cd with Some d => Some (createCDict d) | None => None end) po = (Out F, c') ->
  exists nb,
    frame_audit strict_valid (match cd with Some d => d | None => [] end) F
    = Some (desc_of (eff_prefs (Some (compressFrame_prefs po (len src)))), src, [], nb).
Proof. exact c07_compressFrame_conformant. Qed.
Print Assumptions C07_compressFrame_conformant.

(* 8. the audit is at least as strict as the decoder of the document *)
Theorem C07_audit_sound :
  forall bdec dict bs d c rest n,
  frame_audit bdec dict bs = Some (d, c, rest, n) -> frame_decode bdec false dict bs = Some (c, rest).
Proof. exact audit_sound. Qed.
Print Assumptions C07_audit_sound.

(* 9. preferences outside the documented block size ids never yield a frame *)
Theorem C07_invalid_blockSizeID_rejected :
  forall c0 po dk,
  bad_bsid (p_bsid (match po with Some p => p | None => prefs_null end)) ->
  exists c1, compressBegin c0 po dk = (Err FC_ERR_maxBlockSize_invalid, c1).
Proof. exact begin_rejects_bad_bsid. Qed.
Print Assumptions C07_invalid_blockSizeID_rejected.

Theorem C07_compressFrame_invalid_blockSizeID_rejected :
  forall blk c src cdict po,
  (let b := p_bsid (match po with Some p => p | None => prefs_null end) in b <> 0 /\ b < 4) ->
  exists c1, compressFrame_usingCDict blk c src cdict po = (Err FC_ERR_maxBlockSize_invalid, c1).
Proof. exact compressFrame_rejects_bad_bsid. Qed.
Print Assumptions C07_compressFrame_invalid_blockSizeID_rejected.

(* ---- the hypotheses are satisfiable, non-vacuously ---- *)
Example C07_ex_contract : blk_contract strict_valid ex_blk /\ strict_valid [] ex_block = Some ex_content.
Proof. split; [exact ex_blk_strict|vm_compute; reflexivity]. Qed.

(* two-block linked frame: first block compressed (11 < 40 bytes), second stored raw; audit accepts *)
Example C07_ex_session :
  match session ex_blk cctx_zero (Some ex_prefs) NoDict ex_ops with
  | Some (F, X) => frame_audit strict_valid [] F
                   = Some (mkDesc false true (Some 83) true None 4, ex_content ++ [1; 2; 3] ++ ex_content, [], 2)
  | None => False
  end.
Proof. vm_compute. reflexivity. Qed.

(* wrong declared size (84 instead of 83): compressEnd fails, there is no session *)
Example C07_ex_wrong_size :
  session ex_blk cctx_zero (Some (set_contentSize ex_prefs 84)) NoDict ex_ops = None.
Proof. vm_compute. reflexivity. Qed.

(* a compressed block that is NOT smaller than its content is refused by the audit
   (4 literals 'abcd' stored "compressed" as 5 bytes in a frame without checksums) *)
Example C07_ex_audit_rejects_oversized :
  frame_audit strict_valid [] (header_bytes (mkDesc true false None false None 4)
                               ++ le_bytes 4 5 ++ [64; 97; 98; 99; 100] ++ le_bytes 4 0) = None
  /\ frame_decode strict_valid false [] (header_bytes (mkDesc true false None false None 4)
                               ++ le_bytes 4 5 ++ [64; 97; 98; 99; 100] ++ le_bytes 4 0) = Some ([97; 98; 99; 100], []).
Proof. vm_compute. split; reflexivity. Qed.

(* F15 (fixed in /repo): a block size id outside {0,4..7} is refused by compressBegin* and by
   compressFrame*; before the fix Begin accepted it and wrote a BD byte that no decoder accepts, or
   (no autoFlush, linked blocks) sized its buffer from the error code *)
Example C07_ex_bsid_rejected :
  fst (compressBegin cctx_zero (Some (mkPrefs 3 0 0 0 0 0 0 1 0)) NoDict) = Err FC_ERR_maxBlockSize_invalid /\
  fst (compressBegin cctx_zero (Some (mkPrefs 3 0 0 0 0 0 0 0 0)) NoDict) = Err FC_ERR_maxBlockSize_invalid /\
  fst (compressBegin cctx_zero (Some (mkPrefs 8 1 0 0 0 0 9 0 0)) (UsingCDict [1; 2; 3])) = Err FC_ERR_maxBlockSize_invalid /\
  compressFrame ex_blk ex_content (Some (mkPrefs 3 0 0 0 0 0 0 0 0)) = Err FC_ERR_maxBlockSize_invalid.
Proof. vm_compute. repeat split; reflexivity. Qed.

(* ================================================================ [stream/lnk6] LINKED blocks and dictionaries: blk_contract DISCHARGED
   (delimited trailing section; see the same section of Properties_C03.v for the construction and for what remains assumed:
   only `forall n, lcall_ok (orc n)`, i.e. the premise of the C11 per-call theorems for every call of the oracle) *)
From LZ4V Require Import Model.Mem Model.Fast Model.FastApi Model.FastStream Model.HcMidStream Model.HcTabStream Model.HcOptStream.
From LZ4V Require Import Proofs.BlkInstLinked Proofs.BlkInstLinkedFrame Proofs.BlkInstLinkedExamples.

Theorem C07_frame_conformant_linked_discharged :
  forall orc, (forall n, lcall_ok (orc n)) -> C07_body (blk_of orc).
Proof. exact c07_linked. Qed.
Print Assumptions C07_frame_conformant_linked_discharged.

Theorem C07_frame_conformant_linked_fast : forall orc, (forall n, fcall_ok (orc n)) -> C07_body (blk_fast orc).
Proof. exact c07_linked_fast. Qed.
Print Assumptions C07_frame_conformant_linked_fast.
Theorem C07_frame_conformant_linked_hc_mid : forall orc, (forall n, hcall_ok (orc n)) -> C07_body (blk_mid orc).
Proof. exact c07_linked_mid. Qed.
Print Assumptions C07_frame_conformant_linked_hc_mid.
Theorem C07_frame_conformant_linked_hc_opt : forall orc, (forall n, ocall_ok (orc n)) -> C07_body (blk_opt orc).
Proof. exact c07_linked_opt. Qed.
Print Assumptions C07_frame_conformant_linked_hc_opt.

(* the contract itself, for any oracle meeting the per-call premise *)
Theorem C07_blk_contract_linked :
  forall orc, (forall n, lcall_ok (orc n)) ->
  blk_contract strict_valid (blk_of orc) /\ blk_contract spec_decode (blk_of orc) /\ Proofs.FrameRoundTrip.blk_bytes (blk_of orc).
Proof. exact blk_of_contract. Qed.
Print Assumptions C07_blk_contract_linked.

(* [C07_body blk] is the conclusion of C07_frame_conformant for that compressor *)
Theorem C07_body_is_C07_frame_conformant : forall blk, blk_contract strict_valid blk -> C07_body blk.
Proof. exact c07_body_of. Qed.
Print Assumptions C07_body_is_C07_frame_conformant.

Example C07_linked_nonvacuous :
  (forall n, fcall_ok (ex_lorc n)) /\
  blk_fast ex_lorc 0 FastStreamExamples.ex_dict FastStreamExamples.ex_b1 = Some (r_out FastStreamExamples.ex_r1) /\
  length (r_out FastStreamExamples.ex_r1) = 20%nat /\
  blk_fast ex_lorc 1 (FastStreamExamples.ex_dict ++ FastStreamExamples.ex_b1) FastStreamExamples.ex_b2 = Some (r_out FastStreamExamples.ex_r2) /\
  blk_fast ex_lorc 1 FastStreamExamples.ex_b1 FastStreamExamples.ex_b2 = None.
Proof. exact (conj ex_lorc_ok ex_lblk_val). Qed.
(* ================================================================ end of [stream/lnk6] *)
