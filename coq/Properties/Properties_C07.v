(* C07 - Produced frames conform to the LZ4 frame format specification.

   Proved here over Model.FrameC, under the hypotheses of C03 with the STRICT block contract
   (a positive result of the block compressor is a block that satisfies doc/lz4_Block_format.md
   including the end-of-block conditions, Spec.BlockSpec.strict_valid, and decodes to the input):
   every frame produced by a successful Begin .. End session or by LZ4F_compressFrame(_usingCDict) is
     header_bytes d ++ encoded blocks ++ EndMark ++ [content checksum]
   where d is the descriptor the document associates with the preferences (magic number, version 01,
   reserved bits 0, block size id 4..7, content size / dictID fields present iff non-zero, header
   checksum = second byte of XXH32 of the descriptor: all of this is [header_bytes]/[parse_desc] of
   Spec.FrameSpec), and the blocks form a [chain]: each stored size is in 1..maxBlock, each content size
   <= maxBlock, a block is stored with the uncompressed flag exactly when its stored bytes are its
   content, a compressed block is STRICTLY smaller than its content and is strictly valid with the
   history of the format (dictionary only for independent blocks, the last 64 KB of dictionary ++
   preceding content for linked blocks), block checksum = XXH32 of the stored bytes, content checksum =
   XXH32 of the input, the content-size field equals the real size (compressEnd fails with
   frameSize_wrong otherwise).  Consequently the audit Model.FrameAudit.frame_audit (written from the
   document) accepts the frame with content = input and nothing left over. *)
From Coq Require Import ZArith List Lia Bool.
From LZ4V Require Import Gen.Consts Spec.BlockSpec Spec.XXH32 Spec.FrameSpec Model.FrameC Model.FrameAudit
     Proofs.FrameCBytes Proofs.FrameCBlocks Proofs.FrameCProofs Proofs.FrameCTheorems Proofs.FrameCExamples.
Import ListNotations.
Local Open Scope Z_scope.

(* 1. structure of every produced frame, and its acceptance by the audit and by the strict decoder *)
Theorem C07_frame_conformant :
  forall blk, blk_contract strict_valid blk ->
  forall c0 po dk ms F X,
  prefs_opt_ok po -> uncompressed_only_if_independent po ms -> len X < U64 ->
  session blk c0 po dk ms = Some (F, X) ->
  exists maxb bl,
    let p := eff_prefs po in
    4 <= p_bsid p <= 7 /\ bsid_size (p_bsid p) = Some maxb /\
    F = header_bytes (desc_of p) ++ enc_blocks (p_bcrc p =? 1) bl ++ le_bytes 4 0
        ++ (if p_ccrc p =? 1 then le_bytes 4 (xxh32 0 X) else []) /\
    X = contents bl /\
    chain strict_valid (p_blockMode p =? 1) (dict_of dk) maxb [] bl /\
    (p_contentSize p <> 0 -> p_contentSize p = len X) /\
    frame_audit strict_valid (dict_of dk) F = Some (desc_of p, X, [], Z.of_nat (length bl)) /\
    frame_decode strict_valid false (dict_of dk) F = Some (X, []).
Proof. exact c07_conformant. Qed.
Print Assumptions C07_frame_conformant.

(* 2. the header of the document is accepted by the document's parser (header round trip) *)
Theorem C07_header_roundtrip :
  forall d rest, desc_wf d ->
  parse_desc (descriptor_bytes d ++ [header_checksum (descriptor_bytes d)] ++ rest) = Some (d, rest).
Proof. exact parse_desc_header. Qed.
Print Assumptions C07_header_roundtrip.

(* 3. the header written by the model IS the header of the document *)
Theorem C07_header_bytes :
  forall p, prefs_norm p -> frame_header p = header_bytes (desc_of p).
Proof. exact frame_header_spec. Qed.
Print Assumptions C07_header_bytes.

(* 4. independent blocks: every block is valid with the dictionary alone as history *)
Theorem C07_independent_blocks :
  forall blk, blk_contract strict_valid blk ->
  forall c0 po dk ms F X,
  prefs_opt_ok po -> uncompressed_only_if_independent po ms -> len X < U64 ->
  session blk c0 po dk ms = Some (F, X) ->
  p_blockMode (eff_prefs po) = 1 ->
  exists maxb bl,
    let p := eff_prefs po in
    F = header_bytes (desc_of p) ++ enc_blocks (p_bcrc p =? 1) bl ++ le_bytes 4 0
        ++ (if p_ccrc p =? 1 then le_bytes 4 (xxh32 0 X) else []) /\
    X = contents bl /\
    Forall (block_ok strict_valid (dict_of dk) maxb) bl.
Proof. exact c07_independent_blocks. Qed.
Print Assumptions C07_independent_blocks.

(* 5. linked blocks: every block is valid with at most the 64 KB that precede it *)
Theorem C07_linked_window :
  forall blk, blk_contract strict_valid blk ->
  forall c0 po dk ms F X,
  prefs_opt_ok po -> uncompressed_only_if_independent po ms -> len X < U64 ->
  session blk c0 po dk ms = Some (F, X) ->
  p_blockMode (eff_prefs po) = 0 ->
  exists maxb bl,
    let p := eff_prefs po in
    F = header_bytes (desc_of p) ++ enc_blocks (p_bcrc p =? 1) bl ++ le_bytes 4 0
        ++ (if p_ccrc p =? 1 then le_bytes 4 (xxh32 0 X) else []) /\
    X = contents bl /\
    forall bl1 b bl2, bl = bl1 ++ b :: bl2 ->
      exists h, is_suffix h (dict_of dk ++ contents bl1) /\ (length h <= 65536)%nat /\
                block_ok strict_valid h maxb b.
Proof. exact c07_linked_window. Qed.
Print Assumptions C07_linked_window.

(* 6. a declared content size that differs from the real one: compressEnd reports frameSize_wrong *)
Theorem C07_frameSize_wrong :
  forall blk, blk_contract strict_valid blk ->
  forall c0 po dk ms hdr c1 body c2,
  prefs_opt_ok po -> uncompressed_only_if_independent po ms ->
  compressBegin c0 po dk = (Out hdr, c1) ->
  run_mops blk c1 ms = Some (body, c2) ->
  len (mop_inputs ms) < U64 ->
  p_contentSize (eff_prefs po) <> 0 -> p_contentSize (eff_prefs po) <> len (mop_inputs ms) ->
  exists c3, compressEnd blk c2 = (Err FC_ERR_frameSize_wrong, c3).
Proof. exact c07_frameSize_wrong. Qed.
Print Assumptions C07_frameSize_wrong.

(* 7. one-shot entry points *)
Theorem C07_compressFrame_conformant :
  forall blk, blk_contract strict_valid blk ->
  forall c src cd po F c',
  prefs_opt_ok po -> len src < U64 ->
  compressFrame_usingCDict blk c src (match cd with Some d => Some (createCDict d) | None => None end) po = (Out F, c') ->
  exists nb,
    frame_audit strict_valid (match cd with Some d => d | None => [] end) F
    = Some (desc_of (eff_prefs (Some (compressFrame_prefs po (len src)))), src, [], nb).
Proof. exact c07_compressFrame_conformant. Qed.
Print Assumptions C07_compressFrame_conformant.

(* 8. the audit is at least as strict as the decoder of the document *)
Theorem C07_audit_sound :
  forall bdec dict bs d c rest n,
  frame_audit bdec dict bs = Some (d, c, rest, n) -> frame_decode bdec false dict bs = Some (c, rest).
Proof. exact audit_sound. Qed.
Print Assumptions C07_audit_sound.

(* 9. preferences outside the documented block size ids never yield a frame *)
Theorem C07_invalid_blockSizeID_rejected :
  forall c0 po dk,
  bad_bsid (p_bsid (match po with Some p => p | None => prefs_null end)) ->
  exists c1, compressBegin c0 po dk = (Err FC_ERR_maxBlockSize_invalid, c1).
Proof. exact begin_rejects_bad_bsid. Qed.
Print Assumptions C07_invalid_blockSizeID_rejected.

Theorem C07_compressFrame_invalid_blockSizeID_rejected :
  forall blk c src cdict po,
  (let b := p_bsid (match po with Some p => p | None => prefs_null end) in b <> 0 /\ b < 4) ->
  exists c1, compressFrame_usingCDict blk c src cdict po = (Err FC_ERR_maxBlockSize_invalid, c1).
Proof. exact compressFrame_rejects_bad_bsid. Qed.
Print Assumptions C07_compressFrame_invalid_blockSizeID_rejected.

(* ---- the hypotheses are satisfiable, non-vacuously ---- *)
Example C07_ex_contract : blk_contract strict_valid ex_blk /\ strict_valid [] ex_block = Some ex_content.
Proof. split; [exact ex_blk_strict|vm_compute; reflexivity]. Qed.

(* two-block linked frame: first block compressed (11 < 40 bytes), second stored raw; audit accepts *)
Example C07_ex_session :
  match session ex_blk cctx_zero (Some ex_prefs) NoDict ex_ops with
  | Some (F, X) => frame_audit strict_valid [] F
                   = Some (mkDesc false true (Some 83) true None 4, ex_content ++ [1; 2; 3] ++ ex_content, [], 2)
  | None => False
  end.
Proof. vm_compute. reflexivity. Qed.

(* wrong declared size (84 instead of 83): compressEnd fails, there is no session *)
Example C07_ex_wrong_size :
  session ex_blk cctx_zero (Some (set_contentSize ex_prefs 84)) NoDict ex_ops = None.
Proof. vm_compute. reflexivity. Qed.

(* a compressed block that is NOT smaller than its content is refused by the audit
   (4 literals 'abcd' stored "compressed" as 5 bytes in a frame without checksums) *)
Example C07_ex_audit_rejects_oversized :
  frame_audit strict_valid [] (header_bytes (mkDesc true false None false None 4)
                               ++ le_bytes 4 5 ++ [64; 97; 98; 99; 100] ++ le_bytes 4 0) = None
  /\ frame_decode strict_valid false [] (header_bytes (mkDesc true false None false None 4)
                               ++ le_bytes 4 5 ++ [64; 97; 98; 99; 100] ++ le_bytes 4 0) = Some ([97; 98; 99; 100], []).
Proof. vm_compute. split; reflexivity. Qed.

(* F15 (fixed in /repo): a block size id outside {0,4..7} is refused by compressBegin* and by
   compressFrame*; before the fix Begin accepted it and wrote a BD byte that no decoder accepts, or
   (no autoFlush, linked blocks) sized its buffer from the error code *)
Example C07_ex_bsid_rejected :
  fst (compressBegin cctx_zero (Some (mkPrefs 3 0 0 0 0 0 0 1 0)) NoDict) = Err FC_ERR_maxBlockSize_invalid /\
  fst (compressBegin cctx_zero (Some (mkPrefs 3 0 0 0 0 0 0 0 0)) NoDict) = Err FC_ERR_maxBlockSize_invalid /\
  fst (compressBegin cctx_zero (Some (mkPrefs 8 1 0 0 0 0 9 0 0)) (UsingCDict [1; 2; 3])) = Err FC_ERR_maxBlockSize_invalid /\
  compressFrame ex_blk ex_content (Some (mkPrefs 3 0 0 0 0 0 0 0 0)) = Err FC_ERR_maxBlockSize_invalid.
Proof. vm_compute. repeat split; reflexivity. Qed.

(* ================================================================ [stream/lnk6] LINKED blocks and dictionaries: blk_contract DISCHARGED
   (delimited trailing section; see the same section of Properties_C03.v for the construction and for what remains assumed:
   only `forall n, lcall_ok (orc n)`, i.e. the premise of the C11 per-call theorems for every call of the oracle) *)
From LZ4V Require Import Model.Mem Model.Fast Model.FastApi Model.FastStream Model.HcMidStream Model.HcTabStream Model.HcOptStream.
From LZ4V Require Import Proofs.BlkInstLinked Proofs.BlkInstLinkedFrame Proofs.BlkInstLinkedExamples.

Theorem C07_frame_conformant_linked_discharged :
  forall orc, (forall n, lcall_ok (orc n)) -> C07_body (blk_of orc).
Proof. exact c07_linked. Qed.
Print Assumptions C07_frame_conformant_linked_discharged.

Theorem C07_frame_conformant_linked_fast : forall orc, (forall n, fcall_ok (orc n)) -> C07_body (blk_fast orc).
Proof. exact c07_linked_fast. Qed.
Print Assumptions C07_frame_conformant_linked_fast.
Theorem C07_frame_conformant_linked_hc_mid : forall orc, (forall n, hcall_ok (orc n)) -> C07_body (blk_mid orc).
Proof. exact c07_linked_mid. Qed.
Print Assumptions C07_frame_conformant_linked_hc_mid.
Theorem C07_frame_conformant_linked_hc_opt : forall orc, (forall n, ocall_ok (orc n)) -> C07_body (blk_opt orc).
Proof. exact c07_linked_opt. Qed.
Print Assumptions C07_frame_conformant_linked_hc_opt.

(* the contract itself, for any oracle meeting the per-call premise *)
Theorem C07_blk_contract_linked :
  forall orc, (forall n, lcall_ok (orc n)) ->
  blk_contract strict_valid (blk_of orc) /\ blk_contract spec_decode (blk_of orc) /\ Proofs.FrameRoundTrip.blk_bytes (blk_of orc).
Proof. exact blk_of_contract. Qed.
Print Assumptions C07_blk_contract_linked.

(* [C07_body blk] is the conclusion of C07_frame_conformant for that compressor *)
Theorem C07_body_is_C07_frame_conformant : forall blk, blk_contract strict_valid blk -> C07_body blk.
Proof. exact c07_body_of. Qed.
Print Assumptions C07_body_is_C07_frame_conformant.

Example C07_linked_nonvacuous :
  (forall n, fcall_ok (ex_lorc n)) /\
  blk_fast ex_lorc 0 FastStreamExamples.ex_dict FastStreamExamples.ex_b1 = Some (r_out FastStreamExamples.ex_r1) /\
  length (r_out FastStreamExamples.ex_r1) = 20%nat /\
  blk_fast ex_lorc 1 (FastStreamExamples.ex_dict ++ FastStreamExamples.ex_b1) FastStreamExamples.ex_b2 = Some (r_out FastStreamExamples.ex_r2) /\
  blk_fast ex_lorc 1 FastStreamExamples.ex_b1 FastStreamExamples.ex_b2 = None.
Proof. exact (conj ex_lorc_ok ex_lblk_val). Qed.
(* ================================================================ end of [stream/lnk6] *)

(* ---- the block-compressor hypothesis DISCHARGED for independent blocks without dictionary (Proofs/BlkInst.v): see
   Properties_C03.v.  The frame produced by the LZ4F model with the block-compressor MODELS plugged in is conformant:
   every block is strictly valid, sizes and checksums are as the frame format prescribes. *)
From LZ4V Require Import Model.FastApi Model.HcMidApi Model.HcChainApi Model.HcOptApi.
From LZ4V Require Import Proofs.BlkInst Proofs.BlkFrameInst.

Theorem C07_frame_conformant_indep_discharged : forall level sf sm sh, states_ok sf sm sh ->
  forall c0 po ms F X,
  prefs_opt_ok po -> uncompressed_only_if_independent po ms -> len X < U64 ->
  p_level (eff_prefs po) = level -> p_blockMode (eff_prefs po) = FC_blockIndependent ->
  session (blk_indep level sf sm sh) c0 po NoDict ms = Some (F, X) ->
  exists maxb bl,
    let p := eff_prefs po in
    4 <= p_bsid p <= 7 /\ bsid_size (p_bsid p) = Some maxb /\
    F = header_bytes (desc_of p) ++ enc_blocks (p_bcrc p =? 1) bl ++ le_bytes 4 0
        ++ (if p_ccrc p =? 1 then le_bytes 4 (xxh32 0 X) else []) /\
    X = contents bl /\
    FrameCBlocks.chain strict_valid (p_blockMode p =? 1) (dict_of NoDict) maxb [] bl /\
    (p_contentSize p <> 0 -> p_contentSize p = len X) /\
    frame_audit strict_valid (dict_of NoDict) F = Some (desc_of p, X, [], Z.of_nat (length bl)) /\
    frame_decode strict_valid false (dict_of NoDict) F = Some (X, []).
Proof. exact c07_conformant_indep. Qed.
Print Assumptions C07_frame_conformant_indep_discharged.

Example C07_indep_discharged_run :
  let ops := [MUpdate (repeat 97 40 ++ [1;2;3;4;5;6;7;8]); MFlush; MUpdate (concat (repeat [5;6;7;8;9] 12))] in
  let run := fun l => match session (blk_indep l (fun _ => ctx_init) (fun _ => hc_init) (fun _ => cc_init)) cctx_zero
                                     (Some (mkPrefs 4 1 1 0 0 1 l 1 0)) NoDict ops with
                      | Some (F, X) => (length F, match frame_decode strict_valid false [] F with Some (Y, []) => Z.of_nat (length Y) | _ => -1 end)
                      | None => (0%nat, -1) end in
  (run 0, run 2, run 9, run 12) = ((60%nat, 108), (60%nat, 108), (60%nat, 108), (60%nat, 108)).
Proof. vm_compute. reflexivity. Qed.

(* ---- linked blocks and dictionaries through the STREAMING models (see Properties_C03.v): every block of the frame is
   strictly valid against the history the format prescribes, and the frame decodes ---- *)
From LZ4V Require Import Model.FastStream Model.HcTabStream Model.HcOptStream.
From LZ4V Require Import Proofs.BlkInstFastLinked Proofs.BlkInstHcLinked Proofs.BlkFrameInstLinked.

Theorem C07_frame_conformant_fast_stream_discharged : forall level st, (forall n, lorc_ok (st n)) ->
  forall c0 po dk ms F X,
  prefs_opt_ok po -> uncompressed_only_if_independent po ms -> len X < U64 ->
  p_level (eff_prefs po) = level -> level < LZ4HC_CLEVEL_MIN ->
  session (blk_fast_linked st level) c0 po dk ms = Some (F, X) ->
  frame_decode strict_valid false (dict_of dk) F = Some (X, []) /\
  exists maxb bl, bsid_size (p_bsid (eff_prefs po)) = Some maxb /\ X = contents bl /\
    FrameCBlocks.chain strict_valid (p_blockMode (eff_prefs po) =? 1) (dict_of dk) maxb [] bl.
Proof. exact c07_conformant_fast_stream. Qed.
Print Assumptions C07_frame_conformant_fast_stream_discharged.

Theorem C07_frame_conformant_hc_stream_discharged : forall st, (forall n, horc_ok (st n)) ->
  forall c0 po dk ms F X,
  prefs_opt_ok po -> uncompressed_only_if_independent po ms -> len X < U64 ->
  3 <= p_level (eff_prefs po) -> p_blockMode (eff_prefs po) = 0 -> no_cdict dk ->
  session (blk_hc_linked st) c0 po dk ms = Some (F, X) ->
  frame_decode strict_valid false (dict_of dk) F = Some (X, []) /\
  exists maxb bl, bsid_size (p_bsid (eff_prefs po)) = Some maxb /\ X = contents bl /\
    FrameCBlocks.chain strict_valid (p_blockMode (eff_prefs po) =? 1) (dict_of dk) maxb [] bl.
Proof. exact c07_conformant_hc_stream. Qed.
Print Assumptions C07_frame_conformant_hc_stream_discharged.

(* level 2 (LZ4MID): linked blocks, dictionaries and CDict through the LZ4MID stream model (Proofs/BlkInstMidLinked.v) *)
From LZ4V Require Import Model.HcMidStream Proofs.BlkInstMidLinked Proofs.BlkFrameInstMid.
Theorem C07_frame_conformant_mid_stream_discharged : forall st, (forall n, morc_ok (st n)) ->
  forall c0 po dk ms F X,
  prefs_opt_ok po -> uncompressed_only_if_independent po ms -> len X < U64 ->
  p_level (eff_prefs po) = 2 ->
  session (blk_mid_linked st) c0 po dk ms = Some (F, X) ->
  frame_decode strict_valid false (dict_of dk) F = Some (X, []) /\
  exists maxb bl, bsid_size (p_bsid (eff_prefs po)) = Some maxb /\ X = contents bl /\
    FrameCBlocks.chain strict_valid (p_blockMode (eff_prefs po) =? 1) (dict_of dk) maxb [] bl.
Proof. exact c07_conformant_mid_stream. Qed.
Print Assumptions C07_frame_conformant_mid_stream_discharged.

(* ---- "the compressors emit bytes" (Proofs/ParserBytes.v, ParserBytesStream.v): the block instances have NO run-time check
   of their output any more; blk_bytes is proved from the models.  The parsers' output is the specification's encoding of
   a factorisation of the byte-valued source (last conjunct of HcMidSound.RSpec / HcChainSound.RSpec), hence a byte
   string (BlockSpecProofs.encode_block_bytes). ---- *)
From LZ4V Require Proofs.ParserBytes Proofs.ParserBytesStream Proofs.BlkOfBytes.

Theorem C07_parser_bytes_mid :
  forall vrd lim prefixIdx dictIdx s0 srcSize maxOut lo dsrch h4 h8,
    (forall a, 0 <= vrd a < 256) ->
    0 <= dictIdx /\ dictIdx <= prefixIdx /\ prefixIdx <= s0 /\ s0 + srcSize < M32 -> 0 <= srcSize ->
    0 <= lo <= dictIdx ->
    (forall ip f, s0 <= ip <= HcMid.mi_mflimit s0 srcSize -> dsrch ip = Some f -> HcMidSound.found_ok vrd s0 srcSize lo ip f) ->
    HcMidSound.tab_lt h4 s0 -> HcMidSound.tab_lt h8 s0 ->
    match HcMid.mid_compress vrd lim prefixIdx dictIdx s0 srcSize maxOut dsrch h4 h8 with
    | HcMid.MOk _ _ out _ _ _ => bytes_ok out = true | _ => True end.
Proof. exact ParserBytes.mid_compress_bytes. Qed.
Print Assumptions C07_parser_bytes_mid.

Theorem C07_parser_bytes_chain :
  forall vrd lim prefixIdx dictIdx s0 srcSize maxOut nb,
    (forall a, 0 <= vrd a < 256) ->
    65536 <= dictIdx /\ dictIdx <= prefixIdx /\ prefixIdx <= s0 /\ s0 + srcSize < M32 - 65536 ->
    0 <= srcSize -> 0 <= maxOut -> (lim = FillOutput -> 1 <= maxOut) ->
    forall t, HcChainSearch.TB t s0 ->
    match HcChain.hc_compress vrd prefixIdx dictIdx lim s0 srcSize maxOut nb t with
    | HcChain.COk _ _ out _ _ => bytes_ok out = true | _ => True end.
Proof. exact ParserBytes.hc_compress_bytes. Qed.
Print Assumptions C07_parser_bytes_chain.

Theorem C07_parser_bytes_opt :
  forall vrd lim prefixIdx dictIdx s0 srcSize maxOut nb targetLength ultra fav,
    (forall a, 0 <= vrd a < 256) ->
    65536 <= dictIdx /\ dictIdx <= prefixIdx /\ prefixIdx <= s0 /\ s0 + srcSize < M32 - 65536 ->
    0 <= srcSize -> 0 <= maxOut -> (lim = FillOutput -> 1 <= maxOut) ->
    forall t, HcChainSearch.TB t s0 ->
    match HcOpt.opt_compress vrd prefixIdx dictIdx lim s0 srcSize maxOut nb targetLength ultra fav t with
    | HcChain.COk _ _ out _ _ => bytes_ok out = true | _ => True end.
Proof. exact ParserBytes.opt_compress_bytes. Qed.
Print Assumptions C07_parser_bytes_opt.

(* the instances of Proofs/BlkInst*.v: [blk_out ret out = if 0 <? ret then Some out else None], no byte check *)
Theorem C07_blk_bytes_unguarded_indep : forall level sf sm sh,
  states_ok sf sm sh -> FrameRoundTrip.blk_bytes (blk_indep level sf sm sh).
Proof. exact indep_bytes. Qed.
Print Assumptions C07_blk_bytes_unguarded_indep.

Theorem C07_blk_bytes_unguarded_fast_stream : forall st level,
  (forall n, lorc_ok (st n)) -> FrameRoundTrip.blk_bytes (blk_fast_linked st level).
Proof. exact blk_fast_linked_bytes. Qed.
Print Assumptions C07_blk_bytes_unguarded_fast_stream.

Theorem C07_blk_bytes_unguarded_mid_stream : forall st,
  (forall n, morc_ok (st n)) -> FrameRoundTrip.blk_bytes (blk_mid_linked st).
Proof. exact blk_mid_linked_bytes. Qed.
Print Assumptions C07_blk_bytes_unguarded_mid_stream.

Theorem C07_blk_bytes_unguarded_hc_stream : forall st,
  (forall n, horc_ok (st n)) -> FrameRoundTrip.blk_bytes (blk_hc_linked st).
Proof. exact blk_hc_linked_bytes. Qed.
Print Assumptions C07_blk_bytes_unguarded_hc_stream.

(* Proofs/BlkInstLinked.v's [blk_of]: its guard (d) ("the output is a byte string") always passes under the per-call
   premises of C11, i.e. blk_of = its unguarded form, which satisfies the contracts *)
Theorem C07_blk_bytes_unguarded_blk_of :
  (forall orc, (forall n, BlkInstLinked.fcall_ok (orc n)) ->
     (forall n h x, BlkInstLinked.blk_fast orc n h x = BlkOfBytes.blk_fast_u orc n h x) /\
     blk_contract strict_valid (BlkOfBytes.blk_fast_u orc) /\ FrameRoundTrip.blk_bytes (BlkOfBytes.blk_fast_u orc)) /\
  (forall orc, (forall n, BlkInstLinked.hcall_ok (orc n)) ->
     (forall n h x, BlkInstLinked.blk_mid orc n h x = BlkOfBytes.blk_mid_u orc n h x) /\
     blk_contract strict_valid (BlkOfBytes.blk_mid_u orc) /\ FrameRoundTrip.blk_bytes (BlkOfBytes.blk_mid_u orc)) /\
  (forall orc, (forall n, BlkInstLinked.ocall_ok (orc n)) ->
     (forall n h x, BlkInstLinked.blk_opt orc n h x = BlkOfBytes.blk_opt_u orc n h x) /\
     blk_contract strict_valid (BlkOfBytes.blk_opt_u orc) /\ FrameRoundTrip.blk_bytes (BlkOfBytes.blk_opt_u orc)).
Proof.
  split; [|split]; intros orc H.
  - destruct (BlkOfBytes.blk_fast_u_contract orc H) as (A & _ & B). split; [exact (BlkOfBytes.blk_fast_guard_true orc H) | split; assumption].
  - destruct (BlkOfBytes.blk_mid_u_contract orc H) as (A & _ & B). split; [exact (BlkOfBytes.blk_mid_guard_true orc H) | split; assumption].
  - destruct (BlkOfBytes.blk_opt_u_contract orc H) as (A & _ & B). split; [exact (BlkOfBytes.blk_opt_guard_true orc H) | split; assumption].
Qed.
Print Assumptions C07_blk_bytes_unguarded_blk_of.

(* non-vacuity: the instance has no byte check (it would pass a non-byte output through), and the blocks the models emit
   in a session at levels 0 / 2 / 9 / 12 are byte strings *)
Example C07_blk_bytes_unguarded_run :
  blk_out 1 [300] = Some [300] /\
  let x := repeat 97 40 ++ [1;2;3;4;5;6;7;8] ++ concat (repeat [5;6;7;8;9] 12) in
  let run := fun l => match blk_indep l (fun _ => ctx_init) (fun _ => hc_init) (fun _ => cc_init) 0%nat [] x with
                      | Some c => (Nat.ltb (length c) (length x), bytes_ok c) | None => (false, false) end in
  (run 0, run 2, run 9, run 12) = ((true, true), (true, true), (true, true), (true, true)).
Proof. vm_compute. split; reflexivity. Qed.
