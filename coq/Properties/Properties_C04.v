(* C04 - the lz4 CLI round-trips every file under every option set, deterministically.
   Statements only; proofs in Proofs/SparseProofs.v and Proofs/CliProofs.v; models in
   Model/Sparse.v, Model/CliOpts.v, Model/CompressPipe.v.

   What is full and what is conditional:
   * C04_sparse_equiv, C04_sparse_equiv_frames, C04_blocksize_map, C04_blocksize_id_map : unconditional.
   * C04_mt_deterministic : conditional on the write register's in-order property (= property C13,
     theorem C13_write_order), stated as write_order_contract; satisfiable (Example below).
   * C04_st_roundtrip, C04_mt_roundtrip, C04_legacy_roundtrip, C04_cli_roundtrip : the bytes the CLI
     assembles are a stream the frame specification decodes to the input, for every input, every
     accepted list of modelled switches and both builds -- conditional on the contracts of the library
     operations the CLI calls (header_contract, update_contract, end_contract, frame_contract,
     block_contract = properties C07 / C03 / C01).  The decoding side of the CLI (lz4 -d, lz4 -t:
     exit status, restored file) is property C15/C14 and is not restated here; its sparse writer is. *)
From Coq Require Import ZArith List Bool Permutation.
From LZ4V Require Import Gen.Consts Spec.BlockSpec Spec.XXH32 Spec.FrameSpec.
From LZ4V Require Import Model.Sparse Model.CliOpts Model.CompressPipe.
From LZ4V Require Import Proofs.SparseProofs Proofs.CliProofs Proofs.CliToyLib.
Import ListNotations.
Local Open Scope Z_scope.

(* ---- sparse writer: LZ4IO_fwriteSparse on every decoded block, then LZ4IO_fwriteSparseEnd, leaves the
   same file (bytes, length, position) as plain fwrite of the same blocks: for every sequence of
   blocks of at most 1 GB each, every sparseFileSupport value, file or stdout ---- *)
Theorem C04_sparse_equiv :
  forall (is_stdout : bool) (support : Z) (bufs : list (list Z)) (f : file),
  f_pos f = lenZ (f_data f) ->
  Forall (fun b => lenZ b <= BUF_MAX) bufs ->
  exists ops,
    sparse_run is_stdout support bufs 0 = Some ops /\
    run_ops f ops = run_ops f (plain_run bufs) /\
    f_data (run_ops f ops) = f_data f ++ concat bufs /\
    f_pos (run_ops f ops) = lenZ (f_data f) + lenZ (concat bufs).
Proof. exact sparse_equiv. Qed.
Print Assumptions C04_sparse_equiv.

Example C04_sparse_equiv_example :
  let bufs := [repeat 0 40 ++ [7; 0; 0]; repeat 0 21; [0; 0; 0; 0; 0; 0; 0; 0; 9; 0; 0; 0; 0]; repeat 0 5] in
  Forall (fun b => lenZ b <= BUF_MAX) bufs /\
  sparse_run false 1 bufs 0
  = Some [Seek 40; Write [7; 0; 0]; Seek 29; Write [9; 0; 0; 0; 0]; Seek 4; Write [0]] /\
  match sparse_run false 1 bufs 0 with
  | Some ops => f_data (run_ops fresh_file ops) = concat bufs /\ f_pos (run_ops fresh_file ops) = 82
  | None => False
  end.
Proof.
  cbv zeta. split; [repeat constructor; vm_compute; intro; discriminate|].
  split; vm_compute; [reflexivity|split; reflexivity].
Qed.

(* the 1 GB guard: storedSkips beyond 1 GB is reduced by a seek of exactly 1 GB *)
Example C04_sparse_guard_example :
  fwrite_sparse false 1 [0; 0; 0; 0; 0; 0; 0; 0; 1] 1073741829 = Some (0, [Seek 1073741824; Seek 13; Write [1]]).
Proof. vm_compute. reflexivity. Qed.

Theorem C04_sparse_equiv_frames :
  forall (is_stdout : bool) (support : Z) (frames : list (list (list Z))) (f : file),
  f_pos f = lenZ (f_data f) ->
  Forall (Forall (fun b => lenZ b <= BUF_MAX)) frames ->
  exists ops,
    sparse_frames is_stdout support frames = Some ops /\
    f_data (run_ops f ops) = f_data f ++ concat (map (@concat Z) frames) /\
    f_pos (run_ops f ops) = lenZ (f_data (run_ops f ops)).
Proof. exact sparse_equiv_frames. Qed.
Print Assumptions C04_sparse_equiv_frames.

(* ---- -B# : LZ4IO_setBlockSize accepts every size_t, stores the size clamped to [32, 4 MB] and selects
   the smallest standard block size ID (4..7, the frame format's sizes) whose block holds it ---- *)
Theorem C04_blocksize_map :
  forall (p : io_prefs) (n : Z), 0 <= n ->
  exists p',
    set_block_size p n = Some (clamp_block_size n, p') /\
    io_blockSize p' = clamp_block_size n /\
    Z.min n CLI_MAX_BLOCKSIZE <= io_blockSize p' /\
    4 <= io_blockSizeId p' <= 7 /\
    io_blockSize p' <= block_size_table (io_blockSizeId p') /\
    (io_blockSizeId p' = 4 \/ block_size_table (io_blockSizeId p' - 1) < io_blockSize p') /\
    bsid_size (io_blockSizeId p') = Some (block_size_table (io_blockSizeId p')).
Proof. exact blocksize_map. Qed.
Print Assumptions C04_blocksize_map.

Example C04_blocksize_map_example :
  set_block_size default_io_prefs 65537 = Some (65537, with_block default_io_prefs 5 65537) /\
  set_block_size default_io_prefs 32 = Some (32, with_block default_io_prefs 4 32) /\
  set_block_size default_io_prefs 1000000 = Some (1000000, with_block default_io_prefs 6 1000000) /\
  set_block_size default_io_prefs 18446744073709551615 = Some (4194304, with_block default_io_prefs 7 4194304).
Proof. vm_compute. repeat split. Qed.

(* -B4 .. -B7 select the documented sizes; other IDs are refused and leave the preferences unchanged *)
Theorem C04_blocksize_id_map :
  forall (p : io_prefs) (id : Z),
  (4 <= id <= 7 ->
     set_block_size_id p id = (block_size_table id, with_block p id (block_size_table id)) /\
     bsid_size id = Some (block_size_table id) /\
     block_size_table 4 = 65536 /\ block_size_table 5 = 262144 /\
     block_size_table 6 = 1048576 /\ block_size_table 7 = 4194304) /\
  (id < 4 \/ 7 < id -> set_block_size_id p id = (0, p)).
Proof. intros p id. split; [exact (blocksize_id_map p id)|exact (blocksize_id_reject p id)]. Qed.
Print Assumptions C04_blocksize_id_map.

(* ---- MT: the file assembled at run time equals header ++ chunk results in rank order ++ tail, a function
   of (options, dictionary, content) only: for every worker count and every completion order ---- *)
Theorem C04_mt_deterministic :
  forall (LZ4F_header : lz4f_prefs -> list Z)
         (LZ4F_frame : lz4f_prefs -> list Z -> list Z -> list Z)
         (LZ4F_update : lz4f_prefs -> list Z -> list (list Z) -> list Z -> list Z)
         (wr : list (Z * list Z) -> list (list Z)),
  write_order_contract wr ->
  forall (p : lz4f_prefs) (dict content : list Z) (nbWorkers : Z) (order : list nat),
  1 <= nbWorkers ->
  CHUNK <= lenZ content ->
  let cs := chunks_of CHUNK content in
  let results := map (mt_chunk LZ4F_update p dict cs) (List.seq 0 (length cs)) in
  Permutation order (List.seq 0 (length cs)) ->
  mt_assembled LZ4F_header wr p content (map (fun i => (Z.of_nat i, nth i results [])) order)
  = mt_output LZ4F_header LZ4F_frame LZ4F_update p dict content.
Proof. exact mt_deterministic. Qed.
Print Assumptions C04_mt_deterministic.

(* the hypothesis is satisfiable: a reference write register has the in-order property *)
Example C04_write_order_contract_satisfiable : write_order_contract wr_ref.
Proof. exact wr_ref_in_order. Qed.
Example C04_mt_chunking_example :
  map lenZ (chunks_of 4 [1; 2; 3; 4; 5; 6; 7; 8; 9]) = [4; 4; 1] /\
  prefix_of [[1; 2]; [3; 4]; [5]] 2 = [3; 4] /\ pieces 9 4 = [4; 4; 1] /\ pieces 8 4 = [4; 4] /\ pieces 0 4 = [].
Proof. vm_compute. repeat split. Qed.

(* the layout functions compared with the real outputs (correspondence c) compute the sizes of the very
   chunks the pipeline theorems quantify over *)
Theorem C04_layout_link :
  forall (sz : Z) (l : list Z), 1 <= sz -> map lenZ (chunks_of sz l) = pieces (lenZ l) sz.
Proof. exact layout_link. Qed.
Print Assumptions C04_layout_link.

(* ---- the pipelines produce streams the frame specification decodes to the input ---- *)
Theorem C04_st_roundtrip :
  forall (bdec : list byte -> list byte -> option (list byte)) (skipcrc : bool)
         (LZ4F_header : lz4f_prefs -> list Z)
         (LZ4F_frame : lz4f_prefs -> list Z -> list Z -> list Z)
         (LZ4F_update : lz4f_prefs -> list Z -> list (list Z) -> list Z -> list Z)
         (LZ4F_end : lz4f_prefs -> list Z -> list Z),
  header_contract LZ4F_header -> update_contract bdec skipcrc LZ4F_update ->
  end_contract LZ4F_end -> frame_contract bdec skipcrc LZ4F_frame ->
  forall (p : lz4f_prefs) (blockSize : Z) (dict content : list Z),
  1 <= blockSize -> valid_prefs p content ->
  let F := st_output LZ4F_header LZ4F_frame LZ4F_update LZ4F_end p blockSize dict content in
  stream_decode bdec skipcrc (S (length F)) dict [] F = Some content.
Proof. exact st_roundtrip. Qed.
Print Assumptions C04_st_roundtrip.

Theorem C04_mt_roundtrip :
  forall (bdec : list byte -> list byte -> option (list byte)) (skipcrc : bool)
         (LZ4F_header : lz4f_prefs -> list Z)
         (LZ4F_frame : lz4f_prefs -> list Z -> list Z -> list Z)
         (LZ4F_update : lz4f_prefs -> list Z -> list (list Z) -> list Z -> list Z),
  header_contract LZ4F_header -> update_contract bdec skipcrc LZ4F_update ->
  frame_contract bdec skipcrc LZ4F_frame ->
  forall (p : lz4f_prefs) (dict content : list Z),
  valid_prefs p content ->
  let F := mt_output LZ4F_header LZ4F_frame LZ4F_update p dict content in
  stream_decode bdec skipcrc (S (length F)) dict [] F = Some content.
Proof. exact mt_roundtrip. Qed.
Print Assumptions C04_mt_roundtrip.

Theorem C04_legacy_roundtrip :
  forall (bdec : list byte -> list byte -> option (list byte)) (skipcrc : bool)
         (LZ4_block : Z -> list Z -> list Z),
  block_contract bdec LZ4_block ->
  forall (level : Z) (dict content : list Z),
  let F := legacy_output LZ4_block level content in
  stream_decode bdec skipcrc (S (length F)) dict [] F = Some content.
Proof. exact legacy_roundtrip. Qed.
Print Assumptions C04_legacy_roundtrip.

(* every accepted list of the modelled switches (levels incl. --fast[=N] / --best, -B4..7, -B#, -BD/-BI, -BX,
   --[no-]content-size, --[no-]frame-crc, --no-crc, -l, -D), both builds, known or unknown source size *)
Theorem C04_cli_roundtrip :
  forall (bdec : list byte -> list byte -> option (list byte)) (skipcrc : bool)
         (LZ4F_header : lz4f_prefs -> list Z)
         (LZ4F_frame : lz4f_prefs -> list Z -> list Z -> list Z)
         (LZ4F_update : lz4f_prefs -> list Z -> list (list Z) -> list Z -> list Z)
         (LZ4F_end : lz4f_prefs -> list Z -> list Z)
         (LZ4_block : Z -> list Z -> list Z),
  header_contract LZ4F_header -> update_contract bdec skipcrc LZ4F_update ->
  end_contract LZ4F_end -> frame_contract bdec skipcrc LZ4F_frame -> block_contract bdec LZ4_block ->
  forall (mt : bool) (args : list arg) (s : cli_state) (fileSize : Z) (dict content : list Z),
  parse_args cli_init args = Some s ->
  (fileSize = 0 \/ fileSize = lenZ content) ->
  lenZ content < U64_MAX1 ->
  let F := cli_compress LZ4F_header LZ4F_frame LZ4F_update LZ4F_end LZ4_block mt s fileSize dict content in
  stream_decode bdec skipcrc (S (length F)) dict [] F = Some content.
Proof. exact cli_roundtrip. Qed.
Print Assumptions C04_cli_roundtrip.

Example C04_cli_options_example :
  exists s, parse_args cli_init [A_level 9; A_B 65537; A_BD; A_BX; A_content_size; A_no_frame_crc; A_dict] = Some s /\
            c_level s = 9 /\ io_blockSizeId (c_prefs s) = 5 /\ io_blockSize (c_prefs s) = 65537 /\
            io_blockIndependence (c_prefs s) = 0 /\ io_blockChecksum (c_prefs s) = 1 /\
            io_streamChecksum (c_prefs s) = 0 /\ io_contentSizeFlag (c_prefs s) = 1 /\
            valid_prefs (prefs_of s 5) [1; 2; 3; 4; 5] /\
            parse_args cli_init [A_B 8] = None /\ parse_args cli_init [A_fast (Some 0)] = None.
Proof.
  exists (mkCli 9 false (mkIo 5 65537 1 0 0 1 0 1)). vm_compute.
  repeat split; try (intro; discriminate). right. reflexivity.
Qed.

(* the library contracts assumed above are satisfiable (by a toy library emitting stored blocks, Proofs/CliToyLib.v:
   not a model of liblz4), so the conditional theorems are not vacuous; instantiated, no hypothesis is left *)
Example C04_contracts_satisfiable :
  header_contract toy_header /\ (forall sk, update_contract toy_bdec sk toy_update) /\ end_contract toy_end /\
  (forall sk, frame_contract toy_bdec sk toy_frame) /\ block_contract toy_bdec toy_block.
Proof.
  split; [exact toy_header_contract|]. split; [exact toy_update_contract|]. split; [exact toy_end_contract|].
  split; [exact toy_frame_contract|exact toy_block_contract].
Qed.
Example C04_cli_roundtrip_instance :
  forall (skipcrc mt : bool) (args : list arg) (s : cli_state) (fileSize : Z) (dict content : list Z),
  parse_args cli_init args = Some s ->
  (fileSize = 0 \/ fileSize = lenZ content) -> lenZ content < U64_MAX1 ->
  let F := cli_compress toy_header toy_frame toy_update toy_end toy_block mt s fileSize dict content in
  stream_decode toy_bdec skipcrc (S (length F)) dict [] F = Some content.
Proof. exact toy_cli_roundtrip. Qed.
(* a concrete run of the ST model: -B32 -BD -BX --content-size on 70 bytes = 3 reads (32, 32, 6), multi-block path *)
Example C04_st_run_example :
  let content := map Z.of_nat (List.seq 0 70) in
  exists s, parse_args cli_init [A_B 32; A_BD; A_BX; A_content_size] = Some s /\
    let F := cli_compress toy_header toy_frame toy_update toy_end toy_block false s 70 [] content in
    length F = 117%nat /\ stream_decode toy_bdec false (S (length F)) [] [] F = Some content /\
    l_blocks (st_layout s 70 70) = [32; 32; 6] /\ l_bsid (st_layout s 70 70) = 4 /\ l_csize (st_layout s 70 70) = Some 70.
Proof. cbv zeta. exists (mkCli 1 false (mkIo 4 32 1 1 0 1 0 0)). vm_compute. repeat split. Qed.


(* ================================================================================================
   THE LIBRARY CONTRACTS DISCHARGED (Proofs/CliCompInst.v).
   The LZ4F operations of the pipelines are instantiated with the byte model of lz4frame.c
   (Model/FrameC.v, properties C03/C07): c4_header / c4_update / c4_end / c4_frame = what
   LZ4F_compressBegin(_usingCDict), the k-th LZ4F_compressUpdate of a session, LZ4F_compressEnd and
   LZ4F_compressFrame_usingCDict write, for the preferences lz4io.c fills; the write register is the
   one of lz4io.c (Model/WriteReg.v, property C13).  The contracts are PROVED for that instance from
   FrameC's invariant, in the form in which they are true:
   - header_contract holds as stated (c4_header_contract);
   - update_contract is FALSE as stated (C04_update_contract_refuted): without autoFlush
     LZ4F_compressUpdate buffers its input and writes nothing; lz4io.c always sets autoFlush = 1, and
     update_contract_af (autoFlush set, block size id 4..7, content size below 2^64) is proved;
   - end_contract is FALSE as stated (C04_end_contract_refuted): with a declared content size that is
     not the real one LZ4F_compressEnd returns ERROR_frameSize_wrong; end_contract_v (valid_prefs) is
     proved;
   - frame_contract is proved for contents below 2^64 bytes (frame_contract_b).
   Both refuted clauses were replayed on the real library (LZ4F_compressUpdate without autoFlush returns
   0 bytes; LZ4F_compressEnd returns frameSize_wrong): the library is right, the contracts were too strong.
   The pipeline theorems are re-derived from the true contracts (st/mt/cli_roundtrip_open).
   Remaining hypotheses, exactly:
     blk_contract strict_valid blk   - what a block compressor called by LZ4F_makeBlock writes decodes
                                       (strict block judgment) to its input with the history offered (C01/C06/C11/C12);
     legacy_blk_contract cblk        - (-l only) LZ4_compress_fast / _HC on a block of <= 8 MB succeeds within
                                       LZ4_compressBound and what it writes decodes to the block (C01);
     and, as premises on the data: fp_autoFlush <> 0 (what lz4io.c sets), contents below 2^64 bytes.
   C04_mt_deterministic_discharged has NO hypothesis left. *)
From LZ4V Require Model.FrameC Proofs.FrameCTheorems.
From LZ4V Require Import Proofs.CliCompInst.

Theorem C04_update_contract_refuted : forall skipcrc, ~ update_contract strict_valid skipcrc (c4_update blk_raw).
Proof. exact update_contract_refuted. Qed.
Print Assumptions C04_update_contract_refuted.

Theorem C04_end_contract_refuted : ~ end_contract (c4_end blk_raw).
Proof. exact end_contract_refuted. Qed.
Print Assumptions C04_end_contract_refuted.

Theorem C04_st_roundtrip_discharged :
  forall blk, FrameCTheorems.blk_contract strict_valid blk ->
  forall (skipcrc : bool) (p : lz4f_prefs) (blockSize : Z) (dict content : list Z),
  1 <= blockSize -> valid_prefs p content -> fp_autoFlush p <> 0 -> lenZ content < U64_MAX1 ->
  let F := st_output c4_header (c4_frame blk) (c4_update blk) (c4_end blk) p blockSize dict content in
  stream_decode strict_valid skipcrc (S (length F)) dict [] F = Some content.
Proof. exact st_roundtrip_discharged. Qed.
Print Assumptions C04_st_roundtrip_discharged.

Theorem C04_mt_roundtrip_discharged :
  forall blk, FrameCTheorems.blk_contract strict_valid blk ->
  forall (skipcrc : bool) (p : lz4f_prefs) (dict content : list Z),
  valid_prefs p content -> fp_autoFlush p <> 0 -> lenZ content < U64_MAX1 ->
  let F := mt_output c4_header (c4_frame blk) (c4_update blk) p dict content in
  stream_decode strict_valid skipcrc (S (length F)) dict [] F = Some content.
Proof. exact mt_roundtrip_discharged. Qed.
Print Assumptions C04_mt_roundtrip_discharged.

(* the write register of lz4io.c itself: every completion order of the jobs, every worker count *)
Theorem C04_mt_deterministic_discharged :
  forall blk (p : lz4f_prefs) (dict content : list Z) (nbWorkers : Z) (order : list nat),
  1 <= nbWorkers -> CHUNK <= lenZ content ->
  let cs := chunks_of CHUNK content in
  let results := map (mt_chunk (c4_update blk) p dict cs) (List.seq 0 (length cs)) in
  Permutation order (List.seq 0 (length cs)) ->
  mt_assembled c4_header wr_real p content (map (fun i => (Z.of_nat i, nth i results [])) order)
  = mt_output c4_header (c4_frame blk) (c4_update blk) p dict content.
Proof. exact mt_deterministic_discharged. Qed.
Print Assumptions C04_mt_deterministic_discharged.

Theorem C04_legacy_roundtrip_discharged :
  forall cblk, legacy_blk_contract cblk ->
  forall (skipcrc : bool) (level : Z) (dict content : list Z),
  let F := legacy_output (c4_block cblk) level content in
  stream_decode strict_valid skipcrc (S (length F)) dict [] F = Some content.
Proof. exact legacy_roundtrip_discharged. Qed.
Print Assumptions C04_legacy_roundtrip_discharged.

Theorem C04_cli_roundtrip_discharged :
  forall blk cblk, FrameCTheorems.blk_contract strict_valid blk -> legacy_blk_contract cblk ->
  forall (skipcrc mt : bool) (args : list arg) (s : cli_state) (fileSize : Z) (dict content : list Z),
  parse_args cli_init args = Some s -> (fileSize = 0 \/ fileSize = lenZ content) -> lenZ content < U64_MAX1 ->
  let F := cli_compress c4_header (c4_frame blk) (c4_update blk) (c4_end blk) (c4_block cblk) mt s fileSize dict content in
  stream_decode strict_valid skipcrc (S (length F)) dict [] F = Some content.
Proof. exact cli_roundtrip_discharged. Qed.
Print Assumptions C04_cli_roundtrip_discharged.

(* the remaining hypothesis is satisfiable (a block compressor that stores every block raw), the
   write register hypothesis of C04_mt_deterministic is met by lz4io.c's own register, and the
   instance runs: -B32 -BD -BX --content-size on 70 bytes through the FrameC model, decoded by the
   frame specification with the strict block judgment *)
Example C04_discharged_hypotheses_satisfiable :
  FrameCTheorems.blk_contract strict_valid blk_raw /\ write_order_contract wr_real /\ legacy_blk_contract cblk_lit.
Proof. split; [exact blk_raw_contract|]. split; [exact wr_real_in_order|exact cblk_lit_contract]. Qed.
(* -l on 20 bytes with the literal-only block compressor, and the MT pipeline's small-file path *)
Example C04_legacy_mt_discharged_run :
  let content := map Z.of_nat (List.seq 0 20) in
  (let F := legacy_output (c4_block cblk_lit) 1 content in
   length F = 30%nat /\ stream_decode strict_valid false (S (length F)) [] [] F = Some content) /\
  (let p := mkFp 0 4 0 1 0 1 1 0 in
   let F := mt_output c4_header (c4_frame blk_raw) (c4_update blk_raw) p [] content in
   valid_prefs p content /\ fp_autoFlush p <> 0 /\ stream_decode strict_valid false (S (length F)) [] [] F = Some content).
Proof. vm_compute. repeat split; try reflexivity; try (intro; discriminate); try (left; reflexivity). Qed.
Example C04_st_discharged_run :
  let content := map Z.of_nat (List.seq 0 70) in
  exists s, parse_args cli_init [A_B 32; A_BD; A_BX; A_content_size] = Some s /\
    let F := cli_compress c4_header (c4_frame blk_raw) (c4_update blk_raw) (c4_end blk_raw) (fun _ c => c) false s 70 [] content in
    length F = 117%nat /\ stream_decode strict_valid false (S (length F)) [] [] F = Some content /\
    valid_prefs (prefs_of s 70) content /\ fp_autoFlush (prefs_of s 70) <> 0.
Proof.
  cbv zeta. exists (mkCli 1 false (mkIo 4 32 1 1 0 1 0 0)). vm_compute.
  repeat split; try reflexivity; try (intro; discriminate). right. reflexivity.
Qed.
