(* C17 - destSize compressors fill the budget with a decodable prefix.

   PROVED over Model.FastApi.compress_destSize_internal (= LZ4_compress_destSize and
   LZ4_compress_destSize_extState, acceleration clamp included) for ALL inputs, ALL budgets >= 1
   and ALL accelerations: C17_fast_destSize.  The fillOutput directive of
   LZ4_compress_generic_validated is covered in full generality (C17_fast_fill_generic): rewinding a
   sequence that would not leave room, shortening the last match so that 1+LASTLITERALS bytes
   remain, adapting the last literal run; termination (no fuel exhaustion) is part of the statement.
   NOT proved: the HC destSize entry points and the continuation of an HC stream after
   LZ4_compress_HC_continue_destSize (lz4hc.c is not modelled): decided by the check's direct
   oracle on the real code (C17_hc_destSize_full_statement). *)
From Coq Require Import ZArith List Lia Bool.
From LZ4V Require Import Gen.Consts Spec.BlockSpec Model.Mem Model.Fast Model.FastApi
     Proofs.FactorSpec Proofs.FastSound Proofs.FastApiSound Proofs.FastDestSize Proofs.FastFill.
From LZ4V Require Model.HcMid Proofs.HcMidSound.
From LZ4V Require Import Model.HcMidApi Proofs.HcMidApiSound.
Import ListNotations.
Local Open Scope Z_scope.

Theorem C17_target_ge_bound :
  forall src n target accel,
    compressBound n <= target ->
    compress_destSize_internal src n target accel = compress_fast_extState src n target accel.
Proof. exact destSize_ge_bound. Qed.
Print Assumptions C17_target_ge_bound.

Theorem C17_target_ge_bound_contract :
  forall src n target accel,
    src_ok src -> 0 <= n <= LZ4_MAX_INPUT_SIZE -> compressBound n <= target ->
    let a := compress_destSize_internal src n target accel in
    0 < a_ret a /\ a_ret a <= a_hw a <= target /\
    a_ret a = Z.of_nat (length (a_out a)) /\
    strict_valid [] (a_out a) = Some (load_list src 0 (Z.to_nat n)).
Proof. exact destSize_ge_bound_contract. Qed.
Print Assumptions C17_target_ge_bound_contract.

(* The whole contract, ANY budget >= 1 (fillOutput directive included): 1 <= r <= target, nothing
   written beyond target (a_hw), a consumed prefix, r = encoded length, the r bytes are a strictly
   valid block that decodes to exactly the consumed prefix, and everything is consumed when
   target >= LZ4_compressBound. *)
Theorem C17_fast_destSize :
  forall src n target accel,
    src_ok src -> 0 <= n <= LZ4_MAX_INPUT_SIZE -> 1 <= target ->
    let a := compress_destSize_internal src n target accel in
    1 <= a_ret a <= target /\ a_ret a <= a_hw a <= target /\
    0 <= a_consumed a <= n /\
    a_ret a = Z.of_nat (length (a_out a)) /\
    strict_valid [] (a_out a) = Some (load_list src 0 (Z.to_nat (a_consumed a))) /\
    (compressBound n <= target -> a_consumed a = n).
Proof. exact destSize_contract. Qed.
Print Assumptions C17_fast_destSize.

(* LZ4_compress_generic_validated with fillOutput, every table type and dictionary directive. *)
Theorem C17_fast_fill_generic :
  forall (vrd : Z -> Z) tt dd dictSmall startIndex dictSize dtable dictDelta inputSize olim acceleration,
    (forall a, 0 <= vrd a < 256) -> 0 <= dictSize -> 0 <= inputSize -> 1 <= olim ->
    forall L, L <= startIndex ->
    (dd = CUsingDictCtx -> forall h, get dtable h + dictDelta < startIndex /\
                                     good3 tt dd dictSmall startIndex dictSize (get dtable h + dictDelta)) ->
    (dist_active tt = false -> startIndex + inputSize - MFLIMIT - hist_lo dd startIndex dictSize <= 65535) ->
    0 <= startIndex ->
    (tt = ByU16 -> mflimitPlusOne startIndex inputSize <= 65536
                   \/ (dictSmall = true /\ 65536 <= startIndex - dictSize /\ L <= 0)) ->
    1 <= acceleration ->
    forall tab,
    tab_ok tt dd dictSmall startIndex dictSize L (startIndex + 1) tab ->
    exists ss last consumed tab' hw,
      compress_validated vrd tt FillOutput dd dictSmall startIndex dictSize dtable dictDelta inputSize olim
                         acceleration tab = ROk ss last consumed tab' hw /\
      0 <= consumed <= inputSize /\
      1 <= Z.of_nat (length (encode_block ss last)) <= hw /\ hw <= olim /\
      strict_valid (seg vrd (hist_lo dd startIndex dictSize) startIndex) (encode_block ss last)
        = Some (seg vrd startIndex (startIndex + consumed)).
Proof. exact compress_validated_fill_contract. Qed.
Print Assumptions C17_fast_fill_generic.

(* Not proved: lz4hc.c is not modelled.  Decided by the check's direct oracle. *)
Definition C17_hc_destSize_full_statement : Prop :=
  forall (HC_destSize : mem -> Z -> Z -> Z -> Z * Z * list byte (* ret, consumed, bytes *)) (src : mem) n target level,
    src_ok src -> 0 <= n <= LZ4_MAX_INPUT_SIZE -> 1 <= target ->
    let '(r, consumed, out) := HC_destSize src n target level in
    1 <= r <= target /\ 0 <= consumed <= n /\
    strict_valid [] out = Some (load_list src 0 (Z.to_nat consumed)) /\
    (compressBound n <= target -> consumed = n).

Example C17_nonvacuous :
  let src := mem_of_list 0 (repeat 97 40 ++ [1;2;3;4;5;6;7;8;9;10;11;12;13;14;15;16;17;18;19;20]) in
  (let a := compress_destSize src 60 100 in (a_ret a, a_consumed a)) = (27, 60)
  /\ (let a := compress_destSize src 60 12 in (a_ret a <=? 12, a_consumed a <? 60, 0 <? a_consumed a)) = (true, true, true).
Proof. vm_compute. split; reflexivity. Qed.

(* LZ4_compress_HC_destSize at levels 1-2 (LZ4MID, fillOutput): nothing is written beyond targetDstSize, and
   a positive result is a block that the specification decodes to exactly the first *srcSizePtr bytes. *)
Theorem C17_hc_mid_destSize :
  forall src srcSize target,
    src_ok src -> 0 <= srcSize < 2147483648 -> 0 <= target ->
    let r := compress_HC_destSize_mid src srcSize target in
    hr_hw r <= target /\
    (0 < hr_ret r ->
       hr_ret r = Z.of_nat (length (hr_out r)) /\ hr_ret r <= target /\ 0 <= hr_consumed r <= srcSize /\
       spec_decode [] (hr_out r) = Some (load_list src 0 (Z.to_nat (hr_consumed r)))).
Proof.
  intros src srcSize target Hs Hz Ht r. subst r.
  destruct (compress_HC_destSize_mid_sound src srcSize target Hs Hz Ht) as (_ & H2 & H3).
  split; [exact H2|]. intros Hp. destruct (H3 Hp) as (A & B & C & D & _). split; [exact A|]. split; [exact B|]. split; [exact C | exact D].
Qed.
Print Assumptions C17_hc_mid_destSize.

Theorem C17_hc_mid_destSize_strict :
  forall src srcSize target,
    src_ok src -> 0 <= srcSize < 2147483648 -> 0 <= target ->
    let r := compress_HC_destSize_mid src srcSize target in
    0 < hr_ret r -> strict_valid [] (hr_out r) = Some (load_list src 0 (Z.to_nat (hr_consumed r))).
Proof. exact compress_HC_destSize_mid_strict. Qed.
Print Assumptions C17_hc_mid_destSize_strict.

(* Non-vacuity: LZ4_compress_HC_destSize(level 2) with a budget too small for the whole input *)
Example C17_hc_mid_nonvacuous :
  let l := concat (repeat [97; 98; 99; 100; 101; 102; 103] 12) ++ [1; 2; 3; 4; 5; 6; 7; 8; 9; 10; 11; 12; 13; 14; 15; 16] in
  let r := compress_HC_destSize_mid (mem_of_list 0 l) 100 20 in
  0 < hr_ret r <= 20 /\ 0 < hr_consumed r < 100 /\
  strict_valid [] (hr_out r) = Some (firstn (Z.to_nat (hr_consumed r)) l).
Proof. vm_compute. repeat split; try reflexivity; discriminate. Qed.

(* LZ4_compress_HC_destSize at levels 3-9 (hash chain, fillOutput): nothing is written beyond targetDstSize, and
   a positive result is a block that the specification decodes to exactly the first *srcSizePtr bytes. *)
From LZ4V Require Model.HcChain Proofs.HcChainSearch Proofs.HcChainSound Proofs.HcChainCap Proofs.HcChainParser.
From LZ4V Require Import Model.HcChainApi Proofs.HcChainApiSound.

Theorem C17_hc_chain_destSize :
  forall src srcSize target cLevel,
    src_ok src -> 0 <= srcSize < 2147483648 -> 0 <= target -> chain_level cLevel = true ->
    let r := compress_HC_destSize_chain src srcSize target cLevel in
    cr_hw r <= target /\
    (0 < cr_ret r ->
       cr_ret r = Z.of_nat (length (cr_out r)) /\ cr_ret r <= target /\ 0 <= cr_consumed r <= srcSize /\
       spec_decode [] (cr_out r) = Some (load_list src 0 (Z.to_nat (cr_consumed r)))).
Proof. exact chain_destSize. Qed.
Print Assumptions C17_hc_chain_destSize.

(* Non-vacuity: target 12 at level 4 consumes 46 of 60 bytes into exactly 12 bytes *)
Example C17_hc_chain_nonvacuous :
  let l := repeat 7 40 ++ [1; 2; 3; 4; 5; 6; 7; 8; 9; 10; 11; 12; 13; 14; 15; 16; 17; 18; 19; 20] in
  let r := compress_HC_destSize_chain (mem_of_list 0 l) 60 12 4 in
  (cr_ret r, cr_consumed r, cr_hw r) = (12, 46, 12) /\
  spec_decode [] (cr_out r) = Some (firstn 46 l) /\ chain_level 4 = true.
Proof. vm_compute. repeat split; reflexivity. Qed.

(* LZ4_compress_HC_destSize at levels 3-12 (fillOutput): nothing is written beyond targetDstSize, and a positive
   result is a block that the specification decodes to exactly the first *srcSizePtr bytes. *)
From LZ4V Require Model.HcOpt Proofs.HcOptParser.
From LZ4V Require Import Model.HcOptApi Proofs.HcOptApiSound.

Theorem C17_hc_opt_destSize :
  forall src srcSize target cLevel,
    src_ok src -> 0 <= srcSize < 2147483648 -> 0 <= target -> all_level cLevel = true ->
    let r := compress_HC_destSize_all src srcSize target cLevel in
    cr_hw r <= target /\
    (0 < cr_ret r ->
       cr_ret r = Z.of_nat (length (cr_out r)) /\ cr_ret r <= target /\ 0 <= cr_consumed r <= srcSize /\
       spec_decode [] (cr_out r) = Some (load_list src 0 (Z.to_nat (cr_consumed r)))).
Proof. exact opt_destSize. Qed.
Print Assumptions C17_hc_opt_destSize.

Example C17_hc_opt_nonvacuous :
  let l := repeat 7 40 ++ [1; 2; 3; 4; 5; 6; 7; 8; 9; 10; 11; 12; 13; 14; 15; 16; 17; 18; 19; 20] in
  let r := compress_HC_destSize_all (mem_of_list 0 l) 60 12 11 in
  (cr_ret r, cr_consumed r, cr_hw r) = (12, 46, 12) /\
  spec_decode [] (cr_out r) = Some (firstn 46 l) /\ all_level 11 = true.
Proof. vm_compute. repeat split; reflexivity. Qed.

(* LZ4_compress_HC_destSize at levels 3-9 (hash chain) and 3-12 (hash chain + optimal parser), fillOutput mode: although
   the last match may have been shortened by the overflow epilogue (re-encoded from optr / opSaved) and the last literal
   run adapted to the remaining room, the block is STRICTLY valid (>= 5 last literals, last match starting >= 12 bytes
   before the end) and decodes to the consumed prefix. *)
From LZ4V Require Proofs.HcChainFill.
From LZ4V Require Import Proofs.HcFillApi.

Theorem C17_hc_chain_destSize_strict :
  forall src srcSize target cLevel,
    src_ok src -> 0 <= srcSize < 2147483648 -> 0 <= target -> chain_level cLevel = true ->
    let r := compress_HC_destSize_chain src srcSize target cLevel in
    0 < cr_ret r -> strict_valid [] (cr_out r) = Some (load_list src 0 (Z.to_nat (cr_consumed r))).
Proof. exact chain_destSize_strict. Qed.
Print Assumptions C17_hc_chain_destSize_strict.

Theorem C17_hc_opt_destSize_strict :
  forall src srcSize target cLevel,
    src_ok src -> 0 <= srcSize < 2147483648 -> 0 <= target -> all_level cLevel = true ->
    let r := compress_HC_destSize_all src srcSize target cLevel in
    0 < cr_ret r -> strict_valid [] (cr_out r) = Some (load_list src 0 (Z.to_nat (cr_consumed r))).
Proof. exact all_destSize_strict. Qed.
Print Assumptions C17_hc_opt_destSize_strict.

(* Non-vacuity: a target that cuts the input, levels 4 and 11: the truncated blocks are strictly valid *)
Example C17_hc_destSize_strict_nonvacuous :
  let l := repeat 7 40 ++ [1; 2; 3; 4; 5; 6; 7; 8; 9; 10; 11; 12; 13; 14; 15; 16; 17; 18; 19; 20] in
  let r := compress_HC_destSize_chain (mem_of_list 0 l) 60 12 4 in
  let r2 := compress_HC_destSize_all (mem_of_list 0 l) 60 12 11 in
  (cr_consumed r = 46 /\ strict_valid [] (cr_out r) = Some (firstn 46 l)) /\
  (cr_consumed r2 = 46 /\ strict_valid [] (cr_out r2) = Some (firstn 46 l)) /\ chain_level 4 = true /\ all_level 11 = true.
Proof. vm_compute. repeat split; reflexivity. Qed.
