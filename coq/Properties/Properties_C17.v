(* C17 - destSize compressors fill the budget with a decodable prefix.

   PROVED so far over Model.FastApi.compress_destSize_internal (LZ4_compress_destSize /
   LZ4_compress_destSize_extState): when targetDstSize >= LZ4_compressBound(srcSize) the call is
   exactly LZ4_compress_fast_extState with the clamped acceleration (C17_target_ge_bound), hence the
   whole input is consumed, 0 < r <= target, nothing is written beyond target, and the r bytes are a
   strictly valid block decoding to the input (C17_target_ge_bound_contract), for ALL inputs and
   accelerations.
   NOT yet proved (kept as full statement): the fillOutput directive for target < bound (rewinding a
   sequence, shortening the last match, adapting the last literal run); and the HC destSize entry
   points (lz4hc.c is not modelled).  Both are decided by the check's direct oracle and, for the
   fast path, by the exact model/code correspondence for every target value tried. *)
From Coq Require Import ZArith List Lia Bool.
From LZ4V Require Import Gen.Consts Spec.BlockSpec Model.Mem Model.Fast Model.FastApi
     Proofs.FastApiSound Proofs.FastDestSize.
Import ListNotations.
Local Open Scope Z_scope.

Theorem C17_target_ge_bound :
  forall src n target accel,
    compressBound n <= target ->
    compress_destSize_internal src n target accel = compress_fast_extState src n target accel.
Proof. exact destSize_ge_bound. Qed.
Print Assumptions C17_target_ge_bound.

Theorem C17_target_ge_bound_contract :
  forall src n target accel,
    src_ok src -> 0 <= n <= LZ4_MAX_INPUT_SIZE -> compressBound n <= target ->
    let a := compress_destSize_internal src n target accel in
    0 < a_ret a /\ a_ret a <= a_hw a <= target /\
    a_ret a = Z.of_nat (length (a_out a)) /\
    strict_valid [] (a_out a) = Some (load_list src 0 (Z.to_nat n)).
Proof. exact destSize_ge_bound_contract. Qed.
Print Assumptions C17_target_ge_bound_contract.

Definition C17_fast_destSize_full_statement : Prop :=
  forall src n target accel,
    src_ok src -> 0 <= n <= LZ4_MAX_INPUT_SIZE -> 1 <= target ->
    let a := compress_destSize_internal src n target accel in
    1 <= a_ret a <= target /\ a_hw a <= target /\ 0 <= a_consumed a <= n /\
    a_ret a = Z.of_nat (length (a_out a)) /\
    strict_valid [] (a_out a) = Some (load_list src 0 (Z.to_nat (a_consumed a))).

Example C17_nonvacuous :
  let src := mem_of_list 0 (repeat 97 40 ++ [1;2;3;4;5;6;7;8;9;10;11;12;13;14;15;16;17;18;19;20]) in
  (let a := compress_destSize src 60 100 in (a_ret a, a_consumed a)) = (27, 60)
  /\ (let a := compress_destSize src 60 12 in (a_ret a <=? 12, a_consumed a <? 60, 0 <? a_consumed a)) = (true, true, true).
Proof. vm_compute. split; reflexivity. Qed.
