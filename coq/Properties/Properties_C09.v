(* C09 - Block compressors honour the destination-capacity contract.

   For the fast compressor model (Model.Fast / Model.FastApi), ALL inputs, sizes, capacities,
   accelerations, table types, dictionary directives and prior context states:
   - sizes that are negative or above LZ4_MAX_INPUT_SIZE yield 0;
   - with capacity >= LZ4_compressBound(srcSize) the call cannot fail (the fuel of every loop of the
     model suffices: termination is part of the statement) and returns 0 < r <= bound;
   - with a smaller (non-negative) capacity it returns 0 or 0 < r <= capacity;
   - in every case the model's write high-water mark [a_hw] - which accounts for the bytes the wild
     copies and the 4-byte 0xFF stores touch beyond the logical end - is <= the capacity
     (<= LZ4_compressBound in the unlimited mode): nothing is written beyond dst+dstCapacity;
   - r is exactly the number of bytes of the encoded block (C01/C06 say they decode to the input).
   Worst-case size argument: per sequence 255 * output <= 256 * input consumed.
   Not covered by a theorem: reads outside the source (the model has no read monitor on the
   compressor side: ASan with exact buffers in the check), negative capacities (correspondence only),
   and the HC compressors (direct oracle only). *)
From Coq Require Import ZArith List Lia Bool.
From LZ4V Require Import Gen.Consts Spec.BlockSpec Model.Mem Model.Fast Model.FastApi
     Model.HcEmit Proofs.FastCap Proofs.FastApiCap Proofs.HcEmitProofs.
From LZ4V Require Model.HcMid Proofs.HcMidSound.
From LZ4V Require Import Model.HcMidApi Proofs.HcMidApiSound.
From LZ4V Require Import Proofs.FastApiSound.
Import ListNotations.
Local Open Scope Z_scope.

(* LZ4_compress_generic_validated: result is a failure only in limitedOutput mode; otherwise the
   encoded length is below the high-water mark, which is below the limit of the mode. *)
Theorem C09_fast_generic_cap :
  forall (vrd : Z -> Z) tt od dd dictSmall startIndex dictSize dtable dictDelta inputSize maxOutputSize acceleration,
    od <> FillOutput -> 0 <= inputSize -> 1 <= acceleration -> (od = LimitedOutput -> 0 <= maxOutputSize) ->
    forall tab,
    RCap od inputSize maxOutputSize
         (compress_validated vrd tt od dd dictSmall startIndex dictSize dtable dictDelta inputSize maxOutputSize
                             acceleration tab).
Proof. exact compress_validated_cap. Qed.
Print Assumptions C09_fast_generic_cap.

Theorem C09_fast_extState :
  forall src srcSize cap accel,
    let a := compress_fast_extState src srcSize cap accel in
    ((srcSize < 0 \/ srcSize > LZ4_MAX_INPUT_SIZE) -> a_ret a = 0) /\
    (0 <= srcSize <= LZ4_MAX_INPUT_SIZE ->
     (compressBound srcSize <= cap -> 0 < a_ret a /\ a_ret a <= a_hw a <= compressBound srcSize) /\
     (0 <= cap < compressBound srcSize -> a_ret a = 0 \/ (0 < a_ret a /\ a_ret a <= a_hw a <= cap))).
Proof. exact compress_fast_extState_cap. Qed.
Print Assumptions C09_fast_extState.

Theorem C09_fast_extState_fastReset :
  forall c src srcSize cap accel,
    let a := compress_fast_extState_fastReset c src srcSize cap accel in
    ((srcSize < 0 \/ srcSize > LZ4_MAX_INPUT_SIZE) -> a_ret a = 0) /\
    (0 <= srcSize <= LZ4_MAX_INPUT_SIZE ->
     (compressBound srcSize <= cap -> 0 < a_ret a /\ a_ret a <= a_hw a <= compressBound srcSize) /\
     (0 <= cap < compressBound srcSize -> a_ret a = 0 \/ (0 < a_ret a /\ a_ret a <= a_hw a <= cap))).
Proof. exact compress_fast_extState_fastReset_cap. Qed.
Print Assumptions C09_fast_extState_fastReset.

(* HC: the one function through which all three HC parsers write a sequence (LZ4HC_encodeSequence).
   In the limited modes it never writes beyond oend, whatever it is asked to encode ... *)
Theorem C09_hc_emitter_cap :
  forall (src : Z -> Z) ip anchor op matchLength offset oend,
    anchor <= ip -> MINMATCH <= matchLength -> op <= oend ->
    let e := encodeSequence src ip anchor op matchLength offset true oend in
    e_hw e <= oend /\ op <= e_op e <= e_hw e.
Proof. exact encodeSequence_cap. Qed.
Print Assumptions C09_hc_emitter_cap.

(* ... and when it succeeds the bytes are exactly the specification's encoding of the sequence. *)
Theorem C09_hc_emitter_encoding :
  forall (src : Z -> Z) ip anchor op matchLength offset limit oend,
    anchor <= ip -> MINMATCH <= matchLength -> 0 <= offset < 65536 ->
    let e := encodeSequence src ip anchor op matchLength offset limit oend in
    e_ret e = 0 ->
    e_bytes e = encode_seq (mkSeq (src_bytes src (Z.to_nat (ip - anchor)) anchor) offset matchLength) /\
    e_op e = op + Z.of_nat (length (e_bytes e)).
Proof. exact encodeSequence_encoding. Qed.
Print Assumptions C09_hc_emitter_encoding.

Definition C09_hc_full_statement : Prop :=
  forall (compress_HC : mem -> Z -> Z -> Z -> Z * Z (* ret, high-water *)) (src : mem) srcSize cap level,
    let '(r, hw) := compress_HC src srcSize cap level in
    ((srcSize < 0 \/ srcSize > LZ4_MAX_INPUT_SIZE) -> r = 0) /\
    (0 <= srcSize <= LZ4_MAX_INPUT_SIZE ->
     (compressBound srcSize <= cap -> 0 < r <= hw /\ hw <= compressBound srcSize) /\
     (0 <= cap < compressBound srcSize -> r = 0 \/ (0 < r <= hw /\ hw <= cap))).

(* Non-vacuity: incompressible 20 bytes need 22 bytes; capacity 22 succeeds with high-water 22,
   capacity 21 fails; a compressible input at a tight capacity reports its wild-copy slack. *)
Example C09_nonvacuous :
  let src := mem_of_list 0 [1;2;3;4;5;6;7;8;9;10;11;12;13;14;15;16;17;18;19;20] in
  (let a := compress_fast_extState src 20 22 1 in (a_ret a, a_hw a)) = (22, 22)
  /\ (let a := compress_fast_extState src 20 21 1 in a_ret a) = 0
  /\ compressBound 20 = 36.
Proof. vm_compute. repeat split; reflexivity. Qed.

(* HC levels 1-2 (LZ4MID), on a context with any history: with a capacity below LZ4_compressBound nothing is
   written beyond dst + dstCapacity (wild-copy slack and abandoned attempts included) and a positive result
   is <= dstCapacity; with a capacity of at least LZ4_compressBound(srcSize) the call succeeds and nothing
   is written beyond LZ4_compressBound(srcSize). *)
Theorem C09_hc_mid_capacity :
  forall c src srcSize cap,
    hc_ok c -> src_ok src -> 0 <= srcSize < 2147483648 -> 0 <= cap ->
    let r := compress_HC_fastReset_mid c src srcSize cap in
    (cap < compressBound srcSize -> hr_hw r <= cap /\ hr_ret r <= cap) /\
    (compressBound srcSize <= cap -> srcSize <= LZ4_MAX_INPUT_SIZE -> 0 < hr_ret r /\ hr_hw r <= compressBound srcSize).
Proof.
  intros c src srcSize cap Hc Hs Hz Hcap r. subst r.
  destruct (compress_HC_fastReset_mid_sound c src srcSize cap Hc Hs Hz Hcap) as ((_ & H2 & H3) & H4).
  split; [|exact H4].
  intros Hlt. replace (cap <? compressBound srcSize) with true in * by lia. cbn [hwlim_of] in *.
  split; [exact H2|].
  destruct (Z_lt_le_dec 0 (hr_ret (compress_HC_fastReset_mid c src srcSize cap))) as [Hp|Hn]; [|lia].
  destruct (H3 Hp) as (_ & B & _). exact B.
Qed.
Print Assumptions C09_hc_mid_capacity.

Theorem C09_hc_mid_bad_sizes :
  forall c src srcSize cap,
    -2147483648 <= srcSize < 2147483648 -> (srcSize < 0 \/ LZ4_MAX_INPUT_SIZE < srcSize) ->
    hr_ret (compress_HC_fastReset_mid c src srcSize cap) = 0.
Proof. exact compress_HC_fastReset_mid_bad_size. Qed.
Print Assumptions C09_hc_mid_bad_sizes.

(* HC levels 3-9 (hash chain), on a context with any history: with a capacity below LZ4_compressBound nothing is
   written beyond dst + dstCapacity (wild-copy slack and abandoned attempts included) and a positive result
   is <= dstCapacity; with a capacity of at least LZ4_compressBound(srcSize) the call succeeds and nothing
   is written beyond LZ4_compressBound(srcSize). *)
From LZ4V Require Model.HcChain Proofs.HcChainSearch Proofs.HcChainSound Proofs.HcChainCap Proofs.HcChainParser.
From LZ4V Require Import Model.HcChainApi Proofs.HcChainApiSound.

Theorem C09_hc_chain_capacity :
  forall c src srcSize cap cLevel,
    cc_ok c -> src_ok src -> 0 <= srcSize < 2147483648 -> 0 <= cap -> chain_level cLevel = true ->
    let r := compress_HC_fastReset_chain c src srcSize cap cLevel in
    (cap < compressBound srcSize -> cr_hw r <= cap /\ cr_ret r <= cap) /\
    (compressBound srcSize <= cap -> srcSize <= LZ4_MAX_INPUT_SIZE -> 0 < cr_ret r /\ cr_hw r <= compressBound srcSize).
Proof. exact chain_capacity. Qed.
Print Assumptions C09_hc_chain_capacity.

(* Non-vacuity: capacity 20 < bound 76 succeeds with 17 bytes and a high-water mark of 17; capacity 12 fails *)
Example C09_hc_chain_nonvacuous :
  let l := concat (repeat [97; 98; 99; 100] 13) ++ [1; 2; 3; 4; 5; 6; 7; 8] in
  (let r := compress_HC_chain (mem_of_list 0 l) 60 20 3 in (cr_ret r, cr_hw r)) = (17, 17) /\
  (let r := compress_HC_chain (mem_of_list 0 l) 60 12 3 in cr_ret r) = 0 /\ compressBound 60 = 76 /\ chain_level 3 = true.
Proof. vm_compute. repeat split; reflexivity. Qed.

(* HC levels 3-12, on a context with any history: the capacity contract of C09_hc_chain_capacity, for the optimal
   parser as well. *)
From LZ4V Require Model.HcOpt Proofs.HcOptParser.
From LZ4V Require Import Model.HcOptApi Proofs.HcOptApiSound.

Theorem C09_hc_opt_capacity :
  forall c src srcSize cap cLevel,
    cc_ok c -> src_ok src -> 0 <= srcSize < 2147483648 -> 0 <= cap -> all_level cLevel = true ->
    let r := compress_HC_fastReset_all c src srcSize cap cLevel in
    (cap < compressBound srcSize -> cr_hw r <= cap /\ cr_ret r <= cap) /\
    (compressBound srcSize <= cap -> srcSize <= LZ4_MAX_INPUT_SIZE -> 0 < cr_ret r /\ cr_hw r <= compressBound srcSize).
Proof. exact opt_capacity. Qed.
Print Assumptions C09_hc_opt_capacity.

Example C09_hc_opt_nonvacuous :
  let l := concat (repeat [97; 98; 99; 100] 13) ++ [1; 2; 3; 4; 5; 6; 7; 8] in
  (let r := compress_HC_all (mem_of_list 0 l) 60 20 10 in (cr_ret r, cr_hw r)) = (17, 17) /\
  (let r := compress_HC_all (mem_of_list 0 l) 60 12 10 in cr_ret r) = 0 /\ all_level 10 = true.
Proof. vm_compute. repeat split; reflexivity. Qed.
