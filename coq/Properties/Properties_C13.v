(* C13 - Multi-threaded CLI pipelines are correct under every thread schedule.

   Models (coq/Model): WriteReg.v (WR_* and LZ4IO_checkWriteOrder), TPool.v (the queue ring, busy count and
   condition-variable waiter sets of threadpool.c), Pipeline.v (main thread, N compression workers, writer; the four
   pipelines of lz4io.c; pstep = one scheduler step of one thread, a pick names the thread and the waiter a signal wakes).
   Every theorem quantifies over ALL schedules (lists of picks) through [run c (init_state c) sched = Some st].

   Proved here:      C13_write_order                       write register, all arrival orders
                     C13_no_reuse_* / C13_ring_window       decode rings, parametric + generated constants (+ tightness witnesses)
                     C13_inorder_once, C13_sequential_equiv compression, all N / chunk counts / schedules
                     C13_tpool_compress_never_full, C13_waiters_homogeneous   (+ instances at the generated depths)
                     C13_depth1_deadlock                    the lost wake-up at queue depth 1 (witness)
                     C13_no_deadlock (+ instances), C13_stuck_is_complete   deadlock freedom, all N / chunk counts / schedules
                     C13_terminates (+ instances)           explicit bound on the length of every schedule (compression)
                     C13_no_deadlock_dec, C13_stuck_is_final_dec, C13_terminates_dec (+ instances)   the two decoding pipelines
   No statement of this file is left unproved. *)
From Coq Require Import ZArith List Lia Bool Permutation.
From LZ4V Require Import Gen.Consts Gen.TPoolSites Model.WriteReg Model.TPool Model.Pipeline
  Proofs.WriteRegProofs Proofs.TPoolProofs Proofs.DecodeRingProofs Proofs.CompressProofs Proofs.NeverFullProofs Proofs.DeadlockProofs Proofs.C13Inst.
Import ListNotations.
Local Open Scope Z_scope.

(* Write register (LZ4IO_checkWriteOrder).  For ALL block lists and ALL arrival orders
   of the ranks 0..n-1: the calls succeed (no assert / END_PROCESS path, the drain loop
   ends within its fuel), the sequence of buffers handed to fwrite is exactly the blocks
   in rank order (each once), the register ends empty with expectedRank = n and
   totalCSize = total size; and after every prefix of the arrivals the output so far is
   a prefix [firstn e blocks] of the rank-ordered list, e being the expected rank. *)
Theorem C13_write_order :
  forall (blocks : list (list Z)) (perm : list nat),
    Permutation perm (seq 0 (length blocks)) ->
    let arr := map (arrival blocks) perm in
    (exists w, arrive_all WR_init arr [] true = (w, blocks, true) /\
               wr_expected w = Z.of_nat (length blocks) /\
               (forall s, In s (wr_buffers w) -> s = None) /\
               wr_total w = Z.of_nat (length (concat blocks)))
    /\
    (forall a1 a2, arr = a1 ++ a2 ->
       exists w1 e, arrive_all WR_init a1 [] true = (w1, firstn e blocks, true) /\
                    wr_expected w1 = Z.of_nat e).
Proof. exact write_order. Qed.
Print Assumptions C13_write_order.

(* hypotheses met by a non-trivial case: 40 one-byte blocks arriving in reverse order
   (39 descriptors stored, the array grows 16 -> 32 -> 64), nothing written before rank 0 arrives *)
Example C13_write_order_nonvacuous :
  let blocks := map (fun i => [Z.of_nat i]) (seq 0 40) in
  let perm := rev (seq 0 40) in
  Permutation perm (seq 0 40) /\
  (let '(w, out, ok) := arrive_all WR_init (map (arrival blocks) (firstn 39 perm)) [] true in
   (wr_expected w, wr_capacity w, length (stored_ranks (wr_buffers w)), out, ok)) = (0, 64, 39%nat, [], true) /\
  (let '(w, out, ok) := arrive_all WR_init (map (arrival blocks) perm) [] true in
   (wr_expected w, wr_capacity w, stored_ranks (wr_buffers w), out, ok)) = (40, 64, [], blocks, true).
Proof. split; [apply Permutation_sym, Permutation_rev|]. split; vm_compute; reflexivity. Qed.

(* ------------------------------------------------------------------------------------------------
   Buffer rings of the decoding pipelines (Model/Pipeline.v on top of Model/TPool.v).
   [s_viol] is set by the model exactly where the C code touches a ring buffer: when the main thread
   refills inBuffs[k mod NB], when LZ4IO_decompressBlockLegacy starts writing outBuffs[k mod NB], when
   LZ4IO_decompressLZ4FChunk hands BufferPool buffer j mod PB to a write job -- it is set iff a job that
   was submitted and has not returned still uses that slot.

   Parametric form (any queue depths TQ, WQ >= 1, any ring sizes, any number of blocks, any schedule and
   any wake-up choice):  NB >= TQ + 2,  NB >= WQ + 2 (legacy outBuffs),  PB >= WQ + 2 (BufferPool)
   imply that no reachable state has the flag set. *)
Theorem C13_no_reuse_parametric :
  forall c : cfg,
    (c_kind c = DecLegacy \/ c_kind c = DecLZ4F) -> c_N c = 1%nat ->
    (1 <= c_tdepth c)%nat -> (1 <= c_wdepth c)%nat ->
    (c_tdepth c + 2 <= c_NB c)%nat ->
    (c_kind c = DecLegacy -> (c_wdepth c + 2 <= c_NB c)%nat) ->
    (c_kind c = DecLZ4F -> (c_wdepth c + 2 <= c_PB c)%nat) ->
    forall (sched : list pick) (st : state),
      run c (init_state c) sched = Some st -> s_viol st = false.
Proof. exact ring_safe. Qed.
Print Assumptions C13_no_reuse_parametric.

(* the counting fact behind it: the submitted-and-unfinished decode jobs are the last <= TQ+1 submitted ones,
   the unfinished write jobs the last <= WQ+1 *)
Theorem C13_ring_window :
  forall c : cfg,
    (c_kind c = DecLegacy \/ c_kind c = DecLZ4F) -> c_N c = 1%nat ->
    (1 <= c_tdepth c)%nat -> (1 <= c_wdepth c)%nat ->
    (c_tdepth c + 2 <= c_NB c)%nat ->
    (c_kind c = DecLegacy -> (c_wdepth c + 2 <= c_NB c)%nat) ->
    (c_kind c = DecLZ4F -> (c_wdepth c + 2 <= c_PB c)%nat) ->
    forall (sched : list pick) (st : state),
      run c (init_state c) sched = Some st ->
      exists ms lo wsub lw : nat,
        (ms <= lo + c_tdepth c + 1)%nat /\ (wsub <= lw + c_wdepth c + 1)%nat /\
        forall x, In x (live_jobs st) ->
          (exists k, x = JD c k /\ (lo <= k < ms)%nat) \/ (exists j, x = JW c j /\ (lw <= j < wsub)%nat).
Proof. exact ring_window. Qed.
Print Assumptions C13_ring_window.

(* Instances for the constants generated from programs/lz4io.c on this run (TPool_create(1,1) twice,
   NB_BUFFSETS, PBUFFERS_NB): shrinking a ring or deepening a queue in the C source makes these fail. *)
Theorem C13_no_reuse_legacy :
  forall (nblocks : nat) (sched : list pick) (st : state),
    run (dl_cfg nblocks) (init_state (dl_cfg nblocks)) sched = Some st -> s_viol st = false.
Proof. exact no_reuse_legacy. Qed.
Print Assumptions C13_no_reuse_legacy.

Theorem C13_no_reuse_lz4f :
  forall (outs : list nat) (sched : list pick) (st : state),
    run (df_cfg outs) (init_state (df_cfg outs)) sched = Some st -> s_viol st = false.
Proof. exact no_reuse_lz4f. Qed.
Print Assumptions C13_no_reuse_lz4f.

Theorem C13_generated_layer_consistent :
  TP_DL_t_workers = Some 1 /\ TP_DL_w_workers = Some 1 /\ TP_DF_t_workers = Some 1 /\ TP_DF_w_workers = Some 1 /\
  TP_CL_w_workers = Some 1 /\ TP_CF_w_workers = Some 1 /\ TP_CL_t_workers = None /\ TP_CF_t_workers = None /\
  RING_DL_in = NB_BUFFSETS /\ RING_DL_out = NB_BUFFSETS /\ RING_DF_in = NB_BUFFSETS /\ RING_DF_out = PBUFFERS_NB.
Proof. exact gen_consistent. Qed.
Print Assumptions C13_generated_layer_consistent.

(* the side conditions are tight: one slot less / one more queued write job and some schedule reuses a live buffer *)
Theorem C13_reuse_if_NB_is_2_refuted :
  let c := mkCfg DecLegacy 1 1 1 2 3 0 false 3 [] in
  exists sched st, run c (init_state c) sched = Some st /\ s_viol st = true.
Proof. exact reuse_if_NB_is_2. Qed.
Print Assumptions C13_reuse_if_NB_is_2_refuted.

Theorem C13_reuse_if_PB_is_2_refuted :
  let c := mkCfg DecLZ4F 1 1 1 4 2 0 false 0 [3%nat] in
  exists sched st, run c (init_state c) sched = Some st /\ s_viol st = true.
Proof. exact reuse_if_PB_is_2. Qed.
Print Assumptions C13_reuse_if_PB_is_2_refuted.

Theorem C13_reuse_if_writer_queue_is_2_refuted :
  let c := mkCfg DecLegacy 1 1 2 3 3 0 false 4 [] in
  exists sched st, run c (init_state c) sched = Some st /\ s_viol st = true.
Proof. exact reuse_if_writer_queue_is_2. Qed.
Print Assumptions C13_reuse_if_writer_queue_is_2_refuted.

(* queue depth 1 for the compression tPool: a reachable state in which no thread can run although the work is not
   finished and both queues are empty (main and the reader job wait on the same queuePushCond; the two signals
   that were sent both woke main).  This is why the deadlock-freedom lemmas need depth >= 2. *)
Theorem C13_depth1_deadlock :
  let c := mkCfg CompLegacy 2 1 4 4 3 1 false 0 [] in
  exists sched st, run c (init_state c) sched = Some st /\ final st = false /\
                   q_len (s_pt st) = 0%nat /\ q_len (s_pw st) = 0%nat /\
                   (forall pk, pstep c st pk = None).
Proof. exact depth1_deadlock. Qed.
Print Assumptions C13_depth1_deadlock.

(* hypotheses of the ring theorems met by a concrete non-trivial run: legacy decoding of 6 blocks with the generated
   constants, main running ahead as far as the queues allow: 3 decode jobs unfinished (= TQ + 2 = NB - 1 slots in use) *)
Example C13_no_reuse_nonvacuous :
  let c := dl_cfg 6 in
  match run c (init_state c) [(0,0);(1,0);(0,0);(0,0)]%nat with
  | Some st => (length (live_jobs st), s_viol st, s_mst st) = (2%nat, false, MWaitPush PT)
  | None => False
  end.
Proof. vm_compute. reflexivity. Qed.

(* ------------------------------------------------------------------------------------------------
   Compression pipelines (legacy -l and LZ4F), main thread + N compression workers + one writer,
   for EVERY N >= 1, every number of chunks, every schedule and wake-up choice, any queue depths >= 1:
   [s_out] = the buffers handed to fwrite by LZ4IO_checkWriteOrder so far.
   C13_inorder_once: in every reachable state the output is a prefix of the sequential output
   (each block at most once, in input order).  C13_sequential_equiv: in a completed run (main finished, all
   threads ended) the output IS the sequential output, nothing is left in the write register. *)
Theorem C13_inorder_once :
  forall c : cfg,
    (c_kind c = CompLegacy \/ (c_kind c = CompLZ4F /\ (1 <= c_nfull c)%nat)) ->
    (1 <= c_N c)%nat -> (1 <= c_tdepth c)%nat -> (1 <= c_wdepth c)%nat ->
    forall (sched : list pick) (st : state),
      run c (init_state c) sched = Some st ->
      exists e : nat, s_out st = firstn e (sequential_output c).
Proof. exact comp_prefix. Qed.
Print Assumptions C13_inorder_once.

Theorem C13_sequential_equiv :
  forall c : cfg,
    (c_kind c = CompLegacy \/ (c_kind c = CompLZ4F /\ (1 <= c_nfull c)%nat)) ->
    (1 <= c_N c)%nat -> (1 <= c_tdepth c)%nat -> (1 <= c_wdepth c)%nat ->
    forall (sched : list pick) (st : state),
      run c (init_state c) sched = Some st -> final st = true ->
      s_out st = sequential_output c /\
      (forall s, In s (wr_buffers (s_wr st)) -> s = None) /\
      wr_expected (s_wr st) = Z.of_nat (comp_blocks c).
Proof. exact comp_final. Qed.
Print Assumptions C13_sequential_equiv.

(* instances at the generated TPool_create depths *)
Theorem C13_sequential_equiv_legacy :
  forall (N nfull : nat) (last : bool) (sched : list pick) (st : state), (1 <= N)%nat ->
    run (cl_cfg N nfull last) (init_state (cl_cfg N nfull last)) sched = Some st ->
    (exists e, s_out st = firstn e (sequential_output (cl_cfg N nfull last))) /\
    (final st = true -> s_out st = sequential_output (cl_cfg N nfull last)).
Proof. exact sequential_equiv_legacy. Qed.
Print Assumptions C13_sequential_equiv_legacy.

Theorem C13_sequential_equiv_lz4f :
  forall (N nfull : nat) (last : bool) (sched : list pick) (st : state), (1 <= N)%nat -> (1 <= nfull)%nat ->
    run (cf_cfg N nfull last) (init_state (cf_cfg N nfull last)) sched = Some st ->
    (exists e, s_out st = firstn e (sequential_output (cf_cfg N nfull last))) /\
    (final st = true -> s_out st = sequential_output (cf_cfg N nfull last)).
Proof. exact sequential_equiv_lz4f. Qed.
Print Assumptions C13_sequential_equiv_lz4f.

(* hypotheses met: a complete run of LZ4F compression (generated depths, 2 workers, 3 full chunks + a partial one; schedule produced by
   the extracted model with the "descending" strategy) in which block 1 reaches the write register before block 0 and is
   stored; the run ends with the sequential output *)
Example C13_sequential_equiv_nonvacuous :
  let c := cf_cfg 2 3 true in
  match run c (init_state c)
    [(0,3);(1,3);(3,3);(0,3);(0,3);(2,0);(2,3);(2,3);(2,3);(2,3);(2,3);(0,3);(3,3);(2,0);(3,3);(3,3);(2,3);(2,3);(2,3);(2,3);(2,3);(2,3);(3,3);(3,3);(3,3);(2,3);(0,3);(1,3);(2,0);(3,3);(3,3);(3,3);(2,3);(2,3);(2,3);(2,3);(3,3);(3,3);(3,3);(2,3);(2,3);(1,3);(1,3);(0,3);(0,3);(0,3);(0,3);(2,3);(2,3);(1,3);(1,3);(0,3);(0,3);(3,3);(3,3);(0,3)]%nat with
  | Some st => (final st, s_out st, s_err st) = (true, [[0];[1];[2];[3]], false)
  | None => False
  end.
Proof. vm_compute. reflexivity. Qed.

(* ------------------------------------------------------------------------------------------------
   Deadlock freedom, the part that is proved (for every N >= 1, every number of chunks, every schedule):
   tpool_compress_never_full - with a tPool depth >= 2 the queue holds at most 2 jobs (one reader job and one
   compression job), every TPool_submitJob into tPool finds room, and the only thread that ever waits on tPool's
   queuePushCond is the main thread (tid 0, inside TPool_jobsCompleted);
   waiters_homogeneous - when the main thread waits on wPool's queuePushCond, tPool is quiescent, so no compression
   job (the other kind of waiter on that condition) exists.
   Hence on each condition variable all simultaneous waiters wait for the same predicate and a
   pthread_cond_signal cannot be absorbed by the wrong kind of waiter; C13_depth1_deadlock shows what happens otherwise. *)
Theorem C13_tpool_compress_never_full :
  forall c : cfg,
    (c_kind c = CompLegacy \/ (c_kind c = CompLZ4F /\ (1 <= c_nfull c)%nat)) ->
    (1 <= c_N c)%nat -> (2 <= c_tdepth c)%nat -> (1 <= c_wdepth c)%nat ->
    forall (sched : list pick) (st : state),
      run c (init_state c) sched = Some st ->
      (length (queued (s_pt st)) <= 2)%nat /\ (q_len (s_pt st) <= 2)%nat /\
      (forall t, In t (push_w (s_pt st)) -> t = 0%nat).
Proof. exact never_full. Qed.
Print Assumptions C13_tpool_compress_never_full.

Theorem C13_waiters_homogeneous :
  forall c : cfg,
    (c_kind c = CompLegacy \/ (c_kind c = CompLZ4F /\ (1 <= c_nfull c)%nat)) ->
    (1 <= c_N c)%nat -> (2 <= c_tdepth c)%nat -> (1 <= c_wdepth c)%nat ->
    forall (sched : list pick) (st : state),
      run c (init_state c) sched = Some st ->
      In 0%nat (push_w (s_pw st)) -> queued (s_pt st) = [] /\ n_busy (s_pt st) = 0%nat.
Proof. exact waiters_homogeneous. Qed.
Print Assumptions C13_waiters_homogeneous.

(* instances at the generated depths: TPool_create(nbWorkers, 4) -> 1 in the C source breaks these two *)
Theorem C13_never_full_legacy :
  forall (N nfull : nat) (last : bool) (sched : list pick) (st : state), (1 <= N)%nat ->
    run (cl_cfg N nfull last) (init_state (cl_cfg N nfull last)) sched = Some st ->
    (length (queued (s_pt st)) <= 2)%nat /\ (q_len (s_pt st) <= 2)%nat /\ (forall t, In t (push_w (s_pt st)) -> t = 0%nat) /\
    (In 0%nat (push_w (s_pw st)) -> queued (s_pt st) = [] /\ n_busy (s_pt st) = 0%nat).
Proof. exact never_full_legacy. Qed.
Print Assumptions C13_never_full_legacy.

Theorem C13_never_full_lz4f :
  forall (N nfull : nat) (last : bool) (sched : list pick) (st : state), (1 <= N)%nat -> (1 <= nfull)%nat ->
    run (cf_cfg N nfull last) (init_state (cf_cfg N nfull last)) sched = Some st ->
    (length (queued (s_pt st)) <= 2)%nat /\ (q_len (s_pt st) <= 2)%nat /\ (forall t, In t (push_w (s_pt st)) -> t = 0%nat) /\
    (In 0%nat (push_w (s_pw st)) -> queued (s_pt st) = [] /\ n_busy (s_pt st) = 0%nat).
Proof. exact never_full_lz4f. Qed.
Print Assumptions C13_never_full_lz4f.

(* ------------------------------------------------------------------------------------------------
   Deadlock freedom of the compression pipelines (Proofs/DeadlockProofs.v), the full statement:
   for EVERY worker count N >= 1, every number of chunks, tPool depth >= 2, wPool depth >= 1, every schedule and
   every wake-up choice made so far: a reachable state that is not final has an enabled pick.
   Proved through a third inductive invariant of pstep (on top of cinv and ninv): the waiter lists of the two
   condition variables are exactly the threads parked there; a worker parked on queuePopCond implies
   |queue| <= number of idle workers of that pool; a submitter parked on wPool's queuePushCond implies
   depth <= |queue| + number of workers about to push; the main thread parked in TPool_jobsCompleted(p) implies p has a
   queued or running job (this is where tpool_compress_never_full / waiters_homogeneous are used: the signal that
   ends the last job can only wake the main thread); joined threads are done; after shutdown+broadcast of p nobody
   parks on p's queuePopCond.  The pick exhibited wakes the first waiter of the signalled condition. *)
Theorem C13_no_deadlock :
  forall c : cfg,
    (c_kind c = CompLegacy \/ (c_kind c = CompLZ4F /\ (1 <= c_nfull c)%nat)) ->
    (1 <= c_N c)%nat -> (2 <= c_tdepth c)%nat -> (1 <= c_wdepth c)%nat ->
    forall (sched : list pick) (st : state),
      run c (init_state c) sched = Some st -> final st = false ->
      exists pk st', pstep c st pk = Some st'.
Proof. exact no_deadlock. Qed.
Print Assumptions C13_no_deadlock.

(* a run that cannot be extended by any pick is a completed run whose output is the sequential output *)
Theorem C13_stuck_is_complete :
  forall c : cfg,
    (c_kind c = CompLegacy \/ (c_kind c = CompLZ4F /\ (1 <= c_nfull c)%nat)) ->
    (1 <= c_N c)%nat -> (2 <= c_tdepth c)%nat -> (1 <= c_wdepth c)%nat ->
    forall (sched : list pick) (st : state),
      run c (init_state c) sched = Some st -> (forall pk, pstep c st pk = None) ->
      final st = true /\ s_out st = sequential_output c.
Proof. exact stuck_is_complete. Qed.
Print Assumptions C13_stuck_is_complete.

(* instances at the generated TPool_create depths (setting the tPool depth to 1 in the C source breaks them;
   C13_depth1_deadlock is then the counter-example) *)
Theorem C13_no_deadlock_legacy :
  forall (N nfull : nat) (last : bool) (sched : list pick) (st : state), (1 <= N)%nat ->
    run (cl_cfg N nfull last) (init_state (cl_cfg N nfull last)) sched = Some st -> final st = false ->
    exists pk st', pstep (cl_cfg N nfull last) st pk = Some st'.
Proof. exact no_deadlock_legacy. Qed.
Print Assumptions C13_no_deadlock_legacy.

Theorem C13_no_deadlock_lz4f :
  forall (N nfull : nat) (last : bool) (sched : list pick) (st : state), (1 <= N)%nat -> (1 <= nfull)%nat ->
    run (cf_cfg N nfull last) (init_state (cf_cfg N nfull last)) sched = Some st -> final st = false ->
    exists pk st', pstep (cf_cfg N nfull last) st pk = Some st'.
Proof. exact no_deadlock_lz4f. Qed.
Print Assumptions C13_no_deadlock_lz4f.

(* hypotheses met in a non-trivial blocked-looking state: 2 workers, 2 chunks; the main thread is parked in
   TPool_jobsCompleted(tPool), worker 2 and the writer are parked on their queuePopCond, worker 1 runs the reader job:
   the state is not final and the theorem's pick exists (here: worker 1 waking worker 2; the pick (1,3) is not enabled: thread 3 does not wait on that condition) *)
Example C13_no_deadlock_nonvacuous :
  let c := cl_cfg 2 1 true in
  match run c (init_state c) [(0,3);(1,3);(0,3);(3,3);(2,3)]%nat with
  | Some st => (final st, blocked_all st, s_mst st, match pstep c st (1, 2)%nat with Some _ => true | None => false end)
               = (false, false, MWaitPush PT, true)
  | None => False
  end.
Proof. vm_compute. reflexivity. Qed.

(* ---- termination: every schedule of the compression pipelines is finite, with an explicit bound.
   bound = the initial value of  Phi = (N+4) * W + A  where W = remaining work (main operations still to execute,
   cost of the queued jobs, of the running jobs' remaining submissions and ends, 2 per worker still to exit) and
   A = number of awake threads (<= N+2).  Every pstep either decreases W, or keeps W and parks one awake thread
   (TerminationProofs.pstep_Phi, on top of cinv + ninv + the deadlock invariant, which exclude the error self-loops). *)
Theorem C13_terminates :
  forall c : cfg,
    (c_kind c = CompLegacy \/ (c_kind c = CompLZ4F /\ (1 <= c_nfull c)%nat)) ->
    (1 <= c_N c)%nat -> (2 <= c_tdepth c)%nat -> (1 <= c_wdepth c)%nat ->
    exists bound : nat, forall (sched : list pick) (st : state),
      run c (init_state c) sched = Some st -> (length sched <= bound)%nat.
Proof. exact terminates. Qed.
Print Assumptions C13_terminates.

Theorem C13_terminates_legacy :
  forall (N nfull : nat) (last : bool), (1 <= N)%nat ->
    exists bound : nat, forall (sched : list pick) (st : state),
      run (cl_cfg N nfull last) (init_state (cl_cfg N nfull last)) sched = Some st -> (length sched <= bound)%nat.
Proof. exact terminates_legacy. Qed.
Print Assumptions C13_terminates_legacy.

Theorem C13_terminates_lz4f :
  forall (N nfull : nat) (last : bool), (1 <= N)%nat -> (1 <= nfull)%nat ->
    exists bound : nat, forall (sched : list pick) (st : state),
      run (cf_cfg N nfull last) (init_state (cf_cfg N nfull last)) sched = Some st -> (length sched <= bound)%nat.
Proof. exact terminates_lz4f. Qed.
Print Assumptions C13_terminates_lz4f.

(* ---- the two DECODING pipelines (main thread + 1 decoder worker + 1 writer; legacy ring decoder and LZ4F decoder):
   deadlock freedom and termination under every schedule.  Hypotheses: both TPool queue depths >= 1 (depth 1 is enough
   here - there is a single submitter per queue, so the lost wake-up of C13_depth1_deadlock cannot happen), and the ring
   hypotheses of C13_no_reuse_parametric:  NB >= depth(tPool) + 2,  NB >= depth(wPool) + 2 (legacy outBuffs) /
   PB >= depth(wPool) + 2 (LZ4F BufferPool).  The ring hypotheses are inherited from the decode invariant dinv the
   proof is built on; the blocking structure itself does not depend on them.
   New blocking sites with respect to the compression pipelines: the main thread parks inside TPool_submitJob(tPool)
   when the queue is full, and the decoder worker parks inside TPool_submitJob(wPool). *)
Theorem C13_no_deadlock_dec :
  forall c : cfg,
    (c_kind c = DecLegacy \/ c_kind c = DecLZ4F) -> c_N c = 1%nat ->
    (1 <= c_tdepth c)%nat -> (1 <= c_wdepth c)%nat -> (c_tdepth c + 2 <= c_NB c)%nat ->
    (c_kind c = DecLegacy -> (c_wdepth c + 2 <= c_NB c)%nat) -> (c_kind c = DecLZ4F -> (c_wdepth c + 2 <= c_PB c)%nat) ->
    forall (sched : list pick) (st : state),
      run c (init_state c) sched = Some st -> final st = false ->
      exists pk st', pstep c st pk = Some st'.
Proof. exact no_deadlock_dec. Qed.
Print Assumptions C13_no_deadlock_dec.

Theorem C13_stuck_is_final_dec :
  forall c : cfg,
    (c_kind c = DecLegacy \/ c_kind c = DecLZ4F) -> c_N c = 1%nat ->
    (1 <= c_tdepth c)%nat -> (1 <= c_wdepth c)%nat -> (c_tdepth c + 2 <= c_NB c)%nat ->
    (c_kind c = DecLegacy -> (c_wdepth c + 2 <= c_NB c)%nat) -> (c_kind c = DecLZ4F -> (c_wdepth c + 2 <= c_PB c)%nat) ->
    forall (sched : list pick) (st : state),
      run c (init_state c) sched = Some st -> (forall pk, pstep c st pk = None) -> final st = true.
Proof. exact stuck_is_final_dec. Qed.
Print Assumptions C13_stuck_is_final_dec.

Theorem C13_terminates_dec :
  forall c : cfg,
    (c_kind c = DecLegacy \/ c_kind c = DecLZ4F) -> c_N c = 1%nat ->
    (1 <= c_tdepth c)%nat -> (1 <= c_wdepth c)%nat -> (c_tdepth c + 2 <= c_NB c)%nat ->
    (c_kind c = DecLegacy -> (c_wdepth c + 2 <= c_NB c)%nat) -> (c_kind c = DecLZ4F -> (c_wdepth c + 2 <= c_PB c)%nat) ->
    exists bound : nat, forall (sched : list pick) (st : state),
      run c (init_state c) sched = Some st -> (length sched <= bound)%nat.
Proof. exact terminates_dec. Qed.
Print Assumptions C13_terminates_dec.

(* instances at the generated constants (TPool_create depths of the decode call sites, NB_BUFFSETS, PBUFFERS_NB),
   any number of blocks / any output sizes: the side conditions are discharged by computation in C13Inst.v *)
Theorem C13_no_deadlock_dec_legacy :
  forall (nblocks : nat) (sched : list pick) (st : state),
    run (dl_cfg nblocks) (init_state (dl_cfg nblocks)) sched = Some st -> final st = false ->
    exists pk st', pstep (dl_cfg nblocks) st pk = Some st'.
Proof. exact no_deadlock_dec_legacy. Qed.
Print Assumptions C13_no_deadlock_dec_legacy.

Theorem C13_no_deadlock_dec_lz4f :
  forall (outs : list nat) (sched : list pick) (st : state),
    run (df_cfg outs) (init_state (df_cfg outs)) sched = Some st -> final st = false ->
    exists pk st', pstep (df_cfg outs) st pk = Some st'.
Proof. exact no_deadlock_dec_lz4f. Qed.
Print Assumptions C13_no_deadlock_dec_lz4f.

Theorem C13_terminates_dec_legacy :
  forall nblocks : nat, exists bound : nat, forall (sched : list pick) (st : state),
    run (dl_cfg nblocks) (init_state (dl_cfg nblocks)) sched = Some st -> (length sched <= bound)%nat.
Proof. exact terminates_dec_legacy. Qed.
Print Assumptions C13_terminates_dec_legacy.

Theorem C13_terminates_dec_lz4f :
  forall outs : list nat, exists bound : nat, forall (sched : list pick) (st : state),
    run (df_cfg outs) (init_state (df_cfg outs)) sched = Some st -> (length sched <= bound)%nat.
Proof. exact terminates_dec_lz4f. Qed.
Print Assumptions C13_terminates_dec_lz4f.

(* hypotheses met in a non-trivial state: legacy decoding of 3 blocks at the generated depths; after two steps of the
   main thread it is parked inside TPool_submitJob(tPool) (queue full); the state is not final, the main thread has no
   enabled pick, and the decoder worker's pick (which pops the job and wakes the main thread) is enabled *)
Example C13_no_deadlock_dec_nonvacuous :
  let c := dl_cfg 3 in
  match run c (init_state c) [(0,9);(0,9)]%nat with
  | Some st => (final st, s_mst st, match pstep c st (0, 0)%nat with Some _ => true | None => false end,
                match pstep c st (1, 0)%nat with Some _ => true | None => false end)
               = (false, MWaitPush PT, false, true)
  | None => False
  end.
Proof. vm_compute. reflexivity. Qed.
