(* C13 - Multi-threaded CLI pipelines are correct under every thread schedule. *)
From Coq Require Import ZArith List Lia Bool Permutation.
From LZ4V Require Import Gen.Consts Gen.TPoolSites Model.WriteReg Proofs.WriteRegProofs.
Import ListNotations.
Local Open Scope Z_scope.

(* Write register (LZ4IO_checkWriteOrder).  For ALL block lists and ALL arrival orders
   of the ranks 0..n-1: the calls succeed (no assert / END_PROCESS path, the drain loop
   ends within its fuel), the sequence of buffers handed to fwrite is exactly the blocks
   in rank order (each once), the register ends empty with expectedRank = n and
   totalCSize = total size; and after every prefix of the arrivals the output so far is
   a prefix [firstn e blocks] of the rank-ordered list, e being the expected rank. *)
Theorem C13_write_order :
  forall (blocks : list (list Z)) (perm : list nat),
    Permutation perm (seq 0 (length blocks)) ->
    let arr := map (arrival blocks) perm in
    (exists w, arrive_all WR_init arr [] true = (w, blocks, true) /\
               wr_expected w = Z.of_nat (length blocks) /\
               (forall s, In s (wr_buffers w) -> s = None) /\
               wr_total w = Z.of_nat (length (concat blocks)))
    /\
    (forall a1 a2, arr = a1 ++ a2 ->
       exists w1 e, arrive_all WR_init a1 [] true = (w1, firstn e blocks, true) /\
                    wr_expected w1 = Z.of_nat e).
Proof. exact write_order. Qed.
Print Assumptions C13_write_order.

(* hypotheses met by a non-trivial case: 40 one-byte blocks arriving in reverse order
   (39 descriptors stored, the array grows 16 -> 32 -> 64), nothing written before rank 0 arrives *)
Example C13_write_order_nonvacuous :
  let blocks := map (fun i => [Z.of_nat i]) (seq 0 40) in
  let perm := rev (seq 0 40) in
  Permutation perm (seq 0 40) /\
  (let '(w, out, ok) := arrive_all WR_init (map (arrival blocks) (firstn 39 perm)) [] true in
   (wr_expected w, wr_capacity w, length (stored_ranks (wr_buffers w)), out, ok)) = (0, 64, 39%nat, [], true) /\
  (let '(w, out, ok) := arrive_all WR_init (map (arrival blocks) perm) [] true in
   (wr_expected w, wr_capacity w, stored_ranks (wr_buffers w), out, ok)) = (40, 64, [], blocks, true).
Proof. split; [apply Permutation_sym, Permutation_rev|]. split; vm_compute; reflexivity. Qed.
