(* C14 - the CLI never reports success on a failed decode; --rm deletes only on success.
   Theorems about Model/Io.v (decode control flow of programs/lz4io.c and the tail of the compression
   functions), for ALL inputs and ALL fault oracles; the library decoders are the specification's
   (Spec.FrameSpec.frame_decode / spec_decode over any block decoder [bd]).
   Proof scripts: Proofs/IoProofs.v, Proofs/IoTrace.v, Proofs/IoMulti.v, Proofs/IoTrunc.v. *)
From Coq Require Import ZArith List Bool.
From LZ4V Require Import Spec.BlockSpec Spec.FrameSpec Gen.Consts Model.Io.
From LZ4V Require Import Proofs.IoSpecFacts Proofs.IoProofs Proofs.IoTrace Proofs.IoMulti Proofs.IoConcat Proofs.IoTrunc Proofs.IoSeek.
Import ListNotations.
Local Open Scope Z_scope.

(* exit 0  ==>  no failing open/read/write/close/remove event occurred (a failing fseek is not an error: the
   code falls back to reading), --rm was honoured, and the input is a valid stream whose specified decoding
   is exactly what was written (test mode: is valid).  ST and MT, file and pipe, every fault oracle.
   Exception stated explicitly: [o_pasteof], "a successful fseek went beyond the end of the input", i.e. the
   input ends inside the user data of a skippable frame on a seekable source (left unspecified by the property). *)
Theorem C14_exit0_sound : forall bd mt test seekable rm fl input,
  bytes_ok input = true ->
  let o := decompress_file (frame_decode bd false []) (bd []) mt test false seekable rm fl input in
  o_exit o = 0 -> o_pasteof o = false ->
  clean (o_trace o) /\
  (rm = true -> o_removed o = true) /\
  exists c, stream_decode bd false (S (length input)) [] [] input = Some c /\ (test = false -> o_out o = c).
Proof. exact exit0_sound. Qed.
Print Assumptions C14_exit0_sound.

(* the exception of C14_exit0_sound can only arise on seekable input: on a pipe [o_pasteof] is always false,
   so there exit 0 ALWAYS certifies a valid stream and its exact decoding *)
Theorem C14_pipe_no_exception : forall fdec bdec mt test pt rm fl input,
  o_pasteof (decompress_file fdec bdec mt test pt false rm fl input) = false.
Proof. exact pipe_no_pasteof. Qed.
Print Assumptions C14_pipe_no_exception.

(* in EVERY prefix of the trace (= every crash point): a remove(src) event is the last event, preceded by all
   reads/writes, the close of the source and the SUCCESSFUL close of the destination; it only occurs with --rm and
   the exit status is then 0 (45 if the removal itself fails) - for any decoders, inputs, options, fault oracles *)
Theorem C14_rm_order : forall fdec bdec mt test pt sk rm fl input,
  let o := decompress_file fdec bdec mt test pt sk rm fl input in
  forall a ok b, o_trace o = a ++ ERemoveSrc ok :: b ->
    b = [] /\ rm = true /\ o_exit o = (if ok then 0 else 45) /\
    exists data, a = [EOpenDst true; EOpenSrc true] ++ data ++ [ECloseSrc; ECloseDst true] /\ forallb data_ev data = true.
Proof. exact rm_order. Qed.
Print Assumptions C14_rm_order.

(* same for the tail of the compression functions (frame format; the legacy path never removes) *)
Theorem C14_rm_order_compress : forall comp legacy rm fl input,
  let o := compress_file comp legacy rm fl input in
  forall a ok b, o_trace o = a ++ ERemoveSrc ok :: b ->
    b = [] /\ rm = true /\ legacy = false /\ o_exit o = (if ok then 0 else 50) /\
    exists data, a = [EOpenSrc true; EOpenDst true] ++ data ++ [ECloseSrc; ECloseDst true] /\ forallb data_ev data = true.
Proof. exact rm_order_compress. Qed.
Print Assumptions C14_rm_order_compress.

(* multi-file mode: the exit status (number of failed inputs, saturated at 255) is 0 only if every input ended
   with result 0 - for any number of inputs (regression of the 256-failures wrap-around) *)
Theorem C14_multi_exit0 : forall fdec bdec mt test sk rm files,
  fst (decompress_multi fdec bdec mt test sk rm files) = 0 ->
  Forall (fun o => o_exit o = 0) (snd (decompress_multi fdec bdec mt test sk rm files)) /\
  length (snd (decompress_multi fdec bdec mt test sk rm files)) = length files.
Proof. exact multi_exit0. Qed.
Print Assumptions C14_multi_exit0.

(* truncation, specification side: a stream of valid frames (LZ4 frames, legacy frames with any number of blocks,
   skippable frames) cut ANYWHERE is accepted by Spec.stream_decode only if the cut is at a frame boundary or at a
   legacy BLOCK boundary (legacy frames have no end mark) - [cut fs fs'] - and then the prefix is itself a stream of
   valid frames decoding to their contents; everywhere else stream_decode fails *)
Theorem C14_truncation : forall bd fs, Forall (valid_frame bd) fs -> forall (p t : list byte) F acc c,
  enc_all fs = p ++ t -> stream_decode bd false F [] acc p = Some c ->
  exists fs', cut fs fs' /\ Forall (valid_frame bd) fs' /\ p = enc_all fs' /\ c = acc ++ contents fs'.
Proof. exact truncation. Qed.
Print Assumptions C14_truncation.

(* ... hence the CLI model (ST and MT, file and pipe, any fault oracle) run on any prefix exits 0 only at such a
   boundary, having written exactly the contents before the cut *)
Theorem C14_truncation_exit : forall bd fs (p t : list byte) mt test seekable rm fl,
  Forall (valid_frame bd) fs -> enc_all fs = p ++ t -> bytes_ok p = true ->
  let o := decompress_file (frame_decode bd false []) (bd []) mt test false seekable rm fl p in
  o_exit o = 0 -> o_pasteof o = false ->
  exists fs', cut fs fs' /\ Forall (valid_frame bd) fs' /\ p = enc_all fs' /\ (test = false -> o_out o = contents fs').
Proof. exact truncation_exit. Qed.
Print Assumptions C14_truncation_exit.

(* hypotheses are met / conclusions are not vacuous: a run that exits 0 with --rm, one that hits a write fault,
   one that hits a read error exactly at a frame boundary (regression of F8), trailing garbage (regression of F2) *)
Example C14_ex_ok :
  let o := decompress_file spec_fdec spec_bdec false false false true true no_faults (enc_all f4_witness) in
  o_exit o = 0 /\ o_pasteof o = false /\ o_removed o = true /\ o_out o = [97; 98; 99; 100; 101] /\
  o_trace o = [EOpenDst true; EOpenSrc true; ERead 4 4 false; ERead 7 7 false; EWrite 0 true; ERead 4 4 false;
               ERead 4 4 false; ERead 6 6 false; EWrite 5 true; ERead 4 0 false; ERead 4 0 false;
               ECloseSrc; ECloseDst true; ERemoveSrc true].
Proof. vm_compute. repeat split. Qed.
Example C14_ex_faults :
  let inp := enc_all f4_witness in
  o_exit (decompress_file spec_fdec spec_bdec false false false true true (mkFaults false false None (Some 2) (fun _ => false) false false) inp) = 70 /\
  o_exit (decompress_file spec_fdec spec_bdec false false false true true (mkFaults false false (Some 11) None (fun _ => false) false false) inp) = 54 /\
  o_exit (decompress_file spec_fdec spec_bdec false false false true true (mkFaults false false None None (fun _ => false) true false) inp) = 36 /\
  (let o := decompress_file spec_fdec spec_bdec false false false true true no_faults (inp ++ [71; 65; 82; 66; 65; 71; 69; 33]) in
   o_exit o <> 0 /\ o_removed o = false) /\
  bytes_ok inp = true.
Proof. vm_compute. repeat split; intros D; discriminate. Qed.
(* cuts of the two-frame witness: inside the LZ4 frame (rejected), at the frame boundary and at a legacy block boundary (accepted) *)
Example C14_ex_cuts :
  let inp := enc_all f4_witness in
  stream_decode spec_decode false 40 [] [] (firstn 7 inp) = None /\
  stream_decode spec_decode false 40 [] [] (firstn 11 inp) = Some [] /\
  stream_decode spec_decode false 40 [] [] (firstn 15 inp) = Some [] /\
  stream_decode spec_decode false 40 [] [] (firstn 20 inp) = None /\
  stream_decode spec_decode false 40 [] [] (firstn 25 inp) = Some [97; 98; 99; 100; 101] /\
  cut f4_witness [FLz4 f4_lz4 []; FLegacy (firstn 0 [(f4_block, [97; 98; 99; 100; 101])])].
Proof. cbv zeta. repeat split; try (vm_compute; reflexivity). apply cut_cons. apply (cut_legacy [(f4_block, [97; 98; 99; 100; 101])] 0). Qed.

(* ------------------------------------------------------------------------------------------------
   The concrete single-thread LZ4IO_decompressLZ4F loop (Model/IoLz4f.v: header call on the 4 magic bytes,
   fread of min(hint, 64 KB), inner loop around LZ4F_decompress_usingDict with a 64 KB destination, fwrite,
   exits 62/66/70/67/68) over the decoder model Model/FrameD.v, instead of the abstract step Io.lz4f_st.

   C14_lz4f_st_concrete_sound ("no success on a failed decode", concretely): whenever the loop returns to
   LZ4IO_decompressSrcFile (no END_PROCESS), whatever the read/write fault oracle, the test flag, the hints
   the decoder gave and the way the frame was cut into fread/fwrite pieces: the magic number followed by the
   bytes taken from the source begins with a frame that the format specification accepts with every checksum
   verified, what was handed to fwrite is exactly its content (nothing in test mode), and the source has
   advanced by the frame plus [lost] bytes that were read after its end and dropped.
   The block decoder is a parameter (same function in loop and specification).

   What remains of Io.v's abstraction, as a precise statement (C14_lz4f_st_reads_exactly_full_statement, NOT
   proved): lost = [] - LZ4F's hints never exceed what is left of the frame.  It is a property of the hint
   values of Model/FrameD.v (no theorem about them exists); every run of c14.py checks it (kind stloop: the
   fread request/return sequence of the real binary equals the model's ERead events, and the bytes left after
   a valid frame are exactly what follows it) and compares the concrete loop with Io.lz4f_st (status, output,
   bytes left; the traces differ by the chunking only: one ERead/EWrite against their sums).
   Exit codes: the concrete model is exact (62 header call fails, 66 a later call fails, 70 write error, 67
   ferror after the loop, 68 fread returned 0 with a non-zero hint); Io.lz4f_st maps 62/66/68 to 66. *)
From LZ4V Require Model.FrameD Model.IoLz4f Proofs.FrameDProofs Proofs.IoLz4fRefine.

Definition C14_lz4f_st_reads_exactly_full_statement : Prop :=
  forall (bdec : list byte -> list byte -> option (list byte)) fuel ifuel test fl d0 s s' content rest,
    IoLz4fRefine.dctx_fresh d0 -> bytes_ok (s_in s) = true ->
    IoLz4f.lz4f_st_c bdec fuel ifuel false test fl d0 s = Ret tt s' ->
    frame_decode bdec false [] (IoLz4fRefine.magic4 ++ s_in s) = Some (content, rest) ->
    s_in s' = rest.

Theorem C14_lz4f_st_concrete_sound :
  forall (bdec : list byte -> list byte -> option (list byte)) fuel ifuel test fl d0 s s',
    IoLz4fRefine.dctx_fresh d0 ->
    FrameD.r_consumed (snd (FrameD.decompress_usingDict bdec d0 IoLz4fRefine.magic4 0 [] (IoLz4f.o_first false))) = 4 ->
    bytes_ok (s_in s) = true ->
    IOL_dBufferSize * Z.of_nat ifuel * Z.of_nat fuel < IoLz4fRefine.M64 ->
    IoLz4f.lz4f_st_c bdec fuel ifuel false test fl d0 s = Ret tt s' ->
    exists content lost,
      frame_decode bdec false [] (IoLz4fRefine.magic4 ++ s_in s) = Some (content, lost ++ s_in s') /\
      s_out s' = s_out s ++ IoLz4fRefine.wrote test content.
Proof. exact IoLz4fRefine.lz4f_st_c_sound. Qed.
Print Assumptions C14_lz4f_st_concrete_sound.

(* on a calloc'ed dctx with the fuels of IoLz4f.lz4f_st_run (the header call provably takes the 4 bytes) *)
Theorem C14_lz4f_st_fresh_sound :
  forall (bdec : list byte -> list byte -> option (list byte)) fuel ifuel test fl s s',
    Z.of_nat ifuel = IOL_dBufferSize + 4096 -> Z.of_nat fuel = Z.of_nat (length (s_in s)) + 1 ->
    bytes_ok (s_in s) = true -> Z.of_nat (length (s_in s)) < 4000000000 ->
    IoLz4f.lz4f_st_c bdec fuel ifuel false test fl FrameD.dctx_init s = Ret tt s' ->
    exists content lost,
      frame_decode bdec false [] (IoLz4fRefine.magic4 ++ s_in s) = Some (content, lost ++ s_in s') /\
      s_out s' = s_out s ++ IoLz4fRefine.wrote test content.
Proof. exact IoLz4fRefine.lz4f_st_fresh_sound. Qed.
Print Assumptions C14_lz4f_st_fresh_sound.

(* the concrete loop run on a frame with one stored block "abc" (no checksums), followed by two bytes: it returns,
   writes "abc", leaves the two bytes: 14 bytes in two fread calls of 7 (hints 7 and 7), one fwrite *)
Example C14_ex_concrete_loop :
  let frame_tail := [96; 64; 130; 3; 0; 0; 128; 97; 98; 99; 0; 0; 0; 0] in
  match IoLz4f.lz4f_st_c spec_decode 30 30 false false no_faults FrameD.dctx_init (st_init (frame_tail ++ [7; 7]) 0) with
  | Ret _ s' => s_out s' = [97; 98; 99] /\ s_in s' = [7; 7] /\
                rev (s_tr s') = [ERead 7 7 false; ERead 7 7 false; EWrite 3 true]
  | Die _ _ => False
  end.
Proof. vm_compute. repeat split; reflexivity. Qed.
(* the same frame cut after 9 bytes: "unfinished stream", exit 68 (Io.lz4f_st says 66) *)
Example C14_ex_concrete_unfinished :
  match IoLz4f.lz4f_st_c spec_decode 30 30 false false no_faults FrameD.dctx_init (st_init [96; 64; 130; 3; 0] 0) with
  | Die c _ => c = 68
  | Ret _ _ => False
  end.
Proof. vm_compute. reflexivity. Qed.

(* ------------------------------------------------------------------------------------------------
   Round 5: the statement left open above (C14_lz4f_st_reads_exactly_full_statement: the ST loop consumes exactly
   the frame, because LZ4F's hints never exceed what is left of it) is FALSE of the code and of the models.
   lib/lz4frame.c, dstage_storeCBlock ("need more input") adds the block-checksum size to a target that already
   contains it; with block checksums a compressed block arriving in two pieces yields a hint 4 bytes too large, and
   on a frame without content checksum whose last data block is such a block the hint ends 4 bytes beyond the frame.
   C14_hint_within_frame_refuted: a 30-byte valid frame on which Model.FrameD's first call, having consumed 16
   bytes, returns the hint 18 although 14 bytes are left (vm_compute witness, Proofs/FrameDHint.v).
   At loop level (witness too large for vm_compute in a proof file: a 65.9 KB frame, 142 s; checked by the extracted
   model on every run of c14.py, kind stloop_f21, against the real binary): LZ4IO_decompressLZ4F of the single-thread
   build freads 4 bytes of what follows such a frame and drops them - finding F21: `lz4 -d` (ST) of two concatenated
   frames made with -BX --no-frame-crc exits 1 after the first frame.  Hence Io.lz4f_st's "reads exactly the frame"
   is NOT an observable-preserving abstraction for those frames; C14_lz4f_st_concrete_sound (which allows [lost])
   is the statement that holds.  Corrected claim, NOT proved (C14_lz4f_st_reads_exactly_corrected_full_statement):
   lost = [] when the frame has no block checksum or has a content checksum. *)
From LZ4V Require Proofs.FrameDHint.

Definition C14_lz4f_st_reads_exactly_corrected_full_statement : Prop :=
  forall (bdec : list byte -> list byte -> option (list byte)) fuel ifuel test fl d0 s s' content rest d r1,
    IoLz4fRefine.dctx_fresh d0 -> bytes_ok (s_in s) = true ->
    IoLz4f.lz4f_st_c bdec fuel ifuel false test fl d0 s = Ret tt s' ->
    frame_decode bdec false [] (IoLz4fRefine.magic4 ++ s_in s) = Some (content, rest) ->
    parse_desc (s_in s) = Some (d, r1) -> (f_bcrc d = false \/ f_ccrc d = true) ->
    s_in s' = rest.

(* F21 is repaired in /repo: the refutation C14_hint_within_frame_refuted of the unrepaired code is gone; the witness frame now
   gets the exact hint (14 bytes left, 14 asked for).  hint_within_frame_statement itself is open again (not proved). *)
Example C14_ex_hint_witness :
  frame_decode spec_decode false [] FrameDHint.hw_frame = Some ([1; 2; 3; 4; 5; 6; 7; 8; 9; 10], []) /\
  bytes_ok FrameDHint.hw_frame = true /\ FrameD.zlen FrameDHint.hw_frame = 30 /\
  let r := snd (FrameD.decompress spec_decode FrameD.dctx_init (FrameD.ztake 16 FrameDHint.hw_frame) 100 (FrameD.mkO false false false)) in
  FrameD.r_consumed r = 16 /\ FrameD.r_ret r = 14.
Proof. exact FrameDHint.hint_witness. Qed.

(* F21, as a statement about the OLD hint formula of dstage_storeCBlock (the current model and code use the repaired one):
   in the state the 30-byte witness frame reaches after 16 bytes, the old formula gives 18 although 14 bytes are left. *)
Theorem C14_old_storeCBlock_hint_refuted :
  let s := fst (FrameD.decompress spec_decode FrameD.dctx_init (FrameD.ztake 16 FrameDHint.hw_frame) 100 (FrameD.mkO false false false)) in
  FrameD.d_stage s = FrameD.StoreCBlock /\
  (FrameD.d_tmpInTarget s - FrameD.d_tmpInSize s) + FrameD.bcsize s + FD_BHSize = 18 /\ FrameD.zlen FrameDHint.hw_frame - 16 = 14.
Proof. exact FrameDHint.old_storeCBlock_hint_exceeds_frame. Qed.
Print Assumptions C14_old_storeCBlock_hint_refuted.

(* ------------------------------------------------------------------------------------------------
   Round 6: on the repaired model (F21 fixed) the hint bound is a THEOREM (Proofs/FrameDHintProofs.v).
   C14_hint_within_frame: for every block decoder, every specification-valid frame (all checksums verified), every
   first call of LZ4F_decompress on a calloc'ed context that consumes the k > 0 bytes it is given (any capacity, any
   options): a positive return value (the hint) is at most the number of frame bytes still to come.
   C14_call_hint_within_frame: the same for ANY call made at a position of the chunking invariant (FrameDChunk.BInv:
   any earlier calls, any pieces, any capacities; skipChecksums on or off) of a valid frame: the hint returned by a
   stopping call is at most the number of frame bytes not yet consumed.
   Proof: (1) stage by stage, the value returned by a stopping stage is [stop_hint] of the state it leaves (run_hint:
   storeFrameHeader rest+4, blockHeader 4+n+crc, storeBlockHeader rest, copyDirect rest+crc+4, getBlockChecksum 1,
   flushOut 4, storeCBlock rest+4, storeSuffix rest); (2) at every CInv position of a valid frame stop_hint <= bytes to
   come (hint_state_bound: the continuation clause of CInv yields the length of what the specification still has to
   see; the header-staging stage through headerSize_spec; skippable stages contradict validity); (3) call_chunk gives
   the CInv position after the call.
   Still open: C14_lz4f_st_reads_exactly_full_statement (lost = [] for the ST loop) - the loop-level induction that
   threads this bound through IoLz4f.inner/outer is not done; stloop checks it on every run. *)
From LZ4V Require Proofs.FrameDHintProofs Proofs.FrameDChunk.

Theorem C14_hint_within_frame : FrameDHint.hint_within_frame_statement.
Proof. exact FrameDHintProofs.hint_within_frame. Qed.
Print Assumptions C14_hint_within_frame.

Theorem C14_call_hint_within_frame :
  forall (bdec : list byte -> list byte -> option (list byte)) skip dict s src cap o p O g res l' h,
  FrameD.o_skip o = skip -> FrameDProofs.wf s -> FrameDChunk.BInv bdec skip dict p O s -> bytes_ok src = true -> 0 <= cap ->
  frame_decode bdec false dict (p ++ src ++ g) = Some res ->
  FrameD.run bdec (FrameD.call_fuel src) o (FrameD.mkL (FrameD.set_skip s (FrameD.d_skip s || FrameD.o_skip o)) src 0 [] cap) = (l', FrameD.FStop h) ->
  0 < h -> bytes_ok g = true ->
  snd (FrameD.decompress bdec s src cap o) = FrameD.mkR (FrameD.l_used l') (FrameD.zlen (FrameD.l_out l')) (FrameD.l_out l') h false /\
  h <= FrameD.zlen src + FrameD.zlen g - FrameD.l_used l'.
Proof. exact FrameDHintProofs.call_hint_within_frame. Qed.
Print Assumptions C14_call_hint_within_frame.

(* the F21 witness frame, cut anywhere: every positive hint is within the frame (instance of the theorem, by computation) *)
Example C14_ex_hint_bound_on_witness :
  forallb (fun k => let r := snd (FrameD.decompress spec_decode FrameD.dctx_init (FrameD.ztake k FrameDHint.hw_frame) 100 (FrameD.mkO false false false)) in
                    (FrameD.r_ret r <=? 30 - FrameD.r_consumed r))
          [1; 2; 3; 4; 5; 6; 7; 8; 9; 10; 11; 12; 13; 14; 15; 16; 17; 18; 19; 20; 21; 22; 23; 24; 25; 26; 27; 28; 29] = true.
Proof. vm_compute. reflexivity. Qed.

(* ------------------------------------------------------------------------------------------------
   Round 7: the ST loop reads exactly the frame (Proofs/IoLz4fExact.v).
   C14_lz4f_st_reads_exactly: for every block decoder, fault oracle, test flag, fuels and decompression context at the
   start of a frame (whose header call takes the 4 magic bytes): if the source holds [fr ++ tail] where magic ++ fr is a
   frame the specification accepts (all checksums verified) and the concrete LZ4IO_decompressLZ4F loop returns, then it
   leaves exactly [tail] in the source: no byte beyond the frame is read (lost = [] in C14_lz4f_st_concrete_sound).
   Proof: every fread asks min(hint, 64 KB), and by C14_call_hint_within_frame the hint of every call made inside a
   valid frame is at most the frame bytes still to come; the `return v` path of LZ4F_decompress (no input at the start of
   a frame) is excluded through run_post; when the decoder reports the end of the frame the specification's verdict on
   [magic ++ fr] forces the unconsumed rest of the buffer and the unread rest of the frame to be empty.
   C14_lz4f_st_fresh_reads_exactly: the same on a calloc'ed dctx (no side condition on the header call).
   This is the statement C14_lz4f_st_reads_exactly_full_statement of round 4 with the valid frame given as a prefix of
   the source (s_in s = fr ++ tail, frame_decode (magic ++ fr) = Some (content, [])) instead of through
   frame_decode (magic ++ s_in s) = Some (content, rest). *)
From LZ4V Require Proofs.IoLz4fExact.

Theorem C14_lz4f_st_reads_exactly :
  forall (bdec : list byte -> list byte -> option (list byte)) fuel ifuel test fl d0 s s' fr tail content,
    IoLz4fRefine.dctx_fresh d0 ->
    FrameD.r_consumed (snd (FrameD.decompress_usingDict bdec d0 IoLz4fRefine.magic4 0 [] (IoLz4f.o_first false))) = 4 ->
    s_in s = fr ++ tail -> bytes_ok (s_in s) = true ->
    frame_decode bdec false [] (IoLz4fRefine.magic4 ++ fr) = Some (content, []) ->
    IoLz4f.lz4f_st_c bdec fuel ifuel false test fl d0 s = Ret tt s' ->
    s_in s' = tail.
Proof. exact IoLz4fExact.lz4f_st_c_reads_exactly. Qed.
Print Assumptions C14_lz4f_st_reads_exactly.

Theorem C14_lz4f_st_fresh_reads_exactly :
  forall (bdec : list byte -> list byte -> option (list byte)) fuel ifuel test fl s s' fr tail content,
    s_in s = fr ++ tail -> bytes_ok (s_in s) = true ->
    frame_decode bdec false [] (IoLz4fRefine.magic4 ++ fr) = Some (content, []) ->
    IoLz4f.lz4f_st_c bdec fuel ifuel false test fl FrameD.dctx_init s = Ret tt s' ->
    s_in s' = tail.
Proof. exact IoLz4fExact.lz4f_st_fresh_reads_exactly. Qed.
Print Assumptions C14_lz4f_st_fresh_reads_exactly.

(* the state a returning concrete loop leaves on [frame ++ tail] is the one of the abstract step Io.lz4f_st: the source
   holds exactly what follows the frame, the destination received exactly the frame's content (nothing in test mode).
   (The event traces differ by the chunking only: several ERead / EWrite against one each.  The converse - the abstract
   step returns => the concrete loop returns, i.e. termination within the fuel and no spurious error - is not proved.) *)
Theorem C14_lz4f_st_return_state :
  forall (bdec : list byte -> list byte -> option (list byte)) fuel ifuel test fl d0 s s' fr tail content,
    IoLz4fRefine.dctx_fresh d0 ->
    FrameD.r_consumed (snd (FrameD.decompress_usingDict bdec d0 IoLz4fRefine.magic4 0 [] (IoLz4f.o_first false))) = 4 ->
    s_in s = fr ++ tail -> bytes_ok (s_in s) = true ->
    frame_decode bdec false [] (IoLz4fRefine.magic4 ++ fr) = Some (content, []) ->
    IOL_dBufferSize * Z.of_nat ifuel * Z.of_nat fuel < IoLz4fRefine.M64 ->
    IoLz4f.lz4f_st_c bdec fuel ifuel false test fl d0 s = Ret tt s' ->
    s_in s' = tail /\ s_out s' = s_out s ++ IoLz4fRefine.wrote test content.
Proof. exact IoLz4fExact.lz4f_st_c_return_state. Qed.
Print Assumptions C14_lz4f_st_return_state.

(* the frame of C14_ex_concrete_loop followed by two bytes: hypotheses met, the two bytes are left *)
Example C14_ex_reads_exactly :
  let fr := [96; 64; 130; 3; 0; 0; 128; 97; 98; 99; 0; 0; 0; 0] in
  frame_decode spec_decode false [] (IoLz4fRefine.magic4 ++ fr) = Some ([97; 98; 99], []) /\
  match IoLz4f.lz4f_st_c spec_decode 30 30 false false no_faults FrameD.dctx_init (st_init (fr ++ [7; 7]) 0) with
  | Ret _ s' => s_in s' = [7; 7]
  | Die _ _ => False
  end.
Proof. vm_compute. split; reflexivity. Qed.
