(* C14 - the CLI never reports success on a failed decode; --rm deletes only on success.
   Theorems about Model/Io.v (decode control flow of programs/lz4io.c and the tail of the compression
   functions), for ALL inputs and ALL fault oracles; the library decoders are the specification's
   (Spec.FrameSpec.frame_decode / spec_decode over any block decoder [bd]).
   Proof scripts: Proofs/IoProofs.v, Proofs/IoTrace.v, Proofs/IoMulti.v, Proofs/IoTrunc.v. *)
From Coq Require Import ZArith List Bool.
From LZ4V Require Import Spec.BlockSpec Spec.FrameSpec Gen.Consts Model.Io.
From LZ4V Require Import Proofs.IoSpecFacts Proofs.IoProofs Proofs.IoTrace Proofs.IoMulti Proofs.IoConcat Proofs.IoTrunc Proofs.IoSeek.
Import ListNotations.
Local Open Scope Z_scope.

(* exit 0  ==>  no failing open/read/write/close/remove event occurred (a failing fseek is not an error: the
   code falls back to reading), --rm was honoured, and the input is a valid stream whose specified decoding
   is exactly what was written (test mode: is valid).  ST and MT, file and pipe, every fault oracle.
   Exception stated explicitly: [o_pasteof], "a successful fseek went beyond the end of the input", i.e. the
   input ends inside the user data of a skippable frame on a seekable source (left unspecified by the property). *)
Theorem C14_exit0_sound : forall bd mt test seekable rm fl input,
  bytes_ok input = true ->
  let o := decompress_file (frame_decode bd false []) (bd []) mt test false seekable rm fl input in
  o_exit o = 0 -> o_pasteof o = false ->
  clean (o_trace o) /\
  (rm = true -> o_removed o = true) /\
  exists c, stream_decode bd false (S (length input)) [] [] input = Some c /\ (test = false -> o_out o = c).
Proof. exact exit0_sound. Qed.
Print Assumptions C14_exit0_sound.

(* the exception of C14_exit0_sound can only arise on seekable input: on a pipe [o_pasteof] is always false,
   so there exit 0 ALWAYS certifies a valid stream and its exact decoding *)
Theorem C14_pipe_no_exception : forall fdec bdec mt test pt rm fl input,
  o_pasteof (decompress_file fdec bdec mt test pt false rm fl input) = false.
Proof. exact pipe_no_pasteof. Qed.
Print Assumptions C14_pipe_no_exception.

(* in EVERY prefix of the trace (= every crash point): a remove(src) event is the last event, preceded by all
   reads/writes, the close of the source and the SUCCESSFUL close of the destination; it only occurs with --rm and
   the exit status is then 0 (45 if the removal itself fails) - for any decoders, inputs, options, fault oracles *)
Theorem C14_rm_order : forall fdec bdec mt test pt sk rm fl input,
  let o := decompress_file fdec bdec mt test pt sk rm fl input in
  forall a ok b, o_trace o = a ++ ERemoveSrc ok :: b ->
    b = [] /\ rm = true /\ o_exit o = (if ok then 0 else 45) /\
    exists data, a = [EOpenDst true; EOpenSrc true] ++ data ++ [ECloseSrc; ECloseDst true] /\ forallb data_ev data = true.
Proof. exact rm_order. Qed.
Print Assumptions C14_rm_order.

(* same for the tail of the compression functions (frame format; the legacy path never removes) *)
Theorem C14_rm_order_compress : forall comp legacy rm fl input,
  let o := compress_file comp legacy rm fl input in
  forall a ok b, o_trace o = a ++ ERemoveSrc ok :: b ->
    b = [] /\ rm = true /\ legacy = false /\ o_exit o = (if ok then 0 else 50) /\
    exists data, a = [EOpenSrc true; EOpenDst true] ++ data ++ [ECloseSrc; ECloseDst true] /\ forallb data_ev data = true.
Proof. exact rm_order_compress. Qed.
Print Assumptions C14_rm_order_compress.

(* multi-file mode: the exit status (number of failed inputs, saturated at 255) is 0 only if every input ended
   with result 0 - for any number of inputs (regression of the 256-failures wrap-around) *)
Theorem C14_multi_exit0 : forall fdec bdec mt test sk rm files,
  fst (decompress_multi fdec bdec mt test sk rm files) = 0 ->
  Forall (fun o => o_exit o = 0) (snd (decompress_multi fdec bdec mt test sk rm files)) /\
  length (snd (decompress_multi fdec bdec mt test sk rm files)) = length files.
Proof. exact multi_exit0. Qed.
Print Assumptions C14_multi_exit0.

(* truncation, specification side: a stream of valid frames (LZ4 frames, legacy frames with any number of blocks,
   skippable frames) cut ANYWHERE is accepted by Spec.stream_decode only if the cut is at a frame boundary or at a
   legacy BLOCK boundary (legacy frames have no end mark) - [cut fs fs'] - and then the prefix is itself a stream of
   valid frames decoding to their contents; everywhere else stream_decode fails *)
Theorem C14_truncation : forall bd fs, Forall (valid_frame bd) fs -> forall (p t : list byte) F acc c,
  enc_all fs = p ++ t -> stream_decode bd false F [] acc p = Some c ->
  exists fs', cut fs fs' /\ Forall (valid_frame bd) fs' /\ p = enc_all fs' /\ c = acc ++ contents fs'.
Proof. exact truncation. Qed.
Print Assumptions C14_truncation.

(* ... hence the CLI model (ST and MT, file and pipe, any fault oracle) run on any prefix exits 0 only at such a
   boundary, having written exactly the contents before the cut *)
Theorem C14_truncation_exit : forall bd fs (p t : list byte) mt test seekable rm fl,
  Forall (valid_frame bd) fs -> enc_all fs = p ++ t -> bytes_ok p = true ->
  let o := decompress_file (frame_decode bd false []) (bd []) mt test false seekable rm fl p in
  o_exit o = 0 -> o_pasteof o = false ->
  exists fs', cut fs fs' /\ Forall (valid_frame bd) fs' /\ p = enc_all fs' /\ (test = false -> o_out o = contents fs').
Proof. exact truncation_exit. Qed.
Print Assumptions C14_truncation_exit.

(* hypotheses are met / conclusions are not vacuous: a run that exits 0 with --rm, one that hits a write fault,
   one that hits a read error exactly at a frame boundary (regression of F8), trailing garbage (regression of F2) *)
Example C14_ex_ok :
  let o := decompress_file spec_fdec spec_bdec false false false true true no_faults (enc_all f4_witness) in
  o_exit o = 0 /\ o_pasteof o = false /\ o_removed o = true /\ o_out o = [97; 98; 99; 100; 101] /\
  o_trace o = [EOpenDst true; EOpenSrc true; ERead 4 4 false; ERead 7 7 false; EWrite 0 true; ERead 4 4 false;
               ERead 4 4 false; ERead 6 6 false; EWrite 5 true; ERead 4 0 false; ERead 4 0 false;
               ECloseSrc; ECloseDst true; ERemoveSrc true].
Proof. vm_compute. repeat split. Qed.
Example C14_ex_faults :
  let inp := enc_all f4_witness in
  o_exit (decompress_file spec_fdec spec_bdec false false false true true (mkFaults false false None (Some 2) (fun _ => false) false false) inp) = 70 /\
  o_exit (decompress_file spec_fdec spec_bdec false false false true true (mkFaults false false (Some 11) None (fun _ => false) false false) inp) = 54 /\
  o_exit (decompress_file spec_fdec spec_bdec false false false true true (mkFaults false false None None (fun _ => false) true false) inp) = 36 /\
  (let o := decompress_file spec_fdec spec_bdec false false false true true no_faults (inp ++ [71; 65; 82; 66; 65; 71; 69; 33]) in
   o_exit o <> 0 /\ o_removed o = false) /\
  bytes_ok inp = true.
Proof. vm_compute. repeat split; intros D; discriminate. Qed.
(* cuts of the two-frame witness: inside the LZ4 frame (rejected), at the frame boundary and at a legacy block boundary (accepted) *)
Example C14_ex_cuts :
  let inp := enc_all f4_witness in
  stream_decode spec_decode false 40 [] [] (firstn 7 inp) = None /\
  stream_decode spec_decode false 40 [] [] (firstn 11 inp) = Some [] /\
  stream_decode spec_decode false 40 [] [] (firstn 15 inp) = Some [] /\
  stream_decode spec_decode false 40 [] [] (firstn 20 inp) = None /\
  stream_decode spec_decode false 40 [] [] (firstn 25 inp) = Some [97; 98; 99; 100; 101] /\
  cut f4_witness [FLz4 f4_lz4 []; FLegacy (firstn 0 [(f4_block, [97; 98; 99; 100; 101])])].
Proof. cbv zeta. repeat split; try (vm_compute; reflexivity). apply cut_cons. apply (cut_legacy [(f4_block, [97; 98; 99; 100; 101])] 0). Qed.
