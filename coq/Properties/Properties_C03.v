(* C03 - Frame compression is lossless under any call pattern and any preferences.

   Proved here over Model.FrameC (byte-level model of LZ4F_compressBegin*/compressUpdate/
   uncompressedUpdate/flush/compressEnd/compressFrame(_usingCDict) of lib/lz4frame.c; the block
   compressors appear through their contract only):
   for ALL prior states of the compression context, ALL preferences within the documented enum
   ranges (block size id 0,4..7; linked/independent; block/content checksum; any content size and
   dictID; any level, autoFlush, favorDecSpeed; NULL preferences), ALL dictionaries given through
   compressBegin_usingDict or a CDict, ALL lists of update/uncompressedUpdate/flush calls with ALL
   inputs (uncompressedUpdate with independent blocks only, as documented) in which no call
   reports an error, and ALL block compressors [blk] that satisfy the contract "a positive result
   decodes (Spec.BlockSpec.spec_decode) to the block with the history the LZ4F layer offered":
   the concatenated output is ONE frame that the decoder written from doc/lz4_Frame_format.md
   (Spec.FrameSpec.frame_decode, all checksums verified, XXH32 from the xxHash specification)
   decodes to exactly the concatenated input, with nothing left over.

   C03_lossless composes this with the decoder model of property C08 (Model.FrameD: all 15 stages of
   LZ4F_decompress; Proofs/FrameDChunk.v: on input accepted by frame_decode the staged decoder never errs,
   ends, and returns the document's verdict whatever the chunking): for EVERY such session and EVERY way of
   feeding the produced frame to LZ4F_decompress_usingDict's model - any decompression context at the start
   of a frame, any options (stableDst, skipChecksums), any piece sizes >= 1, any per-call capacities >= 1,
   what a call does not consume being offered again - no call fails and, within |frame| + |input| + 1 calls,
   the decoder returns 0 having produced exactly the input and consumed exactly the frame.  Two hypotheses are
   added by the composition: the input is a string of bytes (values 0..255) and the block compressor writes
   bytes (blk_bytes); they make the produced frame a string of bytes, which the decoder theorems require
   (C03_frame_is_bytes).  Both models are tied to the C code by their own per-call correspondence (c03.py,
   c08.py); the real LZ4F_decompress under sampled chunkings remains a direct oracle of this check.

   About the earlier Definition C03_lossless_full_statement (it took an abstract driver [decompress_loop dict
   pieces caps] fed a list of pieces and asked for "exists caps_used"): it is replaced by the concrete statement
   below, instantiated with FrameDChunk.drive_usingDict.  Differences: the chunking is given by piece SIZES and
   the driver re-offers the bytes a call did not consume (the documented protocol; a fixed list of pieces would
   silently drop them); the number of calls is explicit (|F|+|X|+1 suffice; for any other number of calls the run
   never errs and, if it ends, ends with the same verdict) instead of an existential over extra capacities. *)
From Coq Require Import ZArith List Lia Bool.
From LZ4V Require Import Gen.Consts Spec.BlockSpec Spec.XXH32 Spec.FrameSpec Model.FrameC Model.FrameAudit
     Model.FrameD Proofs.FrameCBytes Proofs.FrameCBlocks Proofs.FrameCProofs Proofs.FrameCTheorems Proofs.FrameCExamples
     Proofs.FrameRoundTrip Proofs.FrameCTotal.
From LZ4V Require Proofs.FrameDProofs Proofs.FrameDChunk.
Import ListNotations.
Local Open Scope Z_scope.

(* the full property, over the compressor model and the decoder model *)
Definition C03_lossless_full_statement : Prop :=
  forall blk, blk_contract spec_decode blk -> blk_bytes blk ->
  forall c0 po dk ms F X,
  prefs_opt_ok po -> uncompressed_only_if_independent po ms -> len X < U64 ->
  bytes_ok X = true ->
  session blk c0 po dk ms = Some (F, X) ->
  forall o s ns caps,
  dctx_at_frame_start s ->
  (forall k, Forall (fun c => 0 <= c) caps ->
     FrameDChunk.drive_usingDict spec_decode (dict_of dk) o k s F ns caps [] 0 <> FrameDChunk.VError /\
     (FrameDChunk.drive_usingDict spec_decode (dict_of dk) o k s F ns caps [] 0 <> FrameDChunk.VMore ->
      FrameDChunk.drive_usingDict spec_decode (dict_of dk) o k s F ns caps [] 0 = FrameDChunk.VComplete X (zlen F))) /\
  (o_dstnull o = false -> Forall (fun n => 1 <= n) ns -> Forall (fun c => 1 <= c) caps ->
   let K := Z.to_nat (zlen F + zlen X + 1) in
   (K <= length ns)%nat -> (K <= length caps)%nat ->
   FrameDChunk.drive_usingDict spec_decode (dict_of dk) o K s F ns caps [] 0 = FrameDChunk.VComplete X (zlen F)).

(* 0. compressor model then decoder model, any chunking *)
Theorem C03_lossless : C03_lossless_full_statement.
Proof. exact c03_lossless. Qed.
Print Assumptions C03_lossless.

(* plain LZ4F_decompress (no dictionary), e.g. from a calloc'ed or reset context *)
Theorem C03_lossless_nodict :
  forall blk, blk_contract spec_decode blk -> blk_bytes blk ->
  forall c0 po ms F X,
  prefs_opt_ok po -> uncompressed_only_if_independent po ms -> len X < U64 ->
  bytes_ok X = true ->
  session blk c0 po NoDict ms = Some (F, X) ->
  forall o s ns caps,
  dctx_at_frame_start s -> d_hist s = [] ->
  o_dstnull o = false -> Forall (fun n => 1 <= n) ns -> Forall (fun c => 1 <= c) caps ->
  let K := Z.to_nat (zlen F + zlen X + 1) in
  (K <= length ns)%nat -> (K <= length caps)%nat ->
  FrameDChunk.drive spec_decode o K s F ns caps [] 0 = FrameDChunk.VComplete X (zlen F).
Proof. exact c03_lossless_nodict. Qed.
Print Assumptions C03_lossless_nodict.

(* LZ4F_compressFrame(_usingCDict), then the decoder under any chunking *)
Theorem C03_compressFrame_lossless :
  forall blk, blk_contract spec_decode blk -> blk_bytes blk ->
  forall c src cd po F c',
  prefs_opt_ok po -> len src < U64 -> bytes_ok src = true ->
  compressFrame_usingCDict blk c src (match cd with Some d => Some (createCDict d) | None => None end) po = (Out F, c') ->
  forall o s ns caps,
  dctx_at_frame_start s ->
  o_dstnull o = false -> Forall (fun n => 1 <= n) ns -> Forall (fun c => 1 <= c) caps ->
  let K := Z.to_nat (zlen F + zlen src + 1) in
  (K <= length ns)%nat -> (K <= length caps)%nat ->
  FrameDChunk.drive_usingDict spec_decode (match cd with Some d => d | None => [] end) o K s F ns caps [] 0
  = FrameDChunk.VComplete src (zlen F).
Proof. exact c03_compressFrame_lossless. Qed.
Print Assumptions C03_compressFrame_lossless.

(* the produced frame is a string of bytes (what lets the decoder theorems apply) *)
Theorem C03_frame_is_bytes :
  forall blk, blk_contract spec_decode blk -> blk_bytes blk ->
  forall c0 po dk ms F X,
  prefs_opt_ok po -> uncompressed_only_if_independent po ms -> len X < U64 ->
  bytes_ok X = true ->
  session blk c0 po dk ms = Some (F, X) ->
  bytes_ok F = true.
Proof. exact session_bytes. Qed.
Print Assumptions C03_frame_is_bytes.

(* 1. streaming API: every successful Begin .. End session is a frame that decodes to the input *)
Theorem C03_roundtrip :
  forall blk, blk_contract spec_decode blk ->
  forall c0 po dk ms F X,
  prefs_opt_ok po -> uncompressed_only_if_independent po ms -> len X < U64 ->
  session blk c0 po dk ms = Some (F, X) ->
  frame_decode spec_decode false (dict_of dk) F = Some (X, []).
Proof. exact c03_roundtrip. Qed.
Print Assumptions C03_roundtrip.

(* 2. LZ4F_compressFrame_usingCDict / LZ4F_compressFrame (cd = None, fresh context) *)
Theorem C03_compressFrame_roundtrip :
  forall blk, blk_contract spec_decode blk ->
  forall c src cd po F c',
  prefs_opt_ok po -> len src < U64 ->
  compressFrame_usingCDict blk c src (match cd with Some d => Some (createCDict d) | None => None end) po = (Out F, c') ->
  frame_decode spec_decode false (match cd with Some d => d | None => [] end) F = Some (src, []).
Proof. exact c03_compressFrame_roundtrip. Qed.
Print Assumptions C03_compressFrame_roundtrip.

(* 3. a block that decodes with the history it was compressed against decodes with any longer one
      (why a block compressor that used less than what it was offered still meets the contract) *)
Theorem C03_history_extension :
  forall h' h c x, spec_decode h c = Some x -> spec_decode (h' ++ h) c = Some x.
Proof. exact Proofs.BlockHistExt.spec_decode_ext. Qed.
Print Assumptions C03_history_extension.

(* 4. the model's block loop never runs out of fuel (no call result is an artefact of the fuel) *)
Theorem C03_update_fuel_suffices :
  forall blk c src bc, 0 < c_maxBlock c -> fst (compressUpdateImpl blk c src bc) <> OutOfFuel.
Proof. exact update_never_out_of_fuel. Qed.
Print Assumptions C03_update_fuel_suffices.

(* 5. "no call reports an error" is not a restriction: every legal session (preferences in range, raw dictionary
      <= INT_MAX bytes, uncompressedUpdate only with independent blocks, declared content size absent or exact)
      runs to the end in the model, and its frame decodes to the input.  Capacities are property C10's. *)
Theorem C03_legal_session :
  forall blk, blk_contract spec_decode blk ->
  forall c0 po dk ms,
  prefs_opt_ok po -> dict_fits dk -> uncompressed_only_if_independent po ms ->
  len (mop_inputs ms) < U64 ->
  (p_contentSize (eff_prefs po) = 0 \/ p_contentSize (eff_prefs po) = len (mop_inputs ms)) ->
  exists F, session blk c0 po dk ms = Some (F, mop_inputs ms) /\
            frame_decode spec_decode false (dict_of dk) F = Some (mop_inputs ms, []).
Proof. exact c03_legal_session. Qed.
Print Assumptions C03_legal_session.

(* ---- the hypotheses are satisfiable, non-vacuously ---- *)
(* a block compressor that really compresses (40 x 'a' -> 11 bytes) and meets the contract *)
Example C03_ex_contract : blk_contract spec_decode ex_blk /\ ex_blk 0 [] ex_content = Some ex_block /\ length ex_block = 11%nat.
Proof. split; [exact ex_blk_spec|]. split; vm_compute; reflexivity. Qed.

(* a two-block linked session (block 1 compressed, block 2 stored raw), both checksums, declared size *)
Example C03_ex_session :
  match session ex_blk cctx_zero (Some ex_prefs) NoDict ex_ops with
  | Some (F, X) => X = ex_content ++ [1; 2; 3] ++ ex_content /\ length F = 93%nat
                   /\ frame_decode spec_decode false [] F = Some (X, [])
  | None => False
  end.
Proof. vm_compute. repeat split; reflexivity. Qed.
Example C03_ex_hyps : prefs_opt_ok (Some ex_prefs) /\ uncompressed_only_if_independent (Some ex_prefs) ex_ops.
Proof. split; [unfold prefs_opt_ok, prefs_ok, ex_prefs; cbn; lia|exact ex_unc]. Qed.

(* independent blocks, CDict, an uncompressed update between two compressed ones *)
Example C03_ex_session_indep :
  match session ex_blk cctx_zero (Some ex_prefs_indep) (UsingCDict [5; 6; 7]) ex_ops_indep with
  | Some (F, X) => X = ex_content ++ [9; 9] ++ ex_content
                   /\ frame_decode spec_decode false [5; 6; 7] F = Some (X, [])
  | None => False
  end.
Proof. vm_compute. repeat split; reflexivity. Qed.
Example C03_ex_hyps_indep : prefs_opt_ok (Some ex_prefs_indep) /\ uncompressed_only_if_independent (Some ex_prefs_indep) ex_ops_indep.
Proof. split; [unfold prefs_opt_ok, prefs_ok, ex_prefs_indep; cbn; lia|exact ex_unc_indep]. Qed.

(* one-shot *)
Example C03_ex_compressFrame :
  match compressFrame_usingCDict ex_blk cctx_zero ex_content None None with
  | (Out F, _) => frame_decode spec_decode false [] F = Some (ex_content, [])
  | _ => False
  end.
Proof. vm_compute. reflexivity. Qed.

(* the composed theorem's extra hypotheses on the example, and the decoder model actually run on the
   example frame: 1-byte pieces with 1-byte capacities from a calloc'ed context, and one call with room *)
Example C03_ex_blk_bytes : blk_bytes ex_blk /\ bytes_ok (mop_inputs ex_ops) = true /\ dctx_at_frame_start dctx_init.
Proof.
  split; [|split; [vm_compute; reflexivity|]].
  - intros n h x c H. unfold ex_blk in H. destruct (list_eqb x ex_content); [|discriminate].
    inversion H. vm_compute. reflexivity.
  - split; [exact FrameDProofs.wf_init|]. repeat split; reflexivity.
Qed.
Example C03_ex_decoder_run :
  match session ex_blk cctx_zero (Some ex_prefs) NoDict ex_ops with
  | Some (F, X) =>
      FrameDChunk.drive spec_decode (mkO false false false) 177 dctx_init F (repeat 1 177) (repeat 1 177) [] 0
        = FrameDChunk.VComplete X 93
      /\ FrameDChunk.drive spec_decode (mkO false false false) 1 dctx_init F [93] [100] [] 0 = FrameDChunk.VComplete X 93
  | None => False
  end.
Proof. vm_compute. split; reflexivity. Qed.

(* ================================================================ [stream/lnk6] LINKED blocks and dictionaries: blk_contract DISCHARGED
   (delimited trailing section; Proofs/BlkInstLinked.v, BlkInstLinkedFrame.v, BlkInstLinkedExamples.v)
   The block compressor is [blk_of orc] for an oracle [orc : nat -> lcall] of stream calls (call n of the frame's
   LZ4_compress_fast_continue / LZ4_compress_HC_continue sequence: result of the STREAM MODEL, source bytes, decoder-side history H);
   it answers only when the block is the oracle's source and H is a tail of the history FrameC offers (dictionary ++ previous
   content, last 64 KB), and only byte strings (guard).  No hypothesis on the block compressor is left; what remains assumed is
     forall n, lcall_ok (orc n)        (stream call n decodes strictly with its own H)
   which follows from the premises of the C11 per-call theorems of each family (the C03_linked_premise theorems below): stream invariant +
   [hist_inv] / [hhist_invd] / [hhist_inv] of the state after the call's prelude w.r.t. H.  That premise is lz4frame.c's address
   choreography (tmpIn inside tmpBuff, LZ4F_localSaveDict, stableSrc), which Model.FrameC abstracts to "the last 64 KB". *)
From LZ4V Require Import Model.Mem Model.Fast Model.FastApi Model.FastStream Model.HcMidStream Model.HcTabStream Model.HcOptStream.
From LZ4V Require Import Proofs.FastStreamProofs Proofs.FastStreamHist Proofs.HcMidStreamProofs Proofs.HcMidStreamHist Proofs.HcTabStreamProofs.
From LZ4V Require Import Proofs.BlkInstLinked Proofs.BlkInstLinkedFrame Proofs.BlkInstLinkedExamples.

Theorem C03_roundtrip_linked_discharged :
  forall orc, (forall n, lcall_ok (orc n)) -> C03_body (blk_of orc).
Proof. exact c03_linked. Qed.
Print Assumptions C03_roundtrip_linked_discharged.

(* the premise, per model family: exactly the premise of the family's C11 per-call theorem *)
Theorem C03_linked_premise_fast : forall o, fcall_ok o -> lcall_ok (lcall_fast o).
Proof. exact lcall_fast_ok. Qed.
Print Assumptions C03_linked_premise_fast.
Theorem C03_linked_premise_hc_mid : forall o, hcall_ok o -> lcall_ok (lcall_mid o).
Proof. exact lcall_mid_ok. Qed.
Print Assumptions C03_linked_premise_hc_mid.
Theorem C03_linked_premise_hc_opt : forall o, ocall_ok o -> lcall_ok (lcall_opt o).
Proof. exact lcall_opt_ok. Qed.
Print Assumptions C03_linked_premise_hc_opt.

Theorem C03_roundtrip_linked_fast : forall orc, (forall n, fcall_ok (orc n)) -> C03_body (blk_fast orc).
Proof. exact c03_linked_fast. Qed.
Print Assumptions C03_roundtrip_linked_fast.
Theorem C03_roundtrip_linked_hc_mid : forall orc, (forall n, hcall_ok (orc n)) -> C03_body (blk_mid orc).
Proof. exact c03_linked_mid. Qed.
Print Assumptions C03_roundtrip_linked_hc_mid.
Theorem C03_roundtrip_linked_hc_opt : forall orc, (forall n, ocall_ok (orc n)) -> C03_body (blk_opt orc).
Proof. exact c03_linked_opt. Qed.
Print Assumptions C03_roundtrip_linked_hc_opt.

(* [C03_body blk] is the conclusion of C03_lossless for that compressor *)
Theorem C03_body_is_C03_lossless : forall blk, blk_contract spec_decode blk -> blk_bytes blk -> C03_body blk.
Proof. exact c03_body_of. Qed.
Print Assumptions C03_body_is_C03_lossless.

(* an oracle meeting the premise (LZ4_loadDict + two LZ4_compress_fast_continue calls of Model.FastStream), and the linked-block
   frame with that dictionary Model.FrameC produces from it: 141 bytes of content in a 98-byte frame *)
Example C03_linked_nonvacuous :
  (forall n, fcall_ok (ex_lorc n)) /\
  ex_lsession = Some (ex_lframe, FastStreamExamples.ex_b1 ++ FastStreamExamples.ex_b2) /\ length ex_lframe = 98%nat /\
  uncompressed_only_if_independent (Some ex_lprefs) ex_lops.
Proof. exact (conj ex_lorc_ok (conj (proj1 ex_lsession_val) (conj (proj2 ex_lsession_val) ex_lunc))). Qed.
(* ================================================================ end of [stream/lnk6] *)
