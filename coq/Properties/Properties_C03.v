(* C03 - Frame compression is lossless under any call pattern and any preferences.

   Proved here over Model.FrameC (byte-level model of LZ4F_compressBegin*/compressUpdate/
   uncompressedUpdate/flush/compressEnd/compressFrame(_usingCDict) of lib/lz4frame.c; the block
   compressors appear through their contract only):
   for ALL prior states of the compression context, ALL preferences within the documented enum
   ranges (block size id 0,4..7; linked/independent; block/content checksum; any content size and
   dictID; any level, autoFlush, favorDecSpeed; NULL preferences), ALL dictionaries given through
   compressBegin_usingDict or a CDict, ALL lists of update/uncompressedUpdate/flush calls with ALL
   inputs (uncompressedUpdate with independent blocks only, as documented) in which no call
   reports an error, and ALL block compressors [blk] that satisfy the contract "a positive result
   decodes (Spec.BlockSpec.spec_decode) to the block with the history the LZ4F layer offered":
   the concatenated output is ONE frame that the decoder written from doc/lz4_Frame_format.md
   (Spec.FrameSpec.frame_decode, all checksums verified, XXH32 from the xxHash specification)
   decodes to exactly the concatenated input, with nothing left over.

   Not proved here (C03_lossless_full_statement): that LZ4F_decompress returns the same bytes under
   every chunking of its input and output.  The decoder state machine is modelled by properties
   C08/C19; in this check that half is the direct oracle (real LZ4F_decompress under many
   chunkings) and the composition theorem is left to the decoder's refinement to frame_decode. *)
From Coq Require Import ZArith List Lia Bool.
From LZ4V Require Import Gen.Consts Spec.BlockSpec Spec.XXH32 Spec.FrameSpec Model.FrameC Model.FrameAudit
     Proofs.FrameCBytes Proofs.FrameCBlocks Proofs.FrameCProofs Proofs.FrameCTheorems Proofs.FrameCExamples.
Import ListNotations.
Local Open Scope Z_scope.

(* the full property: the theorem below, plus the decoder under any chunking.  [decompress_loop dict
   pieces caps] stands for a driver loop around LZ4F_decompress_usingDict fed the input pieces with the
   given output capacities; it returns (output, last return value, bytes consumed). *)
Definition C03_lossless_full_statement
  (decompress_loop : list byte -> list (list byte) -> list Z -> option (list byte * Z * Z)) : Prop :=
  forall blk, blk_contract spec_decode blk ->
  forall c0 po dk ms F X,
  prefs_opt_ok po -> uncompressed_only_if_independent po ms -> len X < U64 ->
  session blk c0 po dk ms = Some (F, X) ->
  frame_decode spec_decode false (dict_of dk) F = Some (X, []) /\
  forall pieces caps, concat pieces = F -> Forall (fun c => 0 < c) caps ->
    exists caps_used, decompress_loop (dict_of dk) pieces (caps_used ++ caps) = Some (X, 0, len F).

(* 1. streaming API: every successful Begin .. End session is a frame that decodes to the input *)
Theorem C03_roundtrip :
  forall blk, blk_contract spec_decode blk ->
  forall c0 po dk ms F X,
  prefs_opt_ok po -> uncompressed_only_if_independent po ms -> len X < U64 ->
  session blk c0 po dk ms = Some (F, X) ->
  frame_decode spec_decode false (dict_of dk) F = Some (X, []).
Proof. exact c03_roundtrip. Qed.
Print Assumptions C03_roundtrip.

(* the same statement under the name that marks it as the proved part of the full property *)
Theorem C03_lossless_partial :
  forall blk, blk_contract spec_decode blk ->
  forall c0 po dk ms F X,
  prefs_opt_ok po -> uncompressed_only_if_independent po ms -> len X < U64 ->
  session blk c0 po dk ms = Some (F, X) ->
  frame_decode spec_decode false (dict_of dk) F = Some (X, []).
Proof. exact c03_roundtrip. Qed.
Print Assumptions C03_lossless_partial.

(* 2. LZ4F_compressFrame_usingCDict / LZ4F_compressFrame (cd = None, fresh context) *)
Theorem C03_compressFrame_roundtrip :
  forall blk, blk_contract spec_decode blk ->
  forall c src cd po F c',
  prefs_opt_ok po -> len src < U64 ->
  compressFrame_usingCDict blk c src (match cd with Some d => Some (createCDict d) | None => None end) po = (Out F, c') ->
  frame_decode spec_decode false (match cd with Some d => d | None => [] end) F = Some (src, []).
Proof. exact c03_compressFrame_roundtrip. Qed.
Print Assumptions C03_compressFrame_roundtrip.

(* 3. a block that decodes with the history it was compressed against decodes with any longer one
      (why a block compressor that used less than what it was offered still meets the contract) *)
Theorem C03_history_extension :
  forall h' h c x, spec_decode h c = Some x -> spec_decode (h' ++ h) c = Some x.
Proof. exact Proofs.BlockHistExt.spec_decode_ext. Qed.
Print Assumptions C03_history_extension.

(* 4. the model's block loop never runs out of fuel (no call result is an artefact of the fuel) *)
Theorem C03_update_fuel_suffices :
  forall blk c src bc, 0 < c_maxBlock c -> fst (compressUpdateImpl blk c src bc) <> OutOfFuel.
Proof. exact update_never_out_of_fuel. Qed.
Print Assumptions C03_update_fuel_suffices.

(* ---- the hypotheses are satisfiable, non-vacuously ---- *)
(* a block compressor that really compresses (40 x 'a' -> 11 bytes) and meets the contract *)
Example C03_ex_contract : blk_contract spec_decode ex_blk /\ ex_blk 0 [] ex_content = Some ex_block /\ length ex_block = 11%nat.
Proof. split; [exact ex_blk_spec|]. split; vm_compute; reflexivity. Qed.

(* a two-block linked session (block 1 compressed, block 2 stored raw), both checksums, declared size *)
Example C03_ex_session :
  match session ex_blk cctx_zero (Some ex_prefs) NoDict ex_ops with
  | Some (F, X) => X = ex_content ++ [1; 2; 3] ++ ex_content /\ length F = 93%nat
                   /\ frame_decode spec_decode false [] F = Some (X, [])
  | None => False
  end.
Proof. vm_compute. repeat split; reflexivity. Qed.
Example C03_ex_hyps : prefs_opt_ok (Some ex_prefs) /\ uncompressed_only_if_independent (Some ex_prefs) ex_ops.
Proof. split; [unfold prefs_opt_ok, prefs_ok, ex_prefs; cbn; lia|exact ex_unc]. Qed.

(* independent blocks, CDict, an uncompressed update between two compressed ones *)
Example C03_ex_session_indep :
  match session ex_blk cctx_zero (Some ex_prefs_indep) (UsingCDict [5; 6; 7]) ex_ops_indep with
  | Some (F, X) => X = ex_content ++ [9; 9] ++ ex_content
                   /\ frame_decode spec_decode false [5; 6; 7] F = Some (X, [])
  | None => False
  end.
Proof. vm_compute. repeat split; reflexivity. Qed.
Example C03_ex_hyps_indep : prefs_opt_ok (Some ex_prefs_indep) /\ uncompressed_only_if_independent (Some ex_prefs_indep) ex_ops_indep.
Proof. split; [unfold prefs_opt_ok, prefs_ok, ex_prefs_indep; cbn; lia|exact ex_unc_indep]. Qed.

(* one-shot *)
Example C03_ex_compressFrame :
  match compressFrame_usingCDict ex_blk cctx_zero ex_content None None with
  | (Out F, _) => frame_decode spec_decode false [] F = Some (ex_content, [])
  | _ => False
  end.
Proof. vm_compute. reflexivity. Qed.
