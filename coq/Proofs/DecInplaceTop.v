(* In-place decoding, entry point: LZ4_decompress_safe(buf + pos, buf, |B|, cap) in one memory
   (Model.DecInplace.decompress_safe_inplace) with a strictly valid non-expanding block B stored
   at the END of a buffer of n + (n / 256 + base) bytes, n = decoded size, 33 <= base
   (LZ4_DECOMPRESS_INPLACE_MARGIN(n) = (n >> 8) + 33 after the repair of finding F16). *)
From Coq Require Import ZArith List Lia Bool ZifyBool.
From LZ4V Require Import Gen.Consts Spec.BlockSpec Model.Mem Model.Dec Model.DecInplace.
From LZ4V Require Import Proofs.FastCap Proofs.InplaceMargin.
From LZ4V Require Import Proofs.DecSafe Proofs.DecRefineBase Proofs.DecRefineSafe Proofs.DecRefineTop.
From LZ4V Require Import Proofs.DecFootprint Proofs.DecInplaceStep Proofs.DecInplaceRun.
Import ListNotations.
Local Open Scope Z_scope.

(* return value = decoded size, every access inside the buffer, content = D *)
Definition inplace_decodes_to (res : Z * mem * bool) (D : list Z) : Prop :=
  let '(r, m, k) := res in
  r = Z.of_nat (length D) /\ k = true /\
  forall i, 0 <= i < Z.of_nat (length D) -> get m i = nth (Z.to_nat i) D 0.

(* position of the block: it ends where the buffer of n + margin bytes ends *)
Definition inplace_pos (base n srcSize : Z) : Z := n + (n / 256 + base) - srcSize.

Theorem inplace_decodes_base :
  forall (fastloop : bool) (base : Z) (B D : list Z) (m0 : mem) (cap : Z),
    33 <= base ->
    strict_valid [] B = Some D -> bytes B ->
    Z.of_nat (length B) <= Z.of_nat (length D) ->                 (* lz4.h: decompressedSize >= compressedSize presumed *)
    (forall a, 0 <= get m0 a < 256) ->
    src_at m0 (inplace_pos base (Z.of_nat (length D)) (Z.of_nat (length B))) B ->
    Z.of_nat (length D) <= cap ->
    inplace_decodes_to
      (decompress_safe_inplace fastloop (inplace_pos base (Z.of_nat (length D)) (Z.of_nat (length B)))
                               (Z.of_nat (length B)) cap m0) D.
Proof.
  intros fastloop base B D m0 cap Hbase Hv Hb Hne Hsrc Hs Hcap.
  unfold strict_valid in Hv.
  destruct (parse_block B) as [[ss last]|] eqn:Ep; [|discriminate].
  destruct (end_ok ss last) eqn:Eend; [|discriminate].
  pose proof (run_seqs_length _ _ _ _ Hv) as HlenD.
  unfold run_seqs in Hv. unfold byte in *. cbn [rev] in Hv.
  destruct (apply_seqs (@nil Z) ss) as [rout'|] eqn:Eapp; [|discriminate].
  injection Hv as HD.
  unfold parse_block in Ep.
  pose proof (parse_seqs_len _ _ _ _ Ep) as HlenB.
  set (n := Z.of_nat (length D)) in *.
  set (pos := inplace_pos base n (Z.of_nat (length B))) in *.
  assert (Hpos : pos = n + (n / 256 + base) - Z.of_nat (length B)) by reflexivity.
  assert (Hn256 : 0 <= n / 256) by (apply Z.div_pos; lia).
  clearbody pos.
  unfold decompress_safe_inplace. cbv zeta.
  assert (E1 : (cap <? 0) = false) by lia. rewrite E1.
  assert (E0 : (cap =? 0) = false) by lia. rewrite E0.
  assert (E2 : (Z.of_nat (length B) =? 0) = false) by lia. rewrite E2.
  destruct (a_run_valid m0 (pos + Z.of_nat (length B)) cap pos (n / 256 + base) n Hsrc ltac:(lia)
              _ _ _ _ Ep [] rout' (mkD pos 0 m0 true) (Z.to_nat (Z.of_nat (length B)) + 2)
              (fastloop && negb (cap <? FASTLOOP_SAFE_DISTANCE)) Eapp Eend Hb)
    as (s' & Hrun & Hout & Hok); cbn [ip op dm ok length]; try lia; try reflexivity.
  - exact Hs.
  - intros j Hj. cbn [length] in Hj. lia.
  - unfold FASTLOOP_SAFE_DISTANCE. intros Hf. destruct fastloop; cbn [andb] in Hf; [|discriminate].
    destruct (cap <? 64) eqn:E; [discriminate | lia].
  - apply same_above_refl.
  - cbn [ip op] in Hrun. rewrite Hrun. unfold inplace_decodes_to.
    split; [lia|]. split; [exact Hok|].
    intros i Hi. rewrite <- HD.
    rewrite <- (vget_hi 0 empty 0 (dm s') i) by lia.
    apply (content_of_image _ [] last rout' (0 + total_len ss last)).
    + exact Hout.
    + apply apply_seqs_length in Eapp. cbn [length] in Eapp. rewrite app_length, rev_length.
      rewrite total_len_last. unfold byte in *. cbn [length]. lia.
    + lia.
Qed.

(* with the margin of lz4.h *)
Theorem inplace_decodes :
  forall (fastloop : bool) (B D : list Z) (m0 : mem) (cap : Z),
    let n := Z.of_nat (length D) in
    let pos := n + inplace_margin n - Z.of_nat (length B) in
    strict_valid [] B = Some D -> bytes B -> Z.of_nat (length B) <= n ->
    (forall a, 0 <= get m0 a < 256) -> src_at m0 pos B -> n <= cap ->
    inplace_decodes_to (decompress_safe_inplace fastloop pos (Z.of_nat (length B)) cap m0) D.
Proof.
  intros fastloop B D m0 cap n pos Hv Hb Hne Hsrc Hs Hcap.
  apply (inplace_decodes_base fastloop INPLACE_MARGIN_BASE B D m0 cap); try assumption.
  unfold INPLACE_MARGIN_BASE. lia.
Qed.

(* ---- the F16 witness: 16 literals | offset 16, length 33 | 65 literals; 114 decoded bytes ---- *)
Definition f16_block : list Z :=
  [255; 1] ++ repeat 7 16 ++ [16; 0; 14] ++ [240; 50] ++ repeat 9 65.
Definition f16_buffer (base : Z) : mem :=
  mem_of_list 0 (repeat 170 (Z.to_nat (114 + base) - length f16_block) ++ f16_block).
Definition f16_run (fastloop : bool) (base cap : Z) :=
  let '(r, m, k) := decompress_safe_inplace fastloop (114 + base - Z.of_nat (length f16_block))
                                            (Z.of_nat (length f16_block)) cap (f16_buffer base) in
  (r, k, load_list m 0 114).

Lemma f16_valid : strict_valid [] f16_block = Some (repeat 7 16 ++ repeat 7 33 ++ repeat 9 65)
                  /\ Z.of_nat (length f16_block) = 88.
Proof. vm_compute. split; reflexivity. Qed.

(* inside its buffer of 114 + 33 bytes the block decodes, both loops, capacity n or the whole buffer *)
Lemma f16_inplace_ok :
  forall fastloop cap, cap = 114 \/ cap = 147 ->
    f16_run fastloop INPLACE_MARGIN_BASE cap = (114, true, repeat 7 16 ++ repeat 7 33 ++ repeat 9 65).
Proof. intros [|] cap [->| ->]; vm_compute; reflexivity. Qed.

(* with the former margin base 32 the same decode FAILS in the model (finding F16): the 32-byte
   stripe of the match copy overwrites the token of the last sequence *)
Lemma f16_margin32_fails :
  let '(r, k, img) := f16_run true 32 114 in r <> 114.
Proof. vm_compute. discriminate. Qed.

Lemma f16_margin32_refuted :
  strict_valid [] f16_block = Some (repeat 7 16 ++ repeat 7 33 ++ repeat 9 65)
  /\ Z.of_nat (length f16_block) = 88
  /\ (let '(r, k, img) := f16_run true 32 114 in r <> 114 /\ k = true)
  /\ (let '(r, k, img) := f16_run true 32 146 in r <> 114 /\ k = true).
Proof. vm_compute. repeat split; try reflexivity; discriminate. Qed.
