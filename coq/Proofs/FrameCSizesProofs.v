(* Proofs about the size model of the LZ4F streaming compressor (Model/FrameCSizes.v):
   the bound functions dominate what the buffering logic writes, for every
   preference set, history, source size and tape of block sizes. *)
From Coq Require Import ZArith List Lia Bool ZifyBool.
From LZ4V Require Import Gen.Consts Model.FrameCSizes.
Import ListNotations.
Local Open Scope Z_scope.

Ltac ifs_nia :=
  repeat match goal with |- context [if ?b then _ else _] => destruct b eqn:? end; nia.

(* ------------------------------------------------------------------ block sizes *)
Definition vbs (bs : Z) : Prop :=
  bs = LZ4F_blockSize_4 \/ bs = LZ4F_blockSize_5 \/ bs = LZ4F_blockSize_6 \/ bs = LZ4F_blockSize_7.

Lemma vbs_pos : forall bs, vbs bs -> 2 <= bs.
Proof. unfold vbs, LZ4F_blockSize_4, LZ4F_blockSize_5, LZ4F_blockSize_6, LZ4F_blockSize_7. lia. Qed.

Lemma valid_bsid0_cases : forall id, valid_bsid0 id = true -> id = 0 \/ id = 4 \/ id = 5 \/ id = 6 \/ id = 7.
Proof. unfold valid_bsid0, bsid_in_range, LZ4F_max64KB, LZ4F_max4MB. lia. Qed.

Lemma bsid_in_range_cases : forall id, bsid_in_range id = true -> id = 4 \/ id = 5 \/ id = 6 \/ id = 7.
Proof. unfold bsid_in_range, LZ4F_max64KB, LZ4F_max4MB. lia. Qed.

Lemma bsid_in_range_valid0 : forall id, bsid_in_range id = true -> valid_bsid0 id = true.
Proof. unfold valid_bsid0. intros id H. rewrite H. apply orb_true_r. Qed.

Lemma getBlockSize_vbs : forall id, valid_bsid0 id = true -> vbs (getBlockSize id).
Proof.
  intros id H. apply valid_bsid0_cases in H. unfold vbs.
  destruct H as [H|[H|[H|[H|H]]]]; subst id; vm_compute; auto.
Qed.

Lemma land_mask_mod : forall bs m, vbs bs -> 0 <= m -> Z.land m (bs - 1) = m mod bs.
Proof.
  intros bs m H Hm. destruct H as [H|[H|[H|H]]]; subst bs.
  - change (LZ4F_blockSize_4 - 1) with (Z.ones 16). rewrite Z.land_ones by lia. reflexivity.
  - change (LZ4F_blockSize_5 - 1) with (Z.ones 18). rewrite Z.land_ones by lia. reflexivity.
  - change (LZ4F_blockSize_6 - 1) with (Z.ones 20). rewrite Z.land_ones by lia. reflexivity.
  - change (LZ4F_blockSize_7 - 1) with (Z.ones 22). rewrite Z.land_ones by lia. reflexivity.
Qed.

Lemma SIZE_MAX_big : forall bs, vbs bs -> bs - 1 <= SIZE_MAX.
Proof.
  intros bs H. assert (E : SIZE_MAX = 18446744073709551615) by (vm_compute; reflexivity). rewrite E.
  unfold vbs, LZ4F_blockSize_4, LZ4F_blockSize_5, LZ4F_blockSize_6, LZ4F_blockSize_7 in H. lia.
Qed.

(* ------------------------------------------------------------------ the bound in div/mod form *)
(* bytes of block data, headers and block checksums accounted for by
   LZ4F_compressBound_internal (everything but the frame end) *)
Definition core (af c : bool) (bs n t : Z) : Z :=
  let m := n + t in
  let nf := m / bs in
  let last := if af || (n =? 0) then m mod bs else 0 in
  (BHSize + BFSize * bz c) * (nf + (if 0 <? last then 1 else 0)) + bs * nf + last.
Definition frameEnd (p : prefs) : Z := BHSize + bz (p_cchk p) * BFSize.

Lemma cbi_eq : forall n p ab,
  valid_bsid0 (p_bsid p) = true -> 0 <= n -> 0 <= ab ->
  compressBound_internal n (Some p) ab =
  core (p_af p) (p_bchk p) (getBlockSize (p_bsid p)) n (Z.min ab (getBlockSize (p_bsid p) - 1)) + frameEnd p.
Proof.
  intros n p ab Hv Hn Hab. unfold compressBound_internal, core, frameEnd.
  pose proof (getBlockSize_vbs _ Hv) as Hb. pose proof (vbs_pos _ Hb) as Hp.
  rewrite land_mask_mod by (auto; lia). reflexivity.
Qed.

Lemma core_nonneg : forall af c bs n t, 0 < bs -> 0 <= n -> 0 <= t -> 0 <= core af c bs n t.
Proof.
  intros af c bs n t Hb Hn Ht. unfold core, BHSize, BFSize.
  assert (0 <= (n + t) / bs) by (apply Z.div_pos; lia).
  assert (0 <= (n + t) mod bs < bs) by (apply Z.mod_pos_bound; lia).
  set (q := (n + t) / bs) in *. set (r := (n + t) mod bs) in *. clearbody q r.
  destruct c; cbn [bz]; ifs_nia.
Qed.

(* more buffered data never needs less room, when autoFlush is off *)
Lemma core_mono_t : forall c bs n t, 1 < bs -> 0 <= n -> 0 <= t <= bs - 1 ->
  core false c bs n t <= core false c bs n (bs - 1).
Proof.
  intros c bs n t Hb Hn Ht. unfold core, BHSize, BFSize. cbn [orb].
  destruct (n =? 0) eqn:E.
  - assert (n = 0) by lia. subst n. rewrite !Z.add_0_l. cbv beta iota.
    rewrite (Z.div_small t bs), (Z.mod_small t bs), (Z.div_small (bs - 1) bs), (Z.mod_small (bs - 1) bs) by lia.
    destruct c; cbn [bz]; destruct (0 <? t) eqn:?; destruct (0 <? bs - 1) eqn:?; lia.
  - assert (0 <= (n + t) / bs) by (apply Z.div_pos; lia).
    assert ((n + t) / bs <= (n + (bs - 1)) / bs) by (apply Z.div_le_mono; lia).
    set (q := (n + t) / bs) in *. set (q' := (n + (bs - 1)) / bs) in *. clearbody q q'.
    cbv beta iota. destruct c; cbn [bz Z.ltb]; nia.
Qed.

(* with autoFlush or an empty buffer the bound covers the source itself *)
Lemma core_ge_n_af : forall c bs n, 0 < bs -> 0 <= n -> n <= core true c bs n 0.
Proof.
  intros c bs n Hb Hn. unfold core, BHSize, BFSize. cbn [orb]. rewrite Z.add_0_r.
  assert (0 <= n / bs) by (apply Z.div_pos; lia).
  assert (0 <= n mod bs < bs) by (apply Z.mod_pos_bound; lia).
  pose proof (Z.div_mod n bs ltac:(lia)).
  set (q := n / bs) in *. set (r := n mod bs) in *. clearbody q r.
  destruct c; cbn [bz]; ifs_nia.
Qed.

Lemma core_ge_n_full : forall c bs n, 1 < bs -> 0 <= n -> n <= core false c bs n (bs - 1).
Proof.
  intros c bs n Hb Hn. unfold core, BHSize, BFSize. cbn [orb].
  assert (0 <= (n + (bs - 1)) / bs) by (apply Z.div_pos; lia).
  assert (0 <= (n + (bs - 1)) mod bs < bs) by (apply Z.mod_pos_bound; lia).
  pose proof (Z.div_mod (n + (bs - 1)) bs ltac:(lia)).
  set (q := (n + (bs - 1)) / bs) in *. set (r := (n + (bs - 1)) mod bs) in *. clearbody q r.
  destruct c; cbn [bz]; ifs_nia.
Qed.

(* ------------------------------------------------------------------ makeBlock *)
Lemma stored_size_bounds : forall unc len t, 1 <= len ->
  1 <= fst (stored_size unc len t) <= len.
Proof.
  intros unc len t H. unfold stored_size. destruct unc; cbn [fst]; [lia|].
  destruct t; cbn [fst]; lia.
Qed.

Definition bfull (c : bool) (len : Z) : Z := BHSize + len + bz c * BFSize.

Lemma makeBlock_spec : forall unc crc len w, 1 <= len ->
  w_pos w < w_pos (makeBlock unc crc len w) <= w_pos w + bfull crc len /\
  w_ext (makeBlock unc crc len w) = Z.max (w_ext w) (w_pos w + bfull crc len).
Proof.
  intros unc crc len w H. unfold makeBlock, bfull.
  pose proof (stored_size_bounds unc len (w_tape w) H) as Hs.
  destruct (stored_size unc len (w_tape w)) as [s t]. cbn [fst] in Hs. cbn [w_pos w_ext].
  unfold BHSize, BFSize. destruct crc; cbn [bz]; lia.
Qed.

Lemma makeBlock_unc_exact : forall crc len w,
  w_pos (makeBlock true crc len w) = w_pos w + bfull crc len.
Proof. intros. unfold makeBlock, stored_size, bfull. cbn [w_pos]. reflexivity. Qed.

(* ------------------------------------------------------------------ the loop over full blocks *)
Lemma full_blocks_spec : forall fuel unc crc bs rem w,
  1 <= bs -> 0 <= rem -> rem < (Z.of_nat fuel + 1) * bs -> w_pos w <= w_ext w ->
  exists k rem' w', full_blocks fuel unc crc bs rem w = Some (rem', w') /\
    0 <= k /\ rem = k * bs + rem' /\ 0 <= rem' < bs /\
    w_pos w <= w_pos w' /\ w_pos w' <= w_ext w' /\
    w_pos w' <= w_pos w + k * bfull crc bs /\
    w_ext w' <= Z.max (w_ext w) (w_pos w + k * bfull crc bs).
Proof.
  induction fuel as [|f IH]; intros unc crc bs rem w Hbs Hrem Hfuel Hw; cbn [full_blocks].
  - destruct (bs <=? rem) eqn:E; [lia|].
    exists 0, rem, w. repeat split; try lia.
  - destruct (bs <=? rem) eqn:E.
    + pose proof (makeBlock_spec unc crc bs w Hbs) as [Hp He].
      set (w1 := makeBlock unc crc bs w) in *. clearbody w1.
      destruct (IH unc crc bs (rem - bs) w1) as (k & rem' & w' & Hf & Hk & Hr & Hr' & Hp1 & Hp2 & Hp3 & He1); try lia.
      exists (k + 1), rem', w'. split; [exact Hf|].
      unfold bfull in *. unfold BHSize, BFSize in *.
      destruct crc; cbn [bz] in *; repeat split; try lia.
    + exists 0, rem, w. repeat split; try lia.
Qed.

(* ------------------------------------------------------------------ update body *)
Lemma update_body_spec : forall c unc n w,
  1 <= c_maxBlockSize c -> 0 <= c_tmpInSize c < c_maxBlockSize c -> 0 <= n -> w_pos w <= w_ext w ->
  exists c' w', update_body c unc n w = Some (c', w') /\
    w_pos w <= w_pos w' /\ w_pos w' <= w_ext w' /\
    w_ext w' <= Z.max (w_ext w)
                 (w_pos w + core (p_af (c_prefs c)) (p_bchk (c_prefs c)) (c_maxBlockSize c) n (c_tmpInSize c)) /\
    c_prefs c' = c_prefs c /\ c_stage c' = c_stage c /\ c_maxBlockSize c' = c_maxBlockSize c /\
    c_unc c' = c_unc c /\ c_totalIn c' = c_totalIn c + n /\
    0 <= c_tmpInSize c' < c_maxBlockSize c /\
    (p_af (c_prefs c) = true -> c_tmpInSize c = 0 -> c_tmpInSize c' = 0).
Proof.
  intros c unc n w Hbs Ht Hn Hw. unfold update_body.
  remember (c_maxBlockSize c) as bs eqn:Ebs. remember (c_tmpInSize c) as t eqn:Et.
  remember (p_bchk (c_prefs c)) as crc eqn:Ecrc. remember (p_af (c_prefs c)) as af eqn:Eaf.
  (* the three ways of entering the loop *)
  assert (Hcases :
    exists rem t1 w1 K0,
      (if 0 <? t then if n <? bs - t then (0, t + n, w) else (n - (bs - t), 0, makeBlock unc crc bs w)
       else (n, t, w)) = (rem, t1, w1) /\
      0 <= rem /\ 0 <= K0 <= 1 /\
      ((t1 = 0 /\ n + t = K0 * bs + rem) \/ (rem = 0 /\ K0 = 0 /\ t1 = t + n /\ 0 < t1 < bs /\ 0 < t)) /\
      w_pos w <= w_pos w1 /\ w_pos w1 <= w_ext w1 /\
      w_pos w1 <= w_pos w + K0 * bfull crc bs /\
      w_ext w1 <= Z.max (w_ext w) (w_pos w + K0 * bfull crc bs)).
  { destruct (0 <? t) eqn:E1.
    - destruct (n <? bs - t) eqn:E2.
      + exists 0, (t + n), w, 0. split; [reflexivity|]. repeat split; try lia.
      + pose proof (makeBlock_spec unc crc bs w Hbs) as [Hp He].
        exists (n - (bs - t)), 0, (makeBlock unc crc bs w), 1. split; [reflexivity|]. repeat split; try lia.
    - exists n, t, w, 0. split; [reflexivity|]. repeat split; try lia. }
  destruct Hcases as (rem & t1 & w1 & K0 & Heq & Hrem & HK0 & Hsplit & Hp1 & Hp1e & Hp1u & He1).
  rewrite Heq. clear Heq.
  assert (Hfuel : rem < (Z.of_nat (Z.to_nat (rem / bs)) + 1) * bs).
  { assert (0 <= rem / bs) by (apply Z.div_pos; lia). rewrite Z2Nat.id by lia.
    pose proof (Z.div_mod rem bs ltac:(lia)). pose proof (Z.mod_pos_bound rem bs ltac:(lia)).
    clear - H H0 H1 Hbs. nia. }
  destruct (full_blocks_spec (Z.to_nat (rem / bs)) unc crc bs rem w1 Hbs Hrem Hfuel Hp1e)
    as (k & rem2 & w2 & Hf & Hk & Hr & Hr2 & Hp2 & Hp2e & Hp2u & He2).
  rewrite Hf. clear Hf Hfuel.
  (* autoFlush tail *)
  assert (Htail :
    exists rem3 w3,
      (if af && (0 <? rem2) then (0, makeBlock unc crc rem2 w2) else (rem2, w2)) = (rem3, w3) /\
      ((af = true /\ 0 < rem2 /\ rem3 = 0 /\ w_ext w3 <= Z.max (w_ext w2) (w_pos w2 + bfull crc rem2)) \/
       ((af = false \/ rem2 = 0) /\ rem3 = rem2 /\ w3 = w2)) /\
      w_pos w2 <= w_pos w3 /\ w_pos w3 <= w_ext w3).
  { destruct af; cbn [andb].
    - destruct (0 <? rem2) eqn:E3.
      + pose proof (makeBlock_spec unc crc rem2 w2 ltac:(lia)) as [Hp He].
        exists 0, (makeBlock unc crc rem2 w2). split; [reflexivity|]. split; [left; repeat split; lia|lia].
      + exists rem2, w2. split; [reflexivity|]. split; [right; repeat split; auto; lia|lia].
    - exists rem2, w2. split; [reflexivity|]. split; [right; repeat split; auto|lia]. }
  destruct Htail as (rem3 & w3 & Heq & Htl & Hp3 & Hp3e).
  rewrite Heq. clear Heq.
  eexists _, w3. split; [reflexivity|]. cbn [c_prefs c_stage c_maxBlockSize c_unc c_totalIn c_tmpInSize].
  (* value of (n+t)/bs and (n+t) mod bs *)
  assert (Hk0 : rem = 0 -> k = 0 /\ rem2 = 0) by (clear - Hr Hr2 Hk Hbs; intros; nia).
  assert (Hdm : (n + t) / bs = K0 + k /\ (n + t) mod bs = (if Z.eq_dec t1 0 then rem2 else t1)).
  { destruct Hsplit as [[Ht1 Hnt]|(Hr0 & HK & Ht1 & Ht1b & Htp)].
    - destruct (Z.eq_dec t1 0); [|lia]. split.
      + symmetry. apply Z.div_unique_pos with rem2; lia.
      + symmetry. apply Z.mod_unique_pos with (K0 + k); lia.
    - destruct (Hk0 Hr0). subst k. destruct (Z.eq_dec t1 0); [lia|]. split.
      + rewrite Z.div_small; lia.
      + rewrite Z.mod_small; lia. }
  destruct Hdm as [Hd Hm].
  split; [lia|]. split; [lia|]. split.
  { (* extent *)
    unfold core. rewrite Hd, Hm. unfold bfull in *. unfold BHSize, BFSize in *.
    clear Ebs Et Ecrc Eaf Hd Hm.
    destruct Hsplit as [[Ht1 Hnt]|(Hr0 & HK & Ht1 & Ht1b & Htp)].
    + destruct (Z.eq_dec t1 0); [|lia].
      destruct Htl as [(Haf & Hr2p & Hr3 & He3)|(Hno & Hr3 & Hw3)].
      * rewrite Haf. cbn [orb]. destruct (0 <? rem2) eqn:?; [|lia].
        destruct crc; cbn [bz] in *; lia.
      * subst w3. destruct (af || (n =? 0)); [destruct (0 <? rem2) eqn:?|destruct (0 <? 0) eqn:?];
          destruct crc; cbn [bz] in *; lia.
    + destruct (Z.eq_dec t1 0); [lia|]. destruct (Hk0 Hr0). subst k K0 rem2.
      destruct Htl as [(Haf & Hr2p & _)|(Hno & Hr3 & Hw3)]; [lia|]. subst w3.
      destruct (af || (n =? 0)); [destruct (0 <? t1) eqn:?|destruct (0 <? 0) eqn:?];
        destruct crc; cbn [bz] in *; lia. }
  repeat split; try lia.
  - destruct (0 <? rem3) eqn:?; lia.
  - destruct (0 <? rem3) eqn:E; [lia|].
    destruct Hsplit as [[Ht1 _]|(_ & _ & Ht1 & Ht1b & _)]; lia.
  - intros Haf Ht0.
    destruct Htl as [(_ & _ & Hr3 & _)|([Hno|Hno] & Hr3 & _)].
    + subst rem3. destruct (0 <? 0) eqn:?; [lia|]. destruct Hsplit as [[Ht1 _]|(_ & _ & _ & _ & Htp)]; lia.
    + congruence.
    + subst rem3 rem2. destruct (0 <? 0) eqn:?; [lia|]. destruct Hsplit as [[Ht1 _]|(_ & _ & _ & _ & Htp)]; lia.
Qed.

(* ------------------------------------------------------------------ closed forms of the bounds *)
Lemma cbi_t : forall n p t,
  valid_bsid0 (p_bsid p) = true -> 0 <= n -> 0 <= t < getBlockSize (p_bsid p) ->
  compressBound_internal n (Some p) t = core (p_af p) (p_bchk p) (getBlockSize (p_bsid p)) n t + frameEnd p.
Proof. intros n p t Hv Hn Ht. rewrite cbi_eq by lia. rewrite Z.min_l by lia. reflexivity. Qed.

Lemma cb_eq : forall n p,
  valid_bsid0 (p_bsid p) = true -> 0 <= n ->
  compressBound n (Some p) =
  (if p_af p then core true (p_bchk p) (getBlockSize (p_bsid p)) n 0
   else core false (p_bchk p) (getBlockSize (p_bsid p)) n (getBlockSize (p_bsid p) - 1)) + frameEnd p.
Proof.
  intros n p Hv Hn. unfold compressBound.
  pose proof (getBlockSize_vbs _ Hv) as Hb. pose proof (vbs_pos _ Hb) as Hp. pose proof (SIZE_MAX_big _ Hb) as Hm.
  destruct (p_af p) eqn:Eaf.
  - rewrite cbi_eq by lia. rewrite Eaf. rewrite Z.min_l by lia. reflexivity.
  - rewrite cbi_eq by lia. rewrite Eaf. rewrite Z.min_r by lia. reflexivity.
Qed.

Lemma core_zero : forall af c bs t, 1 <= bs -> 0 <= t < bs ->
  core af c bs 0 t = (if 0 <? t then BHSize + BFSize * bz c else 0) + t.
Proof.
  intros af c bs t Hb Ht. unfold core. rewrite Z.add_0_l, Z.eqb_refl, orb_true_r.
  rewrite Z.div_small, Z.mod_small by lia. destruct (0 <? t); lia.
Qed.

Lemma core_af_small : forall c bs n, 1 <= bs -> 0 <= n <= bs ->
  core true c bs n 0 = if 0 <? n then BHSize + BFSize * bz c + n else 0.
Proof.
  intros c bs n Hb Hn. unfold core. cbn [orb]. rewrite Z.add_0_r.
  destruct (Z.eq_dec n bs) as [E|E].
  - subst n. rewrite Z.div_same, Z_mod_same_full by lia.
    destruct (0 <? 0) eqn:?; [lia|]. destruct (0 <? bs) eqn:?; lia.
  - rewrite Z.div_small, Z.mod_small by lia. destruct (0 <? n) eqn:?; lia.
Qed.

Lemma frameEnd_pos : forall p, 4 <= frameEnd p <= 8.
Proof. intros p. unfold frameEnd, BHSize, BFSize. destruct (p_cchk p); cbn [bz]; lia. Qed.

(* ------------------------------------------------------------------ invariant *)
Definition Inv (c : cctx) : Prop :=
  0 <= c_tmpInSize c /\
  valid_bsid0 (p_bsid (c_prefs c)) = true /\
  (0 < c_tmpInSize c -> c_stage c = 1) /\
  (c_stage c = 1 ->
     c_maxBlockSize c = getBlockSize (p_bsid (c_prefs c)) /\
     c_tmpInSize c < c_maxBlockSize c /\
     (p_af (c_prefs c) = true -> c_tmpInSize c = 0)).

Definition prefs_ok (po : option prefs) : Prop :=
  match po with None => True | Some p => valid_bsid0 (p_bsid p) = true end.
Definition op_wf (o : op) : Prop :=
  match o with
  | OpBegin po cap => prefs_ok po /\ 0 <= cap
  | OpUpdate n cap | OpUncompressed n cap => 0 <= n /\ 0 <= cap
  | OpFlush cap | OpEnd cap => 0 <= cap
  end.

Lemma Inv0 : Inv cctx0.
Proof. unfold Inv, cctx0. cbn. repeat split; try lia; intros; try lia; discriminate. Qed.

Lemma Inv_bs : forall c, Inv c -> c_stage c = 1 -> vbs (c_maxBlockSize c) /\ 2 <= c_maxBlockSize c.
Proof.
  intros c (H0 & Hv & Hp & Hs) Hst. destruct (Hs Hst) as (Hb & _).
  rewrite Hb. pose proof (getBlockSize_vbs _ Hv). split; auto. apply vbs_pos; auto.
Qed.

Lemma Inv_set_tmpIn0 : forall c, Inv c -> Inv (set_tmpIn c 0).
Proof.
  intros c (H0 & Hv & Hp & Hs). unfold Inv, set_tmpIn. cbn [c_tmpInSize c_prefs c_stage c_maxBlockSize].
  repeat split; try lia; auto.
Qed.

Lemma Inv_set_unc : forall c u, Inv c -> Inv (set_unc c u).
Proof. intros c u H. exact H. Qed.

(* ------------------------------------------------------------------ flush *)
Lemma flush_spec : forall c cap tape, Inv c -> 0 <= cap ->
  let t := c_tmpInSize c in
  (t = 0 /\ flush c cap (wr0 tape) = (Ok 0, c, wr0 tape)) \/
  (0 < t /\ cap < t + 8 /\ flush c cap (wr0 tape) = (Err E_tooSmall, c, wr0 tape)) \/
  (0 < t /\ t + 8 <= cap /\ exists w',
     flush c cap (wr0 tape) = (Ok (w_pos w'), set_tmpIn c 0, w') /\
     0 < w_pos w' /\ w_pos w' <= w_ext w' /\ w_ext w' = bfull (p_bchk (c_prefs c)) t).
Proof.
  intros c cap tape (H0 & Hv & Hp & Hs) Hcap t. unfold flush. fold t.
  destruct (t =? 0) eqn:E0; [left; split; [lia|reflexivity]|].
  right. assert (Ht : 0 < t) by (unfold t in *; lia). rewrite (Hp Ht). cbn [Z.eqb Pos.eqb negb].
  unfold BHSize, BFSize.
  destruct (cap <? t + 4 + 4) eqn:E1; [left; repeat split; try lia; reflexivity|].
  right. split; [lia|]. split; [lia|].
  pose proof (makeBlock_spec (c_unc c) (p_bchk (c_prefs c)) t (wr0 tape) ltac:(lia)) as [Hpo He].
  exists (makeBlock (c_unc c) (p_bchk (c_prefs c)) t (wr0 tape)).
  cbn [wr0 w_pos w_ext] in *. rewrite Z.sub_0_r. split; [reflexivity|].
  unfold bfull, BHSize, BFSize in *. destruct (p_bchk (c_prefs c)); cbn [bz] in *; lia.
Qed.

Lemma bfull_le : forall c t, bfull c t <= t + 8.
Proof. intros. unfold bfull, BHSize, BFSize. destruct c; cbn [bz]; lia. Qed.

(* ------------------------------------------------------------------ compressUpdate / uncompressedUpdate *)
Definition safe_out (x : out) (cap : Z) : Prop :=
  o_ret x <> OutOfModel /\ 0 <= o_ext x <= cap /\ (forall w, o_ret x = Ok w -> 0 <= w <= o_ext x).

Lemma update_spec : forall c unc n cap tape, Inv c -> 0 <= n -> 0 <= cap ->
  let '(x, c', t') := updateImpl true c unc n cap tape in
  Inv c' /\ safe_out x cap /\
  (c_stage c = 1 ->
   compressBound_internal n (Some (c_prefs c)) (c_tmpInSize c) <= cap ->
   (unc = true -> n <= cap) ->
   (c_unc c = unc \/ c_tmpInSize c = 0) ->
   exists w, o_ret x = Ok w /\
     o_ext x <= compressBound_internal n (Some (c_prefs c)) (c_tmpInSize c) - frameEnd (c_prefs c) /\
     c_stage c' = 1 /\ c_prefs c' = c_prefs c /\ c_totalIn c' = c_totalIn c + n /\ c_unc c' = unc /\
     (p_af (c_prefs c) = true -> c_tmpInSize c' = 0)).
Proof.
  intros c unc n cap tape Hinv Hn Hcap. unfold updateImpl.
  destruct (negb (c_stage c =? 1)) eqn:Es.
  { split; [exact Hinv|]. split; [unfold safe_out; cbn; repeat split; try lia; try discriminate|].
    intros; lia. }
  assert (Hst : c_stage c = 1) by lia.
  pose proof Hinv as (H0 & Hv & Hp & Hs). destruct (Hs Hst) as (Hbs & Hlt & Haf).
  destruct (Inv_bs c Hinv Hst) as (Hvbs & Hbs2).
  rewrite (cbi_t n (c_prefs c) (c_tmpInSize c)) by (auto; lia).
  rewrite (cbi_t n (c_prefs c) 0) by (auto; lia).
  rewrite <- Hbs.
  pose proof (frameEnd_pos (c_prefs c)) as Hfe.
  set (fe := frameEnd (c_prefs c)) in *.
  assert (Hc0 : 0 <= core (p_af (c_prefs c)) (p_bchk (c_prefs c)) (c_maxBlockSize c) n (c_tmpInSize c))
    by (apply core_nonneg; lia).
  assert (Hc00 : 0 <= core (p_af (c_prefs c)) (p_bchk (c_prefs c)) (c_maxBlockSize c) n 0)
    by (apply core_nonneg; lia).
  destruct (cap <? core (p_af (c_prefs c)) (p_bchk (c_prefs c)) (c_maxBlockSize c) n (c_tmpInSize c) + fe) eqn:E1.
  { split; [exact Hinv|]. split; [unfold safe_out; cbn; repeat split; try lia; try discriminate|].
    intros; lia. }
  destruct (unc && (cap <? n)) eqn:E2.
  { split; [exact Hinv|]. split; [unfold safe_out; cbn; repeat split; try lia; try discriminate|].
    intros _ _ Hu _. destruct unc; [|discriminate]. specialize (Hu eq_refl). cbn [andb] in E2. lia. }
  destruct (Bool.eqb (c_unc c) unc) eqn:Esw.
  - (* same mode *)
    apply eqb_prop in Esw.
    destruct (update_body_spec c unc n (wr0 tape)) as
      (c2 & w2 & Hb & Hp1 & Hp2 & He & Hpr & Hstg & Hmb & Hun & Htot & Htm & Haf2); try lia.
    { cbn. lia. }
    rewrite Hb. cbn [wr0 w_pos w_ext] in *. unfold out_of; cbn [o_ret o_ext].
    split.
    { unfold Inv. rewrite Hpr, Hstg, Hmb. repeat split; try lia; auto. }
    split.
    { unfold safe_out. cbn [o_ret o_ext]. repeat split; try discriminate; try lia;
        try (match goal with H : Ok _ = Ok _ |- _ => inversion H; lia end). }
    intros _ _ _ _. exists (w_pos w2). repeat split; auto; try lia; try congruence.
  - (* mode switch: flush first *)
    destruct (flush_spec c cap tape Hinv Hcap) as [(Ht0 & Hf)|[(Htp & Hsm & Hf)|(Htp & Hbig & wf & Hf & Hwp & Hwe & Hwx)]];
      rewrite Hf; cbv beta iota zeta.
    + (* nothing buffered *)
      rewrite Z.sub_0_r. rewrite Ht0 in E1. cbn [andb]. rewrite E1.
      assert (Hinv1 : Inv (set_unc c unc)) by exact Hinv.
      destruct (update_body_spec (set_unc c unc) unc n (wr0 tape)) as
        (c2 & w2 & Hb & Hp1 & Hp2 & He & Hpr & Hstg & Hmb & Hun & Htot & Htm & Haf2);
        cbn [set_unc c_maxBlockSize c_tmpInSize c_prefs c_stage c_totalIn c_unc] in *; try lia.
      { cbn. lia. }
      rewrite Hb. cbn [wr0 w_pos w_ext] in *. unfold out_of; cbn [o_ret o_ext].
      split.
      { unfold Inv. rewrite Hpr, Hstg, Hmb. repeat split; try lia; auto. }
      split.
      { unfold safe_out. cbn [o_ret o_ext]. rewrite Ht0 in He. repeat split; try discriminate; try lia;
        try (match goal with H : Ok _ = Ok _ |- _ => inversion H; lia end). }
      intros _ _ _ _. exists (w_pos w2). rewrite Ht0 in *. repeat split; auto; try lia; try congruence.
    + (* flush fails: dstMaxSize_tooSmall forwarded *)
      split; [exact Hinv|]. split; [unfold safe_out; cbn; repeat split; try lia; try discriminate|].
      intros _ _ _ [Hc|Hc]; [|lia]. rewrite Hc in Esw. rewrite eqb_reflx in Esw. discriminate.
    + (* flush succeeds, re-check of the remaining capacity *)
      pose proof (bfull_le (p_bchk (c_prefs c)) (c_tmpInSize c)) as Hbl.
      cbn [andb].
      destruct (cap - w_pos wf <? core (p_af (c_prefs c)) (p_bchk (c_prefs c)) (c_maxBlockSize c) n 0 + fe) eqn:E3.
      * split; [apply Inv_set_unc, Inv_set_tmpIn0; exact Hinv|].
        split; [unfold safe_out, out_of; cbn [o_ret o_ext]; repeat split; try lia; try discriminate|].
        intros _ _ _ [Hc|Hc]; [|lia]. rewrite Hc in Esw. rewrite eqb_reflx in Esw. discriminate.
      * assert (Hinv1 : Inv (set_unc (set_tmpIn c 0) unc)) by (apply Inv_set_unc, Inv_set_tmpIn0; exact Hinv).
        destruct (update_body_spec (set_unc (set_tmpIn c 0) unc) unc n wf) as
          (c2 & w2 & Hb & Hp1 & Hp2 & He & Hpr & Hstg & Hmb & Hun & Htot & Htm & Haf2);
          cbn [set_unc set_tmpIn c_maxBlockSize c_tmpInSize c_prefs c_stage c_totalIn c_unc] in *; try lia.
        rewrite Hb. unfold out_of; cbn [o_ret o_ext].
        split.
        { unfold Inv. rewrite Hpr, Hstg, Hmb. repeat split; try lia; auto. }
        split.
        { unfold safe_out. cbn [o_ret o_ext]. repeat split; try discriminate; try lia;
        try (match goal with H : Ok _ = Ok _ |- _ => inversion H; lia end). }
        intros _ _ _ [Hc|Hc]; [|lia]. rewrite Hc in Esw. rewrite eqb_reflx in Esw. discriminate.
Qed.

