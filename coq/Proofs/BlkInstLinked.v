(* Discharge of the block-compressor contract of the frame theorems (Proofs.FrameCTheorems.blk_contract, FrameRoundTrip.blk_bytes)
   for LINKED blocks and dictionaries, from the streaming models:
     Model.FastStream    LZ4_compress_fast_continue      (LZ4F_compressBlock_continue, level < LZ4HC_CLEVEL_MIN = 2; CDict: LZ4_attach_dictionary)
     Model.HcMidStream   LZ4_compress_HC_continue        (LZ4F_compressBlockHC_continue at level 2; lz4mid)
     Model.HcOptStream   LZ4_compress_HC_continue        (levels 3..12: hash chain and optimal parser)
   Model.FrameC's block compressor is a function [blk n h x] of the call counter, the history FrameC offers (dictionary content
   or what was compressed so far, last 64 KB) and the block.  An instance is built from a per-call ORACLE of stream calls
   (nat -> memory, stream state, source address, size, capacity, and the decoder-side history H of the C11 theorems):
   [blk_of orc n h x] runs call n of the oracle and returns its output when
     - the block x is what lies at the oracle's source address,
     - the oracle's H is a tail of the history h that FrameC offers (so the decoder of the frame has at least H),
     - the call succeeded (ret > 0; a failure makes LZ4F_makeBlock store the block raw), and the output is a byte string
       (a run-time guard: the stream-level soundness statements do not expose "the parser emits bytes").
   Under the per-call premise of the C11 theorems (stream invariant + [hist_inv]/[hhist_inv] of the state after its prelude
   w.r.t. H) the contract holds.  What remains assumed is therefore exactly that premise: lz4frame.c's address choreography
   (tmpIn inside tmpBuff, LZ4F_localSaveDict = LZ4_saveDict(HC) into tmpBuff, stableSrc), which FrameC abstracts to
   "the last 64 KB". *)
From Coq Require Import ZArith List Lia Bool.
From LZ4V Require Import Gen.Consts Spec.BlockSpec Model.Mem Model.Fast Model.FastApi Model.FastStream Model.HcEmit Model.HcMid Model.HcMidStream.
From LZ4V Require Import Model.HcChain Model.HcChainApi Model.HcOpt Model.HcOptApi Model.HcChainStream Model.HcTabStream Model.HcOptStream.
From LZ4V Require Import Proofs.BlockHistExt Proofs.FastStreamMem Proofs.FastStreamProofs Proofs.FastStreamHist.
From LZ4V Require Import Proofs.HcMidStreamProofs Proofs.HcMidStreamHist Proofs.HcChainStreamProofs Proofs.HcTabStreamProofs Proofs.HcOptStreamProofs.
From LZ4V Require Import Proofs.FrameCTheorems Proofs.FrameRoundTrip.
Import ListNotations.
Local Open Scope Z_scope.

(* ================================================================ generic part *)
(* one call of a streaming compressor: (return value, output), the source bytes, the decoder-side history *)
Record lcall := mkLC { lc_res : option (Z * list Z); lc_src : list Z; lc_H : list Z }.

Definition blk_of (orc : nat -> lcall) (n : nat) (h x : list byte) : option (list byte) :=
  let o := orc n in
  if list_eq_dec Z.eq_dec x (lc_src o) then
    if list_eq_dec Z.eq_dec h (firstn (length h - length (lc_H o)) h ++ lc_H o) then
      match lc_res o with
      | Some (ret, out) => if (0 <? ret) && bytes_ok out then Some out else None
      | None => None
      end
    else None
  else None.

(* what a stream model must deliver for one call *)
Definition lcall_ok (o : lcall) : Prop :=
  forall ret out, lc_res o = Some (ret, out) -> 0 < ret -> strict_valid (lc_H o) out = Some (lc_src o).

Theorem blk_of_contract orc : (forall n, lcall_ok (orc n)) ->
  blk_contract strict_valid (blk_of orc) /\ blk_contract spec_decode (blk_of orc) /\ blk_bytes (blk_of orc).
Proof.
  intros Hok.
  assert (A : forall n h x c, blk_of orc n h x = Some c ->
            strict_valid h c = Some x /\ bytes_ok c = true).
  { intros n h x c. unfold blk_of. cbv zeta.
    destruct (list_eq_dec Z.eq_dec x (lc_src (orc n))) as [->|]; [|discriminate].
    destruct (list_eq_dec Z.eq_dec h (firstn (length h - length (lc_H (orc n))) h ++ lc_H (orc n))) as [Eh|]; [|discriminate].
    destruct (lc_res (orc n)) as [[ret out]|] eqn:Er; [|discriminate].
    destruct ((0 <? ret) && bytes_ok out) eqn:Eg; [|discriminate].
    apply andb_prop in Eg. destruct Eg as (Eg1 & Eg2). intros Hc. injection Hc as <-.
    split; [|exact Eg2]. rewrite Eh. apply strict_valid_ext. apply (Hok n ret out Er). lia. }
  split; [|split].
  - intros n h x c Hc. apply (A n h x c Hc).
  - apply strict_contract_spec. intros n h x c Hc. apply (A n h x c Hc).
  - intros n h x c Hc. apply (A n h x c Hc).
Qed.

Lemma win_all (H out x : list Z) :
  (forall K : nat, 65535 <= Z.of_nat K -> strict_valid (lastn K H) out = Some x) -> strict_valid H out = Some x.
Proof.
  intros W. specialize (W (Z.to_nat (Z.max 65535 (Z.of_nat (length H)))) ltac:(lia)). rewrite lastn_all in W by lia. exact W.
Qed.

(* ================================================================ Model.FastStream: LZ4_compress_fast_continue *)
Record fcall := mkFC { fc_m : mem; fc_c : sctx; fc_src : Z; fc_n : Z; fc_cap : Z; fc_acc : Z; fc_H : list Z }.
Definition lcall_fast (o : fcall) : lcall :=
  let r := fast_continue (fc_m o) (fc_c o) (fc_src o) (fc_n o) (fc_cap o) (fc_acc o) in
  mkLC (Some (r_ret r, r_out r)) (load_list (fc_m o) (fc_src o) (Z.to_nat (fc_n o))) (fc_H o).
(* the premise of C11_continue_decodes *)
Definition fcall_ok (o : fcall) : Prop :=
  mem_ok (fc_m o) /\ table_inv (fc_c o) /\ tt_inv (fc_c o) /\ stream_ready (fc_c o) /\ 0 <= fc_n o <= LZ4_MAX_INPUT_SIZE /\ 0 < fc_src o /\
  list_ok (fc_H o) /\ hist_inv (fc_m o) (fst (prelude (fc_c o) (fc_src o) (fc_n o))) (fc_H o).

Lemma lcall_fast_ok o : fcall_ok o -> lcall_ok (lcall_fast o).
Proof.
  intros (H1 & H2 & H3 & H4 & H5 & H6 & H7 & H8) ret out Er Hr. unfold lcall_fast in *. cbn [lc_res lc_src lc_H] in *.
  injection Er as <- <-.
  pose proof (continue_decodes (fc_m o) (fc_c o) (fc_src o) (fc_n o) (fc_cap o) (fc_acc o) (fc_H o) H1 H2 H3 H4 H5 H6 H7 H8) as D.
  cbv zeta in D. destruct (D Hr) as (_ & D2 & _).
  specialize (D2 (Z.max 65535 (Z.of_nat (length (fc_H o)))) ltac:(lia)). rewrite lastn_all in D2 by lia. exact D2.
Qed.

Definition blk_fast (orc : nat -> fcall) := blk_of (fun n => lcall_fast (orc n)).
Theorem blk_fast_contract orc : (forall n, fcall_ok (orc n)) ->
  blk_contract strict_valid (blk_fast orc) /\ blk_contract spec_decode (blk_fast orc) /\ blk_bytes (blk_fast orc).
Proof. intros H. apply blk_of_contract. intros n. apply lcall_fast_ok. apply H. Qed.

(* ================================================================ Model.HcMidStream: LZ4_compress_HC_continue at the lz4mid levels *)
Record hcall := mkHC { hc_m : mem; hc_c : hsctx; hc_src : Z; hc_n : Z; hc_cap : Z; hc_H : list Z }.
Definition lcall_mid (o : hcall) : lcall :=
  mkLC (match hstep (hc_m o, hc_c o) (HContinue (hc_src o) (hc_n o) (hc_cap o)) with
        | Some (_, (ret, out, _)) => Some (ret, out) | None => None end)
       (load_list (hc_m o) (hc_src o) (Z.to_nat (hc_n o))) (hc_H o).
(* the premise of C11_hc_mid_stream for one call *)
Definition hcall_ok (o : hcall) : Prop :=
  hstate_inv (hc_m o, hc_c o) /\ hop_pre (hc_m o, hc_c o) (HContinue (hc_src o) (hc_n o) (hc_cap o)) /\
  (forall ke dc, hs_effective (hc_m o) (hc_c o) (hc_src o) (hc_n o) = Some (ke, dc) -> hhist_invd (hc_m o) ke dc (hc_H o)).

Lemma lcall_mid_ok o : hcall_ok o -> lcall_ok (lcall_mid o).
Proof.
  intros (H1 & H2 & H3) ret out Er Hr. unfold lcall_mid in *. cbn [lc_res lc_src lc_H] in *.
  pose proof (hstream_roundtrip [HContinue (hc_src o) (hc_n o) (hc_cap o)] (hc_m o, hc_c o) (hc_H o) H1) as R.
  cbn [hstream_pre hstream_claim fst snd] in R.
  destruct (hstep (hc_m o, hc_c o) (HContinue (hc_src o) (hc_n o) (hc_cap o))) as [[st' [[ret' out'] consumed']]|] eqn:E; [|discriminate].
  injection Er as <- <-.
  destruct (R (conj H2 (conj H3 I))) as ((_ & C2) & _). destruct (C2 Hr) as (_ & _ & _ & W). apply win_all. exact W.
Qed.

Definition blk_mid (orc : nat -> hcall) := blk_of (fun n => lcall_mid (orc n)).
Theorem blk_mid_contract orc : (forall n, hcall_ok (orc n)) ->
  blk_contract strict_valid (blk_mid orc) /\ blk_contract spec_decode (blk_mid orc) /\ blk_bytes (blk_mid orc).
Proof. intros H. apply blk_of_contract. intros n. apply lcall_mid_ok. apply H. Qed.

(* ================================================================ Model.HcOptStream: LZ4_compress_HC_continue at levels 3..12 *)
Record ocall := mkOC { oc_m : mem; oc_c : tctx; oc_src : Z; oc_n : Z; oc_cap : Z; oc_H : list Z }.
Definition lcall_opt (o : ocall) : lcall :=
  mkLC (match ostep (oc_m o, oc_c o) (TContinue (oc_src o) (oc_n o) (oc_cap o)) with
        | Some (_, (ret, out, _)) => Some (ret, out) | None => None end)
       (load_list (oc_m o) (oc_src o) (Z.to_nat (oc_n o))) (oc_H o).
(* the premise of C11_hc_opt_stream for one call *)
Definition ocall_ok (o : ocall) : Prop :=
  tstate_inv (oc_m o, oc_c o) /\ top_pre (oc_m o, oc_c o) (TContinue (oc_src o) (oc_n o) (oc_cap o)) /\
  (forall ke cte, ts_effective lvl_all (oc_m o) (oc_c o) (oc_src o) (oc_n o) = Some (ke, cte) -> hhist_inv (oc_m o) ke (oc_H o)).

Lemma lcall_opt_ok o : ocall_ok o -> lcall_ok (lcall_opt o).
Proof.
  intros (H1 & H2 & H3) ret out Er Hr. unfold lcall_opt in *. cbn [lc_res lc_src lc_H] in *.
  pose proof (os_stream_roundtrip [TContinue (oc_src o) (oc_n o) (oc_cap o)] (oc_m o, oc_c o) (oc_H o) H1) as R.
  cbn [tstream_pre tstream_claim fst snd] in R. unfold ostep in *.
  destruct (tstep blk_all lvl_all (oc_m o, oc_c o) (TContinue (oc_src o) (oc_n o) (oc_cap o))) as [[st' [[ret' out'] consumed']]|] eqn:E; [|discriminate].
  injection Er as <- <-.
  destruct (R (conj H2 (conj H3 I))) as ((_ & C2) & _). destruct (C2 Hr) as (_ & _ & _ & W). apply win_all. exact W.
Qed.

Definition blk_opt (orc : nat -> ocall) := blk_of (fun n => lcall_opt (orc n)).
Theorem blk_opt_contract orc : (forall n, ocall_ok (orc n)) ->
  blk_contract strict_valid (blk_opt orc) /\ blk_contract spec_decode (blk_opt orc) /\ blk_bytes (blk_opt orc).
Proof. intros H. apply blk_of_contract. intros n. apply lcall_opt_ok. apply H. Qed.
