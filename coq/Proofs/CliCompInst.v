(* C04: the library contracts of the CLI round trip, discharged.
   The LZ4F operations that programs/lz4io.c calls (compressBegin, compressUpdate, compressEnd,
   compressFrame_usingCDict) are instantiated with the byte model of lz4frame.c (Model/FrameC.v,
   C03/C07); the contracts that Proofs/CliProofs.v assumes of them are proved from FrameC's
   invariant (blocks of every update form a [chain] that the frame specification steps over),
   in the form in which they are true (see update_contract_refuted / end_contract_refuted), and
   the pipeline theorems are re-derived from those.  What remains assumed: the contracts of the
   BLOCK compressors (blk_contract; for the legacy format block_contract itself), C01's subject. *)
From Coq Require Import ZArith List Lia Bool Permutation.
From LZ4V Require Import Spec.BlockSpec Spec.XXH32 Spec.FrameSpec Gen.Consts.
From LZ4V Require Import Model.FrameC Proofs.BlockHistExt Proofs.FrameCBytes Proofs.FrameCBlocks Proofs.FrameCProofs Proofs.FrameCTheorems.
From LZ4V Require Proofs.FrameDSound Proofs.FrameDChunk Proofs.FileCompInst.
From LZ4V Require Model.WriteReg Proofs.WriteRegProofs.
From LZ4V Require Import Model.Sparse Model.CliOpts Model.CompressPipe Proofs.SparseProofs Proofs.CliProofs.
Import ListNotations.
Local Open Scope Z_scope.


(* ================================================================== a chain of blocks is stepped over by the specification *)
Section ChainExtends.
  Variable bdec : list byte -> list byte -> option (list byte).
  Variable skipcrc : bool.

  Lemma blocks_block_step : forall f d maxb dict acc b rest,
    maxb < 2147483648 ->
    block_ok bdec (hist_spec (f_indep d) dict acc) maxb b ->
    blocks bdec skipcrc (S f) d maxb dict acc (enc_block (f_bcrc d) b ++ rest)
    = blocks bdec skipcrc f d maxb dict (acc ++ b_content b) rest.
  Proof.
    intros f d maxb dict acc b rest Hm Hb.
    destruct (header_word bdec b maxb _ Hm Hb) as [Hw [Hz [Hr Hn]]].
    destruct Hb as [Hs [Hc Hk]].
    unfold enc_block. rewrite <- !app_assoc.
    cbn [blocks]. rewrite take_le_bytes. cbv zeta.
    rewrite le_val_le_bytes_4 by exact Hw.
    rewrite Hz, Hr, Hn.
    replace (maxb <? len (b_stored b)) with false by lia.
    unfold len at 1. rewrite Nat2Z.id. rewrite LZ4V.Proofs.FrameDSound.take_app.
    fold (hist_spec (f_indep d) dict acc).
    assert (Hafter :
      match (if b_raw b then Some (b_stored b) else bdec (hist_spec (f_indep d) dict acc) (b_stored b)) with
      | Some c => if maxb <? Z.of_nat (length c) then None else blocks bdec skipcrc f d maxb dict (acc ++ c) rest
      | None => None
      end = blocks bdec skipcrc f d maxb dict (acc ++ b_content b) rest).
    { destruct (b_raw b).
      - rewrite Hk. unfold len in Hc. replace (maxb <? Z.of_nat (length (b_content b))) with false by lia. reflexivity.
      - destruct Hk as [Hk1 Hk2]. rewrite Hk1. unfold len in Hc.
        replace (maxb <? Z.of_nat (length (b_content b))) with false by lia. reflexivity. }
    destruct (f_bcrc d).
    - rewrite take_le_bytes, le_val_crc, Z.eqb_refl, orb_true_r. exact Hafter.
    - cbn [app]. exact Hafter.
  Qed.

  Lemma chain_extends : forall bl d maxb dict acc,
    maxb < 2147483648 -> chain bdec (f_indep d) dict maxb acc bl ->
    extends bdec skipcrc d maxb dict acc (enc_blocks (f_bcrc d) bl) (contents bl).
  Proof.
    induction bl as [|b bl IH]; intros d maxb dict acc Hm Hc.
    - exists 0%nat. split; [cbn; lia|]. intros fuel rest. unfold contents. cbn. rewrite app_nil_r. reflexivity.
    - destruct Hc as [Hb Hc]. destruct (IH d maxb dict (acc ++ b_content b) Hm Hc) as [n [Ln E]].
      exists (S n). split.
      + unfold enc_blocks in *. cbn [map concat]. rewrite app_length. pose proof (enc_block_length (f_bcrc d) b). unfold byte in *. lia.
      + intros fuel rest. unfold enc_blocks. cbn [map concat Nat.add]. rewrite <- app_assoc.
        rewrite blocks_block_step by assumption. fold (enc_blocks (f_bcrc d) bl). rewrite E.
        unfold contents. cbn [map concat]. rewrite app_assoc. reflexivity.
  Qed.

  (* the chain only depends on the history window *)
  Lemma chain_rebase : forall bl indep d dict maxb a a',
    (forall x, hist_spec indep d (a ++ x) = hist_spec indep dict (a' ++ x)) ->
    chain bdec indep d maxb a bl -> chain bdec indep dict maxb a' bl.
  Proof.
    induction bl as [|b bl IH]; intros indep d dict maxb a a' Hw Hc; [exact I|].
    destruct Hc as [Hb Hc]. split.
    - pose proof (Hw []) as H0. rewrite !app_nil_r in H0. rewrite <- H0. exact Hb.
    - apply (IH indep d dict maxb (a ++ b_content b)); [|exact Hc].
      intro x. rewrite <- !app_assoc. apply Hw.
  Qed.
End ChainExtends.

(* ================================================================== the instance *)
(* the LZ4F_preferences_t that lz4io.c fills (enum / flag fields normalised to their C values) *)
Definition cvf (p : lz4f_prefs) : FrameC.prefs :=
  FrameC.mkPrefs (fp_blockSizeID p) (if linked p then 0 else 1) (if fp_contentChecksum p =? 0 then 0 else 1)
             (fp_contentSize p) 0 (if fp_blockChecksum p =? 0 then 0 else 1) (fp_level p) (fp_autoFlush p)
             (fp_favorDecSpeed p).
(* -D : a CDict made of the dictionary; no -D : NULL *)
Definition dk_of (d : list Z) : dictkind := match d with [] => NoDict | _ => UsingCDict d end.
Definition outb (r : res) : list Z := match r with Out o => o | _ => [] end.

Lemma dict_of_dk d : dict_of (dk_of d) = d.
Proof. destruct d; reflexivity. Qed.

Lemma cvf_ok p : 4 <= fp_blockSizeID p <= 7 -> 0 <= fp_contentSize p < U64_MAX1 ->
  prefs_norm (cvf p) /\ eff_prefs (Some (cvf p)) = cvf p /\ FrameCBytes.desc_of (cvf p) = CliProofs.desc_of p.
Proof.
  intros Hb Hc. unfold U64_MAX1 in Hc. split; [|split].
  - unfold prefs_norm, prefs_ok, cvf. cbn.
    repeat split; try lia; try (destruct (linked p); auto); try (destruct (_ =? 0); auto).
  - unfold eff_prefs, cvf. cbn. replace (fp_blockSizeID p =? 0) with false by (symmetry; apply Z.eqb_neq; lia). reflexivity.
  - unfold FrameCBytes.desc_of, CliProofs.desc_of, cvf. cbn.
    destruct (linked p), (fp_blockChecksum p =? 0), (fp_contentChecksum p =? 0); reflexivity.
Qed.

Section Instance.
  Variable blk : nat -> list byte -> list byte -> option (list byte).
  Hypothesis Hblk : blk_contract strict_valid blk.
  Notation InvC := (Inv strict_valid).

  Definition c4_begin (p : lz4f_prefs) (d : list Z) : res * cctx := compressBegin cctx_zero (Some (cvf p)) (dk_of d).
  Definition c4_header (p : lz4f_prefs) : list Z := outb (fst (c4_begin p [])).
  Definition c4_ctx (p : lz4f_prefs) (d : list Z) (prev : list (list Z)) : cctx :=
    fold_left (fun c x => snd (compressUpdate blk c x)) prev (snd (c4_begin p d)).
  Definition c4_update (p : lz4f_prefs) (d : list Z) (prev : list (list Z)) (c : list Z) : list Z :=
    outb (fst (compressUpdate blk (c4_ctx p d prev) c)).
  Definition c4_end (p : lz4f_prefs) (content : list Z) : list Z :=
    outb (fst (compressEnd blk (c4_ctx p [] [content]))).
  Definition c4_frame (p : lz4f_prefs) (dict content : list Z) : list Z :=
    outb (fst (compressFrame_usingCDict blk cctx_zero content
                 (match dict with [] => None | _ => Some (createCDict dict) end) (Some (cvf p)))).

  (* ---- LZ4F_compressBegin ---- *)
  Lemma c4_begin_spec p d : 4 <= fp_blockSizeID p <= 7 -> 0 <= fp_contentSize p < U64_MAX1 ->
    exists c1 maxb,
      c4_begin p d = (Out (header_bytes (CliProofs.desc_of p)), c1) /\ bsid_size (fp_blockSizeID p) = Some maxb /\
      InvC (dk_of d) (cvf p) maxb [] c1 [] /\ c_tmp c1 = [] /\ c_mode c1 = FC_LZ4B_COMPRESSED.
  Proof.
    intros Hb Hc. destruct (cvf_ok p Hb Hc) as (Hn & He & Hd).
    assert (Hpo : prefs_opt_ok (Some (cvf p))) by exact (proj1 Hn).
    assert (HO : exists hdr c1, c4_begin p d = (Out hdr, c1) /\ c_mode c1 = FC_LZ4B_COMPRESSED).
    { unfold c4_begin, compressBegin, compressBegin_internal. cbn [cvf p_bsid].
      replace (fp_blockSizeID p =? 0) with false by (symmetry; apply Z.eqb_neq; lia).
      assert (HE : isError (getBlockSize (fp_blockSizeID p)) = false).
      { assert (Hcs : fp_blockSizeID p = 4 \/ fp_blockSizeID p = 5 \/ fp_blockSizeID p = 6 \/ fp_blockSizeID p = 7) by lia.
        destruct Hcs as [->|[->|[->| ->]]]; reflexivity. }
      unfold dk_of; destruct d; change (p_bsid (cvf p)) with (fp_blockSizeID p); rewrite HE; eexists _, _; (split; [reflexivity|reflexivity]). }
    destruct HO as (hdr & c1 & HB & Hm).
    destruct (begin_inv strict_valid cctx_zero (Some (cvf p)) (dk_of d) hdr c1 Hpo HB) as (p' & maxb & Hp' & _ & Hmaxb & Hhdr & HI).
    rewrite He in Hp'. subst p'. rewrite Hd in Hhdr. subst hdr.
    exists c1, maxb. split; [exact HB|]. split; [exact Hmaxb|]. split; [exact HI|]. split; [|exact Hm].
    destruct HI as [_ HX _ _ _ _]. cbn in HX. symmetry. exact HX.
  Qed.

  (* ---- the session after any list of LZ4F_compressUpdate calls ---- *)
  Lemma c4_fold dk p' maxb : prefs_norm p' -> 0 < maxb < 2147483648 ->
    forall prev X c bl, InvC dk p' maxb X c bl -> FileCompInst.afJ c -> c_mode c = FC_LZ4B_COMPRESSED ->
    exists bl', InvC dk p' maxb (X ++ concat prev) (fold_left (fun c x => snd (compressUpdate blk c x)) prev c) bl' /\
                FileCompInst.afJ (fold_left (fun c x => snd (compressUpdate blk c x)) prev c) /\
                c_mode (fold_left (fun c x => snd (compressUpdate blk c x)) prev c) = FC_LZ4B_COMPRESSED.
  Proof.
    intros Hn Hmax. induction prev as [|x r IH]; intros X c bl HI HJ Hm.
    - exists bl. cbn. rewrite app_nil_r. auto.
    - cbn [fold_left concat].
      destruct (FileCompInst.update_out blk Hblk dk p' maxb X c bl x FC_LZ4B_COMPRESSED Hn Hmax HI) as (o & c' & Hu).
      fold (compressUpdate blk c x) in Hu. rewrite Hu. cbn [snd].
      destruct (update_inv blk strict_valid Hblk strict_valid_ext dk p' maxb X c bl x FC_LZ4B_COMPRESSED o c' Hn Hmax HI ltac:(intros _; reflexivity) Hu)
        as (bl' & _ & HI').
      destruct (FileCompInst.update_afJ blk c x o c' Hm HJ Hu) as [HJ' Hm'].
      destruct (IH (X ++ x) c' (bl ++ bl') HI' HJ' Hm') as (bl2 & A & B & C).
      exists bl2. rewrite <- app_assoc in A. auto.
  Qed.

  Lemma c4_ctx_spec p d prev : 4 <= fp_blockSizeID p <= 7 -> 0 <= fp_contentSize p < U64_MAX1 ->
    exists maxb bl, bsid_size (fp_blockSizeID p) = Some maxb /\
      InvC (dk_of d) (cvf p) maxb (concat prev) (c4_ctx p d prev) bl /\ FileCompInst.afJ (c4_ctx p d prev) /\
      c_mode (c4_ctx p d prev) = FC_LZ4B_COMPRESSED.
  Proof.
    intros Hb Hc. destruct (c4_begin_spec p d Hb Hc) as (c1 & maxb & HB & Hmaxb & HI & Ht & Hm).
    destruct (cvf_ok p Hb Hc) as (Hn & _).
    pose proof (bsid_size_range _ _ Hmaxb) as Hmax.
    destruct (c4_fold (dk_of d) (cvf p) maxb Hn Hmax prev [] c1 [] HI ltac:(intros _; exact Ht) Hm) as (bl & A & B & C).
    unfold c4_ctx. rewrite HB. cbn [snd]. exists maxb, bl. auto.
  Qed.

  (* ---- header_contract holds as stated ---- *)
  Theorem c4_header_contract : header_contract c4_header.
  Proof.
    intros p Hb Hc. destruct (c4_begin_spec p [] Hb Hc) as (c1 & maxb & HB & Hmaxb & _).
    destruct (cvf_ok p Hb Hc) as (Hn & _ & Hd).
    exists maxb. unfold c4_header. rewrite HB. cbn [fst outb]. split; [cbn [CliProofs.desc_of f_bsid]; exact Hmaxb|].
    intro rest. unfold header_bytes. rewrite <- !app_assoc.
    exists (le_bytes 4 MAGIC), (descriptor_bytes (CliProofs.desc_of p) ++ [header_checksum (descriptor_bytes (CliProofs.desc_of p))] ++ rest).
    split; [apply take_le_bytes|]. split; [apply le_val_le_bytes_4; unfold MAGIC; lia|].
    apply parse_desc_header. rewrite <- Hd. apply desc_of_wf. exact Hn.
  Qed.

  (* ---- update_contract, in the form that is true: autoFlush set (lz4io.c always sets it), a
     content size that fits its field ---- *)
  Definition update_contract_af bdec skipcrc (LZ4F_update : lz4f_prefs -> list Z -> list (list Z) -> list Z -> list Z) : Prop :=
    forall p D maxb d prev c dict acc,
      fp_autoFlush p <> 0 -> 4 <= fp_blockSizeID p <= 7 -> 0 <= fp_contentSize p < U64_MAX1 ->
      f_indep D = negb (linked p) -> f_bcrc D = negb (fp_blockChecksum p =? 0) ->
      f_bsid D = fp_blockSizeID p -> bsid_size (f_bsid D) = Some maxb ->
      (if linked p then lastn 65536 (d ++ concat prev) = lastn 65536 (dict ++ acc) else d = dict) ->
      extends bdec skipcrc D maxb dict acc (LZ4F_update p d prev c) c.

  Lemma lastn_app_cong n (a b x : list byte) : lastn n a = lastn n b -> lastn n (a ++ x) = lastn n (b ++ x).
  Proof.
    intro H. rewrite <- (LZ4V.Proofs.FrameDSound.lastn_app_lastn n a x), <- (LZ4V.Proofs.FrameDSound.lastn_app_lastn n b x), H. reflexivity.
  Qed.

  Theorem c4_update_contract_af : forall skipcrc, update_contract_af strict_valid skipcrc c4_update.
  Proof.
    intros skipcrc p D maxb d prev c dict acc Haf Hb Hc Hi Hbc Hbs Hmaxb Hwin.
    destruct (c4_ctx_spec p d prev Hb Hc) as (maxb' & bl & Hmaxb' & HI & HJ & Hm).
    rewrite Hbs in Hmaxb. rewrite Hmaxb in Hmaxb'. inversion Hmaxb'; subst maxb'. clear Hmaxb'.
    destruct (cvf_ok p Hb Hc) as (Hn & _).
    pose proof (bsid_size_range _ _ Hmaxb) as Hmax.
    set (ck := c4_ctx p d prev) in *.
    destruct (FileCompInst.update_out blk Hblk (dk_of d) (cvf p) maxb (concat prev) ck bl c FC_LZ4B_COMPRESSED Hn Hmax HI) as (o & c' & Hu).
    fold (compressUpdate blk ck c) in Hu.
    destruct (update_inv blk strict_valid Hblk strict_valid_ext (dk_of d) (cvf p) maxb (concat prev) ck bl c FC_LZ4B_COMPRESSED o c' Hn Hmax HI ltac:(intros _; reflexivity) Hu)
      as (bl' & Ho & HI').
    destruct (FileCompInst.update_afJ blk ck c o c' Hm HJ Hu) as [HJ' _].
    unfold c4_update. fold ck. rewrite Hu. cbn [fst outb]. subst o.
    (* nothing stays in tmpIn: the new blocks hold exactly the input *)
    assert (Hpk : FrameC.c_prefs ck = cvf p) by (destruct HI as [[Hs ? ? ? ? ? ?] ? ? ? ? ?]; exact Hs).
    assert (Hpk' : FrameC.c_prefs c' = cvf p) by (destruct HI' as [[Hs ? ? ? ? ? ?] ? ? ? ? ?]; exact Hs).
    assert (Ht : c_tmp ck = []) by (apply HJ; rewrite Hpk; exact Haf).
    assert (Ht' : c_tmp c' = []) by (apply HJ'; rewrite Hpk'; exact Haf).
    assert (HX : concat prev = contents bl) by (destruct HI as [_ HX _ _ _ _]; rewrite Ht, app_nil_r in HX; exact HX).
    assert (HX' : c = contents bl').
    { destruct HI' as [_ HX' _ _ _ _]. rewrite Ht', app_nil_r, contents_app, HX in HX'. apply app_inv_head in HX'. exact HX'. }
    assert (Hch : chain strict_valid (p_blockMode (cvf p) =? 1) (dict_of (dk_of d)) maxb [] (bl ++ bl'))
      by (destruct HI' as [[? ? ? ? ? Hch ?] ? ? ? ? ?]; exact Hch).
    apply chain_app in Hch. destruct Hch as [_ Hch]. cbn [app] in Hch. rewrite dict_of_dk in Hch.
    assert (Ei : (p_blockMode (cvf p) =? 1) = f_indep D) by (rewrite Hi; cbn; destruct (linked p); reflexivity).
    assert (Ec : (p_bcrc (cvf p) =? 1) = f_bcrc D) by (rewrite Hbc; cbn; destruct (fp_blockChecksum p =? 0); reflexivity).
    rewrite Ei in Hch. rewrite Ec. rewrite HX' at 1.
    apply chain_extends; [lia|].
    apply (chain_rebase strict_valid bl' (f_indep D) d dict maxb (contents bl) acc); [|exact Hch].
    intro x. unfold hist_spec. rewrite Hi. destruct (linked p); cbn [negb].
    - rewrite !app_assoc. apply lastn_app_cong. rewrite <- HX. exact Hwin.
    - exact Hwin.
  Qed.

  (* ---- end_contract, in the form that is true: a declared content size must be the real one ---- *)
  Definition end_contract_v (LZ4F_end : lz4f_prefs -> list Z -> list Z) : Prop :=
    forall p content, valid_prefs p content -> fp_autoFlush p <> 0 ->
      LZ4F_end p content = frame_tail (CliProofs.desc_of p) content.

  Theorem c4_end_contract_v : end_contract_v c4_end.
  Proof.
    intros p content (Hb & Hcs & Hc) Haf.
    destruct (c4_ctx_spec p [] [content] Hb Hc) as (maxb & bl & Hmaxb & HI & HJ & Hm).
    destruct (cvf_ok p Hb Hc) as (Hn & _).
    set (ck := c4_ctx p [] [content]) in *. cbn [concat] in HI. rewrite app_nil_r in HI.
    assert (Hpk : FrameC.c_prefs ck = cvf p) by (destruct HI as [[Hs ? ? ? ? ? ?] ? ? ? ? ?]; exact Hs).
    assert (Ht : c_tmp ck = []) by (apply HJ; rewrite Hpk; exact Haf).
    unfold c4_end. fold ck. unfold compressEnd, flush. rewrite Ht. cbn [len length Z.of_nat Z.eqb].
    cbn [FrameC.c_prefs set_stage c_totalIn]. rewrite Hpk.
    destruct HI as [_ HX _ Hxxh Htot _].
    assert (Hsz : (negb (p_contentSize (cvf p) =? 0) && negb (p_contentSize (cvf p) =? c_totalIn ck)) = false).
    { cbn [cvf p_contentSize]. destruct (Z.eqb_spec (fp_contentSize p) 0) as [E0|E0]; [reflexivity|].
      cbn [negb andb]. specialize (Htot E0). destruct Hcs as [Hcs|Hcs]; [contradiction|].
      rewrite Htot. unfold U64_MAX1 in Hc. assert (Hl : len content = lenZ content) by reflexivity.
      rewrite Z.mod_small by (rewrite Hl, <- Hcs; unfold U64; lia).
      rewrite Hl, <- Hcs, Z.eqb_refl. reflexivity. }
    rewrite Hsz. cbn [fst outb app]. unfold frame_tail. rewrite writeLE32_eq. f_equal.
    cbn [CliProofs.desc_of f_ccrc cvf p_ccrc]. unfold FC_contentChecksumEnabled.
    destruct (fp_contentChecksum p =? 0) eqn:E; cbn [negb Z.eqb Pos.eqb]; [reflexivity|].
    rewrite writeLE32_eq. rewrite Hxxh by (cbn; rewrite E; reflexivity). reflexivity.
  Qed.

  (* ---- frame_contract, for contents below 2^64 bytes ---- *)
  Definition frame_contract_b bdec skipcrc (LZ4F_frame : lz4f_prefs -> list Z -> list Z -> list Z) : Prop :=
    forall p dict content, valid_prefs p content -> lenZ content < U64_MAX1 ->
      frame_decode bdec skipcrc dict (LZ4F_frame p dict content) = Some (content, []).

  Lemma begin_out_cd c0 po cdict : prefs_opt_ok po ->
    exists hdr c1, compressBegin_internal c0 None cdict po = (Out hdr, c1).
  Proof.
    intros Hpo. unfold compressBegin_internal.
    set (p0 := match po with Some p => p | None => prefs_null end).
    assert (Hp0 : prefs_ok p0) by (unfold p0; destruct po; [exact Hpo|exact prefs_null_ok]).
    destruct Hp0 as (Hb & _).
    assert (HE : isError (getBlockSize (p_bsid (if p_bsid p0 =? 0 then FrameC.set_bsid p0 LZ4F_BLOCKSIZEID_DEFAULT else p0))) = false).
    { destruct Hb as [Hb|Hb].
      - rewrite Hb. reflexivity.
      - replace (p_bsid p0 =? 0) with false by (symmetry; apply Z.eqb_neq; lia).
        assert (Hc : p_bsid p0 = 4 \/ p_bsid p0 = 5 \/ p_bsid p0 = 6 \/ p_bsid p0 = 7) by lia.
        destruct Hc as [->|[->|[->| ->]]]; reflexivity. }
    rewrite HE. eexists _, _. reflexivity.
  Qed.

  Lemma frame_prefs_csize po n :
    p_contentSize (eff_prefs (Some (compressFrame_prefs po n))) = 0 \/
    p_contentSize (eff_prefs (Some (compressFrame_prefs po n))) = n.
  Proof.
    unfold eff_prefs, compressFrame_prefs. cbv zeta.
    set (p0 := match po with Some p => p | None => prefs_null end).
    destruct (negb (p_contentSize p0 =? 0)) eqn:E.
    - right. repeat match goal with |- context [if ?c then _ else _] => destruct c end; reflexivity.
    - left. apply negb_false_iff, Z.eqb_eq in E.
      repeat match goal with |- context [if ?c then _ else _] => destruct c end; cbn; exact E.
  Qed.

  Lemma compressFrame_out c0 src cd po : prefs_opt_ok po -> len src < U64 ->
    exists F c', compressFrame_usingCDict blk c0 src (match cd with Some d => Some (createCDict d) | None => None end) po = (Out F, c').
  Proof.
    intros Hpo Hn. pose proof (len_nonneg src) as H0.
    pose proof (compressFrame_prefs_ok po (len src) Hpo ltac:(lia)) as Hp3.
    set (p3 := compressFrame_prefs po (len src)) in *.
    set (dk := match cd with Some d => UsingCDict d | None => NoDict end).
    unfold compressFrame_usingCDict. cbv zeta. fold p3.
    destruct (begin_out_cd c0 (Some p3) (match cd with Some d => Some (createCDict d) | None => None end) Hp3) as (hdr & c1 & HB).
    rewrite HB.
    assert (HB' : compressBegin c0 (Some p3) dk = (Out hdr, c1)) by (unfold dk; destruct cd; exact HB).
    destruct (begin_inv strict_valid c0 (Some p3) dk hdr c1 Hp3 HB') as (p & maxb & Hp & Hnorm & Hmaxb & _ & HI).
    pose proof (bsid_size_range _ _ Hmaxb) as Hmax.
    destruct (FileCompInst.update_out blk Hblk dk p maxb [] c1 [] src FC_LZ4B_COMPRESSED Hnorm Hmax HI) as (body & c2 & HU).
    fold (compressUpdate blk c1 src) in HU. rewrite HU.
    destruct (update_inv blk strict_valid Hblk strict_valid_ext dk p maxb [] c1 [] src FC_LZ4B_COMPRESSED body c2 Hnorm Hmax HI ltac:(intros _; reflexivity) HU)
      as (bl' & _ & HI2). cbn [app] in HI2.
    assert (Hcs : p_contentSize p = 0 \/ p_contentSize p = len src) by (rewrite Hp; apply frame_prefs_csize).
    destruct (FileCompInst.end_out blk Hblk dk p maxb src c2 bl' Hnorm Hmax HI2 Hn Hcs) as (tail & c3 & HE).
    rewrite HE. eexists _, _. reflexivity.
  Qed.

  Theorem c4_frame_contract_b : forall skipcrc, frame_contract_b strict_valid skipcrc c4_frame.
  Proof.
    intros skipcrc p dict content (Hb & Hcs & Hc) HX.
    destruct (cvf_ok p Hb Hc) as (Hn & _).
    assert (Hpo : prefs_opt_ok (Some (cvf p))) by exact (proj1 Hn).
    assert (Hl : len content < U64) by exact HX.
    set (cd := match dict with [] => None | _ => Some dict end).
    assert (Ecd : c4_frame p dict content
                  = outb (fst (compressFrame_usingCDict blk cctx_zero content
                                 (match cd with Some d => Some (createCDict d) | None => None end) (Some (cvf p)))))
      by (unfold c4_frame, cd; destruct dict; reflexivity).
    assert (Edk : match cd with Some d => d | None => [] end = dict) by (unfold cd; destruct dict; reflexivity).
    destruct (compressFrame_out cctx_zero content cd (Some (cvf p)) Hpo Hl) as (F & c' & HF).
    rewrite Ecd, HF. cbn [fst outb].
    destruct (c07_compressFrame_conformant blk Hblk cctx_zero content cd (Some (cvf p)) F c' Hpo Hl HF) as (nb & HA).
    rewrite Edk in HA. apply audit_sound in HA.
    apply LZ4V.Proofs.FrameDChunk.frame_decode_skip_mono. exact HA.
  Qed.
End Instance.

(* ================================================================== the pipelines, from the contracts in their true form *)
Section PipesOpen.
  Variable bdec : list byte -> list byte -> option (list byte).
  Variable skipcrc : bool.
  Variable LZ4F_header : lz4f_prefs -> list Z.
  Variable LZ4F_frame : lz4f_prefs -> list Z -> list Z -> list Z.
  Variable LZ4F_update : lz4f_prefs -> list Z -> list (list Z) -> list Z -> list Z.
  Variable LZ4F_end : lz4f_prefs -> list Z -> list Z.
  Variable LZ4_block : Z -> list Z -> list Z.
  Hypothesis H_header : header_contract LZ4F_header.
  Hypothesis H_update : update_contract_af bdec skipcrc LZ4F_update.
  Hypothesis H_end : end_contract_v LZ4F_end.
  Hypothesis H_frame : frame_contract_b bdec skipcrc LZ4F_frame.
  Hypothesis H_block : block_contract bdec LZ4_block.

  Lemma st_updates_extends_o p dict D maxb :
    fp_autoFlush p <> 0 -> 4 <= fp_blockSizeID p <= 7 -> 0 <= fp_contentSize p < U64_MAX1 ->
    f_indep D = negb (linked p) -> f_bcrc D = negb (fp_blockChecksum p =? 0) ->
    f_bsid D = fp_blockSizeID p -> bsid_size (f_bsid D) = Some maxb ->
    forall cs prev, extends bdec skipcrc D maxb dict (concat prev) (st_updates LZ4F_update p dict prev cs) (concat cs).
  Proof.
    intros Haf Hb Hc H1 H2 H3 H4. induction cs as [|c r IH]; intros prev.
    - apply extends_nil.
    - cbn [st_updates concat]. apply extends_app.
      + apply H_update; try assumption. destruct (linked p); reflexivity.
      + replace (concat prev ++ c) with (concat (prev ++ [c])); [apply IH|].
        rewrite concat_app. cbn [concat]. rewrite app_nil_r. reflexivity.
  Qed.

  Theorem st_roundtrip_open (p : lz4f_prefs) (blockSize : Z) (dict content : list Z) :
    1 <= blockSize -> valid_prefs p content -> fp_autoFlush p <> 0 -> lenZ content < U64_MAX1 ->
    let F := st_output LZ4F_header LZ4F_frame LZ4F_update LZ4F_end p blockSize dict content in
    stream_decode bdec skipcrc (S (length F)) dict [] F = Some content.
  Proof.
    intros Hbs Hv Haf HX. cbv zeta. apply stream_of_frame. unfold st_output.
    destruct (lenZ content <? blockSize); [apply H_frame; assumption|].
    rewrite (H_end p content Hv Haf).
    destruct Hv as [Hid [Hcs Hu]].
    destruct (H_header p Hid Hu) as [maxb Hh].
    apply frame_assemble with (maxb := maxb); [exact Hh| |].
    - rewrite <- (chunks_of_concat blockSize content Hbs) at 2.
      apply (st_updates_extends_o p dict (CliProofs.desc_of p) maxb); try reflexivity; try assumption. apply Hh.
    - cbn [CliProofs.desc_of f_csize]. destruct Hcs as [E|E]; rewrite E.
      + left. reflexivity.
      + destruct (lenZ content =? 0) eqn:E0; [left; reflexivity|right; right; reflexivity].
  Qed.

  Lemma mt_chunks_extends_o p dict cs D maxb :
    fp_autoFlush p <> 0 -> 4 <= fp_blockSizeID p <= 7 -> 0 <= fp_contentSize p < U64_MAX1 ->
    f_indep D = negb (linked p) -> f_bcrc D = negb (fp_blockChecksum p =? 0) ->
    f_bsid D = fp_blockSizeID p -> bsid_size (f_bsid D) = Some maxb ->
    (forall k, (S k < length cs)%nat -> lenZ (nth k cs []) = CHUNK) ->
    forall suf pre, cs = pre ++ suf ->
      extends bdec skipcrc D maxb dict (concat pre)
              (concat (map (mt_chunk LZ4F_update p dict cs) (List.seq (length pre) (length suf))))
              (concat suf).
  Proof.
    intros Haf Hb Hc H1 H2 H3 H4 Hfull. induction suf as [|c suf IH]; intros pre Hcs.
    - apply extends_nil.
    - cbn [length List.seq map concat]. apply extends_app.
      + unfold mt_chunk. rewrite Hcs at 2. rewrite nth_middle.
        apply H_update; try assumption. rewrite linked_no_ccrc.
        destruct (linked p) eqn:El; cbn [andb]; [|reflexivity].
        destruct pre as [|x pre0] using rev_ind.
        * cbn [length Nat.eqb negb concat]. reflexivity.
        * clear IHpre0. rewrite app_length. cbn [length]. rewrite Nat.add_1_r. cbn [Nat.eqb negb].
          unfold prefix_of. rewrite Hcs at 1. rewrite <- app_assoc. cbn [app]. rewrite nth_middle.
          assert (Hx : lenZ x = CHUNK).
          { specialize (Hfull (length pre0)).
            rewrite Hcs in Hfull at 2. rewrite <- app_assoc in Hfull. cbn [app] in Hfull. rewrite nth_middle in Hfull.
            apply Hfull. rewrite Hcs, !app_length. cbn [length]. lia. }
          rewrite window_is_prefix. cbn [concat]. rewrite app_nil_r, lastn_lastn.
          rewrite concat_app. cbn [concat]. rewrite app_nil_r, app_assoc.
          symmetry. apply lastn_app_ge.
          unfold lenZ, CHUNK in Hx. change CLI_CHUNK_SIZE with 4194304 in Hx.
          assert (Z.of_nat 65536 = 65536) by reflexivity. lia.
      + replace (concat pre ++ c) with (concat (pre ++ [c])) by (rewrite concat_app; cbn [concat]; rewrite app_nil_r; reflexivity).
        replace (S (length pre)) with (length (pre ++ [c])) by (rewrite app_length; cbn [length]; lia).
        apply IH. rewrite <- app_assoc. exact Hcs.
  Qed.

  Theorem mt_roundtrip_open (p : lz4f_prefs) (dict content : list Z) :
    valid_prefs p content -> fp_autoFlush p <> 0 -> lenZ content < U64_MAX1 ->
    let F := mt_output LZ4F_header LZ4F_frame LZ4F_update p dict content in
    stream_decode bdec skipcrc (S (length F)) dict [] F = Some content.
  Proof.
    intros Hv Haf HX. cbv zeta. apply stream_of_frame. unfold mt_output.
    destruct (lenZ content <? CHUNK); [apply H_frame; assumption|].
    destruct Hv as [Hid [Hcs Hu]].
    destruct (H_header p Hid Hu) as [maxb Hh].
    assert (HC : 1 <= CHUNK) by (apply Z.leb_le; reflexivity).
    replace (mt_tail p content) with (frame_tail (CliProofs.desc_of p) content)
      by (unfold mt_tail, frame_tail, CliProofs.desc_of; cbn [f_ccrc]; destruct (fp_contentChecksum p =? 0); reflexivity).
    apply frame_assemble with (maxb := maxb); [exact Hh| |].
    - rewrite <- (chunks_of_concat CHUNK content HC) at 3.
      apply (mt_chunks_extends_o p dict (chunks_of CHUNK content) (CliProofs.desc_of p) maxb) with (pre := []);
        try reflexivity; try assumption; [apply Hh|].
      intros k Hk. apply chunks_nth_full; [exact HC|lia|exact Hk].
    - cbn [CliProofs.desc_of f_csize]. destruct Hcs as [E|E]; rewrite E.
      + left. reflexivity.
      + destruct (lenZ content =? 0) eqn:E0; [left; reflexivity|right; right; reflexivity].
  Qed.

  Theorem cli_roundtrip_open (mt : bool) (args : list arg) (s : cli_state) (fileSize : Z) (dict content : list Z) :
    parse_args cli_init args = Some s -> (fileSize = 0 \/ fileSize = lenZ content) -> lenZ content < U64_MAX1 ->
    let F := cli_compress LZ4F_header LZ4F_frame LZ4F_update LZ4F_end LZ4_block mt s fileSize dict content in
    stream_decode bdec skipcrc (S (length F)) dict [] F = Some content.
  Proof.
    intros Hp Hsz H64. cbv zeta. unfold cli_compress.
    pose proof (parse_args_inv args cli_init s cli_init_inv Hp) as [Hid Hbs].
    destruct (c_legacy s); [apply legacy_roundtrip; exact H_block|].
    assert (Hv : valid_prefs (prefs_of s fileSize) content).
    { split; [exact Hid|]. cbn [prefs_of fp_contentSize]. pose proof (lenZ_nonneg content) as H0.
      unfold U64_MAX1 in *.
      destruct (io_contentSizeFlag (c_prefs s) =? 0); [split; [left; reflexivity|lia]|].
      destruct Hsz as [E|E]; (split; [first [left; exact E|right; exact E]|lia]). }
    assert (Haf : fp_autoFlush (prefs_of s fileSize) <> 0) by (cbn; discriminate).
    destruct mt; [apply mt_roundtrip_open; assumption|apply st_roundtrip_open; assumption].
  Qed.
End PipesOpen.

(* ================================================================== C04 with the library contracts discharged *)
(* the write register of lz4io.c (Model/WriteReg.v, property C13): the buffers handed to fwrite *)
Definition wr_real (arr : list (Z * list Z)) : list (list Z) :=
  snd (fst (LZ4V.Model.WriteReg.arrive_all LZ4V.Model.WriteReg.WR_init arr [] true)).
Theorem wr_real_in_order : write_order_contract wr_real.
Proof.
  intros blks perm Hp. destruct (LZ4V.Proofs.WriteRegProofs.write_order blks perm Hp) as [(w & E & _) _].
  unfold wr_real. unfold LZ4V.Proofs.WriteRegProofs.arrival in E. rewrite E. reflexivity.
Qed.

Section Discharged.
  Variable blk : nat -> list byte -> list byte -> option (list byte).
  Hypothesis Hblk : blk_contract strict_valid blk.

  Theorem st_roundtrip_discharged : forall (skipcrc : bool) (p : lz4f_prefs) (blockSize : Z) (dict content : list Z),
    1 <= blockSize -> valid_prefs p content -> fp_autoFlush p <> 0 -> lenZ content < U64_MAX1 ->
    let F := st_output (c4_header) (c4_frame blk) (c4_update blk) (c4_end blk) p blockSize dict content in
    stream_decode strict_valid skipcrc (S (length F)) dict [] F = Some content.
  Proof.
    intros skipcrc. exact (st_roundtrip_open strict_valid skipcrc c4_header (c4_frame blk) (c4_update blk) (c4_end blk)
                              (c4_header_contract) (c4_update_contract_af blk Hblk skipcrc) (c4_end_contract_v blk Hblk)
                              (c4_frame_contract_b blk Hblk skipcrc)).
  Qed.

  Theorem mt_roundtrip_discharged : forall (skipcrc : bool) (p : lz4f_prefs) (dict content : list Z),
    valid_prefs p content -> fp_autoFlush p <> 0 -> lenZ content < U64_MAX1 ->
    let F := mt_output c4_header (c4_frame blk) (c4_update blk) p dict content in
    stream_decode strict_valid skipcrc (S (length F)) dict [] F = Some content.
  Proof.
    intros skipcrc. exact (mt_roundtrip_open strict_valid skipcrc c4_header (c4_frame blk) (c4_update blk)
                              (c4_header_contract) (c4_update_contract_af blk Hblk skipcrc) (c4_frame_contract_b blk Hblk skipcrc)).
  Qed.

  (* MT determinism with the write register of lz4io.c itself (no hypothesis at all) *)
  Theorem mt_deterministic_discharged : forall (p : lz4f_prefs) (dict content : list Z) (nbWorkers : Z) (order : list nat),
    1 <= nbWorkers -> CHUNK <= lenZ content ->
    let cs := chunks_of CHUNK content in
    let results := map (mt_chunk (c4_update blk) p dict cs) (List.seq 0 (length cs)) in
    Permutation order (List.seq 0 (length cs)) ->
    mt_assembled c4_header wr_real p content (map (fun i => (Z.of_nat i, nth i results [])) order)
    = mt_output c4_header (c4_frame blk) (c4_update blk) p dict content.
  Proof. exact (mt_deterministic c4_header (c4_frame blk) (c4_update blk) wr_real wr_real_in_order). Qed.
End Discharged.

(* ---- legacy format: LZ4_compress_fast / LZ4_compress_HC on 8 MB blocks; the only hypothesis is the
   block compressor's own contract (C01): it succeeds within LZ4_compressBound and what it writes
   decodes to its input ---- *)
Section Legacy.
  (* the block compressor, as a partial function (None = it returned 0) *)
  Variable cblk : Z -> list Z -> option (list Z).
  Definition legacy_blk_contract : Prop :=
    forall level c, lenZ c <= LEGACY_BLOCKSIZE ->
      exists b, cblk level c = Some b /\ strict_valid [] b = Some c /\ lenZ b <= LZ4IO_LEGACY_BOUND.
  Definition c4_block (level : Z) (c : list Z) : list Z := match cblk level c with Some b => b | None => [] end.
  Hypothesis Hc : legacy_blk_contract.

  Theorem legacy_roundtrip_discharged : forall (skipcrc : bool) (level : Z) (dict content : list Z),
    let F := legacy_output c4_block level content in
    stream_decode strict_valid skipcrc (S (length F)) dict [] F = Some content.
  Proof.
    intros skipcrc. apply legacy_roundtrip. intros level c Hl. unfold c4_block.
    destruct (Hc level c Hl) as (b & -> & A & B). auto.
  Qed.
End Legacy.

(* the whole CLI: every accepted option list, both builds *)
Theorem cli_roundtrip_discharged : forall blk cblk,
  blk_contract strict_valid blk -> legacy_blk_contract cblk ->
  forall (skipcrc mt : bool) (args : list arg) (s : cli_state) (fileSize : Z) (dict content : list Z),
  parse_args cli_init args = Some s -> (fileSize = 0 \/ fileSize = lenZ content) -> lenZ content < U64_MAX1 ->
  let F := cli_compress c4_header (c4_frame blk) (c4_update blk) (c4_end blk) (c4_block cblk) mt s fileSize dict content in
  stream_decode strict_valid skipcrc (S (length F)) dict [] F = Some content.
Proof.
  intros blk cblk Hblk Hc skipcrc. 
  apply (cli_roundtrip_open strict_valid skipcrc c4_header (c4_frame blk) (c4_update blk) (c4_end blk) (c4_block cblk)
           c4_header_contract (c4_update_contract_af blk Hblk skipcrc) (c4_end_contract_v blk Hblk) (c4_frame_contract_b blk Hblk skipcrc)).
  intros level c Hl. unfold c4_block. destruct (Hc level c Hl) as (b & -> & A & B). auto.
Qed.

(* ================================================================== the contracts as first stated are false of the library *)
(* a block compressor that never compresses (every block stored raw): meets blk_contract *)
Definition blk_raw : nat -> list byte -> list byte -> option (list byte) := fun _ _ _ => None.
Lemma blk_raw_contract : blk_contract strict_valid blk_raw.
Proof. intros n h x c H. discriminate H. Qed.

(* end_contract asks LZ4F_compressEnd for an end mark whatever the declared content size; with a
   declared size that is not the real one the library (and the model) returns ERROR_frameSize_wrong *)
Definition p_wrong_csize : lz4f_prefs := mkFp 1 4 0 0 5 1 1 0.
Theorem end_contract_refuted : ~ end_contract (c4_end blk_raw).
Proof.
  intro H. specialize (H p_wrong_csize [1; 2; 3]). vm_compute in H. discriminate H.
Qed.

(* update_contract asks every LZ4F_compressUpdate to emit blocks holding exactly its input; without
   autoFlush the library buffers: 3 bytes in, nothing out *)
Definition p_no_autoflush : lz4f_prefs := mkFp 1 4 0 0 0 1 0 0.
Theorem update_contract_refuted : forall skipcrc, ~ update_contract strict_valid skipcrc (c4_update blk_raw).
Proof.
  intros skipcrc H.
  specialize (H p_no_autoflush (mkDesc true false None false None 4) 65536 [] [] [1; 2; 3] [] []
                eq_refl eq_refl eq_refl eq_refl eq_refl).
  destruct H as (nb & Hnb & E).
  vm_compute in Hnb. assert (nb = 0%nat) by lia. subst nb.
  specialize (E 1%nat [0; 0; 0; 0]). vm_compute in E. discriminate E.
Qed.

(* what the model says `lz4 [options]` writes when no block compresses (every block stored raw): compared
   byte for byte with the real binary's output on inputs where that is the case (harness c04.py) *)
Definition cli_bytes_raw (mt : bool) (s : cli_state) (fileSize : Z) (dict content : list Z) : list Z :=
  cli_compress c4_header (c4_frame blk_raw) (c4_update blk_raw) (c4_end blk_raw) (fun _ c => c) mt s fileSize dict content.

(* the legacy hypothesis is satisfiable: a block compressor that emits one literal-only sequence *)
From LZ4V Require Proofs.BlockSpecProofs Proofs.FastCap.
Definition cblk_lit (level : Z) (c : list Z) : option (list Z) := Some (encode_block [] c).
Lemma cblk_lit_contract : legacy_blk_contract cblk_lit.
Proof.
  intros level c Hl. exists (encode_block [] c). split; [reflexivity|]. split.
  - unfold strict_valid, parse_block.
    rewrite (LZ4V.Proofs.BlockSpecProofs.parse_seqs_encode [] c (S (length (encode_block [] c))) (Forall_nil _) ltac:(cbn [length]; lia)).
    cbn [end_ok rev]. unfold run_seqs. cbn [apply_seqs rev length skipn app]. rewrite app_nil_r, rev_involutive. reflexivity.
  - unfold lenZ. rewrite LZ4V.Proofs.FastCap.encode_block_length_Z. cbn [LZ4V.Proofs.FastCap.sumlen].
    pose proof (LZ4V.Proofs.FastCap.extlen_bound (Z.of_nat (length c)) ltac:(lia)) as B.
    unfold lenZ in Hl. change LEGACY_BLOCKSIZE with 8388608 in Hl. change LZ4IO_LEGACY_BOUND with 8421520.
    unfold byte in *. set (n := Z.of_nat (length c)) in *. set (e := LZ4V.Proofs.FastCap.extlen n) in *.
    destruct (n <? 15) eqn:E; [apply Z.ltb_lt in E|apply Z.ltb_ge in E]; lia.
Qed.
