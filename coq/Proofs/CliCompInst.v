(* C04: the library contracts of the CLI round trip, discharged.
   The LZ4F operations that programs/lz4io.c calls (compressBegin, compressUpdate, compressEnd,
   compressFrame_usingCDict) are instantiated with the byte model of lz4frame.c (Model/FrameC.v,
   C03/C07); the contracts that Proofs/CliProofs.v assumes of them are proved from FrameC's
   invariant (blocks of every update form a [chain] that the frame specification steps over),
   in the form in which they are true (see update_contract_refuted / end_contract_refuted), and
   the pipeline theorems are re-derived from those.  What remains assumed: the contracts of the
   BLOCK compressors (blk_contract; for the legacy format block_contract itself), C01's subject. *)
From Coq Require Import ZArith List Lia Bool Permutation.
From LZ4V Require Import Spec.BlockSpec Spec.XXH32 Spec.FrameSpec Gen.Consts.
From LZ4V Require Import Model.FrameC Proofs.BlockHistExt Proofs.FrameCBytes Proofs.FrameCBlocks Proofs.FrameCProofs Proofs.FrameCTheorems.
From LZ4V Require Proofs.FrameDSound Proofs.FrameDChunk Proofs.FileCompInst.
From LZ4V Require Import Model.Sparse Model.CliOpts Model.CompressPipe Proofs.SparseProofs Proofs.CliProofs.
Import ListNotations.
Local Open Scope Z_scope.

Module FC := LZ4V.Model.FrameC.
Module FB := LZ4V.Proofs.FrameCBytes.
Module FCI := LZ4V.Proofs.FileCompInst.

(* ================================================================== a chain of blocks is stepped over by the specification *)
Section ChainExtends.
  Variable bdec : list byte -> list byte -> option (list byte).
  Variable skipcrc : bool.

  Lemma blocks_block_step : forall f d maxb dict acc b rest,
    maxb < 2147483648 ->
    block_ok bdec (hist_spec (f_indep d) dict acc) maxb b ->
    blocks bdec skipcrc (S f) d maxb dict acc (enc_block (f_bcrc d) b ++ rest)
    = blocks bdec skipcrc f d maxb dict (acc ++ b_content b) rest.
  Proof.
    intros f d maxb dict acc b rest Hm Hb.
    destruct (header_word bdec b maxb _ Hm Hb) as [Hw [Hz [Hr Hn]]].
    destruct Hb as [Hs [Hc Hk]].
    unfold enc_block. rewrite <- !app_assoc.
    cbn [blocks]. rewrite take_le_bytes. cbv zeta.
    rewrite le_val_le_bytes_4 by exact Hw.
    rewrite Hz, Hr, Hn.
    replace (maxb <? len (b_stored b)) with false by lia.
    unfold len at 1. rewrite Nat2Z.id. rewrite LZ4V.Proofs.FrameDSound.take_app.
    fold (hist_spec (f_indep d) dict acc).
    assert (Hafter :
      match (if b_raw b then Some (b_stored b) else bdec (hist_spec (f_indep d) dict acc) (b_stored b)) with
      | Some c => if maxb <? Z.of_nat (length c) then None else blocks bdec skipcrc f d maxb dict (acc ++ c) rest
      | None => None
      end = blocks bdec skipcrc f d maxb dict (acc ++ b_content b) rest).
    { destruct (b_raw b).
      - rewrite Hk. unfold len in Hc. replace (maxb <? Z.of_nat (length (b_content b))) with false by lia. reflexivity.
      - destruct Hk as [Hk1 Hk2]. rewrite Hk1. unfold len in Hc.
        replace (maxb <? Z.of_nat (length (b_content b))) with false by lia. reflexivity. }
    destruct (f_bcrc d).
    - rewrite take_le_bytes, le_val_crc, Z.eqb_refl, orb_true_r. exact Hafter.
    - cbn [app]. exact Hafter.
  Qed.

  Lemma chain_extends : forall bl d maxb dict acc,
    maxb < 2147483648 -> chain bdec (f_indep d) dict maxb acc bl ->
    extends bdec skipcrc d maxb dict acc (enc_blocks (f_bcrc d) bl) (contents bl).
  Proof.
    induction bl as [|b bl IH]; intros d maxb dict acc Hm Hc.
    - exists 0%nat. split; [cbn; lia|]. intros fuel rest. unfold contents. cbn. rewrite app_nil_r. reflexivity.
    - destruct Hc as [Hb Hc]. destruct (IH d maxb dict (acc ++ b_content b) Hm Hc) as [n [Ln E]].
      exists (S n). split.
      + unfold enc_blocks in *. cbn [map concat]. rewrite app_length. pose proof (enc_block_length (f_bcrc d) b). unfold byte in *. lia.
      + intros fuel rest. unfold enc_blocks. cbn [map concat Nat.add]. rewrite <- app_assoc.
        rewrite blocks_block_step by assumption. fold (enc_blocks (f_bcrc d) bl). rewrite E.
        unfold contents. cbn [map concat]. rewrite app_assoc. reflexivity.
  Qed.

  (* the chain only depends on the history window *)
  Lemma chain_rebase : forall bl indep d dict maxb a a',
    (forall x, hist_spec indep d (a ++ x) = hist_spec indep dict (a' ++ x)) ->
    chain bdec indep d maxb a bl -> chain bdec indep dict maxb a' bl.
  Proof.
    induction bl as [|b bl IH]; intros indep d dict maxb a a' Hw Hc; [exact I|].
    destruct Hc as [Hb Hc]. split.
    - pose proof (Hw []) as H0. rewrite !app_nil_r in H0. rewrite <- H0. exact Hb.
    - apply (IH indep d dict maxb (a ++ b_content b)); [|exact Hc].
      intro x. rewrite <- !app_assoc. apply Hw.
  Qed.
End ChainExtends.
