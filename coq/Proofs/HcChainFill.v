(* fillOutput mode (LZ4_compress_HC_destSize) of the parsers that share c_encode / c_dest_overflow /
   c_last_literals (hash chain, Model.HcChain; optimal, Model.HcOpt): the building blocks keep the room
   invariant of Proofs.HcMidFill and deliver a STRICTLY valid block (end-of-block restrictions included).

   Room argument (as for LZ4MID): a sequence accepted by LZ4HC_encodeSequence in limited mode leaves
   op <= oend - 5 with oend lowered by LASTLITERALS, i.e. >= 10 bytes before the real end, so a truncated last
   run has >= 9 literals; a sequence written by the overflow epilogue (from optr / opSaved, notLimited) leaves
   >= 6 bytes, and its explicit test `(oend + LASTLITERALS) - (op + ll_totalCost + 2) - 1 + ml >= MFLIMIT`
   is "shortened match + literals that still fit >= 12". *)
From Coq Require Import ZArith List Lia Bool ZifyBool.
From LZ4V Require Import Gen.Consts Spec.BlockSpec Model.Mem Model.Fast Model.HcEmit Model.HcMid Model.HcChain.
From LZ4V Require Import Proofs.BlockSpecProofs Proofs.FactorSpec Proofs.FastBasics Proofs.FastCap Proofs.HcEmitProofs.
From LZ4V Require Import Proofs.HcMidSound Proofs.HcMidCap Proofs.HcMidFill Proofs.HcChainSearch Proofs.HcChainSound.
Import ListNotations.
Local Open Scope Z_scope.

Section ChainFill.
  Variable vrd : Z -> Z.
  Variables dictIdx s0 srcSize maxOut : Z.
  Hypothesis Hb : forall a, 0 <= vrd a < 256.
  Hypothesis Hsz : 0 <= srcSize.
  Hypothesis Hlo : dictIdx <= s0.

  Notation iend := (hc_iend s0 srcSize).
  Notation mflimit := (hc_mflimit s0 srcSize).
  Notation matchlimit := (hc_matchlimit s0 srcSize).
  Notation lo := dictIdx.
  Notation out_ss := (out_ss vrd s0 srcSize dictIdx).
  Notation trunc_run := (trunc_run maxOut).
  Notation room_ok := (room_ok maxOut).

  Lemma flimits : mflimit = iend - 12 /\ matchlimit = iend - 5 /\ iend = s0 + srcSize.
  Proof. unfold hc_mflimit, hc_matchlimit, hc_iend, MFLIMIT, LASTLITERALS. lia. Qed.

  Lemma trunc_ge op k : 5 <= k -> op <= maxOut - 1 - k -> (k < 15 -> k <= trunc_run op) /\ (15 <= k -> 13 <= trunc_run op).
  Proof.
    intros Hk Hop. unfold HcMidFill.trunc_run, RUN_MASK. cbv zeta.
    set (lr := maxOut - op - 1). assert (k <= lr) by (subst lr; lia). clearbody lr.
    split; intros; Z.div_mod_to_equations; lia.
  Qed.

  Definition cRFill (r : cres) : Prop :=
    match r with
    | COk ret consumed out t hw => strict_valid (seg vrd lo s0) out = Some (seg vrd s0 (s0 + consumed))
    | _ => True
    end.

  (* the sequences written so far, and the room they leave *)
  Definition cFInv (s : cst) : Prop := exists ss, out_ss (c_rout s) (c_anchor s) ss /\ room_ok (c_op s) ss.

  Lemma c_last_literals_fill s ss :
    out_ss (c_rout s) (c_anchor s) ss -> s0 <= c_anchor s <= iend -> room_ok (c_op s) ss ->
    cRFill (c_last_literals vrd FillOutput s0 srcSize s maxOut).
  Proof.
    intros (Hr & Hv & He & Hend) Ha Hroom. pose proof flimits as (L1 & L2 & L3).
    unfold c_last_literals. cbv zeta.
    set (lastRun := iend - c_anchor s).
    assert (Emit : forall lr, 0 <= lr <= lastRun ->
      (forall q r, rev ss = q :: r -> 5 <= lr /\ 12 <= s_mlen q + lr) ->
      cRFill (let hdr := if lr >=? RUN_MASK then RUN_MASK * 16 :: lit_ext (Z.to_nat lr) (lr - RUN_MASK) else [lr * 16] in
              let bytes := hdr ++ src_bytes vrd (Z.to_nat lr) (c_anchor s) in
              let op' := c_op s + Z.of_nat (length bytes) in
              COk op' (c_anchor s + lr - s0) (rev_append (c_rout s) bytes) (c_tabs s) (Z.max (c_hw s) op'))).
    { intros lr Hlr Hend'. cbv zeta. cbn [cRFill].
      set (last := seg vrd (c_anchor s) (c_anchor s + lr)).
      assert (Hlen : Z.of_nat (length last) = lr) by (subst last; rewrite seg_length; lia).
      assert (Henc : (if lr >=? RUN_MASK then RUN_MASK * 16 :: lit_ext (Z.to_nat lr) (lr - RUN_MASK) else [lr * 16])
                     ++ src_bytes vrd (Z.to_nat lr) (c_anchor s) = encode_last last).
      { unfold encode_last. cbv zeta. unfold byte in *. rewrite Hlen. rewrite src_bytes_seg by lia. fold last.
        unfold enc_nib, enc_ext, RUN_MASK.
        destruct (lr >=? 15) eqn:E; destruct (lr <? 15) eqn:E'; try lia.
        - rewrite lit_ext_spec; [reflexivity | lia |]. left. Z.div_mod_to_equations. lia.
        - reflexivity. }
      rewrite Henc.
      assert (Hout : rev_append (c_rout s) (encode_last last) = encode_block ss last).
      { rewrite rev_append_rev, Hr. reflexivity. }
      replace (s0 + (c_anchor s + lr - s0)) with (c_anchor s + lr) by lia.
      rewrite Hout.
      rewrite strict_valid_encode; [| eapply seqs_valid_wf; eauto | subst last; apply seg_bytes_ok; exact Hb].
      assert (Eo : end_ok ss last = true).
      { unfold end_ok. destruct (rev ss) as [|q r] eqn:Er; [reflexivity|].
        destruct (Hend' q r eq_refl) as [E1 E2]. unfold byte in *. rewrite Hlen. lia. }
      rewrite Eo. apply (factor_decodes vrd lo s0 (c_anchor s + lr) ss last); try assumption; try lia.
      subst last. rewrite He. reflexivity. }
    cbn [hc_limited andb].
    destruct (c_op s + (1 + (lastRun + 255 - RUN_MASK) / 255 + lastRun) >? maxOut) eqn:E.
    - destruct (maxOut - c_op s <? 1) eqn:E1; [exact I|].
      apply Emit.
      + unfold RUN_MASK in *. subst lastRun.
        set (lr := iend - c_anchor s) in *. assert (0 <= lr) by (subst lr; lia). clearbody lr.
        assert (E' : c_op s + (1 + (lr + 255 - 15) / 255 + lr) > maxOut) by lia.
        assert (Hx : 0 <= maxOut - c_op s - 1) by lia.
        set (x := maxOut - c_op s - 1) in *.
        replace maxOut with (x + c_op s + 1) in E' by (subst x; lia). clearbody x. clear E E1.
        Z.div_mod_to_equations. lia.
      + exact Hroom.
    - apply Emit; [subst lastRun; lia|].
      intros q r Hq. unfold end_inv in Hend. rewrite Hq in Hend. subst lastRun.
      unfold mi_matchlimit, mi_mflimit, mi_iend, MFLIMIT, LASTLITERALS in *. lia.
  Qed.

  Lemma c_dest_overflow_fill s ss ml off :
    out_ss (c_rout s) (c_anchor s) ss -> s0 <= c_anchor s <= c_ip s -> c_ip s <= mflimit ->
    match_ok vrd lo (c_ip s) off ml -> c_ip s + ml <= matchlimit -> room_ok (c_op s) ss ->
    cRFill (c_dest_overflow vrd FillOutput s0 srcSize s ml off (maxOut - LASTLITERALS)).
  Proof.
    intros Hss Ha Hipm Hm Hml Hroom. pose proof flimits as (L1 & L2 & L3).
    unfold c_dest_overflow. cbv zeta. unfold LASTLITERALS. replace (maxOut - 5 + 5) with maxOut by lia.
    assert (Hai : c_anchor s <= iend) by (destruct Hm as (_ & ? & _); lia).
    assert (Same : cRFill (c_last_literals vrd FillOutput s0 srcSize s maxOut)).
    { apply (c_last_literals_fill s ss Hss); [lia | exact Hroom]. }
    set (L := c_ip s - c_anchor s) in *. assert (HL : 0 <= L) by (subst L; lia).
    assert (EL : L = c_ip s - c_anchor s) by reflexivity. clearbody L.
    pose proof (extlen_le_add' L HL) as HeL. pose proof (extlen_nonneg L) as HeL0.
    destruct (c_op s + (1 + (L + 240) / 255 + L) <=? maxOut - 5 - 3) eqn:E1; [|exact Same].
    set (left := maxOut - 5 - 3 - (c_op s + (1 + (L + 240) / 255 + L))) in *.
    assert (Hleft : 0 <= left) by (subst left; lia).
    assert (Eleft : left = maxOut - 5 - 3 - (c_op s + (1 + (L + 240) / 255 + L))) by reflexivity.
    clearbody left.
    set (mx := MINMATCH + (ML_MASK - 1) + left * 255).
    set (ml' := if ml >? mx then mx else ml).
    destruct (maxOut - (c_op s + (1 + (L + 240) / 255 + L) + 2) - 1 + ml' >=? MFLIMIT) eqn:E2; [|exact Same].
    assert (Hml' : 4 <= ml' <= mx /\ ml' <= ml).
    { destruct Hm as (_ & H4 & _). subst ml' mx. unfold MINMATCH, ML_MASK, MFLIMIT in *. destruct (ml >? _) eqn:E3; lia. }
    assert (Emx : mx = 18 + left * 255) by (subst mx; unfold MINMATCH, ML_MASK; lia).
    clearbody ml'. clearbody mx.
    pose proof (match_ok_shorten vrd lo (c_ip s) off ml ml' Hm ltac:(lia)) as Hm'.
    pose proof (encodeSequence_notlimited vrd (c_ip s) (c_anchor s) (c_op s) ml' off (maxOut - 5)) as Hret.
    pose proof (out_ss_snoc vrd s0 srcSize lo (c_rout s) (c_anchor s) ss (c_ip s) ml' off (c_op s) false (maxOut - 5)
                  Hss ltac:(lia) Hm' ltac:(exact Hipm) ltac:(unfold mi_matchlimit, mi_iend in *; unfold hc_matchlimit, hc_iend in *; lia)) as Hsn.
    cbv zeta in Hsn. specialize (Hsn Hret).
    pose proof (encodeSequence_shape vrd (c_ip s) (c_anchor s) (c_op s) ml' off false (maxOut - 5) ltac:(lia) ltac:(unfold MINMATCH; lia)) as Hsh.
    cbv zeta in Hsh. specialize (Hsh Hret). rewrite <- EL in Hsh. destruct Hsh as (Hso & _).
    assert (Hem : extlen (ml' - MINMATCH) <= left /\ (ml' < 19 -> extlen (ml' - MINMATCH) = 0)).
    { unfold extlen, MINMATCH in *. destruct (ml' - 4 <? 15) eqn:B; [lia|]. split; [Z.div_mod_to_equations; lia | lia]. }
    pose proof (extlen_nonneg (ml' - MINMATCH)) as Hem0.
    eapply c_last_literals_fill; [exact Hsn | cbn [c_anchor]; lia |].
    cbn [c_op]. intros q r Hq. rewrite rev_app_distr in Hq. cbn [rev app] in Hq. inversion Hq; subst q r; clear Hq.
    cbn [s_mlen]. set (op2 := e_op (encodeSequence vrd (c_ip s) (c_anchor s) (c_op s) ml' off false (maxOut - 5))) in *.
    clearbody op2. destruct Hem as (Hem1 & Hem2).
    assert (Hop2 : op2 <= maxOut - 1 - 5) by lia.
    pose proof (trunc_ge op2 5 ltac:(lia) Hop2) as (T1 & _). specialize (T1 ltac:(lia)).
    split; [lia|].
    destruct (Z_lt_le_dec ml' 12) as [Hs|Hb12]; [|lia].
    specialize (Hem2 ltac:(lia)). unfold MFLIMIT in *.
    set (k := maxOut - op2 - 1). assert (Hk : 5 <= k) by (subst k; lia).
    assert (Hk2 : 12 - ml' <= k) by (subst k; lia).
    destruct (Z_lt_le_dec k 15) as [Hk15|Hk15].
    - pose proof (trunc_ge op2 k Hk ltac:(subst k; lia)) as (T2 & _). specialize (T2 Hk15). lia.
    - pose proof (trunc_ge op2 k Hk ltac:(subst k; lia)) as (_ & T3). specialize (T3 Hk15). lia.
  Qed.

  (* one sequence in fillOutput mode *)
  Lemma c_encode_fill s ml off :
    cFInv s -> s0 <= c_anchor s <= c_ip s -> c_ip s <= mflimit -> match_ok vrd lo (c_ip s) off ml -> c_ip s + ml <= matchlimit ->
    match c_encode vrd FillOutput s0 srcSize s ml off (maxOut - LASTLITERALS) with
    | inl s' => cFInv s'
    | inr r => cRFill r
    end.
  Proof.
    intros (ss & Hss & Hroom) Ha Hip Hm Hml. pose proof flimits as (L1 & L2 & L3).
    unfold c_encode. cbv zeta. cbn [hc_limited].
    set (e := encodeSequence vrd (c_ip s) (c_anchor s) (c_op s) ml off true (maxOut - LASTLITERALS)).
    assert (Hml4 : 4 <= ml) by (destruct Hm as (_ & ? & _); assumption).
    destruct (e_ret e =? 0) eqn:Er.
    - assert (Hret : e_ret e = 0) by lia.
      pose proof (out_ss_snoc vrd s0 srcSize lo (c_rout s) (c_anchor s) ss (c_ip s) ml off (c_op s) true (maxOut - LASTLITERALS)
                    Hss ltac:(lia) Hm ltac:(exact Hip) ltac:(unfold mi_matchlimit, mi_iend in *; unfold hc_matchlimit, hc_iend in *; lia)) as Hsn.
      cbv zeta in Hsn. fold e in Hsn. specialize (Hsn Hret).
      pose proof (encodeSequence_success_room vrd (c_ip s) (c_anchor s) (c_op s) ml off (maxOut - LASTLITERALS)
                    ltac:(lia) ltac:(unfold MINMATCH; lia)) as Hrm. cbv zeta in Hrm. fold e in Hrm. specialize (Hrm Hret).
      eexists. split; [exact Hsn|]. cbn [c_op].
      intros q r Hq. rewrite rev_app_distr in Hq. cbn [rev app] in Hq. inversion Hq; subst q r; clear Hq.
      cbn [s_mlen]. unfold LASTLITERALS in Hrm.
      pose proof (trunc_ge (e_op e) 9 ltac:(lia) ltac:(lia)) as (T1 & _). specialize (T1 ltac:(lia)). lia.
    - apply (c_dest_overflow_fill _ ss); cbn [c_ip c_anchor c_op c_rout]; try assumption.
  Qed.

  Lemma cFInv_init t : cFInv (mkS s0 s0 0 [] t 0).
  Proof.
    exists []. cbn [c_rout c_anchor c_op]. split; [cbn; repeat split; reflexivity|]. intros q r Hq; discriminate Hq.
  Qed.

  Lemma cFInv_same s s' : cFInv s -> c_rout s' = c_rout s -> c_anchor s' = c_anchor s -> c_op s' = c_op s -> cFInv s'.
  Proof. intros (ss & H1 & H2) E1 E2 E3. exists ss. rewrite E1, E2, E3. split; assumption. Qed.

  Lemma c_ll_fill s : cFInv s -> s0 <= c_anchor s <= iend -> cRFill (c_last_literals vrd FillOutput s0 srcSize s maxOut).
  Proof. intros (ss & H1 & H2) Ha. apply (c_last_literals_fill s ss); assumption. Qed.
End ChainFill.
