(* Ring safety of the two decoding pipelines (Model/Pipeline.v, kinds DecLegacy and DecLZ4F):
   in every reachable state the ownership flag s_viol is false, i.e.
     - when the main thread refills inBuffs[k mod NB], no submitted-and-unfinished decode job reads that slot,
     - when the legacy decoder starts block k into outBuffs[k mod NB], no unfinished write job holds that slot,
     - when the LZ4F decoder hands BufferPool buffer j mod PB to a write job, no unfinished write job holds it,
   provided  NB >= TQ + 2,  NB >= WQ + 2 (legacy),  PB >= WQ + 2 (LZ4F),  TQ/WQ the queue depths of the
   two one-worker pools.  Proved as an inductive invariant of pstep for all block counts and all schedules. *)
From Coq Require Import ZArith List Bool Arith Lia.
From LZ4V Require Import Model.WriteReg Model.TPool Model.Pipeline Proofs.TPoolProofs.
Import ListNotations.

(* ------------------------------------------------------------------ generic list facts *)
Lemma existsb_false_iff : forall (A : Type) (f : A -> bool) l,
  existsb f l = false <-> (forall x, In x l -> f x = false).
Proof.
  intros A f l. induction l as [|a l IH]; cbn [existsb In].
  - split; [intros _ x []|reflexivity].
  - rewrite orb_false_iff, IH. split.
    + intros [Ha Hl] x [<-|Hx]; auto.
    + intros H. split; [apply H; left; reflexivity|intros x Hx; apply H; right; exact Hx].
Qed.

Lemma flat_map_Some : forall (A : Type) (l : list A),
  flat_map (fun s : option A => match s with Some j => [j] | None => [] end) (map Some l) = l.
Proof. induction l as [|a l IH]; cbn [map flat_map app]; [reflexivity|]. rewrite IH. reflexivity. Qed.

Lemma queued_ring : forall (p : pool job) l, ring_ok p l -> queued p = l.
Proof. intros p l R. unfold queued. rewrite (ring_q_list job p l R). apply flat_map_Some. Qed.

Lemma sum_firstn_S : forall l k, sum_list (firstn (S k) l) = sum_list (firstn k l) + nth k l 0.
Proof.
  induction l as [|a l IH]; intros k.
  - destruct k; reflexivity.
  - destruct k.
    + cbn [firstn sum_list fold_right nth]. lia.
    + change (firstn (S (S k)) (a :: l)) with (a :: firstn (S k) l).
      change (firstn (S k) (a :: l)) with (a :: firstn k l).
      change (nth (S k) (a :: l) 0) with (nth k l 0).
      change (sum_list (a :: firstn (S k) l)) with (a + sum_list (firstn (S k) l)).
      change (sum_list (a :: firstn k l)) with (a + sum_list (firstn k l)).
      rewrite IH. lia.
Qed.

(* ------------------------------------------------------------------ the two decoders, uniformly *)
Definition is_dec (c : cfg) : Prop := c_kind c = DecLegacy \/ c_kind c = DecLZ4F.
Definition JD (c : cfg) (k : nat) : job := match c_kind c with DecLZ4F => JFDec k | _ => JDec k end.
Definition JW (c : cfg) (j : nat) : job := match c_kind c with DecLZ4F => JFW j | _ => JWDec j end.
Definition cnt (c : cfg) (k : nat) : nat := match c_kind c with DecLZ4F => nth k (c_outs c) 0 | _ => 1 end.
Definition base (c : cfg) (k : nat) : nat := match c_kind c with DecLZ4F => outs_before c k | _ => k end.
Definition ndec (c : cfg) : nat := match c_kind c with DecLZ4F => length (c_outs c) | _ => c_nblocks c end.

Lemma base_S : forall c k, base c (S k) = base c k + cnt c k.
Proof.
  intros c k. unfold base, cnt, outs_before. destruct (c_kind c); try lia. apply sum_firstn_S.
Qed.

Lemma subs_JD : forall c k i, is_dec c ->
  nth_error (job_subs c (JD c k)) i = if i <? cnt c k then Some (PW, JW c (base c k + i)) else None.
Proof.
  intros c k i [E|E]; unfold JD, JW, cnt, base; rewrite E; cbn [job_subs].
  - destruct i as [|i]; cbn [nth_error Nat.ltb Nat.leb]; [rewrite Nat.add_0_r; reflexivity|].
    destruct i; reflexivity.
  - destruct (i <? nth k (c_outs c) 0) eqn:L.
    + apply Nat.ltb_lt in L. rewrite nth_error_map, nth_error_nth' with (d := 0) by (rewrite seq_length; exact L).
      rewrite seq_nth by exact L. reflexivity.
    + apply Nat.ltb_ge in L. apply nth_error_None. rewrite map_length, seq_length. exact L.
Qed.

Lemma subs_JW : forall c j i, is_dec c -> nth_error (job_subs c (JW c j)) i = None.
Proof. intros c j i [E|E]; unfold JW; rewrite E; cbn [job_subs]; destruct i; reflexivity. Qed.

(* the tail of the main program of both decoders, for a one-worker tPool *)
Definition dtail : list mop :=
  [MJobsCompleted PT; MJobsCompleted PW; MShutdown PW; MBroadcast PW; MJoin 2; MShutdown PT; MBroadcast PT; MJoin 1].
Definition loop_from (c : cfg) (m : nat) : list mop :=
  flat_map (fun k => [MRefill k; MSubmit PT (JD c k)]) (seq m (ndec c - m)).

Lemma loop_from_unfold : forall c m, m < ndec c ->
  loop_from c m = MRefill m :: MSubmit PT (JD c m) :: loop_from c (S m).
Proof.
  intros c m H. unfold loop_from. replace (ndec c - m) with (S (ndec c - S m)) by lia. reflexivity.
Qed.

Lemma loop_from_end : forall c m, ndec c <= m -> loop_from c m = [].
Proof. intros c m H. unfold loop_from. replace (ndec c - m) with 0 by lia. reflexivity. Qed.

Lemma main_program_dec : forall c, is_dec c -> c_N c = 1 -> main_program c = loop_from c 0 ++ dtail.
Proof.
  intros c [E|E] HN; unfold main_program, loop_from, JD, ndec, free_pool, dtail; rewrite E, HN, Nat.sub_0_r; reflexivity.
Qed.

(* ------------------------------------------------------------------ states that differ only by who waits / who has been woken *)
Definition wsim (w w' : wstate) : Prop :=
  w' = w \/ (w = WWaitPop /\ w' = WIdle) \/ (exists j i, w = WSubWait j i /\ w' = WSubWoken j i).

Definition pool_eq (p p' : pool job) : Prop :=
  q_arr p' = q_arr p /\ q_head p' = q_head p /\ q_tail p' = q_tail p /\ q_size p' = q_size p /\
  q_empty p' = q_empty p /\ n_busy p' = n_busy p /\ t_limit p' = t_limit p /\ shut p' = shut p.

Record sim (st st' : state) : Prop := {
  sim_ops : s_mops st' = s_mops st;
  sim_pt : pool_eq (s_pt st) (s_pt st');
  sim_pw : pool_eq (s_pw st) (s_pw st');
  sim_ws : Forall2 wsim (s_ws st) (s_ws st');
  sim_viol : s_viol st' = s_viol st
}.

Lemma pool_eq_refl : forall p, pool_eq p p.
Proof. intros p. repeat split. Qed.

Lemma pool_eq_trans : forall p q r, pool_eq p q -> pool_eq q r -> pool_eq p r.
Proof.
  intros p q r (A1&A2&A3&A4&A5&A6&A7&A8) (B1&B2&B3&B4&B5&B6&B7&B8).
  repeat split; congruence.
Qed.

Lemma wsim_refl : forall w, wsim w w.
Proof. intros w. left. reflexivity. Qed.

Lemma wsim_trans : forall a b c, wsim a b -> wsim b c -> wsim a c.
Proof.
  intros a b c [->|[[-> ->]|[j [i [-> ->]]]]] H; [exact H| |].
  - destruct H as [->|[[E _]|[j [i [E _]]]]]; try discriminate. right. left. auto.
  - destruct H as [->|[[E _]|[j' [i' [E _]]]]]; try discriminate. right. right. eauto.
Qed.

Lemma Forall2_wsim_refl : forall l, Forall2 wsim l l.
Proof. induction l; constructor; [apply wsim_refl|assumption]. Qed.

Lemma Forall2_wsim_trans : forall a b c, Forall2 wsim a b -> Forall2 wsim b c -> Forall2 wsim a c.
Proof.
  intros a b c H. revert c. induction H; intros c' H2; inversion H2; subst; constructor.
  - eapply wsim_trans; eassumption.
  - apply IHForall2. assumption.
Qed.

Lemma sim_refl : forall st, sim st st.
Proof. intros st. constructor; try reflexivity; try apply pool_eq_refl. apply Forall2_wsim_refl. Qed.

Lemma sim_trans : forall a b c, sim a b -> sim b c -> sim a c.
Proof.
  intros a b c [A1 A2 A3 A4 A5] [B1 B2 B3 B4 B5]. constructor.
  - congruence.
  - eapply pool_eq_trans; eassumption.
  - eapply pool_eq_trans; eassumption.
  - eapply Forall2_wsim_trans; eassumption.
  - congruence.
Qed.

Lemma Forall2_wsim_set_nth : forall l n w w',
  nth_error l n = Some w -> wsim w w' -> Forall2 wsim l (set_nth n w' l).
Proof.
  induction l as [|a l IH]; intros n w w' H S; destruct n; cbn [nth_error set_nth] in *; try discriminate.
  - injection H as ->. constructor; [exact S|apply Forall2_wsim_refl].
  - constructor; [apply wsim_refl|]. eapply IH; eassumption.
Qed.

Lemma sim_set_err : forall st, sim st (set_err st).
Proof. intros st. constructor; cbn; try reflexivity; try apply pool_eq_refl. apply Forall2_wsim_refl. Qed.

Lemma wake_thread_sim : forall st t, sim st (wake_thread st t).
Proof.
  intros st [t|]; [|apply sim_refl]. unfold wake_thread. destruct t as [|t].
  - destruct (s_mst st); try apply sim_set_err.
    constructor; cbn; try reflexivity; try apply pool_eq_refl. apply Forall2_wsim_refl.
  - destruct (nth_error (s_ws st) (S t - 1)) as [w|] eqn:E; [|apply sim_set_err].
    destruct w; try apply sim_set_err.
    + constructor; cbn; try reflexivity; try apply pool_eq_refl.
      eapply Forall2_wsim_set_nth; [exact E|]. right. left. auto.
    + constructor; cbn; try reflexivity; try apply pool_eq_refl.
      eapply Forall2_wsim_set_nth; [exact E|]. right. right. eauto.
Qed.

Lemma wake_all_sim : forall ts st, sim st (wake_all st ts).
Proof.
  unfold wake_all. induction ts as [|t ts IH]; intros st; cbn [fold_left]; [apply sim_refl|].
  eapply sim_trans; [apply wake_thread_sim|apply IH].
Qed.

Lemma sim_set_pool_waiters : forall st p pl',
  pool_eq (get_pool st p) pl' -> sim st (set_pool st p pl').
Proof.
  intros st p pl' H. destruct p; constructor; cbn; try reflexivity; try apply pool_eq_refl; try exact H; apply Forall2_wsim_refl.
Qed.

Lemma signal_push_sim : forall st p w st', signal_push st p w = Some st' -> sim st st'.
Proof.
  intros st p w st' H. unfold signal_push in H.
  destruct (wake (push_w (get_pool st p)) w) as [[ws' woken]|]; [|discriminate]. injection H as <-.
  eapply sim_trans; [|apply wake_thread_sim]. apply sim_set_pool_waiters. repeat split.
Qed.

Lemma signal_pop_sim : forall st p w st', signal_pop st p w = Some st' -> sim st st'.
Proof.
  intros st p w st' H. unfold signal_pop in H.
  destruct (wake (pop_w (get_pool st p)) w) as [[ws' woken]|]; [|discriminate]. injection H as <-.
  eapply sim_trans; [|apply wake_thread_sim]. apply sim_set_pool_waiters. repeat split.
Qed.

(* ------------------------------------------------------------------ the invariant *)
Inductive mpos := PLoop (m : nat) | PSub (m : nat) | PTail (q : nat).

Definition ops_of (c : cfg) (pos : mpos) : list mop :=
  match pos with
  | PLoop m => loop_from c m ++ dtail
  | PSub m => MSubmit PT (JD c m) :: loop_from c (S m) ++ dtail
  | PTail q => skipn q dtail
  end.
Definition pos_ok (c : cfg) (pos : mpos) : Prop :=
  match pos with PLoop m => m <= ndec c | PSub m => m < ndec c | PTail q => q <= 8 end.
Definition submitted (c : cfg) (pos : mpos) : nat :=
  match pos with PLoop m | PSub m => m | PTail _ => ndec c end.
Definition past (pos : mpos) (q0 : nat) : Prop := exists q, pos = PTail q /\ q0 <= q.

Definition running (w : wstate) : bool :=
  match w with WRun _ _ | WSubWait _ _ | WSubWoken _ _ => true | _ => false end.
Definition b2n (b : bool) : nat := if b then 1 else 0.
Definition wsub_of (c : cfg) (lo : nat) (w1 : wstate) : nat :=
  match w1 with WRun _ i | WSubWait _ i | WSubWoken _ i => base c lo + i | _ => base c lo end.
Definition w1_ok (c : cfg) (lo : nat) (w1 : wstate) : Prop :=
  match w1 with
  | WRun j i => j = JD c lo /\ i <= cnt c lo
  | WSubWait j i | WSubWoken j i => j = JD c lo /\ i < cnt c lo
  | _ => True
  end.
Definition w2_ok (c : cfg) (lw : nat) (w2 : wstate) : Prop :=
  match w2 with
  | WRun j i => j = JW c lw /\ i = 0
  | WSubWait _ _ | WSubWoken _ _ => False
  | _ => True
  end.

Inductive dinv (c : cfg) (st : state) : Prop :=
  DInv : forall (pos : mpos) (lo lw : nat) (w1 w2 : wstate),
    s_mops st = ops_of c pos -> pos_ok c pos ->
    s_ws st = [w1; w2] ->
    w1_ok c lo w1 -> w2_ok c lw w2 ->
    lo + b2n (running w1) <= submitted c pos ->
    ring_ok (s_pt st) (map (JD c) (seq (lo + b2n (running w1)) (submitted c pos - (lo + b2n (running w1))))) ->
    lw + b2n (running w2) <= wsub_of c lo w1 ->
    ring_ok (s_pw st) (map (JW c) (seq (lw + b2n (running w2)) (wsub_of c lo w1 - (lw + b2n (running w2))))) ->
    q_size (s_pt st) = c_tdepth c + 1 -> q_size (s_pw st) = c_wdepth c + 1 ->
    n_busy (s_pt st) = b2n (running w1) -> n_busy (s_pw st) = b2n (running w2) ->
    t_limit (s_pt st) = 1 -> t_limit (s_pw st) = 1 ->
    (shut (s_pt st) = true -> past pos 6) ->
    (shut (s_pw st) = true -> past pos 3) ->
    (past pos 1 -> running w1 = false /\ submitted c pos = lo) ->
    s_viol st = false ->
    dinv c st.

Lemma wsim_running : forall w w', wsim w w' -> running w' = running w.
Proof. intros w w' [->|[[-> ->]|[j [i [-> ->]]]]]; reflexivity. Qed.
Lemma wsim_wsub : forall c lo w w', wsim w w' -> wsub_of c lo w' = wsub_of c lo w.
Proof. intros c lo w w' [->|[[-> ->]|[j [i [-> ->]]]]]; reflexivity. Qed.
Lemma wsim_w1 : forall c lo w w', wsim w w' -> w1_ok c lo w -> w1_ok c lo w'.
Proof. intros c lo w w' [->|[[-> ->]|[j [i [-> ->]]]]] H; [exact H|exact I|exact H]. Qed.
Lemma wsim_w2 : forall c lw w w', wsim w w' -> w2_ok c lw w -> w2_ok c lw w'.
Proof. intros c lw w w' [->|[[-> ->]|[j [i [-> ->]]]]] H; [exact H|exact I|exact H]. Qed.

Lemma ring_ok_eq : forall (p p' : pool job) l, pool_eq p p' -> ring_ok p l -> ring_ok p' l.
Proof.
  intros p p' l (A1&A2&A3&A4&A5&_) R. eapply ring_ok_ext; eassumption.
Qed.

Lemma dinv_sim : forall c st st', dinv c st -> sim st st' -> dinv c st'.
Proof.
  intros c st st' [pos lo lw w1 w2 Hops Hpos Hws H1 H2 Hle1 R1 Hle2 R2 Sz1 Sz2 B1 B2 L1 L2 S1 S2 Q V]
         [Eops Ept Epw Ews Ev].
  rewrite Hws in Ews. inversion Ews as [|? w1' ? l' Hw1 Hrest]; subst.
  inversion Hrest as [|? w2' ? l'' Hw2 Hnil]; subst. inversion Hnil; subst.
  pose proof Ept as (_&_&_&Es1&_&Eb1&El1&Esh1). pose proof Epw as (_&_&_&Es2&_&Eb2&El2&Esh2).
  apply (DInv c st' pos lo lw w1' w2');
    rewrite ?(wsim_running _ _ Hw1), ?(wsim_running _ _ Hw2), ?(wsim_wsub c lo _ _ Hw1); try congruence.
  - eapply wsim_w1; eassumption.
  - eapply wsim_w2; eassumption.
  - eapply ring_ok_eq; eassumption.
  - eapply ring_ok_eq; eassumption.
  - rewrite Esh1. exact S1.
  - rewrite Esh2. exact S2.
  - exact Q.
Qed.

Lemma sim_set_w : forall a b t x, sim a b -> sim (set_w a t x) (set_w b t x).
Proof.
  intros a b t x [E1 E2 E3 E4 E5]. constructor; cbn; try assumption.
  revert E4. generalize (s_ws a) (s_ws b) (t - 1). intros l l' n H. revert n.
  induction H; intros n; destruct n; cbn [set_nth]; constructor; auto using wsim_refl.
Qed.

Lemma sim_set_main : forall a b ops ops' m m', sim a b -> ops' = ops -> sim (set_main a ops m) (set_main b ops' m').
Proof. intros a b ops ops' m m' [E1 E2 E3 E4 E5] ->. constructor; cbn; assumption || reflexivity. Qed.

(* effects that only touch the trace / flags / write register *)
Lemma start_effects_core : forall c st t j,
  s_ws (start_effects c st t j) = s_ws st /\ s_pt (start_effects c st t j) = s_pt st /\
  s_pw (start_effects c st t j) = s_pw st /\ s_mops (start_effects c st t j) = s_mops st /\
  s_mst (start_effects c st t j) = s_mst st.
Proof. intros c st t j. destruct j; repeat split. Qed.
Lemma sub_effects_core : forall c st t p j,
  s_ws (sub_effects c st t p j) = s_ws st /\ s_pt (sub_effects c st t p j) = s_pt st /\
  s_pw (sub_effects c st t p j) = s_pw st /\ s_mops (sub_effects c st t p j) = s_mops st /\
  s_mst (sub_effects c st t p j) = s_mst st.
Proof. intros c st t p j. destruct j; repeat split. Qed.
Lemma live_jobs_core : forall st st', s_ws st' = s_ws st -> s_pt st' = s_pt st -> s_pw st' = s_pw st ->
  live_jobs st' = live_jobs st.
Proof. intros st st' E1 E2 E3. unfold live_jobs. rewrite E1, E2, E3. reflexivity. Qed.

(* ------------------------------------------------------------------ preservation *)
Section Dec.
Variable c : cfg.
Hypothesis Hdec : is_dec c.
Hypothesis HN : c_N c = 1.
Hypothesis HTQ : 1 <= c_tdepth c.
Hypothesis HWQ : 1 <= c_wdepth c.
Hypothesis Hin : c_tdepth c + 2 <= c_NB c.
Hypothesis Hout_leg : c_kind c = DecLegacy -> c_wdepth c + 2 <= c_NB c.
Hypothesis Hout_f : c_kind c = DecLZ4F -> c_wdepth c + 2 <= c_PB c.

Lemma JD_not_JW : forall k j, JD c k <> JW c j.
Proof. intros k j. unfold JD, JW. destruct (c_kind c); discriminate. Qed.

Lemma seq_snoc : forall a n, seq a (S n) = seq a n ++ [a + n].
Proof. intros a n. rewrite seq_S. reflexivity. Qed.

(* which jobs are live in a state satisfying the invariant *)
Lemma live_spec : forall st pos lo lw w1 w2,
  s_ws st = [w1; w2] -> w1_ok c lo w1 -> w2_ok c lw w2 ->
  ring_ok (s_pt st) (map (JD c) (seq (lo + b2n (running w1)) (submitted c pos - (lo + b2n (running w1))))) ->
  ring_ok (s_pw st) (map (JW c) (seq (lw + b2n (running w2)) (wsub_of c lo w1 - (lw + b2n (running w2))))) ->
  lo + b2n (running w1) <= submitted c pos -> lw + b2n (running w2) <= wsub_of c lo w1 ->
  q_size (s_pt st) = c_tdepth c + 1 -> q_size (s_pw st) = c_wdepth c + 1 ->
  (submitted c pos <= lo + c_tdepth c + 1 /\ wsub_of c lo w1 <= lw + c_wdepth c + 1) /\
  forall x, In x (live_jobs st) ->
    (exists k, x = JD c k /\ lo <= k < submitted c pos) \/ (exists j, x = JW c j /\ lw <= j < wsub_of c lo w1).
Proof.
  intros st pos lo lw w1 w2 Hws H1 H2 R1 R2 Hle1 Hle2 Sz1 Sz2.
  assert (B1 : submitted c pos - (lo + b2n (running w1)) < c_tdepth c + 1).
  { destruct R1 as [H [_ [_ [_ [_ [L _]]]]]]. rewrite map_length, seq_length, Sz1 in L. exact L. }
  assert (B2 : wsub_of c lo w1 - (lw + b2n (running w2)) < c_wdepth c + 1).
  { destruct R2 as [H [_ [_ [_ [_ [L _]]]]]]. rewrite map_length, seq_length, Sz2 in L. exact L. }
  assert (b2n (running w1) <= 1) by (destruct (running w1); cbn; lia).
  assert (b2n (running w2) <= 1) by (destruct (running w2); cbn; lia).
  split; [lia|].
  intros x Hx. unfold live_jobs in Hx. rewrite (queued_ring _ _ R1), (queued_ring _ _ R2), Hws in Hx.
  cbn [flat_map] in Hx. rewrite app_nil_r in Hx.
  apply in_app_or in Hx. destruct Hx as [Hx|Hx].
  { apply in_map_iff in Hx. destruct Hx as [k [<- Hk]]. apply in_seq in Hk. left. exists k. split; [reflexivity|lia]. }
  apply in_app_or in Hx. destruct Hx as [Hx|Hx].
  { apply in_map_iff in Hx. destruct Hx as [j [<- Hj]]. apply in_seq in Hj. right. exists j. split; [reflexivity|lia]. }
  apply in_app_or in Hx. destruct Hx as [Hx|Hx].
  - left. exists lo. destruct w1; cbn [job_of_wstate In] in Hx; try contradiction;
      destruct Hx as [<-|[]]; cbn [w1_ok running b2n] in *; destruct H1 as [-> _]; (split; [reflexivity|lia]).
  - right. exists lw. destruct w2; cbn [job_of_wstate In] in Hx; try contradiction;
      destruct Hx as [<-|[]]; cbn [w2_ok running b2n] in *; try contradiction; destruct H2 as [-> _]; (split; [reflexivity|lia]).
Qed.

(* the three ownership tests never fire *)
Lemma no_refill_conflict : forall st pos lo lw w1 w2 m,
  (submitted c pos <= lo + c_tdepth c + 1) ->
  (forall x, In x (live_jobs st) ->
    (exists k, x = JD c k /\ lo <= k < submitted c pos) \/ (exists j, x = JW c j /\ lw <= j < wsub_of c lo w1)) ->
  s_ws st = [w1; w2] -> submitted c pos = m ->
  refill_conflict c st m = false.
Proof.
  intros st pos lo lw w1 w2 m Hb Hl _ Hm. unfold refill_conflict. apply existsb_false_iff. intros x Hx.
  destruct (Hl x Hx) as [[k [-> Hk]]|[j [-> _]]].
  - assert (E : (k mod c_NB c =? m mod c_NB c) = false).
    { apply Nat.eqb_neq. apply mod_neq2; lia. }
    unfold JD. destruct (c_kind c); exact E.
  - unfold JW. destruct (c_kind c); reflexivity.
Qed.

Lemma no_out_conflict : forall st pos lo lw w1 k,
  c_kind c = DecLegacy ->
  wsub_of c lo w1 <= lw + c_wdepth c + 1 -> wsub_of c lo w1 = k ->
  (forall x, In x (live_jobs st) ->
    (exists k, x = JD c k /\ lo <= k < submitted c pos) \/ (exists j, x = JW c j /\ lw <= j < wsub_of c lo w1)) ->
  decode_out_conflict c st k = false.
Proof.
  intros st pos lo lw w1 k E Hb Hk Hl. unfold decode_out_conflict. apply existsb_false_iff. intros x Hx.
  specialize (Hout_leg E).
  destruct (Hl x Hx) as [[k' [-> _]]|[j [-> Hj]]].
  - unfold JD. rewrite E. reflexivity.
  - unfold JW. rewrite E. apply Nat.eqb_neq. apply mod_neq2; lia.
Qed.

Lemma no_pool_conflict : forall st pos lo lw w1 n,
  c_kind c = DecLZ4F ->
  wsub_of c lo w1 <= lw + c_wdepth c + 1 -> wsub_of c lo w1 = n ->
  (forall x, In x (live_jobs st) ->
    (exists k, x = JD c k /\ lo <= k < submitted c pos) \/ (exists j, x = JW c j /\ lw <= j < wsub_of c lo w1)) ->
  pool_buf_conflict c st n = false.
Proof.
  intros st pos lo lw w1 n E Hb Hn Hl. unfold pool_buf_conflict. apply existsb_false_iff. intros x Hx.
  specialize (Hout_f E).
  destruct (Hl x Hx) as [[k' [-> _]]|[j [-> Hj]]].
  - unfold JD. rewrite E. reflexivity.
  - unfold JW. rewrite E. apply andb_false_iff. left. apply Nat.eqb_neq. apply mod_neq2; lia.
Qed.

Lemma own1 : own_pool c 1 = PT.
Proof. unfold own_pool. rewrite HN. reflexivity. Qed.
Lemma own2 : own_pool c 2 = PW.
Proof. unfold own_pool. rewrite HN. reflexivity. Qed.

Ltac scbn := cbn [s_pt s_pw s_ws s_mops s_mst s_wr s_out s_err s_viol s_step s_trace
  set_pool set_ws set_w set_main set_err or_viol add_event set_wr next_step get_pool
  set_push_w set_pop_w pool_job_done pool_set_shutdown
  q_arr q_head q_tail q_size n_busy q_empty t_limit shut push_w pop_w submitted ops_of pos_ok
  running b2n wsub_of w1_ok w2_ok Nat.sub set_nth].
Ltac bcase b H E := destruct (Bool.bool_dec b true) as [E|E]; [|apply Bool.not_true_is_false in E]; rewrite E in H.
Ltac mk n := match goal with MK : forall q' st2, _ |- _ =>
  apply (MK n); [lia|first [eassumption|reflexivity]|reflexivity|repeat split|repeat split|reflexivity| | | ] end.
Ltac tl := match goal with S1 : _ -> 6 <= _, S2 : _ -> 3 <= _, Q : _ -> _ /\ _ |- _ =>
  first [ solve [auto]
        | solve [let P := fresh in intros P; try (specialize (S1 P)); try (specialize (S2 P)); lia]
        | solve [intros _; apply Q; lia] ] end.
Ltac inv_dinv2 H :=
  destruct H as [pos0 lo0 lw0 w10 w20 Hops0 Hpos0 Hws0 H10 H20 Hle10 R10 Hle20 R20 Sz10 Sz20 B10 B20 L10 L20 S10 S20 Q0 V0].
Ltac inv_dinv H :=
  destruct H as [pos lo lw w1 w2 Hops Hpos Hws H1 H2 Hle1 R1 Hle2 R2 Sz1 Sz2 B1 B2 L1 L2 S1 S2 Q V].

Lemma JD_inj : forall a b, JD c a = JD c b -> a = b.
Proof. intros a b. unfold JD. destruct (c_kind c); intros H; injection H; auto. Qed.

Lemma dinv_add_event : forall st e, dinv c st -> dinv c (add_event st e).
Proof. intros st e H. inv_dinv H. apply (DInv c _ pos lo lw w1 w2); assumption. Qed.

Lemma dinv_or_viol : forall st b, dinv c st -> b = false -> dinv c (or_viol st b).
Proof.
  intros st b H ->. inv_dinv H. apply (DInv c _ pos lo lw w1 w2); try assumption.
  cbn. rewrite V. reflexivity.
Qed.

(* TPool_submitJob(wPool, JW (base lo + i)) by the decoder thread, running JD lo with i submits done *)
Lemma w1_submit : forall st st2 w lo i w1 w2 b,
  dinv c st -> s_ws st = [w1; w2] ->
  (w1 = WRun (JD c lo) i \/ w1 = WSubWoken (JD c lo) i) -> i < cnt c lo ->
  submit_cs st 1 PW (JW c (base c lo + i)) w = Some (st2, b) ->
  dinv c (set_w st2 1 (if b then WRun (JD c lo) (S i) else WSubWait (JD c lo) i)).
Proof.
  intros st st2 w lo0 i w1_ w2_ b D Hws0 Hw1 Hi Hsub.
  inv_dinv D. rewrite Hws in Hws0. injection Hws0 as <- <-.
  assert (lo0 = lo).
  { destruct Hw1 as [->| ->]; cbn [w1_ok] in H1; destruct H1 as [E _]; apply JD_inj in E; exact E. }
  subst lo0.
  assert (Hrun : running w1 = true) by (destruct Hw1 as [->| ->]; reflexivity).
  assert (Hwsub : wsub_of c lo w1 = base c lo + i) by (destruct Hw1 as [->| ->]; reflexivity).
  unfold submit_cs in Hsub. cbn [get_pool] in Hsub.
  rewrite (ring_full job _ _ R2), map_length, seq_length in Hsub.
  assert (Esh : shut (s_pw st) = false).
  { (* wPool cannot be shut down while a decode job runs *)
    destruct (shut (s_pw st)) eqn:E; [exfalso|reflexivity].
    destruct (S2 eq_refl) as [q [-> Hq]]. destruct Q as [Q1 _]; [exists q; split; [reflexivity|lia]|]. congruence. }
  rewrite Esh in Hsub. cbn [negb] in Hsub. rewrite andb_true_r in Hsub.
  destruct (S (wsub_of c lo w1 - (lw + b2n (running w2))) =? q_size (s_pw st)) eqn:Efull.
  - (* queue full: wait on queuePushCond *)
    injection Hsub as <- <-.
    apply (DInv c _ pos lo lw (WSubWait (JD c lo) i) w2); cbn; rewrite ?Hws; try assumption; try reflexivity.
    + split; [reflexivity|exact Hi].
    + rewrite Hrun in Hle1. exact Hle1.
    + rewrite Hrun in R1. exact R1.
    + rewrite Hwsub in Hle2. exact Hle2.
    + rewrite Hwsub in R2. eapply ring_ok_ext; [exact R2|reflexivity..].
    + rewrite B1, Hrun. reflexivity.
    + intros P. destruct (Q P) as [Q1 _]. congruence.
  - (* room: push, signal queuePopCond *)
    apply Nat.eqb_neq in Efull.
    destruct (signal_pop _ PW w) as [st3|] eqn:Esig; [|discriminate]. injection Hsub as <- <-.
    eapply dinv_sim; [|apply sim_set_w; eapply signal_pop_sim; exact Esig].
    assert (Hlen : S (wsub_of c lo w1 - (lw + b2n (running w2))) < q_size (s_pw st)).
    { destruct R2 as [H [_ [_ [_ [_ [L _]]]]]]. rewrite map_length, seq_length in L. lia. }
    pose proof (ring_push job _ _ (JW c (base c lo + i)) R2) as RP.
    rewrite map_length, seq_length in RP. specialize (RP Hlen).
    apply (DInv c _ pos lo lw (WRun (JD c lo) (S i)) w2); cbn; rewrite ?Hws; try assumption; try reflexivity.
    + split; [reflexivity|lia].
    + rewrite Hrun in Hle1. exact Hle1.
    + rewrite Hrun in R1. exact R1.
    + rewrite Hwsub in Hle2. lia.
    + rewrite Hwsub in RP, Hle2.
      replace (base c lo + S i - (lw + b2n (running w2))) with (S (base c lo + i - (lw + b2n (running w2)))) by lia.
      rewrite seq_snoc, map_app. cbn [map].
      replace (lw + b2n (running w2) + (base c lo + i - (lw + b2n (running w2)))) with (base c lo + i) by lia.
      exact RP.
    + rewrite B1, Hrun. reflexivity.
    + intros P. destruct (Q P) as [Q1 _]. congruence.
Qed.

Lemma step_w1 : forall st w st', dinv c st -> worker_step c st 1 w = Some st' -> dinv c st'.
Proof.
  intros st w st' D Hstep. pose proof D as D0. inv_dinv D.
  unfold worker_step in Hstep. rewrite own1, Hws in Hstep. cbn [Nat.sub nth_error] in Hstep.
  destruct w1 as [| |j i|j i|j i| |].
  - (* WIdle *)
    cbn [get_pool] in Hstep. unfold worker_must_wait in Hstep. rewrite B1, L1 in Hstep.
    cbn [running b2n Nat.leb orb] in *. rewrite orb_false_r in Hstep. rewrite Nat.add_0_r in *.
    destruct (q_empty (s_pt st)) eqn:Eem.
    + bcase (shut (s_pt st)) Hstep Esh; injection Hstep as <-.
      * apply (DInv c _ pos lo lw WExit w2); cbn; rewrite ?Hws, ?Nat.add_0_r; try assumption; try reflexivity.
      * apply (DInv c _ pos lo lw WWaitPop w2); cbn; rewrite ?Hws, ?Nat.add_0_r; try assumption; try reflexivity.
    + (* pop the oldest job: JD lo *)
      assert (Hne : submitted c pos - lo <> 0).
      { intros E. rewrite E in R1. apply (ring_empty job _ _) in R1. cbn in R1. destruct R1 as [_ R1]. rewrite R1 in Eem by reflexivity. discriminate. }
      replace (submitted c pos - lo) with (S (submitted c pos - S lo)) in R1 by lia. cbn [seq map] in R1.
      destruct (ring_pop job _ _ _ R1) as [p' [Epop [R1' [Eb [El [Es [Epw [Eqw Esz]]]]]]]].
      rewrite Epop in Hstep.
      destruct (signal_push _ PT w) as [st3|] eqn:Esig; [|discriminate]. injection Hstep as <-.
      eapply dinv_sim; [|apply sim_set_w; eapply signal_push_sim; exact Esig].
      apply (DInv c _ pos lo lw (WRun (JD c lo) 0) w2); cbn; rewrite ?Hws, ?Nat.add_0_r; try assumption; try reflexivity; try lia.
      * split; [reflexivity|lia].
      * replace (lo + 1) with (S lo) by lia. exact R1'.
      * rewrite Es. exact S1.
      * intros P. destruct (Q P) as [_ Q2]. lia.
  - discriminate.
  - (* WRun j i *)
    cbn [w1_ok] in H1. destruct H1 as [-> Hi].
    cbn [running b2n wsub_of] in *.
    destruct (live_spec st pos lo lw (WRun (JD c lo) i) w2 Hws (conj eq_refl Hi) H2 R1 R2 Hle1 Hle2 Sz1 Sz2) as [[Bd1 Bd2] Hlive].
    set (st1 := if i =? 0 then start_effects c st 1 (JD c lo) else st) in Hstep.
    assert (D1 : dinv c st1 /\ s_ws st1 = s_ws st /\ live_jobs st1 = live_jobs st).
    { unfold st1. destruct (i =? 0) eqn:Ei; [|auto]. apply Nat.eqb_eq in Ei. subst i.
      destruct (start_effects_core c st 1 (JD c lo)) as (E1&E2&E3&_).
      split; [|split; [exact E1|apply live_jobs_core; assumption]]. unfold start_effects. apply dinv_add_event.
      pose proof Hdec as Hd. destruct Hd as [Ek|Ek]; unfold JD at 1; rewrite Ek; [|exact D0].
      apply dinv_or_viol; [exact D0|].
      eapply (no_out_conflict st pos lo lw (WRun (JD c lo) 0) lo Ek); cbn [wsub_of]; try eassumption.
      unfold base. rewrite Ek. lia. }
    destruct D1 as [D1 [Ews1 Elive1]]. clearbody st1.
    rewrite subs_JD in Hstep by exact Hdec.
    destruct (i <? cnt c lo) eqn:Elt.
    + apply Nat.ltb_lt in Elt.
      set (st1' := sub_effects c st1 1 PW (JW c (base c lo + i))) in Hstep.
      assert (D1' : dinv c st1' /\ s_ws st1' = s_ws st).
      { split; [|unfold st1'; destruct (sub_effects_core c st1 1 PW (JW c (base c lo + i))) as (E1&_); rewrite E1; exact Ews1].
        unfold st1', sub_effects. apply dinv_add_event.
        pose proof Hdec as Hd. destruct Hd as [Ek|Ek]; unfold JW at 1; rewrite Ek; [exact D1|].
        apply dinv_or_viol; [exact D1|]. unfold pool_buf_conflict. rewrite Elive1.
        eapply (no_pool_conflict st pos lo lw (WRun (JD c lo) i) _ Ek); cbn [wsub_of]; try eassumption. reflexivity. }
      destruct D1' as [D1' Ews1']. clearbody st1'.
      destruct (submit_cs st1' 1 PW (JW c (base c lo + i)) w) as [[st2 b]|] eqn:Esub; [|discriminate].
      pose proof (w1_submit st1' st2 w lo i (WRun (JD c lo) i) w2 b D1' (eq_trans Ews1' Hws) (or_introl eq_refl) Elt Esub) as D2.
      destruct b; injection Hstep as <-; exact D2.
    + (* job body ends *)
      apply Nat.ltb_ge in Elt. assert (i = cnt c lo) by lia. subst i.
      set (st2 := add_event (body_effects c st1 1 (JD c lo)) (EvEnd (s_step st) 1 (JD c lo))) in Hstep.
      assert (D2 : dinv c st2 /\ s_ws st2 = s_ws st /\ s_pt st2 = s_pt st1).
      { pose proof Hdec as Hd. unfold st2, body_effects, JD.
        destruct Hd as [Ek|Ek]; rewrite Ek; (split; [apply dinv_add_event; exact D1|split; [exact Ews1|reflexivity]]). }
      destruct D2 as [D2 [Ews2 Ept2]]. clearbody st2.
      inv_dinv2 D2. rewrite Ews2, Hws in Hws0. injection Hws0 as <- <-.
      cbn [w1_ok] in H10. destruct H10 as [E1 _]. apply JD_inj in E1. subst lo0.
      cbn [running b2n wsub_of] in *.
      destruct (signal_push _ PT w) as [st3|] eqn:Esig; [|discriminate]. injection Hstep as <-.
      eapply dinv_sim; [|apply sim_set_w; eapply signal_push_sim; exact Esig].
      apply (DInv c _ pos0 (S lo) lw0 WIdle w2); cbn; rewrite ?Ews2, ?Hws, ?Nat.add_0_r; try assumption; try reflexivity; try lia.
      * replace (S lo) with (lo + 1) by lia. eapply ring_ok_ext; [exact R10|reflexivity..].
      * rewrite base_S. exact Hle20.
      * rewrite base_S. exact R20.
      * intros P. destruct (Q0 P) as [Q1 _]. discriminate.
  - discriminate.
  - (* WSubWoken j i *)
    cbn [w1_ok] in H1. destruct H1 as [-> Hi].
    rewrite subs_JD in Hstep by exact Hdec.
    assert (Elt : (i <? cnt c lo) = true) by (apply Nat.ltb_lt; exact Hi). rewrite Elt in Hstep.
    destruct (submit_cs st 1 PW (JW c (base c lo + i)) w) as [[st2 b]|] eqn:Esub; [|discriminate].
    pose proof (w1_submit st st2 w lo i (WSubWoken (JD c lo) i) w2 b D0 Hws (or_intror eq_refl) Hi Esub) as D2.
    destruct b; injection Hstep as <-; exact D2.
  - (* WExit *)
    injection Hstep as <-.
    assert (D2 : dinv c (set_w st 1 WDone)).
    { apply (DInv c _ pos lo lw WDone w2); cbn; rewrite ?Hws; try assumption; reflexivity. }
    destruct (s_mst st) as [|pp| |tj|]; try exact D2. destruct (tj =? 1); [|exact D2].
    eapply dinv_sim; [exact D2|]. constructor; cbn; try reflexivity; try apply pool_eq_refl. apply Forall2_wsim_refl.
  - discriminate.
Qed.

Lemma start_effects_JW : forall st t j, start_effects c st t (JW c j) = add_event st (EvStart (s_step st) t (JW c j)).
Proof. intros st t j. unfold start_effects, JW. destruct (c_kind c); reflexivity. Qed.
Lemma body_effects_JW : forall st t j, body_effects c st t (JW c j) = st.
Proof. intros st t j. unfold body_effects, JW. destruct (c_kind c); reflexivity. Qed.

Lemma step_w2 : forall st w st', dinv c st -> worker_step c st 2 w = Some st' -> dinv c st'.
Proof.
  intros st w st' D Hstep. pose proof D as D0. inv_dinv D.
  unfold worker_step in Hstep. rewrite own2, Hws in Hstep. cbn [Nat.sub nth_error] in Hstep.
  destruct w2 as [| |j i|j i|j i| |].
  - (* WIdle *)
    cbn [get_pool] in Hstep. unfold worker_must_wait in Hstep. rewrite B2, L2 in Hstep.
    cbn [running b2n Nat.leb orb] in *. rewrite orb_false_r in Hstep. rewrite Nat.add_0_r in *.
    destruct (q_empty (s_pw st)) eqn:Eem.
    + bcase (shut (s_pw st)) Hstep Esh; injection Hstep as <-.
      * apply (DInv c _ pos lo lw w1 WExit); cbn; rewrite ?Hws, ?Nat.add_0_r; try assumption; try reflexivity.
      * apply (DInv c _ pos lo lw w1 WWaitPop); cbn; rewrite ?Hws, ?Nat.add_0_r; try assumption; try reflexivity.
    + assert (Hne : wsub_of c lo w1 - lw <> 0).
      { intros E. rewrite E in R2. apply (ring_empty job _ _) in R2. cbn in R2. destruct R2 as [_ R2]. rewrite R2 in Eem by reflexivity. discriminate. }
      replace (wsub_of c lo w1 - lw) with (S (wsub_of c lo w1 - S lw)) in R2 by lia. cbn [seq map] in R2.
      destruct (ring_pop job _ _ _ R2) as [p' [Epop [R2' [Eb [El [Es [Epw [Eqw Esz]]]]]]]].
      rewrite Epop in Hstep.
      destruct (signal_push _ PW w) as [st3|] eqn:Esig; [|discriminate]. injection Hstep as <-.
      eapply dinv_sim; [|apply sim_set_w; eapply signal_push_sim; exact Esig].
      apply (DInv c _ pos lo lw w1 (WRun (JW c lw) 0)); cbn; rewrite ?Hws, ?Nat.add_0_r; try assumption; try reflexivity; try lia.
      * split; reflexivity.
      * replace (lw + 1) with (S lw) by lia. exact R2'.
      * rewrite Es. exact S2.
  - discriminate.
  - (* WRun (JW lw) 0 *)
    cbn [w2_ok] in H2. destruct H2 as [-> ->]. cbn [Nat.eqb] in Hstep.
    rewrite start_effects_JW, subs_JW, body_effects_JW in Hstep by exact Hdec.
    cbn [running b2n] in *.
    destruct (signal_push _ PW w) as [st3|] eqn:Esig; [|discriminate]. injection Hstep as <-.
    eapply dinv_sim; [|apply sim_set_w; eapply signal_push_sim; exact Esig].
    apply (DInv c _ pos lo (S lw) w1 WIdle); cbn; rewrite ?Hws, ?Nat.add_0_r; try assumption; try reflexivity; try lia.
    replace (S lw) with (lw + 1) by lia. eapply ring_ok_ext; [exact R2|reflexivity..].
  - contradiction.
  - contradiction.
  - injection Hstep as <-.
    assert (D2 : dinv c (set_w st 2 WDone)).
    { apply (DInv c _ pos lo lw w1 WDone); cbn; rewrite ?Hws; try assumption; reflexivity. }
    cbn [set_w set_ws s_mst]. destruct (s_mst st) as [|pp| |tj|]; try exact D2. destruct (tj =? 2); [|exact D2].
    eapply dinv_sim; [exact D2|]. constructor; cbn; try reflexivity; try apply pool_eq_refl. apply Forall2_wsim_refl.
  - discriminate.
Qed.

Lemma past_tail : forall q k, k <= q -> past (PTail q) k.
Proof. intros q k H. exists q. auto. Qed.
Lemma past_inv : forall q k, past (PTail q) k -> k <= q.
Proof. intros q k [q' [E H]]. injection E as <-. exact H. Qed.
Lemma past_loop : forall m k, past (PLoop m) k -> False.
Proof. intros m k [q [E _]]. discriminate. Qed.
Lemma past_sub : forall m k, past (PSub m) k -> False.
Proof. intros m k [q [E _]]. discriminate. Qed.

Lemma sub_effects_JD : forall st t p k, sub_effects c st t p (JD c k) = add_event st (EvSub (s_step st) t p (JD c k)).
Proof. intros st t p k. unfold sub_effects, JD. destruct (c_kind c); reflexivity. Qed.

Lemma ops_of_PSub_inv : forall pos m, pos_ok c pos -> ops_of c pos = ops_of c (PSub m) -> pos = PSub m.
Proof.
  intros pos m Hpos E. destruct pos as [m'|m'|q']; cbn [ops_of] in E.
  - destruct (Nat.lt_ge_cases m' (ndec c)) as [Hm'|Hm'].
    + rewrite (loop_from_unfold c m' Hm') in E. discriminate.
    + rewrite loop_from_end in E by lia. discriminate.
  - injection E as E _. apply JD_inj in E. subst. reflexivity.
  - exfalso. cbn [pos_ok] in Hpos. do 9 (destruct q' as [|q']; [discriminate|]). lia.
Qed.

(* TPool_submitJob(tPool, JD m) by the main thread *)
Lemma main_submit : forall st st2 w m b,
  dinv c st -> s_mops st = ops_of c (PSub m) ->
  submit_cs st 0 PT (JD c m) w = Some (st2, b) ->
  forall mst, dinv c (set_main st2 (if b then loop_from c (S m) ++ dtail else s_mops st) mst).
Proof.
  intros st st2 w m b D Hm Hsub mst. inv_dinv D.
  assert (pos = PSub m) by (apply ops_of_PSub_inv; [exact Hpos|congruence]). subst pos.
  cbn [submitted pos_ok] in *.
  assert (Esh : shut (s_pt st) = false).
  { destruct (shut (s_pt st)) eqn:E; [exfalso|reflexivity]. eapply past_sub. apply S1. reflexivity. }
  assert (Esh2 : shut (s_pw st) = false).
  { destruct (shut (s_pw st)) eqn:E; [exfalso|reflexivity]. eapply past_sub. apply S2. reflexivity. }
  unfold submit_cs in Hsub. cbn [get_pool] in Hsub.
  rewrite (ring_full job _ _ R1), map_length, seq_length, Esh in Hsub. cbn [negb] in Hsub. rewrite andb_true_r in Hsub.
  destruct (S (m - (lo + b2n (running w1))) =? q_size (s_pt st)) eqn:Efull.
  - injection Hsub as <- <-.
    apply (DInv c _ (PSub m) lo lw w1 w2); cbn; try assumption; try (intros P; congruence).
  - apply Nat.eqb_neq in Efull.
    destruct (signal_pop _ PT w) as [st3|] eqn:Esig; [|discriminate]. injection Hsub as <- <-.
    eapply dinv_sim; [|apply sim_set_main; [eapply signal_pop_sim; exact Esig|reflexivity]].
    assert (Hlen : S (m - (lo + b2n (running w1))) < q_size (s_pt st)).
    { destruct R1 as [H [_ [_ [_ [_ [L _]]]]]]. rewrite map_length, seq_length in L. lia. }
    pose proof (ring_push job _ _ (JD c m) R1) as RP.
    rewrite map_length, seq_length in RP. specialize (RP Hlen).
    apply (DInv c (set_main _ _ mst) (PLoop (S m)) lo lw w1 w2);
      cbn [s_pt s_pw s_ws s_mops s_viol set_main set_pool submitted ops_of pos_ok pool_push q_size n_busy t_limit shut];
      try assumption; try reflexivity; try (intros P; congruence); try lia.
    + replace (S m - (lo + b2n (running w1))) with (S (m - (lo + b2n (running w1)))) by lia.
      rewrite seq_snoc, map_app. cbn [map].
      replace (lo + b2n (running w1) + (m - (lo + b2n (running w1)))) with m by lia. exact RP.
    + intros P. exfalso. eapply past_loop. exact P.
Qed.

Lemma main_run_tail : forall f,
  (forall st w woken st', dinv c st -> main_run f c st w woken = Some st' -> dinv c st') ->
  forall q st w woken st' lo lw w1 w2,
    s_mops st = skipn q dtail -> q <= 8 ->
    s_ws st = [w1; w2] -> w1_ok c lo w1 -> w2_ok c lw w2 ->
    lo + b2n (running w1) <= ndec c ->
    ring_ok (s_pt st) (map (JD c) (seq (lo + b2n (running w1)) (ndec c - (lo + b2n (running w1))))) ->
    lw + b2n (running w2) <= wsub_of c lo w1 ->
    ring_ok (s_pw st) (map (JW c) (seq (lw + b2n (running w2)) (wsub_of c lo w1 - (lw + b2n (running w2))))) ->
    q_size (s_pt st) = c_tdepth c + 1 -> q_size (s_pw st) = c_wdepth c + 1 ->
    n_busy (s_pt st) = b2n (running w1) -> n_busy (s_pw st) = b2n (running w2) ->
    t_limit (s_pt st) = 1 -> t_limit (s_pw st) = 1 ->
    (shut (s_pt st) = true -> 6 <= q) ->
    (shut (s_pw st) = true -> 3 <= q) ->
    (1 <= q -> running w1 = false /\ ndec c = lo) ->
    s_viol st = false ->
    main_run (S f) c st w woken = Some st' -> dinv c st'.
Proof.
  intros f IH q st w woken st' lo lw w1 w2 Hops Hq Hws H1 H2 Hle1 R1 Hle2 R2 Sz1 Sz2 B1 B2 L1 L2 S1 S2 Q V Hrun.
  (* the invariant at tail position q' for a state with the same pools and workers *)
  assert (MK : forall q' st2, q' <= 8 -> s_mops st2 = skipn q' dtail ->
                s_ws st2 = s_ws st -> pool_eq (s_pt st) (s_pt st2) -> pool_eq (s_pw st) (s_pw st2) -> s_viol st2 = s_viol st ->
                (shut (s_pt st) = true -> 6 <= q') -> (shut (s_pw st) = true -> 3 <= q') ->
                (1 <= q' -> running w1 = false /\ ndec c = lo) -> dinv c st2).
  { intros q' st2 Hq' Eo Ew Ept Epw Ev S1' S2' Q'.
    pose proof Ept as (_&_&_&Es1&_&Eb1&El1&Esh1). pose proof Epw as (_&_&_&Es2&_&Eb2&El2&Esh2).
    apply (DInv c st2 (PTail q') lo lw w1 w2); cbn [ops_of pos_ok submitted]; try congruence; try assumption.
    - eapply ring_ok_eq; eassumption.
    - eapply ring_ok_eq; eassumption.
    - rewrite Esh1. intros P. apply past_tail. auto.
    - rewrite Esh2. intros P. apply past_tail. auto.
    - intros P. apply past_inv in P. auto. }
  cbn [main_run] in Hrun. rewrite Hops in Hrun.
  destruct q as [|[|[|[|[|[|[|[|[|q]]]]]]]]]; [..|lia]; cbn [skipn dtail] in Hrun.
  - (* MJobsCompleted PT *)
    cbn [get_pool] in Hrun. unfold jobs_pending in Hrun.
    destruct (negb (q_empty (s_pt st)) || (0 <? n_busy (s_pt st))) eqn:Ep; injection Hrun as <-.
    + mk 0; tl.
    + apply orb_false_iff in Ep. destruct Ep as [Ee Eb]. apply negb_false_iff in Ee. apply Nat.ltb_ge in Eb.
      assert (Hr : running w1 = false) by (destruct (running w1); [cbn in B1; lia|reflexivity]).
      rewrite Hr in *. cbn [b2n] in *. rewrite Nat.add_0_r in *.
      apply (ring_empty job _ _ R1) in Ee.
      assert (ndec c = lo) by (destruct (ndec c - lo) eqn:E; [lia|discriminate]).
      mk 1; tl.
  - (* MJobsCompleted PW *)
    cbn [get_pool] in Hrun.
    destruct (jobs_pending (s_pw st)); injection Hrun as <-.
    + mk 1; tl.
    + mk 2; tl.
  - (* MShutdown PW *)
    injection Hrun as <-.
    apply (DInv c _ (PTail 3) lo lw w1 w2); cbn [ops_of pos_ok submitted]; cbn; try assumption; try reflexivity; try lia.
    + intros P. specialize (S1 P). lia.
    + intros _. apply past_tail. lia.
    + intros P. apply past_inv in P. apply Q. lia.
  - (* MBroadcast PW ; continue *)
    apply IH in Hrun; [exact Hrun|].
    eapply dinv_sim; [|eapply sim_set_main with (m := MRunnable); [eapply sim_trans; [|eapply sim_trans; apply wake_all_sim]|reflexivity]].
    2:{ apply sim_set_pool_waiters. repeat split. }
    mk 4; tl.
  - (* MJoin 2 *)
    destruct (thread_done st 2).
    + apply IH in Hrun; [exact Hrun|]. mk 5; tl.
    + injection Hrun as <-. mk 4; tl.
  - (* MShutdown PT *)
    injection Hrun as <-.
    apply (DInv c _ (PTail 6) lo lw w1 w2); cbn [ops_of pos_ok submitted]; cbn; try assumption; try reflexivity; try lia.
    + intros _. apply past_tail. lia.
    + intros _. apply past_tail. lia.
    + intros P. apply past_inv in P. apply Q. lia.
  - (* MBroadcast PT ; continue *)
    apply IH in Hrun; [exact Hrun|].
    eapply dinv_sim; [|eapply sim_set_main with (m := MRunnable); [eapply sim_trans; [|eapply sim_trans; apply wake_all_sim]|reflexivity]].
    2:{ apply sim_set_pool_waiters. repeat split. }
    mk 7; tl.
  - (* MJoin 1 *)
    destruct (thread_done st 1).
    + apply IH in Hrun; [exact Hrun|]. mk 8; tl.
    + injection Hrun as <-. mk 7; tl.
  - (* program finished *)
    injection Hrun as <-. mk 8; tl.
Qed.

Lemma main_run_dinv : forall fuel st w woken st',
  dinv c st -> main_run fuel c st w woken = Some st' -> dinv c st'.
Proof.
  induction fuel as [|f IH]; intros st w woken st' D Hrun.
  { cbn in Hrun. injection Hrun as <-. eapply dinv_sim; [exact D|apply sim_set_err]. }
  pose proof D as D0. inv_dinv D. cbn [main_run] in Hrun. rewrite Hops in Hrun.
  destruct pos as [m|m|q]; cbn [ops_of pos_ok submitted] in *.
  - (* about to refill slot m, or the loop is over *)
    destruct (Nat.lt_ge_cases m (ndec c)) as [Hm|Hm].
    + rewrite (loop_from_unfold c m Hm) in Hrun. cbn [app] in Hrun.
      apply IH in Hrun; [exact Hrun|].
      destruct (live_spec st (PLoop m) lo lw w1 w2 Hws H1 H2 R1 R2 Hle1 Hle2 Sz1 Sz2) as [[Bd1 Bd2] Hlive].
      apply (DInv c _ (PSub m) lo lw w1 w2); cbn; try assumption; try reflexivity.
      * intros P. exfalso. eapply past_loop. apply S1. exact P.
      * intros P. exfalso. eapply past_loop. apply S2. exact P.
      * intros P. exfalso. eapply past_sub. exact P.
      * rewrite V. cbn [orb].
        eapply (no_refill_conflict st (PLoop m) lo lw w1 w2 m); try eassumption. reflexivity.
    + (* m = ndec c : position 0 of the tail *)
      assert (m = ndec c) by lia. subst m.
      eapply (main_run_tail f IH 0 st w woken st' lo lw w1 w2); try eassumption; try lia.
      * rewrite Hops, loop_from_end by lia. reflexivity.
      * intros P. exfalso. eapply past_loop. apply S1. exact P.
      * intros P. exfalso. eapply past_loop. apply S2. exact P.
      * cbn [main_run]. rewrite Hops. exact Hrun.
  - (* TPool_submitJob(tPool, JD m) *)
    set (st1 := if woken then st else sub_effects c st 0 PT (JD c m)) in Hrun.
    assert (D1 : dinv c st1 /\ s_mops st1 = s_mops st).
    { unfold st1. destruct woken; [auto|]. rewrite sub_effects_JD. split; [apply dinv_add_event; exact D0|auto]. }
    destruct D1 as [D1 E3]. clearbody st1.
    destruct (submit_cs st1 0 PT (JD c m) w) as [[st2 b]|] eqn:Esub; [|discriminate].
    pose proof (main_submit st1 st2 w m b D1 (eq_trans E3 Hops) Esub) as D2.
    rewrite E3, Hops in D2. cbn [ops_of] in D2.
    destruct b; injection Hrun as <-; apply D2.
  - eapply (main_run_tail f IH q st w woken st' lo lw w1 w2); try eassumption; try lia.
    + intros P. apply S1 in P. apply past_inv in P. exact P.
    + intros P. apply S2 in P. apply past_inv in P. exact P.
    + intros P. apply Q. apply past_tail. exact P.
    + cbn [main_run]. rewrite Hops. exact Hrun.
Qed.

Lemma dinv_next_step : forall st, dinv c st -> dinv c (next_step st).
Proof. intros st H. inv_dinv H. apply (DInv c _ pos lo lw w1 w2); assumption. Qed.

Lemma pstep_dinv : forall st pk st', dinv c st -> pstep c st pk = Some st' -> dinv c st'.
Proof.
  intros st [t w] st' D H. unfold pstep in H.
  destruct t as [|t].
  - cbn [Nat.eqb] in H. unfold main_step in H.
    destruct (s_mst st); try discriminate;
      (destruct (main_run _ c st w _) as [st2|] eqn:E; [|discriminate]; injection H as <-;
       apply dinv_next_step; eapply main_run_dinv; eassumption).
  - cbn [Nat.eqb] in H.
    destruct (worker_step c st (S t) w) as [st2|] eqn:E; [|discriminate]. injection H as <-.
    apply dinv_next_step.
    destruct t as [|[|t]].
    + eapply step_w1; eassumption.
    + eapply step_w2; eassumption.
    + exfalso. inv_dinv D. unfold worker_step in E. rewrite Hws in E. cbn in E.
      destruct t; discriminate.
Qed.

Lemma init_dinv : dinv c (init_state c).
Proof.
  apply (DInv c _ (PLoop 0) 0 0 WIdle WIdle); unfold init_state; cbn [s_mops s_ws s_pt s_pw s_viol ops_of pos_ok submitted running b2n wsub_of w1_ok w2_ok].
  - apply main_program_dec; assumption.
  - lia.
  - rewrite HN. reflexivity.
  - exact I.
  - exact I.
  - lia.
  - rewrite HN. cbn [Nat.add Nat.sub]. destruct (ndec c); apply ring_create; exact HTQ.
  - unfold base. destruct (c_kind c); cbn [outs_before firstn sum_list fold_right]; lia.
  - replace (base c 0) with 0 by (unfold base, outs_before; destruct (c_kind c); reflexivity).
    apply ring_create. exact HWQ.
  - reflexivity.
  - reflexivity.
  - reflexivity.
  - reflexivity.
  - rewrite HN. reflexivity.
  - reflexivity.
  - discriminate.
  - discriminate.
  - intros P. exfalso. eapply past_loop. exact P.
  - reflexivity.
Qed.

Lemma run_dinv : forall sched st st', dinv c st -> run c st sched = Some st' -> dinv c st'.
Proof.
  induction sched as [|pk sched IH]; intros st st' D H; cbn [run] in H.
  - injection H as <-. exact D.
  - destruct (pstep c st pk) as [st2|] eqn:E; [|discriminate]. eapply IH; [|exact H]. eapply pstep_dinv; eassumption.
Qed.

Theorem ring_safe : forall sched st, run c (init_state c) sched = Some st -> s_viol st = false.
Proof.
  intros sched st H. pose proof (run_dinv sched _ _ init_dinv H) as D. inv_dinv D. exact V.
Qed.

(* the parametric counting facts behind it, in every reachable state: at most TQ+1 decode jobs and WQ+1 write
   jobs are submitted-and-unfinished, and they are the most recent ones *)
Theorem ring_window : forall sched st, run c (init_state c) sched = Some st ->
  exists ms lo wsub lw,
    ms <= lo + c_tdepth c + 1 /\ wsub <= lw + c_wdepth c + 1 /\
    forall x, In x (live_jobs st) ->
      (exists k, x = JD c k /\ lo <= k < ms) \/ (exists j, x = JW c j /\ lw <= j < wsub).
Proof.
  intros sched st H. pose proof (run_dinv sched _ _ init_dinv H) as D. inv_dinv D.
  destruct (live_spec st pos lo lw w1 w2 Hws H1 H2 R1 R2 Hle1 Hle2 Sz1 Sz2) as [[Bd1 Bd2] Hlive].
  exists (submitted c pos), lo, (wsub_of c lo w1), lw. auto.
Qed.
End Dec.
