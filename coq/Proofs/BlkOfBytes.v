(* The run-time guard (d) of Proofs.BlkInstLinked.blk_of ("the output is a byte string") is redundant: under the per-call
   premises of the C11 theorems (fcall_ok / hcall_ok / ocall_ok) a successful call of the three streaming families emits
   bytes (Proofs.ParserBytesStream), so [blk_of] coincides with its unguarded form [blk_of_u], and the unguarded
   instances satisfy blk_contract / blk_bytes.  BlkInstLinked.v's definitions are untouched. *)
From Coq Require Import ZArith List Lia Bool.
From LZ4V Require Import Gen.Consts Spec.BlockSpec Model.Mem Model.Fast Model.FastApi Model.FastStream Model.HcEmit Model.HcMid Model.HcMidStream.
From LZ4V Require Import Model.HcChain Model.HcChainApi Model.HcOpt Model.HcOptApi Model.HcChainStream Model.HcTabStream Model.HcOptStream.
From LZ4V Require Import Proofs.BlockHistExt Proofs.FastStreamMem Proofs.FastStreamProofs Proofs.FastStreamHist.
From LZ4V Require Import Proofs.HcMidStreamProofs Proofs.HcMidStreamHist Proofs.HcChainStreamProofs Proofs.HcTabStreamProofs Proofs.HcOptStreamProofs.
From LZ4V Require Import Proofs.FrameCTheorems Proofs.FrameRoundTrip Proofs.BlkInstLinked Proofs.ParserBytesStream.
Import ListNotations.
Local Open Scope Z_scope.

(* a successful call emits bytes *)
Definition lcall_bytes (o : lcall) : Prop :=
  forall ret out, lc_res o = Some (ret, out) -> 0 < ret -> bytes_ok out = true.

(* blk_of without guard (d) *)
Definition blk_of_u (orc : nat -> lcall) (n : nat) (h x : list byte) : option (list byte) :=
  let o := orc n in
  if list_eq_dec Z.eq_dec x (lc_src o) then
    if list_eq_dec Z.eq_dec h (firstn (length h - length (lc_H o)) h ++ lc_H o) then
      match lc_res o with
      | Some (ret, out) => if 0 <? ret then Some out else None
      | None => None
      end
    else None
  else None.

Theorem blk_of_guard_true orc : (forall n, lcall_bytes (orc n)) -> forall n h x, blk_of orc n h x = blk_of_u orc n h x.
Proof.
  intros Hb n h x. unfold blk_of, blk_of_u. cbv zeta.
  destruct (list_eq_dec Z.eq_dec x (lc_src (orc n))); [|reflexivity].
  destruct (list_eq_dec Z.eq_dec h (firstn (length h - length (lc_H (orc n))) h ++ lc_H (orc n))); [|reflexivity].
  destruct (lc_res (orc n)) as [[ret out]|] eqn:E; [|reflexivity].
  destruct (0 <? ret) eqn:Er; [|reflexivity].
  rewrite (Hb n ret out E ltac:(lia)). reflexivity.
Qed.

Theorem blk_of_u_contract orc : (forall n, lcall_ok (orc n)) -> (forall n, lcall_bytes (orc n)) ->
  blk_contract strict_valid (blk_of_u orc) /\ blk_contract spec_decode (blk_of_u orc) /\ blk_bytes (blk_of_u orc).
Proof.
  intros Hok Hb. destruct (blk_of_contract orc Hok) as (C1 & C2 & C3).
  split; [|split]; intros n h x c Hc; rewrite <- (blk_of_guard_true orc Hb) in Hc.
  - exact (C1 n h x c Hc).
  - exact (C2 n h x c Hc).
  - exact (C3 n h x c Hc).
Qed.

(* ---- the three families ---- *)
Lemma lcall_fast_bytes o : fcall_ok o -> lcall_bytes (lcall_fast o).
Proof.
  intros (H1 & H2 & H3 & H4 & H5 & H6 & _) ret out Er Hr. unfold lcall_fast in Er. cbn [lc_res] in Er.
  injection Er as <- <-. apply fast_continue_bytes; assumption.
Qed.

Lemma lcall_mid_bytes o : hcall_ok o -> lcall_bytes (lcall_mid o).
Proof.
  intros ((Hm & K) & (Hd & Hs & Hn & Hcap) & _) ret out Er Hr. cbn [fst snd] in *.
  unfold lcall_mid in Er. cbn [lc_res hstep] in Er.
  destruct (hs_continue (hc_m o) (hc_c o) (hc_src o) (hc_n o) (hc_cap o)) as [[ret' consumed' out' hw' c']|] eqn:E; cbn [of_res] in Er; [|discriminate].
  injection Er as <- <-.
  exact (hs_continue_bytes (hc_m o) (hc_c o) (hc_src o) (hc_n o) (hc_cap o) ret' consumed' out' hw' c' Hm K Hd Hs Hn Hcap E).
Qed.

Lemma lcall_opt_bytes o : ocall_ok o -> lcall_bytes (lcall_opt o).
Proof.
  intros ((Hm & K) & (Hd & Hs & Hn & Hcap) & _) ret out Er Hr. cbn [fst snd] in *.
  unfold lcall_opt, ostep in Er. cbn [lc_res tstep] in Er.
  destruct (ts_continue blk_all lvl_all (oc_m o) (oc_c o) (oc_src o) (oc_n o) (oc_cap o)) as [[ret' consumed' out' hw' c']|] eqn:E; cbn [of_tres] in Er; [|discriminate].
  injection Er as <- <-.
  exact (os_continue_bytes (oc_m o) (oc_c o) (oc_src o) (oc_n o) (oc_cap o) ret' consumed' out' hw' c' Hm K Hd Hs Hn Hcap E).
Qed.

(* the unguarded instances *)
Definition blk_fast_u (orc : nat -> fcall) := blk_of_u (fun n => lcall_fast (orc n)).
Definition blk_mid_u (orc : nat -> hcall) := blk_of_u (fun n => lcall_mid (orc n)).
Definition blk_opt_u (orc : nat -> ocall) := blk_of_u (fun n => lcall_opt (orc n)).

Theorem blk_fast_guard_true orc : (forall n, fcall_ok (orc n)) -> forall n h x, BlkInstLinked.blk_fast orc n h x = blk_fast_u orc n h x.
Proof. intros H. apply blk_of_guard_true. intros n. apply lcall_fast_bytes. apply H. Qed.
Theorem blk_mid_guard_true orc : (forall n, hcall_ok (orc n)) -> forall n h x, BlkInstLinked.blk_mid orc n h x = blk_mid_u orc n h x.
Proof. intros H. apply blk_of_guard_true. intros n. apply lcall_mid_bytes. apply H. Qed.
Theorem blk_opt_guard_true orc : (forall n, ocall_ok (orc n)) -> forall n h x, BlkInstLinked.blk_opt orc n h x = blk_opt_u orc n h x.
Proof. intros H. apply blk_of_guard_true. intros n. apply lcall_opt_bytes. apply H. Qed.

Theorem blk_fast_u_contract orc : (forall n, fcall_ok (orc n)) ->
  blk_contract strict_valid (blk_fast_u orc) /\ blk_contract spec_decode (blk_fast_u orc) /\ blk_bytes (blk_fast_u orc).
Proof. intros H. apply blk_of_u_contract; intros n; [apply lcall_fast_ok | apply lcall_fast_bytes]; apply H. Qed.
Theorem blk_mid_u_contract orc : (forall n, hcall_ok (orc n)) ->
  blk_contract strict_valid (blk_mid_u orc) /\ blk_contract spec_decode (blk_mid_u orc) /\ blk_bytes (blk_mid_u orc).
Proof. intros H. apply blk_of_u_contract; intros n; [apply lcall_mid_ok | apply lcall_mid_bytes]; apply H. Qed.
Theorem blk_opt_u_contract orc : (forall n, ocall_ok (orc n)) ->
  blk_contract strict_valid (blk_opt_u orc) /\ blk_contract spec_decode (blk_opt_u orc) /\ blk_bytes (blk_opt_u orc).
Proof. intros H. apply blk_of_u_contract; intros n; [apply lcall_opt_ok | apply lcall_opt_bytes]; apply H. Qed.

Print Assumptions blk_fast_u_contract.
Print Assumptions blk_mid_u_contract.
Print Assumptions blk_opt_u_contract.
