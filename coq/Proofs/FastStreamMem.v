(* Memory and list lemmas used by the streaming proofs: store_list / load_list / blit over Model.Mem,
   the "last k elements" of a list, segments of a virtual index space as memory loads. *)
From Coq Require Import ZArith List Lia Bool.
From LZ4V Require Import Spec.BlockSpec Model.Mem Proofs.FactorSpec.
Import ListNotations.
Local Open Scope Z_scope.

Lemma load_list_length m a n : length (load_list m a n) = n.
Proof. revert a; induction n as [|n IH]; intros a; cbn [load_list length]; [reflexivity | rewrite IH; reflexivity]. Qed.

Lemma load_list_nth m a n k : (k < n)%nat -> nth_error (load_list m a n) k = Some (get m (a + Z.of_nat k)).
Proof.
  revert a k; induction n as [|n IH]; intros a k Hk; [lia|].
  destruct k as [|k]; cbn [load_list nth_error].
  - f_equal. f_equal. lia.
  - rewrite IH by lia. f_equal. f_equal. lia.
Qed.

Lemma load_list_ext m m' a a' n :
  (forall i, 0 <= i < Z.of_nat n -> get m (a + i) = get m' (a' + i)) -> load_list m a n = load_list m' a' n.
Proof.
  revert a a'; induction n as [|n IH]; intros a a' H; cbn [load_list]; [reflexivity|].
  f_equal.
  - specialize (H 0 ltac:(lia)). rewrite !Z.add_0_r in H. exact H.
  - apply IH. intros i Hi. replace (a + 1 + i) with (a + (i + 1)) by lia. replace (a' + 1 + i) with (a' + (i + 1)) by lia.
    apply H. lia.
Qed.

Lemma load_list_app m a n k : load_list m a (n + k) = load_list m a n ++ load_list m (a + Z.of_nat n) k.
Proof.
  revert a; induction n as [|n IH]; intros a; cbn [load_list Nat.add app].
  - f_equal. lia.
  - f_equal. rewrite IH. f_equal. f_equal. lia.
Qed.

Lemma get_store_list_out : forall l m a b, (b < a \/ a + Z.of_nat (length l) <= b) -> get (store_list m a l) b = get m b.
Proof.
  induction l as [|x l IH]; intros m a b H; cbn [store_list]; [reflexivity|].
  cbn [length] in H. rewrite IH by lia. apply get_set_other. lia.
Qed.

Lemma get_store_list_in : forall l m a k,
  (k < length l)%nat -> nth_error l k = Some (get (store_list m a l) (a + Z.of_nat k)).
Proof.
  induction l as [|x l IH]; intros m a k Hk; cbn [length] in Hk; [lia|].
  cbn [store_list]. destruct k as [|k]; cbn [nth_error].
  - rewrite get_store_list_out by lia. rewrite Z.add_0_r, get_set_same. reflexivity.
  - rewrite (IH (set m a x) (a + 1) k) by lia. f_equal. f_equal. lia.
Qed.

Lemma load_store_same l : forall m a, load_list (store_list m a l) a (length l) = l.
Proof.
  induction l as [|x l IH]; intros m a; cbn [store_list load_list length]; [reflexivity|].
  f_equal; [|apply IH].
  rewrite get_store_list_out by lia. apply get_set_same.
Qed.

Lemma load_store_other l m a b n :
  (b + Z.of_nat n <= a \/ a + Z.of_nat (length l) <= b) -> load_list (store_list m a l) b n = load_list m b n.
Proof.
  intros H. apply load_list_ext. intros i Hi. apply get_store_list_out. lia.
Qed.

Definition list_ok (l : list Z) : Prop := Forall (fun b => 0 <= b < 256) l.

Lemma store_list_ok l : forall m a, (forall x, 0 <= get m x < 256) -> list_ok l -> forall x, 0 <= get (store_list m a l) x < 256.
Proof.
  induction l as [|b l IH]; intros m a Hm Hl x; cbn [store_list]; [apply Hm|].
  inversion Hl; subst. apply IH; [|assumption].
  intros y. rewrite get_set. destruct (a =? y); [assumption | apply Hm].
Qed.

Lemma load_list_ok m a n : (forall x, 0 <= get m x < 256) -> list_ok (load_list m a n).
Proof.
  intros Hm. revert a; induction n as [|n IH]; intros a; cbn [load_list]; constructor; [apply Hm | apply IH].
Qed.

(* ---- the last k elements ---- *)
Definition lastn {A : Type} (k : nat) (l : list A) : list A := skipn (length l - k) l.

Lemma lastn_all {A} k (l : list A) : (length l <= k)%nat -> lastn k l = l.
Proof. intros H. unfold lastn. replace (length l - k)%nat with 0%nat by lia. reflexivity. Qed.

Lemma lastn_length {A} k (l : list A) : (k <= length l)%nat -> length (lastn k l) = k.
Proof. intros H. unfold lastn. rewrite skipn_length. lia. Qed.

Lemma lastn_app {A} k (l b : list A) :
  (k <= length l)%nat -> lastn (k + length b) (l ++ b) = lastn k l ++ b.
Proof.
  intros H. unfold lastn. rewrite app_length.
  replace (length l + length b - (k + length b))%nat with (length l - k)%nat by lia.
  rewrite skipn_app. replace (length l - k - length l)%nat with 0%nat by lia. reflexivity.
Qed.

Lemma lastn_app_r {A} (l b : list A) : lastn (length b) (l ++ b) = b.
Proof.
  unfold lastn. rewrite app_length. replace (length l + length b - length b)%nat with (length l) by lia.
  rewrite skipn_app, skipn_all, Nat.sub_diag. reflexivity.
Qed.

Lemma lastn_split {A} k (l : list A) : exists p, l = p ++ lastn k l /\ length p = (length l - k)%nat.
Proof.
  exists (firstn (length l - k) l). unfold lastn. rewrite firstn_skipn. split; [reflexivity|].
  rewrite firstn_length. lia.
Qed.

(* suffix of a memory load *)
Lemma load_list_suffix m a n k :
  (k <= n)%nat -> load_list m (a + Z.of_nat (n - k)) k = lastn k (load_list m a n).
Proof.
  intros H. unfold lastn. rewrite load_list_length.
  pose proof (load_list_app m a (n - k) k) as A. replace (n - k + k)%nat with n in A by lia.
  rewrite A, skipn_app, load_list_length, Nat.sub_diag.
  rewrite skipn_all2 by (rewrite load_list_length; lia). reflexivity.
Qed.

(* segments of a virtual index space that is a window on the memory *)
Lemma seg_as_load vrd m a b x :
  a <= b -> (forall i, 0 <= i < b - a -> vrd (a + i) = get m (x + i)) -> seg vrd a b = load_list m x (Z.to_nat (b - a)).
Proof.
  intros Hab H. unfold seg.
  assert (G : forall k a x, (forall i, 0 <= i < Z.of_nat k -> vrd (a + i) = get m (x + i)) -> bytes vrd k a = load_list m x k).
  { induction k as [|k IH]; intros a0 x0 H0; cbn [bytes load_list]; [reflexivity|].
    f_equal.
    - specialize (H0 0 ltac:(lia)). rewrite !Z.add_0_r in H0. exact H0.
    - apply IH. intros i Hi. replace (a0 + 1 + i) with (a0 + (i + 1)) by lia. replace (x0 + 1 + i) with (x0 + (i + 1)) by lia.
      apply H0. lia. }
  apply G. intros i Hi. apply H. lia.
Qed.
