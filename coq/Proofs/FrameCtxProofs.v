(* C19, compression-context half: after LZ4F_compressBegin on ANY prior bookkeeping state the
   block context in use is of the kind the level needs and fits its allocation. *)
From Coq Require Import ZArith List Lia Bool.
From LZ4V Require Import Gen.Consts Model.FrameCtx.
Local Open Scope Z_scope.

(* the only assumption on the prior state: the fields hold enum values; nothing about how the
   previous session ended *)
Definition cctx_wf (c : cctx) : Prop :=
  (c_alloc c = 0 \/ c_alloc c = 1 \/ c_alloc c = 2) /\ (c_type c = 0 \/ c_type c = 1 \/ c_type c = 2).

Lemma ctx_sizes : ctx_size 0 < ctx_size 1 /\ ctx_size 1 < ctx_size 2 /\ ctx_size 0 = 0.
Proof. vm_compute. repeat split; reflexivity. Qed.

Theorem cbegin_ok c level cap :
  cctx_wf c -> FD_maxFHSize <= cap ->
  let '(c', r) := cbegin c level cap in
  r = 0 /\ cend_ok c' level = true /\ cctx_wf c' /\ cstage_check c' = 0.
Proof.
  intros [Ha Ht] Hc. unfold cbegin.
  replace (cap <? FD_maxFHSize) with false by (symmetry; apply Z.ltb_ge; exact Hc).
  unfold cend_ok, cstage_check, cctx_wf. destruct c as [a t st]. cbn [c_alloc c_type c_stage] in *.
  destruct (level <? FD_CLEVEL_MIN);
    destruct Ha as [-> | [-> | ->]]; destruct Ht as [-> | [-> | ->]]; vm_compute; repeat split; auto.
Qed.

Theorem cbegin_small_cap c level cap :
  cap < FD_maxFHSize -> cbegin c level cap = (c, - FD_ERR_dstMaxSize_tooSmall).
Proof.
  intro H. unfold cbegin. replace (cap <? FD_maxFHSize) with true by (symmetry; apply Z.ltb_lt; exact H). reflexivity.
Qed.

(* every history of begin (any level, any capacity) / end keeps the enum invariant, so the theorem
   above applies after any history *)
Inductive cop := CBegin (level cap : Z) | CEnd.
Definition cstep (c : cctx) (o : cop) : cctx :=
  match o with CBegin level cap => fst (cbegin c level cap) | CEnd => cend c end.
Theorem chistory_wf ops : cctx_wf (fold_left cstep ops cctx_init).
Proof.
  assert (G : forall ops0 c, cctx_wf c -> cctx_wf (fold_left cstep ops0 c)).
  { clear ops. induction ops0 as [|o ops IH]; intros c H; [exact H|]. simpl. apply IH.
    destruct o as [level cap|]; simpl.
    - destruct (Z_lt_ge_dec cap FD_maxFHSize) as [L|L].
      + rewrite cbegin_small_cap by exact L. exact H.
      + pose proof (cbegin_ok c level cap H ltac:(lia)) as P. destruct (cbegin c level cap). simpl. tauto.
    - exact H. }
  apply G. unfold cctx_wf, cctx_init. simpl. auto.
Qed.

Theorem cbegin_after_any_history ops level cap :
  FD_maxFHSize <= cap ->
  let c := fold_left cstep ops cctx_init in
  let '(c', r) := cbegin c level cap in
  r = 0 /\ cend_ok c' level = true /\ cctx_wf c' /\ cstage_check c' = 0.
Proof. intro H. apply cbegin_ok; [apply chistory_wf|exact H]. Qed.
