(* C01 end to end at the model level: what the fast compressor model emits, the decoder model
   (LZ4_decompress_safe, fast loop on or off) turns back into the input, for every capacity >= n.
   Composition of FastApiSound (compressor => strict_valid) with DecRefineApi (strict_valid =>
   decoder model). *)
From Coq Require Import ZArith List Lia Bool.
From LZ4V Require Import Gen.Consts Spec.BlockSpec Proofs.BlockSpecProofs Model.Mem Model.Dec Model.DecApi
     Model.Fast Model.FastApi Proofs.FastApiSound Proofs.DecRefineSafe Proofs.DecRefineApi.
Import ListNotations.
Local Open Scope Z_scope.

Lemma bytes_ok_bytes l : bytes_ok l = true -> bytes l.
Proof.
  unfold bytes_ok, bytes. intros H. apply Forall_forall. intros b Hb.
  rewrite forallb_forall in H. specialize (H b Hb). unfold byte_ok in H.
  apply andb_prop in H. destruct H as [H1 H2]. apply Z.leb_le in H1. apply Z.ltb_lt in H2. lia.
Qed.

Lemma src_at_mem_of_list l : src_at (mem_of_list 0 l) 0 l.
Proof.
  unfold mem_of_list.
  assert (G : forall l m a j, (j < length l)%nat -> get (store_list m a l) (a + Z.of_nat j) = nth j l 0).
  { induction l0 as [|b r IH]; intros m a j Hj; [cbn in Hj; lia|].
    cbn [store_list]. destruct j as [|j].
    - cbn [nth]. replace (a + Z.of_nat 0) with a by lia.
      assert (K : forall r m a x, x < a -> get (store_list m a r) x = get m x).
      { induction r0 as [|c r' IHr]; intros m' a' x Hx; cbn [store_list]; [reflexivity|].
        rewrite IHr by lia. apply get_set_other. lia. }
      rewrite K by lia. apply get_set_same.
    - cbn [nth length] in *. replace (a + Z.of_nat (S j)) with (a + 1 + Z.of_nat j) by lia. apply IH. lia. }
  intros j Hj. apply G. exact Hj.
Qed.

Theorem compress_then_decompress_safe fastloop src n cap accel dcap m0 :
  src_ok src ->
  let a := compress_fast_extState src n cap accel in
  0 < a_ret a -> Z.of_nat (Z.to_nat n) <= dcap ->
  decodes_to (decompress_safe fastloop (mem_of_list 0 (a_out a)) (a_ret a) dcap m0)
             (load_list src 0 (Z.to_nat n)).
Proof.
  intros Hs. cbv zeta. intros Hr Hcap.
  pose proof (compress_fast_extState_roundtrip src n cap accel Hs) as R. cbv zeta in R.
  destruct (R Hr) as (R1 & R2).
  assert (Hb : bytes (a_out (compress_fast_extState src n cap accel))).
  { apply bytes_ok_bytes. unfold compress_fast_extState in *. cbv zeta in *.
    pose proof (clamp_accel_ge accel) as Hacc.
    destruct (cap >=? compressBound n);
      (match goal with |- bytes_ok (a_out (compress_generic_nodict ?c ?s ?nn ?cp ?od ?t ?sm ?ac)) = true =>
         pose proof (compress_generic_nodict_sound c s nn cp od t sm ac Hs ltac:(discriminate) Hacc
                       ltac:(cbn; lia) ltac:(cbn; lia) (tab_ok_init t sm) (ttype_for_u16 nn)
                       ltac:(intros Et _; left; pose proof (ttype_for_u16 _ Et); cbn; unfold LZ4_64Klimit, MFLIMIT in *; lia)) as H
       end; cbv zeta in H; destruct H as (_ & _ & H); destruct (H Hr) as (_ & _ & _ & B); exact B). }
  rewrite R1.
  apply (valid_decodes_nodict fastloop (a_out (compress_fast_extState src n cap accel))
           (load_list src 0 (Z.to_nat n)) (mem_of_list 0 (a_out (compress_fast_extState src n cap accel))) dcap m0 R2 Hb
           (src_at_mem_of_list _)).
  assert (Hlen : forall k a0, length (load_list src a0 k) = k).
  { induction k as [|k IH]; intros a0; cbn [load_list length]; [reflexivity | rewrite IH; reflexivity]. }
  rewrite Hlen. exact Hcap.
Qed.

Print Assumptions compress_then_decompress_safe.
