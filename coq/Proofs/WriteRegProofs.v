(* Proofs about Model/WriteReg.v: for every arrival order of the ranks 0..n-1,
   LZ4IO_checkWriteOrder writes the blocks in rank order, each exactly once,
   every intermediate output is a prefix of the rank-ordered list, and the
   register is empty at the end. *)
From Coq Require Import ZArith List Lia Bool Permutation Arith.
From LZ4V Require Import Gen.Consts Model.WriteReg.
Import ListNotations.
Local Open Scope Z_scope.

(* ------------------------------------------------------------------ *)
(* 1. the array is always "compact": descriptors first, then nulls      *)

Definition layout (ds : list desc) (k : nat) : list slot := map Some ds ++ repeat None k.

Definition has_rank (id : Z) (d : desc) : bool := d_rank d =? id.

Fixpoint rm (id : Z) (ds : list desc) : list desc :=
  match ds with
  | [] => []
  | d :: t => if d_rank d =? id then t else d :: rm id t
  end.

Lemma isPresent_layout : forall ds k id,
  WR_isPresent (layout ds k) id = existsb (has_rank id) ds.
Proof.
  unfold layout, has_rank. induction ds as [|d t IH]; intros k id; cbn [map app WR_isPresent existsb].
  - destruct k; reflexivity.
  - destruct (d_rank d =? id); [reflexivity|]. apply IH.
Qed.

Lemma getBufID_layout : forall ds k id,
  WR_getBufID (layout ds k) id = find (has_rank id) ds.
Proof.
  unfold layout, has_rank. induction ds as [|d t IH]; intros k id; cbn [map app WR_getBufID find].
  - destruct k; reflexivity.
  - destruct (d_rank d =? id); [reflexivity|]. apply IH.
Qed.

Lemma shift_down_layout : forall t k, WR_shift_down (layout t k) = layout t (S k).
Proof.
  unfold layout. induction t as [|d t IH]; intros k; cbn [map app WR_shift_down].
  - destruct k; reflexivity.
  - rewrite IH. reflexivity.
Qed.

Lemma remove_layout : forall ds k id,
  existsb (has_rank id) ds = true ->
  WR_removeBuffID (layout ds k) id = layout (rm id ds) (S k).
Proof.
  intros ds k id H. unfold WR_removeBuffID.
  assert (E : WR_remove_scan (layout ds k) id = Some (layout (rm id ds) (S k))).
  { revert H. unfold has_rank. induction ds as [|d t IH]; intros H; cbn [existsb] in H; [discriminate|].
    unfold layout. cbn [map app WR_remove_scan rm].
    destruct (d_rank d =? id) eqn:E.
    - fold (layout t k). rewrite shift_down_layout. reflexivity.
    - cbn [orb] in H. fold (layout t k). rewrite (IH H). reflexivity. }
  rewrite E. reflexivity.
Qed.

Lemma last_slot_app_cons : forall (a : list slot) x, last_slot (a ++ [x]) = Some x.
Proof.
  induction a as [|y a IH]; intros x; [reflexivity|].
  cbn [app]. specialize (IH x). destruct (a ++ [x]) as [|s l] eqn:E.
  - destruct a; discriminate.
  - exact IH.
Qed.

Lemma repeat_snoc : forall (A : Type) (x : A) n, repeat x (S n) = repeat x n ++ [x].
Proof. induction n; cbn [repeat app]; [reflexivity|]. f_equal. exact IHn. Qed.

Lemma put_first_null_layout : forall ds k bd,
  WR_put_first_null (layout ds (S k)) bd = (layout (ds ++ [bd]) k, true).
Proof.
  unfold layout. induction ds as [|d t IH]; intros k bd.
  - reflexivity.
  - cbn [map app WR_put_first_null]. rewrite IH. reflexivity.
Qed.

Lemma add_layout : forall ds k bd,
  (ds <> [] \/ (k > 0)%nat) ->
  exists k', WR_addBufDesc (layout ds k) bd = (layout (ds ++ [bd]) k', true).
Proof.
  intros ds k bd H. unfold WR_addBufDesc.
  destruct k as [|k].
  - (* array full: grow *)
    destruct H as [H|H]; [|lia].
    destruct (exists_last H) as [ds0 [dl E]]. subst ds.
    assert (L : last_slot (layout (ds0 ++ [dl]) 0) = Some (Some dl)).
    { unfold layout. cbn [repeat]. rewrite app_nil_r, map_app. cbn [map]. apply last_slot_app_cons. }
    rewrite L. eexists. unfold layout. cbn [repeat]. rewrite app_nil_r.
    rewrite (map_app Some (ds0 ++ [dl]) [bd]). cbn [map]. rewrite <- app_assoc. reflexivity.
  - assert (L : last_slot (layout ds (S k)) = Some None).
    { unfold layout. rewrite repeat_snoc, app_assoc. apply last_slot_app_cons. }
    rewrite L. exists k. apply put_first_null_layout.
Qed.

(* ------------------------------------------------------------------ *)
(* 2. facts about the abstract descriptor list                          *)

Definition ranks (ds : list desc) : list Z := map d_rank ds.

Lemma existsb_has_rank : forall ds id, existsb (has_rank id) ds = true <-> In id (ranks ds).
Proof.
  unfold ranks, has_rank. induction ds as [|d t IH]; intros id; cbn [existsb map In].
  - split; [discriminate|tauto].
  - rewrite orb_true_iff, IH, Z.eqb_eq. tauto.
Qed.

Lemma find_has_rank : forall ds id, In id (ranks ds) ->
  exists d, find (has_rank id) ds = Some d /\ In d ds /\ d_rank d = id.
Proof.
  unfold ranks, has_rank. induction ds as [|d t IH]; intros id H; cbn [map In find] in *; [tauto|].
  destruct (d_rank d =? id) eqn:E.
  - exists d. apply Z.eqb_eq in E. auto.
  - apply Z.eqb_neq in E. destruct H as [H|H]; [congruence|].
    destruct (IH id H) as [d' [F [I R]]]. exists d'. auto.
Qed.

Lemma rm_ranks : forall ds id, NoDup (ranks ds) ->
  forall x, In x (ranks (rm id ds)) <-> (In x (ranks ds) /\ x <> id).
Proof.
  unfold ranks. induction ds as [|d t IH]; intros id ND x; cbn [rm map In].
  - tauto.
  - inversion ND as [|? ? NI ND']; subst.
    destruct (d_rank d =? id) eqn:E.
    + apply Z.eqb_eq in E. subst id. split.
      * intros H. split; [auto|]. intros ->. contradiction.
      * intros [[H|H] N]; [congruence|exact H].
    + apply Z.eqb_neq in E. cbn [map In]. rewrite (IH id ND' x). split.
      * intros [H|[H N]]; [subst x; auto|auto].
      * intros [[H|H] N]; auto.
Qed.

Lemma rm_In : forall ds id d, In d (rm id ds) -> In d ds.
Proof.
  induction ds as [|a t IH]; intros id d; cbn [rm In]; [tauto|].
  destruct (d_rank a =? id); cbn [In]; intros H; [auto|]. destruct H; eauto.
Qed.

Lemma rm_NoDup : forall ds id, NoDup (ranks ds) -> NoDup (ranks (rm id ds)).
Proof.
  unfold ranks. induction ds as [|a t IH]; intros id ND; cbn [rm map]; [constructor|].
  inversion ND as [|? ? NI ND']; subst.
  destruct (d_rank a =? id); [exact ND'|]. cbn [map]. constructor; [|apply IH; exact ND'].
  intros H. apply NI. fold (ranks (rm id t)) in H. fold (ranks t).
  apply (rm_ranks t id ND') in H. tauto.
Qed.

Lemma rm_length : forall ds id, In id (ranks ds) -> S (length (rm id ds)) = length ds.
Proof.
  unfold ranks. induction ds as [|a t IH]; intros id H; cbn [rm map In length] in *; [tauto|].
  destruct (d_rank a =? id) eqn:E; [reflexivity|].
  apply Z.eqb_neq in E. destruct H as [H|H]; [congruence|]. cbn [length]. rewrite (IH id H). reflexivity.
Qed.

Lemma NoDup_app_snoc : forall (l : list Z) x, NoDup l -> ~ In x l -> NoDup (l ++ [x]).
Proof.
  induction l as [|a l IH]; intros x ND NI; cbn [app].
  - constructor; [intros []|constructor].
  - inversion ND as [|? ? NA ND']; subst. constructor.
    + intros H. apply in_app_or in H. destruct H as [H|[H|[]]]; [contradiction|subst; apply NI; left; reflexivity].
    + apply IH; [exact ND'|]. intros H. apply NI. right. exact H.
Qed.

Lemma NoDup_app_r : forall (A : Type) (l p : list A), NoDup (l ++ p) -> NoDup p.
Proof. induction l as [|a l IH]; intros p H; [exact H|]. inversion H; subst. apply IH. assumption. Qed.

Lemma NoDup_app_l : forall (A : Type) (l p : list A), NoDup (l ++ p) -> NoDup l.
Proof.
  induction l as [|a l IH]; intros p H; [constructor|]. inversion H as [|? ? NI ND]; subst. constructor.
  - intros Hin. apply NI, in_or_app. left. exact Hin.
  - apply (IH p). exact ND.
Qed.

Lemma NoDup_app_mid : forall (A : Type) (i : A) l p, NoDup (i :: l ++ p) -> NoDup (l ++ i :: p).
Proof.
  intros A i l p H. apply (Permutation_NoDup (l := i :: l ++ p)); [|exact H].
  apply Permutation_middle.
Qed.

(* ------------------------------------------------------------------ *)
(* 3. the invariant                                                     *)

Section Order.
Variable blocks : list (list Z).
Let n := length blocks.

Definition blk (i : nat) : desc := mkDesc (Z.of_nat i) (nth i blocks []).
Definition arrival (i : nat) : Z * list Z := (Z.of_nat i, nth i blocks []).

(* [p] = ranks that have arrived so far *)
Inductive inv (p : list nat) (w : wr_state) (out : list (list Z)) : Prop :=
  Build_inv : forall (e : nat) (ds : list desc) (k : nat),
    wr_expected w = Z.of_nat e ->
    wr_buffers w = layout ds k ->
    (ds <> [] \/ (k > 0)%nat) ->
    (forall i, (i < e)%nat -> In i p) ->
    ~ In e p ->
    (forall d, In d ds -> exists i, In i p /\ (i > e)%nat /\ d = blk i) ->
    (forall i, In i p -> (i > e)%nat -> In (Z.of_nat i) (ranks ds)) ->
    NoDup (ranks ds) ->
    out = firstn e blocks ->
    wr_total w = Z.of_nat (length (concat out)) ->
    inv p w out.

Lemma firstn_S_nth : forall (l : list (list Z)) e, (e < length l)%nat ->
  firstn (S e) l = firstn e l ++ [nth e l []].
Proof.
  induction l as [|a l IH]; intros e H; cbn [length] in H; [lia|].
  destruct e; cbn [firstn nth app]; [reflexivity|]. f_equal. apply IH. lia.
Qed.

(* the drain loop, from a state where ranks < e are written and e.. may be stored *)
Lemma drain_ok : forall fuel e ds k tot acc p pre,
  (length ds <= fuel)%nat ->
  (ds <> [] \/ (k > 0)%nat) ->
  NoDup p -> (forall i, In i p -> (i < n)%nat) ->
  (e <= n)%nat ->
  (forall i, (i < e)%nat -> In i p) ->
  (forall d, In d ds -> exists i, In i p /\ (i >= e)%nat /\ d = blk i) ->
  (forall i, In i p -> (i >= e)%nat -> In (Z.of_nat i) (ranks ds)) ->
  NoDup (ranks ds) ->
  firstn e blocks = pre ++ rev acc ->
  tot = Z.of_nat (length (concat (firstn e blocks))) ->
  exists w' acc',
    WR_drain fuel (mkWR (Z.of_nat e) (layout ds k) tot) acc = (w', acc', true) /\
    inv p w' (pre ++ rev acc').
Proof.
  induction fuel as [|f IH]; intros e ds k tot acc p pre Hlen Hne0 ND Hlt He Hbelow Hst Hall NDr Hacc Htot.
  - (* no fuel: then nothing is stored *)
    assert (ds = []) by (destruct ds; [reflexivity|cbn [length] in Hlen; lia]). subst ds.
    cbn [WR_drain wr_buffers wr_expected]. rewrite isPresent_layout. cbn [existsb].
    do 2 eexists. split; [reflexivity|].
    assert (Hne : ~ In e p).
    { intros Hin. specialize (Hall e Hin (le_n _)). cbn in Hall. exact Hall. }
    apply (Build_inv _ _ _ e [] k); cbn [wr_expected wr_buffers wr_total];
      [reflexivity|reflexivity| |exact Hbelow|exact Hne| | |exact NDr| |].
    + destruct Hne0 as [H|H]; [congruence|right; exact H].
    + intros d [].
    + intros i Hi Hgt. apply Hall; [exact Hi|lia].
    + symmetry. exact Hacc.
    + rewrite <- Hacc. exact Htot.
  - cbn [WR_drain wr_buffers wr_expected wr_total]. rewrite isPresent_layout.
    destruct (existsb (has_rank (Z.of_nat e)) ds) eqn:EP.
    + (* rank e is stored: write it, remove it, continue with e+1 *)
      pose proof EP as EP'. apply existsb_has_rank in EP'.
      destruct (find_has_rank ds _ EP') as [d [F [Ind Rd]]].
      rewrite getBufID_layout, F, (remove_layout ds k _ EP).
      destruct (Hst d Ind) as [i [Hip [Hge Hd]]].
      assert (i = e).
      { subst d. cbn [blk d_rank] in Rd. lia. }
      subst i.
      assert (Hen : (e < n)%nat) by (apply Hlt; exact Hip).
      replace (Z.of_nat e + 1) with (Z.of_nat (S e)) by lia.
      apply (IH (S e) (rm (Z.of_nat e) ds) (S k) _ _ p pre).
      * pose proof (rm_length ds _ EP'). lia.
      * right. lia.
      * exact ND.
      * exact Hlt.
      * lia.
      * intros j Hj. destruct (Nat.eq_dec j e); [subst; exact Hip|apply Hbelow; lia].
      * intros d' Hd'. pose proof (rm_In _ _ _ Hd') as Hin.
        destruct (Hst d' Hin) as [j [Hjp [Hjge Hj]]]. exists j. split; [exact Hjp|]. split; [|exact Hj].
        destruct (Nat.eq_dec j e); [|lia]. subst j.
        assert (In (d_rank d') (ranks (rm (Z.of_nat e) ds))) by (apply in_map; exact Hd').
        apply (rm_ranks ds _ NDr) in H. subst d'. cbn [blk d_rank] in H. tauto.
      * intros j Hj Hjge. apply (rm_ranks ds _ NDr). split; [apply Hall; [exact Hj|lia]|lia].
      * apply rm_NoDup. exact NDr.
      * rewrite (firstn_S_nth blocks e Hen), Hacc. cbn [rev]. rewrite <- app_assoc.
        subst d. cbn [blk d_data]. reflexivity.
      * rewrite (firstn_S_nth blocks e Hen), concat_app, app_length. cbn [concat]. rewrite app_nil_r.
        subst d. cbn [blk d_data]. rewrite Htot. lia.
    + (* rank e not stored: loop ends *)
      do 2 eexists. split; [reflexivity|].
      assert (Hne : ~ In e p).
      { intros Hin. specialize (Hall e Hin (le_n _)). apply existsb_has_rank in Hall. congruence. }
      assert (Hgt : forall d, In d ds -> exists i, In i p /\ (i > e)%nat /\ d = blk i).
      { intros d Hd. destruct (Hst d Hd) as [i [Hi [Hge Hb]]]. exists i. split; [exact Hi|]. split; [|exact Hb].
        destruct (Nat.eq_dec i e); [subst i; contradiction|lia]. }
      apply (Build_inv _ _ _ e ds k); cbn [wr_expected wr_buffers wr_total];
        [reflexivity|reflexivity|exact Hne0|exact Hbelow|exact Hne|exact Hgt| |exact NDr| |].
      * intros i Hi Hg. apply Hall; [exact Hi|lia].
      * symmetry. exact Hacc.
      * rewrite <- Hacc. exact Htot.
Qed.

(* one call of LZ4IO_checkWriteOrder for a rank that has not arrived before *)
Lemma arrive_ok : forall p w out i,
  inv p w out -> NoDup p -> (forall j, In j p -> (j < n)%nat) ->
  ~ In i p -> (i < n)%nat ->
  exists w' o,
    arrive w (Z.of_nat i) (nth i blocks []) = (w', o, true) /\ inv (i :: p) w' (out ++ o).
Proof.
  intros p w out i [e ds k Hexp Hlay Hne Hbelow Hnot Hst Hall NDr Hout Htot] ND Hlt Hi Hin.
  unfold arrive. rewrite Hexp.
  destruct (Z.of_nat i =? Z.of_nat e) eqn:E; cbn [negb].
  - (* the expected rank: written now, then the stored successors *)
    apply Z.eqb_eq in E. apply Nat2Z.inj in E. subst i.
    rewrite Hlay, Htot.
    replace (Z.of_nat e + 1) with (Z.of_nat (S e)) by lia.
    destruct (drain_ok (S (length (layout ds k))) (S e) ds k
                (Z.of_nat (length (concat out)) + Z.of_nat (length (nth e blocks [])))
                [nth e blocks []] (e :: p) out) as [w' [acc' [D I]]].
    + unfold layout. rewrite app_length, map_length. lia.
    + exact Hne.
    + constructor; assumption.
    + intros j [<-|Hj]; [exact Hin|apply Hlt; exact Hj].
    + lia.
    + intros j Hj. destruct (Nat.eq_dec j e); [subst; left; reflexivity|right; apply Hbelow; lia].
    + intros d Hd. destruct (Hst d Hd) as [j [Hj [Hg Hb]]]. exists j. split; [right; exact Hj|]. split; [lia|exact Hb].
    + intros j [<-|Hj] Hg; [lia|]. apply Hall; [exact Hj|lia].
    + exact NDr.
    + rewrite (firstn_S_nth blocks e Hin), Hout. reflexivity.
    + rewrite (firstn_S_nth blocks e Hin), concat_app, app_length, Hout. cbn [concat]. rewrite app_nil_r. lia.
    + rewrite D. exists w', (rev acc'). split; [reflexivity|exact I].
  - (* another rank: stored *)
    apply Z.eqb_neq in E.
    assert (Hgt : (i > e)%nat).
    { destruct (Nat.lt_trichotomy i e) as [H|[H|H]]; [exfalso; apply Hi, Hbelow, H|subst; lia|exact H]. }
    rewrite Hlay. destruct (add_layout ds k (mkDesc (Z.of_nat i) (nth i blocks [])) Hne) as [k' A].
    rewrite A. do 2 eexists. split; [reflexivity|].
    rewrite app_nil_r.
    apply (Build_inv _ _ _ e (ds ++ [blk i]) k'); cbn [wr_expected wr_buffers wr_total].
    + reflexivity.
    + reflexivity.
    + left. destruct ds; discriminate.
    + intros j Hj. right. apply Hbelow. exact Hj.
    + intros [H|H]; [lia|contradiction].
    + intros d Hd. apply in_app_or in Hd. destruct Hd as [Hd|[<-|[]]].
      * destruct (Hst d Hd) as [j [Hj R]]. exists j. split; [right; exact Hj|exact R].
      * exists i. split; [left; reflexivity|]. split; [exact Hgt|reflexivity].
    + intros j [<-|Hj] Hg; unfold ranks; rewrite map_app; apply in_or_app.
      * right. left. reflexivity.
      * left. apply Hall; assumption.
    + unfold ranks. rewrite map_app. cbn [map blk d_rank].
      apply NoDup_app_snoc; [exact NDr|].
      intros H. apply in_map_iff in H. destruct H as [d [Rd Hd]].
      destruct (Hst d Hd) as [j [Hj [_ Hb]]]. subst d. cbn [blk d_rank] in Rd.
      apply Nat2Z.inj in Rd. subst j. contradiction.
    + exact Hout.
    + exact Htot.
Qed.

Lemma arrive_all_ok : forall perm p w out,
  inv p w out -> NoDup (perm ++ p) -> (forall j, In j (perm ++ p) -> (j < n)%nat) ->
  exists w' out',
    arrive_all w (map arrival perm) out true = (w', out', true) /\ inv (rev perm ++ p) w' out'.
Proof.
  induction perm as [|i perm IH]; intros p w out I ND Hlt.
  - do 2 eexists. split; [reflexivity|exact I].
  - cbn [app] in ND, Hlt. inversion ND as [|? ? Hi ND']; subst.
    assert (Hip : ~ In i p) by (intros H; apply Hi, in_or_app; right; exact H).
    assert (NDp : NoDup p) by (apply NoDup_app_r in ND'; exact ND').
    destruct (arrive_ok p w out i I NDp) as [w1 [o [A I1]]].
    + intros j Hj. apply Hlt. right. apply in_or_app. right. exact Hj.
    + exact Hip.
    + apply Hlt. left. reflexivity.
    + destruct (IH (i :: p) w1 (out ++ o) I1) as [w' [out' [AA I']]].
      * apply NoDup_app_mid. exact ND.
      * intros j Hj. apply Hlt. apply in_app_or in Hj. destruct Hj as [Hj|[Hj|Hj]].
        -- right. apply in_or_app. left. exact Hj.
        -- left. exact Hj.
        -- right. apply in_or_app. right. exact Hj.
      * exists w', out'. split.
        -- cbn [map arrive_all]. unfold arrival at 1. rewrite A. cbn [andb]. exact AA.
        -- cbn [rev]. rewrite <- app_assoc. exact I'.
Qed.

End Order.

Lemma arrive_all_app : forall a1 a2 w out ok,
  arrive_all w (a1 ++ a2) out ok =
  let '(w1, o1, ok1) := arrive_all w a1 out ok in arrive_all w1 a2 o1 ok1.
Proof.
  induction a1 as [|[r d] a1 IH]; intros a2 w out ok; cbn [app arrive_all].
  - reflexivity.
  - destruct (arrive w r d) as [[w' o] ok']. apply IH.
Qed.

Lemma init_inv : forall blocks, inv blocks [] WR_init [].
Proof.
  intros blocks.
  apply (Build_inv blocks [] WR_init [] 0%nat [] (Z.to_nat WR_INITIAL_BUFFER_POOL_SIZE));
    cbn [WR_init wr_expected wr_buffers wr_total].
  - reflexivity.
  - reflexivity.
  - right. (* the initial array has at least one descriptor: WR_INITIAL_BUFFER_POOL_SIZE > 0 *)
    assert (0 < WR_INITIAL_BUFFER_POOL_SIZE) by (vm_compute; reflexivity). lia.
  - intros i H. lia.
  - intros [].
  - intros d [].
  - intros i [].
  - constructor.
  - reflexivity.
  - reflexivity.
Qed.

(* what the invariant gives once a set of ranks 0..m-1 (m <= n) ... in particular all of them, has arrived *)
Lemma inv_final : forall blocks p w out,
  inv blocks p w out -> Permutation p (seq 0 (length blocks)) ->
  out = blocks /\ wr_expected w = Z.of_nat (length blocks) /\
  (forall s, In s (wr_buffers w) -> s = None) /\
  wr_total w = Z.of_nat (length (concat blocks)).
Proof.
  intros blocks p w out [e ds k Hexp Hlay Hne Hbelow Hnot Hst Hall NDr Hout Htot] P.
  assert (Hin : forall i, In i p <-> (i < length blocks)%nat).
  { intros i. split; intros H.
    - apply (Permutation_in _ P), in_seq in H. lia.
    - apply (Permutation_in _ (Permutation_sym P)), in_seq. lia. }
  assert (e = length blocks).
  { destruct (Nat.lt_trichotomy e (length blocks)) as [H|[H|H]].
    - exfalso. apply Hnot, Hin, H.
    - exact H.
    - apply Hbelow, Hin in H. lia. }
  subst e.
  assert (ds = []).
  { destruct ds as [|d t]; [reflexivity|]. destruct (Hst d (or_introl eq_refl)) as [i [Hi [Hg _]]].
    apply Hin in Hi. lia. }
  subst ds. split; [|split; [|split]].
  - rewrite Hout. apply firstn_all.
  - exact Hexp.
  - rewrite Hlay. unfold layout. cbn [map app]. intros s Hs. apply repeat_spec in Hs. exact Hs.
  - rewrite Htot, Hout, firstn_all. reflexivity.
Qed.

Theorem write_order : forall (blocks : list (list Z)) (perm : list nat),
  Permutation perm (seq 0 (length blocks)) ->
  let arr := map (arrival blocks) perm in
  (exists w, arrive_all WR_init arr [] true = (w, blocks, true) /\
             wr_expected w = Z.of_nat (length blocks) /\
             (forall s, In s (wr_buffers w) -> s = None) /\
             wr_total w = Z.of_nat (length (concat blocks)))
  /\
  (forall a1 a2, arr = a1 ++ a2 ->
     exists w1 e, arrive_all WR_init a1 [] true = (w1, firstn e blocks, true) /\
                  wr_expected w1 = Z.of_nat e).
Proof.
  intros blocks perm P arr.
  assert (ND : NoDup perm).
  { apply (Permutation_NoDup (Permutation_sym P)), seq_NoDup. }
  assert (Hlt : forall j, In j perm -> (j < length blocks)%nat).
  { intros j Hj. apply (Permutation_in _ P), in_seq in Hj. lia. }
  split.
  - destruct (arrive_all_ok blocks perm [] WR_init [] (init_inv blocks)) as [w [out [A I]]].
    + rewrite app_nil_r. exact ND.
    + intros j Hj. rewrite app_nil_r in Hj. apply Hlt, Hj.
    + rewrite app_nil_r in I.
      destruct (inv_final blocks (rev perm) w out I) as [Eo [Ee [Es Et]]].
      * apply Permutation_trans with perm; [apply Permutation_sym, Permutation_rev|exact P].
      * subst out. exists w. auto.
  - intros a1 a2 E. unfold arr in E.
    apply map_eq_app in E. destruct E as [p1 [p2 [Ep [E1 E2]]]]. subst perm a1 a2.
    destruct (arrive_all_ok blocks p1 [] WR_init [] (init_inv blocks)) as [w1 [out1 [A I]]].
    + rewrite app_nil_r. apply NoDup_app_l in ND. exact ND.
    + intros j Hj. rewrite app_nil_r in Hj. apply Hlt, in_or_app. left. exact Hj.
    + destruct I as [e ds k Hexp _ _ _ _ _ _ _ Hout _]. subst out1.
      exists w1, e. split; [exact A|exact Hexp].
Qed.

