(* Soundness of the dictCtx search of the hash-chain match finder (Model.HcChainDict):
   - wider_loop_n is wider_loop plus the attempts left (so the noDictCtx theorems apply to its first component);
   - one probe of the dictionary chain (the body of dict_loop) at a genuine dictionary position only ever installs a
     match whose bytes are equal, with the history starting at the dictionary's first byte (dict_probe_sound);
   - the whole walk, and LZ4HC_InsertAndGetWiderMatch with dict == usingDictCtxHc (wider_dict_sound), for any dictionary
     context whose tables satisfy the consistency invariant [dgood]: every hash entry / chain successor is either out of
     reach (x + LZ4_DISTANCE_MAX < dictEndOffset) or a genuine position in [dictLimit, dictEndOffset - 4]. *)
From Coq Require Import ZArith List Lia Bool ZifyBool.
From LZ4V Require Import Gen.Consts Spec.BlockSpec Model.Mem Model.Fast Model.HcEmit Model.HcMid Model.HcChain Model.HcChainDict.
From LZ4V Require Import Proofs.BlockSpecProofs Proofs.FactorSpec Proofs.FastBasics Proofs.HcMidSound Proofs.HcChainSearch.
Import ListNotations.
Local Open Scope Z_scope.

Lemma wider_loop_n_fst vrd prefixIdx dictIdx ct ip iLow iHigh pa swap fav : forall nb s,
  option_map fst (wider_loop_n vrd prefixIdx dictIdx ct ip iLow iHigh pa swap fav nb s)
  = wider_loop vrd prefixIdx dictIdx ct ip iLow iHigh pa swap fav nb s.
Proof.
  induction nb as [|n IH]; intros s; cbn [wider_loop_n wider_loop]; [reflexivity|].
  destruct (w_mi s >=? w_lowest prefixIdx dictIdx ip); [|reflexivity].
  destruct (wider_body vrd prefixIdx dictIdx ct ip iLow iHigh pa swap fav s); [apply IH | reflexivity | reflexivity].
Qed.

Section DictProbe.
  Variable vrd : Z -> Z.
  Hypothesis Hb : forall a, 0 <= vrd a < 256.
  Variable dct : ctab.
  Variables dDictLimit dictEndOffset g ip iLow iHigh : Z.
  (* the dictionary occupies [dlo, g) of the virtual index space *)
  Definition dlo : Z := g - (dictEndOffset - dDictLimit).
  Hypothesis Hd : 0 <= dDictLimit /\ dDictLimit <= dictEndOffset /\ dictEndOffset < M32 /\ 0 <= dlo /\ g <= iLow /\ iLow <= ip /\
                  ip + 4 <= iHigh /\ iHigh < M32 - 65536.

  (* one probe (dict_loop with a single attempt left) at a genuine dictionary position l, at least 4 bytes before the
     dictionary's end: either nothing changes, or the new best match is a real one reaching into the dictionary *)
  Theorem dict_probe_sound withBack l longest offset sBack :
    dDictLimit <= l <= dictEndOffset - 4 ->
    (withBack = false -> iLow = ip) ->
    let r := dict_loop vrd dct dDictLimit dictEndOffset ip iLow iHigh ip g withBack 1 l (l + g - dictEndOffset) longest offset sBack in
    r = (longest, offset, sBack) \/
    (let '(lg, off, bk) := r in
     longest < lg /\ match_ok vrd dlo (ip + bk) off lg /\ iLow <= ip + bk /\ bk <= 0 /\ ip + bk + lg <= iHigh /\ ip + 4 <= ip + bk + lg).
  Proof.
    intros Hl Hwb. destruct Hd as (D1 & D2 & D3 & D4 & D5 & D6 & D7 & D8). unfold dlo in *.
    cbn [dict_loop]. cbv zeta.
    set (m := l + g - dictEndOffset).
    assert (Hm : dlo <= m /\ m + 4 <= g) by (unfold dlo; subst m; lia). unfold dlo in Hm.
    rewrite (u32_id (ip - m)) by (unfold M32 in *; lia). unfold LZ4_DISTANCE_MAX, MINMATCH.
    destruct (ip - m <=? 65535) eqn:Edist; [|left; reflexivity].
    destruct (rd32 vrd m =? rd32 vrd ip) eqn:E32; [|left; reflexivity].
    apply Z.eqb_eq in E32.
    rewrite (Z.mod_small (dictEndOffset - l)) by (unfold M64, M32 in *; lia).
    set (vLimit := if ip + (dictEndOffset - l) >? iHigh then iHigh else ip + (dictEndOffset - l)).
    assert (HvL : ip + 4 <= vLimit <= iHigh) by (subst vLimit; destruct (ip + (dictEndOffset - l) >? iHigh) eqn:Ev; lia).
    pose proof (count_spec vrd (ip + 4) (m + 4) vLimit ltac:(lia)) as Hc. cbv zeta in Hc.
    set (cnt := count vrd (ip + 4) (m + 4) vLimit) in *. destruct Hc as (C1 & C2 & _).
    set (back := if withBack then countBack vrd ip m iLow (dDictLimit + g - dictEndOffset) else 0).
    assert (Hback : back <= 0 /\ iLow <= ip + back /\ dDictLimit + g - dictEndOffset <= m + back /\
                    (forall j, back <= j < 0 -> vrd (ip + j) = vrd (m + j))).
    { subst back. destruct withBack.
      - apply countBack_spec; lia.
      - specialize (Hwb eq_refl). split; [lia|]. split; [lia|]. split; [lia|]. intros; lia. }
    destruct Hback as (B1 & B2 & B3 & B4).
    destruct (cnt + 4 - back >? longest) eqn:Eg; [|left; reflexivity].
    right. rewrite s32_id by lia. clearbody back cnt vLimit.
    split; [lia|]. split; [|lia].
    split; [lia|]. split; [lia|]. split; [lia|].
    intros i Hi. replace (ip + back + i - (ip - m)) with (m + (back + i)) by lia.
    replace (ip + back + i) with (ip + (back + i)) by lia.
    destruct (Z_lt_le_dec (back + i) 0) as [Hn|Hn]; [apply B4; lia|].
    destruct (Z_lt_le_dec (back + i) 4) as [H4|H4].
    - symmetry. apply (rd32_eq vrd Hb m ip E32). lia.
    - replace (ip + (back + i)) with (ip + 4 + (back + i - 4)) by lia.
      replace (m + (back + i)) with (m + 4 + (back + i - 4)) by lia. apply C2. lia.
  Qed.
End DictProbe.

Lemma match_ok_lo vrd lo lo' pos off len : match_ok vrd lo pos off len -> lo' <= lo -> match_ok vrd lo' pos off len.
Proof. intros (H1 & H2 & H3 & H4) Hl. split; [exact H1|]. split; [exact H2|]. split; [lia | exact H4]. Qed.

(* ---- the whole walk of the dictionary chain ---- *)
Section DictWalk.
  Variable vrd : Z -> Z.
  Hypothesis Hb : forall a, 0 <= vrd a < 256.
  Variable dct : ctab.
  Variables dDictLimit E g ip iLow iHigh longest0 : Z.
  Variable withBack : bool.
  Notation dlo' := (dlo dDictLimit E g).
  Hypothesis Hd : 65536 <= dDictLimit /\ dDictLimit <= E /\ E <= 1073741824 + 131072 /\ 0 <= dlo' /\ g <= iLow /\ iLow <= ip /\
                  ip - g < 65536 /\ ip + 4 <= iHigh /\ iHigh < M32 - 65536.
  Hypothesis Hwb : withBack = false -> iLow = ip.
  (* a dictionary index is either out of reach or a genuine position at least 4 bytes before the end *)
  Definition dgood (x : Z) : Prop := 0 <= x /\ (x + 65535 < E \/ dDictLimit <= x <= E - 4).
  Hypothesis Hchain : forall x, dDictLimit <= x <= E - 4 -> 0 <= delta_next dct x <= x /\ dgood (x - delta_next dct x).

  Definition tvalid (t : Z * Z * Z) : Prop :=
    let '(lg, off, bk) := t in
    longest0 <= lg /\
    (longest0 < lg -> match_ok vrd dlo' (ip + bk) off lg /\ iLow <= ip + bk /\ bk <= 0 /\ ip + bk + lg <= iHigh /\ ip + 4 <= ip + bk + lg).

  Lemma dict_loop_S n x mi lg off bk :
    dict_loop vrd dct dDictLimit E ip iLow iHigh ip g withBack (S n) x mi lg off bk
    = if u32 (ip - mi) <=? LZ4_DISTANCE_MAX
      then let '(l1, o1, b1) := dict_loop vrd dct dDictLimit E ip iLow iHigh ip g withBack 1 x mi lg off bk in
           dict_loop vrd dct dDictLimit E ip iLow iHigh ip g withBack n (u32 (x - delta_next dct x)) (u32 (mi - delta_next dct x)) l1 o1 b1
      else (lg, off, bk).
  Proof.
    cbn [dict_loop]. cbv zeta. destruct (u32 (ip - mi) <=? LZ4_DISTANCE_MAX); [|reflexivity].
    destruct (rd32 vrd (x + g - E) =? rd32 vrd ip); [|reflexivity].
    match goal with |- context [if ?c then (_, _, _) else (lg, off, bk)] => destruct c end; reflexivity.
  Qed.

  Lemma dict_loop_sound : forall nb x lg off bk,
    dgood x -> tvalid (lg, off, bk) ->
    tvalid (dict_loop vrd dct dDictLimit E ip iLow iHigh ip g withBack nb x (u32 (x + g - E)) lg off bk).
  Proof.
    destruct Hd as (D1 & D2 & D3 & D4 & D5 & D6 & D7 & D8 & D9). unfold dlo in D4.
    induction nb as [|n IH]; intros x lg off bk Hx Hv; [exact Hv|].
    rewrite dict_loop_S.
    assert (Hdist : u32 (ip - u32 (x + g - E)) = ip - g + E - x).
    { unfold u32. rewrite Zminus_mod_idemp_r. replace (ip - (x + g - E)) with (ip - g + E - x) by lia.
      apply Z.mod_small. pose proof Hx as (X0 & [HX|HX]); unfold M32 in *; lia. }
    rewrite Hdist. unfold LZ4_DISTANCE_MAX.
    destruct (ip - g + E - x <=? 65535) eqn:Ed; [|exact Hv].
    destruct Hx as (X0 & [Hfar|Hgen]); [lia|].
    assert (Emi : u32 (x + g - E) = x + g - E) by (apply u32_id; unfold M32 in *; lia).
    rewrite Emi.
    pose proof (dict_probe_sound vrd Hb dct dDictLimit E g ip iLow iHigh
                  ltac:(unfold dlo; unfold M32 in *; lia) withBack x lg off bk Hgen Hwb) as HP. cbv zeta in HP.
    destruct (dict_loop vrd dct dDictLimit E ip iLow iHigh ip g withBack 1 x (x + g - E) lg off bk) as [[l1 o1] b1].
    destruct (Hchain x Hgen) as (Hdl & Hnext).
    assert (Ex' : u32 (x - delta_next dct x) = x - delta_next dct x) by (apply u32_id; unfold M32 in *; lia).
    assert (Emi' : u32 (x + g - E - delta_next dct x) = u32 (x - delta_next dct x + g - E)) by (f_equal; lia).
    rewrite Ex', Emi'. apply IH; [exact Hnext|].
    destruct HP as [HP|(P1 & P2 & P3 & P4 & P5 & P6)].
    - inversion HP; subst. exact Hv.
    - destruct Hv as (V1 & _). split; [lia|]. intros _. split; [exact P2|]. split; [exact P3|]. split; [exact P4|]. split; assumption.
  Qed.
End DictWalk.

(* LZ4HC_InsertAndGetWiderMatch with dict == usingDictCtxHc, for a dictionary context whose tables satisfy the
   consistency invariant [dgood] (hash entries and chain successors are out of reach or genuine positions): never out of
   fuel, the working tables keep their invariant, and a result longer than [longest] is a match whose bytes are equal,
   with the history starting at the dictionary's first byte *)
Theorem wider_dict_sound :
  forall vrd prefixIdx dictIdx dht dct dDictLimit dictEndOffset t B q iLow iHigh longest0 nb pa swap fav,
    (forall a, 0 <= vrd a < 256) -> 65536 <= dictIdx /\ dictIdx <= prefixIdx ->
    65536 <= dDictLimit /\ dDictLimit <= dictEndOffset /\ dictEndOffset <= 1073741824 + 131072 /\ dictEndOffset - dDictLimit <= dictIdx ->
    (forall k, dgood dDictLimit dictEndOffset (get dht k)) ->
    (forall x, dDictLimit <= x <= dictEndOffset - 4 ->
       0 <= delta_next dct x <= x /\ dgood dDictLimit dictEndOffset (x - delta_next dct x)) ->
    TB t B -> B <= q -> prefixIdx <= iLow -> iLow <= q -> q + 4 <= iHigh -> iHigh < M32 - 65536 ->
    exists m t', insertAndGetWiderMatch_dict vrd prefixIdx dictIdx dht dct dDictLimit dictEndOffset t q iLow iHigh longest0 nb pa swap fav = Some (m, t') /\
      TB t' q /\ t_ntu t' = q /\ longest0 <= hm_len m /\
      (longest0 < hm_len m ->
        match_ok vrd (dictIdx - (dictEndOffset - dDictLimit)) (q + hm_back m) (hm_off m) (hm_len m) /\
        iLow <= q + hm_back m /\ hm_back m <= 0 /\ q + hm_back m + hm_len m <= iHigh /\ q + 4 <= q + hm_back m + hm_len m).
Proof.
  intros vrd prefixIdx dictIdx dht dct dDictLimit E t B q iLow iHigh longest0 nb pa swap fav Hb Hidx Hdd Hh Hc HT HB H1 H2 H3 H4.
  destruct (wider_sound_gen vrd Hb prefixIdx dictIdx Hidx t B q iLow iHigh longest0 nb pa swap fav HT HB H1 H2 H3 H4)
    as (m & t' & Hs & HT' & Hn & Hl & Hv).
  unfold insertAndGetWiderMatch in Hs. cbv zeta in Hs. unfold insertAndGetWiderMatch_dict. cbv zeta.
  set (t1 := insert vrd prefixIdx t q) in *.
  set (s0 := mkW (get (t_hash t1) (hashPtr vrd q)) longest0 0 0 0 rep_untested 0) in *.
  pose proof (wider_loop_n_fst vrd prefixIdx dictIdx (t_chain t1) q iLow iHigh pa swap fav (Z.to_nat nb) s0) as HF.
  destruct (wider_loop vrd prefixIdx dictIdx (t_chain t1) q iLow iHigh pa swap fav (Z.to_nat nb) s0) as [s|] eqn:EW; [|discriminate Hs].
  inversion Hs; subst m t'; clear Hs. cbn [hm_len hm_off hm_back] in *.
  destruct (wider_loop_n vrd prefixIdx dictIdx (t_chain t1) q iLow iHigh pa swap fav (Z.to_nat nb) s0) as [[s' n']|]; cbn [option_map fst] in HF; [|discriminate HF].
  inversion HF; subst s'; clear HF.
  assert (Hmono : longest0 < w_longest s ->
            match_ok vrd (dictIdx - (E - dDictLimit)) (q + w_sback s) (w_off s) (w_longest s) /\
            iLow <= q + w_sback s /\ w_sback s <= 0 /\ q + w_sback s + w_longest s <= iHigh /\ q + 4 <= q + w_sback s + w_longest s).
  { intros Hlt. destruct (Hv Hlt) as (V1 & V2 & V3 & V4 & V5). split; [eapply match_ok_lo; [exact V1 | lia]|]. split; [exact V2|]. split; [exact V3|]. split; assumption. }
  destruct ((0 <? Z.of_nat n') && w_within prefixIdx dictIdx q) eqn:Ec.
  2:{ exists (mkHM (w_off s) (w_longest s) (w_sback s)), t1. split; [reflexivity|]. split; [exact HT'|]. split; [exact Hn|].
      cbn [hm_len hm_off hm_back]. split; [exact Hl | exact Hmono]. }
  apply andb_true_iff in Ec. destruct Ec as [_ Ew].
  assert (Eip : w_ipIndex prefixIdx q = q).
  { unfold w_ipIndex, idx_of. rewrite (u32_id (q - prefixIdx)) by (unfold M32 in *; lia). rewrite u32_id by (unfold M32 in *; lia). lia. }
  assert (Elow : w_lowest prefixIdx dictIdx q = dictIdx) by (unfold w_lowest; rewrite Ew; reflexivity).
  assert (Hwin : q - dictIdx < 65536).
  { unfold w_within in Ew. rewrite Eip in Ew. unfold LZ4_DISTANCE_MAX in Ew. rewrite u32_id in Ew by (unfold M32 in *; lia). lia. }
  rewrite Eip, Elow.
  assert (Emi : u32 (u32 (get dht (hashPtr vrd q) + dictIdx) - u32 E) = u32 (get dht (hashPtr vrd q) + dictIdx - E)).
  { unfold u32. rewrite Zminus_mod_idemp_l, Zminus_mod_idemp_r. reflexivity. }
  rewrite Emi.
  pose proof (dict_loop_sound vrd Hb dct dDictLimit E dictIdx q iLow iHigh longest0 (negb (w_lookBack q iLow =? 0))
                ltac:(unfold dlo; lia)
                ltac:(intros Hnb; unfold w_lookBack in Hnb; destruct (q - iLow =? 0) eqn:E0; [lia | discriminate Hnb])
                Hc n' (get dht (hashPtr vrd q)) (w_longest s) (w_off s) (w_sback s) (Hh _)) as HL.
  unfold tvalid at 1, dlo in HL. specialize (HL (conj Hl Hmono)).
  destruct (dict_loop vrd dct dDictLimit E q iLow iHigh q dictIdx (negb (w_lookBack q iLow =? 0)) n' (get dht (hashPtr vrd q))
              (u32 (get dht (hashPtr vrd q) + dictIdx - E)) (w_longest s) (w_off s) (w_sback s)) as [[lg off] bk].
  exists (mkHM off lg bk), t1. split; [reflexivity|]. split; [exact HT'|]. split; [exact Hn|].
  cbn [hm_len hm_off hm_back]. unfold tvalid, dlo in HL. exact HL.
Qed.

Print Assumptions wider_loop_n_fst.
Print Assumptions dict_probe_sound.
Print Assumptions wider_dict_sound.
