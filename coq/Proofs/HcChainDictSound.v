(* Soundness of the dictCtx search of the hash-chain match finder (Model.HcChainDict), partial:
   - wider_loop_n is wider_loop plus the attempts left (so the noDictCtx theorems apply to its first component);
   - one probe of the dictionary chain (the body of dict_loop) at a genuine dictionary position only ever installs a
     match whose bytes are equal, with the history starting at the dictionary's first byte.
   The walk over ANY dictionary tables needs a consistency invariant of the dictionary context (every entry reachable
   within LZ4_DISTANCE_MAX lies in [dictLimit, end-4], which LZ4_loadDictHC establishes): stated, not proved here. *)
From Coq Require Import ZArith List Lia Bool ZifyBool.
From LZ4V Require Import Gen.Consts Spec.BlockSpec Model.Mem Model.Fast Model.HcEmit Model.HcMid Model.HcChain Model.HcChainDict.
From LZ4V Require Import Proofs.BlockSpecProofs Proofs.FactorSpec Proofs.FastBasics Proofs.HcMidSound Proofs.HcChainSearch.
Import ListNotations.
Local Open Scope Z_scope.

Lemma wider_loop_n_fst vrd prefixIdx dictIdx ct ip iLow iHigh pa swap fav : forall nb s,
  option_map fst (wider_loop_n vrd prefixIdx dictIdx ct ip iLow iHigh pa swap fav nb s)
  = wider_loop vrd prefixIdx dictIdx ct ip iLow iHigh pa swap fav nb s.
Proof.
  induction nb as [|n IH]; intros s; cbn [wider_loop_n wider_loop]; [reflexivity|].
  destruct (w_mi s >=? w_lowest prefixIdx dictIdx ip); [|reflexivity].
  destruct (wider_body vrd prefixIdx dictIdx ct ip iLow iHigh pa swap fav s); [apply IH | reflexivity | reflexivity].
Qed.

Section DictProbe.
  Variable vrd : Z -> Z.
  Hypothesis Hb : forall a, 0 <= vrd a < 256.
  Variable dct : ctab.
  Variables dDictLimit dictEndOffset g ip iLow iHigh : Z.
  (* the dictionary occupies [dlo, g) of the virtual index space *)
  Definition dlo : Z := g - (dictEndOffset - dDictLimit).
  Hypothesis Hd : 0 <= dDictLimit /\ dDictLimit <= dictEndOffset /\ dictEndOffset < M32 /\ 0 <= dlo /\ g <= iLow /\ iLow <= ip /\
                  ip + 4 <= iHigh /\ iHigh < M32 - 65536.

  (* one probe (dict_loop with a single attempt left) at a genuine dictionary position l, at least 4 bytes before the
     dictionary's end: either nothing changes, or the new best match is a real one reaching into the dictionary *)
  Theorem dict_probe_sound withBack l longest offset sBack :
    dDictLimit <= l <= dictEndOffset - 4 ->
    (withBack = false -> iLow = ip) ->
    let r := dict_loop vrd dct dDictLimit dictEndOffset ip iLow iHigh ip g withBack 1 l (l + g - dictEndOffset) longest offset sBack in
    r = (longest, offset, sBack) \/
    (let '(lg, off, bk) := r in
     longest < lg /\ match_ok vrd dlo (ip + bk) off lg /\ iLow <= ip + bk /\ bk <= 0 /\ ip + bk + lg <= iHigh /\ ip + 4 <= ip + bk + lg).
  Proof.
    intros Hl Hwb. destruct Hd as (D1 & D2 & D3 & D4 & D5 & D6 & D7 & D8). unfold dlo in *.
    cbn [dict_loop]. cbv zeta.
    set (m := l + g - dictEndOffset).
    assert (Hm : dlo <= m /\ m + 4 <= g) by (unfold dlo; subst m; lia). unfold dlo in Hm.
    rewrite (u32_id (ip - m)) by (unfold M32 in *; lia). unfold LZ4_DISTANCE_MAX, MINMATCH.
    destruct (ip - m <=? 65535) eqn:Edist; [|left; reflexivity].
    destruct (rd32 vrd m =? rd32 vrd ip) eqn:E32; [|left; reflexivity].
    apply Z.eqb_eq in E32.
    rewrite (Z.mod_small (dictEndOffset - l)) by (unfold M64, M32 in *; lia).
    set (vLimit := if ip + (dictEndOffset - l) >? iHigh then iHigh else ip + (dictEndOffset - l)).
    assert (HvL : ip + 4 <= vLimit <= iHigh) by (subst vLimit; destruct (ip + (dictEndOffset - l) >? iHigh) eqn:Ev; lia).
    pose proof (count_spec vrd (ip + 4) (m + 4) vLimit ltac:(lia)) as Hc. cbv zeta in Hc.
    set (cnt := count vrd (ip + 4) (m + 4) vLimit) in *. destruct Hc as (C1 & C2 & _).
    set (back := if withBack then countBack vrd ip m iLow (dDictLimit + g - dictEndOffset) else 0).
    assert (Hback : back <= 0 /\ iLow <= ip + back /\ dDictLimit + g - dictEndOffset <= m + back /\
                    (forall j, back <= j < 0 -> vrd (ip + j) = vrd (m + j))).
    { subst back. destruct withBack.
      - apply countBack_spec; lia.
      - specialize (Hwb eq_refl). split; [lia|]. split; [lia|]. split; [lia|]. intros; lia. }
    destruct Hback as (B1 & B2 & B3 & B4).
    destruct (cnt + 4 - back >? longest) eqn:Eg; [|left; reflexivity].
    right. rewrite s32_id by lia. clearbody back cnt vLimit.
    split; [lia|]. split; [|lia].
    split; [lia|]. split; [lia|]. split; [lia|].
    intros i Hi. replace (ip + back + i - (ip - m)) with (m + (back + i)) by lia.
    replace (ip + back + i) with (ip + (back + i)) by lia.
    destruct (Z_lt_le_dec (back + i) 0) as [Hn|Hn]; [apply B4; lia|].
    destruct (Z_lt_le_dec (back + i) 4) as [H4|H4].
    - symmetry. apply (rd32_eq vrd Hb m ip E32). lia.
    - replace (ip + (back + i)) with (ip + 4 + (back + i - 4)) by lia.
      replace (m + (back + i)) with (m + 4 + (back + i - 4)) by lia. apply C2. lia.
  Qed.
End DictProbe.

(* Not proved: the whole walk.  For a dictionary context whose tables satisfy
     every hashTable entry / chain successor x reachable from a probed position is either out of reach
     (x + LZ4_DISTANCE_MAX < dictEndOffset) or a genuine position (dictLimit <= x <= dictEndOffset - 4)
   (which LZ4_loadDictHC establishes for the hash-chain levels), insertAndGetWiderMatch_dict returns, when it improves
   on [longest], a match whose bytes are equal, with the history starting at the dictionary's first byte. *)
Definition dict_search_full_statement : Prop :=
  forall vrd prefixIdx dictIdx dht dct dDictLimit dictEndOffset t B q iLow iHigh longest0 nb pa swap fav,
    (forall a, 0 <= vrd a < 256) -> 65536 <= dictIdx /\ dictIdx <= prefixIdx ->
    65536 <= dDictLimit <= dictEndOffset /\ dictEndOffset - dDictLimit <= dictIdx ->
    (forall k, get dht k + 65535 < dictEndOffset \/ dDictLimit <= get dht k <= dictEndOffset - 4) ->
    (forall x, dDictLimit <= x <= dictEndOffset - 4 ->
       0 <= delta_next dct x <= x /\ (x - delta_next dct x + 65535 < dictEndOffset \/ dDictLimit <= x - delta_next dct x <= dictEndOffset - 4)) ->
    TB t B -> B <= q -> prefixIdx <= iLow -> iLow <= q -> q + 4 <= iHigh -> iHigh < M32 - 65536 ->
    exists m t', insertAndGetWiderMatch_dict vrd prefixIdx dictIdx dht dct dDictLimit dictEndOffset t q iLow iHigh longest0 nb pa swap fav = Some (m, t') /\
      TB t' q /\ (longest0 < hm_len m ->
        match_ok vrd (dictIdx - (dictEndOffset - dDictLimit)) (q + hm_back m) (hm_off m) (hm_len m) /\
        iLow <= q + hm_back m /\ hm_back m <= 0 /\ q + hm_back m + hm_len m <= iHigh).

Print Assumptions wider_loop_n_fst.
Print Assumptions dict_probe_sound.
