(* The contracts assumed by the C04 pipeline theorems are satisfiable: a toy "library" that emits
   stored (uncompressed) blocks meets all of them.  This is NOT a model of liblz4 (that is the business
   of C01/C03/C07); it shows the hypotheses of C04_st/mt/legacy/cli_roundtrip are consistent and
   instantiates the theorems end to end. *)
From Coq Require Import ZArith List Lia Bool.
From LZ4V Require Import Gen.Consts Spec.BlockSpec Spec.XXH32 Spec.FrameSpec.
From LZ4V Require Import Model.Sparse Model.CliOpts Model.CompressPipe.
From LZ4V Require Import Proofs.BlockSpecProofs Proofs.SparseProofs Proofs.CliProofs.
Import ListNotations.
Local Open Scope Z_scope.

Definition RAW : Z := 2147483648.
Definition toy_bdec (hist data : list byte) : option (list byte) := Some data.
Definition toy_header (p : lz4f_prefs) : list Z := header_bytes (desc_of p).
Definition raw_block (bcrc : bool) (c : list Z) : list Z :=
  le_bytes 4 (RAW + lenZ c) ++ c ++ (if bcrc then le_bytes 4 (xxh32 0 c) else []).
Definition toy_update (p : lz4f_prefs) (d : list Z) (prev : list (list Z)) (c : list Z) : list Z :=
  concat (map (raw_block (negb (fp_blockChecksum p =? 0))) (chunks_of (block_size_table (fp_blockSizeID p)) c)).
Definition toy_end (p : lz4f_prefs) (content : list Z) : list Z := frame_tail (desc_of p) content.
Definition toy_frame (p : lz4f_prefs) (dict content : list Z) : list Z :=
  toy_header p ++ toy_update p dict [] content ++ toy_end p content.
Definition toy_block (level : Z) (c : list Z) : list Z := c.

(* ---------------------------------------------------------------- header *)
Lemma le_val_le_bytes8 v : 0 <= v < 18446744073709551616 -> le_val (le_bytes 8 v) = v.
Proof. intros H. apply le_val_le_bytes. change (256 ^ Z.of_nat 8) with 18446744073709551616. exact H. Qed.

Lemma take_app_len (n : nat) (a r : list byte) : length a = n -> take n (a ++ r) = Some (a, r).
Proof. intros H. rewrite <- H. apply take_app. Qed.

Lemma flg_fields (D : fdesc) : f_dictid D = None ->
  (flg_of D / 64) mod 4 = 1 /\ (flg_of D / 32) mod 2 = FrameSpec.b2z (f_indep D) /\
  (flg_of D / 16) mod 2 = FrameSpec.b2z (f_bcrc D) /\
  (flg_of D / 8) mod 2 = FrameSpec.b2z (match f_csize D with Some _ => true | None => false end) /\
  (flg_of D / 4) mod 2 = FrameSpec.b2z (f_ccrc D) /\ (flg_of D / 2) mod 2 = 0 /\ flg_of D mod 2 = 0.
Proof.
  destruct D as [i b cs c di id]. cbn [f_dictid]. intros ->.
  destruct i, b, c, cs; vm_compute; repeat split.
Qed.
Lemma bd_fields (D : fdesc) : 4 <= f_bsid D <= 7 ->
  bd_of D / 128 = 0 /\ bd_of D mod 16 = 0 /\ (bd_of D / 16) mod 8 = f_bsid D.
Proof.
  intros H. unfold bd_of. assert (HB : f_bsid D = 4 \/ f_bsid D = 5 \/ f_bsid D = 6 \/ f_bsid D = 7) by lia.
  destruct HB as [E|[E|[E|E]]]; rewrite E; vm_compute; repeat split.
Qed.

Lemma parse_desc_roundtrip (indep bcrc ccrc : bool) (cs : option Z) (bsid : Z) (rest : list Z) :
  4 <= bsid <= 7 ->
  (forall n, cs = Some n -> 0 <= n < 18446744073709551616) ->
  let D := mkDesc indep bcrc cs ccrc None bsid in
  parse_desc (descriptor_bytes D ++ [header_checksum (descriptor_bytes D)] ++ rest) = Some (D, rest).
Proof.
  intros Hb Hcs. cbv zeta. set (D := mkDesc indep bcrc cs ccrc None bsid).
  destruct (flg_fields D eq_refl) as [F1 [F2 [F3 [F4 [F5 [F6 F7]]]]]].
  destruct (bd_fields D Hb) as [B1 [B2 B3]].
  assert (Hbs : exists m, bsid_size bsid = Some m).
  { assert (HB : bsid = 4 \/ bsid = 5 \/ bsid = 6 \/ bsid = 7) by lia.
    destruct HB as [E|[E|[E|E]]]; subst bsid; eexists; reflexivity. }
  destruct Hbs as [m Hm].
  unfold descriptor_bytes. cbn [app]. unfold parse_desc.
  rewrite F1, F2, F3, F4, F5, F6, F7, B1, B2, B3.
  cbn [f_bsid f_indep f_bcrc f_ccrc f_csize f_dictid D] in *. rewrite Hm.
  change (negb (1 =? 1)) with false. change (negb (0 =? 0)) with false. cbv iota.
  change (0 =? 1) with false. cbv iota.
  destruct cs as [n|].
  - specialize (Hcs n eq_refl).
    change (FrameSpec.b2z true =? 1) with true. cbv iota.
    rewrite !app_nil_r.
    rewrite (take_app_len 8 (le_bytes 8 n)) by apply le_bytes_length.
    cbn [take app]. rewrite Z.eqb_refl, le_val_le_bytes8 by exact Hcs.
    destruct indep, bcrc, ccrc; reflexivity.
  - change (FrameSpec.b2z false =? 1) with false. cbv iota.
    cbn [take app]. rewrite Z.eqb_refl.
    destruct indep, bcrc, ccrc; reflexivity.
Qed.

Lemma toy_header_contract : header_contract toy_header.
Proof.
  intros p Hid Hcs. unfold U64_MAX1 in Hcs.
  assert (Hbs : exists m, bsid_size (fp_blockSizeID p) = Some m).
  { assert (HB : fp_blockSizeID p = 4 \/ fp_blockSizeID p = 5 \/ fp_blockSizeID p = 6 \/ fp_blockSizeID p = 7) by lia.
    destruct HB as [E|[E|[E|E]]]; rewrite E; eexists; reflexivity. }
  destruct Hbs as [m Hm]. exists m. split; [exact Hm|].
  intros rest. unfold toy_header, header_bytes.
  exists (le_bytes 4 MAGIC), ((descriptor_bytes (desc_of p) ++ [header_checksum (descriptor_bytes (desc_of p))]) ++ rest).
  split; [rewrite <- app_assoc; apply take4_app; apply le_bytes_length|].
  split; [reflexivity|].
  rewrite <- app_assoc. unfold desc_of.
  apply parse_desc_roundtrip; [exact Hid|].
  intros n Hn. destruct (fp_contentSize p =? 0); [discriminate|]. inversion Hn; subst. exact Hcs.
Qed.

(* ---------------------------------------------------------------- stored blocks *)
Lemma raw_block_extends skipcrc D maxb dict acc c :
  0 < lenZ c <= maxb -> maxb <= 4194304 ->
  extends toy_bdec skipcrc D maxb dict acc (raw_block (f_bcrc D) c) c.
Proof.
  intros Hc Hm. exists 1%nat. split.
  { unfold raw_block. rewrite app_length, le_bytes_length. lia. }
  intros fuel rest. unfold raw_block. rewrite <- !app_assoc.
  change (1 + fuel)%nat with (S fuel). cbn [blocks].
  rewrite take4_app by apply le_bytes_length.
  rewrite le_val_le_bytes4 by (unfold RAW; lia).
  assert (E0 : (RAW + lenZ c =? 0) = false) by (apply Z.eqb_neq; unfold RAW; lia).
  rewrite E0.
  assert (Em : (RAW + lenZ c) mod 2147483648 = lenZ c).
  { replace (RAW + lenZ c) with (lenZ c + 1 * 2147483648) by (unfold RAW; lia).
    rewrite Z_mod_plus_full. apply Z.mod_small. lia. }
  rewrite Em.
  assert (E1 : (maxb <? lenZ c) = false) by (apply Z.ltb_ge; lia). rewrite E1.
  replace (Z.to_nat (lenZ c)) with (length c) by (unfold lenZ; lia).
  rewrite take_app.
  assert (E2 : (2147483648 <=? RAW + lenZ c) = true) by (apply Z.leb_le; unfold RAW; lia).
  rewrite E2.
  destruct (f_bcrc D).
  - rewrite take4_app by apply le_bytes_length.
    rewrite le_val_le_bytes4 by apply xxh32_range. rewrite Z.eqb_refl, orb_true_r.
    cbv iota. unfold byte in *. fold (lenZ c). rewrite E1. reflexivity.
  - cbv iota. unfold byte in *. fold (lenZ c). rewrite E1. reflexivity.
Qed.

Lemma raw_blocks_extends skipcrc D maxb dict : maxb <= 4194304 ->
  forall cs acc, Forall (fun c => 0 < lenZ c <= maxb) cs ->
  extends toy_bdec skipcrc D maxb dict acc (concat (map (raw_block (f_bcrc D)) cs)) (concat cs).
Proof.
  intros Hm. induction cs as [|c r IH]; intros acc Hall.
  - apply extends_nil.
  - inversion Hall as [|? ? Hc Hr]; subst. cbn [map concat].
    apply extends_app; [apply raw_block_extends; assumption|apply IH; exact Hr].
Qed.

Lemma chunks_pos : forall fuel sz l, 1 <= sz -> Forall (fun c => 0 < lenZ c <= sz) (chunks fuel sz l).
Proof.
  induction fuel as [|fuel IH]; intros sz l Hsz; [constructor|].
  destruct l as [|x r]; [constructor|].
  change (chunks (S fuel) sz (x :: r)) with (takeZ sz (x :: r) :: chunks fuel sz (dropZ sz (x :: r))).
  constructor; [|apply IH; exact Hsz].
  unfold lenZ, takeZ. rewrite firstn_length. cbn [length]. lia.
Qed.

Lemma toy_update_contract skipcrc : update_contract toy_bdec skipcrc toy_update.
Proof.
  intros p D maxb d prev c dict acc Hi Hb Hid Hm _.
  assert (Hmax : maxb = block_size_table (fp_blockSizeID p) /\ 1 <= maxb <= 4194304).
  { rewrite Hid in Hm. unfold bsid_size in Hm. unfold block_size_table.
    destruct (fp_blockSizeID p =? 4); [inversion Hm; subst; split; [reflexivity|lia]|].
    destruct (fp_blockSizeID p =? 5); [inversion Hm; subst; split; [reflexivity|lia]|].
    destruct (fp_blockSizeID p =? 6); [inversion Hm; subst; split; [reflexivity|lia]|].
    destruct (fp_blockSizeID p =? 7); [inversion Hm; subst; split; [reflexivity|lia]|discriminate]. }
  destruct Hmax as [E Hr]. unfold toy_update. rewrite <- E, <- Hb.
  rewrite <- (chunks_of_concat maxb c) at 2 by lia.
  apply raw_blocks_extends; [lia|]. apply chunks_pos. lia.
Qed.

Lemma toy_end_contract : end_contract toy_end.
Proof. intros p content. reflexivity. Qed.

Lemma toy_frame_contract skipcrc : frame_contract toy_bdec skipcrc toy_frame.
Proof.
  intros p dict content [Hid [Hcs Hu]]. unfold toy_frame, toy_end.
  destruct (toy_header_contract p Hid Hu) as [maxb Hh].
  apply frame_assemble with (maxb := maxb); [exact Hh| |].
  - apply (toy_update_contract skipcrc p (desc_of p) maxb dict [] content dict []); try reflexivity; [apply Hh|].
    destruct (linked p); reflexivity.
  - cbn [desc_of f_csize]. destruct Hcs as [E|E]; rewrite E.
    + left. reflexivity.
    + destruct (lenZ content =? 0) eqn:E0; [left; reflexivity|right; right; reflexivity].
Qed.

Lemma toy_block_contract : block_contract toy_bdec toy_block.
Proof.
  intros level c Hc. split; [reflexivity|]. unfold toy_block.
  assert (LEGACY_BLOCKSIZE <= LZ4IO_LEGACY_BOUND) by (apply Z.leb_le; reflexivity). lia.
Qed.

(* the pipeline theorems instantiated: no hypothesis about any library left *)
Theorem toy_cli_roundtrip (skipcrc mt : bool) (args : list arg) (s : cli_state) (fileSize : Z) (dict content : list Z) :
  parse_args cli_init args = Some s ->
  (fileSize = 0 \/ fileSize = lenZ content) -> lenZ content < U64_MAX1 ->
  let F := cli_compress toy_header toy_frame toy_update toy_end toy_block mt s fileSize dict content in
  stream_decode toy_bdec skipcrc (S (length F)) dict [] F = Some content.
Proof.
  apply cli_roundtrip.
  - exact toy_header_contract.
  - exact (toy_update_contract skipcrc).
  - exact toy_end_contract.
  - exact (toy_frame_contract skipcrc).
  - exact toy_block_contract.
Qed.
