(* C09 for the one-shot fast entry points (Model.FastApi). *)
From Coq Require Import ZArith List Lia Bool ZifyBool.
From LZ4V Require Import Gen.Consts Spec.BlockSpec Model.Mem Model.Fast Model.FastApi
     Proofs.FactorSpec Proofs.FastBasics Proofs.FastCap Proofs.FastApiSound.
Import ListNotations.
Local Open Scope Z_scope.

Lemma compressBound_val n : 0 <= n <= LZ4_MAX_INPUT_SIZE -> compressBound n = n + n / 255 + 16.
Proof. intros H. unfold compressBound. destruct ((n <? 0) || (n >? LZ4_MAX_INPUT_SIZE)) eqn:E; lia. Qed.

(* LZ4_compress_generic (noDict), notLimited / limitedOutput *)
Lemma compress_generic_nodict_cap c src srcSize cap od t small accel :
  od <> FillOutput -> 1 <= accel -> (od = LimitedOutput -> 0 <= cap) ->
  let a := compress_generic_nodict c src srcSize cap od t small accel in
  ((srcSize < 0 \/ srcSize > LZ4_MAX_INPUT_SIZE) -> a_ret a = 0) /\
  (0 <= srcSize <= LZ4_MAX_INPUT_SIZE ->
   (od = NotLimited -> 0 < a_ret a /\ a_ret a <= a_hw a <= compressBound srcSize) /\
   (od = LimitedOutput -> a_ret a = 0 \/ (0 < a_ret a /\ a_ret a <= a_hw a <= cap))).
Proof.
  intros Hod Hacc Hcap. unfold compress_generic_nodict.
  destruct ((srcSize <? 0) || (srcSize >? LZ4_MAX_INPUT_SIZE)) eqn:E0; cbv zeta; cbn [a_ret a_hw].
  { split; [reflexivity | lia]. }
  split; [lia|]. intros Hn. rewrite (compressBound_val srcSize Hn).
  destruct (srcSize =? 0) eqn:E1.
  { assert (srcSize = 0) as -> by lia.
    destruct od; try (exfalso; apply Hod; reflexivity); cbn [andb].
    - cbn [a_ret a_hw]. split; [intros _; cbn; lia | discriminate].
    - split; [discriminate|]. intros _. destruct (cap <=? 0) eqn:Ec; cbn [a_ret a_hw]; [left; reflexivity | right; lia]. }
  assert (Ef : (match od with FillOutput => true | _ => false end) = false).
  { destruct od; try reflexivity. exfalso; apply Hod; reflexivity. }
  rewrite Ef. cbn [andb].
  pose proof (compress_validated_cap (fun i => get src (i - f_cur c)) t od CNoDict small (f_cur c) (f_dictSize c)
                empty 0 srcSize cap accel Hod ltac:(lia) Hacc Hcap (f_tab c)) as H.
  destruct (compress_validated (fun i => get src (i - f_cur c)) t od CNoDict small (f_cur c) (f_dictSize c)
              empty 0 srcSize cap accel (f_tab c)) as [tab|ss last consumed tab hw];
    cbn [RCap] in H; cbn [a_ret a_hw].
  - split; [intros E; rewrite E in H; discriminate | intros _; left; reflexivity].
  - assert (Hpos : 0 < Z.of_nat (length (encode_block ss last))).
    { rewrite encode_block_length_Z. pose proof (sumlen_nonneg ss). pose proof (extlen_nonneg (Z.of_nat (length last))). lia. }
    split; intros E; unfold hwlim in H; rewrite E in H; [lia | right; lia].
Qed.

Theorem compress_fast_extState_cap src srcSize cap accel :
  let a := compress_fast_extState src srcSize cap accel in
  ((srcSize < 0 \/ srcSize > LZ4_MAX_INPUT_SIZE) -> a_ret a = 0) /\
  (0 <= srcSize <= LZ4_MAX_INPUT_SIZE ->
   (compressBound srcSize <= cap -> 0 < a_ret a /\ a_ret a <= a_hw a <= compressBound srcSize) /\
   (0 <= cap < compressBound srcSize -> a_ret a = 0 \/ (0 < a_ret a /\ a_ret a <= a_hw a <= cap))).
Proof.
  unfold compress_fast_extState. cbv zeta.
  pose proof (clamp_accel_ge accel) as Hacc.
  destruct (cap >=? compressBound srcSize) eqn:Ec.
  - pose proof (compress_generic_nodict_cap ctx_init src srcSize 0 NotLimited (ttype_for srcSize) false (clamp_accel accel)
                  ltac:(discriminate) Hacc ltac:(discriminate)) as H. cbv zeta in H. destruct H as [H1 H2].
    split; [exact H1|]. intros Hn. destruct (H2 Hn) as [H3 _]. split; [intros _; apply H3; reflexivity | lia].
  - pose proof (compress_generic_nodict_cap ctx_init src srcSize cap LimitedOutput (ttype_for srcSize) false (clamp_accel accel)
                  ltac:(discriminate) Hacc) as H. cbv zeta in H.
    split.
    + intros Hb. destruct (Z_lt_le_dec cap 0) as [Hneg|Hnn].
      * (* negative capacity and bad size: the size test comes first *)
        unfold compress_generic_nodict.
        destruct ((srcSize <? 0) || (srcSize >? LZ4_MAX_INPUT_SIZE)) eqn:E0; [reflexivity | lia].
      * destruct (H ltac:(intros _; lia)) as [H1 _]. apply H1. exact Hb.
    + intros Hn. split; [lia|]. intros Hc. destruct (H ltac:(intros _; lia)) as [_ H2].
      destruct (H2 Hn) as [_ H3]. apply H3. reflexivity.
Qed.


Theorem compress_fast_extState_fastReset_cap c src srcSize cap accel :
  let a := compress_fast_extState_fastReset c src srcSize cap accel in
  ((srcSize < 0 \/ srcSize > LZ4_MAX_INPUT_SIZE) -> a_ret a = 0) /\
  (0 <= srcSize <= LZ4_MAX_INPUT_SIZE ->
   (compressBound srcSize <= cap -> 0 < a_ret a /\ a_ret a <= a_hw a <= compressBound srcSize) /\
   (0 <= cap < compressBound srcSize -> a_ret a = 0 \/ (0 < a_ret a /\ a_ret a <= a_hw a <= cap))).
Proof.
  unfold compress_fast_extState_fastReset. cbv zeta.
  pose proof (clamp_accel_ge accel) as Hacc.
  set (c1 := prepareTable c srcSize (ttype_for srcSize)).
  set (sm := match ttype_for srcSize with ByU16 => negb (f_cur c1 =? 0) | ByU32 => false end).
  destruct (cap >=? compressBound srcSize) eqn:Ec.
  - pose proof (compress_generic_nodict_cap c1 src srcSize 0 NotLimited (ttype_for srcSize) sm (clamp_accel accel)
                  ltac:(discriminate) Hacc ltac:(discriminate)) as H. cbv zeta in H. destruct H as [H1 H2].
    split; [exact H1|]. intros Hn. destruct (H2 Hn) as [H3 _]. split; [intros _; apply H3; reflexivity | lia].
  - pose proof (compress_generic_nodict_cap c1 src srcSize cap LimitedOutput (ttype_for srcSize) sm (clamp_accel accel)
                  ltac:(discriminate) Hacc) as H. cbv zeta in H.
    split.
    + intros Hb. destruct (Z_lt_le_dec cap 0) as [Hneg|Hnn].
      * unfold compress_generic_nodict.
        destruct ((srcSize <? 0) || (srcSize >? LZ4_MAX_INPUT_SIZE)) eqn:E0; [reflexivity | lia].
      * destruct (H ltac:(intros _; lia)) as [H1 _]. apply H1. exact Hb.
    + intros Hn. split; [lia|]. intros Hc. destruct (H ltac:(intros _; lia)) as [_ H2].
      destruct (H2 Hn) as [_ H3]. apply H3. reflexivity.
Qed.

Print Assumptions compress_fast_extState_cap.
Print Assumptions compress_fast_extState_fastReset_cap.
