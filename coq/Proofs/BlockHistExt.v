(* A block that decodes with some history decodes to the same content with any longer history
   (more bytes in front): offsets only ever reach back, and what they reach is unchanged.
   Used to pass from the history a block compressor was offered to the (longer) history the
   format gives the decoder. *)
From Coq Require Import ZArith List Lia Bool.
From LZ4V Require Import Spec.BlockSpec.
Import ListNotations.
Local Open Scope Z_scope.

Lemma skipn_app_exact : forall (a b : list byte), skipn (length a) (a ++ b) = b.
Proof. induction a as [|x a IH]; intros b; cbn [length app skipn]; [reflexivity|apply IH]. Qed.

Lemma copy_match_ext : forall n rout off e r,
  copy_match rout off n = Some r -> copy_match (rout ++ e) off n = Some (r ++ e).
Proof.
  induction n as [|n IH]; intros rout off e r H; cbn [copy_match] in *.
  - inversion H. reflexivity.
  - destruct (nth_error rout (off - 1)) as [b|] eqn:E; [|discriminate].
    assert (Hlt : (off - 1 < length rout)%nat) by (apply nth_error_Some; congruence).
    rewrite nth_error_app1 by exact Hlt. rewrite E.
    apply (IH (b :: rout)). exact H.
Qed.

Lemma copy_match_suffix : forall n rout off r,
  copy_match rout off n = Some r -> exists d, r = d ++ rout.
Proof.
  induction n as [|n IH]; intros rout off r H; cbn [copy_match] in *.
  - inversion H. exists []. reflexivity.
  - destruct (nth_error rout (off - 1)) as [b|]; [|discriminate].
    destruct (IH _ _ _ H) as [d Hd]. exists (d ++ [b]). rewrite Hd, <- app_assoc. reflexivity.
Qed.

Lemma apply_seq_ext : forall rout s e r,
  apply_seq rout s = Some r -> apply_seq (rout ++ e) s = Some (r ++ e).
Proof.
  intros rout s e r H. unfold apply_seq in *.
  destruct (off_ok (s_off s) && (4 <=? s_mlen s)); [|discriminate].
  rewrite app_assoc. apply copy_match_ext. exact H.
Qed.

Lemma apply_seq_suffix : forall rout s r, apply_seq rout s = Some r -> exists d, r = d ++ rout.
Proof.
  intros rout s r H. unfold apply_seq in H.
  destruct (off_ok (s_off s) && (4 <=? s_mlen s)); [|discriminate].
  destruct (copy_match_suffix _ _ _ _ H) as [d Hd]. exists (d ++ rev (s_lits s)).
  rewrite Hd, <- app_assoc. reflexivity.
Qed.

Lemma apply_seqs_ext : forall ss rout e r,
  apply_seqs rout ss = Some r -> apply_seqs (rout ++ e) ss = Some (r ++ e).
Proof.
  induction ss as [|s ss IH]; intros rout e r H; cbn [apply_seqs] in *.
  - inversion H. reflexivity.
  - destruct (apply_seq rout s) as [r1|] eqn:E; [|discriminate].
    rewrite (apply_seq_ext _ _ e _ E). apply IH. exact H.
Qed.

Lemma apply_seqs_suffix : forall ss rout r, apply_seqs rout ss = Some r -> exists d, r = d ++ rout.
Proof.
  induction ss as [|s ss IH]; intros rout r H; cbn [apply_seqs] in *.
  - inversion H. exists []. reflexivity.
  - destruct (apply_seq rout s) as [r1|] eqn:E; [|discriminate].
    destruct (apply_seq_suffix _ _ _ E) as [d1 Hd1]. destruct (IH _ _ H) as [d Hd].
    exists (d ++ d1). rewrite Hd, Hd1, <- app_assoc. reflexivity.
Qed.

Theorem run_seqs_ext : forall h' h ss last x,
  run_seqs h ss last = Some x -> run_seqs (h' ++ h) ss last = Some x.
Proof.
  intros h' h ss last x H. unfold run_seqs in *.
  destruct (apply_seqs (rev h) ss) as [r|] eqn:E; [|discriminate].
  rewrite rev_app_distr. rewrite (apply_seqs_ext _ _ (rev h') _ E).
  destruct (apply_seqs_suffix _ _ _ E) as [d Hd]. subst r.
  inversion H as [Hx]. f_equal.
  rewrite !rev_app_distr, !rev_involutive.
  rewrite <- !app_assoc.
  rewrite (skipn_app_exact h (rev d ++ last)).
  rewrite (app_assoc h' h). apply skipn_app_exact.
Qed.

Theorem spec_decode_ext : forall h' h c x,
  spec_decode h c = Some x -> spec_decode (h' ++ h) c = Some x.
Proof.
  intros h' h c x H. unfold spec_decode in *.
  destruct (parse_block c) as [[ss last]|]; [|discriminate]. apply run_seqs_ext. exact H.
Qed.

Theorem strict_valid_ext : forall h' h c x,
  strict_valid h c = Some x -> strict_valid (h' ++ h) c = Some x.
Proof.
  intros h' h c x H. unfold strict_valid in *.
  destruct (parse_block c) as [[ss last]|]; [|discriminate].
  destruct (end_ok ss last); [|discriminate]. apply run_seqs_ext. exact H.
Qed.

Lemma strict_valid_spec_decode : forall h c x, strict_valid h c = Some x -> spec_decode h c = Some x.
Proof.
  intros h c x H. unfold strict_valid, spec_decode in *.
  destruct (parse_block c) as [[ss last]|]; [|discriminate].
  destruct (end_ok ss last); [exact H|discriminate].
Qed.
