(* Concrete, non-trivial instances of the streaming theorems at levels 3..12 (memory, dictionary and blocks of
   Proofs/FastStreamExamples.v), with changes of strategy hash chain <-> optimal parser inside one history. *)
From Coq Require Import ZArith List Lia Bool.
From LZ4V Require Import Gen.Consts Spec.BlockSpec Model.Mem Model.Fast Model.FastApi Model.HcEmit Model.HcMid Model.HcMidStream.
From LZ4V Require Import Model.HcChain Model.HcChainApi Model.HcOpt Model.HcOptApi Model.HcChainStream Model.HcTabStream Model.HcOptStream.
From LZ4V Require Import Proofs.FastStreamMem Proofs.FastStreamExamples Proofs.HcMidStreamProofs Proofs.HcMidStreamHist.
From LZ4V Require Import Proofs.HcChainStreamProofs Proofs.HcTabStreamProofs Proofs.HcOptStreamProofs.
Import ListNotations.
Local Open Scope Z_scope.

Definition ex_oc0 : tctx := ts_setLevel ts_init 11.
Lemma ex_ostate : tstate_inv (ex_m, ex_oc0).
Proof. split; [exact ex_m_ok | apply ts_setLevel_ok; exact ts_init_ok]. Qed.

(* level 11 (optimal parser): loadDictHC, a block elsewhere (external segment = the dictionary), a contiguous block;
   level 5 (hash chain) on the same tables: saveDictHC, a block against the saved bytes; level 12 (ultra) with
   favorDecSpeed: a destSize call with an 8-byte budget (partial: re-anchored), a failing call (capacity 10: dirty),
   LZ4_resetStreamHC_fast at level 10, a block *)
Definition ex_oops : list top :=
  [TLoadDict 1000 81; TContinue 3000 78 200; TContinue 3078 63 200; TSetLevel 5; TSaveDict 5000 100; TContinue 3000 78 200;
   TSetLevel 12; TSetFav true; TContinueDestSize 3078 63 8; TContinue 3000 78 10; TResetFast 10; TContinue 3000 78 200].

Lemma ostream_pre_cons st H o r st' ret out consumed :
  top_pre st o ->
  match o with
  | TContinue src n _ | TContinueDestSize src n _ =>
    forall ke cte, ts_effective lvl_all (fst st) (snd st) src n = Some (ke, cte) -> hhist_inv (fst st) ke H
  | _ => True
  end ->
  ostep st o = Some (st', (ret, out, consumed)) ->
  tstream_pre blk_all lvl_all st' (thist_next st H o ret consumed) r ->
  tstream_pre blk_all lvl_all st H (o :: r).
Proof. intros P1 P2 E P3. cbn [tstream_pre]. unfold ostep in E. rewrite E. split; [exact P1 | split; [exact P2 | exact P3]]. Qed.

Ltac onum := vm_compute; first [reflexivity | exact I | (intro; discriminate)].
Ltac ohist_tac :=
  first [exact I |
    (intros ke cte He; vm_compute in He; injection He as <- <-; unfold hhist_inv;
     match goal with |- is_suffix ?v ?H =>
       let vv := eval vm_compute in v in let hh := eval vm_compute in H in
       exists (firstn (length hh - length vv) hh) end;
     vm_compute; reflexivity)].
Ltac ostep_tac :=
  match goal with |- tstream_pre blk_all lvl_all ?st ?H (?o :: ?r) =>
    let v := eval vm_compute in (ostep st o) in
    match v with Some (?st', (?ret, ?out, ?consumed)) =>
      apply (ostream_pre_cons st H o r st' ret out consumed);
      [ first [exact I | repeat split; onum] | ohist_tac | vm_compute; reflexivity | ]
    end
  end.

Lemma ex_ostream_pre : tstream_pre blk_all lvl_all (ex_m, ex_oc0) [] ex_oops.
Proof. unfold ex_oops. repeat ostep_tac. exact I. Qed.

Fixpoint otrace (st : mem * tctx) (ops : list top) : list (option (Z * Z)) :=
  match ops with
  | [] => []
  | o :: r => match ostep st o with Some (st', (ret, _, consumed)) => Some (ret, consumed) :: otrace st' r | None => [None] end
  end.
Lemma ex_otrace :
  otrace (ex_m, ex_oc0) ex_oops =
  [Some (81, 0); Some (20, 78); Some (18, 63); Some (0, 0); Some (100, 0); Some (27, 78); Some (0, 0); Some (0, 0); Some (8, 7); Some (0, 78);
   Some (0, 0); Some (73, 78)].
Proof. vm_compute. reflexivity. Qed.

(* the first block (optimal parser, level 11) needs the dictionary (indexed by the LZ4HC_Insert of LZ4_loadDictHC) *)
Definition ex_oout (st : mem * tctx) (o : top) : list Z := match ostep st o with Some (_, (_, out, _)) => out | None => [] end.
Definition ex_ost1 : mem * tctx := match ostep (ex_m, ex_oc0) (TLoadDict 1000 81) with Some (st, _) => st | None => (ex_m, ex_oc0) end.
Lemma ex_oresults :
  strict_valid ex_dict (ex_oout ex_ost1 (TContinue 3000 78 200)) = Some ex_b1 /\
  strict_valid [] (ex_oout ex_ost1 (TContinue 3000 78 200)) = None.
Proof. vm_compute. split; reflexivity. Qed.
